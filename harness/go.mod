module verif/harness

go 1.24
