// probeigp: a Hyperlane forwarding through an interchain gas paymaster (IGP) hook that charges its fee in a
// denomination the orbiter account happens to hold (anybody can send coins there): is the transfer funded by
// those coins?  (DESIGN.md, observations)
package main

import (
	"fmt"

	"cosmossdk.io/math"
	sdk "github.com/cosmos/cosmos-sdk/types"
	"github.com/cosmos/gogoproto/proto"

	pdtypes "github.com/bcp-innovations/hyperlane-cosmos/x/core/02_post_dispatch/types"

	orbtypes "github.com/noble-assets/orbiter/v2/types"
	forwardingtypes "github.com/noble-assets/orbiter/v2/types/controller/forwarding"
	"github.com/noble-assets/orbiter/v2/types/core"

	"verif/harness/internal/sim"
	"verif/harness/internal/world"
)

func main() {
	s, err := sim.New(sim.Options{})
	if err != nil {
		panic(err)
	}
	w, err := world.New(s)
	if err != nil {
		panic(err)
	}
	base, _ := s.Ctx.CacheContext()
	for _, m := range []string{"cctp", "warp", "hyperlane", "fiat-tokenfactory", "transfer"} {
		s.App.AccountKeeper.GetModuleAccount(base, m)
	}
	run := func(ctx sdk.Context, msg sdk.Msg) *sdk.Result {
		r, err := s.App.MsgServiceRouter().Handler(msg)(ctx, msg)
		if err != nil {
			panic(fmt.Sprintf("%T: %v", msg, err))
		}
		return r
	}
	owner := sim.Authority
	r := run(base, &pdtypes.MsgCreateIgp{Owner: owner, Denom: "ufoo"})
	var igp pdtypes.MsgCreateIgpResponse
	if err := proto.Unmarshal(r.MsgResponses[0].Value, &igp); err != nil {
		panic(err)
	}
	run(base, &pdtypes.MsgSetDestinationGasConfig{Owner: owner, IgpId: igp.Id, DestinationGasConfig: &pdtypes.DestinationGasConfig{RemoteDomain: 1,
		GasOracle: &pdtypes.GasOracle{TokenExchangeRate: math.NewInt(10_000_000_000), GasPrice: math.NewInt(1)}, GasOverhead: math.NewInt(0)}})
	if err := w.FundEscrow(base, "transfer", "channel-0", sdk.NewCoin(sim.USDC, math.NewInt(5_000_000))); err != nil {
		panic(err)
	}
	attrs := &forwardingtypes.HypAttributes{TokenId: []byte(s.HypTokens[sim.USDC]), DestinationDomain: 1, Recipient: make([]byte, 32),
		CustomHookId: igp.Id.Bytes(), GasLimit: math.NewInt(1000), MaxFee: sdk.NewCoin("ufoo", math.NewInt(5000))}
	f := &core.Forwarding{ProtocolId: core.PROTOCOL_HYPERLANE}
	if err := f.SetAttributes(attrs); err != nil {
		panic(err)
	}
	bz, err := orbtypes.MarshalJSON(s.App.OrbiterKeeper.Codec(), &core.PayloadWrapper{Orbiter: &core.Payload{Forwarding: f}})
	if err != nil {
		panic(err)
	}
	pkt := world.Packet{SrcPort: "transfer", SrcChan: "channel-7", DstPort: "transfer", DstChan: "channel-0",
		ICS: &world.ICS20{Denom: "transfer/channel-7/" + sim.USDC, Amount: "1000", Sender: sim.Authority, Receiver: sim.OrbiterAddr().String(), Memo: string(bz)}}
	// finding 19: the paymaster's own arithmetic on the sender's gas limit
	{
		hugeGas, _ := math.NewIntFromString("115792089237316195423570985008687907853269984665640564039457584007913129639935")
		a2 := *attrs
		a2.GasLimit = hugeGas
		f2 := &core.Forwarding{ProtocolId: core.PROTOCOL_HYPERLANE}
		if err := f2.SetAttributes(&a2); err != nil {
			panic(err)
		}
		bz2, err := orbtypes.MarshalJSON(s.App.OrbiterKeeper.Codec(), &core.PayloadWrapper{Orbiter: &core.Payload{Forwarding: f2}})
		if err != nil {
			panic(err)
		}
		p2 := pkt
		ics := *pkt.ICS
		ics.Memo = string(bz2)
		p2.ICS = &ics
		ctx, _ := base.CacheContext()
		o := w.RunOp(ctx, world.Op{Kind: "recv", Pkt: p2})
		fmt.Printf("gas limit 2^256-1 through the paymaster: class %d success %v panic %q ack %s\n", o.Recv.Class, o.Recv.Success, o.Recv.Panic, o.Recv.Ack)
	}
	for _, prior := range []int64{0, 10000} {
		ctx, _ := base.CacheContext()
		if prior > 0 {
			if err := s.MintUnchecked(ctx, sim.OrbiterAddr(), sdk.NewCoins(sdk.NewCoin("ufoo", math.NewInt(prior)))); err != nil {
				panic(err)
			}
		}
		o := w.RunOp(ctx, world.Op{Kind: "recv", Pkt: pkt})
		fmt.Printf("orbiter held %d ufoo before: class %d success %v panic %q ack %s; orbiter ufoo after: %s\n", prior, o.Recv.Class, o.Recv.Success, o.Recv.Panic, o.Recv.Ack,
			s.App.BankKeeper.GetBalance(ctx, sim.OrbiterAddr(), "ufoo").Amount)
	}
}
