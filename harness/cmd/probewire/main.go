// probewire: how the stack with and without the middleware treats packet data that is not ICS-20 data for
// ibc-go's strict decoder (an extra key) but names the orbiter account as receiver.
package main

import (
	"fmt"

	"verif/harness/internal/sim"
	"verif/harness/internal/world"
)

func main() {
	s, err := sim.New(sim.Options{})
	if err != nil {
		panic(err)
	}
	w, err := world.New(s)
	if err != nil {
		panic(err)
	}
	ctx, _ := s.Ctx.CacheContext()
	for _, memo := range []string{"hello", `{\"orbiter\":{}}`, ""} {
		raw := `{"denom":"transfer/channel-7/uusdc","amount":"100","sender":"` + sim.Authority + `","receiver":"` + sim.OrbiterAddr().String() + `","memo":"` + memo + `","fee":"1"}`
		p := world.Packet{SrcPort: "transfer", SrcChan: "channel-7", DstPort: "transfer", DstChan: "channel-0", Raw: []byte(raw)}
		o := w.RunOp(ctx, world.Op{Kind: "recv", Pkt: p, Ref: true})
		fmt.Printf("memo %q: orbiter flow %v, ref ran %v, diff %q, class %d ack %s\n", memo, world.IsOrbiterFlow(p), o.RefRan, o.RefDiff, o.Recv.Class, o.Recv.Ack)
	}
}
