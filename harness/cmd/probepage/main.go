// probepage walks a statistics listing in reverse with page size 1 when one key is a byte prefix of
// another ("1" and "10" as CCTP domains): DESIGN.md, finding 15.
package main

import (
	"fmt"

	"github.com/cosmos/cosmos-sdk/types/query"

	dispatchercomp "github.com/noble-assets/orbiter/v2/keeper/component/dispatcher"
	dispatchertypes "github.com/noble-assets/orbiter/v2/types/component/dispatcher"
	"github.com/noble-assets/orbiter/v2/types/core"

	"verif/harness/internal/sim"
)

func main() {
	s, err := sim.New(sim.Options{})
	if err != nil {
		panic(err)
	}
	ctx, _ := s.Ctx.CacheContext()
	d := s.App.OrbiterKeeper.Dispatcher()
	src := core.CrossChainID{ProtocolId: core.PROTOCOL_IBC, CounterpartyId: "channel-0"}
	for _, cp := range []string{"1", "10", "2"} {
		dst := core.CrossChainID{ProtocolId: core.PROTOCOL_CCTP, CounterpartyId: cp}
		if err := d.SetDispatchedCounts(ctx, &src, &dst, 3); err != nil {
			panic(err)
		}
	}
	qs := dispatchercomp.NewQueryServer(d)
	for _, rev := range []bool{false, true} {
		var key []byte
		fmt.Printf("reverse=%v:", rev)
		for page := 0; page < 8; page++ {
			rsp, err := qs.DispatchedCountsBySourceProtocolID(ctx, &dispatchertypes.QueryDispatchedCountsByProtocolIDRequest{ProtocolId: "PROTOCOL_IBC",
				Pagination: &query.PageRequest{Key: key, Limit: 1, Reverse: rev}})
			if err != nil {
				fmt.Print(" error ", err)
				break
			}
			for _, c := range rsp.Counts {
				fmt.Printf(" %s", c.DestinationId.CounterpartyId)
			}
			fmt.Printf(" (next %q)", rsp.Pagination.NextKey)
			if len(rsp.Pagination.NextKey) == 0 {
				break
			}
			key = rsp.Pagination.NextKey
		}
		fmt.Println()
	}
}
