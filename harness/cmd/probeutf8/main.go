// probeutf8: a counterparty identifier of the INTERNAL protocol that is not valid UTF-8 is accepted by the pause
// message; does the state survive an export / import of the genesis?  (finding 20)
package main

import (
	"fmt"

	"verif/harness/internal/sim"
	"verif/harness/internal/world"
)

func main() {
	s, err := sim.New(sim.Options{})
	if err != nil {
		panic(err)
	}
	w, err := world.New(s)
	if err != nil {
		panic(err)
	}
	ctx, _ := s.Ctx.CacheContext()
	o := w.RunOp(ctx, world.Op{Kind: "msg", Msg: world.Msg{Kind: "PauseCrossChains", Signer: sim.Authority, ID: "PROTOCOL_INTERNAL", IDs: []string{"a\xffb"}}})
	fmt.Printf("pause of (INTERNAL, %q): ok=%v err=%q\n", "a\xffb", o.MsgOK, o.MsgErr)
	fmt.Printf("stored: %v\n", w.ObserveState(ctx).CC)
	mod := s.App.ModuleManager.Modules["orbiter"]
	_ = mod
	gen := s.App.OrbiterKeeper.ExportGenesis(ctx)
	bz, err := s.App.OrbiterKeeper.Codec().MarshalJSON(gen)
	fmt.Printf("exported paused cross-chains: %s (marshal err %v)\n", bz, err)
}
