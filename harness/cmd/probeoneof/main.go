// probeoneof parses one memo whose fee entry carries both alternatives of the fee type many times
// and prints how often each alternative was kept (DESIGN.md, findings: ambiguous oneof).
package main

import (
	"fmt"

	actiontypes "github.com/noble-assets/orbiter/v2/types/controller/action"

	"verif/harness/internal/sim"
	"verif/harness/internal/world"
)

func main() {
	s, err := sim.New(sim.Options{})
	if err != nil {
		panic(err)
	}
	w, err := world.New(s)
	if err != nil {
		panic(err)
	}
	memo := `{"orbiter":{"pre_actions":[{"id":"ACTION_FEE","attributes":{"@type":"/noble.orbiter.controller.action.v2.FeeAttributes","fees_info":[{"recipient":"noble1zw7vatnx0vla7gzxucgypz0kfr6965akpvzw69","basis_points":{"value":100},"amount":{"value":"5"}}]}}],"forwarding":{"protocol_id":"PROTOCOL_INTERNAL","attributes":{"@type":"/noble.orbiter.controller.forwarding.v1.InternalAttributes","recipient":"noble1zw7vatnx0vla7gzxucgypz0kfr6965akpvzw69"}}}}`
	counts := map[string]int{}
	for i := 0; i < 200; i++ {
		p, err := w.Parse(memo)
		if err != nil {
			counts["refused"]++
			continue
		}
		attr, _ := p.PreActions[0].CachedAttributes()
		switch attr.(*actiontypes.FeeAttributes).FeesInfo[0].FeeType.(type) {
		case *actiontypes.FeeInfo_BasisPoints_:
			counts["basis_points kept"]++
		case *actiontypes.FeeInfo_Amount_:
			counts["amount kept"]++
		default:
			counts["none"]++
		}
	}
	fmt.Println(counts)
}
