// probehyp sends one otherwise valid Hyperlane transfer whose max_fee is a coin the SDK refuses to build
// (a positive amount of an invalid denomination) through the whole stack.
package main

import (
	"fmt"
	"math/big"
	"os"

	"cosmossdk.io/math"
	sdk "github.com/cosmos/cosmos-sdk/types"

	orbtypes "github.com/noble-assets/orbiter/v2/types"
	forwardingtypes "github.com/noble-assets/orbiter/v2/types/controller/forwarding"
	"github.com/noble-assets/orbiter/v2/types/core"

	"verif/harness/internal/sim"
	"verif/harness/internal/world"
)

func main() {
	s, err := sim.New(sim.Options{})
	if err != nil {
		panic(err)
	}
	w, err := world.New(s)
	if err != nil {
		panic(err)
	}
	denom, amtB, gasB := "1bad", big.NewInt(1), big.NewInt(0)
	if len(os.Args) > 1 {
		denom = os.Args[1]
	}
	if len(os.Args) > 2 {
		amtB, _ = new(big.Int).SetString(os.Args[2], 10)
	}
	if len(os.Args) > 3 {
		gasB, _ = new(big.Int).SetString(os.Args[3], 10)
	}
	ctx, _ := s.Ctx.CacheContext()
	for _, m := range []string{"cctp", "warp", "hyperlane", "fiat-tokenfactory", "transfer"} {
		s.App.AccountKeeper.GetModuleAccount(ctx, m)
	}
	if err := w.FundEscrow(ctx, "transfer", "channel-0", sdk.NewCoin(sim.USDC, math.NewInt(5_000_000))); err != nil {
		panic(err)
	}
	attrs := &forwardingtypes.HypAttributes{TokenId: []byte(s.HypTokens[sim.USDC]), DestinationDomain: 1, Recipient: make([]byte, 32),
		GasLimit: math.NewIntFromBigInt(gasB), MaxFee: sdk.Coin{Denom: denom, Amount: math.NewIntFromBigInt(amtB)}}
	f := &core.Forwarding{ProtocolId: core.PROTOCOL_HYPERLANE}
	if err := f.SetAttributes(attrs); err != nil {
		panic(err)
	}
	bz, err := orbtypes.MarshalJSON(s.App.OrbiterKeeper.Codec(), &core.PayloadWrapper{Orbiter: &core.Payload{Forwarding: f}})
	if err != nil {
		panic(err)
	}
	pkt := world.Packet{SrcPort: "transfer", SrcChan: "channel-7", DstPort: "transfer", DstChan: "channel-0",
		ICS: &world.ICS20{Denom: "transfer/channel-7/" + sim.USDC, Amount: "1000", Sender: sim.Authority, Receiver: sim.OrbiterAddr().String(), Memo: string(bz)}}
	o := w.RunOp(ctx, world.Op{Kind: "recv", Pkt: pkt})
	fmt.Printf("memo %s\nclass %d success %v panic %q ack %s\n", bz, o.Recv.Class, o.Recv.Success, o.Recv.Panic, o.Recv.Ack)
	for _, c := range o.Trace {
		fmt.Println("  ", c.String())
	}
}
