package fam

import (
	"regexp"
	"encoding/hex"
	"fmt"
	"math/big"
	"sort"
	"strings"

	"cosmossdk.io/math"
	codectypes "github.com/cosmos/cosmos-sdk/codec/types"
	sdk "github.com/cosmos/cosmos-sdk/types"
	"github.com/cosmos/gogoproto/proto"
	transfertypes "github.com/cosmos/ibc-go/v8/modules/apps/transfer/types"

	orbtypes "github.com/noble-assets/orbiter/v2/types"
	actiontypes "github.com/noble-assets/orbiter/v2/types/controller/action"
	forwardingtypes "github.com/noble-assets/orbiter/v2/types/controller/forwarding"
	"github.com/noble-assets/orbiter/v2/types/core"

	"verif/harness/internal/cq"
	"verif/harness/internal/rng"
	"verif/harness/internal/sim"
	"verif/harness/internal/world"
)

// ---------------------------------------------------------------------------------------------
// actors
// ---------------------------------------------------------------------------------------------

type actors struct {
	users   []Addr // internal recipients / senders
	feeRcps []Addr
	escrow0 sdk.AccAddress
	escrow1 sdk.AccAddress
}

const (
	srcPort = "transfer"
	srcChan = "channel-7"
	dstPort = "transfer"
)

var dstChans = []string{"channel-0", "channel-1"}

func newActors() actors {
	sim.SetConfig()
	return actors{
		users:   []Addr{mkAddr(101), mkAddr(102), mkAddr(103)},
		feeRcps: feeRecipients()[:4],
		escrow0: world.Escrow(dstPort, "channel-0"),
		escrow1: world.Escrow(dstPort, "channel-1"),
	}
}

func (a actors) tracked() []world.Acct {
	t := []world.Acct{
		{Name: "orbiter", Addr: sim.OrbiterAddr()}, {Name: "dust", Addr: sim.DustAddr()},
		{Name: "escrow0", Addr: a.escrow0}, {Name: "escrow1", Addr: a.escrow1},
		{Name: "warp", Addr: world.ModAddr("warp")}, {Name: "cctp", Addr: world.ModAddr("cctp")},
		{Name: "hyperlane", Addr: world.ModAddr("hyperlane")}, {Name: "ftf", Addr: world.ModAddr("fiat-tokenfactory")},
		{Name: "transfer", Addr: world.ModAddr("transfer")}, {Name: "pool", Addr: PoolAddr()},
	}
	for i, u := range a.users {
		t = append(t, world.Acct{Name: fmt.Sprintf("user%d", i), Addr: u.Raw})
	}
	for i, u := range a.feeRcps {
		t = append(t, world.Acct{Name: fmt.Sprintf("fee%d", i), Addr: u.Raw})
	}
	return t
}

// ---------------------------------------------------------------------------------------------
// payload specifications
// ---------------------------------------------------------------------------------------------

type fwdSpec struct {
	kind string // cctp hyp internal
	pid  int32  // protocol id written in the payload (may mismatch the attributes)
	// cctp
	domain    uint32
	recipient []byte
	caller    []byte
	// hyp
	token    []byte
	hook     []byte
	gasHook  bool // the custom hook is one of the chain's gas paymasters
	metadata string
	gas      *big.Int
	feeDenom string
	feeAmt   *big.Int
	// internal
	to   string
	pass []byte
	// nilAttrs: no attributes at all
	nilAttrs bool
}

func (f fwdSpec) attrs() proto.Message {
	switch f.kind {
	case "cctp":
		return &forwardingtypes.CCTPAttributes{DestinationDomain: f.domain, MintRecipient: f.recipient, DestinationCaller: f.caller}
	case "hyp":
		a := &forwardingtypes.HypAttributes{TokenId: f.token, DestinationDomain: f.domain, Recipient: f.recipient, CustomHookId: f.hook,
			CustomHookMetadata: f.metadata, GasLimit: math.NewIntFromBigInt(f.gas)}
		a.MaxFee = sdk.Coin{Denom: f.feeDenom, Amount: math.NewIntFromBigInt(f.feeAmt)}
		return a
	default:
		return &forwardingtypes.InternalAttributes{Recipient: f.to}
	}
}

type paySpec struct {
	swap      bool // a swap action (C06)
	swapFirst bool // ... before the fee actions
	swapTwice bool
	fees   [][]feeEntry // one fee action per element (usually 0 or 1)
	extra  []extraAction
	fwd    fwdSpec
	noFwd  bool
	apart  bool    // with two fee actions: another action (ACTION_SWAP) sits between them
	rawMem *string // when set, the memo text verbatim
}

type extraAction struct {
	id    int32
	attrs proto.Message
}

func anyOf(m proto.Message) *codectypes.Any {
	a, err := codectypes.NewAnyWithValue(m)
	if err != nil {
		panic(err)
	}
	return a
}

// build returns the payload object and its memo. ok=false when the spec cannot be marshalled.
func (p paySpec) build(cdc interface {
	MarshalJSON(o proto.Message) ([]byte, error)
}) (pl *core.Payload, memo string, ok bool) {
	defer func() {
		if r := recover(); r != nil {
			pl, memo, ok = nil, "", false
		}
	}()
	pl = &core.Payload{}
	swapAction := func() *core.Action {
		return &core.Action{Id: core.ACTION_SWAP, Attributes: anyOf(&actiontypes.FeeAttributes{})}
	}
	if p.swap && p.swapFirst {
		pl.PreActions = append(pl.PreActions, swapAction())
	}
	for k, fl := range p.fees {
		infos := make([]*actiontypes.FeeInfo, len(fl))
		for i, e := range fl {
			infos[i] = e.toProto()
		}
		if k == 1 && p.apart {
			pl.PreActions = append(pl.PreActions, swapAction())
		}
		pl.PreActions = append(pl.PreActions, &core.Action{Id: core.ACTION_FEE, Attributes: anyOf(&actiontypes.FeeAttributes{FeesInfo: infos})})
	}
	if p.swap && !p.swapFirst {
		pl.PreActions = append(pl.PreActions, swapAction())
	}
	if p.swap && p.swapTwice {
		pl.PreActions = append(pl.PreActions, swapAction())
	}
	for _, x := range p.extra {
		a := &core.Action{Id: core.ActionID(x.id)}
		if x.attrs != nil {
			a.Attributes = anyOf(x.attrs)
		}
		pl.PreActions = append(pl.PreActions, a)
	}
	if !p.noFwd {
		f := &core.Forwarding{ProtocolId: core.ProtocolID(p.fwd.pid), PassthroughPayload: p.fwd.pass}
		if !p.fwd.nilAttrs {
			f.Attributes = anyOf(p.fwd.attrs())
		}
		pl.Forwarding = f
	}
	bz, err := cdc.MarshalJSON(&core.PayloadWrapper{Orbiter: pl})
	if err != nil {
		return nil, "", false
	}
	return pl, string(bz), true
}

// ---------------------------------------------------------------------------------------------
// generators
// ---------------------------------------------------------------------------------------------

// profile tunes the history generator for one property.
type profile struct {
	name        string
	minOps      int
	maxOps      int
	wRecv       int // weights of operation kinds
	wMsg        int
	wDeposit    int
	wQuery      int
	pOrbiter    int // % of packets addressed to the orbiter
	pFee        int // % of orbiter packets with a fee action
	pBadPayload int // % of orbiter packets with a malformed / mismatched payload
	pFault      int // % of orbiter packets with an injected fault
	pLie        int
	pWrongSign  int // % of messages signed by someone else
	pPass       int // % of orbiter packets with a passthrough payload
	pHuge       int // % of packets with an extreme amount
	pBadDenom   int
	routes      []string
	msgKinds    []string
	mask        []int // kept components of each operation's output (nil: all)
	pOddChan    int   // % of packets arriving on an unusual (but mostly valid) destination channel
	pCallback   int   // % of packet operations that drive another IBC callback instead (differential only)
	pSwap       int   // % of orbiter packets with a swap action (needs the instrumented instance with the swap controller)
	pPlanned    int   // % of messages chosen to be valid for the state the history has reached (deep histories)
	pInitLimit  int   // % of histories that begin with the authority raising the passthrough limit
	pGasHook    int   // % of Hyperlane forwardings that go through a gas paymaster of the chain
	pExtPanic   int   // % of orbiter packets during which an external module panics
	wSend       int   // weight of a user's own bank send among the operation kinds
	pRepeat     int   // % of packets that are the previous packet once more (same route), refunded by the history itself
	pOddWire    int   // % of ICS-20 packets whose data travels as another JSON text (escapes, extra keys, key case ...)
}

// share of Hyperlane forwardings through a gas paymaster, per profile (8 where not listed)
var gasHookShare = map[string]int{"C02": 20, "C05": 40, "C11": 30, "C01": 12, "C03": 12, "C14": 12}

var oddWireShare = map[string]int{"C01": 8, "C07": 14, "C14": 6, "C16": 5, "C19": 0}
var sendWeight = map[string]int{"C11": 8, "C14": 7, "C01": 4, "mix": 3}
var extPanicShare = map[string]int{"C03": 12, "C01": 7, "C14": 6, "mix": 4, "C02": 3}

func init() {
	for k, p := range profiles {
		if p.pExtPanic == 0 {
			p.pExtPanic = extPanicShare[k]
			profiles[k] = p
		}
		if p.wSend == 0 {
			p.wSend = sendWeight[k]
			profiles[k] = p
		}
		if p.pRepeat == 0 {
			p.pRepeat = map[string]int{"C02": 14, "C12": 14, "C03": 5, "C01": 5, "mix": 4, "C13": 6}[k]
			profiles[k] = p
		}
		if p.pOddWire == 0 {
			p.pOddWire = 2
			if v, ok := oddWireShare[k]; ok {
				p.pOddWire = v
			}
			profiles[k] = p
		}
		if p.pGasHook == 0 {
			p.pGasHook = 8
			if v, ok := gasHookShare[k]; ok {
				p.pGasHook = v
			}
			profiles[k] = p
		}
	}
}

var allMsgKinds = []string{"PauseProtocol", "UnpauseProtocol", "PauseCrossChains", "UnpauseCrossChains", "PauseAction", "UnpauseAction", "UpdateParams", "ReplaceDepositForBurn"}

var cleanRoutes = []string{"cctp", "hyp", "internal"}

var profiles = map[string]profile{
	// C01: receiver encodings, every route and recipient (the orbiter account itself included), prior deposits
	"C01": {name: "C01", minOps: 2, maxOps: 6, wRecv: 70, wMsg: 8, wDeposit: 17, wQuery: 5, pOrbiter: 88, pFee: 50, pBadPayload: 30,
		pFault: 0, pLie: 0, pWrongSign: 5, pPass: 10, pHuge: 8, pBadDenom: 8, routes: cleanRoutes, msgKinds: allMsgKinds, mask: []int{0, 2}, pPlanned: 40, pInitLimit: 30},
	// C02: amounts up to 2^256-1, fee lists, all routes, prior ledger states
	"C02": {name: "C02", minOps: 1, maxOps: 5, wRecv: 80, wMsg: 2, wDeposit: 18, wQuery: 0, pOrbiter: 95, pFee: 70, pBadPayload: 8,
		pFault: 0, pLie: 0, pWrongSign: 0, pPass: 0, pHuge: 25, pBadDenom: 4, routes: cleanRoutes, msgKinds: []string{"UpdateParams"}, mask: []int{0, 2, 3}},
	// C03: every single fault position, lies of the balance query, natural failures
	"C03": {name: "C03", minOps: 1, maxOps: 4, wRecv: 90, wMsg: 0, wDeposit: 10, wQuery: 0, pOrbiter: 97, pFee: 65, pBadPayload: 22,
		pFault: 55, pLie: 8, pWrongSign: 0, pPass: 0, pHuge: 6, pBadDenom: 3, routes: cleanRoutes, msgKinds: []string{"UpdateParams"}, mask: []int{0, 1, 2, 4}},
	// C05: the recorded requests
	"C05": {name: "C05", minOps: 1, maxOps: 4, wRecv: 85, wMsg: 15, wDeposit: 0, wQuery: 0, pOrbiter: 97, pFee: 50, pBadPayload: 30,
		pFault: 0, pLie: 0, pWrongSign: 15, pPass: 30, pHuge: 5, pBadDenom: 2, routes: cleanRoutes, msgKinds: []string{"ReplaceDepositForBurn", "UpdateParams", "UpdateParams"}, mask: []int{0, 1}, pInitLimit: 50},
	// C08: pause / unpause histories interleaved with probes to every destination
	"C08": {name: "C08", minOps: 4, maxOps: 14, wRecv: 40, wMsg: 40, wDeposit: 0, wQuery: 20, pOrbiter: 96, pFee: 20, pBadPayload: 3,
		pFault: 0, pLie: 0, pWrongSign: 10, pPass: 0, pHuge: 0, pBadDenom: 0, routes: cleanRoutes,
		msgKinds: []string{"PauseProtocol", "UnpauseProtocol", "PauseCrossChains", "UnpauseCrossChains", "PauseCrossChains", "UnpauseCrossChains"}, mask: []int{0, 1, 4}, pPlanned: 70},
	// C20, end-to-end part: pauses of identifiers (batches, repeats, edges of the accepted range) followed by probe transfers
	"C20": {name: "C20", minOps: 5, maxOps: 14, wRecv: 40, wMsg: 45, wDeposit: 0, wQuery: 15, pOrbiter: 97, pFee: 10, pBadPayload: 2,
		pFault: 0, pLie: 0, pWrongSign: 4, pPass: 0, pHuge: 0, pBadDenom: 0, routes: []string{"cctp", "hyp", "cctp", "hyp", "internal"},
		msgKinds: []string{"PauseCrossChains", "UnpauseCrossChains", "PauseCrossChains", "PauseCrossChains", "PauseProtocol", "UnpauseProtocol"}, mask: []int{0, 1, 4}, pPlanned: 60},
	"C09": {name: "C09", minOps: 3, maxOps: 10, wRecv: 45, wMsg: 35, wDeposit: 0, wQuery: 20, pOrbiter: 96, pFee: 60, pBadPayload: 3,
		pFault: 0, pLie: 0, pWrongSign: 10, pPass: 0, pHuge: 0, pBadDenom: 0, routes: cleanRoutes,
		msgKinds: []string{"PauseAction", "UnpauseAction", "PauseAction", "UnpauseAction", "PauseProtocol"}, mask: []int{0, 1, 2, 4}, pPlanned: 75},
	// C10: every message kind, every kind of signer
	"C10": {name: "C10", minOps: 3, maxOps: 10, wRecv: 10, wMsg: 80, wDeposit: 0, wQuery: 10, pOrbiter: 90, pFee: 30, pBadPayload: 0,
		pFault: 0, pLie: 0, pWrongSign: 50, pPass: 0, pHuge: 0, pBadDenom: 0, routes: cleanRoutes, msgKinds: allMsgKinds, mask: []int{0, 1, 4}, pPlanned: 75},
	// C11: deposits onto the orbiter account crossed with transfers; each packet also runs on a twin branch with an emptied account
	"C11": {name: "C11", minOps: 2, maxOps: 7, wRecv: 55, wMsg: 5, wDeposit: 40, wQuery: 0, pOrbiter: 95, pFee: 50, pBadPayload: 10,
		pFault: 0, pLie: 0, pWrongSign: 0, pPass: 30, pHuge: 12, pBadDenom: 3, routes: cleanRoutes, msgKinds: []string{"UpdateParams"}, mask: []int{0, 1, 2, 4},
		pPlanned: 80, pInitLimit: 50},
	// C12: long mixed histories
	"C12": {name: "C12", minOps: 6, maxOps: 24, wRecv: 80, wMsg: 10, wDeposit: 5, wQuery: 5, pOrbiter: 90, pFee: 50, pBadPayload: 12,
		pFault: 5, pLie: 0, pWrongSign: 10, pPass: 5, pHuge: 4, pBadDenom: 5, routes: cleanRoutes, msgKinds: allMsgKinds, mask: []int{0, 4}, pPlanned: 50, pInitLimit: 30, pSwap: 25},
	// C13: mostly successful transfers over all routes, to populate the ledgers
	"C13": {name: "C13", minOps: 1, maxOps: 2, wRecv: 100, pOrbiter: 100, pFee: 30, pBadPayload: 2, routes: cleanRoutes, msgKinds: allMsgKinds, pPlanned: 0},
	// C19: everything at once, replayed: malformed and mutated memos (error text), several fee recipients (event order), messages, queries
	"C19": {name: "C19", minOps: 4, maxOps: 14, wRecv: 72, wMsg: 14, wDeposit: 4, wQuery: 10, pOrbiter: 92, pFee: 65, pBadPayload: 22,
		pFault: 0, pLie: 0, pWrongSign: 10, pPass: 10, pHuge: 4, pBadDenom: 6, routes: cleanRoutes, msgKinds: allMsgKinds, mask: []int{0, 4}, pPlanned: 50, pInitLimit: 30},
	// C16 (end-to-end part): orbiter packets carrying every kind of token (native, vouchers of this and other channels, multi-hop, ibc/ hashes, illegal)
	"C16": {name: "C16", minOps: 1, maxOps: 5, wRecv: 80, wMsg: 0, wDeposit: 20, wQuery: 0, pOrbiter: 96, pFee: 30, pBadPayload: 4,
		pFault: 0, pLie: 0, pWrongSign: 0, pPass: 0, pHuge: 30, pBadDenom: 45, routes: cleanRoutes, msgKinds: []string{"UpdateParams"}, mask: []int{0, 1, 2, 4}},
	// C18: passthrough lengths around the limit in force, histories of parameter updates
	"C18": {name: "C18", minOps: 3, maxOps: 10, wRecv: 50, wMsg: 30, wDeposit: 12, wQuery: 8, pOrbiter: 97, pFee: 20, pBadPayload: 2,
		pFault: 0, pLie: 0, pWrongSign: 20, pPass: 85, pHuge: 0, pBadDenom: 0, routes: cleanRoutes, msgKinds: []string{"UpdateParams"}, mask: []int{0, 1, 4}, pPlanned: 50},
	// C07: traffic that is not the orbiter's, every receiver / memo / data / channel, all pause and parameter states
	"C07": {name: "C07", minOps: 2, maxOps: 7, wRecv: 75, wMsg: 20, wDeposit: 5, wQuery: 0, pOrbiter: 8, pFee: 30, pBadPayload: 10,
		pFault: 0, pLie: 0, pWrongSign: 5, pPass: 10, pHuge: 8, pBadDenom: 35, routes: cleanRoutes, msgKinds: allMsgKinds, mask: []int{0, 2, 4},
		pPlanned: 60, pOddChan: 22, pCallback: 15},
	// C14: the malformed stream through the whole stack
	// C06: fee and swap controllers in both orders, repeated identifiers
	"C06": {name: "C06", minOps: 1, maxOps: 4, wRecv: 92, wMsg: 0, wDeposit: 8, wQuery: 0, pOrbiter: 98, pFee: 70, pBadPayload: 6,
		pFault: 8, pLie: 0, pWrongSign: 0, pPass: 0, pHuge: 6, pBadDenom: 2, routes: cleanRoutes, msgKinds: []string{"UpdateParams"}, mask: []int{0, 1, 2, 4}, pSwap: 70},
	"C14": {name: "C14", minOps: 1, maxOps: 4, wRecv: 90, wMsg: 5, wDeposit: 5, wQuery: 0, pOrbiter: 85, pFee: 60, pBadPayload: 70,
		pFault: 0, pLie: 0, pWrongSign: 30, pPass: 20, pHuge: 20, pBadDenom: 25, routes: cleanRoutes, msgKinds: allMsgKinds, mask: []int{0}},
	"mix": {name: "mix", minOps: 2, maxOps: 8, wRecv: 60, wMsg: 20, wDeposit: 10, wQuery: 10, pOrbiter: 85, pFee: 50, pBadPayload: 15,
		pFault: 10, pLie: 3, pWrongSign: 20, pPass: 20, pHuge: 10, pBadDenom: 10, routes: []string{"cctp", "hyp", "internal"}, msgKinds: allMsgKinds},
}

type gen struct {
	variant int // > 0 in the sweep: the (variant-1)-th option of every choice a spoil class makes; 0: random
	// abstract state the generator assumes the history has reached (authority messages taken to succeed)
	absProto map[string]bool
	absCC    map[string]bool
	absAct   map[string]bool
	r   *rng.R
	w   *world.W
	a   actors
	p   profile
	cdc interface {
		MarshalJSON(o proto.Message) ([]byte, error)
	}
}

var protoNames = []string{"PROTOCOL_IBC", "PROTOCOL_CCTP", "PROTOCOL_HYPERLANE", "PROTOCOL_INTERNAL"}

func (g *gen) domainFor(kind string) uint32 {
	switch kind {
	case "cctp":
		return rng.Pick(g.r, []uint32{0, 0, 1, 2, 3, 5, 6, 7, 4, 9, 0, 0, 1, 2, 3, 5, 2147483647, 2147483648, 4294967295})
	default:
		return rng.Pick(g.r, []uint32{1, 1, 1, 2, 1313817164, 1196573006, 1, 1, 2, 2147483648, 4294967295})
	}
}

func (g *gen) genFwd() fwdSpec {
	r := g.r
	kind := rng.Pick(r, g.p.routes)
	f := fwdSpec{kind: kind}
	switch kind {
	case "cctp":
		f.pid = int32(core.PROTOCOL_CCTP)
		f.domain = g.domainFor("cctp")
		f.recipient = append(make([]byte, 12), r.Bytes(20)...)
		if r.Chance(40) {
			f.caller = append(make([]byte, 12), r.Bytes(20)...)
		}
	case "hyp":
		f.pid = int32(core.PROTOCOL_HYPERLANE)
		f.domain = g.domainFor("hyp")
		f.token = []byte(g.w.S.HypTokens[sim.USDC])
		if r.Chance(15) {
			f.token = []byte(g.w.S.HypTokens["ufoo"])
		}
		f.recipient = append(make([]byte, 12), r.Bytes(20)...)
		if r.Chance(25) {
			f.hook = r.Bytes(32)
			if r.Chance(30) {
				f.hook = make([]byte, 32) // present, all zero: a hook identifier like any other, not "no hook"
			}
		}
		if r.Chance(30) {
			f.metadata = "0x" + hex.EncodeToString(r.Bytes(1+r.Intn(8)))
		}
		f.gas = big.NewInt(int64(r.Intn(3) * 50000))
		f.feeDenom, f.feeAmt = "", new(big.Int)
		if r.Chance(30) {
			f.feeDenom, f.feeAmt = sim.USDC, big.NewInt(int64(r.Intn(100)))
		}
		if len(g.w.S.IGPs) > 0 && r.Chance(g.p.pGasHook) {
			g.throughPaymaster(&f, g.w.S.IGPs[r.Intn(len(g.w.S.IGPs))])
		}
	case "internal":
		f.pid = int32(core.PROTOCOL_INTERNAL)
		f.to = g.a.users[r.Intn(len(g.a.users))].Bech
	}
	if r.Chance(g.p.pPass) {
		f.pass = r.Bytes(rng.Pick(r, []int{1, 1, 2, 5, 16, 17, 64, 300}))
		if g.p.name == "C18" && r.Chance(3) {
			// far from every limit: a memo beyond the size ibc-go allows a SENDER to put in (the receive path has no such limit)
			f.pass = r.Bytes(rng.Pick(r, []int{24600, 33000, 33000}))
		}
	}
	return f
}

// throughPaymaster routes a Hyperlane forwarding through a gas paymaster of the chain, with a gas limit that keeps
// the quote small and a max fee around the quote, in the paymaster's denomination or another.
func (g *gen) throughPaymaster(f *fwdSpec, igp sim.IGP) {
	r := g.r
	f.hook, f.gasHook = []byte(igp.ID), true
	f.gas = big.NewInt(rng.Pick(r, []int64{0, 1, 5, 9, 100, 1000, 1000}))
	if r.Chance(12) {
		// extreme gas limits: the paymaster's arithmetic is the hook's, with the sender's numbers
		f.gas = rng.Pick(r, []*big.Int{new(big.Int).Sub(two256, big.NewInt(1)), new(big.Int).Lsh(big.NewInt(1), 255), new(big.Int).Lsh(big.NewInt(1), 254),
			new(big.Int).Lsh(big.NewInt(1), 222), new(big.Int).Lsh(big.NewInt(1), 64)})
	}
	q := igp.Quote(f.gas)
	other, _ := otherDenom(igp.Denom)
	f.feeDenom = rng.Pick(r, []string{igp.Denom, igp.Denom, igp.Denom, igp.Denom, other, ""})
	f.feeAmt = rng.Pick(r, []*big.Int{q, q, new(big.Int).Add(q, big.NewInt(3)), new(big.Int).Sub(q, big.NewInt(1)), new(big.Int).Mul(q, big.NewInt(10)), new(big.Int)})
	if f.feeDenom == "" {
		f.feeAmt = new(big.Int)
	}
}

// spoil makes a forwarding invalid or mismatched in one way.
func (g *gen) spoil(f *fwdSpec) string { return g.spoilClass(f, g.r.Intn(spoilClasses)) }

// spoilClasses is the number of classes spoilClass knows.
const spoilClasses = 16

// spoilClass applies one given class (the sweep at the head of some families visits every class for every route).
func (g *gen) spoilClass(f *fwdSpec, class int) string {
	r := g.r
	switch class {
	case 15:
		if f.kind == "hyp" && len(g.w.S.IGPs) > 0 {
			// through a gas paymaster with a gas limit at the edge of the 256-bit range: the hook's own arithmetic
			// runs on the sender's number inside the receive path
			igp := pickV(g, g.w.S.IGPs)
			f.hook, f.gasHook, f.domain = []byte(igp.ID), true, 1
			f.gas = pickV(g, []*big.Int{new(big.Int).Sub(two256, big.NewInt(1)), new(big.Int).Lsh(big.NewInt(1), 255), new(big.Int).Lsh(big.NewInt(1), 254), new(big.Int).Lsh(big.NewInt(1), 64)})
			f.feeDenom, f.feeAmt = igp.Denom, big.NewInt(int64(1+r.Intn(1000)))
			return "hyp-paymaster-extreme-gas"
		}
		f.pass = r.Bytes(pickV(g, []int{1, 100, 1200}))
		return "passthrough"
	case 14:
		if f.kind == "hyp" {
			// a max fee the SDK refuses to put into a coin set, or harmless oddities of fee and gas limit
			f.feeDenom = pickV(g, []string{"1bad", "x", "a b", "", sim.USDC, "ufoo", sim.USDC})
			f.feeAmt = pickV(g, []*big.Int{big.NewInt(1), big.NewInt(-1), big.NewInt(0), new(big.Int).Lsh(big.NewInt(1), 255), big.NewInt(-1000000)})
			f.gas = pickV(g, []*big.Int{big.NewInt(0), big.NewInt(-5), new(big.Int).Lsh(big.NewInt(1), 255)})
			return "hyp-odd-max-fee"
		}
		f.pass = r.Bytes(pickV(g, []int{1, 100, 1200}))
		return "passthrough"
	case 0:
		f.pid = pickV(g, []int32{0, 1, 5, 99, -1})
		return "bad-pid"
	case 1: // attributes of another protocol
		others := map[string][]int32{"cctp": {3, 4}, "hyp": {2, 4}, "internal": {2, 3}}
		f.pid = pickV(g, others[f.kind])
		return "mismatch"
	case 2:
		f.nilAttrs = true
		return "nil-attrs"
	case 3:
		if f.kind == "cctp" {
			f.recipient = nil
			return "cctp-empty-recipient"
		}
		f.recipient = r.Bytes(pickV(g, []int{31, 0, 5, 33}))
		return "short-recipient"
	case 4:
		if f.kind == "cctp" {
			f.domain = 4
			return "cctp-noble-domain"
		}
		f.domain = 1313817164
		return "hyp-noble-domain"
	case 5:
		if f.kind == "hyp" {
			f.token = r.Bytes(pickV(g, []int{31, 0, 8, 33}))
			return "hyp-bad-token-len"
		}
		f.to = pickV(g, []string{"", "noble1invalid", "cosmos1hsk6jryyqjfhp5dhc55tc9jtckygx0eph6dd02"})
		f.kind, f.pid = "internal", 4
		return "internal-bad-recipient"
	case 6:
		if f.kind == "hyp" {
			if r.Chance(50) {
				// an existing collateral token, possibly of another denomination than the one transferred
				var ids []string
				for _, d := range g.w.Denoms {
					ids = append(ids, g.w.S.HypTokens[d])
				}
				f.token, f.domain = []byte(pickV(g, ids)), 1
				return "hyp-some-existing-token"
			}
			f.token = r.Bytes(32)
			return "hyp-unknown-token"
		}
		f.kind, f.pid, f.to = "internal", 4, sim.OrbiterAddr().String()
		return "internal-self"
	case 7:
		if f.kind == "hyp" {
			f.hook = r.Bytes(pickV(g, []int{31, 1, 33}))
			return "hyp-bad-hook"
		}
		f.kind, f.pid, f.to = "internal", 4, strings.ToUpper(sim.OrbiterAddr().String())
		return "internal-self-upper"
	case 8:
		if f.kind == "hyp" {
			f.metadata = pickV(g, []string{"0x1", "zz", "0xzz", "1234"})
			return "hyp-bad-metadata"
		}
		f.kind, f.pid, f.to = "internal", 4, sim.DustAddr().String()
		return "internal-blocked"
	case 9:
		f.kind, f.pid, f.to = "internal", 4, world.ModAddr("cctp").String()
		return "internal-blocked"
	case 10:
		if f.kind == "hyp" {
			f.domain = 77 // no enrolled router
			return "hyp-unenrolled"
		}
		f.domain = 4
		f.kind, f.pid = "cctp", 2
		f.recipient = append(make([]byte, 12), r.Bytes(20)...)
		return "cctp-noble-domain"
	case 11:
		f.kind, f.pid, f.domain = "cctp", 2, 11 // no remote token messenger
		f.recipient = append(make([]byte, 12), r.Bytes(20)...)
		return "cctp-unknown-domain"
	case 12:
		f.kind, f.pid, f.to = "internal", 4, strings.ToUpper(g.a.users[0].Bech)
		return "internal-upper-recipient"
	default:
		f.pass = r.Bytes(pickV(g, []int{1, 100, 1200}))
		return "passthrough"
	}
}

// pickV chooses at random, or - in the sweep at the head of a family - the variant-th option (the lists put the
// near misses first).
func pickV[T any](g *gen, xs []T) T {
	if g.variant > 0 {
		return xs[(g.variant-1)%len(xs)]
	}
	return rng.Pick(g.r, xs)
}

func (g *gen) amount() *big.Int {
	r := g.r
	if r.Chance(g.p.pHuge) {
		return rng.Pick(r, []*big.Int{bigAdd(pow2(63), -1), pow2(64), pow2(128), pow2(200), pow2(243), bigAdd(pow2(255), -1),
			new(big.Int).Div(bigAdd(pow2(256), -1), big.NewInt(10000)), bigAdd(new(big.Int).Div(bigAdd(pow2(256), -1), big.NewInt(10000)), 1)})
	}
	return rng.Pick(r, []*big.Int{big.NewInt(1), big.NewInt(2), big.NewInt(100), big.NewInt(9999), big.NewInt(10000), big.NewInt(10001),
		big.NewInt(19999), big.NewInt(1000000), big.NewInt(1234567), big.NewInt(int64(1 + r.Intn(5000000)))})
}

type pktInfo struct {
	shape   string
	orbiter bool
	spec    *paySpec
	amount  *big.Int
	denom   string // native denom expected to be credited ("" when not a returning native token)
	dstChan string
	// expectOK: by the harness's reading of the properties this transfer has nothing wrong with it, so
	// it must succeed unless its destination / action is paused or its passthrough is over the limit
	expectOK bool
	// swapRouteOK: a payload with a swap whose packet and route have nothing wrong (the actions are judged by the C06 oracle)
	swapRouteOK bool
}

func (g *gen) genPacket() (world.Packet, pktInfo) {
	r := g.r
	info := pktInfo{shape: "valid"}
	info.dstChan = rng.Pick(r, dstChans)
	p := world.Packet{SrcPort: srcPort, SrcChan: srcChan, DstPort: dstPort, DstChan: info.dstChan}
	if r.Chance(3 + g.p.pOddChan) {
		p.DstChan = rng.Pick(r, []string{"channel-18446744073709551615", "channel-4294967296", "channel-4294967295", "channel-01", "channel-77", "chan-0", "",
			"channel-184467440737095516150", "channel-9223372036854775808"})
		info.shape = "odd-dst-channel"
	}
	native := rng.Pick(r, []string{sim.USDC, sim.USDC, sim.USDC, "ufoo"})
	info.denom = native
	denom := srcPort + "/" + srcChan + "/" + native
	if r.Chance(g.p.pBadDenom) {
		info.shape = "bad-denom"
		info.denom = ""
		denom = rng.Pick(r, []string{native, "transfer/channel-7/transfer/channel-3/" + native, "transfer/channel-8/" + native,
			"transfer/channel-7/", "transfer/channel-7/ab", "transfer/channel-7/a b", "ibc/27394FB092D2ECCD56123C74F36E4C1F926001CEADA9CA97EA622B25F41E5EB2",
			"transfer/channel-7/ibc/27394FB092D2ECCD56123C74F36E4C1F926001CEADA9CA97EA622B25F41E5EB2", "", "/", "transfer/channel-7//" + native, "uatom"})
	}
	info.amount = g.amount()
	amt := info.amount.String()
	if r.Chance(4) {
		amt = rng.Pick(r, []string{"0", "-5", "abc", "", "1e3", "+7", "0x10", "007", two256.String()})
		info.shape = "odd-amount"
		if v, ok := math.NewIntFromString(amt); ok {
			info.amount = v.BigInt()
		} else {
			info.amount = new(big.Int)
		}
	}
	sender := g.a.users[r.Intn(len(g.a.users))].Bech
	ics := &world.ICS20{Denom: denom, Amount: amt, Sender: sender}
	if r.Chance(g.p.pOrbiter) {
		info.orbiter = true
		ics.Receiver = sim.OrbiterAddr().String()
		if r.Chance(12) {
			ics.Receiver = strings.ToUpper(ics.Receiver)
			info.shape += "/upper-receiver"
		}
		spec := &paySpec{fwd: g.genFwd()}
		if r.Chance(g.p.pFee) {
			A := info.amount
			fl, shape := genFeeList(r, A)
			if shape != "valid" {
				info.shape += "/fee-" + shape
			}
			spec.fees = append(spec.fees, fl)
			if r.Chance(5) {
				fl2, _ := genFeeList(r, A)
				spec.fees = append(spec.fees, fl2) // repeated action id
				info.shape += "/repeated-action"
				if r.Chance(50) {
					spec.apart = true // ... with another action between the two
					info.shape += "-apart"
				}
			}
		}
		if (g.p.name == "C09" || g.p.name == "C05" || g.p.name == "C14") && g.p.pSwap == 0 && r.Chance(12) {
			// an action identifier that is valid (and pausable) but has no controller on the chain, with well-formed attributes
			spec.extra = append(spec.extra, extraAction{id: int32(core.ACTION_SWAP), attrs: &actiontypes.FeeAttributes{}})
			info.shape += "/action-without-controller"
		}
		if r.Chance(g.p.pSwap) {
			spec.swap, spec.swapFirst = true, r.Bool()
			spec.swapTwice = r.Chance(6)
			info.shape += "/swap"
			if spec.swapTwice {
				info.shape += "-twice"
			}
			// the route must take the denomination the swap leaves
			final, _ := otherDenom(native)
			if spec.fwd.kind == "hyp" {
				spec.fwd.token = []byte(g.w.S.HypTokens[final])
			}
		}
		if r.Chance(g.p.pBadPayload) {
			switch r.Intn(8) {
			case 0:
				spec.noFwd = true
				info.shape += "/no-forwarding"
			case 1:
				spec.extra = append(spec.extra, extraAction{id: rng.Pick(r, []int32{2, 0, 7}), attrs: &actiontypes.FeeAttributes{}})
				info.shape += "/unrouted-action"
			case 2:
				spec.extra = append(spec.extra, extraAction{id: 1, attrs: &forwardingtypes.InternalAttributes{Recipient: g.a.users[0].Bech}})
				info.shape += "/action-wrong-attrs"
			case 3:
				raw := rng.Pick(r, []string{"", "{}", "not json", `{"orbiter":null}`, `{"orbiter":{}}`, `{"forward":{"receiver":"x"}}`, `{"orbiter":{"forwarding":null}}`,
					`{"orbiter":{"pre_actions":[null],"forwarding":{"protocol_id":"PROTOCOL_INTERNAL","attributes":{"@type":"/noble.orbiter.controller.forwarding.v1.InternalAttributes","recipient":"` + g.a.users[0].Bech + `"}}}}`,
					`{"orbiter":{"forwarding":{"protocol_id":2}},"x":1}`, `[1]`, `{"orbiter":{"forwarding":{"protocol_id":"PROTOCOL_CCTP","attributes":{"@type":"/noble.orbiter.controller.forwarding.v1.CCTPAttributes","destination_domain":0,"mint_recipient":"AAAAAAAAAAAAAAAAAAAAAAAAAAAAAAAAAAAAAAAAAAE=","zzz":1,"yyy":2}}}}`})
				spec.rawMem = &raw
				info.shape += "/raw-memo"
			default:
				info.shape += "/fwd-" + g.spoil(&spec.fwd)
			}
		}
		info.spec = spec
		base := strings.TrimSuffix(info.shape, "/upper-receiver")
		if spec.swap {
			// with a swap the harness judges validity in the C06 oracle, on the running coin
			b2 := strings.TrimSuffix(strings.TrimSuffix(base, "/swap"), "/upper-receiver")
			final, _ := otherDenom(native)
			if b2 == "valid" && !spec.swapTwice && info.amount.Sign() > 0 && info.amount.Cmp(big.NewInt(1_000_000_000_000)) <= 0 {
				ok := true
				switch spec.fwd.kind {
				case "cctp":
					ok = final == sim.USDC && cctpDomainOK(spec.fwd.domain)
				case "hyp":
					ok = spec.fwd.domain == 1 && string(spec.fwd.token) == g.w.S.HypTokens[final] && len(spec.fwd.hook) == 0
				}
				info.swapRouteOK = ok
			}
			base = "swap"
		}
		if base == "valid" && info.amount.Sign() > 0 && info.amount.Cmp(big.NewInt(1_000_000_000_000)) <= 0 {
			ok := true
			for _, fl := range spec.fees {
				if feeExpect(info.amount, fl).refused {
					ok = false
				}
			}
			switch spec.fwd.kind {
			case "cctp": // the token factory burns only its minting denomination; remote token messengers exist for these domains
				ok = ok && native == sim.USDC && cctpDomainOK(spec.fwd.domain)
			case "hyp": // an enrolled router exists for domain 1 only; a custom hook id must name an existing hook
				ok = ok && spec.fwd.domain == 1 && string(spec.fwd.token) == g.w.S.HypTokens[native] && len(spec.fwd.hook) == 0
			}
			info.expectOK = ok
		}
	} else {
		ics.Receiver = rng.Pick(r, []string{g.a.users[0].Bech, g.a.users[1].Bech, strings.ToUpper(g.a.users[2].Bech), sim.DustAddr().String(),
			"noble1invalid", "", world.ModAddr("cctp").String()})
		info.shape = "foreign"
		if r.Chance(30) {
			m := `{"orbiter":{"forwarding":{"protocol_id":"PROTOCOL_INTERNAL","attributes":{"@type":"/noble.orbiter.controller.forwarding.v1.InternalAttributes","recipient":"` + g.a.users[0].Bech + `"}}}}`
			ics.Memo = m
		}
		if r.Chance(8) {
			// memos around and beyond the size ibc-go allows a SENDER to put in (the receive path has no such limit)
			n := rng.Pick(r, []int{32767, 32768, 32769, 40000, 70000})
			ics.Memo = rng.Pick(r, []string{strings.Repeat("a", n), `{"note":"` + strings.Repeat("b", n) + `"}`})
			info.shape = "foreign/long-memo"
		}
		if r.Chance(10) {
			p.Raw = rng.Pick(r, [][]byte{[]byte("garbage"), {}, []byte(`{"denom":"x"`), []byte(`{"amount":5}`)})
			p.ICS = nil
			info.shape = "raw-data"
			return p, info
		}
	}
	p.ICS = ics
	return p, info
}

var ccPool = map[string][]string{"PROTOCOL_CCTP": {"0", "1", "2", "3", "5", "6", "7", "10", "100", "2147483648", "4294967295"}, "PROTOCOL_HYPERLANE": {"1", "2", "77", "7", "2147483648", "4294967295"},
	"PROTOCOL_INTERNAL": {"noble", "caf\xc3\xa9"}, "PROTOCOL_IBC": {"channel-0", "channel-1"}}

func (g *gen) hasKind(k string) bool {
	for _, x := range g.p.msgKinds {
		if x == k {
			return true
		}
	}
	return false
}

// plannedMsg picks a message that is valid in the abstract state (so that it succeeds when the
// authority signs it) and moves the abstract state.
func (g *gen) plannedMsg() (world.Msg, bool) {
	r := g.r
	if g.absProto == nil {
		g.absProto, g.absCC, g.absAct = map[string]bool{}, map[string]bool{}, map[string]bool{}
	}
	var cands []world.Msg
	for _, pn := range protoNames {
		if g.absProto[pn] {
			if g.hasKind("UnpauseProtocol") {
				cands = append(cands, world.Msg{Kind: "UnpauseProtocol", ID: pn})
			}
			if g.hasKind("UnpauseCrossChains") {
				cands = append(cands, world.Msg{Kind: "UnpauseCrossChains", ID: pn})
			}
		} else {
			if g.hasKind("PauseProtocol") {
				cands = append(cands, world.Msg{Kind: "PauseProtocol", ID: pn})
			}
			if g.hasKind("PauseCrossChains") && r.Chance(30) {
				cands = append(cands, world.Msg{Kind: "PauseCrossChains", ID: pn})
			}
		}
		var on, off []string
		for _, c := range ccPool[pn] {
			if g.absCC[pn+"|"+c] {
				on = append(on, c)
			} else {
				off = append(off, c)
			}
		}
		pick := func(xs []string) []string {
			n := 1 + r.Intn(len(xs))
			if n > 3 {
				n = 3
			}
			perm := append([]string{}, xs...)
			for i := range perm {
				j := i + r.Intn(len(perm)-i)
				perm[i], perm[j] = perm[j], perm[i]
			}
			return perm[:n]
		}
		if len(off) > 0 && g.hasKind("PauseCrossChains") {
			cands = append(cands, world.Msg{Kind: "PauseCrossChains", ID: pn, IDs: pick(off)})
		}
		if len(on) > 0 && g.hasKind("UnpauseCrossChains") {
			cands = append(cands, world.Msg{Kind: "UnpauseCrossChains", ID: pn, IDs: pick(on)})
		}
		// mixed batches: an identifier that is already in the requested state among ones that are not, at any
		// position - the whole message is to be refused and nothing of it kept
		if len(on) > 0 && len(off) > 0 && r.Chance(35) {
			mix := func(first, rest []string) []string {
				ids := append([]string{first[r.Intn(len(first))]}, pick(rest)...)
				k := r.Intn(len(ids))
				ids[0], ids[k] = ids[k], ids[0]
				return ids
			}
			if g.hasKind("PauseCrossChains") {
				cands = append(cands, world.Msg{Kind: "PauseCrossChains", ID: pn, IDs: mix(on, off)})
			}
			if g.hasKind("UnpauseCrossChains") {
				cands = append(cands, world.Msg{Kind: "UnpauseCrossChains", ID: pn, IDs: mix(off, on)})
			}
		}
	}
	for _, an := range []string{"ACTION_FEE", "ACTION_SWAP"} {
		if g.absAct[an] && g.hasKind("UnpauseAction") {
			cands = append(cands, world.Msg{Kind: "UnpauseAction", ID: an})
		}
		if !g.absAct[an] && g.hasKind("PauseAction") {
			cands = append(cands, world.Msg{Kind: "PauseAction", ID: an})
		}
	}
	if g.hasKind("UpdateParams") {
		cands = append(cands, world.Msg{Kind: "UpdateParams", Max: rng.Pick(r, []uint32{0, 1, 16, 17, 64, 255, 65536})})
	}
	if len(cands) == 0 {
		return world.Msg{}, false
	}
	m := cands[r.Intn(len(cands))]
	m.Signer = sim.Authority
	if r.Chance(g.p.pWrongSign) {
		m.Signer = rng.Pick(r, []string{g.a.users[0].Bech, sim.OrbiterAddr().String(), "", "noble1invalid", world.ModAddr("gov").String()})
		return m, true
	}
	// a mixed batch is refused as a whole: the assumed state stays
	for _, c := range m.IDs {
		if (m.Kind == "PauseCrossChains" && g.absCC[m.ID+"|"+c]) || (m.Kind == "UnpauseCrossChains" && !g.absCC[m.ID+"|"+c]) {
			return m, true
		}
	}
	switch m.Kind {
	case "PauseProtocol":
		g.absProto[m.ID] = true
	case "UnpauseProtocol":
		delete(g.absProto, m.ID)
	case "PauseCrossChains":
		if len(m.IDs) == 0 {
			g.absProto[m.ID] = true
		}
		for _, c := range m.IDs {
			g.absCC[m.ID+"|"+c] = true
		}
	case "UnpauseCrossChains":
		if len(m.IDs) == 0 {
			delete(g.absProto, m.ID)
		}
		for _, c := range m.IDs {
			delete(g.absCC, m.ID+"|"+c)
		}
	case "PauseAction":
		g.absAct[m.ID] = true
	case "UnpauseAction":
		delete(g.absAct, m.ID)
	}
	return m, true
}

func (g *gen) genMsg() world.Msg {
	r := g.r
	if r.Chance(g.p.pPlanned) {
		if m, ok := g.plannedMsg(); ok {
			return m
		}
	}
	m := world.Msg{Kind: rng.Pick(r, g.p.msgKinds), Signer: sim.Authority}
	if r.Chance(g.p.pWrongSign) {
		m.Signer = rng.Pick(r, []string{g.a.users[0].Bech, sim.OrbiterAddr().String(), "", "noble1invalid", strings.ToUpper(sim.Authority), world.ModAddr("gov").String(),
			// near misses of the authority's address: mixed case (malformed bech32), surrounding space, another prefix spelling
			strings.ToUpper(sim.Authority[:1]) + sim.Authority[1:], sim.Authority[:8] + strings.ToUpper(sim.Authority[8:]), " " + sim.Authority, sim.Authority + " ",
			sim.Authority[:len(sim.Authority)-1]})
	}
	switch m.Kind {
	case "PauseProtocol", "UnpauseProtocol":
		m.ID = rng.Pick(r, append(protoNames, "PROTOCOL_UNSUPPORTED", "2", "cctp", ""))
	case "PauseCrossChains", "UnpauseCrossChains":
		m.ID = rng.Pick(r, []string{"PROTOCOL_CCTP", "PROTOCOL_CCTP", "PROTOCOL_HYPERLANE", "PROTOCOL_INTERNAL", "PROTOCOL_IBC", "PROTOCOL_UNSUPPORTED", "x"})
		n := rng.Pick(r, []int{0, 1, 1, 1, 2, 3})
		pool := map[string][]string{"PROTOCOL_CCTP": {"0", "1", "2", "3", "5", "01", "+1", "4294967296", "x", "", "2147483647", "2147483648", "4294967295"},
			"PROTOCOL_HYPERLANE": {"1", "2", "77", "1313817164", "-1", "2147483648", "3000000000", "4294967295"}, "PROTOCOL_INTERNAL": {"noble", "other", "", "noble", "a\xffb", "\xc3\x28", "caf\xc3\xa9", "\xed\xa0\x80", "\xf0\x9f\x92\xa9", "\xc0\xaf"},
			"PROTOCOL_IBC": {"channel-0", "channel-1", "channel-01", "chan"}}[m.ID]
		if pool == nil {
			pool = []string{"0"}
		}
		// identifiers that are valid for ANOTHER protocol (a channel id, a domain, a free name): valid nowhere else
		foreign := map[string][]string{"PROTOCOL_CCTP": {"channel-0", "channel-7", "noble", "other"}, "PROTOCOL_HYPERLANE": {"channel-1", "channel-0", "noble"},
			"PROTOCOL_IBC": {"1", "0", "noble", "77"}}[m.ID]
		for i := 0; i < n; i++ {
			if len(foreign) > 0 && r.Chance(12) {
				m.IDs = append(m.IDs, rng.Pick(r, foreign))
				continue
			}
			m.IDs = append(m.IDs, rng.Pick(r, pool))
		}
		if r.Chance(3) {
			k := rng.Pick(r, []int{100, 101})
			m.IDs = nil
			for i := 0; i < k; i++ {
				m.IDs = append(m.IDs, fmt.Sprint(1000+i))
			}
		}
	case "PauseAction", "UnpauseAction":
		m.ID = rng.Pick(r, []string{"ACTION_FEE", "ACTION_FEE", "ACTION_SWAP", "ACTION_UNSUPPORTED", "1", "fee"})
	case "UpdateParams":
		m.Max = rng.Pick(r, []uint32{0, 1, 2, 16, 17, 255, 65536, 4294967295})
	case "ReplaceDepositForBurn":
		// the replaced fields in every length CCTP may or may not like (empty, one byte, an EVM address, 32, 33)
		ln := func() int { return rng.Pick(r, []int{32, 32, 32, 0, 1, 20, 31, 33}) }
		m.B = [4][]byte{r.Bytes(8 + r.Intn(8)), r.Bytes(4), r.Bytes(ln()), r.Bytes(ln())}
	}
	return m
}

func (g *gen) genQuery() world.Query {
	r := g.r
	q := world.Query{Kind: rng.Pick(r, []string{"IsProtocolPaused", "PausedProtocols", "IsCrossChainPaused", "PausedCrossChains", "IsActionPaused", "PausedActions", "Params"})}
	switch q.Kind {
	case "IsProtocolPaused", "PausedCrossChains":
		q.ID = rng.Pick(r, append(protoNames, "x"))
	case "IsCrossChainPaused":
		q.ID = rng.Pick(r, []string{"PROTOCOL_CCTP", "PROTOCOL_HYPERLANE", "PROTOCOL_INTERNAL"})
		q.CP = rng.Pick(r, []string{"0", "1", "2", "noble", "01", "", "channel-0", "channel-7", "other", "77", "2147483648", "4294967295"})
	case "IsActionPaused":
		q.ID = rng.Pick(r, []string{"ACTION_FEE", "ACTION_SWAP", "x"})
	}
	return q
}

// ---------------------------------------------------------------------------------------------
// running a case
// ---------------------------------------------------------------------------------------------

type opRec struct {
	obs  world.OpObs
	info pktInfo
	memo string // Coq term of the memo
	strs []string
	ints []string
}

// collectStrings gathers the strings whose bech32 / integer parse the model may ask for.
func collectStrings(pl *core.Payload, ics *world.ICS20) (b []string, i []string) {
	if ics != nil {
		b = append(b, ics.Receiver, ics.Sender)
		i = append(i, ics.Amount)
	}
	if pl == nil {
		return
	}
	for _, a := range pl.PreActions {
		if a == nil || a.Attributes == nil {
			continue
		}
		if fa, ok := a.Attributes.GetCachedValue().(*actiontypes.FeeAttributes); ok && fa != nil {
			for _, f := range fa.FeesInfo {
				if f == nil {
					continue
				}
				b = append(b, f.Recipient)
				if x, ok := f.FeeType.(*actiontypes.FeeInfo_Amount_); ok && x != nil && x.Amount != nil {
					i = append(i, x.Amount.Value)
				}
			}
		}
		if ia, ok := a.Attributes.GetCachedValue().(*forwardingtypes.InternalAttributes); ok && ia != nil {
			b = append(b, ia.Recipient)
		}
	}
	if pl.Forwarding != nil && pl.Forwarding.Attributes != nil {
		if ia, ok := pl.Forwarding.Attributes.GetCachedValue().(*forwardingtypes.InternalAttributes); ok && ia != nil {
			b = append(b, ia.Recipient)
		}
	}
	return
}

type worldRunner struct {
	pinFirst bool // the next history begins with the witness of open finding 17
	lastOps  []world.Op // C19: the previous case's history, replayed on a discarded branch between two replays
	dustNext  bool      // the next history (after the pinned one) tries to occupy the dust collector's address first
	sweepNext int       // >= 0: the next (route, spoil class) pair of the sweep at the head of the family; -1: none
	swap bool // the swap controller is registered on the instrumented instance
	w   *world.W
	a   actors
	cdc interface {
		MarshalJSON(o proto.Message) ([]byte, error)
	}
}

func newWorldRunner(extra ...world.ExtraAction) (*worldRunner, error) {
	s, err := sim.New(sim.Options{})
	if err != nil {
		return nil, err
	}
	w, err := world.New(s, extra...)
	if err != nil {
		return nil, err
	}
	a := newActors()
	w.Accts = a.tracked()
	w.Denoms = []string{sim.USDC, "ufoo"}
	return &worldRunner{w: w, a: a, cdc: s.App.OrbiterKeeper.Codec()}, nil
}

// caseCtx prepares a fresh branch of the chain: funded escrows, optional initial module state.
func (wr *worldRunner) caseCtx() sdk.Context {
	ctx, _ := wr.w.S.Ctx.CacheContext()
	// the module accounts of the bridges exist on a live chain (the dust collector's is created by the first sweep)
	for _, m := range []string{"cctp", "warp", "hyperlane", "fiat-tokenfactory", "transfer"} {
		wr.w.S.App.AccountKeeper.GetModuleAccount(ctx, m)
	}
	for _, ch := range dstChans {
		for _, d := range wr.w.Denoms {
			if err := wr.w.FundEscrow(ctx, dstPort, ch, sdk.NewCoin(d, math.NewInt(5_000_000_000))); err != nil {
				panic(err)
			}
		}
	}
	if wr.swap {
		for _, d := range wr.w.Denoms {
			if err := wr.w.S.Mint(ctx, PoolAddr(), sdk.NewCoins(sdk.NewCoin(d, math.NewInt(9_000_000_000_000)))); err != nil {
				panic(err)
			}
		}
	}
	return ctx
}

// topUp makes sure the escrow can release the amount (extreme amounts need extra funding).
func (wr *worldRunner) topUp(ctx sdk.Context, ch, denom string, amt *big.Int) {
	if denom == "" || amt.Sign() <= 0 {
		return
	}
	have := wr.w.S.App.BankKeeper.GetBalance(ctx, world.Escrow(dstPort, ch), denom).Amount.BigInt()
	if have.Cmp(amt) >= 0 {
		return
	}
	need := new(big.Int).Sub(amt, have)
	// keep total supply below 2^256
	sup := wr.w.S.App.BankKeeper.GetSupply(ctx, denom).Amount.BigInt()
	if new(big.Int).Add(sup, need).Cmp(two256) >= 0 {
		return
	}
	_ = wr.w.FundEscrow(ctx, dstPort, ch, sdk.NewCoin(denom, math.NewIntFromBigInt(need)))
}

func (wr *worldRunner) coqHeader(before world.Snapshot, strsB, strsI []string, ops []string, st world.StateObs) string {
	w := wr.w
	accts := make([]string, len(w.Accts))
	for i, a := range w.Accts {
		accts[i] = cq.Str(world.Hex(a.Addr))
	}
	var bals []string
	k := 0
	for _, a := range w.Accts {
		for _, d := range w.Denoms {
			if before.Bals[k].Sign() != 0 {
				bals = append(bals, fmt.Sprintf("((%s, %s), %s)", cq.Str(world.Hex(a.Addr)), cq.Str(d), cq.Z(before.Bals[k])))
			}
			k++
		}
	}
	var sup []string
	for i, d := range w.Denoms {
		sup = append(sup, cq.Pair(cq.Str(d), cq.Z(before.Supply[i])))
	}
	var esc []string
	for _, ch := range dstChans {
		esc = append(esc, fmt.Sprintf("((%s, %s), %s)", cq.Str(dstPort), cq.Str(ch), cq.Str(world.Hex(world.Escrow(dstPort, ch)))))
	}
	var toks []string
	denoms := make([]string, 0, len(w.S.HypTokens))
	for d := range w.S.HypTokens {
		denoms = append(denoms, d)
	}
	sort.Strings(denoms)
	for _, d := range denoms {
		toks = append(toks, cq.Pair(cq.Str(w.S.HypTokens[d]), cq.Str(d)))
	}
	var igps, igpGas []string
	for _, g := range w.S.IGPs {
		igps = append(igps, cq.Pair(cq.Str(g.ID), cq.Pair(cq.Str(world.Hex(world.ModAddr("hyperlane"))), cq.Str(g.Denom))))
		igpGas = append(igpGas, fmt.Sprintf("((%s, %d), (%d, (%d, %d)))", cq.Str(g.ID), g.Domain, g.Overhead, g.Price, g.Rate))
	}
	return fmt.Sprintf("{| wc_orbiter := %s; wc_orbiter_bech := %s; wc_dust := %s; wc_warp := %s; wc_authority := %s; "+
		"wc_escrows := %s; wc_hyp_tokens := %s; wc_ibc_denoms := []; wc_bech32 := %s; wc_ints := %s; wc_accts := %s; wc_denoms := %s; "+
		"wc_bals := %s; wc_supply := %s; wc_state := %s; wc_ops := %s; wc_igps := %s; wc_igp_gas := %s; wc_router_gas := %d |}",
		cq.Str(world.Hex(sim.OrbiterAddr())), cq.Str(sim.OrbiterAddr().String()), cq.Str(world.Hex(sim.DustAddr())),
		cq.Str(world.Hex(world.ModAddr("warp"))), cq.Str(sim.Authority),
		cq.List(esc), cq.List(toks), world.Bech32Table(strsB), world.IntTable(strsI), cq.List(accts), cq.StrList(w.Denoms),
		cq.List(bals), cq.List(sup), st.Coq(), cq.List(ops), cq.List(igps), cq.List(igpGas), sim.HypRouterGas)
}

// memoTerm gives the model the memo as a document: the model decodes it with its own decoder
// (Model/Json.v), so the real parser is not trusted to tell the model what it decoded. The parsed
// payload is still returned (its strings feed the bech32 table) and, for payloads the harness built,
// the real decoder is compared with the binary round trip of what was encoded.
func (wr *worldRunner) memoTerm(spec *paySpec, ics *world.ICS20) (term string, pl *core.Payload, note string) {
	parsedTerm, parsed := wr.w.MemoCoq(ics.Memo)
	pl = parsed
	if spec != nil && spec.rawMem == nil {
		if built, _, ok := spec.build(wr.cdc); ok {
			if norm, ok := wr.normalise(built); ok {
				if "(Ok "+world.PayloadCoq(norm)+")" != parsedTerm {
					note = "decoder disagrees with the payload that was encoded"
				}
				pl = norm
			}
		}
	}
	if len(ics.Memo) > 8000 && spec == nil {
		// not rendered for the model (packets that are not the orbiter's: the model must not look at their memos)
		return `(Err "memo not rendered")`, pl, note
	}
	tree, err := scanJSON(ics.Memo)
	if err != nil {
		return `(Err "memo is not JSON")`, pl, note
	}
	var strs, nonCanon []string
	tree.strings(&strs)
	for _, s := range strs {
		if !canonDecimal.MatchString(s) && len(s) <= 400 {
			nonCanon = append(nonCanon, s)
		}
	}
	return "(jmemo " + world.IntTable(nonCanon) + " " + tree.coq() + ")", pl, note
}

var canonDecimal = regexp.MustCompile(`^-?(0|[1-9][0-9]*)$`)

func (wr *worldRunner) normalise(pl *core.Payload) (out *core.Payload, ok bool) {
	defer func() {
		if r := recover(); r != nil {
			out, ok = nil, false
		}
	}()
	cdc := wr.w.S.App.OrbiterKeeper.Codec()
	bz, err := cdc.Marshal(pl)
	if err != nil {
		return nil, false
	}
	var p2 core.Payload
	if err := cdc.Unmarshal(bz, &p2); err != nil {
		return nil, false
	}
	return &p2, true
}

var _ = orbtypes.MarshalJSON
var _ = transfertypes.ModuleName

// cctpDomainOK: the sim registers a remote token messenger for these domains only (4 is Noble's own).
func cctpDomainOK(d uint32) bool {
	switch d {
	case 0, 1, 2, 3, 5, 6, 7:
		return true
	}
	return false
}
