package fam

import (
	"fmt"
	"strconv"
	"strings"

	fwdtypes "github.com/noble-assets/orbiter/v2/types/controller/forwarding"
	"github.com/noble-assets/orbiter/v2/types/core"

	"verif/harness/internal/cq"
	"verif/harness/internal/rng"
)

// counterparty strings: the identifier generator of DESIGN §5.4
func idPool(r *rng.R) []string {
	pool := []string{
		"0", "1", "2", "4", "7", "9", "10", "4294967295", "4294967294", "1000000", "1196573006", "1313817164",
		"+1", "-1", "+0", "-0", "+4294967295", "-4294967295",
		"01", "00", "007", "0000000001", "00000000000000000000000000000001", "000000000000000000000000000000001",
		"4294967296", "99999999999", "9223372036854775807", "9223372036854775808", "-9223372036854775808",
		"-9223372036854775809", "18446744073709551615", "18446744073709551616",
		"12345678901234567890123456789012", "123456789012345678901234567890123",
		"channel-0", "channel-1", "channel-7", "channel-007", "channel-18446744073709551615",
		"channel-18446744073709551616", "channel-99999999999999999999", "channel-000000000000000000001",
		"channel-", "channel-1a", "channel--1", "channel-+1", "Channel-1", "channel-1\n", " channel-1", "channel-1 ",
		"channel-1channel-2", "channel", "channel-1-2", "xchannel-1",
		"1:2", ":", "a:b", "::", "1:", ":1", "noble", "noble:1",
		" 1", "1 ", "1\n", "\t1", "1_000", "0x10", "0b1", "0o7", "1e3", "1.0", "١", "１", "", "a", "-", "+", "--1", "+-1",
		"a\x00b", "\x00", "1\x00", "abc\xff", "éé", strings.Repeat("a", 32), strings.Repeat("a", 33), strings.Repeat("1", 31),
		strings.Repeat("9", 10), strings.Repeat("9", 9), "4294967295 ", "42949672950",
	}
	// random ones: canonical uint32, random digits, random mutations
	for i := 0; i < 40; i++ {
		pool = append(pool, strconv.FormatUint(uint64(uint32(r.U64())), 10))
	}
	for i := 0; i < 30; i++ {
		n := 1 + r.Intn(12)
		b := make([]byte, n)
		for j := range b {
			b[j] = byte('0' + r.Intn(10))
		}
		pool = append(pool, string(b))
	}
	for i := 0; i < 40; i++ {
		base := []byte(pool[r.Intn(len(pool))])
		if len(base) == 0 {
			continue
		}
		switch r.Intn(4) {
		case 0:
			base[r.Intn(len(base))] = byte(r.Intn(256))
		case 1:
			j := r.Intn(len(base) + 1)
			base = append(base[:j], append([]byte{rng.Pick(r, []byte("0+-: _c\x00/9"))}, base[j:]...)...)
		case 2:
			base = base[:r.Intn(len(base))]
		case 3:
			base = append([]byte(rng.Pick(r, []string{"0", "+", "-", " ", "channel-", "1:"})), base...)
		}
		pool = append(pool, string(base))
	}
	return pool
}

var protoPool = []int32{0, 1, 2, 3, 4, 5, -1, 100, 2147483647, -2147483648}

func canonicalU32(s string) bool {
	u, err := strconv.ParseUint(s, 10, 32)
	return err == nil && strconv.FormatUint(u, 10) == s
}

// Ids runs the identifier family (C20) on the implementation.
func Ids(r *rng.R, n int) Result {
	res := Result{
		Evaluator: "run_id", InputType: "id_case",
		Rule: "identifier generator (canonical decimals, signs, leading zeros, out-of-range, channel-N forms, separators, " +
			"control bytes, length 32/33, random mutations) crossed with every protocol number incl. unknown ones; " +
			"a case is non-trivial when the implementation accepts the input or the input is a one-byte mutation of an accepted one; " +
			"distinct = distinct (operation, input)",
		Notes: map[string]any{},
	}
	pool := idPool(r)
	seen := map[string]bool{}
	accepted := map[int32]map[string]bool{}
	add := func(c Case) {
		if seen[c.Key] {
			return
		}
		seen[c.Key] = true
		res.Cases = append(res.Cases, c)
	}
	fail := func(what, sig string, d map[string]any) {
		res.Failures = append(res.Failures, Failure{What: what, Sig: sig, Case: d})
	}
	rendered := map[string][2]string{}

	total := 0
	for total < n {
		s := pool[r.Intn(len(pool))]
		p := protoPool[r.Intn(len(protoPool))]
		if r.Chance(70) {
			p = int32(1 + r.Intn(4))
		}
		total++
		switch r.Intn(6) {
		case 0, 1: // ValidateCounterpartyID
			ok := core.ValidateCounterpartyID(s, core.ProtocolID(p)) == nil
			d := map[string]any{"op": "validate_counterparty", "s": s, "protocol": p, "impl_ok": ok}
			add(Case{Input: fmt.Sprintf("IValidate %s %s", cq.Str(s), cq.ZI(int64(p))), Expected: cq.VB(ok), Desc: d,
				Kind: fmt.Sprintf("validate/p%d/%v", clampProto(p), ok), NonTriv: ok, Key: fmt.Sprintf("v|%d|%s", p, s)})
			if p == int32(core.PROTOCOL_CCTP) || p == int32(core.PROTOCOL_HYPERLANE) {
				can := canonicalU32(s)
				if ok && !can {
					fail(fmt.Sprintf("counterparty %q accepted for protocol %d but is not the canonical decimal form of a 32-bit domain", s, p),
						"noncanonical-accepted", d)
				}
				if !ok && can {
					fail(fmt.Sprintf("canonical 32-bit domain %q refused for protocol %d", s, p), "canonical-refused", d)
				}
				if ok {
					if accepted[p] == nil {
						accepted[p] = map[string]bool{}
					}
					accepted[p][s] = true
				}
			}
		case 2: // CrossChainID.Validate + ID + Parse round trip
			c := core.CrossChainID{ProtocolId: core.ProtocolID(p), CounterpartyId: s}
			ok := c.Validate() == nil
			id := c.ID()
			pc, perr := core.ParseCrossChainID(id)
			d := map[string]any{"op": "roundtrip", "s": s, "protocol": p, "impl_valid": ok, "impl_id": id, "impl_parse_ok": perr == nil}
			exp := cq.VL(cq.VB(ok), cq.VS(id), parseVal(pc, perr))
			add(Case{Input: fmt.Sprintf("IRoundtrip %s %s", cq.ZI(int64(p)), cq.Str(s)), Expected: exp, Desc: d,
				Kind: fmt.Sprintf("roundtrip/p%d/%v", clampProto(p), ok), NonTriv: ok, Key: fmt.Sprintf("r|%d|%s", p, s)})
			if ok && (perr != nil || pc.ProtocolId != c.ProtocolId || pc.CounterpartyId != c.CounterpartyId) {
				fail(fmt.Sprintf("valid id (%d,%q) renders as %q which does not parse back to it", p, s, id), "roundtrip", d)
			}
			if prev, dup := rendered[id]; dup && (prev[0] != fmt.Sprint(p) || prev[1] != s) {
				fail(fmt.Sprintf("two pairs render to the same text %q", id), "not-injective", d)
			}
			rendered[id] = [2]string{fmt.Sprint(p), s}
		case 3: // ParseCrossChainID on arbitrary text
			ps := rng.Pick(r, []string{"1", "2", "3", "4", "0", "5", "+2", "02", "-1", "2147483647", "2147483648", "-2147483648", "4294967298", "", "x", " 2", "2 "})
			str := ps + ":" + s
			if r.Chance(15) {
				str = s
			}
			pc, perr := core.ParseCrossChainID(str)
			d := map[string]any{"op": "parse", "text": str, "impl_ok": perr == nil}
			add(Case{Input: fmt.Sprintf("IParse %s", cq.Str(str)), Expected: parseVal(pc, perr), Desc: d,
				Kind: fmt.Sprintf("parse/%v", perr == nil), NonTriv: perr == nil, Key: "p|" + str})
			if perr == nil {
				if pc.Validate() != nil {
					fail(fmt.Sprintf("parse of %q returns an invalid id", str), "parse-invalid", d)
				}
			}
		case 4: // CounterpartyID() of the attributes
			dom := uint32(r.U64())
			if r.Chance(40) {
				dom = rng.Pick(r, []uint32{0, 1, 4, 9, 10, 4294967295, 4294967294, 2147483648, 2147483647, 1000000000, 999999999})
			}
			a := (&fwdtypes.CCTPAttributes{DestinationDomain: dom}).CounterpartyID()
			h := (&fwdtypes.HypAttributes{DestinationDomain: dom}).CounterpartyID()
			in := (&fwdtypes.InternalAttributes{Recipient: s}).CounterpartyID()
			d := map[string]any{"op": "counterparty_of_domain", "domain": dom, "cctp": a, "hyperlane": h, "internal": in}
			add(Case{Input: fmt.Sprintf("ICounterparty %s", cq.ZU(uint64(dom))), Expected: cq.VL(cq.VS(a), cq.VS(h), cq.VS(in)), Desc: d,
				Kind: "counterparty", NonTriv: true, Key: fmt.Sprintf("c|%d", dom)})
			want := strconv.FormatUint(uint64(dom), 10)
			if a != want || h != want {
				fail(fmt.Sprintf("transfers to domain %d are recorded under %q / %q, not its decimal form", dom, a, h), "counterparty-form", d)
			}
			for _, pp := range []core.ProtocolID{core.PROTOCOL_CCTP, core.PROTOCOL_HYPERLANE} {
				if core.ValidateCounterpartyID(a, pp) != nil {
					fail(fmt.Sprintf("the identifier %q under which transfers to domain %d are recorded is refused for protocol %d", a, dom, pp), "recorded-id-refused", d)
				}
			}
		case 5: // enum validation and lookup by name
			name := rng.Pick(r, []string{"PROTOCOL_IBC", "PROTOCOL_CCTP", "PROTOCOL_HYPERLANE", "PROTOCOL_INTERNAL", "PROTOCOL_UNSUPPORTED",
				"ACTION_FEE", "ACTION_SWAP", "ACTION_UNSUPPORTED", "protocol_ibc", "1", "2", "", "IBC", s})
			_, e1 := core.NewProtocolIDFromString(name)
			pid, _ := core.NewProtocolIDFromString(name)
			_, e2 := core.NewActionIDFromString(name)
			aid, _ := core.NewActionIDFromString(name)
			pv := core.ProtocolID(p).Validate() == nil
			av := core.ActionID(p).Validate() == nil
			d := map[string]any{"op": "enums", "name": name, "number": p}
			exp := cq.VL(optZ(e1 == nil, int64(pid)), optZ(e2 == nil, int64(aid)), cq.VB(pv), cq.VB(av))
			add(Case{Input: fmt.Sprintf("IEnums %s %s", cq.Str(name), cq.ZI(int64(p))), Expected: exp, Desc: d,
				Kind: "enums", NonTriv: e1 == nil || e2 == nil || pv || av, Key: fmt.Sprintf("e|%s|%d", name, p)})
		}
	}
	// no two accepted identifiers denote the same destination
	for p, set := range accepted {
		byVal := map[int64]string{}
		for s := range set {
			v, err := strconv.ParseInt(strings.TrimPrefix(s, "+"), 10, 64)
			if err != nil {
				continue
			}
			if prev, ok := byVal[v]; ok && prev != s {
				fail(fmt.Sprintf("identifiers %q and %q are both accepted for protocol %d and denote the same domain", prev, s, p),
					"alias-accepted", map[string]any{"op": "aliases", "s1": prev, "s2": s, "protocol": p})
			}
			byVal[v] = s
		}
	}
	return res
}

func clampProto(p int32) int32 {
	if p < 0 || p > 5 {
		return 9
	}
	return p
}

func optZ(ok bool, v int64) cq.V {
	if ok {
		return cq.VSome(cq.VZ(v))
	}
	return cq.VNone()
}

func parseVal(c core.CrossChainID, err error) cq.V {
	if err != nil {
		return cq.VNone()
	}
	return cq.VSome(cq.VL(cq.VZ(int64(c.ProtocolId)), cq.VS(c.CounterpartyId)))
}
