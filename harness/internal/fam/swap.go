package fam

import (
	"context"
	"errors"

	"cosmossdk.io/core/event"
	sdk "github.com/cosmos/cosmos-sdk/types"

	"github.com/noble-assets/orbiter/v2/controller"
	orbtypes "github.com/noble-assets/orbiter/v2/types"
	"github.com/noble-assets/orbiter/v2/types/core"

	"verif/harness/internal/sim"
	"verif/harness/internal/world"
)

// swapController is the harness-defined denomination-changing action controller registered under
// ACTION_SWAP on the instrumented instance (C06); coq/Model/Swap.v is its model.
type swapController struct {
	*controller.BaseController[core.ActionID]
	bank world.RecBank
}

// PoolAddr is the account the swap controller trades against.
func PoolAddr() sdk.AccAddress { return world.ModAddr("verif-pool") }

func otherDenom(d string) (string, bool) {
	switch d {
	case sim.USDC:
		return "ufoo", true
	case "ufoo":
		return sim.USDC, true
	}
	return "", false
}

func newSwap(bank world.RecBank, _ event.Service) orbtypes.ActionController {
	b, err := controller.NewBase(core.ACTION_SWAP)
	if err != nil {
		panic(err)
	}
	return &swapController{BaseController: b, bank: bank}
}

func (c *swapController) HandlePacket(ctx context.Context, p *orbtypes.ActionPacket) error {
	ta := p.TransferAttributes
	d2, ok := otherDenom(ta.DestinationDenom())
	if !ok {
		return errors.New("swap: unsupported denomination")
	}
	in := ta.DestinationAmount()
	// at par when the amount is a multiple of three, otherwise half as many (rounded up)
	out := in.AddRaw(1).QuoRaw(2)
	if in.ModRaw(3).IsZero() {
		out = in
	}
	if err := c.bank.SendCoins(ctx, core.ModuleAddress, PoolAddr(), sdk.NewCoins(sdk.NewCoin(ta.DestinationDenom(), in))); err != nil {
		return err
	}
	if err := c.bank.SendCoins(ctx, PoolAddr(), core.ModuleAddress, sdk.NewCoins(sdk.NewCoin(d2, out))); err != nil {
		return err
	}
	ta.SetDestinationDenom(d2)
	ta.SetDestinationAmount(out)
	return nil
}
