// Package fam holds the case families: generators, implementation runners, projections and the
// property oracles evaluated on what the implementation did.
package fam

import (
	"verif/harness/internal/cq"
)

// Case is one correspondence case: a Coq input term for the family's evaluator, the projection of
// what the implementation did, and a JSON description for replays.
type Case struct {
	Input    string         `json:"-"`
	Expected cq.V           `json:"-"`
	Desc     map[string]any `json:"desc"`
	Kind     string         `json:"kind"`   // shape label, for the distribution histogram
	NonTriv  bool           `json:"nontrivial"`
	Key      string         `json:"-"`      // distinctness key
}

// Failure is a violation of the property's own oracle observed on the implementation.
type Failure struct {
	What   string         `json:"what"`   // short description, matched against known findings
	Sig    string         `json:"sig"`    // signature used to match known_findings.json entries
	Prop   string         `json:"prop,omitempty"` // the property whose statement the observation contradicts ("" = the family's own)
	Case   map[string]any `json:"case"`
}

// Result of running a family.
type Result struct {
	Evaluator string    // Coq function of Corr/Run.v that maps an input to a val
	InputType string    // Coq type of the inputs
	Imports   []string  // extra Require lines
	Cases     []Case
	Failures  []Failure
	Rule      string
	Notes     map[string]any
}
