package fam

import (
	"bytes"
	"encoding/json"
	"fmt"
	"math/big"
	"reflect"
	"sort"
	"strings"

	"cosmossdk.io/math"
	sdk "github.com/cosmos/cosmos-sdk/types"
	"github.com/cosmos/gogoproto/proto"

	orbtypes "github.com/noble-assets/orbiter/v2/types"
	actiontypes "github.com/noble-assets/orbiter/v2/types/controller/action"
	forwardingtypes "github.com/noble-assets/orbiter/v2/types/controller/forwarding"
	"github.com/noble-assets/orbiter/v2/types/core"

	"verif/harness/internal/cq"
	"verif/harness/internal/rng"
	"verif/harness/internal/sim"
	"verif/harness/internal/world"
)

// ---------- real payloads as values ----------

func feeInfoV(f *actiontypes.FeeInfo) cq.V {
	if f == nil {
		return cq.VL()
	}
	t := cq.VL()
	switch x := f.FeeType.(type) {
	case *actiontypes.FeeInfo_BasisPoints_:
		if x == nil || x.BasisPoints == nil {
			t = cq.VL(cq.VZ(1))
		} else {
			t = cq.VL(cq.VZ(0), cq.VU(uint64(x.BasisPoints.Value)))
		}
	case *actiontypes.FeeInfo_Amount_:
		if x == nil || x.Amount == nil {
			t = cq.VL(cq.VZ(3))
		} else {
			t = cq.VL(cq.VZ(2), cq.VS(x.Amount.Value))
		}
	}
	return cq.VL(cq.VS(f.Recipient), t)
}

func bigOrZero(i math.Int) *big.Int {
	if i.IsNil() {
		return new(big.Int)
	}
	return i.BigInt()
}

func attrsV(v any, url string) cq.V {
	switch a := v.(type) {
	case *forwardingtypes.CCTPAttributes:
		return cq.VL(cq.VS("cctp"), cq.VU(uint64(a.DestinationDomain)), cq.VS(string(a.MintRecipient)), cq.VS(string(a.DestinationCaller)))
	case *forwardingtypes.HypAttributes:
		return cq.VL(cq.VS("hyp"), cq.VS(string(a.TokenId)), cq.VU(uint64(a.DestinationDomain)), cq.VS(string(a.Recipient)), cq.VS(string(a.CustomHookId)),
			cq.VS(a.CustomHookMetadata), cq.VBig(bigOrZero(a.GasLimit)), cq.VS(a.MaxFee.Denom), cq.VBig(bigOrZero(a.MaxFee.Amount)))
	case *forwardingtypes.InternalAttributes:
		return cq.VL(cq.VS("internal"), cq.VS(a.Recipient))
	case *actiontypes.FeeAttributes:
		items := make([]cq.V, len(a.FeesInfo))
		for i, f := range a.FeesInfo {
			items[i] = feeInfoV(f)
		}
		return cq.VL(cq.VS("fee"), cq.VL(items...))
	}
	return cq.VL(cq.VS("other"), cq.VS(url))
}

func payloadV(p *core.Payload) cq.V {
	acts := make([]cq.V, len(p.PreActions))
	for i, a := range p.PreActions {
		if a == nil {
			acts[i] = cq.VL()
			continue
		}
		at := cq.VL()
		if a.Attributes != nil {
			at = cq.VL(attrsV(a.Attributes.GetCachedValue(), a.Attributes.TypeUrl))
		}
		acts[i] = cq.VL(cq.VZ(int64(int32(a.Id))), at)
	}
	fwd := cq.VL()
	if f := p.Forwarding; f != nil {
		at := cq.VL()
		if f.Attributes != nil {
			at = cq.VL(attrsV(f.Attributes.GetCachedValue(), f.Attributes.TypeUrl))
		}
		fwd = cq.VL(cq.VZ(int64(int32(f.ProtocolId))), at, cq.VS(string(f.PassthroughPayload)))
	}
	return cq.VL(cq.VL(acts...), fwd)
}

// ---------- generation of payloads ----------

type jsonGen struct {
	r   *rng.R
	a   actors
	// type URLs of messages registered on the chain that are neither action nor forwarding attributes
	foreignURLs []string
	cdc interface {
		MarshalJSON(o proto.Message) ([]byte, error)
		Marshal(o proto.Message) ([]byte, error)
	}
}

func (g *jsonGen) bytesN(choices ...int) []byte {
	n := rng.Pick(g.r, choices)
	if n == 0 {
		return nil
	}
	return g.r.Bytes(n)
}

func (g *jsonGen) domain() uint32 {
	return rng.Pick(g.r, []uint32{0, 1, 2, 4, 7, 1196573006, 4294967295, uint32(g.r.Intn(1 << 30))})
}

func (g *jsonGen) intv() math.Int {
	switch g.r.Intn(6) {
	case 0:
		return math.ZeroInt()
	case 1:
		return math.NewIntFromBigInt(new(big.Int).Sub(new(big.Int).Lsh(big.NewInt(1), 256), big.NewInt(1)))
	case 2:
		return math.NewInt(-int64(g.r.Intn(1000)))
	default:
		return math.NewIntFromBigInt(g.r.Big(1 + g.r.Intn(80)))
	}
}

// forwarding returns a forwarding and how it was built.
func (g *jsonGen) forwarding() (*core.Forwarding, string) {
	pass := g.bytesN(0, 0, 1, 2, 3, 17, 60)
	switch g.r.Intn(3) {
	case 0:
		d, m, c := g.domain(), g.bytesN(32, 32, 32, 0, 20, 33), g.bytesN(32, 32, 0, 31)
		if f, err := forwardingtypes.NewCCTPForwarding(d, m, c, pass); err == nil {
			return f, "constructor/cctp"
		}
		return &core.Forwarding{ProtocolId: rng.Pick(g.r, []core.ProtocolID{2, 2, 2, 3, 0, 7, 5}), PassthroughPayload: pass,
			Attributes: anyOf(&forwardingtypes.CCTPAttributes{DestinationDomain: d, MintRecipient: m, DestinationCaller: c})}, "direct/cctp"
	case 1:
		tok, d, rc, hook := g.bytesN(32, 32, 32, 0, 5), g.domain(), g.bytesN(32, 32, 32, 0, 40), g.bytesN(0, 0, 32, 32, 7)
		md := rng.Pick(g.r, []string{"", "", "0x", "0x00ff", "zz", "héllo \"q\" \\ \n"})
		gas, fee := g.intv(), sdk.Coin{Denom: rng.Pick(g.r, []string{"uusdc", "uusdc", "", "ibc/ABCDEF", "x"}), Amount: g.intv()}
		if f, err := forwardingtypes.NewHyperlaneForwarding(tok, d, rc, hook, md, gas, fee, pass); err == nil {
			return f, "constructor/hyp"
		}
		return &core.Forwarding{ProtocolId: rng.Pick(g.r, []core.ProtocolID{3, 3, 3, 2, 0, -1}), PassthroughPayload: pass,
			Attributes: anyOf(&forwardingtypes.HypAttributes{TokenId: tok, DestinationDomain: d, Recipient: rc, CustomHookId: hook, CustomHookMetadata: md, GasLimit: gas, MaxFee: fee})}, "direct/hyp"
	default:
		to := rng.Pick(g.r, []string{g.a.users[0].Bech, g.a.users[1].Bech, "", "noble1invalid", "NOBLE1ÜX", g.a.users[0].Bech})
		if g.r.Chance(50) {
			if f, err := forwardingtypes.NewInternalForwarding(to); err == nil {
				return f, "constructor/internal"
			}
		}
		return &core.Forwarding{ProtocolId: rng.Pick(g.r, []core.ProtocolID{4, 4, 4, 1, 0}), PassthroughPayload: pass,
			Attributes: anyOf(&forwardingtypes.InternalAttributes{Recipient: to})}, "direct/internal"
	}
}

func (g *jsonGen) feeInfo() *actiontypes.FeeInfo {
	rcp := rng.Pick(g.r, []string{g.a.feeRcps[0].Bech, g.a.feeRcps[1].Bech, g.a.users[0].Bech, "", "noble1bad"})
	switch g.r.Intn(7) {
	case 0, 1, 2:
		v := rng.Pick(g.r, []uint32{1, 10, 100, 9999, 10000, 0, 10001, 4294967295})
		if bp, err := actiontypes.NewFeeBasisPoints(v); err == nil {
			if fi, err := actiontypes.NewFeeInfo(rcp, bp); err == nil {
				return fi
			}
		}
		return &actiontypes.FeeInfo{Recipient: rcp, FeeType: &actiontypes.FeeInfo_BasisPoints_{BasisPoints: &actiontypes.FeeInfo_BasisPoints{Value: v}}}
	case 3, 4, 5:
		v := rng.Pick(g.r, []string{"1", "25", "1000000", "0", "-3", "", "abc", "0x10", "1_0", "115792089237316195423570985008687907853269984665640564039457584007913129639935"})
		if am, err := actiontypes.NewFeeAmount(v); err == nil {
			if fi, err := actiontypes.NewFeeInfo(rcp, am); err == nil {
				return fi
			}
		}
		return &actiontypes.FeeInfo{Recipient: rcp, FeeType: &actiontypes.FeeInfo_Amount_{Amount: &actiontypes.FeeInfo_Amount{Value: v}}}
	default:
		return &actiontypes.FeeInfo{Recipient: rcp}
	}
}

func (g *jsonGen) payload() (*core.PayloadWrapper, string) {
	fwd, how := g.forwarding()
	var acts []*core.Action
	nact := rng.Pick(g.r, []int{0, 0, 1, 1, 1, 2, 3})
	// three actions: an identifier repeated next to itself or with another one in between
	var ids3 []core.ActionID
	if nact == 3 && g.r.Chance(70) {
		ids3 = rng.Pick(g.r, [][]core.ActionID{{1, 2, 1}, {2, 1, 2}, {1, 1, 2}, {1, 2, 2}})
	}
	for i := 0; i < nact; i++ {
		n := rng.Pick(g.r, []int{0, 1, 1, 2, 3, 5, 6})
		infos := make([]*actiontypes.FeeInfo, n)
		for j := range infos {
			infos[j] = g.feeInfo()
		}
		if ids3 != nil {
			how = strings.Replace(how, "constructor", "direct", 1)
			acts = append(acts, &core.Action{Id: ids3[i], Attributes: anyOf(&actiontypes.FeeAttributes{FeesInfo: infos})})
			continue
		}
		if a, err := actiontypes.NewFeeAction(infos...); err == nil && i == 0 {
			acts = append(acts, a)
			continue
		}
		how = strings.Replace(how, "constructor", "direct", 1)
		acts = append(acts, &core.Action{Id: rng.Pick(g.r, []core.ActionID{1, 1, 1, 2, 0, 9, 3, 4, -1}), Attributes: anyOf(&actiontypes.FeeAttributes{FeesInfo: infos})})
	}
	if strings.HasPrefix(how, "constructor") {
		if pw, err := core.NewPayloadWrapper(fwd, acts...); err == nil {
			return pw, how
		}
		how = strings.Replace(how, "constructor", "direct", 1)
	}
	return &core.PayloadWrapper{Orbiter: &core.Payload{PreActions: acts, Forwarding: fwd}}, how
}

// ---------- mutations ----------

type member struct {
	obj *jnode
	idx int
}

func collectMembers(n *jnode, pred func(key string, v *jnode) bool, out *[]member) {
	switch n.kind {
	case 'o':
		for i := range n.keys {
			if pred(n.keys[i].dec, n.vals[i]) {
				*out = append(*out, member{n, i})
			}
			collectMembers(n.vals[i], pred, out)
		}
	case 'a':
		for _, x := range n.arr {
			collectMembers(x, pred, out)
		}
	}
}

func collectObjects(n *jnode, out *[]*jnode) {
	switch n.kind {
	case 'o':
		*out = append(*out, n)
		for _, v := range n.vals {
			collectObjects(v, out)
		}
	case 'a':
		for _, x := range n.arr {
			collectObjects(x, out)
		}
	}
}

func collectArrays(n *jnode, out *[]*jnode) {
	switch n.kind {
	case 'o':
		for _, v := range n.vals {
			collectArrays(v, out)
		}
	case 'a':
		*out = append(*out, n)
		for _, x := range n.arr {
			collectArrays(x, out)
		}
	}
}

var camelOf = map[string]string{"pre_actions": "preActions", "protocol_id": "protocolId", "passthrough_payload": "passthroughPayload",
	"destination_domain": "destinationDomain", "mint_recipient": "mintRecipient", "destination_caller": "destinationCaller", "token_id": "tokenId",
	"custom_hook_id": "customHookId", "custom_hook_metadata": "customHookMetadata", "gas_limit": "gasLimit", "max_fee": "maxFee", "fees_info": "feesInfo",
	"basis_points": "basisPoints"}

func inSet(xs ...string) func(string, *jnode) bool {
	return func(k string, _ *jnode) bool {
		for _, x := range xs {
			if x == k {
				return true
			}
		}
		return false
	}
}

func (g *jsonGen) junk() *jnode {
	switch g.r.Intn(8) {
	case 0:
		return jnull()
	case 1:
		return jnum(rng.Pick(g.r, []string{"0", "1", "-1", "1.5", "1e2", "4294967296", "2", "3"}))
	case 2:
		return jstr(rng.Pick(g.r, []string{"", "x", "1", "null", "PROTOCOL_CCTP", "ACTION_FEE", "AAAA"}))
	case 3:
		return jarr()
	case 4:
		return jarr(jnull())
	case 5:
		return jobj()
	case 6:
		return jbool(g.r.Bool())
	default:
		return jobj().add("value", jnum("1"))
	}
}

// mutate applies one single-point mutation and names its class ("" when nothing applicable was found).
func (g *jsonGen) mutate(root *jnode) string {
	if root.kind != 'o' || len(root.keys) == 0 {
		return "" // an earlier mutation emptied the document
	}
	var objs []*jnode
	collectObjects(root, &objs)
	pickMember := func(pred func(string, *jnode) bool) (member, bool) {
		var ms []member
		collectMembers(root, pred, &ms)
		if len(ms) == 0 {
			return member{}, false
		}
		return ms[g.r.Intn(len(ms))], true
	}
	insert := func(o *jnode, at int, k jkey, v *jnode) {
		o.keys = append(o.keys, jkey{})
		o.vals = append(o.vals, nil)
		copy(o.keys[at+1:], o.keys[at:])
		copy(o.vals[at+1:], o.vals[at:])
		o.keys[at], o.vals[at] = k, v
	}
	switch g.r.Intn(17) {
	case 16: // attributes replaced by a message of another kind the chain knows, with nothing but its type
		m, ok := pickMember(func(k string, v *jnode) bool { return k == "attributes" && v.kind == 'o' })
		if !ok || len(g.foreignURLs) == 0 {
			return ""
		}
		m.obj.vals[m.idx] = &jnode{kind: 'o', keys: []jkey{mkKey("@type")}, vals: []*jnode{jstr(g.foreignURLs[g.r.Intn(len(g.foreignURLs))])}}
		return "attributes-of-a-foreign-registered-type"
	case 0: // extra root key
		k := rng.Pick(g.r, []string{"orbiter2", "", "Orbiter", "wasm", "forward", "orbiter "})
		insert(root, g.r.Intn(len(root.keys)+1), mkKey(k), g.junk())
		return "extra-root-key"
	case 1: // the root key repeated
		v := rng.Pick(g.r, []*jnode{jnull(), jobj(), root.vals[0].clone(), jstr("x")})
		k := jkey{raw: rng.Pick(g.r, []string{"orbiter", `\u006frbiter`, "orbiter"}), dec: "orbiter"}
		insert(root, g.r.Intn(len(root.keys)+1), k, v)
		return "repeated-root-key"
	case 2: // a key repeated somewhere
		o := objs[g.r.Intn(len(objs))]
		if len(o.keys) == 0 {
			return ""
		}
		i := g.r.Intn(len(o.keys))
		v := g.junk()
		if g.r.Chance(40) {
			v = o.vals[i].clone()
		}
		insert(o, g.r.Intn(len(o.keys)+1), o.keys[i], v)
		return "duplicated-key"
	case 3: // unknown field
		o := objs[g.r.Intn(len(objs))]
		k := rng.Pick(g.r, []string{"foo", "value2", "Id", "ID", "pre_Actions", "type", "@Type", "memo", "fee", "denom ", "recipient2", "amounts", "x"})
		insert(o, g.r.Intn(len(o.keys)+1), mkKey(k), g.junk())
		return "unknown-field"
	case 4: // type URL
		m, ok := pickMember(inSet("@type"))
		if !ok {
			return ""
		}
		switch g.r.Intn(10) {
		case 0:
			m.obj.keys = append(m.obj.keys[:m.idx], m.obj.keys[m.idx+1:]...)
			m.obj.vals = append(m.obj.vals[:m.idx], m.obj.vals[m.idx+1:]...)
			return "type-url/removed"
		case 1: // moved last
			k, v := m.obj.keys[m.idx], m.obj.vals[m.idx]
			m.obj.keys = append(append(m.obj.keys[:m.idx:m.idx], m.obj.keys[m.idx+1:]...), k)
			m.obj.vals = append(append(m.obj.vals[:m.idx:m.idx], m.obj.vals[m.idx+1:]...), v)
			return "type-url/moved"
		case 2:
			m.obj.vals[m.idx] = rng.Pick(g.r, []*jnode{jnull(), jnum("1"), jobj(), jarr()})
			return "type-url/not-a-string"
		default:
			url := rng.Pick(g.r, []string{"/noble.orbiter.controller.forwarding.v1.CCTPAttributes", "/noble.orbiter.controller.forwarding.v1.HypAttributes",
				"/noble.orbiter.controller.forwarding.v1.InternalAttributes", "/noble.orbiter.controller.action.v2.FeeAttributes",
				"noble.orbiter.controller.forwarding.v1.CCTPAttributes", "/noble.orbiter.controller.action.v1.FeeAttributes", "", "/",
				"/cosmos.bank.v1beta1.MsgSend", "/noble.orbiter.core.v1.Payload", "/noble.orbiter.core.v1.Forwarding", "/google.protobuf.Any",
				"type.googleapis.com/noble.orbiter.controller.forwarding.v1.CCTPAttributes", "/noble.orbiter.controller.forwarding.v1.cctpattributes",
				"/noble.orbiter.component.forwarder.v1.MsgPauseProtocol", "/noble.orbiter.component.adapter.v1.MsgUpdateParams", "/cosmos.bank.v1beta1.MsgSend",
				"/noble.orbiter.component.executor.v1.MsgPauseAction", "/cosmos.bank.v1beta1.Metadata"})
			m.obj.vals[m.idx] = jstr(url)
			if g.r.Chance(45) {
				// the message of another kind with nothing but its type: no field of the original is left to be refused as unknown
				m.obj.keys, m.obj.vals = []jkey{m.obj.keys[m.idx]}, []*jnode{m.obj.vals[m.idx]}
				return "type-url/other-bare"
			}
			return "type-url/other"
		}
	case 5: // enum spelling
		m, ok := pickMember(inSet("id", "protocol_id", "protocolId"))
		if !ok {
			return ""
		}
		m.obj.vals[m.idx] = rng.Pick(g.r, []*jnode{jnum("0"), jnum("1"), jnum("2"), jnum("3"), jnum("4"), jnum("5"), jnum("-1"), jnum("-0"), jnum("2147483647"),
			jnum("2147483648"), jnum("-2147483648"), jnum("-2147483649"), jnum("1.0"), jnum("1e0"), jstr("1"), jstr("2"), jstr("ACTION_FEE"), jstr("ACTION_SWAP"),
			jstr("ACTION_UNSUPPORTED"), jstr("PROTOCOL_IBC"), jstr("PROTOCOL_CCTP"), jstr("PROTOCOL_HYPERLANE"), jstr("PROTOCOL_INTERNAL"), jstr("PROTOCOL_UNSUPPORTED"),
			jstr("protocol_cctp"), jstr("CCTP"), jstr(""), jraw(`\u0050ROTOCOL_CCTP`), jraw(`\u0041CTION_FEE`), jnull(), jbool(true), jarr(), jobj(), jstr(" PROTOCOL_CCTP")})
		return "enum-spelling"
	case 6: // camel names
		m, ok := pickMember(func(k string, _ *jnode) bool { _, ok := camelOf[k]; return ok })
		if !ok {
			return ""
		}
		orig := m.obj.keys[m.idx].dec
		if g.r.Chance(50) {
			m.obj.keys[m.idx] = mkKey(camelOf[orig])
			return "camel-name"
		}
		insert(m.obj, g.r.Intn(len(m.obj.keys)+1), mkKey(camelOf[orig]), rng.Pick(g.r, []*jnode{g.junk(), m.obj.vals[m.idx].clone()}))
		return "both-names"
	case 7: // a value replaced by null / another JSON type
		var ms []member
		collectMembers(root, func(string, *jnode) bool { return true }, &ms)
		if len(ms) == 0 {
			return ""
		}
		m := ms[g.r.Intn(len(ms))]
		m.obj.vals[m.idx] = g.junk()
		return "wrong-type/" + m.obj.keys[m.idx].dec
	case 8: // uint32 spellings
		m, ok := pickMember(func(k string, v *jnode) bool { return (k == "destination_domain" || k == "value") && v.kind == '#' })
		if !ok {
			return ""
		}
		m.obj.vals[m.idx] = rng.Pick(g.r, []*jnode{jstr("12"), jstr(" 12 "), jstr("null"), jstr("0012"), jstr(""), jstr("1.0"), jstr("true"), jraw(`\u0031`), jraw(`1\n`), jstr("[1]"),
			jnum("4294967295"), jnum("4294967296"), jnum("-1"), jnum("-0"), jnum("1.5"), jnum("1e2"), jnum("0"), jstr("4294967295"), jstr("4294967296"), jstr("-1"), jnull(), jbool(false)})
		return "uint32-spelling"
	case 9: // bytes spellings
		m, ok := pickMember(func(k string, v *jnode) bool {
			return inSet("mint_recipient", "destination_caller", "token_id", "custom_hook_id", "passthrough_payload")(k, v) || (k == "recipient" && v.kind == 's' && len(v.dec) == 44)
		})
		if !ok {
			return ""
		}
		old := ""
		if m.obj.vals[m.idx].kind == 's' {
			old = m.obj.vals[m.idx].dec
		}
		var nv *jnode
		switch g.r.Intn(9) {
		case 0:
			nv = jstr(strings.TrimRight(old, "="))
		case 1:
			if len(old) > 4 {
				nv = jstr(old[:4] + "\n" + old[4:])
			} else {
				nv = jstr(old + "\r\n")
			}
		case 2:
			nv = jstr(strings.NewReplacer("+", "-", "/", "_").Replace(old) + "-_")
		case 3:
			nv = jarr(jnum("1"), jnum("255"), jnum("0"))
		case 4:
			nv = jarr(jnum("256"))
		case 5:
			nv = jstr(old + "=")
		case 6:
			nv = jstr(rng.Pick(g.r, []string{"A", "AA", "AAA", "AA==", "AA=A", "A===", "AAA=", "AAAA", "AAAAA", "=AAA", "AA==\n", "AA=\n=", "AA==A", "QQ==", "QR==", "*AAA", "AA A"}))
		case 7:
			nv = jarr(jnull(), jnum("7"))
		default:
			nv = jarr(jnum("1"), jstr("2"))
		}
		m.obj.vals[m.idx] = nv
		return "bytes-spelling"
	case 10: // integer texts
		m, ok := pickMember(func(k string, v *jnode) bool { return k == "gas_limit" || (k == "amount" && v.kind == 's') })
		if !ok {
			return ""
		}
		m.obj.vals[m.idx] = rng.Pick(g.r, []*jnode{jstr("0x10"), jstr("1_000"), jstr("+5"), jstr("-5"), jstr(""), jstr(" 5"), jnum("5"), jstr("007"), jstr("0b11"), jstr("-0"),
			jstr("115792089237316195423570985008687907853269984665640564039457584007913129639936"), jstr("115792089237316195423570985008687907853269984665640564039457584007913129639935"),
			jstr("-115792089237316195423570985008687907853269984665640564039457584007913129639935"), jnull(), jstr("1e3"), jstr("12"), jraw(`\u0031\u0032`)})
		return "integer-text"
	case 11: // the fee type
		m, ok := pickMember(inSet("basis_points", "amount"))
		if !ok || m.obj.get("recipient") < 0 {
			return ""
		}
		switch g.r.Intn(6) {
		case 0:
			insert(m.obj, g.r.Intn(len(m.obj.keys)+1), mkKey("amount"), jobj().add("value", jstr("7")))
			insert(m.obj, g.r.Intn(len(m.obj.keys)+1), mkKey(rng.Pick(g.r, []string{"basis_points", "basisPoints"})), jobj().add("value", jnum("3")))
			return "fee-type/both"
		case 1:
			insert(m.obj, g.r.Intn(len(m.obj.keys)+1), mkKey("fee_type"), rng.Pick(g.r, []*jnode{jnull(), jobj(), jstr("amount")}))
			return "fee-type/field-name"
		case 2:
			m.obj.vals[m.idx] = jnull()
			return "fee-type/null"
		case 3:
			m.obj.vals[m.idx] = jobj()
			return "fee-type/empty"
		case 4:
			other := "amount"
			if m.obj.keys[m.idx].dec == "amount" {
				other = "basis_points"
			}
			insert(m.obj, g.r.Intn(len(m.obj.keys)+1), mkKey(other), jnull())
			return "fee-type/both-one-null"
		default:
			m.obj.keys = append(m.obj.keys[:m.idx], m.obj.keys[m.idx+1:]...)
			m.obj.vals = append(m.obj.vals[:m.idx], m.obj.vals[m.idx+1:]...)
			return "fee-type/removed"
		}
	case 12: // null / junk elements of lists
		var arrs []*jnode
		collectArrays(root, &arrs)
		if len(arrs) == 0 {
			return ""
		}
		a := arrs[g.r.Intn(len(arrs))]
		at := g.r.Intn(len(a.arr) + 1)
		a.arr = append(a.arr, nil)
		copy(a.arr[at+1:], a.arr[at:])
		a.arr[at] = rng.Pick(g.r, []*jnode{jnull(), jnull(), jobj(), jstr("x"), jnum("1")})
		return "list-element"
	case 13: // a field removed
		var ms []member
		collectMembers(root, func(string, *jnode) bool { return true }, &ms)
		if len(ms) == 0 {
			return ""
		}
		m := ms[g.r.Intn(len(ms))]
		name := m.obj.keys[m.idx].dec
		m.obj.keys = append(m.obj.keys[:m.idx], m.obj.keys[m.idx+1:]...)
		m.obj.vals = append(m.obj.vals[:m.idx], m.obj.vals[m.idx+1:]...)
		return "removed/" + name
	case 14: // an action repeated / reordered
		m, ok := pickMember(inSet("pre_actions"))
		if !ok || m.obj.vals[m.idx].kind != 'a' || len(m.obj.vals[m.idx].arr) == 0 {
			return ""
		}
		a := m.obj.vals[m.idx]
		a.arr = append(a.arr, a.arr[g.r.Intn(len(a.arr))].clone())
		return "action-repeated"
	default: // an escaped key
		var ms []member
		collectMembers(root, func(k string, _ *jnode) bool { return len(k) > 0 }, &ms)
		if len(ms) == 0 {
			return ""
		}
		m := ms[g.r.Intn(len(ms))]
		k := m.obj.keys[m.idx]
		m.obj.keys[m.idx] = jkey{raw: fmt.Sprintf(`\u%04x`, k.dec[0]) + k.raw[1:], dec: k.dec}
		if k.raw[0] == '\\' {
			m.obj.keys[m.idx] = k
		}
		return "escaped-key"
	}
}

// forceBoth gives one fee entry both alternatives of the fee type (false when the document has no fee entry).
func (g *jsonGen) forceBoth(root *jnode) bool {
	var ms []member
	collectMembers(root, inSet("recipient"), &ms)
	var infos []*jnode
	for _, m := range ms {
		if m.obj.get("@type") < 0 {
			infos = append(infos, m.obj)
		}
	}
	if len(infos) == 0 {
		return false
	}
	o := infos[g.r.Intn(len(infos))]
	// the added alternative is sometimes null: present as a key, absent as a value
	null := g.r.Chance(40)
	if o.get("amount") < 0 {
		if null {
			o.add("amount", jnull())
		} else {
			o.add("amount", jobj().add("value", jstr("7")))
		}
	}
	if o.get("basis_points") < 0 && o.get("basisPoints") < 0 {
		if null {
			o.add(rng.Pick(g.r, []string{"basis_points", "basisPoints"}), jnull())
		} else {
			o.add("basis_points", jobj().add("value", jnum("3")))
		}
	}
	return true
}

// ---------- the acceptance oracle, on the generic document ----------

func knownNames(m any) map[string]bool {
	t := reflect.TypeOf(m).Elem()
	sp := proto.GetProperties(t)
	out := map[string]bool{}
	for i := 0; i < t.NumField(); i++ {
		if sp.Prop[i].OrigName != "" && !strings.HasPrefix(t.Field(i).Name, "XXX_") {
			out[sp.Prop[i].OrigName] = true
			if sp.Prop[i].JSONName != "" {
				out[sp.Prop[i].JSONName] = true
			}
		}
	}
	for _, o := range sp.OneofTypes {
		out[o.Prop.OrigName] = true
		if o.Prop.JSONName != "" {
			out[o.Prop.JSONName] = true
		}
	}
	return out
}

var fwdURLs = map[string]any{
	"/noble.orbiter.controller.forwarding.v1.CCTPAttributes":     &forwardingtypes.CCTPAttributes{},
	"/noble.orbiter.controller.forwarding.v1.HypAttributes":      &forwardingtypes.HypAttributes{},
	"/noble.orbiter.controller.forwarding.v1.InternalAttributes": &forwardingtypes.InternalAttributes{},
}
var actURLs = map[string]any{"/noble.orbiter.controller.action.v2.FeeAttributes": &actiontypes.FeeAttributes{}}

// wellFormed says why an accepted memo is not what the property allows ("" = fine).
func wellFormed(memo string) string {
	var root map[string]any
	if err := json.Unmarshal([]byte(memo), &root); err != nil {
		return "not a JSON object"
	}
	if len(root) != 1 {
		return "more than one root key"
	}
	orb, ok := root["orbiter"].(map[string]any)
	if !ok {
		return "no 'orbiter' object at the root"
	}
	pick := func(o map[string]any, orig, camel string) (any, bool) {
		if v, ok := o[camel]; ok {
			return v, true
		}
		v, ok := o[orig]
		return v, ok
	}
	unknown := func(o map[string]any, m any, extra ...string) string {
		names := knownNames(m)
		for _, e := range extra {
			names[e] = true
		}
		for k := range o {
			if !names[k] {
				return k
			}
		}
		return ""
	}
	if k := unknown(orb, &core.Payload{}); k != "" {
		return "unknown field " + k + " in the payload"
	}
	enum := func(v any, names map[string]int32, lo, hi int32) (int32, bool) {
		switch x := v.(type) {
		case string:
			n, ok := names[x]
			return n, ok && n >= lo && n <= hi
		case float64:
			return int32(x), x == float64(int32(x)) && int32(x) >= lo && int32(x) <= hi
		}
		return 0, false
	}
	attrsOK := func(v any, urls map[string]any) string {
		o, ok := v.(map[string]any)
		if !ok {
			return "attributes are not an object"
		}
		url, _ := o["@type"].(string)
		m, ok := urls[url]
		if !ok {
			return "attributes of an unregistered type " + url
		}
		if k := unknown(o, m, "@type"); k != "" {
			return "unknown field " + k + " in " + url
		}
		return ""
	}
	fv, _ := pick(orb, "forwarding", "forwarding")
	fwd, ok := fv.(map[string]any)
	if !ok {
		return "no forwarding"
	}
	if k := unknown(fwd, &core.Forwarding{}); k != "" {
		return "unknown field " + k + " in the forwarding"
	}
	pid, _ := pick(fwd, "protocol_id", "protocolId")
	if _, ok := enum(pid, core.ProtocolID_value, 1, 4); !ok {
		return "unsupported protocol identifier"
	}
	fa, _ := pick(fwd, "attributes", "attributes")
	if why := attrsOK(fa, fwdURLs); why != "" {
		return "forwarding: " + why
	}
	if pv, ok := pick(orb, "pre_actions", "preActions"); ok && pv != nil {
		list, ok := pv.([]any)
		if !ok {
			return "pre_actions is not a list"
		}
		seen := map[int32]bool{}
		for _, av := range list {
			act, ok := av.(map[string]any)
			if !ok {
				return "a pre-action is not an object"
			}
			if k := unknown(act, &core.Action{}); k != "" {
				return "unknown field " + k + " in an action"
			}
			idv, _ := pick(act, "id", "id")
			id, ok := enum(idv, core.ActionID_value, 1, 2)
			if !ok {
				return "unsupported action identifier"
			}
			if seen[id] {
				return "repeated action identifier"
			}
			seen[id] = true
			aa, _ := pick(act, "attributes", "attributes")
			if why := attrsOK(aa, actURLs); why != "" {
				return "action: " + why
			}
		}
	}
	return ""
}

// ---------- the family ----------

// JSONFam is the C15 family.
func JSONFam(r *rng.R, n int) Result {
	res := Result{Evaluator: "run_json", InputType: "json_case",
		Imports: []string{"From Orbiter Require Import Corr.RunJson."},
		Rule: "payloads built through the public constructors (NewCCTPForwarding / NewHyperlaneForwarding / NewInternalForwarding x NewFeeAction lists x passthrough bytes; " +
			"'direct' = struct literals where a constructor refuses) serialised by types.MarshalJSON; (a) encoder cases: the model's document for the payload against the real one; " +
			"(b) decoder cases: the real memo and its single-point mutations (extra / repeated root keys, duplicated keys, unknown fields at every object, type URLs swapped / foreign / " +
			"missing / moved, enum values as numbers / quoted numbers / unknown names / escaped names, camel names, both names, nulls and wrong JSON types at every position, uint32 / bytes / " +
			"integer spellings, the fee type with both alternatives, list elements, removed fields, escaped keys; 25% two mutations) parsed by the real JSONParser.Parse and validated by " +
			"Payload.Validate, against decode_memo / accept_memo on the same tree; non-trivial = the real parser accepts or the document is a mutation of one it accepts; distinct by memo text",
		Notes: map[string]any{}}
	s, err := sim.New(sim.Options{})
	if err != nil {
		res.Failures = append(res.Failures, Failure{What: "cannot boot the application: " + err.Error(), Sig: "boot", Case: map[string]any{}})
		return res
	}
	w, err := world.New(s)
	if err != nil {
		res.Failures = append(res.Failures, Failure{What: err.Error(), Sig: "boot", Case: map[string]any{}})
		return res
	}
	cdc := s.App.OrbiterKeeper.Codec()
	g := &jsonGen{r: r, a: newActors(), cdc: cdc}
	for _, iface := range cdc.InterfaceRegistry().ListAllInterfaces() {
		if strings.Contains(iface, "orbiter") && strings.HasSuffix(iface, "Attributes") {
			continue
		}
		for _, u := range cdc.InterfaceRegistry().ListImplementations(iface) {
			if _, a := actURLs[u]; !a {
				if _, f := fwdURLs[u]; !f {
					g.foreignURLs = append(g.foreignURLs, u)
				}
			}
		}
	}
	sort.Strings(g.foreignURLs)
	res.Notes["foreign_registered_type_urls"] = len(g.foreignURLs)
	seen := map[string]bool{}
	classes := map[string]int{}
	built := map[string]int{}
	verdicts := map[string]int{}
	notJSON := 0

	binOf := func(p *core.Payload) []byte { return []byte(payloadV(p).Coq()) }

	decodeCase := func(memo string, class string, base bool) {
		if seen["d"+memo] {
			return
		}
		seen["d"+memo] = true
		desc := map[string]any{"memo": memo, "mutation": class}
		fail := func(sig, what string) {
			res.Failures = append(res.Failures, Failure{What: what, Sig: sig, Prop: "C15", Case: desc})
		}
		// the real decoder, several times: a pure function of the memo
		p, perr := w.Parse(memo)
		for i := 0; i < 5; i++ {
			p2, perr2 := w.Parse(memo)
			if (perr == nil) != (perr2 == nil) || (perr == nil && !bytes.Equal(binOf(p), binOf(p2))) {
				fail("parse-not-pure", "parsing the same memo twice gives different results")
				break
			}
		}
		accepted := false
		if perr == nil {
			accepted = p.Validate() == nil
		}
		if accepted {
			if why := wellFormed(memo); why != "" {
				fail("accepted-ill-formed", "the memo is accepted as an orbiter payload although: "+why)
			}
		}
		if perr == nil {
			switch {
			case class == "unknown-field":
				fail("unknown-field-accepted", "a document with an unknown field is parsed")
			case class == "extra-root-key":
				fail("extra-root-key-accepted", "a document with a second root key is parsed")
			}
		}
		tree, err := scanJSON(memo)
		if err != nil {
			notJSON++
			if perr == nil {
				fail("non-json-accepted", "a memo that is not JSON is parsed")
			}
			return
		}
		var strs []string
		tree.strings(&strs)
		exp := cq.VL(cq.VZ(1))
		v := "refused"
		if perr == nil {
			exp = cq.VL(cq.VZ(0), payloadV(p), cq.VB(accepted))
			v = "parsed, invalid"
			if accepted {
				v = "accepted"
			}
		}
		verdicts[v]++
		classes[strings.SplitN(class, "/", 2)[0]]++
		res.Cases = append(res.Cases, Case{Input: fmt.Sprintf("JDecode %s %s", world.IntTable(strs), tree.coq()), Expected: exp, Desc: desc,
			Kind: "decode/" + strings.SplitN(class, "/", 2)[0], NonTriv: perr == nil || base, Key: "d" + memo})
	}

	for len(res.Cases) < n {
		pw, how := g.payload()
		bz, err := orbtypes.MarshalJSON(cdc, pw)
		if err != nil {
			continue
		}
		memo := string(bz)
		if seen["e"+memo] {
			continue
		}
		seen["e"+memo] = true
		built[how]++
		tree, err := scanJSON(memo)
		if err != nil {
			res.Failures = append(res.Failures, Failure{What: "MarshalJSON produced a document the scanner cannot read: " + err.Error(), Sig: "scanner", Prop: "corr", Case: map[string]any{"memo": memo}})
			continue
		}
		// (a) the encoder
		res.Cases = append(res.Cases, Case{Input: "JEncode " + world.PayloadCoq(pw.Orbiter), Expected: tree.v(), Desc: map[string]any{"memo": memo, "built": how},
			Kind: "encode/" + how, NonTriv: true, Key: "e" + memo})
		// round trip on the implementation
		desc := map[string]any{"memo": memo, "built": how}
		back, perr := w.Parse(memo)
		switch {
		case perr != nil:
			res.Failures = append(res.Failures, Failure{What: "a payload serialised by MarshalJSON does not parse back: " + perr.Error(), Sig: "roundtrip-refused", Prop: "C15", Case: desc})
		case !bytes.Equal(binOf(back), binOf(pw.Orbiter)):
			res.Failures = append(res.Failures, Failure{What: "a payload serialised by MarshalJSON parses back to a different payload", Sig: "roundtrip-differs", Prop: "C15", Case: desc})
		default:
			if strings.HasPrefix(how, "constructor") && back.Validate() != nil {
				res.Failures = append(res.Failures, Failure{What: "a payload the constructors validated is invalid after the round trip", Sig: "roundtrip-invalid", Prop: "C15", Case: desc})
			}
		}
		// (b) the decoder: the memo itself, then mutations
		decodeCase(memo, "none", true)
		for k := 0; k < 6 && len(res.Cases) < n; k++ {
			t := tree.clone()
			class := g.mutate(t)
			if class == "" {
				continue
			}
			if g.r.Chance(25) {
				if c2 := g.mutate(t); c2 != "" {
					class = "two/" + class + "+" + c2
				}
			}
			decodeCase(t.text(), class, true)
		}
		if g.r.Chance(10) {
			// a complete document followed by something: not a JSON document
			decodeCase(memo+rng.Pick(g.r, []string{"}", " x", `,"forward":{}`, memo, "\x00", "]", " null"}), "trailing-bytes", true)
		}
	}
	// a malformed stream outside the tree model: text that is not JSON must be refused
	for _, memo := range []string{"", " ", "{", `{"orbiter":`, `{"orbiter":{}} x`, `{"orbiter":{}}{"orbiter":{}}`, `[{"orbiter":{}}]`, "\x00", `{'orbiter':{}}`, `{"orbiter":{},}`, "null", "1", `"orbiter"`} {
		if p, err := w.Parse(memo); err == nil && p != nil && !json.Valid([]byte(memo)) {
			res.Failures = append(res.Failures, Failure{What: "a memo that is not JSON is parsed", Sig: "non-json-accepted", Prop: "C15", Case: map[string]any{"memo": memo}})
		}
	}
	keys := make([]string, 0, len(classes))
	for k := range classes {
		keys = append(keys, k)
	}
	sort.Strings(keys)
	res.Notes["mutation_classes"] = classes
	res.Notes["payloads_built"] = built
	res.Notes["verdicts_of_decoder_cases"] = verdicts
	res.Notes["not_json_after_mutation"] = notJSON
	return res
}
