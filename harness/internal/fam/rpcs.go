package fam

import (
	"fmt"
	"reflect"
	"strings"

	sdk "github.com/cosmos/cosmos-sdk/types"
	"github.com/cosmos/gogoproto/proto"
	"google.golang.org/protobuf/reflect/protoreflect"

	"verif/harness/internal/sim"
	"verif/harness/internal/world"
)

// unknownRPCs looks for Msg RPCs of the module that the harness has no generator for (added after it was
// written), builds a request for each by reflection and sends it with signers that are not the authority,
// on a state where something is paused: C10 holds for every message, "any message added later" included.
func unknownRPCs(wr *worldRunner) (fails []Failure, found []string) {
	known := map[string]bool{}
	for _, k := range allMsgKinds {
		known[k] = true
	}
	type rpc struct{ name, input string }
	var rpcs []rpc
	proto.HybridResolver.RangeFiles(func(fd protoreflect.FileDescriptor) bool {
		if !strings.HasPrefix(string(fd.Package()), "noble.orbiter") {
			return true
		}
		svcs := fd.Services()
		for i := 0; i < svcs.Len(); i++ {
			sd := svcs.Get(i)
			if sd.Name() != "Msg" {
				continue
			}
			ms := sd.Methods()
			for j := 0; j < ms.Len(); j++ {
				if !known[string(ms.Get(j).Name())] {
					rpcs = append(rpcs, rpc{string(sd.FullName()) + "/" + string(ms.Get(j).Name()), string(ms.Get(j).Input().FullName())})
				}
			}
		}
		return true
	})
	for _, r := range rpcs {
		found = append(found, r.name)
		t := proto.MessageType(r.input)
		if t == nil {
			fails = append(fails, Failure{What: "the request type " + r.input + " of the new RPC " + r.name + " is not registered: the harness cannot exercise it", Sig: "rpc-not-exercised", Prop: "corr", Case: map[string]any{"rpc": r.name}})
			continue
		}
		for _, signer := range []string{wr.a.users[0].Bech, sim.OrbiterAddr().String(), "", "noble1invalid", world.ModAddr("gov").String()} {
			msg, ok := reflect.New(t.Elem()).Interface().(sdk.Msg)
			if !ok {
				break
			}
			fillRequest(reflect.ValueOf(msg).Elem(), signer)
			ctx := wr.caseCtx()
			// something to change: a paused protocol, paused counterparties, a paused action, a limit
			for _, m := range []world.Msg{{Kind: "PauseProtocol", Signer: sim.Authority, ID: "PROTOCOL_HYPERLANE"},
				{Kind: "PauseCrossChains", Signer: sim.Authority, ID: "PROTOCOL_CCTP", IDs: []string{"1", "2"}},
				{Kind: "PauseAction", Signer: sim.Authority, ID: "ACTION_FEE"}, {Kind: "UpdateParams", Signer: sim.Authority, Max: 77}} {
				wr.w.RunOp(ctx, world.Op{Kind: "msg", Msg: m})
			}
			before, digest := wr.w.ObserveState(ctx), wr.w.DeltaDigest(ctx)
			h := wr.w.S.App.MsgServiceRouter().Handler(msg)
			if h == nil {
				continue
			}
			desc := map[string]any{"rpc": r.name, "request": fmt.Sprintf("%+v", msg), "signer": signer}
			var err error
			func() {
				defer func() {
					if rec := recover(); rec != nil {
						err = fmt.Errorf("panic: %v", rec)
					}
				}()
				cctx, write := ctx.CacheContext()
				if _, err = h(cctx, msg); err == nil {
					write()
				}
			}()
			if err == nil {
				fails = append(fails, Failure{What: fmt.Sprintf("%s signed by %q (not the authority) succeeded", r.name, signer), Sig: "unauthorized-accepted", Prop: "C10", Case: desc})
			}
			if !wr.w.ObserveState(ctx).V().Equal(before.V()) || wr.w.DeltaDigest(ctx) != digest {
				fails = append(fails, Failure{What: fmt.Sprintf("%s signed by %q (not the authority) changed state", r.name, signer), Sig: "unauthorized-changed-state", Prop: "C10", Case: desc})
			}
		}
	}
	return fails, found
}

// fillRequest gives every field of a request a plausible value: the signer, protocol / action names, identifiers.
func fillRequest(v reflect.Value, signer string) {
	for i := 0; i < v.NumField(); i++ {
		f, name := v.Field(i), v.Type().Field(i).Name
		if !f.CanSet() {
			continue
		}
		switch f.Kind() {
		case reflect.String:
			switch {
			case name == "Signer" || name == "Authority" || name == "From" || name == "Sender":
				f.SetString(signer)
			case strings.Contains(name, "Protocol"):
				f.SetString("PROTOCOL_CCTP")
			case strings.Contains(name, "Action"):
				f.SetString("ACTION_FEE")
			default:
				f.SetString("1")
			}
		case reflect.Slice:
			switch f.Type().Elem().Kind() {
			case reflect.String:
				f.Set(reflect.ValueOf([]string{"1", "2"}))
			case reflect.Uint8:
				f.SetBytes(make([]byte, 32))
			}
		case reflect.Uint32, reflect.Uint64:
			f.SetUint(1)
		case reflect.Int32, reflect.Int64:
			f.SetInt(1)
		case reflect.Struct:
			fillRequest(f, signer)
		}
	}
}
