package fam

import (
	"fmt"
	"strings"

	sdk "github.com/cosmos/cosmos-sdk/types"
	transfertypes "github.com/cosmos/ibc-go/v8/modules/apps/transfer/types"

	adapterctrl "github.com/noble-assets/orbiter/v2/controller/adapter"

	"verif/harness/internal/cq"
	"verif/harness/internal/rng"
)

var denomSegs = []string{"transfer", "channel-0", "channel-7", "channel-07", "channel-3", "uusdc", "uatom", "a", "ab", "abc", "", "ibc",
	"x y", "channel-18446744073709551615", "channel-18446744073709551616", "channel-x", "icahost", "gamm", "pool", "1",
	"27394FB092D2ECCD56123C74F36E4C1F926001CEADA9CA97EA622B25F41E5EB2", "UUSDC", "u-usdc", "9abc", "a:b", "a.b_c", strings.Repeat("d", 128), strings.Repeat("d", 127)}

func genDenom(r *rng.R, port, ch string) string {
	switch r.Intn(10) {
	case 0:
		return rng.Pick(r, []string{"uusdc", "uatom", "ibc/27394FB092D2ECCD56123C74F36E4C1F926001CEADA9CA97EA622B25F41E5EB2", "", "/", "//", "a/b", "gamm/pool/1"})
	case 1, 2, 3: // returning one-hop voucher of this channel with a pool / random remainder
		rest := rng.Pick(r, []string{"uusdc", "uatom", "ufoo", "gamm/pool/1", "", "ab", "a", "a b", "9abc", "/", "ibc/ABC", "transfer", "channel-3",
			"transfer/channel-3", "x/channel-3", "uusdc/", "/uusdc", "UUSDC", strings.Repeat("d", 128), strings.Repeat("d", 129), "u$sdc", "uusdc\n"})
		return port + "/" + ch + "/" + rest
	case 4, 5: // longer traces
		k := 1 + r.Intn(3)
		parts := []string{port, ch}
		for i := 0; i < k; i++ {
			parts = append(parts, rng.Pick(r, []string{"transfer", "icahost", "x", ""}), rng.Pick(r, []string{"channel-3", "channel-0", "channel-x", "channel-07", "channel-18446744073709551616", "c"}))
		}
		parts = append(parts, rng.Pick(r, []string{"uatom", "uusdc", "", "a/b"}))
		return strings.Join(parts, "/")
	case 6: // other channel / port prefix
		return rng.Pick(r, []string{"transfer", "icahost", port + "x", ""}) + "/" + rng.Pick(r, []string{"channel-8", "channel-70", ch + "0", "channel-07", ""}) + "/" + rng.Pick(r, []string{"uusdc", "uatom"})
	default: // random slash composition
		k := 1 + r.Intn(6)
		parts := make([]string, k)
		for i := range parts {
			parts[i] = denomSegs[r.Intn(len(denomSegs))]
		}
		if r.Chance(50) {
			parts = append([]string{port, ch}, parts...)
		}
		return strings.Join(parts, "/")
	}
}

// Denoms runs the denomination family (C16, string level) on the implementation.
func Denoms(r *rng.R, n int) Result {
	res := Result{Evaluator: "run_denom", InputType: "denom_case",
		Rule: "denominations: native, one-hop vouchers of the packet's channel with valid / invalid / slashed / empty remainders, multi-hop traces, " +
			"other port/channel prefixes, ibc/ hashes, pathological slashes, random slash compositions; crossed with several source port/channel pairs; " +
			"non-trivial = the remainder after the channel prefix exists (the interesting branch) or the denom is a valid sdk denom; distinct by input",
		Notes: map[string]any{}}
	seen := map[string]bool{}
	add := func(c Case) {
		if !seen[c.Key] {
			seen[c.Key] = true
			res.Cases = append(res.Cases, c)
		}
	}
	for i := 0; i < n; i++ {
		port := rng.Pick(r, []string{"transfer", "transfer", "transfer", "icahost", "", "tr/ansfer"})
		ch := rng.Pick(r, []string{"channel-7", "channel-7", "channel-0", "channel-07", "", "chan/nel", "channel-18446744073709551615"})
		denom := genDenom(r, port, ch)
		switch r.Intn(5) {
		case 0, 1, 2:
			d, err := adapterctrl.RecoverNativeDenom(denom, port, ch)
			// what ICS-20's relay.go does with the same denom
			var ics cq.V
			var icsDenom string
			icsKind := 2
			if transfertypes.ReceiverChainIsSource(port, ch, denom) {
				rest := denom[len(transfertypes.GetDenomPrefix(port, ch)):]
				if transfertypes.ParseDenomTrace(rest).IsNativeDenom() {
					icsKind, icsDenom = 0, rest
				} else {
					icsKind = 1
				}
			}
			if icsKind == 0 {
				ics = cq.VL(cq.VZ(0), cq.VS(icsDenom))
			} else {
				ics = cq.VL(cq.VZ(int64(icsKind)))
			}
			desc := map[string]any{"op": "recover", "denom": denom, "port": port, "channel": ch, "impl_ok": err == nil, "impl_denom": d, "ics20_kind": icsKind}
			exp := cq.VL(cq.VL(cq.VZ(1)), ics)
			if err == nil {
				exp = cq.VL(cq.VL(cq.VZ(0), cq.VS(d)), ics)
			}
			add(Case{Input: fmt.Sprintf("DRecover %s %s %s", cq.Str(denom), cq.Str(port), cq.Str(ch)), Expected: exp, Desc: desc,
				Kind: fmt.Sprintf("recover/ok=%v/ics%d", err == nil, icsKind), NonTriv: icsKind != 2, Key: "r|" + denom + "|" + port + "|" + ch})
			if err == nil {
				if denom != port+"/"+ch+"/"+d {
					res.Failures = append(res.Failures, Failure{What: fmt.Sprintf("accepted denom %q is not the one-hop voucher %s/%s/%s", denom, port, ch, d), Sig: "denom-not-voucher", Case: desc})
				}
				if icsKind != 0 || icsDenom != d {
					res.Failures = append(res.Failures, Failure{What: fmt.Sprintf("orbiter acts on %q but ICS-20 credits kind %d denom %q for %q", d, icsKind, icsDenom, denom), Sig: "denom-disagrees-with-ics20", Case: desc})
				}
			} else if icsKind == 0 {
				res.Failures = append(res.Failures, Failure{What: fmt.Sprintf("returning native token %q refused", denom), Sig: "native-refused", Case: desc})
			}
		case 3:
			ok := sdk.ValidateDenom(denom) == nil
			add(Case{Input: fmt.Sprintf("DValid %s", cq.Str(denom)), Expected: cq.VB(ok), Desc: map[string]any{"op": "validate_denom", "denom": denom, "impl_ok": ok},
				Kind: fmt.Sprintf("validdenom/%v", ok), NonTriv: ok, Key: "v|" + denom})
		case 4:
			tr := transfertypes.ParseDenomTrace(denom)
			var segs []string
			if tr.Path != "" {
				segs = strings.Split(tr.Path, "/")
			}
			add(Case{Input: fmt.Sprintf("DTrace %s", cq.Str(denom)), Expected: cq.VStrs(segs), Desc: map[string]any{"op": "trace_path", "denom": denom, "impl_path": tr.Path},
				Kind: fmt.Sprintf("trace/%d", len(segs)), NonTriv: len(segs) > 0, Key: "t|" + denom})
		}
	}
	return res
}
