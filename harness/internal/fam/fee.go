package fam

import (
	"encoding/hex"
	"fmt"
	"math/big"
	"strings"

	"cosmossdk.io/math"
	sdk "github.com/cosmos/cosmos-sdk/types"

	actionctrl "github.com/noble-assets/orbiter/v2/controller/action"
	orbtypes "github.com/noble-assets/orbiter/v2/types"
	actiontypes "github.com/noble-assets/orbiter/v2/types/controller/action"
	"github.com/noble-assets/orbiter/v2/types/core"

	"verif/harness/internal/cq"
	"verif/harness/internal/rng"
	"verif/harness/internal/sim"
)

var two256 = new(big.Int).Lsh(big.NewInt(1), 256)

func pow2(n uint) *big.Int { return new(big.Int).Lsh(big.NewInt(1), n) }
func bigAdd(a *big.Int, d int64) *big.Int { return new(big.Int).Add(a, big.NewInt(d)) }

// amounts of DESIGN §5.4
func amountPool(r *rng.R) []*big.Int {
	p := []*big.Int{big.NewInt(1), big.NewInt(2), big.NewInt(9999), big.NewInt(10000), big.NewInt(10001), big.NewInt(19999),
		big.NewInt(1000000), big.NewInt(999999), big.NewInt(59999),
		bigAdd(pow2(63), -1), pow2(63), bigAdd(pow2(63), 1), pow2(64), pow2(128), pow2(242), bigAdd(pow2(243), -1), pow2(243),
		pow2(255), bigAdd(pow2(256), -1), bigAdd(pow2(256), -2), new(big.Int).Div(bigAdd(pow2(256), -1), big.NewInt(10000)),
		bigAdd(new(big.Int).Div(bigAdd(pow2(256), -1), big.NewInt(10000)), 1)}
	for i := 0; i < 6; i++ {
		p = append(p, bigAdd(r.Big(8+r.Intn(248)), 1))
	}
	return p
}

// Addr is a named test account.
type Addr struct {
	Bech string
	Raw  sdk.AccAddress
}

func mkAddr(seed byte) Addr {
	raw := make([]byte, 20)
	for i := range raw {
		raw[i] = seed + byte(i)*7
	}
	a := sdk.AccAddress(raw)
	return Addr{Bech: a.String(), Raw: a}
}

var feeRecipientsCache []Addr

// feeRecipients is built lazily: the bech32 prefix is only known once the SDK config is set.
func feeRecipients() []Addr {
	if feeRecipientsCache == nil {
		sim.SetConfig()
		feeRecipientsCache = []Addr{mkAddr(1), mkAddr(2), mkAddr(3), mkAddr(4), mkAddr(5), mkAddr(6)}
	}
	return feeRecipientsCache
}

func bech32Table(strs []string) string {
	seen := map[string]bool{}
	var items []string
	for _, s := range strs {
		if seen[s] {
			continue
		}
		seen[s] = true
		a, err := sdk.AccAddressFromBech32(s)
		if err != nil {
			items = append(items, cq.Pair(cq.Str(s), "None"))
		} else {
			items = append(items, cq.Pair(cq.Str(s), "(Some "+cq.Str(hex.EncodeToString(a))+")"))
		}
	}
	return cq.List(items)
}

func intTable(strs []string) string {
	seen := map[string]bool{}
	var items []string
	for _, s := range strs {
		if seen[s] {
			continue
		}
		seen[s] = true
		v, ok := math.NewIntFromString(s)
		if !ok {
			items = append(items, cq.Pair(cq.Str(s), "None"))
		} else {
			items = append(items, cq.Pair(cq.Str(s), "(Some "+cq.Z(v.BigInt())+")"))
		}
	}
	return cq.List(items)
}

type feeEntry struct {
	nilInfo   bool
	recipient string
	kind      string // "bps", "bpsnil", "amount", "amountnil", "none"
	bps       uint32
	amount    string
}

func (f feeEntry) toProto() *actiontypes.FeeInfo {
	if f.nilInfo {
		return nil
	}
	fi := &actiontypes.FeeInfo{Recipient: f.recipient}
	switch f.kind {
	case "bps":
		fi.FeeType = &actiontypes.FeeInfo_BasisPoints_{BasisPoints: &actiontypes.FeeInfo_BasisPoints{Value: f.bps}}
	case "bpsnil":
		fi.FeeType = &actiontypes.FeeInfo_BasisPoints_{}
	case "amount":
		fi.FeeType = &actiontypes.FeeInfo_Amount_{Amount: &actiontypes.FeeInfo_Amount{Value: f.amount}}
	case "amountnil":
		fi.FeeType = &actiontypes.FeeInfo_Amount_{}
	}
	return fi
}

func (f feeEntry) coq() string {
	if f.nilInfo {
		return "None"
	}
	t := "None"
	switch f.kind {
	case "bps":
		t = fmt.Sprintf("(Some (FBps %d))", f.bps)
	case "bpsnil":
		t = "(Some FBpsNil)"
	case "amount":
		t = "(Some (FAmount " + cq.Str(f.amount) + "))"
	case "amountnil":
		t = "(Some FAmountNil)"
	}
	return fmt.Sprintf("Some {| fi_recipient := %s; fi_type := %s |}", cq.Str(f.recipient), t)
}

func (f feeEntry) json() map[string]any {
	if f.nilInfo {
		return map[string]any{"nil": true}
	}
	return map[string]any{"recipient": f.recipient, "kind": f.kind, "bps": f.bps, "amount": f.amount}
}

func genFeeList(r *rng.R, A *big.Int) ([]feeEntry, string) {
	n := rng.Pick(r, []int{0, 1, 1, 2, 2, 3, 3, 4, 5, 5, 6})
	shape := "valid"
	es := make([]feeEntry, n)
	for i := range es {
		e := feeEntry{recipient: feeRecipients()[r.Intn(len(feeRecipients()))].Bech}
		if r.Bool() {
			e.kind = "bps"
			e.bps = rng.Pick(r, []uint32{1, 1, 2, 5, 10, 15, 100, 250, 1000, 3333, 5000, 9999, 10000})
			if r.Chance(30) {
				e.bps = uint32(1 + r.Intn(10000))
			}
		} else {
			e.kind = "amount"
			switch r.Intn(6) {
			case 0:
				e.amount = "1"
			case 1:
				e.amount = new(big.Int).Add(new(big.Int).Div(A, big.NewInt(int64(2+r.Intn(5)))), big.NewInt(0)).String()
				if e.amount == "0" {
					e.amount = "1"
				}
			case 2:
				m := bigAdd(A, 1)
				if m.Sign() <= 0 {
					m = big.NewInt(5)
				}
				e.amount = bigAdd(new(big.Int).Mod(r.Big(64), m), 1).String()
			case 3:
				e.amount = fmt.Sprint(1 + r.Intn(1000))
			case 4:
				e.amount = bigAdd(r.Big(1+r.Intn(255)), 1).String()
			case 5:
				e.amount = rng.Pick(r, []string{"7", "10000", "+5", "0x10", "1_000", "007", "0b11"})
			}
		}
		es[i] = e
	}
	if n > 5 {
		shape = "too-many"
	}
	// make the total land on A-1, A, A+1 now and then (last entry fixed)
	if n >= 1 && n <= 5 && r.Chance(20) {
		sum := new(big.Int)
		for _, e := range es[:n-1] {
			sum.Add(sum, specFee(A, e))
		}
		rest := new(big.Int).Sub(A, sum)
		rest = bigAdd(rest, int64(r.Intn(3)-1))
		if rest.Sign() > 0 && rest.Cmp(two256) < 0 {
			es[n-1].kind, es[n-1].amount = "amount", rest.String()
			shape = "boundary-total"
		}
	}
	// a malformed entry now and then
	if n >= 1 && r.Chance(22) {
		i := r.Intn(n)
		shape = "malformed"
		switch r.Intn(12) {
		case 0:
			es[i].nilInfo = true
		case 1:
			es[i].kind = "none"
		case 2:
			es[i].kind = "bpsnil"
		case 3:
			es[i].kind = "amountnil"
		case 4:
			es[i].kind, es[i].bps = "bps", rng.Pick(r, []uint32{0, 10001, 4294967295, 65536, 20000})
		case 5:
			es[i].kind, es[i].amount = "amount", rng.Pick(r, []string{"0", "-1", "abc", "", " 1", "1.5", "1e3", "-0", two256.String(), "0x"})
		case 6:
			es[i].recipient = rng.Pick(r, []string{"", "noble1invalid", "cosmos1hsk6jryyqjfhp5dhc55tc9jtckygx0eph6dd02", "xyz", strings.ToUpper(es[i].recipient) + "x"})
		case 7:
			es[i].recipient = strings.ToUpper(es[i].recipient) // a valid spelling of the same account
			shape = "upper-recipient"
		case 8:
			es[i].kind, es[i].amount = "amount", bigAdd(pow2(255), int64(r.Intn(3))).String()
			if n >= 2 {
				j := (i + 1) % n
				es[j].kind, es[j].amount = "amount", pow2(255).String()
			}
			shape = "huge-fixed"
		case 9:
			es[i].kind, es[i].amount = "amount", bigAdd(two256, -1).String()
			shape = "huge-fixed"
		case 10:
			es[i].recipient = sim.OrbiterAddr().String()
			shape = "orbiter-recipient"
		case 11:
			es[i].kind, es[i].bps = "bps", 10000
			shape = "full-bps"
		}
	}
	return es, shape
}

// specFee recomputes one entry's fee independently of the implementation (big.Int, floor division).
func specFee(A *big.Int, e feeEntry) *big.Int {
	switch e.kind {
	case "bps":
		p := new(big.Int).Mul(A, big.NewInt(int64(e.bps)))
		if p.Sign() <= 0 {
			return new(big.Int)
		}
		return p.Div(p, big.NewInt(actiontypes.BPSNormalizer))
	case "amount":
		v, ok := math.NewIntFromString(e.amount)
		if !ok {
			return new(big.Int)
		}
		return v.BigInt()
	}
	return new(big.Int)
}

// expectation of the property, computed from its statement
type feeSpec struct {
	refused bool
	credits [][2]string // (hex addr, amount)
	fwd     *big.Int
}

func feeExpect(A *big.Int, es []feeEntry) feeSpec {
	if len(es) > actiontypes.MaxFeeRecipients {
		return feeSpec{refused: true}
	}
	sum := new(big.Int)
	var credits [][2]string
	for _, e := range es {
		if e.nilInfo {
			return feeSpec{refused: true}
		}
		addr, err := sdk.AccAddressFromBech32(e.recipient)
		if err != nil || addr.Equals(sim.OrbiterAddr()) || addr.Equals(sim.DustAddr()) {
			return feeSpec{refused: true}
		}
		switch e.kind {
		case "bps":
			if e.bps == 0 || e.bps > actiontypes.BPSNormalizer {
				return feeSpec{refused: true}
			}
			if new(big.Int).Mul(A, big.NewInt(int64(e.bps))).Cmp(two256) >= 0 {
				return feeSpec{refused: true}
			}
		case "amount":
			v, ok := math.NewIntFromString(e.amount)
			if !ok || !v.IsPositive() {
				return feeSpec{refused: true}
			}
		default:
			return feeSpec{refused: true}
		}
		f := specFee(A, e)
		if f.Sign() > 0 {
			credits = append(credits, [2]string{hex.EncodeToString(addr), f.String()})
			sum.Add(sum, f)
		}
	}
	if sum.Cmp(A) >= 0 {
		return feeSpec{refused: true}
	}
	return feeSpec{credits: credits, fwd: new(big.Int).Sub(A, sum)}
}

// Fees runs the fee family (C04): the real FeeAttributes.Validate / ComputeFeesToDistribute and the
// wired FeeController.HandlePacket against the real bank keeper on a branch of the chain state.
func Fees(s *sim.Sim, r *rng.R, n int) Result {
	res := Result{Evaluator: "run_fee", InputType: "fee_case",
		Rule: "boundary-biased amounts (1, 9999..10001, 2^63±1, 2^64, 2^128, 2^243, (2^256-1)/10000(+1), 2^255, 2^256-1, uniform) x fee lists of 0-6 entries " +
			"mixing bps and fixed, repeated recipients, totals landing on A-1/A/A+1, and a malformed stream (nil entry / nil type / nil body, bps 0, 10001, 2^32-1, " +
			"amounts 0, -1, non-numeric, 2^256, sums reaching 2^256, bad / upper-case / module recipients); each case runs the pure functions AND " +
			"HandlePacket on the wired controller with the real bank; non-trivial = accepted with at least one positive credit, or refused for a reason other than the entry count; distinct by (amount, list)",
		Notes: map[string]any{}}
	ctrlAny, ok := s.App.OrbiterKeeper.Executor().Router().Route(core.ACTION_FEE)
	if !ok {
		res.Failures = append(res.Failures, Failure{What: "no controller is wired for ACTION_FEE", Sig: "no-fee-controller", Case: map[string]any{}})
		return res
	}
	ctrl, _ := ctrlAny.(*actionctrl.FeeController)
	seen := map[string]bool{}
	pool := amountPool(r)
	e2e := 0
	for len(res.Cases) < n {
		A := pool[r.Intn(len(pool))]
		if r.Chance(3) {
			A = big.NewInt(int64(-r.Intn(3)))
		}
		es, shape := genFeeList(r, A)
		if r.Chance(7) {
			// small amounts under basis points that add up to more than 100 %: each entry is floored on its own, so
			// the fees can still stay below the amount (A=3 with 5000+5001: 1+1, 1 forwarded)
			A = big.NewInt(int64(1 + r.Intn(rng.Pick(r, []int{5, 20, 60, 5000}))))
			es, shape = nil, "bps-above-100%"
			for k := 2 + r.Intn(4); k > 0; k-- {
				es = append(es, feeEntry{recipient: feeRecipients()[r.Intn(len(feeRecipients()))].Bech, kind: "bps",
					bps: rng.Pick(r, []uint32{5000, 5001, 4000, 9999, 3334, 2, 2501, 10000})})
			}
		}
		denom := rng.Pick(r, []string{sim.USDC, sim.USDC, "ufoo"})
		key := A.String() + "|" + denom
		var infos []*actiontypes.FeeInfo
		var coqInfos, strsB, strsI []string
		var jinfos []any
		for _, e := range es {
			infos = append(infos, e.toProto())
			coqInfos = append(coqInfos, e.coq())
			jinfos = append(jinfos, e.json())
			key += "|" + e.coq()
			if !e.nilInfo {
				strsB = append(strsB, e.recipient)
				if e.kind == "amount" {
					strsI = append(strsI, e.amount)
				}
			}
		}
		if seen[key] {
			continue
		}
		seen[key] = true
		attr := &actiontypes.FeeAttributes{FeesInfo: infos}
		desc := map[string]any{"amount": A.String(), "denom": denom, "fees_info": jinfos, "shape": shape}

		// --- pure path: Validate, ComputeFeesToDistribute, total check (what HandlePacket does before paying)
		class, credits, fwd := pureFeePlan(ctrl, attr, math.NewIntFromBigInt(A), denom)
		desc["impl_class"] = class
		desc["impl_credits"] = credits
		if fwd != nil {
			desc["impl_forwarded"] = fwd.String()
		}
		exp := cq.VL(cq.VZ(int64(class)))
		if class == 0 {
			cl := make([]cq.V, len(credits))
			for i, c := range credits {
				amt, _ := new(big.Int).SetString(c[1], 10)
				cl[i] = cq.VL(cq.VS(c[0]), cq.VBig(amt))
			}
			exp = cq.VL(cq.VZ(0), cq.VL(cl...), cq.VBig(fwd))
		}
		input := fmt.Sprintf("{| fc_bech32 := %s; fc_ints := %s; fc_amount := %s; fc_infos := %s |}",
			bech32Table(strsB), intTable(strsI), cq.Z(A), cq.List(coqInfos))

		// --- the property's own oracle on what the implementation did
		want := feeExpect(A, es)
		fail := func(what, sig string) {
			res.Failures = append(res.Failures, Failure{What: what, Sig: sig, Case: desc})
		}
		if A.Sign() > 0 {
			switch {
			case class == 2:
				fail(fmt.Sprintf("fee computation panics for amount %s (%s list)", A, shape), "fee-panic")
			case want.refused && class == 0:
				fail(fmt.Sprintf("fee list that must be refused is accepted (amount %s, %s)", A, shape), "fee-accepted-invalid")
			case !want.refused && class != 0:
				fail(fmt.Sprintf("valid fee list is refused (amount %s, %s)", A, shape), "fee-refused-valid")
			case !want.refused:
				if fmt.Sprint(credits) != fmt.Sprint(want.credits) || fwd.Cmp(want.fwd) != 0 {
					fail(fmt.Sprintf("credits %v / forwarded %s differ from floor(A*bps/10000) / stated amounts %v / %s", credits, fwd, want.credits, want.fwd), "fee-amounts")
				}
			}
		}

		// --- end to end on the wired controller with the real bank (subset: needs a valid coin)
		if A.Sign() > 0 && (r.Chance(35) || shape != "valid") {
			e2e++
			obs := feeHandlePacket(s, ctrlAny, attr, A, denom, es)
			desc["e2e"] = obs.desc
			if obs.panicked != "" {
				fail("FeeController.HandlePacket panics: "+obs.panicked, "fee-handle-panic")
			} else if obs.ok != (class == 0) {
				fail(fmt.Sprintf("HandlePacket outcome (ok=%v) disagrees with Validate+Compute (class %d)", obs.ok, class), "fee-handle-class")
			} else if obs.ok {
				if !want.refused {
					sums := map[string]*big.Int{}
					for _, c := range want.credits {
						amt, _ := new(big.Int).SetString(c[1], 10)
						if sums[c[0]] == nil {
							sums[c[0]] = new(big.Int)
						}
						sums[c[0]].Add(sums[c[0]], amt)
					}
					for a, d := range obs.deltas {
						w := sums[a]
						if w == nil {
							w = new(big.Int)
						}
						if a == hex.EncodeToString(sim.OrbiterAddr()) {
							continue
						}
						if d.Cmp(w) != 0 {
							fail(fmt.Sprintf("recipient %s received %s, expected %s", a, d, w), "fee-paid-amount")
						}
					}
					if obs.destAfter.Cmp(want.fwd) != 0 {
						fail(fmt.Sprintf("amount left to forward %s, expected %s", obs.destAfter, want.fwd), "fee-forwarded")
					}
					// the orbiter keeps exactly what is left to forward (plus what it paid to itself)
					self := sums[hex.EncodeToString(sim.OrbiterAddr())]
					if self == nil {
						self = new(big.Int)
					}
					if new(big.Int).Sub(obs.orbiterAfter, self).Cmp(want.fwd) != 0 {
						fail(fmt.Sprintf("orbiter account keeps %s after the fee action, expected %s", obs.orbiterAfter, want.fwd), "fee-orbiter-balance")
					}
				}
			} else {
				for a, d := range obs.deltas {
					if d.Sign() != 0 {
						fail(fmt.Sprintf("refused fee action still moved %s to/from %s", d, a), "fee-paid-on-refusal")
					}
				}
			}
		}

		nontriv := (class == 0 && len(credits) > 0) || (class != 0 && shape != "too-many")
		res.Cases = append(res.Cases, Case{Input: input, Expected: exp, Desc: desc,
			Kind: fmt.Sprintf("%s/n%d/class%d", shape, len(es), class), NonTriv: nontriv, Key: key})
	}
	res.Notes["handle_packet_runs"] = e2e
	return res
}

func pureFeePlan(ctrl *actionctrl.FeeController, attr *actiontypes.FeeAttributes, A math.Int, denom string) (class int, credits [][2]string, fwd *big.Int) {
	defer func() {
		if r := recover(); r != nil {
			class, credits, fwd = 2, nil, nil
		}
	}()
	if err := attr.Validate(); err != nil {
		return 1, nil, nil
	}
	f, err := ctrl.ComputeFeesToDistribute(A, denom, attr.FeesInfo)
	if err != nil {
		return 1, nil, nil
	}
	if f.Total.GTE(A) {
		return 1, nil, nil
	}
	for _, v := range f.Values {
		if len(v.Amount) != 1 || v.Amount[0].Denom != denom {
			return 1, [][2]string{{"?", "unexpected coins " + v.Amount.String()}}, nil
		}
		credits = append(credits, [2]string{hex.EncodeToString(v.Recipient), v.Amount[0].Amount.String()})
	}
	return 0, credits, A.Sub(f.Total).BigInt()
}

type feeObs struct {
	ok           bool
	panicked     string
	deltas       map[string]*big.Int
	destAfter    *big.Int
	orbiterAfter *big.Int
	desc         map[string]any
}

func feeHandlePacket(s *sim.Sim, ctrl orbtypes.ActionController, attr *actiontypes.FeeAttributes, A *big.Int, denom string, es []feeEntry) (obs feeObs) {
	ctx, _ := s.Branch()
	obs.deltas = map[string]*big.Int{}
	obs.desc = map[string]any{}
	coin := sdk.NewCoin(denom, math.NewIntFromBigInt(A))
	if err := s.Mint(ctx, sim.OrbiterAddr(), sdk.NewCoins(coin)); err != nil {
		obs.panicked = "harness: mint failed: " + err.Error()
		return
	}
	ta, err := core.NewTransferAttributes(core.PROTOCOL_IBC, "channel-0", denom, coin.Amount)
	if err != nil {
		obs.panicked = "harness: transfer attributes: " + err.Error()
		return
	}
	accts := map[string]sdk.AccAddress{hex.EncodeToString(sim.OrbiterAddr()): sim.OrbiterAddr()}
	for _, e := range es {
		if e.nilInfo {
			continue
		}
		if a, err := sdk.AccAddressFromBech32(e.recipient); err == nil {
			accts[hex.EncodeToString(a)] = a
		}
	}
	before := map[string]math.Int{}
	for k, a := range accts {
		before[k] = s.Bal(ctx, a, denom)
	}
	action := &core.Action{Id: core.ACTION_FEE, Attributes: packAny(attr)}
	func() {
		defer func() {
			if r := recover(); r != nil {
				obs.panicked = fmt.Sprint(r)
			}
		}()
		err := ctrl.HandlePacket(ctx, &orbtypes.ActionPacket{TransferAttributes: ta, Action: action})
		obs.ok = err == nil
		if err != nil {
			obs.desc["error"] = err.Error()
		}
	}()
	for k, a := range accts {
		d := s.Bal(ctx, a, denom).Sub(before[k]).BigInt()
		if k == hex.EncodeToString(sim.OrbiterAddr()) {
			obs.orbiterAfter = s.Bal(ctx, a, denom).BigInt()
			continue
		}
		obs.deltas[k] = d
	}
	obs.destAfter = ta.DestinationAmount().BigInt()
	obs.desc["ok"] = obs.ok
	obs.desc["dest_after"] = obs.destAfter.String()
	return
}
