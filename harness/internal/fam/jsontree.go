package fam

import (
	"encoding/json"
	"fmt"
	"strings"

	"verif/harness/internal/cq"
)

// jnode is a JSON document as written: strings keep the text between their quotes next to what it
// unescapes to, numbers keep their literal, objects keep the order and the repeats of their keys.
type jnode struct {
	kind byte // 'n' null, 't' true, 'f' false, '#' number, 's' string, 'a' array, 'o' object
	lit  string
	raw  string
	dec  string
	arr  []*jnode
	keys []jkey
	vals []*jnode
}
type jkey struct{ raw, dec string }

func jnull() *jnode           { return &jnode{kind: 'n'} }
func jnum(lit string) *jnode  { return &jnode{kind: '#', lit: lit} }
func jbool(b bool) *jnode     { if b { return &jnode{kind: 't'} }; return &jnode{kind: 'f'} }
func jarr(xs ...*jnode) *jnode { return &jnode{kind: 'a', arr: xs} }
func jobj() *jnode            { return &jnode{kind: 'o'} }

// jstr builds a string node from its content (escaped the way encoding/json would not need to undo).
func jstr(s string) *jnode {
	bz, _ := json.Marshal(s)
	raw := string(bz[1 : len(bz)-1])
	var dec string
	_ = json.Unmarshal(bz, &dec)
	return &jnode{kind: 's', raw: raw, dec: dec}
}

// jraw builds a string node from the text between the quotes (must be valid JSON string content).
func jraw(raw string) *jnode {
	var dec string
	if err := json.Unmarshal([]byte(`"`+raw+`"`), &dec); err != nil {
		return jstr(raw)
	}
	return &jnode{kind: 's', raw: raw, dec: dec}
}

func mkKey(s string) jkey { n := jstr(s); return jkey{n.raw, n.dec} }

func (n *jnode) add(key string, v *jnode) *jnode {
	n.keys = append(n.keys, mkKey(key))
	n.vals = append(n.vals, v)
	return n
}

func (n *jnode) clone() *jnode {
	c := *n
	c.arr = make([]*jnode, len(n.arr))
	for i, x := range n.arr {
		c.arr[i] = x.clone()
	}
	c.keys = append([]jkey(nil), n.keys...)
	c.vals = make([]*jnode, len(n.vals))
	for i, x := range n.vals {
		c.vals[i] = x.clone()
	}
	return &c
}

// get returns the index of the last member with that (unescaped) key, -1 if absent.
func (n *jnode) get(key string) int {
	for i := len(n.keys) - 1; i >= 0; i-- {
		if n.keys[i].dec == key {
			return i
		}
	}
	return -1
}

func (n *jnode) text() string {
	var b strings.Builder
	n.write(&b)
	return b.String()
}

func (n *jnode) write(b *strings.Builder) {
	switch n.kind {
	case 'n':
		b.WriteString("null")
	case 't':
		b.WriteString("true")
	case 'f':
		b.WriteString("false")
	case '#':
		b.WriteString(n.lit)
	case 's':
		b.WriteString(`"` + n.raw + `"`)
	case 'a':
		b.WriteByte('[')
		for i, x := range n.arr {
			if i > 0 {
				b.WriteByte(',')
			}
			x.write(b)
		}
		b.WriteByte(']')
	case 'o':
		b.WriteByte('{')
		for i := range n.keys {
			if i > 0 {
				b.WriteByte(',')
			}
			b.WriteString(`"` + n.keys[i].raw + `":`)
			n.vals[i].write(b)
		}
		b.WriteByte('}')
	}
}

// coq renders the document as the model's [json].
func (n *jnode) coq() string {
	switch n.kind {
	case 'n':
		return "JNull"
	case 't':
		return "(JBool true)"
	case 'f':
		return "(JBool false)"
	case '#':
		return "(JNum " + cq.Str(n.lit) + ")"
	case 's':
		return "(JStr " + cq.Str(n.raw) + " " + cq.Str(n.dec) + ")"
	case 'a':
		items := make([]string, len(n.arr))
		for i, x := range n.arr {
			items[i] = x.coq()
		}
		return "(JArr " + cq.List(items) + ")"
	default:
		items := make([]string, len(n.keys))
		for i := range n.keys {
			items[i] = "(" + cq.Str(n.keys[i].dec) + ", " + n.vals[i].coq() + ")"
		}
		return "(JObj " + cq.List(items) + ")"
	}
}

// v is the projection compared for encoder cases: null and the empty string coincide (a nil and an
// empty byte slice are the same proto value but print differently), strings by content.
func (n *jnode) v() cq.V {
	switch n.kind {
	case 'n':
		return cq.VS("")
	case 't':
		return cq.VB(true)
	case 'f':
		return cq.VB(false)
	case '#':
		return cq.VL(cq.VS("#"), cq.VS(n.lit))
	case 's':
		return cq.VS(n.dec)
	case 'a':
		items := make([]cq.V, len(n.arr))
		for i, x := range n.arr {
			items[i] = x.v()
		}
		return cq.VL(append([]cq.V{cq.VS("[")}, items...)...)
	default:
		items := make([]cq.V, len(n.keys))
		for i := range n.keys {
			items[i] = cq.VL(cq.VS(n.keys[i].dec), n.vals[i].v())
		}
		return cq.VL(append([]cq.V{cq.VS("{")}, items...)...)
	}
}

// strings collects what every string node unescapes to.
func (n *jnode) strings(out *[]string) {
	switch n.kind {
	case 's':
		*out = append(*out, n.dec)
	case 'a':
		for _, x := range n.arr {
			x.strings(out)
		}
	case 'o':
		for _, x := range n.vals {
			x.strings(out)
		}
	}
}

// scanJSON reads a document encoding/json accepts (json.Valid) into a tree.
func scanJSON(text string) (*jnode, error) {
	if !json.Valid([]byte(text)) {
		return nil, fmt.Errorf("not valid JSON")
	}
	s := &jscanner{src: text}
	n, err := s.value()
	if err != nil {
		return nil, err
	}
	s.ws()
	if s.pos != len(s.src) {
		return nil, fmt.Errorf("trailing data")
	}
	return n, nil
}

type jscanner struct {
	src string
	pos int
}

func (s *jscanner) ws() {
	for s.pos < len(s.src) {
		switch s.src[s.pos] {
		case ' ', '\t', '\n', '\r':
			s.pos++
		default:
			return
		}
	}
}

func (s *jscanner) str() (raw, dec string, err error) {
	// s.src[s.pos] == '"'
	start := s.pos + 1
	i := start
	for i < len(s.src) && s.src[i] != '"' {
		if s.src[i] == '\\' {
			i++
		}
		i++
	}
	if i >= len(s.src) {
		return "", "", fmt.Errorf("unterminated string")
	}
	raw = s.src[start:i]
	s.pos = i + 1
	if err := json.Unmarshal([]byte(`"`+raw+`"`), &dec); err != nil {
		return "", "", err
	}
	return raw, dec, nil
}

func (s *jscanner) value() (*jnode, error) {
	s.ws()
	if s.pos >= len(s.src) {
		return nil, fmt.Errorf("unexpected end")
	}
	switch c := s.src[s.pos]; {
	case c == '{':
		s.pos++
		n := jobj()
		s.ws()
		if s.src[s.pos] == '}' {
			s.pos++
			return n, nil
		}
		for {
			s.ws()
			raw, dec, err := s.str()
			if err != nil {
				return nil, err
			}
			s.ws()
			s.pos++ // ':'
			v, err := s.value()
			if err != nil {
				return nil, err
			}
			n.keys = append(n.keys, jkey{raw, dec})
			n.vals = append(n.vals, v)
			s.ws()
			if s.src[s.pos] == ',' {
				s.pos++
				continue
			}
			s.pos++ // '}'
			return n, nil
		}
	case c == '[':
		s.pos++
		n := &jnode{kind: 'a'}
		s.ws()
		if s.src[s.pos] == ']' {
			s.pos++
			return n, nil
		}
		for {
			v, err := s.value()
			if err != nil {
				return nil, err
			}
			n.arr = append(n.arr, v)
			s.ws()
			if s.src[s.pos] == ',' {
				s.pos++
				continue
			}
			s.pos++ // ']'
			return n, nil
		}
	case c == '"':
		raw, dec, err := s.str()
		if err != nil {
			return nil, err
		}
		return &jnode{kind: 's', raw: raw, dec: dec}, nil
	case c == 't':
		s.pos += 4
		return jbool(true), nil
	case c == 'f':
		s.pos += 5
		return jbool(false), nil
	case c == 'n':
		s.pos += 4
		return jnull(), nil
	default:
		start := s.pos
		for s.pos < len(s.src) && strings.IndexByte("+-0123456789.eE", s.src[s.pos]) >= 0 {
			s.pos++
		}
		if s.pos == start {
			return nil, fmt.Errorf("unexpected character")
		}
		return jnum(s.src[start:s.pos]), nil
	}
}
