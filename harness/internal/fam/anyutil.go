package fam

import (
	"reflect"
	"unsafe"

	codectypes "github.com/cosmos/cosmos-sdk/codec/types"
	"github.com/cosmos/gogoproto/proto"
)

// packAny builds an Any whose cached value is msg. Messages that cannot be marshalled (a nil entry in
// a repeated field, which only hand-built Go values can contain) get their cached value set directly.
func packAny(msg proto.Message) (a *codectypes.Any) {
	defer func() {
		if r := recover(); r != nil {
			a = &codectypes.Any{TypeUrl: "/" + proto.MessageName(msg)}
			f := reflect.ValueOf(a).Elem().FieldByName("cachedValue")
			reflect.NewAt(f.Type(), unsafe.Pointer(f.UnsafeAddr())).Elem().Set(reflect.ValueOf(msg))
		}
	}()
	a, err := codectypes.NewAnyWithValue(msg)
	if err != nil {
		panic(err)
	}
	return a
}
