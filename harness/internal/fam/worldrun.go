package fam

import (
	"fmt"
	"math/big"
	"strings"

	"cosmossdk.io/math"
	sdk "github.com/cosmos/cosmos-sdk/types"

	"verif/harness/internal/cq"
	"verif/harness/internal/rng"
	"verif/harness/internal/sim"
	"verif/harness/internal/world"
)

// World runs the history family of one property: generated operation sequences on the real
// application (as wired, and on the instrumented instance), the property's oracle on every
// observation, and the cases file for the model.
func World(prop string, r *rng.R, n int) Result {
	p, ok := profiles[prop]
	if !ok {
		p = profiles["mix"]
	}
	res := Result{Evaluator: "run_world_masked", InputType: "(list nat * world_case)",
		Imports: []string{"From Orbiter Require Import Corr.RunWorld."},
		Rule: "histories of " + fmt.Sprint(p.minOps, "-", p.maxOps) + " operations (IBC packets through the whole transfer stack, admin messages through the app's message router, " +
			"direct deposits, queries) on a fresh branch of the booted SimApp; every packet runs on the stack as wired AND on an instrumented instance " +
			"sharing the same store (recorded external calls, injected faults); profile " + p.name + "; a case is non-trivial when at least one orbiter packet " +
			"reaches the dispatch stage or a message changes state; distinct by the rendered operation list",
		Notes: map[string]any{}}
	wr, err := newWorldRunner()
	if err != nil {
		res.Failures = append(res.Failures, Failure{What: "cannot boot the application: " + err.Error(), Sig: "boot", Case: map[string]any{}})
		return res
	}
	seen := map[string]bool{}
	stats := map[string]int{}
	for len(res.Cases) < n {
		cr := r.Fork()
		c, fails := wr.runCase(prop, p, cr, stats)
		if seen[c.Key] {
			continue
		}
		seen[c.Key] = true
		res.Cases = append(res.Cases, c)
		res.Failures = append(res.Failures, fails...)
	}
	res.Notes["operation_outcomes"] = stats
	return res
}

func maskCoq(mask []int) string {
	if mask == nil {
		mask = []int{0, 1, 2, 3, 4}
	}
	items := make([]string, len(mask))
	for i, m := range mask {
		items[i] = fmt.Sprintf("%d%%nat", m)
	}
	return cq.List(items)
}

func applyMask(mask []int, v cq.V) cq.V {
	if mask == nil {
		return v
	}
	items := v.Items()
	var out []cq.V
	for _, m := range mask {
		if m < len(items) {
			out = append(out, items[m])
		}
	}
	return cq.VL(out...)
}

func (wr *worldRunner) runCase(prop string, p profile, r *rng.R, stats map[string]int) (Case, []Failure) {
	g := &gen{r: r, w: wr.w, a: wr.a, p: p, cdc: wr.cdc}
	ctx := wr.caseCtx()
	nops := p.minOps + r.Intn(p.maxOps-p.minOps+1)
	type planned struct {
		op   world.Op
		info pktInfo
	}
	var ops []planned
	for i := 0; i < nops; i++ {
		x := r.Intn(p.wRecv + p.wMsg + p.wDeposit + p.wQuery)
		switch {
		case x < p.wRecv:
			pkt, info := g.genPacket()
			if info.spec != nil && pkt.ICS != nil {
				if info.spec.rawMem != nil {
					pkt.ICS.Memo = *info.spec.rawMem
				} else if _, memo, ok := info.spec.build(wr.cdc); ok {
					pkt.ICS.Memo = memo
				} else {
					pkt.ICS.Memo = `{"orbiter":{}}`
					info.shape += "/unbuildable"
				}
			}
			op := world.Op{Kind: "recv", Pkt: pkt}
			if info.orbiter && r.Chance(p.pFault) {
				k := r.Intn(9)
				op.Plan = make([]bool, k+1)
				for j := range op.Plan {
					op.Plan[j] = true
				}
				op.Plan[k] = false
				info.shape += fmt.Sprintf("/fault@%d", k)
			} else if info.orbiter && r.Chance(p.pLie) {
				op.Lie = rng.Pick(r, []int64{1, -1})
				info.shape += "/balance-lie"
			}
			ops = append(ops, planned{op, info})
		case x < p.wRecv+p.wMsg:
			m := g.genMsg()
			op := world.Op{Kind: "msg", Msg: m}
			ops = append(ops, planned{op, pktInfo{shape: "msg/" + m.Kind}})
		case x < p.wRecv+p.wMsg+p.wDeposit:
			to := rng.Pick(r, []sdk.AccAddress{sim.OrbiterAddr(), sim.OrbiterAddr(), sim.OrbiterAddr(), wr.a.users[0].Raw})
			op := world.Op{Kind: "deposit", To: to, Denom: rng.Pick(r, wr.w.Denoms), Amount: big.NewInt(int64(1 + r.Intn(1000)))}
			ops = append(ops, planned{op, pktInfo{shape: "deposit"}})
		default:
			op := world.Op{Kind: "query", Q: g.genQuery()}
			ops = append(ops, planned{op, pktInfo{shape: "query"}})
		}
	}

	// fund what the packets need, then take the initial snapshot
	for _, pl := range ops {
		if pl.op.Kind == "recv" && pl.info.denom != "" {
			wr.topUp(ctx, pl.info.dstChan, pl.info.denom, pl.info.amount)
		}
	}
	before := wr.w.Snap(ctx)

	var fails []Failure
	var strsB, strsI, opTerms, descOps []string
	var outs []cq.V
	var kinds []string
	nontriv := false
	orc := newOracle(prop, wr, before)
	for _, pl := range ops {
		memoTerm := `(Err "no memo")`
		var note string
		if pl.op.Kind == "recv" && pl.op.Pkt.ICS != nil {
			var built interface{}
			term, payload, nt := wr.memoTerm(pl.info.spec, pl.op.Pkt.ICS)
			memoTerm, note, built = term, nt, payload
			_ = built
			b, i := collectStrings(payload, pl.op.Pkt.ICS)
			strsB, strsI = append(strsB, b...), append(strsI, i...)
		}
		obs := wr.w.RunOp(ctx, pl.op)
		opTerms = append(opTerms, world.OpCoq(obs, memoTerm))
		outs = append(outs, applyMask(p.mask, obs.V()))
		kinds = append(kinds, pl.info.shape)
		descOps = append(descOps, describeOp(pl.op, pl.info, obs))
		stats[outcomeLabel(obs)]++
		if obs.Kind == "recv" && len(obs.Trace) > 2 || obs.Kind == "msg" && obs.MsgOK {
			nontriv = true
		}
		if note != "" {
			fails = append(fails, Failure{What: note + ": " + pl.op.Pkt.ICS.Memo, Sig: "decoder-roundtrip", Case: map[string]any{"memo": pl.op.Pkt.ICS.Memo}})
		}
		if obs.WiringDisagrees != "" {
			fails = append(fails, Failure{What: "the stack as wired and the instrumented instance disagree: " + obs.WiringDisagrees, Sig: "wiring",
				Case: map[string]any{"op": describeOp(pl.op, pl.info, obs)}})
		}
		fails = append(fails, orc.check(pl.op, pl.info, obs)...)
	}
	input := "(" + maskCoq(p.mask) + ", " + wr.coqHeader(before, strsB, strsI, opTerms, before.State) + ")"
	desc := map[string]any{"ops": descOps}
	for i := range fails {
		if fails[i].Case == nil {
			fails[i].Case = map[string]any{}
		}
		fails[i].Case["history"] = descOps
	}
	kind := strings.Join(kinds, ",")
	if len(kind) > 120 {
		kind = kind[:120]
	}
	return Case{Input: input, Expected: cq.VL(outs...), Desc: desc, Kind: kindSummary(kinds), NonTriv: nontriv, Key: strings.Join(opTerms, ";")}, fails
}

func kindSummary(kinds []string) string {
	// one label per case: the first packet shape plus the number of operations
	for _, k := range kinds {
		if !strings.HasPrefix(k, "msg/") && k != "deposit" && k != "query" {
			if i := strings.Index(k, "/fee-"); i > 0 {
				k = k[:i] + "/fee"
			}
			return fmt.Sprintf("%s+%dops", k, len(kinds))
		}
	}
	return fmt.Sprintf("admin-only+%dops", len(kinds))
}

func outcomeLabel(o world.OpObs) string {
	switch o.Kind {
	case "recv":
		return fmt.Sprintf("recv/class%d", o.Recv.Class)
	case "msg":
		if o.MsgOK {
			return "msg/ok"
		}
		return "msg/refused"
	}
	return o.Kind
}

func describeOp(op world.Op, info pktInfo, o world.OpObs) string {
	switch op.Kind {
	case "recv":
		var b strings.Builder
		if op.Pkt.ICS != nil {
			fmt.Fprintf(&b, "recv[%s] %s/%s->%s/%s denom=%q amount=%q receiver=%q memo=%s", info.shape, op.Pkt.SrcPort, op.Pkt.SrcChan, op.Pkt.DstPort, op.Pkt.DstChan,
				op.Pkt.ICS.Denom, op.Pkt.ICS.Amount, op.Pkt.ICS.Receiver, op.Pkt.ICS.Memo)
		} else {
			fmt.Fprintf(&b, "recv[%s] raw data %q", info.shape, op.Pkt.Raw)
		}
		if len(op.Plan) > 0 {
			fmt.Fprintf(&b, " plan=%v", op.Plan)
		}
		if op.Lie != 0 {
			fmt.Fprintf(&b, " lie=%d", op.Lie)
		}
		fmt.Fprintf(&b, " => class %d ack %q", o.Recv.Class, o.Recv.Ack)
		if o.Recv.Panic != "" {
			fmt.Fprintf(&b, " PANIC %s", o.Recv.Panic)
		}
		for _, c := range o.Trace {
			fmt.Fprintf(&b, " | %s", c.String())
		}
		return b.String()
	case "msg":
		return fmt.Sprintf("msg %s signer=%q id=%q ids=%v max=%d => ok=%v %s %s", op.Msg.Kind, op.Msg.Signer, op.Msg.ID, op.Msg.IDs, op.Msg.Max, o.MsgOK, o.MsgErr, o.MsgPan)
	case "deposit":
		return fmt.Sprintf("deposit %s %s -> %x", op.Amount, op.Denom, []byte(op.To))
	case "query":
		return fmt.Sprintf("query %s %q %q => %v", op.Q.Kind, op.Q.ID, op.Q.CP, o.QueryV.JSON())
	}
	return "?"
}

// ---------------------------------------------------------------------------------------------
// the properties' own oracles, evaluated on what the implementation did
// ---------------------------------------------------------------------------------------------

type oracle struct {
	prop string
	wr   *worldRunner
	// abstract state kept by the harness from the observed outcomes only
	pausedProto map[string]bool
	pausedCC    map[string]bool
	pausedAct   map[string]bool
	limit       uint32
	amounts     map[string][2]*big.Int
	counts      map[string]uint64
}

func newOracle(prop string, wr *worldRunner, before world.Snapshot) *oracle {
	o := &oracle{prop: prop, wr: wr, pausedProto: map[string]bool{}, pausedCC: map[string]bool{}, pausedAct: map[string]bool{},
		amounts: map[string][2]*big.Int{}, counts: map[string]uint64{}}
	o.limit = uint32(before.State.Max)
	return o
}

func (o *oracle) bal(sn world.Snapshot, acct int, denom int) *big.Int {
	return sn.Bals[acct*len(o.wr.w.Denoms)+denom]
}

func (o *oracle) fail(sig, what string, desc string) Failure {
	return Failure{What: what, Sig: sig, Case: map[string]any{"op": desc}}
}

func (o *oracle) check(op world.Op, info pktInfo, obs world.OpObs) []Failure {
	var fs []Failure
	desc := describeOp(op, info, obs)
	nd := len(o.wr.w.Denoms)
	switch op.Kind {
	case "recv":
		orbFlow := world.IsOrbiterFlow(op.Pkt)
		// C14: never a panic
		if obs.Recv.Class == world.ClassPanic && obs.AppPanic {
			return fs
		}
		if obs.Recv.Class == world.ClassPanic {
			fs = append(fs, o.fail("recv-panic", "the receive path panics: "+obs.Recv.Panic, desc))
			return fs
		}
		// C01: success never leaves more on the orbiter account; an orbiter packet leaves nothing of the credited denom
		// (not under an injected lie of the bank: the property is about the real ledger)
		if obs.Recv.Success && op.Lie == 0 {
			for d := 0; d < nd; d++ {
				if o.bal(obs.After, 0, d).Cmp(o.bal(obs.Before, 0, d)) > 0 {
					fs = append(fs, o.fail("orbiter-balance-grew", fmt.Sprintf("success acknowledgement and the orbiter balance of %s grew from %s to %s",
						o.wr.w.Denoms[d], o.bal(obs.Before, 0, d), o.bal(obs.After, 0, d)), desc))
				}
			}
			if orbFlow {
				for d := 0; d < nd; d++ {
					for _, esc := range []int{2, 3} {
						if o.bal(obs.After, esc, d).Cmp(o.bal(obs.Before, esc, d)) < 0 && o.bal(obs.After, 0, d).Sign() != 0 {
							fs = append(fs, o.fail("orbiter-keeps-funds", fmt.Sprintf("success acknowledgement but %s %s of the delivered denom stay on the orbiter account",
								o.bal(obs.After, 0, d), o.wr.w.Denoms[d]), desc))
						}
					}
				}
			}
		} else if len(op.Plan) == 0 && !obs.After.Equal(obs.Before) {
			fs = append(fs, o.fail("error-ack-state-changed", "error acknowledgement but the committed state changed", desc))
		}
		// C03: any failed call => no success; success on an orbiter packet => a bridge call happened and succeeded
		anyFailed := false
		for _, c := range obs.Trace {
			if !c.OK {
				anyFailed = true
			}
		}
		if orbFlow && obs.Recv.Success {
			if anyFailed {
				fs = append(fs, o.fail("success-despite-failure", "success acknowledgement although a step of the transfer failed", desc))
			}
			bridge := false
			for _, c := range obs.Trace {
				if (c.Kind == "cctp" || c.Kind == "hyptransfer" || c.Kind == "banksend") && c.OK {
					bridge = true
				}
			}
			if !bridge {
				fs = append(fs, o.fail("success-without-forwarding", "success acknowledgement for an orbiter packet although nothing was forwarded", desc))
			}
		}
		fs = append(fs, o.checkMoves(op, info, obs, desc)...)
	case "msg":
		if obs.MsgPan != "" {
			fs = append(fs, o.fail("msg-panic", "message handler panics: "+obs.MsgPan, desc))
		}
		// C10: anyone but the authority is refused and nothing changes
		if op.Msg.Signer != sim.Authority && !denotesAuthority(op.Msg.Signer) {
			if obs.MsgOK {
				fs = append(fs, o.fail("unauthorized-accepted", "message signed by "+op.Msg.Signer+" (not the authority) succeeded", desc))
			}
			if !obs.After.Equal(obs.Before) {
				fs = append(fs, o.fail("unauthorized-changed-state", "message signed by "+op.Msg.Signer+" (not the authority) changed state", desc))
			}
		}
		if !obs.MsgOK && !obs.After.Equal(obs.Before) {
			fs = append(fs, o.fail("refused-msg-changed-state", "a refused message changed state", desc))
		}
	}
	return fs
}

func denotesAuthority(s string) bool {
	a, err := sdk.AccAddressFromBech32(s)
	if err != nil {
		return false
	}
	b, _ := sdk.AccAddressFromBech32(sim.Authority)
	return a.Equals(b)
}

// checkMoves: C02 (conservation), C04 (fees), C05 (request), C16 (coin) on a successful orbiter transfer,
// recomputed from the packet and the payload the harness built.
func (o *oracle) checkMoves(op world.Op, info pktInfo, obs world.OpObs, desc string) []Failure {
	var fs []Failure
	if !obs.Recv.Success || !world.IsOrbiterFlow(op.Pkt) || info.spec == nil || op.Lie != 0 {
		return nil
	}
	nd := len(o.wr.w.Denoms)
	d := -1
	for i, dn := range o.wr.w.Denoms {
		if dn == info.denom {
			d = i
		}
	}
	if d < 0 {
		fs = append(fs, o.fail("accepted-foreign-denom", "a packet whose token is not a returning Noble-native denomination was processed", desc))
		return fs
	}
	A := info.amount
	// expected deltas per tracked account
	exp := make([]*big.Int, len(o.wr.w.Accts))
	for i := range exp {
		exp[i] = new(big.Int)
	}
	idx := map[string]int{}
	for i, a := range o.wr.w.Accts {
		idx[world.Hex(a.Addr)] = i
	}
	esc := 2
	if info.dstChan == "channel-1" {
		esc = 3
	}
	exp[esc].Sub(exp[esc], A)
	prior := o.bal(obs.Before, 0, d)
	exp[0].Sub(exp[0], prior)
	exp[1].Add(exp[1], prior)
	out := new(big.Int).Set(A)
	untracked := false
	if len(info.spec.fees) == 1 && info.spec.rawMem == nil {
		want := feeExpect(A, info.spec.fees[0])
		if want.refused {
			fs = append(fs, o.fail("fee-accepted-invalid", "a transfer whose fee list must be refused succeeded", desc))
			return fs
		}
		for _, c := range want.credits {
			amt, _ := new(big.Int).SetString(c[1], 10)
			if i, ok := idx[c[0]]; ok {
				exp[i].Add(exp[i], amt)
			} else {
				untracked = true
			}
			out.Sub(out, amt)
		}
	}
	if out.Sign() <= 0 {
		fs = append(fs, o.fail("nonpositive-out", "successful transfer forwards a non-positive amount", desc))
	}
	supplyExp := new(big.Int)
	// the bridge request
	var bridge *world.Call
	for i := range obs.Trace {
		c := &obs.Trace[i]
		if c.Kind == "cctp" || c.Kind == "hyptransfer" || c.Kind == "banksend" {
			bridge = c
		}
	}
	f := info.spec.fwd
	orb := sim.OrbiterAddr().String()
	var wantReq cq.V
	switch f.kind {
	case "cctp":
		supplyExp.Sub(supplyExp, out)
		caller := cq.VNone()
		if len(f.caller) > 0 {
			caller = cq.VSome(cq.VS(string(f.caller)))
		}
		wantReq = cq.VL(cq.VS("cctp"), cq.VS(orb), cq.VBig(out), cq.VU(uint64(f.domain)), cq.VS(string(f.recipient)), cq.VS(info.denom), caller, cq.VB(true))
	case "hyp":
		exp[4].Add(exp[4], out)
		hook := cq.VNone()
		if len(f.hook) > 0 {
			hook = cq.VSome(cq.VS(string(f.hook)))
		}
		wantReq = cq.VL(cq.VS("hyptransfer"), cq.VS(orb), cq.VS(string(f.token)), cq.VU(uint64(f.domain)), cq.VS(string(f.recipient)), cq.VBig(out), hook,
			cq.VBig(f.gas), cq.VS(f.feeDenom), cq.VBig(f.feeAmt), cq.VS(f.metadata), cq.VB(true))
	case "internal":
		to, err := sdk.AccAddressFromBech32(f.to)
		if err == nil {
			if i, ok := idx[world.Hex(to)]; ok {
				exp[i].Add(exp[i], out)
			} else {
				untracked = true
			}
		}
		wantReq = cq.VL(cq.VS("banksend"), cq.VS(orb), cq.VS(f.to), cq.VL(cq.VL(cq.VS(info.denom), cq.VBig(out))), cq.VB(true))
	}
	wantPid := map[string]int32{"cctp": 2, "hyp": 3, "internal": 4}[f.kind]
	if f.pid != wantPid {
		fs = append(fs, o.fail("mismatched-route-accepted", fmt.Sprintf("payload with protocol id %d and %s attributes was executed", f.pid, f.kind), desc))
	}
	if bridge == nil {
		return fs
	}
	if !bridge.V().Equal(wantReq) {
		fs = append(fs, o.fail("bridge-request", fmt.Sprintf("the bridge request %v differs from the payload's parameters and the post-action coin %v", bridge.V().JSON(), wantReq.JSON()), desc))
	}
	if !untracked {
		for i := range exp {
			got := new(big.Int).Sub(o.bal(obs.After, i, d), o.bal(obs.Before, i, d))
			if got.Cmp(exp[i]) != 0 {
				fs = append(fs, o.fail("ledger-delta", fmt.Sprintf("balance of %s changed by %s %s, expected %s", o.wr.w.Accts[i].Name, got, info.denom, exp[i]), desc))
			}
		}
		gotSup := new(big.Int).Sub(obs.After.Supply[d], obs.Before.Supply[d])
		if gotSup.Cmp(supplyExp) != 0 {
			fs = append(fs, o.fail("supply-delta", fmt.Sprintf("supply of %s changed by %s, expected %s", info.denom, gotSup, supplyExp), desc))
		}
		// other denoms: untouched
		for od := 0; od < nd; od++ {
			if od == d {
				continue
			}
			for i := range exp {
				if o.bal(obs.After, i, od).Cmp(o.bal(obs.Before, i, od)) != 0 {
					fs = append(fs, o.fail("other-denom-touched", fmt.Sprintf("balance of %s in %s changed", o.wr.w.Accts[i].Name, o.wr.w.Denoms[od]), desc))
				}
			}
		}
	}
	_ = math.ZeroInt
	return fs
}
