package fam

import (
	"bytes"
	"crypto/sha256"
	"encoding/hex"
	"encoding/json"
	"fmt"
	warptypes "github.com/bcp-innovations/hyperlane-cosmos/x/warp/types"
	"github.com/cosmos/gogoproto/proto"
	forwardingtypes "github.com/noble-assets/orbiter/v2/types/controller/forwarding"
	"math/big"
	"os"
	"os/exec"
	"path/filepath"
	"sort"
	"strconv"
	"strings"
	"unicode/utf8"

	channeltypes "github.com/cosmos/ibc-go/v8/modules/core/04-channel/types"

	"cosmossdk.io/math"
	sdk "github.com/cosmos/cosmos-sdk/types"
	dispatchertypes "github.com/noble-assets/orbiter/v2/types/component/dispatcher"

	"github.com/noble-assets/orbiter/v2/types/core"

	"verif/harness/internal/cq"
	"verif/harness/internal/rng"
	"verif/harness/internal/sim"
	"verif/harness/internal/world"
)

// World runs the history family of one property: generated operation sequences on the real
// application (as wired, and on the instrumented instance), the property's oracle on every
// observation, and the cases file for the model.
func World(prop string, r *rng.R, n int) Result {
	p, ok := profiles[prop]
	if !ok {
		p = profiles["mix"]
	}
	res := Result{Evaluator: "run_world_masked", InputType: "(list nat * world_case)",
		Imports: []string{"From Orbiter Require Import Corr.RunWorld."},
		Rule: "histories of " + fmt.Sprint(p.minOps, "-", p.maxOps) + " operations (IBC packets through the whole transfer stack, admin messages through the app's message router, " +
			"direct deposits, queries) on a fresh branch of the booted SimApp; every packet runs on the stack as wired AND on an instrumented instance " +
			"sharing the same store (recorded external calls, injected faults); profile " + p.name + "; a case is non-trivial when at least one orbiter packet " +
			"reaches the dispatch stage or a message changes state; distinct by the rendered operation list",
		Notes: map[string]any{}}
	var extra []world.ExtraAction
	withSwap := prop == "C06" || prop == "C12"
	if withSwap {
		// a denomination-changing action controller exists only on the instrumented instance
		extra = append(extra, newSwap)
		res.Evaluator, res.InputType = "run_world_swap", "((list nat * string) * world_case)"
	}
	wr, err := newWorldRunner(extra...)
	if err == nil && withSwap {
		wr.swap = true
		// C06: every packet on the instrumented instance; C12: only those naming the swap action
		wr.w.InstOnly = prop == "C06"
	}
	if err != nil {
		res.Failures = append(res.Failures, Failure{What: "cannot boot the application: " + err.Error(), Sig: "boot", Case: map[string]any{}})
		return res
	}
	seen := map[string]bool{}
	stats := map[string]int{}
	// open finding 17 (a gas paymaster is paid out of coins lying on the orbiter account): its witness is the
	// first history of the two families whose property it contradicts, so that every run meets it
	wr.pinFirst = prop == "C11" || prop == "C02"
	// every way of spoiling a forwarding, on every route, on an otherwise valid packet: the head of these families
	// visits them all, so that a class which only matters when everything else is right is met on every run
	wr.sweepNext = -1
	if prop == "C14" || prop == "C05" || prop == "C03" || prop == "C01" {
		wr.sweepNext = 0
	}
	// ... and one history that tries to occupy the dust collector's address before the module account exists
	wr.dustNext = prop == "C14" || prop == "C11"
	for len(res.Cases) < n {
		cr := r.Fork()
		c, fails := wr.runCase(prop, p, cr, stats)
		if seen[c.Key] {
			continue
		}
		seen[c.Key] = true
		res.Cases = append(res.Cases, c)
		res.Failures = append(res.Failures, fails...)
	}
	res.Notes["operation_outcomes"] = stats
	if prop == "C02" {
		res.Failures = append(res.Failures, syntheticTokenProbe(wr)...)
	}
	if prop == "C10" {
		// a keeper cannot be built without an authority, or with one that is not an address: were it, no signer
		// would denote "the configured authority" and the empty (or that malformed) signer would pass every check
		for _, a := range []string{"", " ", "noble1invalid", "cosmos1hsk6jryyqjfhp5dhc55tc9jtckygx0eph6dd02"} {
			if ok, require := world.KeeperWithoutAuthority(wr.w.S, a); ok {
				what := fmt.Sprintf("a keeper is constructed with the authority %q, which is not an address of the chain", a)
				if require != nil && require(a) == nil {
					what += fmt.Sprintf("; a message signed by %q then passes the authority check of every handler", a)
				}
				res.Failures = append(res.Failures, Failure{What: what, Sig: "unauthorized-accepted", Prop: "C10", Case: map[string]any{"authority": a}})
			}
		}
		fs, found := unknownRPCs(wr)
		res.Failures = append(res.Failures, fs...)
		res.Notes["msg_rpcs_without_a_generator"] = found
	}
	if prop == "C07" {
		// the other entry points of the middleware: handshake, acknowledgement, timeout callbacks, the ICS-4 send path
		ctx, _ := wr.w.S.Ctx.CacheContext()
		fs := otherEntryPoints(r.Fork(), ctx, wr.w.S.App.OrbiterKeeper.Adapter(), 220)
		res.Failures = append(res.Failures, fs...)
		res.Notes["other_entry_points_driven"] = 220
		fs2, driven := recvPassThrough(r.Fork(), ctx, wr.w.S.App.OrbiterKeeper.Adapter(), sim.OrbiterAddr().String(), 400)
		res.Failures = append(res.Failures, fs2...)
		res.Notes["non_ics20_packets_driven_through_the_bare_middleware"] = driven
	}
	if prop == "C19" && os.Getenv("VERIF_C19_CHILD") == "" && os.Getenv("VERIF_DRIVE_OUT") != "" {
		res.Notes["second_process"] = secondProcess(&res)
	}
	return res
}

// secondProcess regenerates and replays the same histories in another OS process (its own map
// iteration seeds, heap addresses, start time) and compares the transcripts case by case.
func secondProcess(res *Result) map[string]any {
	out := filepath.Join(os.Getenv("VERIF_DRIVE_OUT"), "child")
	defer os.RemoveAll(out)
	cmd := exec.Command(os.Args[0], "-prop", "C19", "-seed", os.Getenv("VERIF_DRIVE_SEED"), "-n", os.Getenv("VERIF_DRIVE_N"), "-out", out, "-shard", "1000000")
	cmd.Env = append(os.Environ(), "VERIF_C19_CHILD=1")
	if bz, err := cmd.CombinedOutput(); err != nil {
		res.Failures = append(res.Failures, Failure{What: "the second process failed: " + err.Error() + " " + clip(string(bz), 600), Sig: "second-process", Prop: "corr", Case: map[string]any{}})
		return map[string]any{"ran": false}
	}
	var cases []struct {
		Desc map[string]any `json:"desc"`
	}
	bz, err := os.ReadFile(filepath.Join(out, "cases.json"))
	if err == nil {
		err = json.Unmarshal(bz, &cases)
	}
	if err != nil || len(cases) != len(res.Cases) {
		res.Failures = append(res.Failures, Failure{What: fmt.Sprintf("the second process produced %d histories, this one %d (generation follows the implementation's answers: they differ between processes)", len(cases), len(res.Cases)),
			Sig: "process-replay-differs", Prop: "C19", Case: map[string]any{}})
		return map[string]any{"ran": true, "compared": 0}
	}
	same := 0
	for i, c := range res.Cases {
		a, _ := c.Desc["transcript_sha256"].(string)
		b, _ := cases[i].Desc["transcript_sha256"].(string)
		if a == b && a != "" {
			same++
			continue
		}
		res.Failures = append(res.Failures, Failure{What: fmt.Sprintf("history %d replayed in a second process gives another transcript (acknowledgements, events, exported state): %s vs %s", i, a, b),
			Sig: "process-replay-differs", Prop: "C19", Case: map[string]any{"history": c.Desc["ops"], "second_process_history": cases[i].Desc["ops"]}})
		if len(res.Failures) > 20 {
			break
		}
	}
	return map[string]any{"ran": true, "compared": len(res.Cases), "identical": same}
}

func maskCoq(mask []int) string {
	if mask == nil {
		mask = []int{0, 1, 2, 3, 4}
	}
	items := make([]string, len(mask))
	for i, m := range mask {
		items[i] = fmt.Sprintf("%d%%nat", m)
	}
	return cq.List(items)
}

func applyMask(mask []int, v cq.V) cq.V {
	if mask == nil {
		return v
	}
	items := v.Items()
	var out []cq.V
	for _, m := range mask {
		if m < len(items) {
			out = append(out, items[m])
		}
	}
	return cq.VL(out...)
}

func (wr *worldRunner) runCase(prop string, p profile, r *rng.R, stats map[string]int) (Case, []Failure) {
	g := &gen{r: r, w: wr.w, a: wr.a, p: p, cdc: wr.cdc}
	ctx := wr.caseCtx()
	nops := p.minOps + r.Intn(p.maxOps-p.minOps+1)
	type planned struct {
		op     world.Op
		info   pktInfo
		funded bool // the escrow is funded by an operation of the history itself, just before this one
	}
	var lastRecv *planned
	var ops []planned
	if r.Chance(p.pInitLimit) {
		m := world.Msg{Kind: "UpdateParams", Signer: sim.Authority, Max: rng.Pick(r, []uint32{16, 17, 64, 300, 65536})}
		ops = append(ops, planned{op: world.Op{Kind: "msg", Msg: m}, info: pktInfo{shape: "msg/UpdateParams"}})
	}
	if (prop == "C08" || prop == "C19") && r.Chance(5) {
		for _, m := range manyPaused(r) {
			ops = append(ops, planned{op: world.Op{Kind: "msg", Msg: m}, info: pktInfo{shape: "msg/" + m.Kind}})
		}
	}
	pinned := wr.pinFirst
	wr.pinFirst = false
	dust := false
	if !pinned && wr.dustNext {
		// a user funds itself, sends a coin to the dust collector's address (refused: the account is blocked), somebody
		// leaves dust on the orbiter account, and a valid packet of that denomination arrives (the sweep must work)
		dust, wr.dustNext = true, false
		u := wr.a.users[0].Raw
		ops = append(ops, planned{op: world.Op{Kind: "deposit", To: u, Denom: sim.USDC, Amount: big.NewInt(100)}, info: pktInfo{shape: "deposit"}},
			planned{op: world.Op{Kind: "send", From: u, To: sim.DustAddr(), Denom: sim.USDC, Amount: big.NewInt(5)}, info: pktInfo{shape: "send"}},
			planned{op: world.Op{Kind: "deposit", To: sim.OrbiterAddr(), Denom: sim.USDC, Amount: big.NewInt(7)}, info: pktInfo{shape: "deposit"}})
	}
	sweep := -1
	if wr.sweepNext >= 0 && wr.sweepNext < 2*3*spoilClasses {
		sweep = wr.sweepNext
		wr.sweepNext++
	}
	for i := 0; i < nops; i++ {
		x := r.Intn(p.wRecv + p.wMsg + p.wDeposit + p.wQuery + p.wSend)
		pin := pinned && i == 0
		swept := sweep >= 0 && i == 0 && !dust
		dusted := dust && i == 0
		if pin || swept || dusted {
			x = 0
		}
		if x < p.wRecv && !pin && !swept && lastRecv != nil && lastRecv.info.denom != "" && lastRecv.info.amount.Sign() > 0 && r.Chance(p.pRepeat) {
			// the previous packet once more, on the same route: what accumulates per route (statistics, escrow totals)
			// is met a second time, at the same key; the escrow is refilled by the history itself, so that even two
			// transfers of half the 256-bit range can follow each other (the first one's coins may have been burned)
			again := *lastRecv
			again.funded = true
			again.info.shape += "/again"
			ops = append(ops, planned{op: world.Op{Kind: "deposit", To: world.Escrow(dstPort, again.info.dstChan), Denom: again.info.denom,
				Amount: new(big.Int).Set(again.info.amount), EscrowChan: again.info.dstChan}, info: pktInfo{shape: "deposit"}})
			ops = append(ops, again)
			continue
		}
		switch {
		case x >= p.wRecv+p.wMsg+p.wDeposit+p.wQuery:
			// a user's own bank send: to the orbiter account (anybody may), to the dust collector (nobody may: it is
			// blocked, and does not exist as an account before the first sweep), to module accounts, to other users
			from := wr.a.users[0].Raw
			if r.Chance(15) {
				from = wr.a.users[1].Raw
			}
			to := rng.Pick(r, []sdk.AccAddress{sim.DustAddr(), sim.DustAddr(), sim.OrbiterAddr(), sim.OrbiterAddr(), world.ModAddr("cctp"), world.ModAddr("warp"),
				wr.a.users[2].Raw, wr.a.feeRcps[0].Raw, world.ModAddr("hyperlane")})
			if r.Chance(70) {
				// make sure the sender can pay
				ops = append(ops, planned{op: world.Op{Kind: "deposit", To: from, Denom: sim.USDC, Amount: big.NewInt(100)}, info: pktInfo{shape: "deposit"}})
			}
			op := world.Op{Kind: "send", From: from, To: to, Denom: rng.Pick(r, []string{sim.USDC, sim.USDC, "ufoo"}), Amount: big.NewInt(int64(1 + r.Intn(60)))}
			ops = append(ops, planned{op: op, info: pktInfo{shape: "send"}})
		case x < p.wRecv:
			pkt, info := g.genPacket()
			if dusted {
				for try := 0; try < 3000 && !(info.shape == "valid" && info.spec != nil && pkt.ICS != nil && !info.spec.swap && info.denom == sim.USDC && info.expectOK &&
					!info.spec.fwd.gasHook && len(info.spec.fwd.pass) == 0); try++ {
					pkt, info = g.genPacket()
				}
				info.shape += "/after-a-send-to-the-dust-collector"
				if info.spec != nil {
					// ... and, before it, the same packet with a fee for the dust collector's address (refused: a fee
					// cannot be paid to the orbiter's own accounts; paid by the keeper's SendCoins it would create a
					// plain account there)
					first := *info.spec
					first.fees = [][]feeEntry{{{recipient: sim.DustAddr().String(), kind: "amount", amount: "1"}}}
					p0 := pkt
					ics0 := *pkt.ICS
					if _, memo, ok := first.build(wr.cdc); ok {
						ics0.Memo = memo
						p0.ICS = &ics0
						i0 := info
						i0.spec, i0.expectOK = &first, false
						i0.shape = "valid/fee-to-the-dust-collector"
						ops = append(ops, planned{op: world.Op{Kind: "recv", Pkt: p0, Twin: prop == "C11"}, info: i0})
					}
				}
			}
			if swept {
				kind := cleanRoutes[sweep%3]
				g.variant = 1 + sweep/(3*spoilClasses) // first pass: the first option of every choice, second pass: the second
				for try := 0; try < 3000 && !(info.shape == "valid" && info.spec != nil && pkt.ICS != nil && !info.spec.swap &&
					info.spec.fwd.kind == kind && info.denom == sim.USDC && info.expectOK && len(info.spec.fwd.pass) == 0); try++ {
					pkt, info = g.genPacket()
				}
				if info.spec != nil {
					info.shape += "/fwd-" + g.spoilClass(&info.spec.fwd, (sweep/3)%spoilClasses)
					info.expectOK = false
				}
				g.variant = 0
			}
			if pin {
				for try := 0; try < 2000 && !(info.shape == "valid" && info.spec != nil && pkt.ICS != nil && !info.spec.swap && info.spec.fwd.kind == "hyp" &&
					info.denom == sim.USDC && info.expectOK); try++ {
					pkt, info = g.genPacket()
				}
				for _, igp := range wr.w.S.IGPs {
					if igp.Denom != sim.USDC && info.spec != nil {
						f := &info.spec.fwd
						f.hook, f.gasHook, f.gas, f.pass = []byte(igp.ID), true, big.NewInt(5), nil
						f.feeDenom, f.feeAmt = igp.Denom, igp.Quote(f.gas)
						info.shape += "/gas-hook-paid-from-prior-balance"
						info.expectOK = false
						ops = append(ops, planned{op: world.Op{Kind: "deposit", To: sim.OrbiterAddr(), Denom: igp.Denom, Amount: big.NewInt(1000)}, info: pktInfo{shape: "deposit"}})
					}
				}
			} else if info.spec != nil && info.spec.fwd.gasHook && info.spec.rawMem == nil && p.wDeposit > 0 && r.Chance(50) {
				// the orbiter account happens to hold coins of the paymaster's denomination (anybody can send them there)
				for _, igp := range wr.w.S.IGPs {
					if igp.ID == string(info.spec.fwd.hook) {
						amt := new(big.Int).Add(igp.Quote(info.spec.fwd.gas), big.NewInt(int64(r.Intn(50))))
						ops = append(ops, planned{op: world.Op{Kind: "deposit", To: sim.OrbiterAddr(), Denom: igp.Denom, Amount: amt}, info: pktInfo{shape: "deposit"}})
					}
				}
			}
			if !pin && !swept && !dusted && info.spec != nil && pkt.ICS != nil && info.spec.rawMem == nil && info.spec.fwd.kind == "hyp" && !info.spec.fwd.gasHook && info.denom != "" && p.wDeposit > 0 && r.Chance(10) {
				// a Hyperlane forwarding that names the collateral token of ANOTHER denomination, while the orbiter account
				// happens to hold enough of that denomination (anybody can send it there)
				if other, ok := otherDenom(info.denom); ok && info.amount.Sign() > 0 && info.amount.BitLen() < 80 {
					info.spec.fwd.token, info.spec.fwd.domain, info.spec.fwd.hook = []byte(wr.w.S.HypTokens[other]), 1, nil
					info.shape += "/fwd-hyp-token-of-another-denom-funded"
					info.expectOK = false
					ops = append(ops, planned{op: world.Op{Kind: "deposit", To: sim.OrbiterAddr(), Denom: other, Amount: new(big.Int).Mul(info.amount, big.NewInt(2))}, info: pktInfo{shape: "deposit"}})
				}
			}
			if info.spec != nil && pkt.ICS != nil {
				if info.spec.rawMem != nil {
					pkt.ICS.Memo = *info.spec.rawMem
				} else if _, memo, ok := info.spec.build(wr.cdc); ok {
					pkt.ICS.Memo = memo
				} else {
					pkt.ICS.Memo = `{"orbiter":{}}`
					info.shape += "/unbuildable"
				}
			}
			if !pin && !swept && !dusted && info.spec != nil && pkt.ICS != nil && info.spec.rawMem == nil && r.Chance(3) {
				// a complete orbiter memo followed by something: not a JSON document any more
				raw := pkt.ICS.Memo + rng.Pick(r, []string{"}", " x", `,"forward":{}`, pkt.ICS.Memo, "]", " null", "\x00"})
				info.spec.rawMem = &raw
				pkt.ICS.Memo = raw
				info.shape += "/trailing-bytes"
				info.expectOK = false
			}
			if prop == "C19" && info.spec != nil && pkt.ICS != nil && info.spec.rawMem == nil && r.Chance(22) {
				// a document with several irregularities at once: the decoder meets them through Go maps
				if tree, err := scanJSON(pkt.ICS.Memo); err == nil && tree.kind == 'o' && len(tree.keys) > 0 {
					jg := &jsonGen{r: r, a: wr.a}
					if !(r.Chance(30) && jg.forceBoth(tree)) {
						for k := 1 + r.Intn(3); k > 0; k-- {
							jg.mutate(tree)
						}
					}
					raw := tree.text()
					info.spec.rawMem = &raw
					pkt.ICS.Memo = raw
					info.shape += "/mutated-memo"
				}
			}
			oddShare := p.pOddWire
			if dusted {
				oddShare = 0
			}
			if prop == "C07" && info.orbiter {
				oddShare = 45 // what the ICS-20 decoder refuses is not the orbiter's, whoever the receiver reads as
			}
			if !pin && !swept && pkt.ICS != nil && r.Chance(oddShare) {
				saved := pkt
				if kind := oddWire(r, &pkt); pkt.WireAgrees() {
					info.shape += "/" + kind
					if kind == "wire-missing-sender" {
						// the ICS-20 application refuses a packet without a sender
						info.expectOK, info.swapRouteOK = false, false
					}
					if pkt.ICS == nil {
						info = pktInfo{shape: "raw-data/" + kind}
					}
				} else {
					pkt = saved // the rewriting does not say what it was meant to say (odd bytes in a field): dropped
				}
			}
			op := world.Op{Kind: "recv", Pkt: pkt, Twin: prop == "C11", Ref: prop == "C07"}
			if wr.swap && pkt.ICS != nil {
				// a payload naming the swap action can only run where that controller exists
				if pl, err := wr.w.Parse(pkt.ICS.Memo); err == nil && pl != nil {
					for _, a := range pl.PreActions {
						if a != nil && a.Id == core.ACTION_SWAP {
							op.InstOnly = true
						}
					}
				}
			}
			if !pin && !swept && !dusted && r.Chance(p.pCallback) && pkt.ICS != nil {
				// a packet Noble sent earlier: its acknowledgement or timeout comes back
				op.Callback = rng.Pick(r, []string{"ack-ok", "ack-err", "timeout"})
				op.Pkt = world.Packet{SrcPort: dstPort, SrcChan: rng.Pick(r, dstChans), DstPort: srcPort, DstChan: srcChan,
					ICS: &world.ICS20{Denom: rng.Pick(r, []string{sim.USDC, "ufoo", "transfer/channel-0/uatom"}), Amount: fmt.Sprint(1 + r.Intn(5000)),
						Sender: rng.Pick(r, []string{wr.a.users[0].Bech, sim.OrbiterAddr().String(), "noble1invalid"}), Receiver: "cosmos1xyz", Memo: pkt.ICS.Memo}}
				info = pktInfo{shape: "callback/" + op.Callback}
			}
			if pin || swept || dusted {
			} else if info.orbiter && r.Chance(p.pFault) {
				k := r.Intn(9)
				op.Plan = make([]bool, k+1)
				for j := range op.Plan {
					op.Plan[j] = true
				}
				op.Plan[k] = false
				info.shape += fmt.Sprintf("/fault@%d", k)
			} else if info.orbiter && r.Chance(p.pLie) {
				op.Lie = rng.Pick(r, []int64{1, -1})
				info.shape += "/balance-lie"
			} else if info.orbiter && r.Chance(p.pExtPanic) {
				// an external module (bank, CCTP, Warp, the event service) panics instead of returning an error
				op.PanicAt = 1 + r.Intn(8)
				info.shape += fmt.Sprintf("/ext-panic@%d", op.PanicAt)
			}
			ops = append(ops, planned{op: op, info: info})
			if op.Callback == "" && len(op.Plan) == 0 && op.Lie == 0 && op.PanicAt == 0 && pkt.ICS != nil && pkt.Raw == nil {
				lastRecv = &ops[len(ops)-1]
				cp := *lastRecv
				lastRecv = &cp
			}
		case x < p.wRecv+p.wMsg:
			m := g.genMsg()
			op := world.Op{Kind: "msg", Msg: m}
			ops = append(ops, planned{op: op, info: pktInfo{shape: "msg/" + m.Kind}})
		case x < p.wRecv+p.wMsg+p.wDeposit:
			to := rng.Pick(r, []sdk.AccAddress{sim.OrbiterAddr(), sim.OrbiterAddr(), sim.OrbiterAddr(), wr.a.users[0].Raw})
			amt := big.NewInt(int64(1 + r.Intn(1000)))
			if r.Chance(p.pHuge) {
				// anybody may send any amount: the 64-bit and 128-bit boundaries and beyond
				amt = rng.Pick(r, []*big.Int{new(big.Int).Sub(new(big.Int).Lsh(big.NewInt(1), 63), big.NewInt(1)), new(big.Int).Lsh(big.NewInt(1), 63),
					new(big.Int).Add(new(big.Int).Lsh(big.NewInt(1), 64), big.NewInt(5)), new(big.Int).Lsh(big.NewInt(1), 128), new(big.Int).Lsh(big.NewInt(1), 200)})
			}
			op := world.Op{Kind: "deposit", To: to, Denom: rng.Pick(r, wr.w.Denoms), Amount: amt}
			ops = append(ops, planned{op: op, info: pktInfo{shape: "deposit"}})
		default:
			op := world.Op{Kind: "query", Q: g.genQuery()}
			ops = append(ops, planned{op: op, info: pktInfo{shape: "query"}})
		}
	}

	// fund what the packets need, then take the initial snapshot
	need := map[[2]string]*big.Int{}
	for _, pl := range ops {
		if pl.op.Kind == "recv" && !pl.funded && pl.info.denom != "" && pl.info.amount.Sign() > 0 {
			k := [2]string{pl.info.dstChan, pl.info.denom}
			if need[k] == nil {
				need[k] = new(big.Int)
			}
			need[k].Add(need[k], pl.info.amount)
		}
	}
	for _, ch := range dstChans {
		for _, d := range wr.w.Denoms {
			if n := need[[2]string{ch, d}]; n != nil {
				wr.topUp(ctx, ch, d, n)
			}
		}
	}
	if (prop == "C12" || prop == "mix") && r.Chance(5) {
		// a chain that has used more routes than one page of a listing holds
		wr.manyRoutes(ctx, r)
	}
	if (prop == "C12" || prop == "C02" || prop == "C03" || prop == "C01" || prop == "mix") && r.Chance(8) {
		// a chain that has already moved almost everything a 256-bit total can hold over some routes
		wr.nearFullStats(ctx, r)
	}
	before := wr.w.Snap(ctx)

	var fails []Failure
	var strsB, strsI, opTerms, descOps []string
	var outs []cq.V
	var kinds []string
	nontriv := false
	orc := newOracle(prop, wr, before)
	for _, pl := range ops {
		memoTerm := `(Err "no memo")`
		var note string
		if pl.op.Kind == "recv" && pl.op.Pkt.ICS != nil {
			var built interface{}
			term, payload, nt := wr.memoTerm(pl.info.spec, pl.op.Pkt.ICS)
			memoTerm, note, built = term, nt, payload
			_ = built
			b, i := collectStrings(payload, pl.op.Pkt.ICS)
			strsB, strsI = append(strsB, b...), append(strsI, i...)
		}
		if prop == "C06" && pl.op.Kind == "recv" && pl.info.spec != nil && pl.info.spec.swap && pl.op.Pkt.ICS != nil {
			// "any set of registered controllers" includes the chain's own: the application as wired has the fee controller
			// only, so a payload listing the swap action is refused there - it must not be executed with that action left out
			sctx, _ := ctx.CacheContext()
			if t := wr.w.Transcript(sctx, pl.op); strings.HasPrefix(t, "recv ack ") && strings.HasSuffix(strings.SplitN(t, "\n", 2)[0], "success=true") {
				fails = append(fails, Failure{What: "the application as wired (fee controller only) executes a payload that lists ACTION_SWAP: the listed action is not applied, the transfer goes through without it",
					Sig: "listed-action-not-applied", Prop: "C06", Case: map[string]any{"op": describeOp(pl.op, pl.info, world.OpObs{})}})
			}
		}
		obs := wr.w.RunOp(ctx, pl.op)
		opTerms = append(opTerms, world.OpCoq(obs, memoTerm))
		outs = append(outs, applyMask(p.mask, obs.V()))
		kinds = append(kinds, pl.info.shape)
		descOps = append(descOps, describeOp(pl.op, pl.info, obs))
		stats[outcomeLabel(obs)]++
		if obs.Kind == "recv" && len(obs.Trace) > 2 || obs.Kind == "msg" && obs.MsgOK {
			nontriv = true
		}
		if note != "" {
			fails = append(fails, Failure{What: note + ": " + pl.op.Pkt.ICS.Memo, Sig: "decoder-roundtrip", Prop: "C15", Case: map[string]any{"memo": pl.op.Pkt.ICS.Memo}})
		}
		if obs.WiringDisagrees != "" {
			fails = append(fails, Failure{What: "the stack as wired and the instrumented instance disagree: " + obs.WiringDisagrees, Sig: "wiring", Prop: "corr",
				Case: map[string]any{"op": describeOp(pl.op, pl.info, obs)}})
		}
		if prop != "C19" {
			// C19 histories carry mutated memos the generator's description of the payload no longer fits;
			// the other properties' oracles run in their own families
			fails = append(fails, orc.check(pl.op, pl.info, obs)...)
		}
	}
	if prop == "C12" || prop == "mix" {
		// the exported genesis carries the statistics the store holds, all of them
		gen := wr.w.S.App.OrbiterKeeper.ExportGenesis(ctx)
		st := wr.w.ObserveState(ctx)
		na, nc := 0, 0
		if gen != nil && gen.DispatcherGenesis != nil {
			na, nc = len(gen.DispatcherGenesis.DispatchedAmounts), len(gen.DispatcherGenesis.DispatchedCounts)
		}
		if na != len(st.Amounts) || nc != len(st.Counts) {
			fails = append(fails, Failure{What: fmt.Sprintf("the exported genesis carries %d amount entries and %d counts, the store holds %d and %d", na, nc, len(st.Amounts), len(st.Counts)),
				Sig: "export-drops-statistics", Prop: "C12", Case: map[string]any{}})
		}
	}
	transcript := ""
	if prop == "C19" {
		// the same history on fresh instances of the application as wired
		var runs []string
		var perOp [][]string
		for rep := 0; rep < 3; rep++ {
			if rep == 1 {
				// between two replays, ANOTHER history (the previous case's) runs on a branch that is thrown away - a
				// simulated or failed transaction: nothing of it is in the state, so nothing of it may show in the replay
				pctx := wr.caseCtx()
				for _, o := range wr.lastOps {
					wr.w.Transcript(pctx, o)
				}
				wr.w.Transcript(pctx, world.Op{Kind: "msg", Msg: world.Msg{Kind: "UpdateParams", Signer: sim.Authority, Max: 4242}})
				// ... and this history's own messages and queries with every protocol name rotated (the same identifiers
				// under another protocol): whatever an instance remembers about an identifier must not leak across protocols
				rot := map[string]string{"PROTOCOL_CCTP": "PROTOCOL_INTERNAL", "PROTOCOL_INTERNAL": "PROTOCOL_HYPERLANE", "PROTOCOL_HYPERLANE": "PROTOCOL_IBC", "PROTOCOL_IBC": "PROTOCOL_CCTP"}
				for _, pl := range ops {
					o := pl.op
					switch o.Kind {
					case "msg":
						if n, ok := rot[o.Msg.ID]; ok {
							o.Msg.ID = n
							o.Msg.Signer = sim.Authority
							wr.w.Transcript(pctx, o)
							o.Msg.ID = rot[n]
							wr.w.Transcript(pctx, o)
						}
					case "query":
						if n, ok := rot[o.Q.ID]; ok {
							o.Q.ID = n
							wr.w.Transcript(pctx, o)
							o.Q.ID = rot[n]
							wr.w.Transcript(pctx, o)
						}
					}
				}
			}
			rctx := wr.caseCtx()
			for _, ch := range dstChans {
				for _, d := range wr.w.Denoms {
					if n := need[[2]string{ch, d}]; n != nil {
						wr.topUp(rctx, ch, d, n)
					}
				}
			}
			var lines []string
			for _, pl := range ops {
				lines = append(lines, wr.w.Transcript(rctx, pl.op))
			}
			lines = append(lines, wr.w.FinalTranscript(rctx))
			perOp = append(perOp, lines)
			runs = append(runs, strings.Join(lines, ""))
		}
		transcript = runs[0]
		if d := os.Getenv("VERIF_C19_DUMP"); d != "" {
			f, _ := os.OpenFile(d, os.O_APPEND|os.O_CREATE|os.O_WRONLY, 0o644)
			f.WriteString("=== case\n" + transcript)
			f.Close()
		}
		for rep := 1; rep < len(runs); rep++ {
			if runs[rep] == runs[0] {
				continue
			}
			for i := range perOp[0] {
				if perOp[0][i] != perOp[rep][i] {
					what := "the final exported state"
					if i < len(descOps) {
						what = "operation " + fmt.Sprint(i) + " (" + descOps[i] + ")"
					}
					fails = append(fails, Failure{What: "replaying the same history on a fresh instance differs at " + what + ":\n--- replay 0\n" + clip(perOp[0][i], 1500) + "--- replay " + fmt.Sprint(rep) + "\n" + clip(perOp[rep][i], 1500),
						Sig: "replay-differs", Prop: "C19", Case: map[string]any{}})
					break
				}
			}
			break
		}
	}
	if prop == "C19" {
		wr.lastOps = wr.lastOps[:0]
		for _, pl := range ops {
			wr.lastOps = append(wr.lastOps, pl.op)
		}
	}
	input := "(" + maskCoq(p.mask) + ", " + wr.coqHeader(before, strsB, strsI, opTerms, before.State) + ")"
	if wr.swap {
		input = "((" + maskCoq(p.mask) + ", " + cq.Str(world.Hex(PoolAddr())) + "), " + wr.coqHeader(before, strsB, strsI, opTerms, before.State) + ")"
	}
	desc := map[string]any{"ops": descOps}
	if transcript != "" {
		h := sha256.Sum256([]byte(transcript))
		desc["transcript_sha256"] = hex.EncodeToString(h[:])
	}
	for i := range fails {
		if fails[i].Case == nil {
			fails[i].Case = map[string]any{}
		}
		fails[i].Case["history"] = descOps
	}
	kind := strings.Join(kinds, ",")
	if len(kind) > 120 {
		kind = kind[:120]
	}
	return Case{Input: input, Expected: cq.VL(outs...), Desc: desc, Kind: kindSummary(kinds), NonTriv: nontriv, Key: strings.Join(opTerms, ";")}, fails
}

func kindSummary(kinds []string) string {
	// one label per case: the first packet shape plus the number of operations
	for _, k := range kinds {
		if !strings.HasPrefix(k, "msg/") && k != "deposit" && k != "query" {
			if i := strings.Index(k, "/fee-"); i > 0 {
				k = k[:i] + "/fee"
			}
			return fmt.Sprintf("%s+%dops", k, len(kinds))
		}
	}
	return fmt.Sprintf("admin-only+%dops", len(kinds))
}

func outcomeLabel(o world.OpObs) string {
	switch o.Kind {
	case "recv":
		return fmt.Sprintf("recv/class%d", o.Recv.Class)
	case "msg":
		if o.MsgOK {
			return "msg/ok"
		}
		return "msg/refused"
	}
	return o.Kind
}

func describeOp(op world.Op, info pktInfo, o world.OpObs) string {
	switch op.Kind {
	case "recv":
		var b strings.Builder
		if op.Pkt.ICS != nil {
			fmt.Fprintf(&b, "recv[%s] %s/%s->%s/%s denom=%q amount=%q receiver=%q memo=%s", info.shape, op.Pkt.SrcPort, op.Pkt.SrcChan, op.Pkt.DstPort, op.Pkt.DstChan,
				op.Pkt.ICS.Denom, op.Pkt.ICS.Amount, op.Pkt.ICS.Receiver, clipMemo(op.Pkt.ICS.Memo))
		} else {
			fmt.Fprintf(&b, "recv[%s] raw data %q", info.shape, op.Pkt.Raw)
		}
		if len(op.Plan) > 0 {
			fmt.Fprintf(&b, " plan=%v", op.Plan)
		}
		if op.Lie != 0 {
			fmt.Fprintf(&b, " lie=%d", op.Lie)
		}
		fmt.Fprintf(&b, " => class %d ack %q", o.Recv.Class, o.Recv.Ack)
		if o.Recv.Panic != "" {
			fmt.Fprintf(&b, " PANIC %s", o.Recv.Panic)
		}
		for _, c := range o.Trace {
			fmt.Fprintf(&b, " | %s", c.String())
		}
		return b.String()
	case "callback":
		return "callback"
	case "msg":
		return fmt.Sprintf("msg %s signer=%q id=%q ids=%v max=%d => ok=%v %s %s", op.Msg.Kind, op.Msg.Signer, op.Msg.ID, op.Msg.IDs, op.Msg.Max, o.MsgOK, o.MsgErr, o.MsgPan)
	case "deposit":
		return fmt.Sprintf("deposit %s %s -> %x", op.Amount, op.Denom, []byte(op.To))
	case "send":
		return fmt.Sprintf("bank send %s %s from %x to %x => accepted=%v %s", op.Amount, op.Denom, []byte(op.From), []byte(op.To), o.MsgOK, o.MsgErr)
	case "query":
		return fmt.Sprintf("query %s %q %q => %v", op.Q.Kind, op.Q.ID, op.Q.CP, o.QueryV.JSON())
	}
	return "?"
}

// ---------------------------------------------------------------------------------------------
// the properties' own oracles, evaluated on what the implementation did
// ---------------------------------------------------------------------------------------------

type oracle struct {
	prop string
	wr   *worldRunner
	// abstract state kept by the harness from the observed outcomes only
	pausedProto map[string]bool
	pausedCC    map[string]bool
	pausedAct   map[string]bool
	limit       uint32
	amounts     map[string][2]*big.Int
	counts      map[string]uint64
	// statsUnknown: the harness can no longer predict the statistics (a reported difference, or a
	// transfer under an injected lie); setsReported: a difference was already reported for this case
	statsUnknown bool
	setsReported bool
}

func newOracle(prop string, wr *worldRunner, before world.Snapshot) *oracle {
	o := &oracle{prop: prop, wr: wr, pausedProto: map[string]bool{}, pausedCC: map[string]bool{}, pausedAct: map[string]bool{},
		amounts: map[string][2]*big.Int{}, counts: map[string]uint64{}}
	o.limit = uint32(before.State.Max)
	for _, a := range before.State.Amounts {
		in, _ := new(big.Int).SetString(a[4], 10)
		out, _ := new(big.Int).SetString(a[5], 10)
		o.amounts[a[0]+"|"+a[1]+"|"+a[2]+"|"+a[3]] = [2]*big.Int{in, out}
	}
	for _, c := range before.State.Counts {
		n, _ := strconv.ParseUint(c[4], 10, 64)
		o.counts[c[0]+"|"+c[1]+"|"+c[2]+"|"+c[3]] = n
	}
	return o
}

func (o *oracle) bal(sn world.Snapshot, acct int, denom int) *big.Int {
	return sn.Bals[acct*len(o.wr.w.Denoms)+denom]
}

var sigProp = map[string]string{
	"recv-panic": "C14", "msg-panic": "C14", "malformed-memo-executed": "C14",
	"orbiter-balance-grew": "C01", "orbiter-keeps-funds": "C01",
	"error-ack-state-changed": "C03", "success-despite-failure": "C03", "success-without-forwarding": "C03", "partial-success": "C03",
	"accepted-foreign-denom": "C16", "forwarded-coin-differs": "C16", "forwarded-amount-differs": "C16", "fee-accepted-invalid": "C04", "fee-refused-valid": "C04",
	"nonpositive-out": "C02", "ledger-delta": "C02", "supply-delta": "C02", "other-denom-touched": "C02",
	"mismatched-route-accepted": "C05", "bridge-request": "C05", "replace-request": "C05",
	"unauthorized-accepted": "C10", "unauthorized-changed-state": "C10", "refused-msg-changed-state": "C10", "authority-refused": "C10",
	"valid-pause-refused": "C08", "valid-action-pause-refused": "C09", "paused-destination-forwarded": "C08", "unpaused-destination-refused": "C08", "pause-sets": "C08", "pause-query": "C08",
	"paused-action-executed": "C09", "paused-action-not-refused": "C09", "unpaused-action-refused": "C09", "action-set": "C09", "action-query": "C09",
	"stats-fold": "C12", "stats-changed-by-non-transfer": "C12",
	"passthrough-over-limit-accepted": "C18", "passthrough-within-limit-refused": "C18", "limit-not-in-force": "C18", "passthrough-checked-late": "C18",
	"dust-collector-not-blocked": "C11", "prior-balance-changes-outcome": "C11", "prior-balance-not-swept": "C11", "prior-balance-other-denom-moved": "C11",
	"decoder-roundtrip": "C15", "middleware-not-transparent": "C07", "orbiter-state-touched": "C07",
	"repeated-action-accepted": "C06", "ordered-payload-refused": "C06", "action-order": "C06", "final-coin": "C06",
}

func (o *oracle) fail(sig, what string, desc string) Failure {
	prop := sigProp[sig]
	if o.prop == "C20" && prop == "C08" {
		// the end-to-end part of C20: "a successful pause of an identifier covers the transfers it names" is judged by
		// the same observations as C08's pause sets, here on identifiers at the edges of what is accepted
		prop = "C20"
	}
	return Failure{What: what, Sig: sig, Prop: prop, Case: map[string]any{"op": desc}}
}

// check judges one operation; the failures of a packet whose forwarding goes through a gas paymaster say so
// (known_findings.json matches on it).
func (o *oracle) check(op world.Op, info pktInfo, obs world.OpObs) []Failure {
	fs := o.check0(op, info, obs)
	if info.spec != nil && info.spec.fwd.gasHook {
		for i := range fs {
			fs[i].Case["gas_hook"] = "charges"
		}
	}
	return fs
}

func (o *oracle) check0(op world.Op, info pktInfo, obs world.OpObs) []Failure {
	var fs []Failure
	desc := describeOp(op, info, obs)
	nd := len(o.wr.w.Denoms)
	if obs.Kind == "callback" {
		if obs.RefDiff != "" {
			return []Failure{o.fail("middleware-not-transparent", "the "+op.Callback+" callback behaves differently with and without the middleware: "+obs.RefDiff, desc)}
		}
		return nil
	}
	switch op.Kind {
	case "send":
		if obs.MsgOK && bytes.Equal(op.To, sim.DustAddr()) {
			fs = append(fs, o.fail("dust-collector-not-blocked", "a user's bank send to the dust collector address is accepted: the account can be occupied before the module account exists, and what is swept there is no longer out of reach", desc))
		}
		if obs.MsgPan != "" {
			fs = append(fs, o.fail("msg-panic", "a bank send panics: "+obs.MsgPan, desc))
		}
		return fs
	case "recv":
		orbFlow := world.IsOrbiterFlow(op.Pkt)
		// C14: never a panic
		if obs.Recv.Class == world.ClassPanic && obs.AppPanic {
			return fs
		}
		if obs.Recv.Class == world.ClassPanic && obs.ExtPanic {
			// the injected panic of an external module came through: the transaction is aborted, nothing may be left behind
			if !obs.After.Equal(obs.Before) {
				fs = append(fs, o.fail("error-ack-state-changed", "an external module panicked, the transaction is aborted, but the committed state changed", desc))
			}
			return fs
		}
		if obs.Recv.Class == world.ClassPanic {
			fs = append(fs, o.fail("recv-panic", "the receive path panics: "+obs.Recv.Panic, desc))
			if info.spec != nil && orbFlow {
				// C09: a payload naming a paused action is refused with an error acknowledgement - not by aborting the transaction
				named := map[string]bool{}
				if len(info.spec.fees) > 0 {
					named["ACTION_FEE"] = true
				}
				if info.spec.swap {
					named["ACTION_SWAP"] = true
				}
				for _, x := range info.spec.extra {
					if x.id == int32(core.ACTION_SWAP) {
						named["ACTION_SWAP"] = true
					}
					if x.id == int32(core.ACTION_FEE) {
						named["ACTION_FEE"] = true
					}
				}
				for a := range named {
					if o.pausedAct[a] {
						fs = append(fs, o.fail("paused-action-not-refused", "a payload containing the paused action "+a+" is not refused with an error acknowledgement: the receive path panics ("+obs.Recv.Panic+")", desc))
					}
				}
			}
			// a panic that an emptied orbiter account avoids is also C11's: coins sent to the account block the transfer
			fs = append(fs, o.checkPrior(op, info, obs, desc)...)
			return fs
		}
		// C14: a memo that is not a JSON document is never executed
		if orbFlow && obs.Recv.Success && op.Pkt.ICS != nil && !json.Valid([]byte(op.Pkt.ICS.Memo)) {
			fs = append(fs, o.fail("malformed-memo-executed", "an orbiter packet whose memo is not a JSON document was executed", desc))
		}
		// C01: success never leaves more on the orbiter account; an orbiter packet leaves nothing of the credited denom
		// (not under an injected lie of the bank: the property is about the real ledger)
		if obs.Recv.Success && op.Lie == 0 {
			for d := 0; d < nd; d++ {
				if o.bal(obs.After, 0, d).Cmp(o.bal(obs.Before, 0, d)) > 0 {
					fs = append(fs, o.fail("orbiter-balance-grew", fmt.Sprintf("success acknowledgement and the orbiter balance of %s grew from %s to %s",
						o.wr.w.Denoms[d], o.bal(obs.Before, 0, d), o.bal(obs.After, 0, d)), desc))
				}
			}
			if orbFlow {
				for d := 0; d < nd; d++ {
					for _, esc := range []int{2, 3} {
						if o.bal(obs.After, esc, d).Cmp(o.bal(obs.Before, esc, d)) < 0 && o.bal(obs.After, 0, d).Sign() != 0 {
							fs = append(fs, o.fail("orbiter-keeps-funds", fmt.Sprintf("success acknowledgement but %s %s of the delivered denom stay on the orbiter account",
								o.bal(obs.After, 0, d), o.wr.w.Denoms[d]), desc))
							// the same observation is a partial success (C03): acknowledged, part of the coin neither forwarded nor refunded
							fs = append(fs, o.fail("partial-success", fmt.Sprintf("success acknowledgement although %s %s of the delivered coin were neither paid as a fee nor forwarded",
								o.bal(obs.After, 0, d), o.wr.w.Denoms[d]), desc))
						}
					}
				}
			}
		} else if !obs.Recv.Success && !obs.After.Equal(obs.Before) {
			fs = append(fs, o.fail("error-ack-state-changed", "error acknowledgement but the committed state changed", desc))
		}
		// C03: any failed call => no success; success on an orbiter packet => a bridge call happened and succeeded
		anyFailed := false
		for _, c := range obs.Trace {
			if !c.OK {
				anyFailed = true
			}
		}
		if orbFlow && obs.Recv.Success {
			if anyFailed {
				fs = append(fs, o.fail("success-despite-failure", "success acknowledgement although a step of the transfer failed", desc))
			}
			bridge := false
			for _, c := range obs.Trace {
				if (c.Kind == "cctp" || c.Kind == "hyptransfer" || c.Kind == "banksend") && c.OK {
					bridge = true
				}
			}
			if !bridge {
				fs = append(fs, o.fail("success-without-forwarding", "success acknowledgement for an orbiter packet although nothing was forwarded", desc))
			}
		}
		// the property is about packets IBC core can deliver: a valid destination channel identifier
		if obs.RefDiff != "" && channeltypes.IsValidChannelID(op.Pkt.DstChan) && op.Pkt.SrcPort != "" && op.Pkt.SrcChan != "" {
			fs = append(fs, o.fail("middleware-not-transparent", "a packet that is not the orbiter's is handled differently with and without the middleware: "+obs.RefDiff, desc))
		}
		if !orbFlow && (!obs.After.State.V().Equal(obs.Before.State.V())) {
			fs = append(fs, o.fail("orbiter-state-touched", "a packet that is not the orbiter's changed the orbiter's own state", desc))
		}
		fs = append(fs, o.checkMoves(op, info, obs, desc)...)
		fs = append(fs, o.checkGates(op, info, obs, desc)...)
		fs = append(fs, o.checkOrder(op, info, obs, desc)...)
		fs = append(fs, o.checkPrior(op, info, obs, desc)...)
	case "msg":
		if obs.RefusedWrote != "" && op.Msg.Signer != sim.Authority && !denotesAuthority(op.Msg.Signer) {
			// (a message of the authority that is refused half way relies on the transaction being dropped as a whole;
			// one of anybody else must not have touched anything when it returns)
			fs = append(fs, o.fail("unauthorized-changed-state", "message signed by "+op.Msg.Signer+" (not the authority) is refused, but its handler had already written to the state of the context it ran on: "+obs.RefusedWrote, desc))
		}
		if obs.MsgPan != "" {
			fs = append(fs, o.fail("msg-panic", "message handler panics: "+obs.MsgPan, desc))
		}
		// C10: anyone but the authority is refused and nothing changes
		if op.Msg.Signer != sim.Authority && !denotesAuthority(op.Msg.Signer) {
			if obs.MsgOK {
				fs = append(fs, o.fail("unauthorized-accepted", "message signed by "+op.Msg.Signer+" (not the authority) succeeded", desc))
			}
			if !obs.After.Equal(obs.Before) {
				fs = append(fs, o.fail("unauthorized-changed-state", "message signed by "+op.Msg.Signer+" (not the authority) changed state", desc))
			}
		}
		if !obs.MsgOK && !obs.After.Equal(obs.Before) {
			fs = append(fs, o.fail("refused-msg-changed-state", "a refused message changed state", desc))
		}
		if op.Msg.Signer == sim.Authority && !obs.MsgOK && o.mustSucceed(op.Msg) {
			switch op.Msg.Kind {
			case "PauseProtocol", "UnpauseProtocol", "PauseCrossChains", "UnpauseCrossChains":
				// C08: a destination that cannot be paused although the message is valid for the current sets
				fs = append(fs, o.fail("valid-pause-refused", "a pause / unpause message of the authority that is valid for the current sets ("+op.Msg.ID+" "+fmt.Sprint(op.Msg.IDs)+") was refused: "+obs.MsgErr, desc))
			case "PauseAction", "UnpauseAction":
				fs = append(fs, o.fail("valid-action-pause-refused", "a pause / unpause of an action by the authority that is valid for the current set was refused: "+obs.MsgErr, desc))
			}
			fs = append(fs, o.fail("authority-refused", "a valid message signed by the authority was refused: "+obs.MsgErr, desc))
		}
		if op.Msg.Kind == "ReplaceDepositForBurn" && op.Msg.Signer == sim.Authority {
			want := cq.VL(cq.VS("cctpreplace"), cq.VS(sim.OrbiterAddr().String()), cq.VS(string(op.Msg.B[0])), cq.VS(string(op.Msg.B[1])),
				cq.VS(string(op.Msg.B[2])), cq.VS(string(op.Msg.B[3])))
			ok := len(obs.Trace) == 1 && cq.VL(obs.Trace[0].V().Items()[:6]...).Equal(want)
			if !ok {
				fs = append(fs, o.fail("replace-request", "the deposit replacement did not reach CCTP with exactly the message's fields and the orbiter account as owner", desc))
			}
		}
		if obs.MsgOK {
			o.applyMsg(op.Msg)
		}
	case "query":
		fs = append(fs, o.checkQuery(op, obs, desc)...)
	}
	fs = append(fs, o.checkState(op, info, obs, desc)...)
	return fs
}

func denotesAuthority(s string) bool {
	a, err := sdk.AccAddressFromBech32(s)
	if err != nil {
		return false
	}
	b, _ := sdk.AccAddressFromBech32(sim.Authority)
	return a.Equals(b)
}

// checkMoves: C02 (conservation), C04 (fees), C05 (request), C16 (coin) on a successful orbiter transfer,
// recomputed from the packet and the payload the harness built.
func (o *oracle) checkMoves(op world.Op, info pktInfo, obs world.OpObs, desc string) []Failure {
	var fs []Failure
	if !obs.Recv.Success || !world.IsOrbiterFlow(op.Pkt) || info.spec == nil || op.Lie != 0 || info.spec.swap {
		return nil
	}
	nd := len(o.wr.w.Denoms)
	d := -1
	for i, dn := range o.wr.w.Denoms {
		if dn == info.denom {
			d = i
		}
	}
	if d < 0 {
		fs = append(fs, o.fail("accepted-foreign-denom", "a packet whose token is not a returning Noble-native denomination was processed", desc))
		return fs
	}
	// C16: the coin handed to the route is the coin ICS-20 credited (no denomination-changing action here)
	for _, c := range obs.Trace {
		got := ""
		switch c.Kind {
		case "cctp":
			got = c.Args[4].Str()
		case "hyptransfer":
			for dn, id := range o.wr.w.S.HypTokens {
				if id == c.Args[1].Str() {
					got = dn
				}
			}
		case "banksend":
			if items := c.Args[2].Items(); len(items) == 1 {
				got = items[0].Items()[0].Str()
			}
		default:
			continue
		}
		if got != info.denom {
			fs = append(fs, o.fail("forwarded-coin-differs", fmt.Sprintf("ICS-20 credited %s but the route was asked to take %q", info.denom, got), desc))
		}
	}
	A := info.amount
	// expected deltas per tracked account
	exp := make([]*big.Int, len(o.wr.w.Accts))
	for i := range exp {
		exp[i] = new(big.Int)
	}
	idx := map[string]int{}
	for i, a := range o.wr.w.Accts {
		idx[world.Hex(a.Addr)] = i
	}
	esc := 2
	if info.dstChan == "channel-1" {
		esc = 3
	}
	exp[esc].Sub(exp[esc], A)
	prior := o.bal(obs.Before, 0, d)
	exp[0].Sub(exp[0], prior)
	exp[1].Add(exp[1], prior)
	out := new(big.Int).Set(A)
	untracked := false
	if len(info.spec.fees) == 1 && info.spec.rawMem == nil {
		want := feeExpect(A, info.spec.fees[0])
		if want.refused {
			fs = append(fs, o.fail("fee-accepted-invalid", "a transfer whose fee list must be refused succeeded", desc))
			return fs
		}
		for _, c := range want.credits {
			amt, _ := new(big.Int).SetString(c[1], 10)
			if i, ok := idx[c[0]]; ok {
				exp[i].Add(exp[i], amt)
			} else {
				untracked = true
			}
			out.Sub(out, amt)
		}
	}
	if out.Sign() <= 0 {
		fs = append(fs, o.fail("nonpositive-out", "successful transfer forwards a non-positive amount", desc))
	}
	supplyExp := new(big.Int)
	// the bridge request
	var bridge *world.Call
	for i := range obs.Trace {
		c := &obs.Trace[i]
		if c.Kind == "cctp" || c.Kind == "hyptransfer" || c.Kind == "banksend" {
			bridge = c
		}
	}
	f := info.spec.fwd
	orb := sim.OrbiterAddr().String()
	var wantReq cq.V
	switch f.kind {
	case "cctp":
		supplyExp.Sub(supplyExp, out)
		caller := cq.VNone()
		if len(f.caller) > 0 {
			caller = cq.VSome(cq.VS(string(f.caller)))
		}
		wantReq = cq.VL(cq.VS("cctp"), cq.VS(orb), cq.VBig(out), cq.VU(uint64(f.domain)), cq.VS(string(f.recipient)), cq.VS(info.denom), caller, cq.VB(true))
	case "hyp":
		exp[4].Add(exp[4], out)
		hook := cq.VNone()
		if len(f.hook) > 0 {
			hook = cq.VSome(cq.VS(string(f.hook)))
		}
		wantReq = cq.VL(cq.VS("hyptransfer"), cq.VS(orb), cq.VS(string(f.token)), cq.VU(uint64(f.domain)), cq.VS(string(f.recipient)), cq.VBig(out), hook,
			cq.VBig(f.gas), cq.VS(f.feeDenom), cq.VBig(f.feeAmt), cq.VS(f.metadata), cq.VB(true))
	case "internal":
		to, err := sdk.AccAddressFromBech32(f.to)
		if err == nil {
			if i, ok := idx[world.Hex(to)]; ok {
				exp[i].Add(exp[i], out)
			} else {
				untracked = true
			}
		}
		wantReq = cq.VL(cq.VS("banksend"), cq.VS(orb), cq.VS(f.to), cq.VL(cq.VL(cq.VS(info.denom), cq.VBig(out))), cq.VB(true))
	}
	wantPid := map[string]int32{"cctp": 2, "hyp": 3, "internal": 4}[f.kind]
	if f.pid != wantPid {
		fs = append(fs, o.fail("mismatched-route-accepted", fmt.Sprintf("payload with protocol id %d and %s attributes was executed", f.pid, f.kind), desc))
	}
	if bridge == nil {
		return fs
	}
	// C16: the amount handed to the route is the credited amount less the fees (no amount-changing action here)
	{
		var gotAmt *big.Int
		switch bridge.Kind {
		case "cctp":
			gotAmt = bridge.Args[1].Big()
		case "hyptransfer":
			gotAmt = bridge.Args[4].Big()
		case "banksend":
			if items := bridge.Args[2].Items(); len(items) == 1 && len(items[0].Items()) == 2 {
				gotAmt = items[0].Items()[1].Big()
			}
		}
		if gotAmt != nil && gotAmt.Cmp(out) != 0 {
			fs = append(fs, o.fail("forwarded-amount-differs", fmt.Sprintf("ICS-20 credited %s and the fees took %s, but the route was asked to take %s", A, new(big.Int).Sub(A, out), gotAmt), desc))
		}
	}
	if !bridge.V().Equal(wantReq) {
		fs = append(fs, o.fail("bridge-request", fmt.Sprintf("the bridge request %v differs from the payload's parameters and the post-action coin %v", bridge.V().JSON(), wantReq.JSON()), desc))
	}
	if !untracked {
		for i := range exp {
			got := new(big.Int).Sub(o.bal(obs.After, i, d), o.bal(obs.Before, i, d))
			if got.Cmp(exp[i]) != 0 {
				fs = append(fs, o.fail("ledger-delta", fmt.Sprintf("balance of %s changed by %s %s, expected %s", o.wr.w.Accts[i].Name, got, info.denom, exp[i]), desc))
			}
		}
		gotSup := new(big.Int).Sub(obs.After.Supply[d], obs.Before.Supply[d])
		if gotSup.Cmp(supplyExp) != 0 {
			fs = append(fs, o.fail("supply-delta", fmt.Sprintf("supply of %s changed by %s, expected %s", info.denom, gotSup, supplyExp), desc))
		}
	}
	// other denominations: no tracked account changes (whoever the fee recipients are)
	for od := 0; od < nd; od++ {
		if od == d {
			continue
		}
		for i := range exp {
			if o.bal(obs.After, i, od).Cmp(o.bal(obs.Before, i, od)) != 0 {
				f := o.fail("other-denom-touched", fmt.Sprintf("balance of %s in %s changed", o.wr.w.Accts[i].Name, o.wr.w.Denoms[od]), desc)
				f.Case["account"] = o.wr.w.Accts[i].Name
				fs = append(fs, f)
			}
		}
	}
	_ = math.ZeroInt
	return fs
}

// ---------------------------------------------------------------------------------------------
// the abstract state the harness keeps from observed outcomes (C08, C09, C12, C18)
// ---------------------------------------------------------------------------------------------

var protoNumber = map[string]int{"PROTOCOL_IBC": 1, "PROTOCOL_CCTP": 2, "PROTOCOL_HYPERLANE": 3, "PROTOCOL_INTERNAL": 4}
var actionNumber = map[string]int{"ACTION_FEE": 1, "ACTION_SWAP": 2}

func (o *oracle) applyMsg(m world.Msg) {
	switch m.Kind {
	case "PauseProtocol":
		o.pausedProto[m.ID] = true
	case "UnpauseProtocol":
		delete(o.pausedProto, m.ID)
	case "PauseCrossChains":
		if len(m.IDs) == 0 {
			o.pausedProto[m.ID] = true
		}
		for _, c := range m.IDs {
			o.pausedCC[m.ID+"|"+c] = true
		}
	case "UnpauseCrossChains":
		if len(m.IDs) == 0 {
			delete(o.pausedProto, m.ID)
		}
		for _, c := range m.IDs {
			delete(o.pausedCC, m.ID+"|"+c)
		}
	case "PauseAction":
		o.pausedAct[m.ID] = true
	case "UnpauseAction":
		delete(o.pausedAct, m.ID)
	case "UpdateParams":
		o.limit = m.Max
	}
}

// mustSucceed: the message, signed by the authority, has valid content for the abstract state.
func (o *oracle) mustSucceed(m world.Msg) bool {
	canon := func(pid int, c string) bool {
		switch pid {
		case 2, 3:
			n, err := strconv.ParseUint(c, 10, 32)
			return err == nil && strconv.FormatUint(n, 10) == c
		case 4:
			return c != "" && len(c) <= 32 && !strings.Contains(c, "\x00") && utf8.ValidString(c)
		case 1:
			return channeltypes.IsValidChannelID(c) && len(c) <= 32
		}
		return false
	}
	switch m.Kind {
	case "PauseProtocol":
		_, ok := protoNumber[m.ID]
		return ok && !o.pausedProto[m.ID]
	case "UnpauseProtocol":
		_, ok := protoNumber[m.ID]
		return ok && o.pausedProto[m.ID]
	case "PauseCrossChains", "UnpauseCrossChains":
		pid, ok := protoNumber[m.ID]
		if !ok || len(m.IDs) > 100 {
			return false
		}
		pausing := m.Kind == "PauseCrossChains"
		if len(m.IDs) == 0 {
			return o.pausedProto[m.ID] != pausing
		}
		seen := map[string]bool{}
		for _, c := range m.IDs {
			if !canon(pid, c) || seen[c] || o.pausedCC[m.ID+"|"+c] == pausing {
				return false
			}
			seen[c] = true
		}
		return true
	case "PauseAction":
		_, ok := actionNumber[m.ID]
		return ok && !o.pausedAct[m.ID]
	case "UnpauseAction":
		_, ok := actionNumber[m.ID]
		return ok && o.pausedAct[m.ID]
	case "UpdateParams":
		return true
	}
	return false
}

// destination of a payload the harness built
func destOf(f fwdSpec) (proto string, cp string) {
	switch f.kind {
	case "cctp":
		return "PROTOCOL_CCTP", fmt.Sprint(f.domain)
	case "hyp":
		return "PROTOCOL_HYPERLANE", fmt.Sprint(f.domain)
	}
	return "PROTOCOL_INTERNAL", "noble"
}

// checkGates: C08 / C09 / C18 on a packet addressed to the orbiter whose payload the harness built.
func (o *oracle) checkGates(op world.Op, info pktInfo, obs world.OpObs, desc string) []Failure {
	var fs []Failure
	if !world.IsOrbiterFlow(op.Pkt) || info.spec == nil || info.spec.rawMem != nil || info.spec.noFwd || len(op.Plan) > 0 || op.Lie != 0 {
		return nil
	}
	f := info.spec.fwd
	proto, cp := destOf(f)
	wantPid := map[string]int32{"cctp": 2, "hyp": 3, "internal": 4}[f.kind]
	destPaused := f.pid == wantPid && (o.pausedProto[proto] || o.pausedCC[proto+"|"+cp])
	hasFee := len(info.spec.fees) > 0
	actPaused := hasFee && o.pausedAct["ACTION_FEE"]
	over := uint64(len(f.pass)) > uint64(o.limit)
	if obs.Recv.Success {
		if destPaused {
			fs = append(fs, o.fail("paused-destination-forwarded", fmt.Sprintf("a transfer to the paused destination (%s, %s) was executed", proto, cp), desc))
		}
		if actPaused {
			fs = append(fs, o.fail("paused-action-executed", "a payload containing the paused action ACTION_FEE was executed", desc))
		}
		if over {
			fs = append(fs, o.fail("passthrough-over-limit-accepted", fmt.Sprintf("a passthrough payload of %d bytes was accepted with limit %d in force", len(f.pass), o.limit), desc))
		}
	} else {
		if over && len(obs.Trace) > 0 {
			fs = append(fs, o.fail("passthrough-checked-late", "an oversize passthrough payload was refused only after external calls had been made", desc))
		}
		if info.expectOK && !over && !destPaused && !actPaused {
			sig := "unpaused-destination-refused"
			switch o.prop {
			case "C09":
				sig = "unpaused-action-refused"
			case "C18":
				sig = "passthrough-within-limit-refused"
			case "C04":
				sig = "fee-refused-valid"
			}
			fs = append(fs, o.fail(sig, fmt.Sprintf("a valid transfer to the unpaused destination (%s, %s) with %d passthrough bytes (limit %d) was refused", proto, cp, len(f.pass), o.limit), desc))
		}
	}
	return fs
}

// checkState: after every operation the exported module state equals the abstract one (C08, C09, C12, C18).
func (o *oracle) checkState(op world.Op, info pktInfo, obs world.OpObs, desc string) []Failure {
	var fs []Failure
	st := obs.After.State
	// statistics: fold of the successful orbiter transfers
	if op.Kind == "recv" && obs.Recv.Success && world.IsOrbiterFlow(op.Pkt) && info.denom != "" {
		var out *big.Int
		var proto, cp string
		for _, c := range obs.Trace {
			switch c.Kind {
			case "cctp":
				out, proto, cp = c.Args[1].Big(), "2", c.Args[2].Big().String()
			case "hyptransfer":
				out, proto, cp = c.Args[4].Big(), "3", c.Args[2].Big().String()
			case "banksend":
				out, proto, cp = c.Args[2].Items()[0].Items()[1].Big(), "4", "noble"
			}
		}
		if out != nil && op.Lie == 0 {
			add := func(denom string, in, ou *big.Int) {
				k := "1|" + op.Pkt.DstChan + "|" + proto + ":" + cp + "|" + denom
				cur := o.amounts[k]
				if cur[0] == nil {
					cur = [2]*big.Int{new(big.Int), new(big.Int)}
				}
				ni, no := new(big.Int).Add(cur[0], in), new(big.Int).Add(cur[1], ou)
				if ni.Cmp(two256) >= 0 || no.Cmp(two256) >= 0 {
					// a total that leaves the 256-bit range: the module keeps the old figures (and says so in its log);
					// the harness stops judging the statistics of this history (the model still does, exactly)
					o.statsUnknown = true
					return
				}
				o.amounts[k] = [2]*big.Int{ni, no}
			}
			finalDenom := info.denom
			if info.spec != nil {
				// a successful transfer carries at most one swap action (repeated identifiers do not validate)
				swaps := info.spec.swap
				for _, x := range info.spec.extra {
					if x.id == int32(core.ACTION_SWAP) {
						swaps = true
					}
				}
				if swaps && !info.spec.swapTwice {
					finalDenom, _ = otherDenom(info.denom)
				}
			}
			if finalDenom == info.denom {
				add(info.denom, info.amount, out)
			} else { // a denomination-changing action: two entries
				add(info.denom, info.amount, new(big.Int))
				add(finalDenom, new(big.Int), out)
			}
			if ck := "1|" + op.Pkt.DstChan + "|" + proto + "|" + cp; o.counts[ck] == ^uint64(0) {
				o.statsUnknown = true // a counter at the end of its range stays where it is
			} else {
				o.counts[ck]++
			}
		} else if out != nil {
			o.statsUnknown = true
		}
	}
	if !o.statsUnknown {
		got := map[string][2]string{}
		for _, a := range st.Amounts {
			got[a[0]+"|"+a[1]+"|"+a[2]+"|"+a[3]] = [2]string{a[4], a[5]}
		}
		bad := len(got) != len(o.amounts)
		for k, v := range o.amounts {
			if g, ok := got[k]; !ok || g[0] != v[0].String() || g[1] != v[1].String() {
				bad = true
			}
		}
		gotc := map[string]string{}
		for _, c := range st.Counts {
			gotc[c[0]+"|"+c[1]+"|"+c[2]+"|"+c[3]] = c[4]
		}
		if len(gotc) != len(o.counts) {
			bad = true
		}
		for k, v := range o.counts {
			if gotc[k] != fmt.Sprint(v) {
				bad = true
			}
		}
		if bad {
			sig := "stats-fold"
			if !(op.Kind == "recv" && obs.Recv.Success) {
				sig = "stats-changed-by-non-transfer"
			}
			fs = append(fs, o.fail(sig, fmt.Sprintf("dispatch statistics %v / %v differ from the accumulation of the successful transfers %v / %v", st.Amounts, st.Counts, fmtAmounts(o.amounts), o.counts), desc))
			o.statsUnknown = true
		}
	}
	// pause sets and the limit
	var wantP []string
	for name := range o.pausedProto {
		wantP = append(wantP, fmt.Sprint(protoNumber[name]))
	}
	var gotP []string
	for _, p := range st.Protos {
		gotP = append(gotP, fmt.Sprint(p))
	}
	var wantC, gotC []string
	for k := range o.pausedCC {
		parts := strings.SplitN(k, "|", 2)
		wantC = append(wantC, fmt.Sprint(protoNumber[parts[0]])+"|"+parts[1])
	}
	for _, c := range st.CC {
		gotC = append(gotC, c[0]+"|"+c[1])
	}
	var wantA, gotA []string
	for name := range o.pausedAct {
		wantA = append(wantA, fmt.Sprint(actionNumber[name]))
	}
	for _, a := range st.Actions {
		gotA = append(gotA, fmt.Sprint(a))
	}
	sort.Strings(wantP)
	sort.Strings(gotP)
	sort.Strings(wantC)
	sort.Strings(gotC)
	sort.Strings(wantA)
	sort.Strings(gotA)
	if !o.setsReported {
		if fmt.Sprint(wantP) != fmt.Sprint(gotP) || fmt.Sprint(wantC) != fmt.Sprint(gotC) {
			fs = append(fs, o.fail("pause-sets", fmt.Sprintf("paused protocols %v / cross-chains %v differ from the sets the successful messages define: %v / %v", gotP, gotC, wantP, wantC), desc))
			o.setsReported = true
		}
		if fmt.Sprint(wantA) != fmt.Sprint(gotA) {
			fs = append(fs, o.fail("action-set", fmt.Sprintf("paused actions %v differ from the set the successful messages define: %v", gotA, wantA), desc))
			o.setsReported = true
		}
		if int64(o.limit) != st.Max {
			fs = append(fs, o.fail("limit-not-in-force", fmt.Sprintf("max passthrough payload size in state is %d, the value most recently set is %d", st.Max, o.limit), desc))
			o.setsReported = true
		}
	}
	return fs
}

func fmtAmounts(m map[string][2]*big.Int) string {
	var ks []string
	for k := range m {
		ks = append(ks, k)
	}
	sort.Strings(ks)
	var b strings.Builder
	for _, k := range ks {
		fmt.Fprintf(&b, "[%s %s %s]", k, m[k][0], m[k][1])
	}
	return b.String()
}

// checkQuery: the pause / parameter queries report exactly the abstract sets.
func (o *oracle) checkQuery(op world.Op, obs world.OpObs, desc string) []Failure {
	var fs []Failure
	q := op.Q
	bad := func(sig, what string) { fs = append(fs, o.fail(sig, what, desc)) }
	switch q.Kind {
	case "IsProtocolPaused":
		if _, ok := protoNumber[q.ID]; ok {
			if obs.QueryE || !obs.QueryV.Equal(cq.VB(o.pausedProto[q.ID])) {
				bad("pause-query", fmt.Sprintf("IsProtocolPaused(%s) answers %v, the set says %v", q.ID, obs.QueryV.JSON(), o.pausedProto[q.ID]))
			}
		}
	case "IsCrossChainPaused":
		if _, ok := protoNumber[q.ID]; ok && !obs.QueryE {
			if !obs.QueryV.Equal(cq.VB(o.pausedCC[q.ID+"|"+q.CP])) {
				bad("pause-query", fmt.Sprintf("IsCrossChainPaused(%s,%s) answers %v, the set says %v", q.ID, q.CP, obs.QueryV.JSON(), o.pausedCC[q.ID+"|"+q.CP]))
			}
		}
	case "PausedCrossChains":
		if _, ok := protoNumber[q.ID]; ok && !obs.QueryE {
			var want []string
			for k := range o.pausedCC {
				parts := strings.SplitN(k, "|", 2)
				if parts[0] == q.ID {
					want = append(want, parts[1])
				}
			}
			sort.Strings(want)
			if !obs.QueryV.Equal(cq.VStrs(want)) {
				bad("pause-query", fmt.Sprintf("PausedCrossChains(%s) answers %v, the set is %v", q.ID, obs.QueryV.JSON(), want))
			}
		}
	case "PausedProtocols":
		var want []int
		for name := range o.pausedProto {
			want = append(want, protoNumber[name])
		}
		sort.Ints(want)
		l := make([]cq.V, len(want))
		for i, x := range want {
			l[i] = cq.VZ(int64(x))
		}
		if obs.QueryE || !obs.QueryV.Equal(cq.VL(l...)) {
			bad("pause-query", fmt.Sprintf("PausedProtocols answers %v, the set is %v", obs.QueryV.JSON(), want))
		}
	case "IsActionPaused":
		if _, ok := actionNumber[q.ID]; ok {
			if obs.QueryE || !obs.QueryV.Equal(cq.VB(o.pausedAct[q.ID])) {
				bad("action-query", fmt.Sprintf("IsActionPaused(%s) answers %v, the set says %v", q.ID, obs.QueryV.JSON(), o.pausedAct[q.ID]))
			}
		}
	case "PausedActions":
		var want []int
		for name := range o.pausedAct {
			want = append(want, actionNumber[name])
		}
		sort.Ints(want)
		l := make([]cq.V, len(want))
		for i, x := range want {
			l[i] = cq.VZ(int64(x))
		}
		if obs.QueryE || !obs.QueryV.Equal(cq.VL(l...)) {
			bad("action-query", fmt.Sprintf("PausedActions answers %v, the set is %v", obs.QueryV.JSON(), want))
		}
	case "Params":
		if obs.QueryE || !obs.QueryV.Equal(cq.VZ(int64(o.limit))) {
			bad("limit-not-in-force", fmt.Sprintf("Params answers %v, the value most recently set is %d", obs.QueryV.JSON(), o.limit))
		}
	}
	return fs
}

// checkPrior: C11 — the same packet on the same state with an emptied orbiter account.
func (o *oracle) checkPrior(op world.Op, info pktInfo, obs world.OpObs, desc string) []Failure {
	var fs []Failure
	if obs.Twin == nil || len(op.Plan) > 0 || op.Lie != 0 {
		return nil
	}
	tw := obs.Twin
	nd := len(o.wr.w.Denoms)
	hadPrior := false
	for d := 0; d < nd; d++ {
		if o.bal(obs.Before, 0, d).Sign() > 0 {
			hadPrior = true
		}
	}
	if !hadPrior {
		return nil
	}
	strip := func(tr []world.Call) string {
		var parts []string
		for _, c := range tr {
			if c.Kind == "sweep" {
				continue
			}
			parts = append(parts, c.String())
		}
		return strings.Join(parts, " | ")
	}
	if tw.Class != obs.Recv.Class || strip(tw.Trace) != strip(obs.Trace) || string(tw.Ack) != string(obs.Recv.Ack) {
		fs = append(fs, o.fail("prior-balance-changes-outcome", fmt.Sprintf("with an emptied orbiter account the same packet gives class %d ack %q calls [%s]; with the prior balance class %d calls [%s]",
			tw.Class, tw.Ack, strip(tw.Trace), obs.Recv.Class, strip(obs.Trace)), desc))
		return fs
	}
	if !tw.StateAfter.V().Equal(obs.Recv.After.State.V()) {
		fs = append(fs, o.fail("prior-balance-changes-outcome", "with an emptied orbiter account the same packet leaves different statistics / module state", desc))
	}
	if obs.Recv.Success && world.IsOrbiterFlow(op.Pkt) && info.denom != "" {
		for d := 0; d < nd; d++ {
			prior := o.bal(obs.Before, 0, d)
			if o.wr.w.Denoms[d] == info.denom {
				got := new(big.Int).Sub(o.bal(obs.After, 1, d), o.bal(obs.Before, 1, d))
				if got.Cmp(prior) != 0 || o.bal(obs.After, 0, d).Sign() != 0 {
					fs = append(fs, o.fail("prior-balance-not-swept", fmt.Sprintf("the %s %s that were on the orbiter account did not all end on the dust collector (dust collector +%s, orbiter keeps %s)",
						prior, info.denom, got, o.bal(obs.After, 0, d)), desc))
				}
			} else if o.bal(obs.After, 0, d).Cmp(prior) != 0 {
				fs = append(fs, o.fail("prior-balance-other-denom-moved", fmt.Sprintf("the orbiter balance in %s (not the transferred denomination) changed from %s to %s",
					o.wr.w.Denoms[d], prior, o.bal(obs.After, 0, d)), desc))
			}
		}
	}
	return fs
}

// checkOrder: C06 — the actions ran in payload order, each on the coin its predecessor left, and the
// route got the coin the last action left.  Expected values are recomputed from the payload alone.
func (o *oracle) checkOrder(op world.Op, info pktInfo, obs world.OpObs, desc string) []Failure {
	var fs []Failure
	if !world.IsOrbiterFlow(op.Pkt) || info.spec == nil || info.spec.rawMem != nil || len(op.Plan) > 0 || op.Lie != 0 || info.denom == "" {
		return nil
	}
	sp := info.spec
	if !sp.swap && len(sp.fees) == 0 {
		return nil
	}
	// the sequence of actions as listed
	type act struct {
		swap bool
		fees []feeEntry
	}
	var seq []act
	if sp.swap && sp.swapFirst {
		seq = append(seq, act{swap: true})
	}
	for _, fl := range sp.fees {
		seq = append(seq, act{fees: fl})
	}
	if sp.swap && !sp.swapFirst {
		seq = append(seq, act{swap: true})
	}
	if sp.swap && sp.swapTwice {
		seq = append(seq, act{swap: true})
	}
	repeated := len(sp.fees) > 1 || (sp.swap && sp.swapTwice)
	if repeated {
		if obs.Recv.Success {
			fs = append(fs, o.fail("repeated-action-accepted", "a payload repeating an action identifier was executed", desc))
		}
		return fs
	}
	if len(sp.extra) > 0 {
		return nil
	}
	if !obs.Recv.Success {
		// every action valid on the coin it is given, route fine for the coin the last one leaves: must succeed
		if !info.swapRouteOK || o.pausedAct["ACTION_FEE"] || o.pausedAct["ACTION_SWAP"] || uint64(len(sp.fwd.pass)) > uint64(o.limit) {
			return nil
		}
		proto, cp := destOf(sp.fwd)
		if o.pausedProto[proto] || o.pausedCC[proto+"|"+cp] {
			return nil
		}
		// only the transferred denomination is swept: coins of the swap's target denomination already
		// on the orbiter account trip the forwarder's exact-balance check (DESIGN §7 C11, noted limitation)
		if sp.swap {
			fd, _ := otherDenom(info.denom)
			for di, dn := range o.wr.w.Denoms {
				if dn == fd && o.bal(obs.Before, 0, di).Sign() != 0 {
					return nil
				}
			}
		}
		cur := new(big.Int).Set(info.amount)
		for _, a := range seq {
			if a.swap {
				cur.Add(cur, big.NewInt(1))
				cur.Div(cur, big.NewInt(2))
				continue
			}
			exp := feeExpect(cur, a.fees)
			if exp.refused {
				return nil
			}
			cur = exp.fwd
		}
		if cur.Sign() > 0 {
			fs = append(fs, o.fail("ordered-payload-refused", "a payload whose actions are all valid on the coin they are given, with a route that takes the last coin, was refused", desc))
		}
		return fs
	}
	// expected sends, in order, and the final coin
	var want []string
	denom, amt := info.denom, new(big.Int).Set(info.amount)
	orb, pool := world.Hex(sim.OrbiterAddr()), world.Hex(PoolAddr())
	for _, a := range seq {
		if a.swap {
			d2, _ := otherDenom(denom)
			out := new(big.Int).Add(amt, big.NewInt(1))
			out.Div(out, big.NewInt(2))
			if new(big.Int).Mod(amt, big.NewInt(3)).Sign() == 0 {
				out = new(big.Int).Set(amt) // at par
			}
			want = append(want, fmt.Sprintf("%s>%s %s%s", orb, pool, amt, denom), fmt.Sprintf("%s>%s %s%s", pool, orb, out, d2))
			denom, amt = d2, out
			continue
		}
		exp := feeExpect(amt, a.fees)
		if exp.refused {
			fs = append(fs, o.fail("action-order", "a fee list that must be refused on the running amount was executed", desc))
			return fs
		}
		for _, c := range exp.credits {
			want = append(want, fmt.Sprintf("%s>%s %s%s", orb, c[0], c[1], denom))
		}
		amt = exp.fwd
	}
	var got []string
	var bridgeAmt *big.Int
	bridgeDenom := ""
	for _, c := range obs.Trace {
		switch c.Kind {
		case "feesend":
			coin := c.Args[2].Items()[0].Items()
			got = append(got, fmt.Sprintf("%s>%s %s%s", c.Args[0].Str(), c.Args[1].Str(), coin[1].Big(), coin[0].Str()))
		case "cctp":
			bridgeAmt, bridgeDenom = c.Args[1].Big(), c.Args[4].Str()
		case "hyptransfer":
			bridgeAmt, bridgeDenom = c.Args[4].Big(), denomOfToken(o.wr, c.Args[1].Str())
		case "banksend":
			coin := c.Args[2].Items()[0].Items()
			bridgeAmt, bridgeDenom = coin[1].Big(), coin[0].Str()
		}
	}
	if strings.Join(got, " | ") != strings.Join(want, " | ") {
		fs = append(fs, o.fail("action-order", fmt.Sprintf("the actions moved [%s]; in payload order on the running coin they must move [%s]", strings.Join(got, " | "), strings.Join(want, " | ")), desc))
	}
	if bridgeAmt == nil || bridgeAmt.Cmp(amt) != 0 || bridgeDenom != denom {
		fs = append(fs, o.fail("final-coin", fmt.Sprintf("the route was given %v %s, the last action left %s %s", bridgeAmt, bridgeDenom, amt, denom), desc))
	}
	return fs
}

func denomOfToken(wr *worldRunner, raw string) string {
	for d, t := range wr.w.S.HypTokens {
		if t == raw {
			return d
		}
	}
	return "?"
}

func clip(s string, n int) string {
	if len(s) > n {
		return s[:n] + "...\n"
	}
	return s
}

// clipMemo shortens a very long memo in descriptions (its length is kept).
func clipMemo(m string) string {
	if len(m) > 3000 {
		return fmt.Sprintf("%s...(%d bytes in all)", m[:200], len(m))
	}
	return m
}

// oddWire rewrites the packet data as another JSON text. The first kinds are other writings of the SAME ICS-20 data
// (escaped characters in a value or a key, reordered keys, white space): every JSON decoder reads the same fields, the
// packet stays what it was. The last kinds are NOT ICS-20 data for ibc-go's strict decoder (an extra key, a key in
// another case, a number where a string is expected), whatever a lenient decoder would make of them: the packet
// becomes a raw one.
func oddWire(r *rng.R, p *world.Packet) string {
	ics := *p.ICS
	q := func(s string) string { b, _ := json.Marshal(s); return string(b) }
	esc := func(s string) string { // the i-th character written as \uXXXX
		if s == "" {
			return q(s)
		}
		rs := []rune(s)
		i := r.Intn(len(rs))
		if rs[i] > 0xffff {
			return q(s)
		}
		head, tail := q(string(rs[:i])), q(string(rs[i+1:]))
		return head[:len(head)-1] + fmt.Sprintf("\\u%04x", rs[i]) + tail[1:]
	}
	fields := [][2]string{{"denom", q(ics.Denom)}, {"amount", q(ics.Amount)}, {"sender", q(ics.Sender)}, {"receiver", q(ics.Receiver)}, {"memo", q(ics.Memo)}}
	render := func(sep string) []byte {
		parts := make([]string, len(fields))
		for i, f := range fields {
			k := f[0]
			if !strings.HasPrefix(k, "\"") {
				k = q(k)
			}
			parts[i] = k + ":" + sep + f[1]
		}
		return []byte("{" + sep + strings.Join(parts, ","+sep) + sep + "}")
	}
	kind := r.Intn(8)
	if kind >= 4 && kind <= 6 && r.Chance(50) {
		// data the ICS-20 decoder refuses is not the orbiter's whatever its memo says: any memo
		fields[4][1] = q(rng.Pick(r, []string{"", "hello", `{"forward":{"receiver":"x"}}`, `{"orbiter":{}}`, `{"orbiter":null}`}))
	}
	switch kind {
	case 0:
		fields[3][1] = esc(ics.Receiver)
		p.Raw = render("")
		return "wire-escaped-receiver"
	case 1:
		i := r.Intn(len(fields))
		fields[i][1] = esc([]string{ics.Denom, ics.Amount, ics.Sender, ics.Receiver, ics.Memo}[i])
		p.Raw = render("")
		return "wire-escaped-value"
	case 2:
		i := r.Intn(len(fields))
		fields[i][0] = esc(fields[i][0])
		p.Raw = render("")
		return "wire-escaped-key"
	case 3:
		for i := len(fields) - 1; i > 0; i-- {
			j := r.Intn(i + 1)
			fields[i], fields[j] = fields[j], fields[i]
		}
		p.Raw = render(rng.Pick(r, []string{"", " ", "\n\t"}))
		return "wire-reordered"
	case 4:
		fields = append(fields, [2]string{rng.Pick(r, []string{"fee", "forward", "Memo2", ""}), rng.Pick(r, []string{`"1"`, "null", "{}", "[1]"})})
		p.Raw, p.ICS = render(""), nil
		return "wire-extra-key"
	case 5:
		i := r.Intn(len(fields))
		fields[i][0] = rng.Pick(r, []string{strings.ToUpper(fields[i][0]), strings.Title(fields[i][0])})
		p.Raw, p.ICS = render(""), nil
		return "wire-key-case"
	case 6:
		fields[1][1] = rng.Pick(r, []string{"5", "5.0", "null", "true"})
		p.Raw, p.ICS = render(""), nil
		return "wire-amount-not-a-string"
	default:
		fields = append(fields[:2], fields[3:]...) // no sender
		p.Raw = render("")
		ics.Sender = ""
		p.ICS = &ics
		return "wire-missing-sender"
	}
}

// nearFullStats writes dispatched amounts a few thousand units below 2^256-1 for some of the routes the histories use.
func (wr *worldRunner) nearFullStats(ctx sdk.Context, r *rng.R) {
	d := wr.w.S.App.OrbiterKeeper.Dispatcher()
	max := new(big.Int).Sub(two256, big.NewInt(1))
	for k := 1 + r.Intn(3); k > 0; k-- {
		src := &core.CrossChainID{ProtocolId: core.PROTOCOL_IBC, CounterpartyId: rng.Pick(r, dstChans)}
		dst := rng.Pick(r, []*core.CrossChainID{{ProtocolId: core.PROTOCOL_CCTP, CounterpartyId: "0"}, {ProtocolId: core.PROTOCOL_CCTP, CounterpartyId: "1"},
			{ProtocolId: core.PROTOCOL_CCTP, CounterpartyId: "2"}, {ProtocolId: core.PROTOCOL_HYPERLANE, CounterpartyId: "1"}, {ProtocolId: core.PROTOCOL_INTERNAL, CounterpartyId: "noble"}})
		in := new(big.Int).Sub(max, big.NewInt(int64(r.Intn(3000))))
		out := new(big.Int).Sub(max, big.NewInt(int64(r.Intn(3000))))
		if r.Chance(40) {
			out = big.NewInt(int64(r.Intn(1000)))
		}
		if r.Chance(60) {
			_ = d.SetDispatchedAmount(ctx, src, dst, rng.Pick(r, wr.w.Denoms),
				dispatchertypes.AmountDispatched{Incoming: math.NewIntFromBigInt(in), Outgoing: math.NewIntFromBigInt(out)})
		}
		if r.Chance(50) {
			// ... or the route's counter is at the end of its 64 bits
			_ = d.SetDispatchedCounts(ctx, src, dst, ^uint64(0)-uint64(r.Intn(2)))
		}
	}
}

// manyRoutes records statistics for more routes than one page of a listing holds (100).
func (wr *worldRunner) manyRoutes(ctx sdk.Context, r *rng.R) {
	d := wr.w.S.App.OrbiterKeeper.Dispatcher()
	n := 101 + r.Intn(40)
	src := &core.CrossChainID{ProtocolId: core.PROTOCOL_IBC, CounterpartyId: rng.Pick(r, dstChans)}
	for k := 0; k < n; k++ {
		dst := &core.CrossChainID{ProtocolId: rng.Pick(r, []core.ProtocolID{core.PROTOCOL_CCTP, core.PROTOCOL_HYPERLANE}), CounterpartyId: fmt.Sprint(1000 + k)}
		_ = d.SetDispatchedAmount(ctx, src, dst, sim.USDC, dispatchertypes.AmountDispatched{Incoming: math.NewInt(int64(k + 2)), Outgoing: math.NewInt(int64(k + 1))})
		_ = d.SetDispatchedCounts(ctx, src, dst, uint64(k+1))
	}
}

// syntheticTokenProbe: "locked as Hyperlane collateral ... total supply changes only by the CCTP burn" rests on the
// chain allowing collateral Warp tokens only (a synthetic token's coins are BURNED by a remote transfer). The probe asks
// the chain for a synthetic token; when the chain creates it, it sends that token's coins out and back through the
// orbiter with a Hyperlane forwarding and looks at the supply.
func syntheticTokenProbe(wr *worldRunner) []Failure {
	s := wr.w.S
	ctx := wr.caseCtx()
	run := func(msg sdk.Msg) (*sdk.Result, error) {
		cctx, write := ctx.CacheContext()
		r, err := s.App.MsgServiceRouter().Handler(msg)(cctx, msg)
		if err == nil {
			write()
		}
		return r, err
	}
	r, err := run(&warptypes.MsgCreateSyntheticToken{Owner: sim.Authority, OriginMailbox: s.Mailbox})
	if err != nil {
		return nil // the chain has no synthetic tokens: nothing to probe
	}
	var resp warptypes.MsgCreateSyntheticTokenResponse
	if len(r.MsgResponses) != 1 || proto.Unmarshal(r.MsgResponses[0].Value, &resp) != nil {
		return nil
	}
	denom := "hyperlane/" + resp.Id.String()
	if _, err := run(&warptypes.MsgEnrollRemoteRouter{Owner: sim.Authority, TokenId: resp.Id, RemoteRouter: &warptypes.RemoteRouter{
		ReceiverDomain: sim.HypRemoteDomain, ReceiverContract: "0x00000000000000000000000000000000000000000000000000000000000000aa", Gas: math.NewInt(sim.HypRouterGas)}}); err != nil {
		return nil
	}
	amt := math.NewInt(1_000_000)
	if err := wr.w.FundEscrow(ctx, dstPort, "channel-0", sdk.NewCoin(denom, amt)); err != nil {
		return nil
	}
	attrs := &forwardingtypes.HypAttributes{TokenId: resp.Id.Bytes(), DestinationDomain: sim.HypRemoteDomain, Recipient: make([]byte, 32), GasLimit: math.ZeroInt(),
		MaxFee: sdk.Coin{Denom: "", Amount: math.ZeroInt()}}
	f := &core.Forwarding{ProtocolId: core.PROTOCOL_HYPERLANE}
	if err := f.SetAttributes(attrs); err != nil {
		return nil
	}
	memo, err := wr.cdc.MarshalJSON(&core.PayloadWrapper{Orbiter: &core.Payload{Forwarding: f}})
	if err != nil {
		return nil
	}
	pkt := world.Packet{SrcPort: srcPort, SrcChan: srcChan, DstPort: dstPort, DstChan: "channel-0",
		ICS: &world.ICS20{Denom: srcPort + "/" + srcChan + "/" + denom, Amount: amt.String(), Sender: sim.Authority, Receiver: sim.OrbiterAddr().String(), Memo: string(memo)}}
	before := s.App.BankKeeper.GetSupply(ctx, denom).Amount
	o := wr.w.RunOp(ctx, world.Op{Kind: "recv", Pkt: pkt})
	after := s.App.BankKeeper.GetSupply(ctx, denom).Amount
	if o.Recv.Success && !after.Equal(before) {
		return []Failure{{What: fmt.Sprintf("the chain creates a synthetic Warp token (%s); its coins, returning over IBC to the orbiter with a Hyperlane forwarding, are burned by the route instead of being locked as collateral: "+
			"success acknowledgement and the total supply of %s goes from %s to %s with no CCTP burn involved", resp.Id.String(), denom, before, after),
			Sig: "supply-delta", Prop: "C02", Case: map[string]any{"op": describeOp(world.Op{Kind: "recv", Pkt: pkt}, pktInfo{}, o)}}}
	}
	return nil
}
