package fam

import (
	"encoding/json"
	"fmt"
	"math/big"
	"runtime"
	"strconv"
	"strings"

	"cosmossdk.io/math"
	sdk "github.com/cosmos/cosmos-sdk/types"

	orbiter "github.com/noble-assets/orbiter/v2"
	orbtypes "github.com/noble-assets/orbiter/v2/types"
	adaptertypes "github.com/noble-assets/orbiter/v2/types/component/adapter"
	dispatchertypes "github.com/noble-assets/orbiter/v2/types/component/dispatcher"
	executortypes "github.com/noble-assets/orbiter/v2/types/component/executor"
	forwardertypes "github.com/noble-assets/orbiter/v2/types/component/forwarder"
	"github.com/noble-assets/orbiter/v2/types/core"

	"verif/harness/internal/cq"
	"verif/harness/internal/rng"
	"verif/harness/internal/sim"
	"verif/harness/internal/world"
)

func ccidCoq(c *core.CrossChainID) string {
	if c == nil {
		return "None"
	}
	return fmt.Sprintf("(Some {| c_proto := %s; c_cp := %s |})", cq.ZI(int64(int32(c.ProtocolId))), cq.Str(c.CounterpartyId))
}
func ccidV(c *core.CrossChainID) cq.V {
	if c == nil {
		return cq.VNone()
	}
	return cq.VSome(cq.VL(cq.VZ(int64(int32(c.ProtocolId))), cq.VS(c.CounterpartyId)))
}

func genesisCoq(g *orbtypes.GenesisState) string {
	ad := "None"
	if g.AdapterGenesis != nil {
		ad = fmt.Sprintf("(Some %d)", g.AdapterGenesis.Params.MaxPassthroughPayloadSize)
	}
	di := "None"
	if d := g.DispatcherGenesis; d != nil {
		var as, cs []string
		for _, a := range d.DispatchedAmounts {
			as = append(as, fmt.Sprintf("{| ga_src := %s; ga_dst := %s; ga_denom := %s; ga_in := %s; ga_out := %s |}", ccidCoq(a.SourceId), ccidCoq(a.DestinationId),
				cq.Str(a.Denom), cq.Z(a.AmountDispatched.Incoming.BigInt()), cq.Z(a.AmountDispatched.Outgoing.BigInt())))
		}
		for _, c := range d.DispatchedCounts {
			cs = append(cs, fmt.Sprintf("{| gc_src := %s; gc_dst := %s; gc_n := %s |}", ccidCoq(c.SourceId), ccidCoq(c.DestinationId), cq.ZU(c.Count)))
		}
		di = "(Some (" + cq.List(as) + ", " + cq.List(cs) + "))"
	}
	fw := "None"
	if f := g.ForwarderGenesis; f != nil {
		var ps, cs []string
		for _, p := range f.PausedProtocolIds {
			ps = append(ps, cq.ZI(int64(int32(p))))
		}
		for _, c := range f.PausedCrossChainIds {
			cs = append(cs, ccidCoq(c))
		}
		fw = "(Some (" + cq.List(ps) + ", " + cq.List(cs) + "))"
	}
	ex := "None"
	if e := g.ExecutorGenesis; e != nil {
		var as []string
		for _, a := range e.PausedActionIds {
			as = append(as, cq.ZI(int64(int32(a))))
		}
		ex = "(Some " + cq.List(as) + ")"
	}
	return fmt.Sprintf("{| g_adapter := %s; g_dispatcher := %s; g_forwarder := %s; g_executor := %s |}", ad, di, fw, ex)
}

func genesisV(g *orbtypes.GenesisState) cq.V {
	ad := cq.VNone()
	if g.AdapterGenesis != nil {
		ad = cq.VSome(cq.VU(uint64(g.AdapterGenesis.Params.MaxPassthroughPayloadSize)))
	}
	di := cq.VNone()
	if d := g.DispatcherGenesis; d != nil {
		var as, cs []cq.V
		for _, a := range d.DispatchedAmounts {
			as = append(as, cq.VL(ccidV(a.SourceId), ccidV(a.DestinationId), cq.VS(a.Denom), cq.VBig(a.AmountDispatched.Incoming.BigInt()), cq.VBig(a.AmountDispatched.Outgoing.BigInt())))
		}
		for _, c := range d.DispatchedCounts {
			cs = append(cs, cq.VL(ccidV(c.SourceId), ccidV(c.DestinationId), cq.VU(c.Count)))
		}
		di = cq.VSome(cq.VL(cq.VL(as...), cq.VL(cs...)))
	}
	fw := cq.VNone()
	if f := g.ForwarderGenesis; f != nil {
		var ps, cs []cq.V
		for _, p := range f.PausedProtocolIds {
			ps = append(ps, cq.VZ(int64(int32(p))))
		}
		for _, c := range f.PausedCrossChainIds {
			cs = append(cs, ccidV(c))
		}
		fw = cq.VSome(cq.VL(cq.VL(ps...), cq.VL(cs...)))
	}
	ex := cq.VNone()
	if e := g.ExecutorGenesis; e != nil {
		var as []cq.V
		for _, a := range e.PausedActionIds {
			as = append(as, cq.VZ(int64(int32(a))))
		}
		ex = cq.VSome(cq.VL(as...))
	}
	return cq.VL(ad, di, fw, ex)
}

// genesis documents
// mostlyValid is set per document: identifiers and entries are then drawn from the valid pools (with
// boundary values), so that documents accepted by validation are common.
var mostlyValid bool

func genCCID(r *rng.R) *core.CrossChainID {
	if mostlyValid {
		p := rng.Pick(r, []core.ProtocolID{1, 2, 3, 4})
		var cp string
		switch p {
		case 1:
			cp = rng.Pick(r, []string{"channel-0", "channel-1", "channel-18446744073709551615", "channel-01", "channel-7"})
		case 2, 3:
			cp = rng.Pick(r, []string{"0", "1", "2", "7", "4294967295", "10"})
		default:
			cp = rng.Pick(r, []string{"noble", "other", "12345678901234567890123456789012", "a:b", "x y"})
		}
		return &core.CrossChainID{ProtocolId: p, CounterpartyId: cp}
	}
	if r.Chance(3) {
		return nil
	}
	p := rng.Pick(r, []core.ProtocolID{1, 2, 2, 3, 3, 4, 4, 0, 5, 99})
	var cp string
	switch p {
	case 1:
		cp = rng.Pick(r, []string{"channel-0", "channel-1", "channel-18446744073709551615", "channel-01", "chan", ""})
	case 2, 3:
		cp = rng.Pick(r, []string{"0", "1", "2", "7", "4294967295", "4294967296", "01", "+1", "", "x"})
	default:
		cp = rng.Pick(r, []string{"noble", "noble", "other", "a\x00b", "12345678901234567890123456789012", "123456789012345678901234567890123", ""})
	}
	return &core.CrossChainID{ProtocolId: p, CounterpartyId: cp}
}

func genGenesisDoc(r *rng.R) *orbtypes.GenesisState {
	mostlyValid = r.Chance(60)
	if mostlyValid {
		g := genValidishDoc(r)
		if r.Chance(40) {
			spoilOneID(r, g)
		}
		return g
	}
	g := &orbtypes.GenesisState{}
	if !r.Chance(3) {
		g.AdapterGenesis = &adaptertypes.GenesisState{Params: adaptertypes.Params{MaxPassthroughPayloadSize: rng.Pick(r, []uint32{0, 1, 16, 4294967295})}}
	}
	if !r.Chance(3) {
		d := &dispatchertypes.GenesisState{DispatchedAmounts: []dispatchertypes.DispatchedAmountEntry{}, DispatchedCounts: []dispatchertypes.DispatchCountEntry{}}
		for i := r.Intn(4); i > 0; i-- {
			in := rng.Pick(r, []*big.Int{big.NewInt(0), big.NewInt(1), big.NewInt(1000), bigAdd(pow2(256), -1), big.NewInt(-1), pow2(200)})
			out := rng.Pick(r, []*big.Int{big.NewInt(0), big.NewInt(1), big.NewInt(999), bigAdd(pow2(256), -1), big.NewInt(-5)})
			e := dispatchertypes.DispatchedAmountEntry{SourceId: genCCID(r), DestinationId: genCCID(r), Denom: rng.Pick(r, []string{"uusdc", "ufoo", "", "a/b", "a\x00b", "a b", "1bad", "x", "uusdc\x00"}),
				AmountDispatched: dispatchertypes.AmountDispatched{Incoming: math.NewIntFromBigInt(in), Outgoing: math.NewIntFromBigInt(out)}}
			d.DispatchedAmounts = append(d.DispatchedAmounts, e)
			if r.Chance(15) {
				d.DispatchedAmounts = append(d.DispatchedAmounts, e) // a repeated key: the last one wins
			}
		}
		for i := r.Intn(3); i > 0; i-- {
			d.DispatchedCounts = append(d.DispatchedCounts, dispatchertypes.DispatchCountEntry{SourceId: genCCID(r), DestinationId: genCCID(r),
				Count: rng.Pick(r, []uint64{0, 1, 7, 18446744073709551615})})
		}
		g.DispatcherGenesis = d
	}
	if !r.Chance(3) {
		f := &forwardertypes.GenesisState{PausedProtocolIds: []core.ProtocolID{}, PausedCrossChainIds: []*core.CrossChainID{}}
		for i := r.Intn(4); i > 0; i-- {
			f.PausedProtocolIds = append(f.PausedProtocolIds, rng.Pick(r, []core.ProtocolID{1, 2, 3, 4, 4, 2, 0, 9}))
		}
		for i := r.Intn(4); i > 0; i-- {
			c := genCCID(r)
			f.PausedCrossChainIds = append(f.PausedCrossChainIds, c)
			if r.Chance(12) {
				f.PausedCrossChainIds = append(f.PausedCrossChainIds, c)
			}
		}
		g.ForwarderGenesis = f
	}
	if !r.Chance(3) {
		e := &executortypes.GenesisState{PausedActionIds: []core.ActionID{}}
		for i := r.Intn(3); i > 0; i-- {
			e.PausedActionIds = append(e.PausedActionIds, rng.Pick(r, []core.ActionID{1, 2, 1, 0, 3}))
		}
		g.ExecutorGenesis = e
	}
	return g
}

func genValidishDoc(r *rng.R) *orbtypes.GenesisState {
	g := &orbtypes.GenesisState{}
	g.AdapterGenesis = &adaptertypes.GenesisState{Params: adaptertypes.Params{MaxPassthroughPayloadSize: rng.Pick(r, []uint32{0, 1, 16, 4294967295})}}
	d := &dispatchertypes.GenesisState{DispatchedAmounts: []dispatchertypes.DispatchedAmountEntry{}, DispatchedCounts: []dispatchertypes.DispatchCountEntry{}}
	for i := r.Intn(5); i > 0; i-- {
		in := rng.Pick(r, []*big.Int{big.NewInt(0), big.NewInt(1), big.NewInt(1000), bigAdd(pow2(256), -1), pow2(200)})
		out := rng.Pick(r, []*big.Int{big.NewInt(0), big.NewInt(1), big.NewInt(999), bigAdd(pow2(256), -1)})
		if in.Sign() == 0 && out.Sign() == 0 && r.Chance(80) {
			in = big.NewInt(5)
		}
		e := dispatchertypes.DispatchedAmountEntry{SourceId: genCCID(r), DestinationId: genCCID(r), Denom: rng.Pick(r, []string{"uusdc", "ufoo", "a/b", "uusdc", "ufoo", "a\x00b", "1bad"}),
			AmountDispatched: dispatchertypes.AmountDispatched{Incoming: math.NewIntFromBigInt(in), Outgoing: math.NewIntFromBigInt(out)}}
		d.DispatchedAmounts = append(d.DispatchedAmounts, e)
		if r.Chance(15) {
			e.AmountDispatched.Incoming = math.NewInt(77)
			d.DispatchedAmounts = append(d.DispatchedAmounts, e) // a repeated key: the last one wins
		}
	}
	for i := r.Intn(4); i > 0; i-- {
		d.DispatchedCounts = append(d.DispatchedCounts, dispatchertypes.DispatchCountEntry{SourceId: genCCID(r), DestinationId: genCCID(r),
			Count: rng.Pick(r, []uint64{1, 7, 18446744073709551615, 1, 0})})
	}
	g.DispatcherGenesis = d
	f := &forwardertypes.GenesisState{PausedProtocolIds: []core.ProtocolID{}, PausedCrossChainIds: []*core.CrossChainID{}}
	perm := []core.ProtocolID{1, 2, 3, 4}
	for i := r.Intn(4); i > 0; i-- {
		f.PausedProtocolIds = append(f.PausedProtocolIds, perm[r.Intn(len(perm))])
	}
	for i := r.Intn(5); i > 0; i-- {
		f.PausedCrossChainIds = append(f.PausedCrossChainIds, genCCID(r))
	}
	g.ForwarderGenesis = f
	e := &executortypes.GenesisState{PausedActionIds: []core.ActionID{}}
	for i := r.Intn(3); i > 0; i-- {
		e.PausedActionIds = append(e.PausedActionIds, rng.Pick(r, []core.ActionID{1, 2}))
	}
	g.ExecutorGenesis = e
	return g
}

// initOn initialises the module from the document on a fresh branch: 0 ok (exported state returned), 1 error, 2 nil dereference
func (wr *worldRunner) initOn(mod orbiter.AppModule, bz json.RawMessage) (class int, exported *orbtypes.GenesisState, expJSON string, ctx sdk.Context, what string) {
	cdc := wr.w.S.App.OrbiterKeeper.Codec()
	ctx, _ = wr.w.S.Ctx.CacheContext()
	func() {
		defer func() {
			if r := recover(); r != nil {
				class, what = 1, fmt.Sprint(r)
				if _, isRT := r.(runtime.Error); isRT {
					class = 2
				}
			}
		}()
		mod.InitGenesis(ctx, cdc, bz)
	}()
	if class != 0 {
		return
	}
	exported = wr.w.S.App.OrbiterKeeper.ExportGenesis(ctx)
	expJSON = string(mod.ExportGenesis(ctx, cdc))
	return
}

// Genesis is the C17 family.
func Genesis(r *rng.R, n int) Result {
	res := Result{Evaluator: "run_genesis", InputType: "gen_case",
		Imports: []string{"From Orbiter Require Import Corr.RunGenesis."},
		Rule: "(a) module states reached by generated histories (transfers, pause / unpause / parameter messages): AppModule.ExportGenesis -> ValidateGenesis -> InitGenesis on a fresh " +
			"branch -> ExportGenesis, compared byte for byte, plus probe transfers on both; (b) hand-built genesis documents with repeats, nil entries, boundary identifiers, NUL bytes, " +
			"extreme integers: the verdict of the real ValidateGenesis and the outcome of the real InitGenesis (ok / error / nil dereference) and its exported state; non-trivial = a non-empty state or a document with at least one entry; distinct by document",
		Notes: map[string]any{}}
	wr, err := newWorldRunner()
	if err != nil {
		res.Failures = append(res.Failures, Failure{What: "cannot boot the application: " + err.Error(), Sig: "boot", Case: map[string]any{}})
		return res
	}
	mod := orbiter.NewAppModule(wr.w.S.App.OrbiterKeeper)
	cdc := wr.w.S.App.OrbiterKeeper.Codec()
	seen := map[string]bool{}
	stats := map[string]int{}
	prof := profiles["C12"]
	prof.minOps, prof.maxOps, prof.pPlanned, prof.wMsg, prof.wRecv = 3, 14, 85, 45, 45
	prof.pFault, prof.pBadPayload = 0, 4
	for len(res.Cases) < n {
		cr := r.Fork()
		var c Case
		if cr.Chance(45) {
			// (a) a reached state
			ctx := wr.caseCtx()
			g := &gen{r: cr, w: wr.w, a: wr.a, p: prof, cdc: wr.cdc}
			nops := prof.minOps + cr.Intn(prof.maxOps-prof.minOps+1)
			var hist []string
			if cr.Chance(12) {
				// more paused counterparties under one protocol than one message (or one page of a listing) holds
				for _, m := range manyPaused(cr) {
					op := world.Op{Kind: "msg", Msg: m}
					o := wr.w.RunOp(ctx, op)
					hist = append(hist, describeOp(op, pktInfo{}, o))
				}
			}
			if cr.Chance(10) {
				// identifiers of the free-form protocol made of bytes a JSON document cannot carry as they are
				ids := []string{rng.Pick(cr, []string{"a\xffb", "\xc3\x28", "\xed\xa0\x80", "\xc0\xaf", "\xf5"}), "noble"}
				op := world.Op{Kind: "msg", Msg: world.Msg{Kind: "PauseCrossChains", Signer: sim.Authority, ID: "PROTOCOL_INTERNAL", IDs: ids[:1+cr.Intn(2)]}}
				o := wr.w.RunOp(ctx, op)
				hist = append(hist, describeOp(op, pktInfo{}, o))
			}
			for i := 0; i < nops; i++ {
				var op world.Op
				if cr.Chance(50) {
					pkt, info := g.genPacket()
					if info.spec != nil && pkt.ICS != nil {
						if info.spec.rawMem != nil {
							pkt.ICS.Memo = *info.spec.rawMem
						} else if _, memo, ok := info.spec.build(wr.cdc); ok {
							pkt.ICS.Memo = memo
						}
					}
					op = world.Op{Kind: "recv", Pkt: pkt}
				} else {
					op = world.Op{Kind: "msg", Msg: g.genMsg()}
				}
				o := wr.w.RunOp(ctx, op)
				hist = append(hist, describeOp(op, pktInfo{}, o))
			}
			st := wr.w.ObserveState(ctx)
			exported := wr.w.S.App.OrbiterKeeper.ExportGenesis(ctx)
			bz := mod.ExportGenesis(ctx, cdc)
			vErr := mod.ValidateGenesis(cdc, nil, bz)
			vClass := 0
			if vErr != nil {
				vClass = 1
			}
			iClass, exp2, json2, ctx2, what := wr.initOn(mod, bz)
			desc := map[string]any{"kind": "state", "history": hist, "exported": string(bz), "validate_error": fmt.Sprint(vErr), "init": what}
			initV := cq.VL(cq.VZ(int64(iClass)))
			if iClass == 0 {
				initV = cq.VL(cq.VZ(0), genesisV(exp2))
			}
			c = Case{Input: "GState " + st.Coq(), Expected: cq.VL(genesisV(exported), cq.VZ(int64(vClass)), initV), Desc: desc,
				Kind:    fmt.Sprintf("state/p%d-c%d-a%d-s%d", len(st.Protos), len(st.CC), len(st.Actions), len(st.Amounts)),
				NonTriv: len(st.Protos)+len(st.CC)+len(st.Actions)+len(st.Amounts) > 0, Key: string(bz)}
			fail := func(sig, what string) {
				res.Failures = append(res.Failures, Failure{What: what, Sig: sig, Prop: "C17", Case: desc})
			}
			switch {
			case vErr != nil:
				fail("export-invalid", "the genesis exported after a history does not pass ValidateGenesis: "+vErr.Error())
			case iClass != 0:
				fail("export-not-initialisable", "the genesis exported after a history cannot be initialised: "+what)
			case json2 != string(bz):
				fail("reexport-differs", "export -> init -> export does not give the same genesis: "+json2)
			default:
				// behaviour: the same probes on the original chain and on the re-initialised one
				ctxB := wr.caseCtx()
				func() {
					defer func() { recover() }()
					mod.InitGenesis(ctxB, cdc, bz)
				}()
				_ = ctx2
				// the module state as stored, byte for byte: what the JSON document cannot carry (bytes that are not
				// valid UTF-8 in a string) would come back as something else
				if a, b := wr.w.ObserveState(ctx), wr.w.ObserveState(ctxB); !a.V().Equal(b.V()) {
					fail("reinitialised-state-differs", "the chain initialised from the exported genesis does not store the state the original chain stores: "+fmt.Sprint(b.V().JSON())+" instead of "+fmt.Sprint(a.V().JSON()))
				}
				for k := 0; k < 3; k++ {
					pkt, info := g.genPacket()
					if info.spec != nil && pkt.ICS != nil && info.spec.rawMem == nil {
						if _, memo, ok := info.spec.build(wr.cdc); ok {
							pkt.ICS.Memo = memo
						}
					}
					if info.denom != "" {
						wr.topUp(ctx, info.dstChan, info.denom, info.amount)
						wr.topUp(ctxB, info.dstChan, info.denom, info.amount)
					}
					oa := wr.w.RunOp(ctx, world.Op{Kind: "recv", Pkt: pkt})
					ob := wr.w.RunOp(ctxB, world.Op{Kind: "recv", Pkt: pkt})
					if oa.Recv.Class != ob.Recv.Class || string(oa.Recv.Ack) != string(ob.Recv.Ack) || !oa.After.State.V().Equal(ob.After.State.V()) {
						fail("reinitialised-behaves-differently", fmt.Sprintf("probe %s: original chain class %d, re-initialised chain class %d, or different statistics afterwards",
							describeOp(world.Op{Kind: "recv", Pkt: pkt}, info, oa), oa.Recv.Class, ob.Recv.Class))
						break
					}
				}
			}
		} else {
			// (b) a hand-built document
			g := genGenesisDoc(cr)
			bz, err := cdc.MarshalJSON(g)
			if err != nil {
				continue
			}
			vErr := mod.ValidateGenesis(cdc, nil, bz)
			vClass := 0
			if vErr != nil {
				vClass = 1
			}
			iClass, exp2, _, _, what := wr.initOn(mod, bz)
			initV := cq.VL(cq.VZ(int64(iClass)))
			if iClass == 0 {
				initV = cq.VL(cq.VZ(0), genesisV(exp2))
			}
			desc := map[string]any{"kind": "document", "genesis": string(bz), "validate_error": fmt.Sprint(vErr), "init_class": iClass, "init": what}
			nent := 0
			if g.DispatcherGenesis != nil {
				nent += len(g.DispatcherGenesis.DispatchedAmounts) + len(g.DispatcherGenesis.DispatchedCounts)
			}
			if g.ForwarderGenesis != nil {
				nent += len(g.ForwarderGenesis.PausedProtocolIds) + len(g.ForwarderGenesis.PausedCrossChainIds)
			}
			c = Case{Input: "GDoc " + genesisCoq(g), Expected: cq.VL(cq.VZ(int64(vClass)), initV), Desc: desc,
				Kind: fmt.Sprintf("doc/valid%d-init%d", 1-vClass, iClass), NonTriv: nent > 0, Key: string(bz)}
			if vErr == nil && iClass != 0 {
				res.Failures = append(res.Failures, Failure{What: "a genesis accepted by ValidateGenesis cannot be initialised: " + what, Sig: "valid-not-initialisable", Prop: "C17", Case: desc})
			}
			if vErr == nil {
				// C20: whatever validation accepts as a CCTP / Hyperlane destination or source is the decimal form of a 32-bit domain
				var ids []*core.CrossChainID
				if g.DispatcherGenesis != nil {
					for i := range g.DispatcherGenesis.DispatchedAmounts {
						ids = append(ids, g.DispatcherGenesis.DispatchedAmounts[i].SourceId, g.DispatcherGenesis.DispatchedAmounts[i].DestinationId)
					}
					for i := range g.DispatcherGenesis.DispatchedCounts {
						ids = append(ids, g.DispatcherGenesis.DispatchedCounts[i].SourceId, g.DispatcherGenesis.DispatchedCounts[i].DestinationId)
					}
				}
				if g.ForwarderGenesis != nil {
					ids = append(ids, g.ForwarderGenesis.PausedCrossChainIds...)
				}
				for _, id := range ids {
					if id == nil || (id.ProtocolId != core.PROTOCOL_CCTP && id.ProtocolId != core.PROTOCOL_HYPERLANE) {
						continue
					}
					n, err := strconv.ParseUint(id.CounterpartyId, 10, 32)
					if err != nil || strconv.FormatUint(n, 10) != id.CounterpartyId {
						res.Failures = append(res.Failures, Failure{What: fmt.Sprintf("genesis validation accepts the identifier (%s, %q), which is not the decimal form of a 32-bit domain", id.ProtocolId, id.CounterpartyId),
							Sig: "noncanonical-id-accepted", Prop: "C20", Case: desc})
						break
					}
				}
			}
		}
		if seen[c.Key] {
			continue
		}
		seen[c.Key] = true
		stats[strings.SplitN(c.Kind, "/", 2)[0]]++
		res.Cases = append(res.Cases, c)
	}
	res.Notes["kinds"] = stats
	return res
}

var _ = sim.USDC

// manyPaused is two batches of cross-chain pauses for one protocol: 100 identifiers, then 1-30 more.
func manyPaused(r *rng.R) []world.Msg {
	proto := rng.Pick(r, []string{"PROTOCOL_CCTP", "PROTOCOL_HYPERLANE"})
	var a, b []string
	for i := 0; i < 100; i++ {
		a = append(a, fmt.Sprint(1000+i))
	}
	for i := 1 + r.Intn(30); i > 0; i-- {
		b = append(b, fmt.Sprint(2000+i))
	}
	return []world.Msg{{Kind: "PauseCrossChains", Signer: sim.Authority, ID: proto, IDs: a}, {Kind: "PauseCrossChains", Signer: sim.Authority, ID: proto, IDs: b}}
}

// spoilOneID gives exactly one identifier of an otherwise valid document a spelling validation must refuse.
func spoilOneID(r *rng.R, g *orbtypes.GenesisState) {
	var ids []*core.CrossChainID
	if g.DispatcherGenesis != nil {
		for i := range g.DispatcherGenesis.DispatchedAmounts {
			e := &g.DispatcherGenesis.DispatchedAmounts[i]
			// entries share identifier objects with nothing else: copy before changing
			src, dst := *e.SourceId, *e.DestinationId
			e.SourceId, e.DestinationId = &src, &dst
			ids = append(ids, e.SourceId, e.DestinationId)
		}
		for i := range g.DispatcherGenesis.DispatchedCounts {
			e := &g.DispatcherGenesis.DispatchedCounts[i]
			src, dst := *e.SourceId, *e.DestinationId
			e.SourceId, e.DestinationId = &src, &dst
			ids = append(ids, e.SourceId, e.DestinationId)
		}
	}
	if g.ForwarderGenesis != nil {
		for i, c := range g.ForwarderGenesis.PausedCrossChainIds {
			cp := *c
			g.ForwarderGenesis.PausedCrossChainIds[i] = &cp
			ids = append(ids, &cp)
		}
	}
	if len(ids) == 0 {
		return
	}
	id := ids[r.Intn(len(ids))]
	switch id.ProtocolId {
	case core.PROTOCOL_CCTP, core.PROTOCOL_HYPERLANE:
		id.CounterpartyId = rng.Pick(r, []string{"01", "007", "+1", "-1", "4294967296", "", "x", "1 ", " 1", "channel-0", "1:2", "0x1"})
	case core.PROTOCOL_IBC:
		id.CounterpartyId = rng.Pick(r, []string{"chan", "", "0", "channel-", "channel--1", "channel-18446744073709551616", "Channel-0"})
	default:
		id.CounterpartyId = rng.Pick(r, []string{"", "a\x00b", "123456789012345678901234567890123"})
	}
}
