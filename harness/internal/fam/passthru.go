package fam

import (
	"errors"
	"fmt"

	sdk "github.com/cosmos/cosmos-sdk/types"
	capabilitytypes "github.com/cosmos/ibc-go/modules/capability/types"
	clienttypes "github.com/cosmos/ibc-go/v8/modules/core/02-client/types"
	channeltypes "github.com/cosmos/ibc-go/v8/modules/core/04-channel/types"
	porttypes "github.com/cosmos/ibc-go/v8/modules/core/05-port/types"
	ibcexported "github.com/cosmos/ibc-go/v8/modules/core/exported"

	"github.com/noble-assets/orbiter/v2/entrypoint"
	orbtypes "github.com/noble-assets/orbiter/v2/types"

	"verif/harness/internal/rng"
)

// passStub is a wrapped application and an ICS-4 wrapper that records how it was called and answers with
// values derived from the call, so that a caller in between cannot guess them.
type passStub struct {
	calls []string
}

func (s *passStub) rec(name string, args ...any) uint64 {
	c := name + fmt.Sprintf("%v", args)
	s.calls = append(s.calls, c)
	h := uint64(1469598103934665603)
	for i := 0; i < len(c); i++ {
		h = (h ^ uint64(c[i])) * 1099511628211
	}
	return h
}
func stubErr(h uint64) error {
	if h%3 == 0 {
		return nil
	}
	return errors.New(fmt.Sprint("stub error ", h%1000))
}

func (s *passStub) OnChanOpenInit(_ sdk.Context, order channeltypes.Order, hops []string, portID, channelID string, c *capabilitytypes.Capability, cp channeltypes.Counterparty, version string) (string, error) {
	h := s.rec("OnChanOpenInit", order, hops, portID, channelID, c, cp, version)
	return fmt.Sprint("v", h), stubErr(h)
}
func (s *passStub) OnChanOpenTry(_ sdk.Context, order channeltypes.Order, hops []string, portID, channelID string, c *capabilitytypes.Capability, cp channeltypes.Counterparty, cpVersion string) (string, error) {
	h := s.rec("OnChanOpenTry", order, hops, portID, channelID, c, cp, cpVersion)
	return fmt.Sprint("v", h), stubErr(h)
}
func (s *passStub) OnChanOpenAck(_ sdk.Context, portID, channelID, cpChannel, cpVersion string) error {
	return stubErr(s.rec("OnChanOpenAck", portID, channelID, cpChannel, cpVersion))
}
func (s *passStub) OnChanOpenConfirm(_ sdk.Context, portID, channelID string) error {
	return stubErr(s.rec("OnChanOpenConfirm", portID, channelID))
}
func (s *passStub) OnChanCloseInit(_ sdk.Context, portID, channelID string) error {
	return stubErr(s.rec("OnChanCloseInit", portID, channelID))
}
func (s *passStub) OnChanCloseConfirm(_ sdk.Context, portID, channelID string) error {
	return stubErr(s.rec("OnChanCloseConfirm", portID, channelID))
}
func (s *passStub) OnRecvPacket(_ sdk.Context, p channeltypes.Packet, relayer sdk.AccAddress) ibcexported.Acknowledgement {
	h := s.rec("OnRecvPacket", p, relayer)
	return channeltypes.NewResultAcknowledgement([]byte(fmt.Sprint(h)))
}
func (s *passStub) OnAcknowledgementPacket(_ sdk.Context, p channeltypes.Packet, ack []byte, relayer sdk.AccAddress) error {
	return stubErr(s.rec("OnAcknowledgementPacket", p, ack, relayer))
}
func (s *passStub) OnTimeoutPacket(_ sdk.Context, p channeltypes.Packet, relayer sdk.AccAddress) error {
	return stubErr(s.rec("OnTimeoutPacket", p, relayer))
}
func (s *passStub) SendPacket(_ sdk.Context, c *capabilitytypes.Capability, port, channel string, th clienttypes.Height, ts uint64, data []byte) (uint64, error) {
	h := s.rec("SendPacket", c, port, channel, th, ts, data)
	return h, stubErr(h)
}
func (s *passStub) WriteAcknowledgement(_ sdk.Context, c *capabilitytypes.Capability, p ibcexported.PacketI, ack ibcexported.Acknowledgement) error {
	return stubErr(s.rec("WriteAcknowledgement", c, p, ack.Acknowledgement()))
}
func (s *passStub) GetAppVersion(_ sdk.Context, portID, channelID string) (string, bool) {
	h := s.rec("GetAppVersion", portID, channelID)
	return fmt.Sprint("v", h), h%2 == 0
}

var _ porttypes.IBCModule = (*passStub)(nil)
var _ porttypes.ICS4Wrapper = (*passStub)(nil)

// otherEntryPoints drives every entry point of the middleware other than OnRecvPacket (the channel
// handshake, acknowledgement and timeout callbacks; the ICS-4 send path) with generated arguments, once
// through the real middleware wrapped around the recording stub and once on the stub directly, and reports
// any difference in what reached the stub or in what came back (C07: passed through unchanged).
func otherEntryPoints(r *rng.R, ctx sdk.Context, adapter orbtypes.PayloadAdapter, n int) []Failure {
	var fails []Failure
	report := func(what string) {
		if len(fails) < 5 {
			fails = append(fails, Failure{What: what, Sig: "entry-point-not-passed-through", Prop: "C07", Case: map[string]any{}})
		}
	}
	str := func() string {
		return rng.Pick(r, []string{"", "transfer", "channel-0", "channel-7", "channel-18446744073709551615", "ics20-1", "icahost", "x y", "connection-3", "orbiter"})
	}
	pkt := func() channeltypes.Packet {
		return channeltypes.NewPacket(r.Bytes(r.Intn(40)), r.U64()%1000, str(), str(), str(), str(), clienttypes.NewHeight(r.U64()%5, r.U64()%1000), r.U64()%100000)
	}
	for i := 0; i < n; i++ {
		direct, inner := &passStub{}, &passStub{}
		mw := entrypoint.NewIBCMiddleware(inner, inner, adapter)
		cap1 := capabilitytypes.NewCapability(r.U64() % 100)
		order := rng.Pick(r, []channeltypes.Order{channeltypes.NONE, channeltypes.UNORDERED, channeltypes.ORDERED})
		hops := []string{str()}
		cp := channeltypes.NewCounterparty(str(), str())
		a, b, c, d := str(), str(), str(), str()
		p := pkt()
		rel := sdk.AccAddress(r.Bytes(20))
		ackBz := r.Bytes(r.Intn(30))
		th := clienttypes.NewHeight(r.U64()%5, r.U64()%1000)
		ts := r.U64() % 100000
		data := r.Bytes(r.Intn(50))
		ack := channeltypes.NewResultAcknowledgement(r.Bytes(1 + r.Intn(10)))
		var got, want string
		switch i % 11 {
		case 0:
			v1, e1 := mw.OnChanOpenInit(ctx, order, hops, a, b, cap1, cp, c)
			v2, e2 := direct.OnChanOpenInit(ctx, order, hops, a, b, cap1, cp, c)
			got, want = fmt.Sprint(v1, e1), fmt.Sprint(v2, e2)
		case 1:
			v1, e1 := mw.OnChanOpenTry(ctx, order, hops, a, b, cap1, cp, c)
			v2, e2 := direct.OnChanOpenTry(ctx, order, hops, a, b, cap1, cp, c)
			got, want = fmt.Sprint(v1, e1), fmt.Sprint(v2, e2)
		case 2:
			got, want = fmt.Sprint(mw.OnChanOpenAck(ctx, a, b, c, d)), fmt.Sprint(direct.OnChanOpenAck(ctx, a, b, c, d))
		case 3:
			got, want = fmt.Sprint(mw.OnChanOpenConfirm(ctx, a, b)), fmt.Sprint(direct.OnChanOpenConfirm(ctx, a, b))
		case 4:
			got, want = fmt.Sprint(mw.OnChanCloseInit(ctx, a, b)), fmt.Sprint(direct.OnChanCloseInit(ctx, a, b))
		case 5:
			got, want = fmt.Sprint(mw.OnChanCloseConfirm(ctx, a, b)), fmt.Sprint(direct.OnChanCloseConfirm(ctx, a, b))
		case 6:
			got, want = fmt.Sprint(mw.OnAcknowledgementPacket(ctx, p, ackBz, rel)), fmt.Sprint(direct.OnAcknowledgementPacket(ctx, p, ackBz, rel))
		case 7:
			got, want = fmt.Sprint(mw.OnTimeoutPacket(ctx, p, rel)), fmt.Sprint(direct.OnTimeoutPacket(ctx, p, rel))
		case 8:
			s1, e1 := mw.SendPacket(ctx, cap1, a, b, th, ts, data)
			s2, e2 := direct.SendPacket(ctx, cap1, a, b, th, ts, data)
			got, want = fmt.Sprint(s1, e1), fmt.Sprint(s2, e2)
		case 9:
			got, want = fmt.Sprint(mw.WriteAcknowledgement(ctx, cap1, p, ack)), fmt.Sprint(direct.WriteAcknowledgement(ctx, cap1, p, ack))
		default:
			v1, ok1 := mw.GetAppVersion(ctx, a, b)
			v2, ok2 := direct.GetAppVersion(ctx, a, b)
			got, want = fmt.Sprint(v1, ok1), fmt.Sprint(v2, ok2)
		}
		if fmt.Sprint(inner.calls) != fmt.Sprint(direct.calls) {
			report(fmt.Sprintf("the wrapped application / ICS-4 wrapper was reached with %v behind the middleware, the caller passed %v", inner.calls, direct.calls))
		} else if got != want {
			report(fmt.Sprintf("entry point %v returns %q through the middleware, the wrapped one returned %q", direct.calls, got, want))
		}
	}
	return fails
}
