package fam

import (
	"encoding/json"
	"errors"
	"fmt"
	"strings"

	sdk "github.com/cosmos/cosmos-sdk/types"
	capabilitytypes "github.com/cosmos/ibc-go/modules/capability/types"
	clienttypes "github.com/cosmos/ibc-go/v8/modules/core/02-client/types"
	transfertypes "github.com/cosmos/ibc-go/v8/modules/apps/transfer/types"
	channeltypes "github.com/cosmos/ibc-go/v8/modules/core/04-channel/types"
	porttypes "github.com/cosmos/ibc-go/v8/modules/core/05-port/types"
	ibcexported "github.com/cosmos/ibc-go/v8/modules/core/exported"

	"github.com/noble-assets/orbiter/v2/entrypoint"
	orbtypes "github.com/noble-assets/orbiter/v2/types"

	"verif/harness/internal/rng"
)

// passStub is a wrapped application and an ICS-4 wrapper that records how it was called and answers with
// values derived from the call, so that a caller in between cannot guess them.
type passStub struct {
	calls []string
}

func (s *passStub) rec(name string, args ...any) uint64 {
	c := name + fmt.Sprintf("%v", args)
	s.calls = append(s.calls, c)
	h := uint64(1469598103934665603)
	for i := 0; i < len(c); i++ {
		h = (h ^ uint64(c[i])) * 1099511628211
	}
	return h
}
func stubErr(h uint64) error {
	if h%3 == 0 {
		return nil
	}
	return errors.New(fmt.Sprint("stub error ", h%1000))
}

func (s *passStub) OnChanOpenInit(_ sdk.Context, order channeltypes.Order, hops []string, portID, channelID string, c *capabilitytypes.Capability, cp channeltypes.Counterparty, version string) (string, error) {
	h := s.rec("OnChanOpenInit", order, hops, portID, channelID, c, cp, version)
	return fmt.Sprint("v", h), stubErr(h)
}
func (s *passStub) OnChanOpenTry(_ sdk.Context, order channeltypes.Order, hops []string, portID, channelID string, c *capabilitytypes.Capability, cp channeltypes.Counterparty, cpVersion string) (string, error) {
	h := s.rec("OnChanOpenTry", order, hops, portID, channelID, c, cp, cpVersion)
	return fmt.Sprint("v", h), stubErr(h)
}
func (s *passStub) OnChanOpenAck(_ sdk.Context, portID, channelID, cpChannel, cpVersion string) error {
	return stubErr(s.rec("OnChanOpenAck", portID, channelID, cpChannel, cpVersion))
}
func (s *passStub) OnChanOpenConfirm(_ sdk.Context, portID, channelID string) error {
	return stubErr(s.rec("OnChanOpenConfirm", portID, channelID))
}
func (s *passStub) OnChanCloseInit(_ sdk.Context, portID, channelID string) error {
	return stubErr(s.rec("OnChanCloseInit", portID, channelID))
}
func (s *passStub) OnChanCloseConfirm(_ sdk.Context, portID, channelID string) error {
	return stubErr(s.rec("OnChanCloseConfirm", portID, channelID))
}
func (s *passStub) OnRecvPacket(_ sdk.Context, p channeltypes.Packet, relayer sdk.AccAddress) ibcexported.Acknowledgement {
	h := s.rec("OnRecvPacket", p, relayer)
	return channeltypes.NewResultAcknowledgement([]byte(fmt.Sprint(h)))
}
func (s *passStub) OnAcknowledgementPacket(_ sdk.Context, p channeltypes.Packet, ack []byte, relayer sdk.AccAddress) error {
	return stubErr(s.rec("OnAcknowledgementPacket", p, ack, relayer))
}
func (s *passStub) OnTimeoutPacket(_ sdk.Context, p channeltypes.Packet, relayer sdk.AccAddress) error {
	return stubErr(s.rec("OnTimeoutPacket", p, relayer))
}
func (s *passStub) SendPacket(_ sdk.Context, c *capabilitytypes.Capability, port, channel string, th clienttypes.Height, ts uint64, data []byte) (uint64, error) {
	h := s.rec("SendPacket", c, port, channel, th, ts, data)
	return h, stubErr(h)
}
func (s *passStub) WriteAcknowledgement(_ sdk.Context, c *capabilitytypes.Capability, p ibcexported.PacketI, ack ibcexported.Acknowledgement) error {
	return stubErr(s.rec("WriteAcknowledgement", c, p, ack.Acknowledgement()))
}
func (s *passStub) GetAppVersion(_ sdk.Context, portID, channelID string) (string, bool) {
	h := s.rec("GetAppVersion", portID, channelID)
	return fmt.Sprint("v", h), h%2 == 0
}

// recvPassThrough drives OnRecvPacket of the real middleware wrapped directly around the recording stub (in the
// application another middleware, blockibc, sits in front and refuses what is not ICS-20 data before the orbiter sees
// it) with packet data that is NOT an ICS-20 transfer to the orbiter account for ibc-go's strict decoder - garbage,
// objects with an extra key or a key in another case, numbers for strings, foreign receivers - whatever a more
// lenient reading would make of it, and whatever the memo says: the wrapped application must be reached with exactly
// the packet, and its acknowledgement returned as it is (C07).
func recvPassThrough(r *rng.R, ctx sdk.Context, adapter orbtypes.PayloadAdapter, orbiter string, n int) ([]Failure, int) {
	var fails []Failure
	driven := 0
	q := func(s string) string { b, _ := json.Marshal(s); return string(b) }
	for i := 0; i < n; i++ {
		recv := rng.Pick(r, []string{orbiter, orbiter, orbiter, strings.ToUpper(orbiter), "noble1vah82lyr32ge38ax4k6thskf6rtaae0v8psfjs", ""})
		memo := rng.Pick(r, []string{"", "hello", `{"orbiter":{}}`, `{"forward":{}}`,
			`{"orbiter":{"forwarding":{"protocol_id":"PROTOCOL_INTERNAL","attributes":{"@type":"/noble.orbiter.controller.forwarding.v1.InternalAttributes","recipient":"noble1vah82lyr32ge38ax4k6thskf6rtaae0v8psfjs"}}}}`})
		keys := []string{"denom", "amount", "sender", "receiver", "memo"}
		vals := []string{q("transfer/channel-7/uusdc"), q(fmt.Sprint(1 + r.Intn(5000))), q("noble1vah82lyr32ge38ax4k6thskf6rtaae0v8psfjs"), q(recv), q(memo)}
		switch r.Intn(7) {
		case 0:
			keys, vals = append(keys, rng.Pick(r, []string{"fee", "forward", "x"})), append(vals, rng.Pick(r, []string{`"1"`, "null", "{}"}))
		case 1:
			k := r.Intn(len(keys))
			keys[k] = rng.Pick(r, []string{strings.ToUpper(keys[k]), strings.Title(keys[k])})
		case 2:
			vals[1] = rng.Pick(r, []string{"5", "null", "true", "5.5"})
		case 3:
			vals[3] = rng.Pick(r, []string{"null", "1", "[]"})
		case 4: // not an object at all
			keys, vals = nil, nil
		case 5:
			k := r.Intn(len(keys))
			keys[k] = keys[k] + " "
		default: // well-formed ICS-20 data to somebody else
			if recv == orbiter || strings.EqualFold(recv, orbiter) {
				vals[3] = q("noble1vah82lyr32ge38ax4k6thskf6rtaae0v8psfjs")
			}
		}
		var data []byte
		if keys == nil {
			data = rng.Pick(r, [][]byte{[]byte("garbage"), {}, []byte("[1]"), []byte(`"` + orbiter + `"`), []byte("null")})
		} else {
			parts := make([]string, len(keys))
			for j := range keys {
				parts[j] = q(keys[j]) + ":" + vals[j]
			}
			data = []byte("{" + strings.Join(parts, ",") + "}")
		}
		// the harness's own reading of "an ICS-20 transfer to the orbiter account": ibc-go's decoder and bech32
		var d transfertypes.FungibleTokenPacketData
		if err := transfertypes.ModuleCdc.UnmarshalJSON(data, &d); err == nil {
			if a, err := sdk.AccAddressFromBech32(d.Receiver); err == nil && a.String() == orbiter {
				continue
			}
		}
		driven++
		pkt := channeltypes.NewPacket(data, uint64(1+r.Intn(100)), "transfer", "channel-7", "transfer", rng.Pick(r, []string{"channel-0", "channel-1"}),
			clienttypes.NewHeight(1, 1000), 0)
		rel := sdk.AccAddress(r.Bytes(20))
		direct, inner := &passStub{}, &passStub{}
		mw := entrypoint.NewIBCMiddleware(inner, inner, adapter)
		cctx, _ := ctx.CacheContext()
		var got, want string
		func() {
			defer func() {
				if x := recover(); x != nil {
					got = fmt.Sprint("panic: ", x)
				}
			}()
			got = string(mw.OnRecvPacket(cctx, pkt, rel).Acknowledgement())
		}()
		want = string(direct.OnRecvPacket(cctx, pkt, rel).Acknowledgement())
		what := ""
		if fmt.Sprint(inner.calls) != fmt.Sprint(direct.calls) {
			what = fmt.Sprintf("the wrapped application was reached with %v behind the middleware; handed the packet directly it sees %v", inner.calls, direct.calls)
		} else if got != want {
			what = fmt.Sprintf("the middleware answers %q, the wrapped application answered %q", got, want)
		}
		if what != "" && len(fails) < 5 {
			fails = append(fails, Failure{What: "packet data " + string(data) + ": " + what, Sig: "entry-point-not-passed-through", Prop: "C07", Case: map[string]any{"data": string(data)}})
		}
	}
	return fails, driven
}

var _ porttypes.IBCModule = (*passStub)(nil)
var _ porttypes.ICS4Wrapper = (*passStub)(nil)

// otherEntryPoints drives every entry point of the middleware other than OnRecvPacket (the channel
// handshake, acknowledgement and timeout callbacks; the ICS-4 send path) with generated arguments, once
// through the real middleware wrapped around the recording stub and once on the stub directly, and reports
// any difference in what reached the stub or in what came back (C07: passed through unchanged).
func otherEntryPoints(r *rng.R, ctx sdk.Context, adapter orbtypes.PayloadAdapter, n int) []Failure {
	var fails []Failure
	report := func(what string) {
		if len(fails) < 5 {
			fails = append(fails, Failure{What: what, Sig: "entry-point-not-passed-through", Prop: "C07", Case: map[string]any{}})
		}
	}
	str := func() string {
		return rng.Pick(r, []string{"", "transfer", "channel-0", "channel-7", "channel-18446744073709551615", "ics20-1", "icahost", "x y", "connection-3", "orbiter"})
	}
	pkt := func() channeltypes.Packet {
		return channeltypes.NewPacket(r.Bytes(r.Intn(40)), r.U64()%1000, str(), str(), str(), str(), clienttypes.NewHeight(r.U64()%5, r.U64()%1000), r.U64()%100000)
	}
	for i := 0; i < n; i++ {
		direct, inner := &passStub{}, &passStub{}
		mw := entrypoint.NewIBCMiddleware(inner, inner, adapter)
		cap1 := capabilitytypes.NewCapability(r.U64() % 100)
		order := rng.Pick(r, []channeltypes.Order{channeltypes.NONE, channeltypes.UNORDERED, channeltypes.ORDERED})
		hops := []string{str()}
		cp := channeltypes.NewCounterparty(str(), str())
		a, b, c, d := str(), str(), str(), str()
		p := pkt()
		rel := sdk.AccAddress(r.Bytes(20))
		ackBz := r.Bytes(r.Intn(30))
		th := clienttypes.NewHeight(r.U64()%5, r.U64()%1000)
		ts := r.U64() % 100000
		data := r.Bytes(r.Intn(50))
		ack := channeltypes.NewResultAcknowledgement(r.Bytes(1 + r.Intn(10)))
		var got, want string
		switch i % 11 {
		case 0:
			v1, e1 := mw.OnChanOpenInit(ctx, order, hops, a, b, cap1, cp, c)
			v2, e2 := direct.OnChanOpenInit(ctx, order, hops, a, b, cap1, cp, c)
			got, want = fmt.Sprint(v1, e1), fmt.Sprint(v2, e2)
		case 1:
			v1, e1 := mw.OnChanOpenTry(ctx, order, hops, a, b, cap1, cp, c)
			v2, e2 := direct.OnChanOpenTry(ctx, order, hops, a, b, cap1, cp, c)
			got, want = fmt.Sprint(v1, e1), fmt.Sprint(v2, e2)
		case 2:
			got, want = fmt.Sprint(mw.OnChanOpenAck(ctx, a, b, c, d)), fmt.Sprint(direct.OnChanOpenAck(ctx, a, b, c, d))
		case 3:
			got, want = fmt.Sprint(mw.OnChanOpenConfirm(ctx, a, b)), fmt.Sprint(direct.OnChanOpenConfirm(ctx, a, b))
		case 4:
			got, want = fmt.Sprint(mw.OnChanCloseInit(ctx, a, b)), fmt.Sprint(direct.OnChanCloseInit(ctx, a, b))
		case 5:
			got, want = fmt.Sprint(mw.OnChanCloseConfirm(ctx, a, b)), fmt.Sprint(direct.OnChanCloseConfirm(ctx, a, b))
		case 6:
			got, want = fmt.Sprint(mw.OnAcknowledgementPacket(ctx, p, ackBz, rel)), fmt.Sprint(direct.OnAcknowledgementPacket(ctx, p, ackBz, rel))
		case 7:
			got, want = fmt.Sprint(mw.OnTimeoutPacket(ctx, p, rel)), fmt.Sprint(direct.OnTimeoutPacket(ctx, p, rel))
		case 8:
			s1, e1 := mw.SendPacket(ctx, cap1, a, b, th, ts, data)
			s2, e2 := direct.SendPacket(ctx, cap1, a, b, th, ts, data)
			got, want = fmt.Sprint(s1, e1), fmt.Sprint(s2, e2)
		case 9:
			got, want = fmt.Sprint(mw.WriteAcknowledgement(ctx, cap1, p, ack)), fmt.Sprint(direct.WriteAcknowledgement(ctx, cap1, p, ack))
		default:
			v1, ok1 := mw.GetAppVersion(ctx, a, b)
			v2, ok2 := direct.GetAppVersion(ctx, a, b)
			got, want = fmt.Sprint(v1, ok1), fmt.Sprint(v2, ok2)
		}
		if fmt.Sprint(inner.calls) != fmt.Sprint(direct.calls) {
			report(fmt.Sprintf("the wrapped application / ICS-4 wrapper was reached with %v behind the middleware, the caller passed %v", inner.calls, direct.calls))
		} else if got != want {
			report(fmt.Sprintf("entry point %v returns %q through the middleware, the wrapped one returned %q", direct.calls, got, want))
		}
	}
	return fails
}
