package fam

import (
	"cosmossdk.io/math"
	"fmt"
	"sort"
	"strings"

	"github.com/cosmos/cosmos-sdk/types/query"

	orbiter "github.com/noble-assets/orbiter/v2"
	dispatchercomp "github.com/noble-assets/orbiter/v2/keeper/component/dispatcher"
	dispatchertypes "github.com/noble-assets/orbiter/v2/types/component/dispatcher"
	"github.com/noble-assets/orbiter/v2/types/core"

	"verif/harness/internal/cq"
	"verif/harness/internal/rng"
	"verif/harness/internal/world"
)

func amountEntryV(e *dispatchertypes.DispatchedAmountEntry) cq.V {
	return cq.VL(cq.VZ(int64(int32(e.SourceId.ProtocolId))), cq.VS(e.SourceId.CounterpartyId), cq.VZ(int64(int32(e.DestinationId.ProtocolId))),
		cq.VS(e.DestinationId.CounterpartyId), cq.VS(e.Denom), cq.VBig(e.AmountDispatched.Incoming.BigInt()), cq.VBig(e.AmountDispatched.Outgoing.BigInt()))
}
func countEntryV(e *dispatchertypes.DispatchCountEntry) cq.V {
	return cq.VL(cq.VZ(int64(int32(e.SourceId.ProtocolId))), cq.VS(e.SourceId.CounterpartyId), cq.VZ(int64(int32(e.DestinationId.ProtocolId))),
		cq.VS(e.DestinationId.CounterpartyId), cq.VU(e.Count))
}

var listingCoq = map[string]string{"amt-src": "LAmtSrc", "amt-dst": "LAmtDst", "cnt-src": "LCntSrc", "cnt-dst": "LCntDst"}

// Pages is the C13 family.
func Pages(r *rng.R, n int) Result {
	res := Result{Evaluator: "run_page", InputType: "page_case",
		Imports: []string{"From Orbiter Require Import Corr.RunPage."},
		Rule: "statistics ledgers built by importing generated genesis documents (amount and count entries over all source / destination protocols, boundary identifiers, " +
			"several denominations) and then by 0-36 generated transfers through the real receive path (new entries and repeated updates of existing ones, kept through the secondary indexes); queries through the dispatcher's QueryServer: direct lookups (present / absent / zero / invalid identifiers), single pages " +
			"(offset 0..len+5, limit 0..len+1, count-total, reverse) of the four listings for every protocol filter, whole walks following next-keys forwards and in reverse for every page size, " +
			"key and offset together; non-trivial = the listing addressed is non-empty; distinct by (ledger, query)",
		Notes: map[string]any{}}
	wr, err := newWorldRunner()
	if err != nil {
		res.Failures = append(res.Failures, Failure{What: "cannot boot the application: " + err.Error(), Sig: "boot", Case: map[string]any{}})
		return res
	}
	mod := orbiter.NewAppModule(wr.w.S.App.OrbiterKeeper)
	cdc := wr.w.S.App.OrbiterKeeper.Codec()
	qs := dispatchercomp.NewQueryServer(wr.w.S.App.OrbiterKeeper.Dispatcher())
	seen := map[string]bool{}
	kinds := map[string]int{}
	ledgers := map[string]int{}
	for len(res.Cases) < n {
		cr := r.Fork()
		// a ledger
		mostlyValid = true
		var g = genValidishDoc(cr)
		for i := cr.Intn(8); i > 0; i-- {
			extra := genValidishDoc(cr)
			g.DispatcherGenesis.DispatchedAmounts = append(g.DispatcherGenesis.DispatchedAmounts, extra.DispatcherGenesis.DispatchedAmounts...)
			g.DispatcherGenesis.DispatchedCounts = append(g.DispatcherGenesis.DispatchedCounts, extra.DispatcherGenesis.DispatchedCounts...)
		}
		if cr.Chance(50) {
			// a cluster of entries whose store keys are byte prefixes of one another: the last component of a
			// key is written without a terminator (counterparties "1" / "10" / "100", denominations "uusd" / "uusdc")
			src := genCCID(cr)
			dp := rng.Pick(cr, []core.ProtocolID{2, 3})
			for _, dc := range []string{"1", "10", "100", "2", "20"} {
				if cr.Chance(70) {
					g.DispatcherGenesis.DispatchedCounts = append(g.DispatcherGenesis.DispatchedCounts, dispatchertypes.DispatchCountEntry{SourceId: src,
						DestinationId: &core.CrossChainID{ProtocolId: dp, CounterpartyId: dc}, Count: uint64(1 + cr.Intn(9))})
				}
			}
			dst := &core.CrossChainID{ProtocolId: dp, CounterpartyId: rng.Pick(cr, []string{"1", "10"})}
			for _, dn := range []string{"uusd", "uusdc", "uusdcx", "uusdn"} {
				if cr.Chance(70) {
					g.DispatcherGenesis.DispatchedAmounts = append(g.DispatcherGenesis.DispatchedAmounts, dispatchertypes.DispatchedAmountEntry{SourceId: src, DestinationId: dst, Denom: dn,
						AmountDispatched: dispatchertypes.AmountDispatched{Incoming: math.NewInt(int64(1 + cr.Intn(1000))), Outgoing: math.NewInt(int64(cr.Intn(1000)))}})
				}
			}
		}
		g.ForwarderGenesis.PausedProtocolIds, g.ForwarderGenesis.PausedCrossChainIds, g.ExecutorGenesis.PausedActionIds = nil, nil, nil
		bz, err := cdc.MarshalJSON(g)
		if err != nil || mod.ValidateGenesis(cdc, nil, bz) != nil {
			continue
		}
		ctx := wr.caseCtx()
		source := "transfers"
		if cr.Chance(65) {
			source = "genesis+transfers"
			bad := false
			func() {
				defer func() {
					if recover() != nil {
						bad = true
					}
				}()
				mod.InitGenesis(ctx, cdc, bz)
			}()
			if bad {
				continue
			}
		}
		// transfers on top: new entries and updates of existing ones, maintained through the indexes
		gg := &gen{r: cr, w: wr.w, a: wr.a, p: profiles["C13"], cdc: wr.cdc}
		moved := 0
		for i := cr.Intn(12); i > 0; i-- {
			pkt, info := gg.genPacket()
			if info.spec == nil || pkt.ICS == nil {
				continue
			}
			if _, memo, ok := info.spec.build(wr.cdc); ok {
				pkt.ICS.Memo = memo
			} else {
				continue
			}
			if info.denom != "" && info.amount.Sign() > 0 {
				wr.topUp(ctx, info.dstChan, info.denom, info.amount)
			}
			reps := 1 + cr.Intn(3)
			for j := 0; j < reps; j++ {
				if o := wr.w.RunOp(ctx, world.Op{Kind: "recv", Pkt: pkt}); o.Recv.Success {
					moved++
				}
			}
		}
		ledgers[fmt.Sprintf("%s/%d-transfers", source, moved)]++
		st := wr.w.ObserveState(ctx)
		exported := wr.w.S.App.OrbiterKeeper.ExportGenesis(ctx)
		// the reference listings, from the exported entries alone
		amtList := func(kind string, pid int32) []cq.V {
			var out []cq.V
			for i := range exported.DispatcherGenesis.DispatchedAmounts {
				e := &exported.DispatcherGenesis.DispatchedAmounts[i]
				if (kind == "amt-src" && int32(e.SourceId.ProtocolId) == pid) || (kind == "amt-dst" && int32(e.DestinationId.ProtocolId) == pid) {
					out = append(out, amountEntryV(e))
				}
			}
			return out
		}
		cntList := func(kind string, pid int32) []cq.V {
			var out []cq.V
			for i := range exported.DispatcherGenesis.DispatchedCounts {
				e := &exported.DispatcherGenesis.DispatchedCounts[i]
				if (kind == "cnt-src" && int32(e.SourceId.ProtocolId) == pid) || (kind == "cnt-dst" && int32(e.DestinationId.ProtocolId) == pid) {
					out = append(out, countEntryV(e))
				}
			}
			return out
		}
		for q := 0; q < 14 && len(res.Cases) < n; q++ {
			kind := rng.Pick(cr, []string{"amt-src", "amt-dst", "cnt-src", "cnt-dst"})
			pname := rng.Pick(cr, []string{"PROTOCOL_IBC", "PROTOCOL_CCTP", "PROTOCOL_HYPERLANE", "PROTOCOL_INTERNAL", "PROTOCOL_INTERNAL", "PROTOCOL_UNSUPPORTED", "x"})
			if cr.Chance(70) {
				// a protocol the ledger knows
				var present []string
				for i := range exported.DispatcherGenesis.DispatchedAmounts {
					e := &exported.DispatcherGenesis.DispatchedAmounts[i]
					if strings.HasPrefix(kind, "amt") {
						if kind == "amt-src" {
							present = append(present, e.SourceId.ProtocolId.String())
						} else {
							present = append(present, e.DestinationId.ProtocolId.String())
						}
					}
				}
				for i := range exported.DispatcherGenesis.DispatchedCounts {
					e := &exported.DispatcherGenesis.DispatchedCounts[i]
					if kind == "cnt-src" {
						present = append(present, e.SourceId.ProtocolId.String())
					} else if kind == "cnt-dst" {
						present = append(present, e.DestinationId.ProtocolId.String())
					}
				}
				if len(present) > 0 {
					pname = rng.Pick(cr, present)
				}
			}
			pid := int32(protoNumber[pname])
			var ref []cq.V
			if strings.HasPrefix(kind, "amt") {
				ref = amtList(kind, pid)
			} else {
				ref = cntList(kind, pid)
			}
			L := len(ref)
			// one query: returns (items, next key, total, error)
			ask := func(pr *query.PageRequest) (items []cq.V, next []byte, total uint64, failed bool) {
				switch kind {
				case "amt-src":
					rsp, err := qs.DispatchedAmountsBySourceProtocolID(ctx, &dispatchertypes.QueryDispatchedAmountsByProtocolIDRequest{ProtocolId: pname, Pagination: pr})
					if err != nil {
						return nil, nil, 0, true
					}
					for _, e := range rsp.Amounts {
						items = append(items, amountEntryV(e))
					}
					return items, rsp.Pagination.NextKey, rsp.Pagination.Total, false
				case "amt-dst":
					rsp, err := qs.DispatchedAmountsByDestinationProtocolID(ctx, &dispatchertypes.QueryDispatchedAmountsByProtocolIDRequest{ProtocolId: pname, Pagination: pr})
					if err != nil {
						return nil, nil, 0, true
					}
					for _, e := range rsp.Amounts {
						items = append(items, amountEntryV(e))
					}
					return items, rsp.Pagination.NextKey, rsp.Pagination.Total, false
				case "cnt-src":
					rsp, err := qs.DispatchedCountsBySourceProtocolID(ctx, &dispatchertypes.QueryDispatchedCountsByProtocolIDRequest{ProtocolId: pname, Pagination: pr})
					if err != nil {
						return nil, nil, 0, true
					}
					for _, e := range rsp.Counts {
						items = append(items, countEntryV(e))
					}
					return items, rsp.Pagination.NextKey, rsp.Pagination.Total, false
				default:
					rsp, err := qs.DispatchedCountsByDestinationProtocolID(ctx, &dispatchertypes.QueryDispatchedCountsByProtocolIDRequest{ProtocolId: pname, Pagination: pr})
					if err != nil {
						return nil, nil, 0, true
					}
					for _, e := range rsp.Counts {
						items = append(items, countEntryV(e))
					}
					return items, rsp.Pagination.NextKey, rsp.Pagination.Total, false
				}
			}
			var c Case
			desc := map[string]any{"ledger": string(bz), "listing": kind, "protocol": pname, "matching_entries": L}
			fail := func(sig, what string) {
				res.Failures = append(res.Failures, Failure{What: what, Sig: sig, Prop: "C13", Case: desc})
			}
			valid := pid != 0
			// a page size far above the number of entries: the usual way a client says "all that is left"; the
			// model, whose page sizes are nats, is handed L+1 (Props/C13.v C13_huge_limits)
			hugeShare := 15
			huge := func(lim int) (uint64, int, string) {
				if cr.Chance(hugeShare) {
					h := rng.Pick(cr, []uint64{1 << 63, ^uint64(0), 1<<63 - 1, 1 << 32, 1<<31 - 1})
					return h, L + 1, fmt.Sprint(h)
				}
				return uint64(lim), lim, fmt.Sprint(lim)
			}
			switch cr.Intn(12) {
			case 10, 11: // one page of lim1 from the start, then one page of lim2 from its next key
				lim1 := 1 + cr.Intn(L+1)
				if L > 1 {
					lim1 = 1 + cr.Intn(L-1) // something is left for the second page
				}
				hugeShare = 45
				lim2r, lim2, lim2s := huge(rng.Pick(cr, []int{1, 2, L, L + 1}))
				if lim2 == 0 {
					lim2r, lim2, lim2s = 1, 1, "1"
				}
				rv := cr.Bool()
				items1, next, _, failed := ask(&query.PageRequest{Limit: uint64(lim1), Reverse: rv})
				exp := cq.VL(cq.VZ(1))
				if failed != !valid {
					fail("page-error", "the listing query fails / succeeds against the validity of the protocol filter")
				}
				if !failed {
					dir := append([]cq.V{}, ref...)
					if rv {
						for i, j := 0, len(dir)-1; i < j; i, j = i+1, j-1 {
							dir[i], dir[j] = dir[j], dir[i]
						}
					}
					second := cq.VL(cq.VZ(2))
					got := append([]cq.V{}, items1...)
					if len(next) > 0 {
						items2, next2, total2, f2 := ask(&query.PageRequest{Key: next, Limit: lim2r, Reverse: rv, CountTotal: cr.Bool()})
						if f2 {
							fail("resume-refused", "a request from a next key the listing handed out is refused")
							second = cq.VL(cq.VZ(1))
						} else {
							// a page requested by key carries no total (the SDK counts only from the start of a listing): 0, or - should
							// that ever be added - the number of matching entries, never anything else
							if total2 != 0 && total2 != uint64(L) {
								fail("page-total", fmt.Sprintf("a page requested by key reports total %d for a listing of %d matching entries", total2, L))
							}
							second = cq.VL(cq.VZ(0), cq.VL(items2...), cq.VB(len(next2) > 0), cq.VU(total2))
							got = append(got, items2...)
						}
					}
					want := dir
					if len(want) > lim1+lim2 {
						want = want[:lim1+lim2]
					}
					if !cq.VL(got...).Equal(cq.VL(want...)) {
						fail("resume-content", fmt.Sprintf("a page of %d followed by a page of %s from its next key (reverse %v) over the %s listing for %s gives %d entries, not the first %d matching entries in key order",
							lim1, lim2s, rv, kind, pname, len(got), len(want)))
					}
					exp = cq.VL(cq.VZ(0), cq.VL(items1...), second)
				}
				desc["query"] = fmt.Sprintf("page limit=%d then from its next key limit=%s reverse=%v", lim1, lim2s, rv)
				c = Case{Input: fmt.Sprintf("PResume %s %s %s %d%%nat %d%%nat %s", st.Coq(), listingCoq[kind], cq.Str(pname), lim1, lim2, cq.Bool(rv)),
					Expected: exp, Kind: "resume/" + kind, NonTriv: L > 1}
			case 0, 1: // direct lookups
				if strings.HasPrefix(kind, "amt") {
					var req dispatchertypes.QueryDispatchedAmountsRequest
					ents := exported.DispatcherGenesis.DispatchedAmounts
					if len(ents) > 0 && cr.Chance(75) {
						e := ents[cr.Intn(len(ents))]
						// entries with one side zero (what a denomination-changing action leaves) are looked up as often as the others
						var oneSided []int
						for i := range ents {
							if ents[i].AmountDispatched.Incoming.IsZero() != ents[i].AmountDispatched.Outgoing.IsZero() {
								oneSided = append(oneSided, i)
							}
						}
						if len(oneSided) > 0 && cr.Chance(50) {
							e = ents[oneSided[cr.Intn(len(oneSided))]]
						}
						req = dispatchertypes.QueryDispatchedAmountsRequest{SourceProtocolId: e.SourceId.ProtocolId.String(), SourceCounterpartyId: e.SourceId.CounterpartyId,
							DestinationProtocolId: e.DestinationId.ProtocolId.String(), DestinationCounterpartyId: e.DestinationId.CounterpartyId, Denom: e.Denom}
						if cr.Chance(25) {
							req.Denom = rng.Pick(cr, []string{"uother", ""})
						}
					} else {
						req = dispatchertypes.QueryDispatchedAmountsRequest{SourceProtocolId: pname, SourceCounterpartyId: rng.Pick(cr, []string{"channel-0", "0", "noble", "01"}),
							DestinationProtocolId: "PROTOCOL_CCTP", DestinationCounterpartyId: rng.Pick(cr, []string{"0", "7", "x"}), Denom: "uusdc"}
					}
					rsp, err := qs.DispatchedAmounts(ctx, &req)
					exp := cq.VL(cq.VZ(1))
					if err == nil && len(rsp.Amounts) == 1 {
						exp = cq.VL(cq.VZ(0), amountEntryV(rsp.Amounts[0]))
					}
					// oracle: found exactly when an exported entry has this key
					want := false
					for i := range ents {
						e := &ents[i]
						if e.SourceId.ProtocolId.String() == req.SourceProtocolId && e.SourceId.CounterpartyId == req.SourceCounterpartyId &&
							e.DestinationId.ProtocolId.String() == req.DestinationProtocolId && e.DestinationId.CounterpartyId == req.DestinationCounterpartyId && e.Denom == req.Denom {
							want = true
							if err == nil && !amountEntryV(rsp.Amounts[0]).Equal(amountEntryV(e)) {
								fail("lookup-wrong-entry", "the direct lookup returned another entry than the recorded one")
							}
						}
					}
					if want != (err == nil) {
						fail("lookup-presence", fmt.Sprintf("direct lookup of %v: found=%v but the ledger has it=%v", req, err == nil, want))
					}
					desc["query"] = fmt.Sprint(req)
					c = Case{Input: fmt.Sprintf("PLookupAmount %s %s %s %s %s %s", st.Coq(), cq.Str(req.SourceProtocolId), cq.Str(req.SourceCounterpartyId),
						cq.Str(req.DestinationProtocolId), cq.Str(req.DestinationCounterpartyId), cq.Str(req.Denom)), Expected: exp, Kind: "lookup-amount", NonTriv: want}
				} else {
					var req dispatchertypes.QueryDispatchedCountsRequest
					ents := exported.DispatcherGenesis.DispatchedCounts
					if len(ents) > 0 && cr.Chance(75) {
						e := ents[cr.Intn(len(ents))]
						req = dispatchertypes.QueryDispatchedCountsRequest{SourceProtocolId: e.SourceId.ProtocolId.String(), SourceCounterpartyId: e.SourceId.CounterpartyId,
							DestinationProtocolId: e.DestinationId.ProtocolId.String(), DestinationCounterpartyId: e.DestinationId.CounterpartyId}
					} else {
						req = dispatchertypes.QueryDispatchedCountsRequest{SourceProtocolId: pname, SourceCounterpartyId: rng.Pick(cr, []string{"channel-0", "0", "noble"}),
							DestinationProtocolId: "PROTOCOL_INTERNAL", DestinationCounterpartyId: rng.Pick(cr, []string{"noble", ""})}
					}
					rsp, err := qs.DispatchedCounts(ctx, &req)
					exp := cq.VL(cq.VZ(1))
					if err == nil && len(rsp.Counts) == 1 {
						exp = cq.VL(cq.VZ(0), countEntryV(rsp.Counts[0]))
					}
					want := false
					for i := range ents {
						e := &ents[i]
						if e.SourceId.ProtocolId.String() == req.SourceProtocolId && e.SourceId.CounterpartyId == req.SourceCounterpartyId &&
							e.DestinationId.ProtocolId.String() == req.DestinationProtocolId && e.DestinationId.CounterpartyId == req.DestinationCounterpartyId {
							want = true
						}
					}
					if want != (err == nil) {
						fail("lookup-presence", fmt.Sprintf("direct lookup of %v: found=%v but the ledger has it=%v", req, err == nil, want))
					}
					desc["query"] = fmt.Sprint(req)
					c = Case{Input: fmt.Sprintf("PLookupCount %s %s %s %s %s", st.Coq(), cq.Str(req.SourceProtocolId), cq.Str(req.SourceCounterpartyId),
						cq.Str(req.DestinationProtocolId), cq.Str(req.DestinationCounterpartyId)), Expected: exp, Kind: "lookup-count", NonTriv: want}
				}
			case 2, 3, 4, 5: // one page
				off := rng.Pick(cr, []int{0, 0, 1, 2, L, L + 1, L + 5})
				limr, lim, lims := huge(rng.Pick(cr, []int{0, 1, 2, 3, L, L + 1}))
				ct, rv := cr.Bool(), cr.Bool()
				items, next, total, failed := ask(&query.PageRequest{Offset: uint64(off), Limit: limr, CountTotal: ct, Reverse: rv})
				exp := cq.VL(cq.VZ(1))
				if !failed {
					exp = cq.VL(cq.VZ(0), cq.VL(items...), cq.VB(len(next) > 0), cq.VU(total))
				}
				desc["query"] = fmt.Sprintf("page offset=%d limit=%s count_total=%v reverse=%v", off, lims, ct, rv)
				if failed != !valid {
					fail("page-error", "the listing query fails / succeeds against the validity of the protocol filter")
				}
				if !failed {
					dir := append([]cq.V{}, ref...)
					if rv {
						for i, j := 0, len(dir)-1; i < j; i, j = i+1, j-1 {
							dir[i], dir[j] = dir[j], dir[i]
						}
					}
					eff := lim
					if eff == 0 {
						eff = 100
					}
					var want []cq.V
					if off <= L {
						want = dir[off:]
						if len(want) > eff {
							want = want[:eff]
						}
					}
					if !cq.VL(items...).Equal(cq.VL(want...)) {
						fail("page-content", fmt.Sprintf("page (offset %d, limit %s, reverse %v) of the %s listing for %s is not the corresponding chunk of the matching entries in key order", off, lims, rv, kind, pname))
					}
					if (ct || lim == 0) && off <= L && total != uint64(L) {
						fail("page-total", fmt.Sprintf("total %d reported for a listing of %d matching entries", total, L))
					}
				}
				c = Case{Input: fmt.Sprintf("PPage %s %s %s %d%%nat %d%%nat %s %s", st.Coq(), listingCoq[kind], cq.Str(pname), off, lim, cq.Bool(ct), cq.Bool(rv)),
					Expected: exp, Kind: "page/" + kind, NonTriv: L > 0}
			case 6, 7, 8: // a whole walk
				limr, lim, lims := huge(1 + cr.Intn(L+2))
				rv := cr.Bool()
				var pages []cq.V
				var all []cq.V
				failed := false
				var key []byte
				for step := 0; step <= L+2; step++ {
					items, next, _, f := ask(&query.PageRequest{Key: key, Limit: limr, Reverse: rv})
					if f {
						failed = true
						break
					}
					pages = append(pages, cq.VL(items...))
					all = append(all, items...)
					if uint64(len(items)) > limr {
						fail("walk-page-size", "a page holds more entries than the limit")
					}
					if len(next) == 0 {
						break
					}
					key = next
				}
				exp := cq.VL(cq.VZ(1))
				if !failed {
					exp = cq.VL(cq.VZ(0), cq.VL(pages...))
					dir := append([]cq.V{}, ref...)
					if rv {
						for i, j := 0, len(dir)-1; i < j; i, j = i+1, j-1 {
							dir[i], dir[j] = dir[j], dir[i]
						}
					}
					if !cq.VL(all...).Equal(cq.VL(dir...)) {
						fail("walk-content", fmt.Sprintf("following next-keys with page size %s (reverse %v) over the %s listing for %s visits %d entries; the matching entries in key order are %d (omission, duplicate or foreign entry)", lims, rv, kind, pname, len(all), L))
					}
				}
				if failed != !valid {
					fail("page-error", "the listing query fails / succeeds against the validity of the protocol filter")
				}
				desc["query"] = fmt.Sprintf("walk limit=%s reverse=%v", lims, rv)
				c = Case{Input: fmt.Sprintf("PWalk %s %s %s %d%%nat %s", st.Coq(), listingCoq[kind], cq.Str(pname), lim, cq.Bool(rv)), Expected: exp, Kind: "walk/" + kind, NonTriv: L > 1}
			default: // key and offset together
				_, next, _, f0 := ask(&query.PageRequest{Limit: 1})
				exp := cq.VL(cq.VZ(1))
				if !f0 {
					if L == 0 {
						exp = cq.VL(cq.VZ(2))
					} else {
						k := next
						if len(k) == 0 {
							k = []byte{1}
						}
						_, _, _, f := ask(&query.PageRequest{Key: k, Offset: 1, Limit: 1})
						if !f {
							fail("key-and-offset", "a request with both key and offset is accepted")
							exp = cq.VL(cq.VZ(0))
						}
					}
				}
				desc["query"] = "key and offset together"
				c = Case{Input: fmt.Sprintf("PBoth %s %s %s", st.Coq(), listingCoq[kind], cq.Str(pname)), Expected: exp, Kind: "both/" + kind, NonTriv: L > 0}
			}
			c.Desc = desc
			c.Key = c.Input
			if seen[c.Key] {
				continue
			}
			seen[c.Key] = true
			kinds[strings.SplitN(c.Kind, "/", 2)[0]]++
			res.Cases = append(res.Cases, c)
		}
	}
	res.Notes["kinds"] = kinds
	res.Notes["ledgers_built_by"] = ledgers
	return res
}

var _ = sort.Strings
var _ world.Op
