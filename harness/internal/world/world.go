package world

import (
	"bytes"
	banktypes "github.com/cosmos/cosmos-sdk/x/bank/types"
	"cosmossdk.io/collections"
	"crypto/sha256"
	"encoding/binary"
	"encoding/hex"
	"fmt"
	"github.com/cosmos/cosmos-sdk/types/query"
	dispatchertypes "github.com/noble-assets/orbiter/v2/types/component/dispatcher"
	"math/big"
	"regexp"
	"sort"
	"strings"

	"cosmossdk.io/math"
	storetypes "cosmossdk.io/store/types"
	"github.com/circlefin/noble-fiattokenfactory/x/blockibc"
	sdk "github.com/cosmos/cosmos-sdk/types"
	authtypes "github.com/cosmos/cosmos-sdk/x/auth/types"
	"github.com/cosmos/ibc-go/v8/modules/apps/transfer"
	transfertypes "github.com/cosmos/ibc-go/v8/modules/apps/transfer/types"
	clienttypes "github.com/cosmos/ibc-go/v8/modules/core/02-client/types"
	channeltypes "github.com/cosmos/ibc-go/v8/modules/core/04-channel/types"
	porttypes "github.com/cosmos/ibc-go/v8/modules/core/05-port/types"
	ibcexported "github.com/cosmos/ibc-go/v8/modules/core/exported"

	adapterctrl "github.com/noble-assets/orbiter/v2/controller/adapter"
	adaptercomp "github.com/noble-assets/orbiter/v2/keeper/component/adapter"
	executorcomp "github.com/noble-assets/orbiter/v2/keeper/component/executor"
	forwardercomp "github.com/noble-assets/orbiter/v2/keeper/component/forwarder"
	"github.com/noble-assets/orbiter/v2/simapp"
	adaptertypes "github.com/noble-assets/orbiter/v2/types/component/adapter"
	executortypes "github.com/noble-assets/orbiter/v2/types/component/executor"
	forwardertypes "github.com/noble-assets/orbiter/v2/types/component/forwarder"
	actiontypes "github.com/noble-assets/orbiter/v2/types/controller/action"
	forwardingtypes "github.com/noble-assets/orbiter/v2/types/controller/forwarding"
	"github.com/noble-assets/orbiter/v2/types/core"

	"verif/harness/internal/cq"
	"verif/harness/internal/sim"
)

// ---------------------------------------------------------------------------------------------
// operations
// ---------------------------------------------------------------------------------------------

// ICS20 is the content of an ICS-20 packet.
type ICS20 struct{ Denom, Amount, Sender, Receiver, Memo string }

// Packet is an IBC packet as the transfer stack receives it.
type Packet struct {
	SrcPort, SrcChan, DstPort, DstChan string
	Raw                                []byte // packet data when ICS is nil
	ICS                                *ICS20
}

func (p Packet) Data() []byte {
	// Raw, when set, is what travels: with ICS set as well it is another writing of the same ICS-20 data (escapes,
	// key order, white space) and ICS is what every ICS-20 decoder reads out of it
	if p.ICS == nil || p.Raw != nil {
		return p.Raw
	}
	d := transfertypes.FungibleTokenPacketData{Denom: p.ICS.Denom, Amount: p.ICS.Amount, Sender: p.ICS.Sender,
		Receiver: p.ICS.Receiver, Memo: p.ICS.Memo}
	return d.GetBytes()
}

// WireAgrees tells whether ibc-go's own decoder reads exactly the ICS view out of the raw bytes (or refuses them
// when there is no ICS view).
func (p Packet) WireAgrees() bool {
	var d transfertypes.FungibleTokenPacketData
	err := transfertypes.ModuleCdc.UnmarshalJSON(p.Data(), &d)
	if p.ICS == nil {
		return err != nil
	}
	return err == nil && d.Denom == p.ICS.Denom && d.Amount == p.ICS.Amount && d.Sender == p.ICS.Sender && d.Receiver == p.ICS.Receiver && d.Memo == p.ICS.Memo
}

// Msg is an admin message of the orbiter module.
type Msg struct {
	Kind   string // PauseProtocol UnpauseProtocol PauseCrossChains UnpauseCrossChains PauseAction UnpauseAction UpdateParams ReplaceDepositForBurn
	Signer string
	ID     string   // protocol / action id (by name)
	IDs    []string // counterparties
	Max    uint32   // UpdateParams
	B      [4][]byte
}

func (m Msg) SDK() sdk.Msg {
	switch m.Kind {
	case "PauseProtocol":
		return &forwardertypes.MsgPauseProtocol{Signer: m.Signer, ProtocolId: m.ID}
	case "UnpauseProtocol":
		return &forwardertypes.MsgUnpauseProtocol{Signer: m.Signer, ProtocolId: m.ID}
	case "PauseCrossChains":
		return &forwardertypes.MsgPauseCrossChains{Signer: m.Signer, ProtocolId: m.ID, CounterpartyIds: m.IDs}
	case "UnpauseCrossChains":
		return &forwardertypes.MsgUnpauseCrossChains{Signer: m.Signer, ProtocolId: m.ID, CounterpartyIds: m.IDs}
	case "PauseAction":
		return &executortypes.MsgPauseAction{Signer: m.Signer, ActionId: m.ID}
	case "UnpauseAction":
		return &executortypes.MsgUnpauseAction{Signer: m.Signer, ActionId: m.ID}
	case "UpdateParams":
		return &adaptertypes.MsgUpdateParams{Signer: m.Signer, Params: adaptertypes.Params{MaxPassthroughPayloadSize: m.Max}}
	case "ReplaceDepositForBurn":
		return &forwardertypes.MsgReplaceDepositForBurn{Signer: m.Signer, OriginalMessage: m.B[0], OriginalAttestation: m.B[1],
			NewDestinationCaller: m.B[2], NewMintRecipient: m.B[3]}
	}
	panic("unknown message kind " + m.Kind)
}

func (m Msg) Coq() string {
	body := ""
	switch m.Kind {
	case "PauseProtocol":
		body = "MPauseProtocol " + cq.Str(m.ID)
	case "UnpauseProtocol":
		body = "MUnpauseProtocol " + cq.Str(m.ID)
	case "PauseCrossChains":
		body = "MPauseCC " + cq.Str(m.ID) + " " + cq.StrList(m.IDs)
	case "UnpauseCrossChains":
		body = "MUnpauseCC " + cq.Str(m.ID) + " " + cq.StrList(m.IDs)
	case "PauseAction":
		body = "MPauseAction " + cq.Str(m.ID)
	case "UnpauseAction":
		body = "MUnpauseAction " + cq.Str(m.ID)
	case "UpdateParams":
		body = fmt.Sprintf("MUpdateParams %d", m.Max)
	case "ReplaceDepositForBurn":
		body = fmt.Sprintf("MReplaceDFB %s %s %s %s", cq.Bytes(m.B[0]), cq.Bytes(m.B[1]), cq.Bytes(m.B[2]), cq.Bytes(m.B[3]))
	}
	return "(" + body + ")"
}

// Query of the pause / parameter state.
type Query struct {
	Kind string // IsProtocolPaused PausedProtocols IsCrossChainPaused PausedCrossChains IsActionPaused PausedActions Params
	ID   string
	CP   string
}

func (q Query) Coq() string {
	switch q.Kind {
	case "IsProtocolPaused":
		return "(QIsProtocolPaused " + cq.Str(q.ID) + ")"
	case "PausedProtocols":
		return "QPausedProtocols"
	case "IsCrossChainPaused":
		return "(QIsCCPaused " + cq.Str(q.ID) + " " + cq.Str(q.CP) + ")"
	case "PausedCrossChains":
		return "(QPausedCC " + cq.Str(q.ID) + ")"
	case "IsActionPaused":
		return "(QIsActionPaused " + cq.Str(q.ID) + ")"
	case "PausedActions":
		return "QPausedActions"
	case "Params":
		return "QParams"
	}
	panic("unknown query " + q.Kind)
}

// Op is one step of a history.
type Op struct {
	// InstOnly: run (and commit) this packet on the instrumented instance only
	InstOnly bool
	Kind     string // recv msg deposit query
	Pkt      Packet
	Plan     []bool // recv/msg: fault plan (nil: none)
	PanicAt  int    // recv: the PanicAt-th external call panics (0: none)
	From     sdk.AccAddress // send: the sender (deposit and send: To is the recipient)
	EscrowChan string       // deposit: To is the escrow account of this destination channel
	Lie      int64
	Msg      Msg
	Q        Query
	// deposit
	To     sdk.AccAddress
	Denom  string
	Amount *big.Int
	// Payload, when the memo was built from a structured payload: the intended parse result (Coq term)
	MemoCoq string
	Note    string
	// Twin: also run the packet on a branch where the orbiter account has been emptied (C11)
	Twin bool
	// Ref: also run the packet on the stack WITHOUT the orbiter middleware (blockibc ∘ transfer) on another
	// branch of the same state and compare acknowledgement, events and every store (C07)
	Ref bool
	// Callback: which IBC callback to drive ("" = OnRecvPacket, "ack-ok", "ack-err", "timeout": the other
	// callbacks, differential only)
	Callback string
}

// ---------------------------------------------------------------------------------------------
// world
// ---------------------------------------------------------------------------------------------

// Acct is a tracked account.
type Acct struct {
	Name string
	Addr sdk.AccAddress
}

// W is one booted chain with both stacks.
type W struct {
	S     *sim.Sim
	In    *Inst
	Wired porttypes.IBCModule
	// Reference is the transfer stack without the orbiter middleware, on the same keepers
	Reference porttypes.IBCModule
	Accts     []Acct
	Denoms    []string
	parser    *adapterctrl.JSONParser
	// InstOnly: packets run on the instrumented instance only (it has controllers the wired app lacks)
	InstOnly bool
}

func New(s *sim.Sim, extra ...ExtraAction) (*W, error) {
	in, err := NewInst(s, extra...)
	if err != nil {
		return nil, err
	}
	parser, err := adapterctrl.NewJSONParser(s.App.OrbiterKeeper.Codec())
	if err != nil {
		return nil, err
	}
	ref := blockibc.NewIBCMiddleware(transfer.NewIBCModule(s.App.TransferKeeper), s.App.FTFKeeper)
	return &W{S: s, In: in, Wired: s.Stack(), Reference: ref, parser: parser}, nil
}

func ModAddr(name string) sdk.AccAddress { return authtypes.NewModuleAddress(name) }

func Escrow(port, ch string) sdk.AccAddress { return transfertypes.GetEscrowAddress(port, ch) }

// FundEscrow mints coins onto a channel escrow and books them as escrowed.
func (w *W) FundEscrow(ctx sdk.Context, port, ch string, coin sdk.Coin) error {
	esc := Escrow(port, ch)
	if err := w.S.App.BankKeeper.MintCoins(ctx, transfertypes.ModuleName, sdk.NewCoins(coin)); err != nil {
		return err
	}
	if err := w.S.App.BankKeeper.SendCoinsFromModuleToAccount(ctx, transfertypes.ModuleName, esc, sdk.NewCoins(coin)); err != nil {
		return err
	}
	cur := w.S.App.TransferKeeper.GetTotalEscrowForDenom(ctx, coin.Denom)
	w.S.App.TransferKeeper.SetTotalEscrowForDenom(ctx, cur.Add(coin))
	return nil
}

// Snapshot of the tracked balances, supplies and the exported orbiter state.
type Snapshot struct {
	Bals   []*big.Int // accounts x denoms, row-major
	Supply []*big.Int
	State  StateObs
}

type StateObs struct {
	Protos  []int64
	CC      [][2]string // (protocol number as text, counterparty)
	Actions []int64
	Max     int64 // -1: params never set is not observable through export; export gives the value (0 default)
	Amounts [][6]string
	Counts  [][5]string
}

func (st StateObs) V() cq.V {
	ps := make([]cq.V, len(st.Protos))
	for i, p := range st.Protos {
		ps[i] = cq.VZ(p)
	}
	cc := make([]cq.V, len(st.CC))
	for i, c := range st.CC {
		n, _ := new(big.Int).SetString(c[0], 10)
		cc[i] = cq.VL(cq.VBig(n), cq.VS(c[1]))
	}
	as := make([]cq.V, len(st.Actions))
	for i, a := range st.Actions {
		as[i] = cq.VZ(a)
	}
	am := make([]cq.V, len(st.Amounts))
	for i, a := range st.Amounts {
		sp, _ := new(big.Int).SetString(a[0], 10)
		in, _ := new(big.Int).SetString(a[4], 10)
		out, _ := new(big.Int).SetString(a[5], 10)
		am[i] = cq.VL(cq.VBig(sp), cq.VS(a[1]), cq.VS(a[2]), cq.VS(a[3]), cq.VBig(in), cq.VBig(out))
	}
	cs := make([]cq.V, len(st.Counts))
	for i, c := range st.Counts {
		sp, _ := new(big.Int).SetString(c[0], 10)
		dp, _ := new(big.Int).SetString(c[2], 10)
		n, _ := new(big.Int).SetString(c[4], 10)
		cs[i] = cq.VL(cq.VBig(sp), cq.VS(c[1]), cq.VBig(dp), cq.VS(c[3]), cq.VBig(n))
	}
	return cq.VL(cq.VL(ps...), cq.VL(cc...), cq.VL(as...), cq.VZ(st.Max), cq.VL(am...), cq.VL(cs...))
}

// Coq renders the state as an [ostate] term (initial state of a case).
func (st StateObs) Coq() string {
	ps := make([]string, len(st.Protos))
	for i, p := range st.Protos {
		ps[i] = cq.ZI(p)
	}
	cc := make([]string, len(st.CC))
	for i, c := range st.CC {
		cc[i] = cq.Pair(c[0], cq.Str(c[1]))
	}
	as := make([]string, len(st.Actions))
	for i, a := range st.Actions {
		as[i] = cq.ZI(a)
	}
	am := make([]string, len(st.Amounts))
	for i, a := range st.Amounts {
		am[i] = fmt.Sprintf("({| ak_sp := %s; ak_sc := %s; ak_dst := %s; ak_denom := %s |}, (%s, %s))", a[0], cq.Str(a[1]), cq.Str(a[2]), cq.Str(a[3]), a[4], a[5])
	}
	cs := make([]string, len(st.Counts))
	for i, c := range st.Counts {
		cs[i] = fmt.Sprintf("({| ck_sp := %s; ck_sc := %s; ck_dp := %s; ck_dc := %s |}, %s)", c[0], cq.Str(c[1]), c[2], cq.Str(c[3]), c[4])
	}
	return fmt.Sprintf("{| paused_protos := %s; paused_cc := %s; paused_actions := %s; max_pass := Some %d; amounts := %s; counts := %s |}",
		cq.List(ps), cq.List(cc), cq.List(as), st.Max, cq.List(am), cq.List(cs))
}

// ObserveState reads the orbiter's own store directly - prefix by prefix, with the SDK's collections key
// codecs - and not through the module's getters or its genesis export, which are under test themselves.
func (w *W) ObserveState(ctx sdk.Context) StateObs {
	var st StateObs
	key, ok := w.S.App.UnsafeFindStoreKey(core.ModuleName).(*storetypes.KVStoreKey)
	if !ok || key == nil {
		panic("orbiter store key not found")
	}
	store := ctx.KVStore(key)
	cdc := w.S.App.OrbiterKeeper.Codec()
	walk := func(prefix collections.Prefix, f func(k, v []byte)) {
		p := prefix.Bytes()
		it := storetypes.KVStorePrefixIterator(store, p)
		defer it.Close()
		for ; it.Valid(); it.Next() {
			f(it.Key()[len(p):], it.Value())
		}
	}
	must := func(err error) {
		if err != nil {
			panic("orbiter store entry cannot be decoded: " + err.Error())
		}
	}
	walk(core.PausedProtocolsPrefix, func(k, _ []byte) {
		_, id, err := collections.Int32Key.Decode(k)
		must(err)
		st.Protos = append(st.Protos, int64(id))
	})
	ccCodec := collections.PairKeyCodec(collections.Int32Key, collections.StringKey)
	walk(core.PausedCrossChainsPrefix, func(k, _ []byte) {
		_, pair, err := ccCodec.Decode(k)
		must(err)
		st.CC = append(st.CC, [2]string{fmt.Sprint(pair.K1()), pair.K2()})
	})
	walk(core.PausedActionsPrefix, func(k, _ []byte) {
		_, id, err := collections.Int32Key.Decode(k)
		must(err)
		st.Actions = append(st.Actions, int64(id))
	})
	walk(core.AdapterParamsPrefix, func(_, v []byte) {
		var p adaptertypes.Params
		must(cdc.Unmarshal(v, &p))
		st.Max = int64(p.MaxPassthroughPayloadSize)
	})
	amtCodec := collections.QuadKeyCodec(collections.Int32Key, collections.StringKey, collections.StringKey, collections.StringKey)
	walk(core.DispatchedAmountsPrefix, func(k, v []byte) {
		_, q, err := amtCodec.Decode(k)
		must(err)
		var a dispatchertypes.AmountDispatched
		must(cdc.Unmarshal(v, &a))
		st.Amounts = append(st.Amounts, [6]string{fmt.Sprint(q.K1()), q.K2(), q.K3(), q.K4(), intOrZero(a.Incoming).String(), intOrZero(a.Outgoing).String()})
	})
	cntCodec := collections.QuadKeyCodec(collections.Int32Key, collections.StringKey, collections.Int32Key, collections.StringKey)
	walk(core.DispatchedCountsPrefix, func(k, v []byte) {
		_, q, err := cntCodec.Decode(k)
		must(err)
		_, n, err := collections.Uint64Key.Decode(v)
		must(err)
		st.Counts = append(st.Counts, [5]string{fmt.Sprint(q.K1()), q.K2(), fmt.Sprint(q.K3()), q.K4(), fmt.Sprint(n)})
	})
	return st
}

func (w *W) Snap(ctx sdk.Context) Snapshot {
	var sn Snapshot
	for _, a := range w.Accts {
		for _, d := range w.Denoms {
			sn.Bals = append(sn.Bals, w.S.App.BankKeeper.GetBalance(ctx, a.Addr, d).Amount.BigInt())
		}
	}
	for _, d := range w.Denoms {
		sn.Supply = append(sn.Supply, w.S.App.BankKeeper.GetSupply(ctx, d).Amount.BigInt())
	}
	sn.State = w.ObserveState(ctx)
	return sn
}

func bigsV(xs []*big.Int) cq.V {
	l := make([]cq.V, len(xs))
	for i, x := range xs {
		l[i] = cq.VBig(x)
	}
	return cq.VL(l...)
}

func (sn Snapshot) Equal(o Snapshot) bool {
	return bigsV(sn.Bals).Equal(bigsV(o.Bals)) && bigsV(sn.Supply).Equal(bigsV(o.Supply)) && sn.State.V().Equal(o.State.V())
}

// ---------------------------------------------------------------------------------------------
// running
// ---------------------------------------------------------------------------------------------

// Outcome classes of a received packet, as the model's [outcome].
const (
	ClassOK = iota
	ClassErr
	ClassPanic
	ClassDelegatedOK
	ClassDelegatedErr
)

// RecvObs is what one execution of OnRecvPacket showed.
type RecvObs struct {
	Class   int
	Success bool
	Ack     []byte
	Panic   string
	Events  []string
	After   Snapshot // state of the branch after the call (before commit / discard)
}

func (w *W) channelPacket(p Packet) channeltypes.Packet {
	return channeltypes.NewPacket(p.Data(), 1, p.SrcPort, p.SrcChan, p.DstPort, p.DstChan, clienttypes.NewHeight(1, 1000), 0)
}

// IsOrbiterFlow tells whether the middleware handled the packet itself; the harness decides it from
// what the property says (ICS-20 data whose receiver decodes to the orbiter account), not from the code.
func IsOrbiterFlow(p Packet) bool {
	var d transfertypes.FungibleTokenPacketData
	if err := transfertypes.ModuleCdc.UnmarshalJSON(p.Data(), &d); err != nil {
		return false
	}
	a, err := sdk.AccAddressFromBech32(d.Receiver)
	return err == nil && a.Equals(core.ModuleAddress)
}

func eventNames(ctx sdk.Context) []string {
	var out []string
	for _, e := range ctx.EventManager().Events() {
		out = append(out, e.Type)
	}
	return out
}

// recvOn runs the stack on a branch of ctx. The branch is written back only when the
// acknowledgement is a success, as ibc-go's RecvPacket does.
func (w *W) recvOn(ctx sdk.Context, stack porttypes.IBCModule, p Packet, commit bool) (obs RecvObs) {
	cctx, write := ctx.CacheContext()
	cctx = cctx.WithEventManager(sdk.NewEventManager())
	var ack ibcexported.Acknowledgement
	func() {
		defer func() {
			if r := recover(); r != nil {
				obs.Panic = fmt.Sprint(r)
			}
		}()
		ack = stack.OnRecvPacket(cctx, w.channelPacket(p), sdk.AccAddress(make([]byte, 20)))
	}()
	obs.Events = eventNames(cctx)
	if obs.Panic != "" {
		obs.Class = ClassPanic
		return
	}
	obs.Success = ack.Success()
	obs.Ack = ack.Acknowledgement()
	obs.After = w.Snap(cctx)
	if obs.Success && commit {
		write()
	}
	return
}

// classify refines success / error into the model's outcome using the recorded trace: a packet was
// delegated exactly when the middleware reached the wrapped application without doing anything else
// AND the harness-side reading of the packet says it is not addressed to the orbiter.
func classify(p Packet, obs *RecvObs, tr []Call) {
	if obs.Class == ClassPanic {
		return
	}
	delegated := !IsOrbiterFlow(p) && len(tr) == 1 && tr[0].Kind == "wrapped"
	switch {
	case delegated && obs.Success:
		obs.Class = ClassDelegatedOK
	case delegated:
		obs.Class = ClassDelegatedErr
	case obs.Success:
		obs.Class = ClassOK
	default:
		obs.Class = ClassErr
	}
}

// OpObs is the observation of one operation.
type OpObs struct {
	Op       Op
	Kind     string
	Recv     RecvObs // the committed execution
	Wired    RecvObs // the application as wired (when both were run)
	Trace    []Call
	Natural  []bool
	AppPanic bool
	// RefusedWrote: a message handler returned an error but had already changed the module state of its context
	RefusedWrote string
	// ExtPanic: the injected panic of an external call happened (Op.PanicAt within the calls the packet makes)
	ExtPanic bool
	Entered  bool // recv: the orbiter middleware was reached (blockibc in front of it did not refuse the packet)
	MsgOK    bool
	MsgErr   string
	MsgPan   string
	QueryV   cq.V
	QueryE   bool
	After    Snapshot
	Before   Snapshot
	Twin     *TwinObs
	// RefDiff: how the stack with the middleware differs from the stack without it ("" = identical)
	RefDiff string
	RefRan  bool
	// WiringDisagrees: the wired stack and the instrumented instance behaved differently (no fault injected)
	WiringDisagrees string
}

// TwinObs is the same packet on the same state with an emptied orbiter account.
type TwinObs struct {
	Class      int
	Ack        []byte
	Trace      []Call
	StateAfter StateObs
}

func (w *W) twin(ctx sdk.Context, op Op) *TwinObs {
	cctx, _ := ctx.CacheContext()
	sink := ModAddr("verif-sink")
	for _, d := range w.Denoms {
		b := w.S.App.BankKeeper.GetBalance(cctx, core.ModuleAddress, d)
		if b.IsPositive() {
			if err := w.S.App.BankKeeper.SendCoins(cctx, core.ModuleAddress, sink, sdk.NewCoins(b)); err != nil {
				return nil
			}
		}
	}
	var obs RecvObs
	rec := w.In.With(op.Plan, op.Lie, func() { obs = w.recvOn(cctx, w.In.Stack, op.Pkt, false) })
	classify(op.Pkt, &obs, rec.Trace)
	return &TwinObs{Class: obs.Class, Ack: obs.Ack, Trace: rec.Trace, StateAfter: obs.After.State}
}

// Digest hashes every KV store of the context (all modules): two branches with equal digests hold the same state.
func (w *W) Digest(ctx sdk.Context) string {
	h := sha256.New()
	keys := w.S.App.GetStoreKeys()
	sort.Slice(keys, func(i, j int) bool { return keys[i].Name() < keys[j].Name() })
	for _, k := range keys {
		kv, ok := k.(*storetypes.KVStoreKey)
		if !ok {
			continue
		}
		h.Write([]byte("store:" + kv.Name()))
		it := ctx.KVStore(kv).Iterator(nil, nil)
		for ; it.Valid(); it.Next() {
			var l [8]byte
			binary.BigEndian.PutUint64(l[:], uint64(len(it.Key())))
			h.Write(l[:])
			h.Write(it.Key())
			binary.BigEndian.PutUint64(l[:], uint64(len(it.Value())))
			h.Write(l[:])
			h.Write(it.Value())
		}
		it.Close()
	}
	return hex.EncodeToString(h.Sum(nil))
}

var ptrRe = regexp.MustCompile(`\{\d{9,}\}`)

func eventsString(ctx sdk.Context) string {
	var b strings.Builder
	for _, e := range ctx.EventManager().Events() {
		b.WriteString(e.Type)
		for _, a := range e.Attributes {
			fmt.Fprintf(&b, " %s=%s", a.Key, a.Value)
		}
		b.WriteString("\n")
	}
	return b.String()
}

// refCompare runs one IBC callback on the wired stack and on the stack without the orbiter middleware,
// on two branches of ctx, and describes the first difference.
func (w *W) refCompare(ctx sdk.Context, op Op) string {
	run := func(stack porttypes.IBCModule) (ack string, pan string, events string, digest string) {
		cctx, _ := ctx.CacheContext()
		cctx = cctx.WithEventManager(sdk.NewEventManager())
		func() {
			defer func() {
				if r := recover(); r != nil {
					pan = fmt.Sprint(r)
				}
			}()
			pkt := w.channelPacket(op.Pkt)
			rel := sdk.AccAddress(make([]byte, 20))
			switch op.Callback {
			case "":
				a := stack.OnRecvPacket(cctx, pkt, rel)
				if a != nil {
					ack = fmt.Sprintf("%v|%s", a.Success(), a.Acknowledgement())
				}
			case "ack-ok":
				err := stack.OnAcknowledgementPacket(cctx, pkt, channeltypes.NewResultAcknowledgement([]byte{1}).Acknowledgement(), rel)
				ack = fmt.Sprint(err)
			case "ack-err":
				err := stack.OnAcknowledgementPacket(cctx, pkt, channeltypes.NewErrorAcknowledgement(fmt.Errorf("x")).Acknowledgement(), rel)
				ack = fmt.Sprint(err)
			case "timeout":
				err := stack.OnTimeoutPacket(cctx, pkt, rel)
				ack = fmt.Sprint(err)
			}
		}()
		return ack, pan, eventsString(cctx), w.Digest(cctx)
	}
	a1, p1, e1, d1 := run(w.Wired)
	a2, p2, e2, d2 := run(w.Reference)
	// ibc-go formats a math.Int by value in one of its own error texts, which prints the address of the
	// big.Int inside it ("got {824675008896}"): not the orbiter's, canonicalised away
	e1, e2 = ptrRe.ReplaceAllString(e1, "{ptr}"), ptrRe.ReplaceAllString(e2, "{ptr}")
	switch {
	case p1 != p2:
		return fmt.Sprintf("panic with the middleware %q, without %q", p1, p2)
	case a1 != a2:
		return fmt.Sprintf("acknowledgement / result with the middleware %q, without %q", a1, a2)
	case e1 != e2:
		return fmt.Sprintf("events differ: with the middleware [%s], without [%s]", e1, e2)
	case d1 != d2:
		return "state after the call differs (store digest)"
	}
	return ""
}

// RunOp executes one operation on ctx (which is advanced in place when the operation commits).
func (w *W) RunOp(ctx sdk.Context, op Op) (o OpObs) {
	o.Op, o.Kind = op, op.Kind
	o.Before = w.Snap(ctx)
	switch op.Kind {
	case "recv":
		faulty := len(op.Plan) > 0 || op.Lie != 0 || w.InstOnly || op.InstOnly || op.PanicAt > 0
		if op.Ref && (!IsOrbiterFlow(op.Pkt) || op.Callback != "") {
			o.RefDiff, o.RefRan = w.refCompare(ctx, op), true
		}
		if op.Callback != "" {
			// only the differential run: the other callbacks are not modelled (they are the embedded module's)
			o.Kind = "callback"
			o.After = w.Snap(ctx)
			return
		}
		if op.Twin {
			o.Twin = w.twin(ctx, op)
		}
		var inst RecvObs
		rec := w.In.WithPanic(op.Plan, op.Lie, op.PanicAt, func() { inst = w.recvOn(ctx, w.In.Stack, op.Pkt, false) })
		classify(op.Pkt, &inst, rec.Trace)
		o.Trace, o.Natural, o.Entered, o.ExtPanic = rec.Trace, rec.Natural, rec.Entered, rec.Injected
		// a panic raised inside the wrapped ICS-20 application on a packet that is not the orbiter's
		// happens identically without the middleware: outside the orbiter and outside the model
		o.AppPanic = rec.InApp && !IsOrbiterFlow(op.Pkt)
		if faulty {
			// commit the instrumented execution
			w.In.WithPanic(op.Plan, op.Lie, op.PanicAt, func() { o.Recv = w.recvOn(ctx, w.In.Stack, op.Pkt, true) })
			classify(op.Pkt, &o.Recv, rec.Trace)
		} else {
			o.Wired = w.recvOn(ctx, w.Wired, op.Pkt, true)
			classify(op.Pkt, &o.Wired, rec.Trace)
			o.Recv = o.Wired
			if inst.Class != o.Wired.Class || (inst.Class != ClassPanic && !inst.After.Equal(o.Wired.After)) || string(inst.Ack) != string(o.Wired.Ack) {
				o.WiringDisagrees = fmt.Sprintf("wired: class %d ack %q / instrumented: class %d ack %q", o.Wired.Class, o.Wired.Ack, inst.Class, inst.Ack)
			}
		}
	case "msg":
		m := op.Msg.SDK()
		// instrumented, on a branch that is discarded
		rec := w.In.With(op.Plan, 0, func() {
			cctx, _ := ctx.CacheContext()
			var herr error
			func() {
				defer func() {
					if r := recover(); r != nil {
						herr = nil // a panic is judged on the router path below
					}
				}()
				switch x := m.(type) {
				case *forwardertypes.MsgPauseProtocol:
					_, herr = w.In.FwdMsg.PauseProtocol(cctx, x)
				case *forwardertypes.MsgUnpauseProtocol:
					_, herr = w.In.FwdMsg.UnpauseProtocol(cctx, x)
				case *forwardertypes.MsgPauseCrossChains:
					_, herr = w.In.FwdMsg.PauseCrossChains(cctx, x)
				case *forwardertypes.MsgUnpauseCrossChains:
					_, herr = w.In.FwdMsg.UnpauseCrossChains(cctx, x)
				case *forwardertypes.MsgReplaceDepositForBurn:
					_, herr = w.In.FwdMsg.ReplaceDepositForBurn(cctx, x)
				case *executortypes.MsgPauseAction:
					_, herr = w.In.ExecMsg.PauseAction(cctx, x)
				case *executortypes.MsgUnpauseAction:
					_, herr = w.In.ExecMsg.UnpauseAction(cctx, x)
				case *adaptertypes.MsgUpdateParams:
					_, herr = w.In.AdptMsg.UpdateParams(cctx, x)
				}
			}()
			if herr != nil {
				// a handler that refuses must not have written to the context it ran on (baseapp would drop the write,
				// but the handler's own contract - and any caller that is not baseapp - relies on it)
				if got := w.ObserveState(cctx); !got.V().Equal(o.Before.State.V()) {
					o.RefusedWrote = "the handler returned an error (" + herr.Error() + ") after writing to its context"
				}
			}
		})
		o.Trace, o.Natural = rec.Trace, rec.Natural
		// the application's own message router, with baseapp's per-message cache
		cctx, write := ctx.CacheContext()
		func() {
			defer func() {
				if r := recover(); r != nil {
					o.MsgPan = fmt.Sprint(r)
				}
			}()
			h := w.S.App.MsgServiceRouter().Handler(m)
			if h == nil {
				o.MsgErr = "no handler"
				return
			}
			_, err := h(cctx, m)
			if err != nil {
				o.MsgErr = err.Error()
				return
			}
			o.MsgOK = true
			write()
		}()
	case "deposit":
		coins := sdk.NewCoins(sdk.NewCoin(op.Denom, math.NewIntFromBigInt(op.Amount)))
		if err := w.S.MintUnchecked(ctx, op.To, coins); err != nil {
			o.MsgErr = err.Error()
		} else {
			o.MsgOK = true
			if op.EscrowChan != "" {
				// the deposit funds a channel escrow: ibc-go also keeps the total it has escrowed per denomination
				cur := w.S.App.TransferKeeper.GetTotalEscrowForDenom(ctx, op.Denom)
				w.S.App.TransferKeeper.SetTotalEscrowForDenom(ctx, cur.Add(coins[0]))
			}
		}
	case "send":
		// a user's bank MsgSend through the application's message router, with baseapp's per-message cache
		msg := &banktypes.MsgSend{FromAddress: op.From.String(), ToAddress: op.To.String(),
			Amount: sdk.NewCoins(sdk.NewCoin(op.Denom, math.NewIntFromBigInt(op.Amount)))}
		cctx, write := ctx.CacheContext()
		func() {
			defer func() {
				if r := recover(); r != nil {
					o.MsgPan = fmt.Sprint(r)
				}
			}()
			if _, err := w.S.App.MsgServiceRouter().Handler(msg)(cctx, msg); err != nil {
				o.MsgErr = err.Error()
			} else {
				write()
				o.MsgOK = true
			}
		}()
	case "query":
		o.QueryV, o.QueryE = w.query(ctx, op.Q)
	}
	o.After = w.Snap(ctx)
	return
}

// V is the projection compared with the model: see coq/Corr/RunWorld.v [run_op].
func (o OpObs) V() cq.V {
	tr := make([]cq.V, len(o.Trace))
	for i, c := range o.Trace {
		tr[i] = c.V()
	}
	switch o.Kind {
	case "recv":
		return cq.VL(cq.VZ(int64(o.Recv.Class)), cq.VL(tr...), bigsV(o.After.Bals), bigsV(o.After.Supply), o.After.State.V())
	case "msg":
		cls := int64(1)
		if o.MsgOK {
			cls = 0
		} else if o.MsgPan != "" {
			cls = 2
		}
		return cq.VL(cq.VZ(cls), cq.VL(tr...), bigsV(o.After.Bals), bigsV(o.After.Supply), o.After.State.V())
	case "deposit":
		return cq.VL(bigsV(o.After.Bals), bigsV(o.After.Supply))
	case "send":
		return cq.VL(cq.VB(o.MsgOK), bigsV(o.After.Bals), bigsV(o.After.Supply))
	case "query":
		if o.QueryE {
			return cq.VL(cq.VZ(1))
		}
		return cq.VL(cq.VZ(0), o.QueryV)
	case "callback":
		return cq.VL(bigsV(o.After.Bals), bigsV(o.After.Supply))
	}
	return cq.VL()
}

func (w *W) query(ctx sdk.Context, q Query) (v cq.V, failed bool) {
	defer func() {
		if r := recover(); r != nil {
			v, failed = cq.VL(), true
		}
	}()
	app := w.S.App
	fq := forwarderQuery(app)
	eq := executorQuery(app)
	aq := adapterQuery(app)
	switch q.Kind {
	case "IsProtocolPaused":
		r, err := fq.IsProtocolPaused(ctx, &forwardertypes.QueryIsProtocolPausedRequest{ProtocolId: q.ID})
		if err != nil {
			return cq.VL(), true
		}
		return cq.VB(r.IsPaused), false
	case "PausedProtocols":
		r, err := fq.PausedProtocols(ctx, &forwardertypes.QueryPausedProtocolsRequest{})
		if err != nil {
			return cq.VL(), true
		}
		l := []cq.V{}
		for _, p := range r.ProtocolIds {
			l = append(l, cq.VZ(int64(p)))
		}
		return cq.VL(l...), false
	case "IsCrossChainPaused":
		r, err := fq.IsCrossChainPaused(ctx, &forwardertypes.QueryIsCrossChainPausedRequest{ProtocolId: q.ID, CounterpartyId: q.CP})
		if err != nil {
			return cq.VL(), true
		}
		return cq.VB(r.IsPaused), false
	case "PausedCrossChains":
		// the listing is paginated (100 per page by default): follow the next keys to the end
		var all []string
		var key []byte
		for page := 0; page < 64; page++ {
			req := &forwardertypes.QueryPausedCrossChainsRequest{ProtocolId: q.ID}
			if key != nil {
				req.Pagination = &query.PageRequest{Key: key}
			}
			r, err := fq.PausedCrossChains(ctx, req)
			if err != nil {
				return cq.VL(), true
			}
			all = append(all, r.CounterpartyIds...)
			if r.Pagination == nil || len(r.Pagination.NextKey) == 0 {
				break
			}
			key = r.Pagination.NextKey
		}
		// ... and backwards, two per page: the same entries in the opposite order
		var back []string
		key = nil
		for page := 0; page < 200; page++ {
			req := &forwardertypes.QueryPausedCrossChainsRequest{ProtocolId: q.ID, Pagination: &query.PageRequest{Key: key, Limit: 2, Reverse: true}}
			r, err := fq.PausedCrossChains(ctx, req)
			if err != nil {
				return cq.VL(), true
			}
			back = append(back, r.CounterpartyIds...)
			if r.Pagination == nil || len(r.Pagination.NextKey) == 0 {
				break
			}
			key = r.Pagination.NextKey
		}
		same := len(back) == len(all)
		for i := 0; same && i < len(all); i++ {
			same = back[len(back)-1-i] == all[i]
		}
		if !same {
			return cq.VStrs(append(append([]string{}, all...), fmt.Sprintf("<the reverse walk visits %q>", back))), false
		}
		return cq.VStrs(all), false
	case "IsActionPaused":
		r, err := eq.IsActionPaused(ctx, &executortypes.QueryIsActionPausedRequest{ActionId: q.ID})
		if err != nil {
			return cq.VL(), true
		}
		return cq.VB(r.IsPaused), false
	case "PausedActions":
		r, err := eq.PausedActions(ctx, &executortypes.QueryPausedActionsRequest{})
		if err != nil {
			return cq.VL(), true
		}
		l := []cq.V{}
		for _, p := range r.ActionIds {
			l = append(l, cq.VZ(int64(p)))
		}
		return cq.VL(l...), false
	case "Params":
		r, err := aq.Params(ctx, &adaptertypes.QueryParamsRequest{})
		if err != nil {
			return cq.VL(), true
		}
		return cq.VZ(int64(r.Params.MaxPassthroughPayloadSize)), false
	}
	return cq.VL(), true
}

// ---------------------------------------------------------------------------------------------
// payloads -> Coq
// ---------------------------------------------------------------------------------------------

func intOrZero(i math.Int) *big.Int {
	if i.IsNil() {
		return new(big.Int)
	}
	return i.BigInt()
}

// AttrsCoq renders the cached value of an attributes Any as the model's [attrs].
func AttrsCoq(v any, typeURL string) string {
	switch a := v.(type) {
	case *forwardingtypes.CCTPAttributes:
		return fmt.Sprintf("(ACctp %d %s %s)", a.DestinationDomain, cq.Bytes(a.MintRecipient), cq.Bytes(a.DestinationCaller))
	case *forwardingtypes.HypAttributes:
		return fmt.Sprintf("(AHyp %s %d %s %s %s %s %s %s)", cq.Bytes(a.TokenId), a.DestinationDomain, cq.Bytes(a.Recipient),
			cq.Bytes(a.CustomHookId), cq.Str(a.CustomHookMetadata), cq.Z(intOrZero(a.GasLimit)), cq.Str(a.MaxFee.Denom), cq.Z(intOrZero(a.MaxFee.Amount)))
	case *forwardingtypes.InternalAttributes:
		return "(AInternal " + cq.Str(a.Recipient) + ")"
	case *actiontypes.FeeAttributes:
		items := make([]string, len(a.FeesInfo))
		for i, f := range a.FeesInfo {
			items[i] = FeeInfoCoq(f)
		}
		return "(AFee " + cq.List(items) + ")"
	}
	return "(AOther " + cq.Str(typeURL) + ")"
}

func FeeInfoCoq(f *actiontypes.FeeInfo) string {
	if f == nil {
		return "None"
	}
	t := "None"
	switch x := f.FeeType.(type) {
	case *actiontypes.FeeInfo_BasisPoints_:
		if x == nil || x.BasisPoints == nil {
			t = "(Some FBpsNil)"
		} else {
			t = fmt.Sprintf("(Some (FBps %d))", x.BasisPoints.Value)
		}
	case *actiontypes.FeeInfo_Amount_:
		if x == nil || x.Amount == nil {
			t = "(Some FAmountNil)"
		} else {
			t = "(Some (FAmount " + cq.Str(x.Amount.Value) + "))"
		}
	}
	return fmt.Sprintf("(Some {| fi_recipient := %s; fi_type := %s |})", cq.Str(f.Recipient), t)
}

// PayloadCoq renders a payload (as the decoder delivers it) as the model's [payload].
func PayloadCoq(p *core.Payload) string {
	acts := make([]string, len(p.PreActions))
	for i, a := range p.PreActions {
		if a == nil {
			acts[i] = "None"
			continue
		}
		attrs := "None"
		if a.Attributes != nil {
			attrs = "(Some " + AttrsCoq(a.Attributes.GetCachedValue(), a.Attributes.TypeUrl) + ")"
		}
		acts[i] = fmt.Sprintf("(Some {| a_id := %d; a_attrs := %s |})", int32(a.Id), attrs)
	}
	fwd := "None"
	if f := p.Forwarding; f != nil {
		attrs := "None"
		if f.Attributes != nil {
			attrs = "(Some " + AttrsCoq(f.Attributes.GetCachedValue(), f.Attributes.TypeUrl) + ")"
		}
		fwd = fmt.Sprintf("(Some {| f_pid := %d; f_attrs := %s; f_pass := %s |})", int32(f.ProtocolId), attrs, cq.Bytes(f.PassthroughPayload))
	}
	return fmt.Sprintf("{| p_pre := %s; p_fwd := %s |}", cq.List(acts), fwd)
}

// MemoCoq is what JSONParser.Parse returns for a memo, as the model's [res payload] (the decoder is
// modelled separately, Model/Json.v; the pipeline model starts from its result).
func (w *W) MemoCoq(memo string) (term string, parsed *core.Payload) {
	defer func() {
		if r := recover(); r != nil {
			term, parsed = `(Panic "JSONParser.Parse")`, nil
		}
	}()
	p, err := w.parser.Parse(memo)
	if err != nil || p == nil {
		return `(Err "memo")`, nil
	}
	return "(Ok " + PayloadCoq(p) + ")", p
}

func forwarderQuery(app *simapp.SimApp) forwardertypes.QueryServer {
	return forwardercomp.NewQueryServer(app.OrbiterKeeper.Forwarder())
}
func executorQuery(app *simapp.SimApp) executortypes.QueryServer {
	return executorcomp.NewQueryServer(app.OrbiterKeeper.Executor())
}
func adapterQuery(app *simapp.SimApp) adaptertypes.QueryServer {
	return adaptercomp.NewQueryServer(app.OrbiterKeeper.Adapter())
}

// ---------------------------------------------------------------------------------------------
// helpers for case files
// ---------------------------------------------------------------------------------------------

// Bech32Table renders the graph of sdk.AccAddressFromBech32 on the given strings.
func Bech32Table(strs []string) string {
	seen := map[string]bool{}
	var items []string
	sorted := append([]string{}, strs...)
	sort.Strings(sorted)
	for _, s := range sorted {
		if seen[s] {
			continue
		}
		seen[s] = true
		a, err := sdk.AccAddressFromBech32(s)
		if err != nil {
			items = append(items, cq.Pair(cq.Str(s), "None"))
		} else {
			items = append(items, cq.Pair(cq.Str(s), "(Some "+cq.Str(hex.EncodeToString(a))+")"))
		}
	}
	return cq.List(items)
}

// IntTable renders the graph of math.NewIntFromString on the given strings.
func IntTable(strs []string) string {
	seen := map[string]bool{}
	var items []string
	sorted := append([]string{}, strs...)
	sort.Strings(sorted)
	for _, s := range sorted {
		if seen[s] {
			continue
		}
		seen[s] = true
		v, ok := math.NewIntFromString(s)
		if !ok {
			items = append(items, cq.Pair(cq.Str(s), "None"))
		} else {
			items = append(items, cq.Pair(cq.Str(s), "(Some "+cq.Z(v.BigInt())+")"))
		}
	}
	return cq.List(items)
}

func PacketCoq(p Packet, memoTerm string) string {
	data := "PRaw"
	var d transfertypes.FungibleTokenPacketData
	if err := transfertypes.ModuleCdc.UnmarshalJSON(p.Data(), &d); err == nil {
		data = fmt.Sprintf("(PIcs %s %s %s %s %s)", cq.Str(d.Denom), cq.Str(d.Amount), cq.Str(d.Sender), cq.Str(d.Receiver), memoTerm)
	}
	return fmt.Sprintf("{| pk_sport := %s; pk_schan := %s; pk_dport := %s; pk_dchan := %s; pk_data := %s |}",
		cq.Str(p.SrcPort), cq.Str(p.SrcChan), cq.Str(p.DstPort), cq.Str(p.DstChan), data)
}

func boolsCoq(bs []bool) string {
	items := make([]string, len(bs))
	for i, b := range bs {
		items[i] = cq.Bool(b)
	}
	return cq.List(items)
}

// OpCoq renders an executed operation as the model's [op]; the tape of a packet or message is the
// list of verdicts its external calls actually received.
func OpCoq(o OpObs, memoTerm string) string {
	verdicts := make([]bool, len(o.Trace))
	for i, c := range o.Trace {
		verdicts[i] = c.OK
	}
	switch o.Kind {
	case "recv":
		if !o.Entered {
			return "OBlockedOutside"
		}
		if o.AppPanic {
			return "OAppPanics"
		}
		if o.ExtPanic && o.Recv.Class == ClassPanic {
			// (a panic of the Hyperlane handler is recovered by its controller and is a failed call like any other)
			// the verdicts of the calls before the one that panicked; the model cuts its own trace after that one
			return fmt.Sprintf("OExtPanics %s %s %s %d%%nat", PacketCoq(o.Op.Pkt, memoTerm), boolsCoq(verdicts[:len(verdicts)-1]), cq.ZI(o.Op.Lie), len(verdicts))
		}
		return fmt.Sprintf("ORecv %s %s %s", PacketCoq(o.Op.Pkt, memoTerm), boolsCoq(verdicts), cq.ZI(o.Op.Lie))
	case "msg":
		return fmt.Sprintf("OMsg %s %s %s", cq.Str(o.Op.Msg.Signer), o.Op.Msg.Coq(), boolsCoq(verdicts))
	case "deposit":
		if !o.MsgOK {
			// the deposit did not happen (the denomination's supply is at the 256-bit limit)
			return fmt.Sprintf("ODeposit %s %s 0", cq.Str(Hex(o.Op.To)), cq.Str(o.Op.Denom))
		}
		return fmt.Sprintf("ODeposit %s %s %s", cq.Str(Hex(o.Op.To)), cq.Str(o.Op.Denom), cq.Z(o.Op.Amount))
	case "send":
		return fmt.Sprintf("OSend %s %s %s %s", cq.Str(Hex(o.Op.From)), cq.Str(Hex(o.Op.To)), cq.Str(o.Op.Denom), cq.Z(o.Op.Amount))
	case "query":
		return "OQuery " + o.Op.Q.Coq()
	case "callback":
		return "OCallback"
	}
	return "?"
}

var _ = strings.ToUpper

// Parse is the real JSONParser.Parse.
func (w *W) Parse(memo string) (*core.Payload, error) { return w.parser.Parse(memo) }

// ParsePayload is the real IBCParser.ParsePayload (Parse, then Payload.Validate).
func (w *W) ParsePayload(memo string) (p *core.Payload, err error) {
	p, err = w.parser.Parse(memo)
	if err != nil {
		return nil, err
	}
	if err := p.Validate(); err != nil {
		return p, err
	}
	return p, nil
}

// Transcript runs one operation on the application as wired (no instrumentation), committing what the
// chain would commit, and returns everything a node exposes about it: acknowledgement bytes, panic
// text, ABCI events with their attributes in order, message results, query results.  Event text that
// does not come from the orbiter is cleared of Go pointer values ibc-go prints (ptrRe).
func (w *W) Transcript(ctx sdk.Context, op Op) string {
	var b strings.Builder
	events := func(c sdk.Context) {
		for _, e := range c.EventManager().Events() {
			line := e.Type
			for _, a := range e.Attributes {
				line += " " + a.Key + "=" + a.Value
			}
			if !strings.HasPrefix(e.Type, "noble.orbiter") {
				line = ptrRe.ReplaceAllString(line, "{ptr}")
			}
			b.WriteString("  event " + line + "\n")
		}
	}
	switch op.Kind {
	case "recv":
		if op.Callback != "" {
			return "callback (not replayed)\n"
		}
		cctx, write := ctx.CacheContext()
		cctx = cctx.WithEventManager(sdk.NewEventManager())
		var ack ibcexported.Acknowledgement
		pan := ""
		func() {
			defer func() {
				if r := recover(); r != nil {
					pan = fmt.Sprint(r)
				}
			}()
			ack = w.Wired.OnRecvPacket(cctx, w.channelPacket(op.Pkt), sdk.AccAddress(make([]byte, 20)))
		}()
		if pan != "" {
			if !IsOrbiterFlow(op.Pkt) {
				pan = "(outside the orbiter)"
			}
			fmt.Fprintf(&b, "recv panic %s\n", pan)
			return b.String()
		}
		fmt.Fprintf(&b, "recv ack %x success=%v\n", ack.Acknowledgement(), ack.Success())
		events(cctx)
		if ack.Success() {
			write()
		}
	case "msg":
		m := op.Msg.SDK()
		cctx, write := ctx.CacheContext()
		cctx = cctx.WithEventManager(sdk.NewEventManager())
		func() {
			defer func() {
				if r := recover(); r != nil {
					fmt.Fprintf(&b, "msg panic %v\n", r)
				}
			}()
			h := w.S.App.MsgServiceRouter().Handler(m)
			if h == nil {
				b.WriteString("msg no handler\n")
				return
			}
			res, err := h(cctx, m)
			if err != nil {
				fmt.Fprintf(&b, "msg error %s\n", err.Error())
				return
			}
			fmt.Fprintf(&b, "msg ok data=%x\n", res.Data)
			events(cctx)
			write()
		}()
	case "deposit":
		coins := sdk.NewCoins(sdk.NewCoin(op.Denom, math.NewIntFromBigInt(op.Amount)))
		if err := w.S.MintUnchecked(ctx, op.To, coins); err != nil {
			b.WriteString("deposit error\n")
		} else {
			b.WriteString("deposit ok\n")
		}
	case "query":
		v, failed := w.query(ctx, op.Q)
		fmt.Fprintf(&b, "query failed=%v %s\n", failed, v.Coq())
	}
	return b.String()
}

// FinalTranscript is the state a node would export: the orbiter's genesis JSON and a digest of every store.
func (w *W) FinalTranscript(ctx sdk.Context) string {
	g := w.S.App.OrbiterKeeper.ExportGenesis(ctx)
	bz, err := w.S.App.OrbiterKeeper.Codec().MarshalJSON(g)
	if err != nil {
		bz = []byte("export error: " + err.Error())
	}
	return "export " + string(bz) + "\nstores " + w.DeltaDigest(ctx) + "\n"
}

// DeltaDigest hashes every key of every store whose value differs from the booted application's
// (the boot state itself holds per-process random material: validator keys).
func (w *W) DeltaDigest(ctx sdk.Context) string {
	h := sha256.New()
	keys := w.S.App.GetStoreKeys()
	sort.Slice(keys, func(i, j int) bool { return keys[i].Name() < keys[j].Name() })
	put := func(tag string, k, v []byte) {
		var l [8]byte
		h.Write([]byte(tag))
		binary.BigEndian.PutUint64(l[:], uint64(len(k)))
		h.Write(l[:])
		h.Write(k)
		binary.BigEndian.PutUint64(l[:], uint64(len(v)))
		h.Write(l[:])
		h.Write(v)
	}
	for _, k := range keys {
		kv, ok := k.(*storetypes.KVStoreKey)
		if !ok {
			continue
		}
		h.Write([]byte("store:" + kv.Name()))
		base := w.S.Ctx.KVStore(kv)
		cur := ctx.KVStore(kv)
		it := cur.Iterator(nil, nil)
		for ; it.Valid(); it.Next() {
			if !bytes.Equal(base.Get(it.Key()), it.Value()) {
				put("set", it.Key(), it.Value())
			}
		}
		it.Close()
		it = base.Iterator(nil, nil)
		for ; it.Valid(); it.Next() {
			if !cur.Has(it.Key()) {
				put("del", it.Key(), nil)
			}
		}
		it.Close()
	}
	return hex.EncodeToString(h.Sum(nil))
}
