// Package world runs operation sequences (packets, admin messages, deposits, queries) on the real
// application and records what the property theorems talk about.
//
// Two executions share one state: the transfer stack exactly as simapp wires it, and a second,
// instrumented orbiter instance built from the same exported constructors on the SAME store, whose
// collaborators (bank keeper, wrapped ICS-20 module, CCTP / warp / bank message servers, event
// service) are wrapped by recorders that log every request and can make the k-th call fail.
package world

import (
	"context"
	"errors"
	"fmt"
	"strings"

	"github.com/circlefin/noble-fiattokenfactory/x/blockibc"

	warpkeeper "github.com/bcp-innovations/hyperlane-cosmos/x/warp/keeper"
	warptypes "github.com/bcp-innovations/hyperlane-cosmos/x/warp/types"
	cctpkeeper "github.com/circlefin/noble-cctp/x/cctp/keeper"
	cctptypes "github.com/circlefin/noble-cctp/x/cctp/types"

	"cosmossdk.io/core/event"
	"cosmossdk.io/log"
	storetypes "cosmossdk.io/store/types"
	addresscodec "github.com/cosmos/cosmos-sdk/codec/address"
	"github.com/cosmos/cosmos-sdk/runtime"
	sdk "github.com/cosmos/cosmos-sdk/types"
	bankkeeper "github.com/cosmos/cosmos-sdk/x/bank/keeper"
	banktypes "github.com/cosmos/cosmos-sdk/x/bank/types"
	"github.com/cosmos/gogoproto/proto"
	"google.golang.org/protobuf/runtime/protoiface"
	"github.com/cosmos/ibc-go/v8/modules/apps/transfer"
	channeltypes "github.com/cosmos/ibc-go/v8/modules/core/04-channel/types"
	porttypes "github.com/cosmos/ibc-go/v8/modules/core/05-port/types"
	ibcexported "github.com/cosmos/ibc-go/v8/modules/core/exported"

	actionctrl "github.com/noble-assets/orbiter/v2/controller/action"
	adapterctrl "github.com/noble-assets/orbiter/v2/controller/adapter"
	forwardingctrl "github.com/noble-assets/orbiter/v2/controller/forwarding"
	"github.com/noble-assets/orbiter/v2/entrypoint"
	"github.com/noble-assets/orbiter/v2/keeper"
	adaptercomp "github.com/noble-assets/orbiter/v2/keeper/component/adapter"
	executorcomp "github.com/noble-assets/orbiter/v2/keeper/component/executor"
	forwardercomp "github.com/noble-assets/orbiter/v2/keeper/component/forwarder"
	orbtypes "github.com/noble-assets/orbiter/v2/types"
	adaptertypes "github.com/noble-assets/orbiter/v2/types/component/adapter"
	executortypes "github.com/noble-assets/orbiter/v2/types/component/executor"
	forwardertypes "github.com/noble-assets/orbiter/v2/types/component/forwarder"
	forwardingtypes "github.com/noble-assets/orbiter/v2/types/controller/forwarding"
	"github.com/noble-assets/orbiter/v2/types/core"

	"verif/harness/internal/cq"
	"verif/harness/internal/sim"
)

// Call is one recorded external call: its kind, its full request rendered as projection values,
// and whether it succeeded.
type Call struct {
	Kind string
	Args []cq.V
	OK   bool
}

func (c Call) V() cq.V {
	items := append([]cq.V{cq.VS(c.Kind)}, c.Args...)
	return cq.VL(append(items, cq.VB(c.OK))...)
}

func (c Call) String() string { return fmt.Sprintf("%s%v ok=%v", c.Kind, cq.VL(c.Args...).JSON(), c.OK) }

// Rec is the recorder shared by all wrappers of the instrumented instance.
type Rec struct {
	Plan    []bool // verdict of the i-th fallible call; missing entries mean "let the real call decide"
	Lie     int64  // added to the GetBalance answer about the orbiter account (0: honest)
	Trace   []Call
	Natural []bool // per call: true when the failure came from the real callee, not from the plan
	Entered bool   // the orbiter middleware's OnRecvPacket was called
	InApp   bool   // set while the wrapped ICS-20 application runs (a panic that leaves it set is the application's)
	// PanicAt, when positive, makes the PanicAt-th external call (bank, CCTP, Warp, events - not the wrapped
	// application) panic instead of returning: an external module may panic; Injected reports that it happened
	PanicAt  int
	Injected bool
}

var errInjected = errors.New("injected fault")

// begin decides the verdict of the next call: (true, nil) lets the real call happen.
func (r *Rec) begin() bool {
	i := len(r.Trace)
	if i < len(r.Plan) && !r.Plan[i] {
		return false
	}
	return true
}

func (r *Rec) done(kind string, ok, natural bool, args ...cq.V) {
	r.Trace = append(r.Trace, Call{Kind: kind, Args: args, OK: ok})
	r.Natural = append(r.Natural, natural)
}

// around runs one fallible call under the plan.
func (r *Rec) around(kind string, args []cq.V, real func() error) error {
	if r.PanicAt > 0 && len(r.Trace) == r.PanicAt-1 && kind != "wrapped" {
		r.done(kind, false, false, args...)
		r.Injected = true
		panic("injected: the external module panics (" + kind + ")")
	}
	if !r.begin() {
		r.done(kind, false, false, args...)
		return errInjected
	}
	// reserve the slot first: nested recorded calls (none today) would otherwise shift indices
	idx := len(r.Trace)
	r.Trace = append(r.Trace, Call{Kind: kind, Args: args, OK: true})
	r.Natural = append(r.Natural, false)
	defer func() {
		// a callee that panics did not succeed, whoever recovers further up
		if x := recover(); x != nil {
			if kind != "wrapped" { // (a panic of the wrapped ICS-20 application is outside the orbiter: OAppPanics)
				r.Trace[idx].OK = false
				r.Natural[idx] = true
			}
			panic(x)
		}
	}()
	err := real()
	if err != nil {
		r.Trace[idx].OK = false
		r.Natural[idx] = true
	}
	return err
}

// ---------------------------------------------------------------------------------------------
// wrappers
// ---------------------------------------------------------------------------------------------

// The wrappers embed what they wrap, so that a method the repository adds to one of its expected-keeper
// interfaces is passed through and the harness keeps building.
type recBank struct {
	bankkeeper.Keeper
	rec **Rec
}

func coinsV(c sdk.Coins) cq.V {
	l := make([]cq.V, len(c))
	for i, x := range c {
		l[i] = cq.VL(cq.VS(x.Denom), cq.VBig(x.Amount.BigInt()))
	}
	return cq.VL(l...)
}

func (b recBank) GetBalance(ctx context.Context, addr sdk.AccAddress, denom string) sdk.Coin {
	c := b.Keeper.GetBalance(ctx, addr, denom)
	if r := *b.rec; r != nil && r.Lie != 0 && addr.Equals(core.ModuleAddress) {
		c.Amount = c.Amount.AddRaw(r.Lie)
	}
	return c
}

func (b recBank) SendCoinsFromModuleToModule(ctx context.Context, from, to string, amt sdk.Coins) error {
	return (*b.rec).around("sweep", []cq.V{cq.VS(from), cq.VS(to), coinsV(amt)}, func() error {
		return b.Keeper.SendCoinsFromModuleToModule(ctx, from, to, amt)
	})
}

func (b recBank) SendCoins(ctx context.Context, from, to sdk.AccAddress, amt sdk.Coins) error {
	return (*b.rec).around("feesend", []cq.V{cq.VS(Hex(from)), cq.VS(Hex(to)), coinsV(amt)}, func() error {
		return b.Keeper.SendCoins(ctx, from, to, amt)
	})
}

type recEvents struct {
	real event.Service
	rec  **Rec
}

func (e recEvents) EventManager(ctx context.Context) event.Manager {
	return recEventManager{real: e.real.EventManager(ctx), rec: e.rec}
}

type recEventManager struct {
	real event.Manager
	rec  **Rec
}

func shortName(m protoiface.MessageV1) string {
	n := proto.MessageName(m)
	if i := strings.LastIndex(n, "."); i >= 0 {
		n = n[i+1:]
	}
	return n
}

func (m recEventManager) Emit(ctx context.Context, ev protoiface.MessageV1) error {
	return (*m.rec).around("emit", []cq.V{cq.VS(shortName(ev))}, func() error { return m.real.Emit(ctx, ev) })
}
func (m recEventManager) EmitKV(ctx context.Context, t string, attrs ...event.Attribute) error {
	return (*m.rec).around("emit", []cq.V{cq.VS(t)}, func() error { return m.real.EmitKV(ctx, t, attrs...) })
}
func (m recEventManager) EmitNonConsensus(ctx context.Context, ev protoiface.MessageV1) error {
	return m.real.EmitNonConsensus(ctx, ev)
}

type recCCTP struct {
	cctptypes.MsgServer
	rec **Rec
}

func optBytes(b []byte) cq.V {
	if len(b) == 0 {
		return cq.VNone()
	}
	return cq.VSome(cq.VS(string(b)))
}

func (c recCCTP) DepositForBurn(ctx context.Context, m *cctptypes.MsgDepositForBurn) (resp *cctptypes.MsgDepositForBurnResponse, err error) {
	err = (*c.rec).around("cctp", []cq.V{cq.VS(m.From), cq.VBig(m.Amount.BigInt()), cq.VU(uint64(m.DestinationDomain)),
		cq.VS(string(m.MintRecipient)), cq.VS(m.BurnToken), cq.VNone()}, func() error {
		var e error
		resp, e = c.MsgServer.DepositForBurn(ctx, m)
		return e
	})
	return
}

func (c recCCTP) DepositForBurnWithCaller(ctx context.Context, m *cctptypes.MsgDepositForBurnWithCaller) (resp *cctptypes.MsgDepositForBurnWithCallerResponse, err error) {
	err = (*c.rec).around("cctp", []cq.V{cq.VS(m.From), cq.VBig(m.Amount.BigInt()), cq.VU(uint64(m.DestinationDomain)),
		cq.VS(string(m.MintRecipient)), cq.VS(m.BurnToken), cq.VSome(cq.VS(string(m.DestinationCaller)))}, func() error {
		var e error
		resp, e = c.MsgServer.DepositForBurnWithCaller(ctx, m)
		return e
	})
	return
}

func (c recCCTP) ReplaceDepositForBurn(ctx context.Context, m *cctptypes.MsgReplaceDepositForBurn) (resp *cctptypes.MsgReplaceDepositForBurnResponse, err error) {
	err = (*c.rec).around("cctpreplace", []cq.V{cq.VS(m.From), cq.VS(string(m.OriginalMessage)), cq.VS(string(m.OriginalAttestation)),
		cq.VS(string(m.NewDestinationCaller)), cq.VS(string(m.NewMintRecipient))}, func() error {
		var e error
		resp, e = c.MsgServer.ReplaceDepositForBurn(ctx, m)
		return e
	})
	return
}

type recHyp struct {
	warptypes.MsgServer
	warptypes.QueryServer
	rec **Rec
}

func (h recHyp) Token(ctx context.Context, q *warptypes.QueryTokenRequest) (resp *warptypes.QueryTokenResponse, err error) {
	err = (*h.rec).around("hyptoken", []cq.V{cq.VS(q.Id)}, func() error {
		var e error
		resp, e = h.QueryServer.Token(ctx, q)
		return e
	})
	return
}

func (h recHyp) RemoteTransfer(ctx context.Context, m *warptypes.MsgRemoteTransfer) (resp *warptypes.MsgRemoteTransferResponse, err error) {
	hook := cq.VNone()
	if m.CustomHookId != nil {
		hook = cq.VSome(cq.VS(string(m.CustomHookId.Bytes())))
	}
	gas := cq.VZ(0)
	if !m.GasLimit.IsNil() {
		gas = cq.VBig(m.GasLimit.BigInt())
	}
	feeAmt := cq.VZ(0)
	if !m.MaxFee.Amount.IsNil() {
		feeAmt = cq.VBig(m.MaxFee.Amount.BigInt())
	}
	err = (*h.rec).around("hyptransfer", []cq.V{cq.VS(m.Sender), cq.VS(string(m.TokenId.Bytes())), cq.VU(uint64(m.DestinationDomain)),
		cq.VS(string(m.Recipient.Bytes())), cq.VBig(m.Amount.BigInt()), hook, gas, cq.VS(m.MaxFee.Denom), feeAmt,
		cq.VS(m.CustomHookMetadata)}, func() error {
		var e error
		resp, e = h.MsgServer.RemoteTransfer(ctx, m)
		return e
	})
	return
}

type recInternal struct {
	banktypes.MsgServer
	rec **Rec
}

func (i recInternal) Send(ctx context.Context, m *banktypes.MsgSend) (resp *banktypes.MsgSendResponse, err error) {
	err = (*i.rec).around("banksend", []cq.V{cq.VS(m.FromAddress), cq.VS(m.ToAddress), coinsV(m.Amount)}, func() error {
		var e error
		resp, e = i.MsgServer.Send(ctx, m)
		return e
	})
	return
}

// entryFlag sits between blockibc and the orbiter middleware and notes that the latter was reached
// (blockibc refuses some packets itself; that is outside the orbiter and outside the model).
type entryFlag struct {
	porttypes.IBCModule
	rec **Rec
}

func (e entryFlag) OnRecvPacket(ctx sdk.Context, p channeltypes.Packet, relayer sdk.AccAddress) ibcexported.Acknowledgement {
	(*e.rec).Entered = true
	return e.IBCModule.OnRecvPacket(ctx, p, relayer)
}

// recApp wraps the ICS-20 application: only OnRecvPacket is intercepted.
type recApp struct {
	porttypes.IBCModule
	rec **Rec
}

func (a recApp) OnRecvPacket(ctx sdk.Context, p channeltypes.Packet, relayer sdk.AccAddress) (ack ibcexported.Acknowledgement) {
	_ = (*a.rec).around("wrapped", nil, func() error {
		(*a.rec).InApp = true
		ack = a.IBCModule.OnRecvPacket(ctx, p, relayer)
		(*a.rec).InApp = false
		if ack == nil || !ack.Success() {
			return errors.New("unsuccessful acknowledgement")
		}
		return nil
	})
	if ack == nil {
		ack = channeltypes.NewErrorAcknowledgement(errInjected)
	}
	return ack
}

// ---------------------------------------------------------------------------------------------
// the instrumented instance
// ---------------------------------------------------------------------------------------------

// Inst is a second orbiter instance on the same store as the application's keeper.
type Inst struct {
	Keeper *keeper.Keeper
	Stack  porttypes.IBCModule // blockibc ∘ orbiter(instrumented) ∘ recorder(transfer)
	rec    *Rec

	FwdMsg  forwardertypes.MsgServer
	ExecMsg executortypes.MsgServer
	AdptMsg adaptertypes.MsgServer
}

// ExtraAction lets a family register one more action controller (C06).
type ExtraAction func(bank RecBank, ev event.Service) orbtypes.ActionController

// RecBank is what an extra controller may use of the recording bank wrapper.
type RecBank interface {
	GetBalance(ctx context.Context, addr sdk.AccAddress, denom string) sdk.Coin
	SendCoins(ctx context.Context, from, to sdk.AccAddress, amt sdk.Coins) error
}

// NewInst wires the instrumented instance.
func NewInst(s *sim.Sim, extra ...ExtraAction) (*Inst, error) {
	app := s.App
	in := &Inst{rec: &Rec{}}
	key, ok := app.UnsafeFindStoreKey(core.ModuleName).(*storetypes.KVStoreKey)
	if !ok || key == nil {
		return nil, errors.New("orbiter store key not found")
	}
	bank := recBank{Keeper: app.BankKeeper, rec: &in.rec}
	events := recEvents{real: runtime.EventService{}, rec: &in.rec}
	k := keeper.NewKeeper(app.OrbiterKeeper.Codec(), addresscodec.NewBech32Codec("noble"), log.NewNopLogger(), events,
		runtime.NewKVStoreService(key), app.OrbiterKeeper.Authority(), bank)

	fee, err := actionctrl.NewFeeController(k.Executor().Logger(), k.Executor().EventService(), bank)
	if err != nil {
		return nil, err
	}
	actions := []orbtypes.ActionController{fee}
	for _, x := range extra {
		actions = append(actions, x(bank, events))
	}
	if err := k.SetActionControllers(actions...); err != nil {
		return nil, err
	}
	cctp, err := forwardingctrl.NewCCTPController(k.Forwarder().Logger(),
		recCCTP{MsgServer: cctpkeeper.NewMsgServerImpl(app.CCTPKeeper), rec: &in.rec})
	if err != nil {
		return nil, err
	}
	hyp, err := forwardingctrl.NewHyperlaneController(k.Forwarder().Logger(),
		recHyp{MsgServer: warpkeeper.NewMsgServerImpl(app.WarpKeeper), QueryServer: warpkeeper.NewQueryServerImpl(app.WarpKeeper), rec: &in.rec})
	if err != nil {
		return nil, err
	}
	internal, err := forwardingctrl.NewInternalController(k.Forwarder().Logger(),
		recInternal{MsgServer: bankkeeper.NewMsgServerImpl(app.BankKeeper), rec: &in.rec})
	if err != nil {
		return nil, err
	}
	if err := k.SetForwardingControllers(cctp, hyp, internal); err != nil {
		return nil, err
	}
	ibc, err := adapterctrl.NewIBCAdapter(k.Codec(), k.Adapter().Logger())
	if err != nil {
		return nil, err
	}
	if err := k.SetAdapterControllers(ibc); err != nil {
		return nil, err
	}
	var stack porttypes.IBCModule = recApp{IBCModule: transfer.NewIBCModule(app.TransferKeeper), rec: &in.rec}
	stack = entrypoint.NewIBCMiddleware(stack, app.IBCKeeper.ChannelKeeper, k.Adapter())
	stack = entryFlag{IBCModule: stack, rec: &in.rec}
	stack = blockibc.NewIBCMiddleware(stack, app.FTFKeeper)
	in.Keeper, in.Stack = k, stack
	in.FwdMsg = forwardercomp.NewMsgServer(k.Forwarder(), k)
	in.ExecMsg = executorcomp.NewMsgServer(k.Executor(), k)
	in.AdptMsg = adaptercomp.NewMsgServer(k.Adapter(), k)
	_ = forwardingtypes.NewHyperlaneHandler
	return in, nil
}

// KeeperWithoutAuthority tries to construct an orbiter keeper on the application's store with the given authority
// string (empty, malformed): the constructor must refuse it (it panics). When it does not, the keeper's own check of
// a signer is returned, so that the caller can ask whether anybody - in particular the empty signer - passes it.
func KeeperWithoutAuthority(s *sim.Sim, authority string) (accepted bool, requireAuthority func(string) error) {
	defer func() {
		if r := recover(); r != nil {
			accepted, requireAuthority = false, nil
		}
	}()
	key := s.App.UnsafeFindStoreKey("orbiter")
	k := keeper.NewKeeper(s.App.OrbiterKeeper.Codec(), addresscodec.NewBech32Codec("noble"), log.NewNopLogger(), runtime.EventService{},
		runtime.NewKVStoreService(key.(*storetypes.KVStoreKey)), authority, s.App.BankKeeper)
	if k == nil {
		return false, nil
	}
	return true, k.RequireAuthority
}

// With runs f with a fresh recorder carrying the given plan and returns what was recorded.
func (in *Inst) With(plan []bool, lie int64, f func()) *Rec { return in.WithPanic(plan, lie, 0, f) }

// WithPanic is With plus an external call that panics.
func (in *Inst) WithPanic(plan []bool, lie int64, panicAt int, f func()) *Rec {
	r := &Rec{Plan: plan, Lie: lie, PanicAt: panicAt}
	in.rec = r
	defer func() { in.rec = &Rec{} }()
	f()
	return r
}

// Hex renders account bytes the way the model names accounts.
func Hex(a []byte) string { return fmt.Sprintf("%x", a) }
