// Package sim boots the real simapp.SimApp in process (MemDB) and exposes the pieces the
// correspondence harness needs. Nothing here is a mock: every keeper is the one the app wires.
package sim

import (
	"encoding/json"
	"fmt"
	"math/big"
	"sync"
	"time"

	"cosmossdk.io/log"
	"cosmossdk.io/math"
	abci "github.com/cometbft/cometbft/abci/types"
	cmtproto "github.com/cometbft/cometbft/proto/tendermint/types"
	cmttypes "github.com/cometbft/cometbft/types"
	dbm "github.com/cosmos/cosmos-db"
	"github.com/cosmos/cosmos-sdk/baseapp"
	cryptocodec "github.com/cosmos/cosmos-sdk/crypto/codec"
	"github.com/cosmos/cosmos-sdk/crypto/keys/ed25519"
	"github.com/cosmos/cosmos-sdk/crypto/keys/secp256k1"
	simtestutil "github.com/cosmos/cosmos-sdk/testutil/sims"
	sdk "github.com/cosmos/cosmos-sdk/types"
	authtypes "github.com/cosmos/cosmos-sdk/x/auth/types"
	banktypes "github.com/cosmos/cosmos-sdk/x/bank/types"
	transfertypes "github.com/cosmos/ibc-go/v8/modules/apps/transfer/types"
	porttypes "github.com/cosmos/ibc-go/v8/modules/core/05-port/types"

	hyperlaneutil "github.com/bcp-innovations/hyperlane-cosmos/util"
	ismtypes "github.com/bcp-innovations/hyperlane-cosmos/x/core/01_interchain_security/types"
	pdtypes "github.com/bcp-innovations/hyperlane-cosmos/x/core/02_post_dispatch/types"
	hypcoretypes "github.com/bcp-innovations/hyperlane-cosmos/x/core/types"
	warptypes "github.com/bcp-innovations/hyperlane-cosmos/x/warp/types"
	cctptypes "github.com/circlefin/noble-cctp/x/cctp/types"
	ftftypes "github.com/circlefin/noble-fiattokenfactory/x/fiattokenfactory/types"
	"github.com/cosmos/gogoproto/proto"

	"github.com/noble-assets/orbiter/v2/simapp"
	"github.com/noble-assets/orbiter/v2/testutil"
	"github.com/noble-assets/orbiter/v2/types/core"
)

const (
	ChainID = "orbiter-1"
	USDC    = "uusdc"
	// Authority is the account configured in simapp/app.yaml.
	Authority = "noble1zw7vatnx0vla7gzxucgypz0kfr6965akpvzw69"
)

var cfgOnce sync.Once

// SetConfig sets the bech32 prefixes (idempotent).
func SetConfig() { setConfig() }

func setConfig() {
	cfgOnce.Do(func() {
		testutil.SetSDKConfig()
		cfg := sdk.GetConfig()
		cfg.SetBech32PrefixForValidator("noblevaloper", "noblevaloperpub")
		cfg.SetBech32PrefixForConsensusNode("noblevalcons", "noblevalconspub")
	})
}

// Sim is one booted chain.
type Sim struct {
	App *simapp.SimApp
	Ctx sdk.Context // uncached context of the committed state at height 1
	// HypTokens maps a denomination to the raw 32-byte id of its Hyperlane collateral token.
	HypTokens map[string]string
	// IGPs are the interchain gas paymasters created at set-up.
	IGPs []IGP
	// Mailbox is the Hyperlane mailbox created at set-up.
	Mailbox hyperlaneutil.HexAddress
}

// Options tweak the genesis before InitChain.
type Options struct {
	// OrbiterGenesis, when non-nil, replaces the orbiter module's genesis (raw JSON).
	OrbiterGenesis json.RawMessage
	// ExtraBalances are added to the bank genesis.
	ExtraBalances []banktypes.Balance
	// NoHyperlane skips the Hyperlane mailbox / token set-up.
	NoHyperlane bool
}

// New boots a fresh chain. A panic inside InitChain is returned as an error.
func New(opt Options) (s *Sim, err error) {
	setConfig()
	defer func() {
		if r := recover(); r != nil {
			s = nil
			err = fmt.Errorf("initchain panic: %v", r)
		}
	}()

	app, err := simapp.NewSimApp(log.NewNopLogger(), dbm.NewMemDB(), nil, true,
		simtestutil.EmptyAppOptions{}, baseapp.SetChainID(ChainID))
	if err != nil {
		return nil, err
	}
	cdc := app.OrbiterKeeper.Codec()

	gen := app.DefaultGenesis()

	// one validator
	privVal := ed25519.GenPrivKey()
	tmPub, err := cryptocodec.ToCmtPubKeyInterface(privVal.PubKey())
	if err != nil {
		return nil, err
	}
	validator := cmttypes.NewValidator(tmPub, 1)
	valSet := cmttypes.NewValidatorSet([]*cmttypes.Validator{validator})
	senderPriv := secp256k1.GenPrivKey()
	acc := authtypes.NewBaseAccount(senderPriv.PubKey().Address().Bytes(), senderPriv.PubKey(), 0, 0)
	bal := banktypes.Balance{
		Address: acc.GetAddress().String(),
		Coins:   sdk.NewCoins(sdk.NewCoin(sdk.DefaultBondDenom, math.NewInt(100000000000000))),
	}
	balances := append([]banktypes.Balance{bal}, opt.ExtraBalances...)
	gen, err = simtestutil.GenesisStateWithValSet(cdc, gen, valSet, []authtypes.GenesisAccount{acc}, balances...)
	if err != nil {
		return nil, err
	}

	// bank denom metadata for uusdc
	var bankGen banktypes.GenesisState
	cdc.MustUnmarshalJSON(gen[banktypes.ModuleName], &bankGen)
	bankGen.DenomMetadata = append(bankGen.DenomMetadata, banktypes.Metadata{
		Description: "Circle USD Coin",
		DenomUnits: []*banktypes.DenomUnit{
			{Denom: USDC, Exponent: 0, Aliases: []string{"microusdc"}},
			{Denom: "usdc", Exponent: 6},
		},
		Base: USDC, Display: "usdc", Name: "Circle USD Coin", Symbol: "USDC",
	})
	gen[banktypes.ModuleName] = cdc.MustMarshalJSON(&bankGen)

	// fiat token factory: uusdc minting denom, cctp module as minter
	cctpAddr := authtypes.NewModuleAddress(cctptypes.ModuleName).String()
	ftfGen := ftftypes.DefaultGenesis()
	ftfGen.MintingDenom = &ftftypes.MintingDenom{Denom: USDC}
	ftfGen.Paused = &ftftypes.Paused{Paused: false}
	ftfGen.MintersList = []ftftypes.Minters{{
		Address:   cctpAddr,
		Allowance: sdk.NewCoin(USDC, math.NewInt(1_000_000_000_000)),
	}}
	gen[ftftypes.ModuleName] = cdc.MustMarshalJSON(ftfGen)

	// cctp
	var cctpGen cctptypes.GenesisState
	cdc.MustUnmarshalJSON(gen[cctptypes.ModuleName], &cctpGen)
	cctpGen.PerMessageBurnLimitList = []cctptypes.PerMessageBurnLimit{{Denom: USDC, Amount: math.NewInt(1_000_000_000_000)}}
	tm := make([]byte, 32)
	tm[31] = 0x55
	for _, d := range []uint32{0, 1, 2, 3, 5, 6, 7} {
		cctpGen.TokenMessengerList = append(cctpGen.TokenMessengerList, cctptypes.RemoteTokenMessenger{DomainId: d, Address: tm})
	}
	cctpGen.BurningAndMintingPaused = &cctptypes.BurningAndMintingPaused{Paused: false}
	cctpGen.SendingAndReceivingMessagesPaused = &cctptypes.SendingAndReceivingMessagesPaused{Paused: false}
	cctpGen.MaxMessageBodySize = &cctptypes.MaxMessageBodySize{Amount: 8000}
	cctpGen.NextAvailableNonce = &cctptypes.Nonce{Nonce: 0}
	cctpGen.SignatureThreshold = &cctptypes.SignatureThreshold{Amount: 1}
	gen[cctptypes.ModuleName] = cdc.MustMarshalJSON(&cctpGen)

	if opt.OrbiterGenesis != nil {
		gen[core.ModuleName] = opt.OrbiterGenesis
	}

	stateBytes, err := json.Marshal(gen)
	if err != nil {
		return nil, err
	}
	if _, err = app.InitChain(&abci.RequestInitChain{
		ChainId:         ChainID,
		Validators:      []abci.ValidatorUpdate{},
		ConsensusParams: simtestutil.DefaultConsensusParams,
		AppStateBytes:   stateBytes,
		Time:            time.Unix(1_700_000_000, 0).UTC(),
	}); err != nil {
		return nil, err
	}
	if _, err = app.FinalizeBlock(&abci.RequestFinalizeBlock{
		Height:             1,
		Hash:               app.LastCommitID().Hash,
		NextValidatorsHash: valSet.Hash(),
		Time:               time.Unix(1_700_000_010, 0).UTC(),
	}); err != nil {
		return nil, err
	}
	if _, err = app.Commit(); err != nil {
		return nil, err
	}
	ctx := app.BaseApp.NewUncachedContext(false, cmtproto.Header{
		ChainID: ChainID, Height: 2, Time: time.Unix(1_700_000_020, 0).UTC(),
	})
	s = &Sim{App: app, Ctx: ctx}
	if !opt.NoHyperlane {
		if err := s.setupHyperlane(); err != nil {
			return nil, fmt.Errorf("hyperlane set-up: %w", err)
		}
	}
	return s, nil
}

// HypRemoteDomain is the domain the collateral tokens have an enrolled router for.
const HypRemoteDomain = 1

// setupHyperlane creates, through the app's message router, a no-op ISM and hook, a mailbox, one
// collateral token per denomination in HypDenoms and an enrolled remote router for HypRemoteDomain.
func (s *Sim) setupHyperlane() error {
	owner := Authority
	run := func(msg sdk.Msg) (*sdk.Result, error) {
		h := s.App.MsgServiceRouter().Handler(msg)
		if h == nil {
			return nil, fmt.Errorf("no handler for %T", msg)
		}
		return h(s.Ctx, msg)
	}
	r, err := run(&ismtypes.MsgCreateNoopIsm{Creator: owner})
	if err != nil {
		return err
	}
	var ismResp ismtypes.MsgCreateNoopIsmResponse
	if err := unpackResp(r, &ismResp); err != nil {
		return err
	}
	r, err = run(&pdtypes.MsgCreateNoopHook{Owner: owner})
	if err != nil {
		return err
	}
	var hookResp pdtypes.MsgCreateNoopHookResponse
	if err := unpackResp(r, &hookResp); err != nil {
		return err
	}
	hook := hookResp.Id
	r, err = run(&hypcoretypes.MsgCreateMailbox{Owner: owner, LocalDomain: 1313817164, DefaultIsm: ismResp.Id,
		DefaultHook: &hook, RequiredHook: &hook})
	if err != nil {
		return err
	}
	var mbResp hypcoretypes.MsgCreateMailboxResponse
	if err := unpackResp(r, &mbResp); err != nil {
		return err
	}
	// interchain gas paymasters: post-dispatch hooks that charge the sender of a remote transfer, one per
	// denomination (anybody may create one and name it as the custom hook of a transfer)
	s.IGPs = nil
	for _, denom := range HypDenoms {
		r, err = run(&pdtypes.MsgCreateIgp{Owner: owner, Denom: denom})
		if err != nil {
			return err
		}
		var igp pdtypes.MsgCreateIgpResponse
		if err := unpackResp(r, &igp); err != nil {
			return err
		}
		g := IGP{ID: string(igp.Id.Bytes()), Denom: denom, Domain: HypRemoteDomain, Overhead: 7, Price: 3, Rate: 2_500_000_000}
		if _, err = run(&pdtypes.MsgSetDestinationGasConfig{Owner: owner, IgpId: igp.Id, DestinationGasConfig: &pdtypes.DestinationGasConfig{
			RemoteDomain: g.Domain, GasOracle: &pdtypes.GasOracle{TokenExchangeRate: math.NewInt(g.Rate), GasPrice: math.NewInt(g.Price)},
			GasOverhead: math.NewInt(g.Overhead)}}); err != nil {
			return err
		}
		s.IGPs = append(s.IGPs, g)
	}
	s.Mailbox = mbResp.Id
	s.HypTokens = map[string]string{}
	for _, denom := range HypDenoms {
		r, err = run(&warptypes.MsgCreateCollateralToken{Owner: owner, OriginMailbox: mbResp.Id, OriginDenom: denom})
		if err != nil {
			return err
		}
		var tkResp warptypes.MsgCreateCollateralTokenResponse
		if err := unpackResp(r, &tkResp); err != nil {
			return err
		}
		if _, err = run(&warptypes.MsgEnrollRemoteRouter{Owner: owner, TokenId: tkResp.Id, RemoteRouter: &warptypes.RemoteRouter{
			ReceiverDomain: HypRemoteDomain, ReceiverContract: "0x00000000000000000000000000000000000000000000000000000000000000aa",
			Gas: math.NewInt(50000)}}); err != nil {
			return err
		}
		s.HypTokens[denom] = string(tkResp.Id.Bytes())
	}
	return nil
}

// HypRouterGas is the gas the enrolled routers use when a transfer names no gas limit.
const HypRouterGas = 200

// IGP describes an interchain gas paymaster of the chain: its quote for a transfer to Domain with gas limit g is
// (g + Overhead) * Price * Rate / 10^10 of Denom (hyperlane-cosmos QuoteGasPayment).
type IGP struct {
	ID                    string // raw 32-byte hook id
	Denom                 string
	Domain                uint32
	Overhead, Price, Rate int64
}

// Quote is what the paymaster charges for the gas limit (0: the router's).
func (g IGP) Quote(gas *big.Int) *big.Int {
	x := new(big.Int).Set(gas)
	if x.Sign() == 0 {
		x.SetInt64(HypRouterGas)
	}
	x.Add(x, big.NewInt(g.Overhead))
	x.Mul(x, big.NewInt(g.Price))
	x.Mul(x, big.NewInt(g.Rate))
	return x.Quo(x, big.NewInt(10_000_000_000))
}

// HypDenoms are the denominations with a collateral token.
var HypDenoms = []string{USDC, "ufoo"}

func unpackResp(r *sdk.Result, into proto.Message) error {
	if len(r.MsgResponses) != 1 {
		return fmt.Errorf("expected one message response, got %d", len(r.MsgResponses))
	}
	return proto.Unmarshal(r.MsgResponses[0].Value, into)
}

// Stack returns the transfer stack exactly as the app wires it (blockibc ∘ orbiter ∘ transfer).
func (s *Sim) Stack() porttypes.IBCModule {
	m, ok := s.App.IBCKeeper.Router.GetRoute(transfertypes.ModuleName)
	if !ok {
		panic("no transfer route")
	}
	return m
}

// OrbiterAddr is the orbiter module account address.
func OrbiterAddr() sdk.AccAddress { return core.ModuleAddress }

// DustAddr is the dust collector module account address.
func DustAddr() sdk.AccAddress { return authtypes.NewModuleAddress(core.DustCollectorName) }

// Branch returns a cached context on top of the committed state and its write function.
func (s *Sim) Branch() (sdk.Context, func()) { return s.Ctx.CacheContext() }

// Mint creates coins out of thin air on addr (through the transfer module account, a minter).
func (s *Sim) Mint(ctx sdk.Context, addr sdk.AccAddress, coins sdk.Coins) error {
	if err := s.App.BankKeeper.MintCoins(ctx, transfertypes.ModuleName, coins); err != nil {
		return err
	}
	return s.App.BankKeeper.SendCoinsFromModuleToAccount(ctx, transfertypes.ModuleName, addr, coins)
}

// MintUnchecked credits addr even when it is a blocked module account (keeper-level send).
func (s *Sim) MintUnchecked(ctx sdk.Context, addr sdk.AccAddress, coins sdk.Coins) error {
	// x/bank panics when the supply would leave the 256-bit range: a harness deposit is then skipped
	limit := new(big.Int).Lsh(big.NewInt(1), 256)
	for _, c := range coins {
		sup := s.App.BankKeeper.GetSupply(ctx, c.Denom).Amount.BigInt()
		if new(big.Int).Add(sup, c.Amount.BigInt()).Cmp(limit) >= 0 {
			return fmt.Errorf("supply of %s would overflow", c.Denom)
		}
	}
	if err := s.App.BankKeeper.MintCoins(ctx, transfertypes.ModuleName, coins); err != nil {
		return err
	}
	return s.App.BankKeeper.SendCoins(ctx, authtypes.NewModuleAddress(transfertypes.ModuleName), addr, coins)
}

func (s *Sim) Bal(ctx sdk.Context, addr sdk.AccAddress, denom string) math.Int {
	return s.App.BankKeeper.GetBalance(ctx, addr, denom).Amount
}
