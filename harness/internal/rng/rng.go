// Package rng is the single PRNG (splitmix64) every random choice of the harness is drawn from,
// so a run is reproduced exactly by its seed.
package rng

import "math/big"

type R struct{ s uint64 }

func New(seed uint64) *R { return &R{s: seed*0x9E3779B97F4A7C15 + 0x1234567} }

func (r *R) U64() uint64 {
	r.s += 0x9E3779B97F4A7C15
	z := r.s
	z = (z ^ (z >> 30)) * 0xBF58476D1CE4E5B9
	z = (z ^ (z >> 27)) * 0x94D049BB133111EB
	return z ^ (z >> 31)
}

// Intn returns a value in [0, n).
func (r *R) Intn(n int) int {
	if n <= 0 {
		return 0
	}
	return int(r.U64() % uint64(n))
}
func (r *R) Bool() bool        { return r.U64()&1 == 1 }
func (r *R) Chance(p int) bool { return r.Intn(100) < p }

func Pick[T any](r *R, xs []T) T { return xs[r.Intn(len(xs))] }

// Big returns a uniform integer of at most `bits` bits.
func (r *R) Big(bits int) *big.Int {
	x := new(big.Int)
	for i := 0; i < (bits+63)/64; i++ {
		x.Lsh(x, 64)
		x.Or(x, new(big.Int).SetUint64(r.U64()))
	}
	m := new(big.Int).Lsh(big.NewInt(1), uint(bits))
	return x.Mod(x, m)
}

func (r *R) Bytes(n int) []byte {
	b := make([]byte, n)
	for i := range b {
		b[i] = byte(r.U64())
	}
	return b
}

// Fork derives an independent stream (used per case so that cases replay individually).
func (r *R) Fork() *R { return New(r.U64()) }
