// Package cq prints Go values as Coq terms (for the generated cases files) and as JSON (for replays).
package cq

import (
	"fmt"
	"math/big"
	"strings"
)

// Str renders a Go string (a byte sequence) as a Coq [string] term.
func Str(s string) string {
	printable := true
	for i := 0; i < len(s); i++ {
		if s[i] < 32 || s[i] > 126 {
			printable = false
			break
		}
	}
	if printable {
		return `"` + strings.ReplaceAll(s, `"`, `""`) + `"`
	}
	parts := make([]string, len(s))
	for i := 0; i < len(s); i++ {
		parts[i] = fmt.Sprintf("%d", s[i])
	}
	return "(bs [" + strings.Join(parts, ";") + "])"
}

// Bytes renders a byte slice as a Coq [string].
func Bytes(b []byte) string { return Str(string(b)) }

// Z renders an integer as a Coq Z term (parenthesised when negative).
func Z(x *big.Int) string {
	if x.Sign() < 0 {
		return "(" + x.String() + ")"
	}
	return x.String()
}
func ZI(x int64) string { return Z(big.NewInt(x)) }
func ZU(x uint64) string { return new(big.Int).SetUint64(x).String() }

func Bool(b bool) string {
	if b {
		return "true"
	}
	return "false"
}

func List(items []string) string { return "[" + strings.Join(items, "; ") + "]" }

func StrList(xs []string) string {
	p := make([]string, len(xs))
	for i, x := range xs {
		p[i] = Str(x)
	}
	return List(p)
}

func Opt(present bool, term string) string {
	if present {
		return "(Some " + term + ")"
	}
	return "None"
}

func Pair(a, b string) string { return "(" + a + ", " + b + ")" }

// V is a value of the universal projection type [val] of coq/Lib/Val.v.
type V struct {
	kind byte // 'z','s','b','l'
	z    *big.Int
	s    string
	b    bool
	l    []V
}

func VZ(x int64) V        { return V{kind: 'z', z: big.NewInt(x)} }
func VU(x uint64) V       { return V{kind: 'z', z: new(big.Int).SetUint64(x)} }
func VBig(x *big.Int) V   { return V{kind: 'z', z: new(big.Int).Set(x)} }
func VS(s string) V       { return V{kind: 's', s: s} }
func VB(b bool) V         { return V{kind: 'b', b: b} }
func VL(items ...V) V     { return V{kind: 'l', l: items} }
func VNone() V            { return VL() }
func VSome(v V) V         { return VL(v) }
func VStrs(xs []string) V { l := make([]V, len(xs)); for i, x := range xs { l[i] = VS(x) }; return VL(l...) }

func (v V) Coq() string {
	switch v.kind {
	case 'z':
		return "VZ " + Z(v.z)
	case 's':
		return "VS " + Str(v.s)
	case 'b':
		return "VB " + Bool(v.b)
	default:
		p := make([]string, len(v.l))
		for i, x := range v.l {
			p[i] = x.Coq()
		}
		return "VL " + List(p)
	}
}

// JSON gives a plain representation for replay files.
func (v V) JSON() any {
	switch v.kind {
	case 'z':
		return v.z.String()
	case 's':
		return fmt.Sprintf("%q", v.s)
	case 'b':
		return v.b
	default:
		p := make([]any, len(v.l))
		for i, x := range v.l {
			p[i] = x.JSON()
		}
		return p
	}
}

func (v V) Equal(w V) bool { return v.Coq() == w.Coq() }

// Items returns the elements of a list value (nil for scalars).
func (v V) Items() []V { return v.l }

// Big returns the integer of a numeric value (nil otherwise).
func (v V) Big() *big.Int { return v.z }

// Str returns the string of a string value.
func (v V) Str() string { return v.s }
