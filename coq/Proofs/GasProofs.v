(* Post-dispatch hooks that charge for gas: a packet whose forwarding does not go through one is
   handled exactly as on a chain without such hooks, so every theorem about [recv] / [step] applies to it. *)
From Coq Require Import String List ZArith Bool Lia.
From Orbiter Require Import Lib.Str Lib.Res Gen.Constants Model.Ids Model.Env Model.Fee Model.Denom
     Model.Payload Model.State Model.Pipeline Model.Msgs.
Import ListNotations.
Open Scope string_scope.
Open Scope Z_scope.

Lemma mbind_ext {A B} (m : M A) (k1 k2 : A -> M B) s :
  (forall a s', k1 a s' = k2 a s') -> mbind m k1 s = mbind m k2 s.
Proof. intros H. unfold mbind. destruct (m s); auto. Qed.

Lemma forward_ctrl_gas_free x y g cfg e pid a t s :
  attrs_gas_free g a = true ->
  forward_ctrl_with x y g cfg e pid a t s = forward_ctrl_with x y no_gas cfg e pid a t s.
Proof.
  unfold forward_ctrl_with, attrs_gas_free. intros H.
  destruct a as [|token domain rcp hook md gas fd fa| | |]; try reflexivity.
  destruct (g (opt_str hook) domain gas); [discriminate|]. reflexivity.
Qed.

Lemma run_forwarding_ext F1 F2 cfg e lie pp ccp f t s :
  (forall a s', f_attrs f = Some a -> F1 cfg e (f_pid f) a t s' = F2 cfg e (f_pid f) a t s') ->
  run_forwarding_with F1 cfg e lie pp ccp (Some f) t s = run_forwarding_with F2 cfg e lie pp ccp (Some f) t s.
Proof.
  intros H. unfold run_forwarding_with.
  apply mbind_ext; intros _ s1. apply mbind_ext; intros _ s2.
  destruct (f_attrs f) as [a|] eqn:Ha; [|reflexivity].
  destruct (counterparty_of a); [|reflexivity].
  destruct (pp (f_pid f)); [reflexivity|].
  destruct (negb (ccid_valid _)); [reflexivity|].
  destruct (ccp (f_pid f) _); [reflexivity|].
  destruct (negb (bal _ _ _ + lie =? t_damt t)); [reflexivity|].
  destruct (negb (existsb _ _)); [reflexivity|].
  apply H. reflexivity.
Qed.

Lemma recv_body_gas_free vr g cfg acts e lie o p pl f t s :
  v_gas vr = no_gas ->
  match f_attrs f with Some a => attrs_gas_free g a | None => true end = true ->
  recv_body (with_gas vr g) cfg acts e lie o p pl f t s = recv_body vr cfg acts e lie o p pl f t s.
Proof.
  intros Hvr H. unfold recv_body.
  apply mbind_ext; intros prior s1. apply mbind_ext; intros _ s2. apply mbind_ext; intros _ s3.
  apply mbind_ext; intros t' s4.
  cbn [with_gas v_allow_self v_hyp_log_first v_gas]. rewrite Hvr.
  unfold mbind.
  rewrite (run_forwarding_ext (forward_ctrl_with (v_allow_self vr) (v_hyp_log_first vr) g)
                              (forward_ctrl_with (v_allow_self vr) (v_hyp_log_first vr) no_gas)); [reflexivity|].
  intros a s' Ha. rewrite Ha in H. apply forward_ctrl_gas_free. exact H.
Qed.

Lemma parse_ok_payload vr e p denom amount pl t pl' :
  parse_orbiter_packet vr e p denom amount (Ok pl) = Ok (t, pl') -> pl' = pl.
Proof.
  unfold parse_orbiter_packet. cbn [bind].
  destruct (payload_validate_with (v_nil_action vr) pl); try discriminate. cbn [bind].
  destruct (e_parse_int e amount); [|discriminate].
  destruct (recover_native_denom denom (pk_sport p) (pk_schan p)); try discriminate. cbn [bind].
  destruct (v_newcoin_panics vr && _); [discriminate|].
  destruct (tattr_validate _); try discriminate. cbn [bind]. intros H. injection H as _ ->. reflexivity.
Qed.

Theorem recv_gas_free vr g cfg acts dlg e w p tape lie :
  v_gas vr = no_gas -> pkt_gas_free g p = true ->
  recv_generic (with_gas vr g) cfg acts dlg e w p tape lie = recv_generic vr cfg acts dlg e w p tape lie.
Proof.
  intros Hvr H. unfold recv_generic.
  change (is_orbiter_receiver (with_gas vr g)) with (is_orbiter_receiver vr).
  change (parse_orbiter_packet (with_gas vr g)) with (parse_orbiter_packet vr).
  change (v_stats_strict (with_gas vr g)) with (v_stats_strict vr).
  destruct (negb (ccid_valid _)); [reflexivity|].
  destruct (_ || _); [reflexivity|].
  destruct (negb (existsb _ _)); [reflexivity|].
  unfold pkt_gas_free in H.
  destruct (pk_data p) as [|denom amount sender receiver memo]; [reflexivity|].
  destruct (negb (is_orbiter_receiver vr cfg e receiver)); [reflexivity|].
  destruct (parse_orbiter_packet vr e p denom amount memo) as [[t pl']| |] eqn:Hp; [|reflexivity|reflexivity].
  destruct memo as [pl| |]; try (cbn in Hp; discriminate).
  apply parse_ok_payload in Hp as ->.
  destruct (p_fwd pl) as [f|]; [|reflexivity].
  destruct (pass_limit (w_o w) <? slen (f_pass f)); [reflexivity|].
  rewrite recv_body_gas_free by assumption. reflexivity.
Qed.

Corollary recv_gas_same g cfg e w p tape lie :
  pkt_gas_free g p = true -> recv_gas g cfg e w p tape lie = recv_lie cfg e w p tape lie.
Proof. intros H. unfold recv_gas, recv_lie, recv_with. apply recv_gas_free; [reflexivity|exact H]. Qed.

Definition op_gas_free (g : gas_fn) (o : op) : bool :=
  match o with ORecv p _ _ => pkt_gas_free g p | OExtPanics p _ _ _ => pkt_gas_free g p | _ => true end.

Corollary step_gas_same g cfg e w o : op_gas_free g o = true -> step_gas g cfg e w o = step cfg e w o.
Proof.
  destruct o as [p tape lie| | | | | | | | |p tape lie k]; [|reflexivity..|];
    cbn [op_gas_free step_gas step]; intros H; rewrite recv_gas_same by exact H; reflexivity.
Qed.

Corollary step_no_gas cfg e w o : step_gas no_gas cfg e w o = step cfg e w o.
Proof. apply step_gas_same. destruct o as [p tape lie| | | | | | | | |p tape lie k]; [|reflexivity..|]; cbn [op_gas_free]; unfold pkt_gas_free;
  (destruct (pk_data p) as [|? ? ? ? [pl| |]]; try reflexivity; destruct (p_fwd pl) as [f|]; [|reflexivity];
   destruct (f_attrs f) as [[]|]; reflexivity).
Qed.
