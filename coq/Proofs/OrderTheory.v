(* The key orders of the store (byte order of the collections encoding, as modelled in Model/State.v)
   are strict total orders; sorted key lists and maps stay sorted under insertion and removal. *)
From Coq Require Import String Ascii List ZArith NArith Bool Lia Sorted.
From Orbiter Require Import Lib.Str Lib.Res Model.State Proofs.SetProofs Proofs.StatsProofs.
Import ListNotations.
Open Scope Z_scope.
Open Scope list_scope.

Record order {K} (cmp : K -> K -> comparison) : Prop := {
  o_eq : forall a b, cmp a b = Eq <-> a = b;
  o_anti : forall a b, cmp b a = CompOpp (cmp a b);
  o_trans : forall a b c, cmp a b = Lt -> cmp b c = Lt -> cmp a c = Lt;
}.

Lemma order_z : order cmp_z.
Proof.
  split; unfold cmp_z.
  - apply Z.compare_eq_iff.
  - intros a b. apply Z.compare_antisym.
  - intros a b c H1 H2. apply -> Z.compare_lt_iff in H1. apply -> Z.compare_lt_iff in H2. apply <- Z.compare_lt_iff. lia.
Qed.

Lemma ncompare_ascii_eq x y : N.compare (N_of_ascii x) (N_of_ascii y) = Eq -> x = y.
Proof.
  intros E. apply N.compare_eq_iff in E. apply (f_equal ascii_of_N) in E. rewrite !ascii_N_embedding in E. exact E.
Qed.

Lemma order_str : order cmp_str.
Proof.
  split.
  - apply cmp_str_eq.
  - induction a as [|x a IH]; intros [|y b]; cbn; try reflexivity.
    rewrite (N.compare_antisym (N_of_ascii x) (N_of_ascii y)).
    destruct (N.compare (N_of_ascii x) (N_of_ascii y)); cbn; try reflexivity. apply IH.
  - induction a as [|x a IH]; intros [|y b] [|z c]; cbn; try discriminate; try reflexivity.
    destruct (N.compare (N_of_ascii x) (N_of_ascii y)) eqn:E1; try discriminate.
    + apply ncompare_ascii_eq in E1. subst y.
      destruct (N.compare (N_of_ascii x) (N_of_ascii z)) eqn:E2; try discriminate; try reflexivity. apply IH.
    + intros _. destruct (N.compare (N_of_ascii y) (N_of_ascii z)) eqn:E2; try discriminate.
      * apply ncompare_ascii_eq in E2. subst z. rewrite E1. reflexivity.
      * intros _. apply -> N.compare_lt_iff in E1. apply -> N.compare_lt_iff in E2.
        replace (N.compare (N_of_ascii x) (N_of_ascii z)) with Lt; [reflexivity|]. symmetry. apply <- N.compare_lt_iff. eapply N.lt_trans; eauto.
Qed.

Section Lex.
  Context {A B : Type} (ca : A -> A -> comparison) (cb : B -> B -> comparison).
  Hypothesis Oa : order ca.
  Hypothesis Ob : order cb.
  Definition clex (x y : A * B) : comparison := lex (ca (fst x) (fst y)) (cb (snd x) (snd y)).
  Lemma order_lex : order clex.
  Proof.
    split; unfold clex, lex.
    - intros [a1 b1] [a2 b2]. cbn [fst snd]. split.
      + destruct (ca a1 a2) eqn:E; try discriminate. intros H. apply (o_eq _ Oa) in E. apply (o_eq _ Ob) in H. subst. reflexivity.
      + intros H. inversion H; subst. rewrite (proj2 (o_eq _ Oa a2 a2) eq_refl). apply (o_eq _ Ob). reflexivity.
    - intros [a1 b1] [a2 b2]. cbn [fst snd]. rewrite (o_anti _ Oa a1 a2). destruct (ca a1 a2); cbn; try reflexivity. apply (o_anti _ Ob).
    - intros [a1 b1] [a2 b2] [a3 b3]. cbn [fst snd].
      destruct (ca a1 a2) eqn:E1; try discriminate.
      + apply (o_eq _ Oa) in E1. subst a2. destruct (ca a1 a3); try discriminate; try reflexivity. apply (o_trans _ Ob).
      + intros _. destruct (ca a2 a3) eqn:E2; try discriminate.
        * apply (o_eq _ Oa) in E2. subst a3. rewrite E1. reflexivity.
        * intros _. rewrite (o_trans _ Oa _ _ _ E1 E2). reflexivity.
  Qed.
End Lex.

Lemma order_map {K T} (c : T -> T -> comparison) (f : K -> T) :
  order c -> (forall x y, f x = f y -> x = y) -> order (fun x y => c (f x) (f y)).
Proof.
  intros O Hinj. split.
  - intros a b. rewrite (o_eq _ O). split; [apply Hinj|intros ->; reflexivity].
  - intros a b. apply (o_anti _ O).
  - intros a b d. apply (o_trans _ O).
Qed.

Lemma order_ext {K} (c1 c2 : K -> K -> comparison) : (forall a b, c1 a b = c2 a b) -> order c1 -> order c2.
Proof.
  intros E O. split.
  - intros a b. rewrite <- E. apply (o_eq _ O).
  - intros a b. rewrite <- !E. apply (o_anti _ O).
  - intros a b d. rewrite <- !E. apply (o_trans _ O).
Qed.

Lemma order_cc : order cmp_cc.
Proof. apply (order_ext (clex cmp_z cmp_str)); [reflexivity|]. apply order_lex; [apply order_z|apply order_str]. Qed.

Lemma order_ak : order cmp_ak.
Proof.
  apply (order_ext (fun x y => clex cmp_z (clex cmp_str (clex cmp_str cmp_str))
                                (ak_sp x, (ak_sc x, (ak_dst x, ak_denom x))) (ak_sp y, (ak_sc y, (ak_dst y, ak_denom y))))); [reflexivity|].
  apply order_map.
  - repeat apply order_lex; try apply order_z; apply order_str.
  - intros [a b c d] [a' b' c' d'] H. inversion H. reflexivity.
Qed.
Lemma order_ck : order cmp_ck.
Proof.
  apply (order_ext (fun x y => clex cmp_z (clex cmp_str (clex cmp_z cmp_str))
                                (ck_sp x, (ck_sc x, (ck_dp x, ck_dc x))) (ck_sp y, (ck_sc y, (ck_dp y, ck_dc y))))); [reflexivity|].
  apply order_map.
  - repeat apply order_lex; try apply order_z; apply order_str.
  - intros [a b c d] [a' b' c' d'] H. inversion H. reflexivity.
Qed.

(* ---------- sorted lists ---------- *)
Section Sorted.
  Context {K : Type} (cmp : K -> K -> comparison).
  Hypothesis O : order cmp.
  Definition lt (a b : K) : Prop := cmp a b = Lt.
  Definition ssorted (l : list K) : Prop := StronglySorted lt l.

  Lemma gt_lt a b : cmp a b = Gt -> lt b a.
  Proof. intros H. unfold lt. rewrite (o_anti _ O a b), H. reflexivity. Qed.
  Lemma lt_irrefl a : ~ lt a a.
  Proof. unfold lt. rewrite (proj2 (o_eq _ O a a) eq_refl). discriminate. Qed.

  Lemma sins_sorted x l : ssorted l -> ssorted (sins cmp x l).
  Proof.
    induction 1 as [|y t Ht IH Hall]; cbn [sins]; [repeat constructor|].
    destruct (cmp x y) eqn:E.
    - constructor; assumption.
    - constructor; [constructor; assumption|]. constructor; [exact E|].
      eapply Forall_impl; [|exact Hall]. intros z Hz. eapply (o_trans _ O); eauto.
    - constructor; [exact IH|]. apply Forall_forall. intros z Hz.
      apply (In_sins cmp (o_eq _ O)) in Hz as [->|Hz]; [apply gt_lt; exact E|]. rewrite Forall_forall in Hall. apply Hall. exact Hz.
  Qed.

  Lemma srem_sorted x l : ssorted l -> ssorted (srem cmp x l).
  Proof.
    unfold srem. induction 1 as [|y t Ht IH Hall]; cbn [filter]; [constructor|].
    destruct (negb (keqb cmp x y)); [|exact IH]. constructor; [exact IH|].
    apply Forall_forall. intros z Hz. apply filter_In in Hz as [Hz _]. rewrite Forall_forall in Hall. apply Hall. exact Hz.
  Qed.

  (* inserting something larger than everything appends it *)
  Lemma sins_last x l : Forall (fun y => lt y x) l -> sins cmp x l = l ++ [x].
  Proof.
    induction 1 as [|y t Hy _ IH]; [reflexivity|]. cbn [sins app].
    unfold lt in Hy. rewrite (o_anti _ O y x), Hy. cbn. rewrite IH. reflexivity.
  Qed.

  Lemma sorted_nodup l : ssorted l -> NoDup l.
  Proof.
    induction 1 as [|y t Ht IH Hall]; constructor; [|exact IH].
    intros Hin. rewrite Forall_forall in Hall. apply (lt_irrefl y). apply Hall. exact Hin.
  Qed.

  Lemma sorted_app_last l x : ssorted l -> Forall (fun y => lt y x) l -> ssorted (l ++ [x]).
  Proof.
    induction 1 as [|y t Ht IH Hall]; intros Hx; cbn [app]; [repeat constructor|].
    inversion Hx; subst. constructor; [apply IH; assumption|].
    apply Forall_app. split; [exact Hall|]. constructor; [assumption|constructor].
  Qed.

  Lemma sorted_app_inv l1 l2 : ssorted (l1 ++ l2) -> ssorted l1 /\ ssorted l2 /\ forall a b, In a l1 -> In b l2 -> lt a b.
  Proof.
    induction l1 as [|y t IH]; cbn [app]; intros H.
    - split; [constructor|]. split; [exact H|]. intros a b [].
    - inversion H as [|? ? Ht Hall]; subst. destruct (IH Ht) as (H1 & H2 & H3). apply Forall_app in Hall as [Ha1 Ha2].
      split; [constructor; assumption|]. split; [exact H2|].
      intros a b [<-|Ha] Hb; [rewrite Forall_forall in Ha2; apply Ha2; exact Hb|apply H3; assumption].
  Qed.
End Sorted.

(* ---------- sorted maps ---------- *)
Section SortedMaps.
  Context {K V : Type} (cmp : K -> K -> comparison).
  Hypothesis O : order cmp.
  Definition msorted (m : list (K * V)) : Prop := ssorted cmp (map fst m).

  Lemma In_mset_keys (k : K) (v : V) (m : list (K * V)) (z : K) : In z (map fst (mset cmp k v m)) <-> z = k \/ In z (map fst m).
  Proof.
    induction m as [|[k0 v0] t IH]; cbn [mset map fst In].
    - intuition.
    - destruct (cmp k k0) eqn:E; cbn [map fst In].
      + apply (o_eq _ O) in E. subst k0. intuition.
      + intuition.
      + rewrite IH. intuition.
  Qed.

  Lemma mset_sorted (k : K) (v : V) (m : list (K * V)) : msorted m -> msorted (mset cmp k v m).
  Proof.
    unfold msorted. induction m as [|[k0 v0] t IH]; cbn [mset map fst]; intros H; [repeat constructor|].
    inversion H as [|? ? Ht Hall]; subst. destruct (cmp k k0) eqn:E; cbn [map fst].
    - apply (o_eq _ O) in E. subst k0. constructor; assumption.
    - constructor; [exact H|]. constructor; [exact E|]. eapply Forall_impl; [|exact Hall]. intros z Hz. eapply (o_trans _ O); eauto.
    - constructor; [apply IH; exact Ht|]. apply Forall_forall. intros z Hz. apply In_mset_keys in Hz as [->|Hz].
      + apply (gt_lt cmp O). exact E.
      + rewrite Forall_forall in Hall. apply Hall. exact Hz.
  Qed.

  Lemma mset_last (k : K) (v : V) (m : list (K * V)) : Forall (fun e => lt cmp (fst e) k) m -> mset cmp k v m = m ++ [(k, v)].
  Proof.
    induction 1 as [|[k0 v0] t Hy _ IH]; [reflexivity|]. cbn [mset app fst] in *.
    unfold lt in Hy. rewrite (o_anti _ O k0 k), Hy. cbn. rewrite IH. reflexivity.
  Qed.
End SortedMaps.
