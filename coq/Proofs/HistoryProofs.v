(* Frames and history-level statements: which operations can change which part of the module state. *)
From Coq Require Import String Ascii List ZArith Bool Lia.
From Orbiter Require Import Lib.Str Lib.Res Gen.Constants Model.Ids Model.Env Model.Fee Model.Denom
     Model.Payload Model.State Model.Pipeline Model.Msgs Proofs.PipelineProofs Proofs.SetProofs Proofs.TransferProps
     Proofs.NoPanic Proofs.MsgProofs Proofs.StatsProofs.
Import ListNotations.
Open Scope string_scope.
Open Scope Z_scope.
Open Scope list_scope.

(* the pause sets and the parameters of a module state *)
Definition controls (o : ostate) := (paused_protos o, paused_cc o, paused_actions o, max_pass o).

Lemma update_amount_controls b o k i u o' : update_amount b o k i u = Ok o' -> controls o' = controls o.
Proof.
  unfold update_amount. destruct (match mget _ _ _ with Some v => v | None => _ end) as [oi oo].
  destruct (add_amount b oi i); try discriminate. cbn [bind]. destruct (add_amount b oo u); try discriminate. cbn [bind].
  intros H; inversion H. reflexivity.
Qed.
Lemma update_count_controls o k o' : update_count o k = Ok o' -> controls o' = controls o.
Proof. unfold update_count. destruct (_ =? _); [discriminate|]. intros H; inversion H. reflexivity. Qed.

Lemma update_stats_controls b o t f o' : update_stats_swallow b o t f = Ok o' -> controls o' = controls o.
Proof.
  unfold update_stats_swallow. destruct (f_attrs f) as [a|]; [|intros H; inversion H; reflexivity].
  destruct (counterparty_of a) as [cp|]; [|intros H; inversion H; reflexivity].
  destruct (_ || _); [intros H; inversion H; reflexivity|].
  assert (Hfin : forall o1 ck o2, match update_count o1 ck with Ok o2 => Ok o2 | Err _ => Ok o1 | Panic x => Panic x end = Ok o2 -> controls o2 = controls o1).
  { intros o1 ck o2. destruct (update_count o1 ck) eqn:E; intros H; inversion H; subst; [eapply update_count_controls; eauto|reflexivity]. }
  destruct (String.eqb _ _).
  - match goal with |- context [update_amount b o ?k ?i ?u] => destruct (update_amount b o k i u) as [o1| |] eqn:E1 end; try discriminate.
    + intros H. apply Hfin in H. rewrite H. eapply update_amount_controls; eauto.
    + intros H; inversion H; reflexivity.
  - match goal with |- context [update_amount b o ?k ?i ?u] => destruct (update_amount b o k i u) as [o1| |] eqn:E1 end; try discriminate.
    + match goal with |- context [update_amount b o1 ?k ?i ?u] => destruct (update_amount b o1 k i u) as [o2| |] eqn:E2 end; try discriminate.
      * intros H. apply Hfin in H. rewrite H. rewrite (update_amount_controls _ _ _ _ _ _ E2). eapply update_amount_controls; eauto.
      * intros H; inversion H; subst. eapply update_amount_controls; eauto.
    + intros H; inversion H; reflexivity.
Qed.

(* packets never change the pause sets or the parameters, whatever their outcome *)
Theorem recv_controls cfg e w p tape lie :
  controls (w_o (rr_world (recv_lie cfg e w p tape lie))) = controls (w_o w).
Proof.
  destruct (outcome_eq_ok (rr_out (recv_lie cfg e w p tape lie))) as [E|E].
  - destruct (recv_ok_inv _ _ _ _ _ _ E) as (denom & amount & sender & receiver & pl & f & t & t' & a & cp & acalls & fcalls & ams & mv & o' & T).
    rewrite (tr_world _ _ _ _ _ _ _ _ _ _ _ _ _ _ _ _ _ _ _ _ _ T). cbn [w_o].
    eapply update_stats_controls. exact (tr_stats _ _ _ _ _ _ _ _ _ _ _ _ _ _ _ _ _ _ _ _ _ T).
  - destruct (recv_no_record_lie _ _ _ _ _ _ E) as [Ho _]. rewrite Ho. reflexivity.
Qed.

(* ---------- C18: the limit in force ---------- *)
Definition limit_after (auth : string) (l : Z) (o : op) : Z :=
  match o with
  | OMsg signer (MUpdateParams max) _ => if String.eqb signer auth then max else l
  | _ => l
  end.

Lemma step_limit cfg e w o :
  pass_limit (w_o (fst (step cfg e w o))) = limit_after (cfg_authority cfg) (pass_limit (w_o w)) o.
Proof.
  destruct o as [p tape lie|signer m tape|to d a|sf st sd sa|mv|q| | | |p2 tape2 lie2 k2]; cbn [step fst limit_after]; try reflexivity.
  - pose proof (recv_controls cfg e w p tape lie) as H. unfold controls in H. inversion H as [[H1 H2 H3 Hm]].
    unfold pass_limit. rewrite Hm. reflexivity.
  - destruct (step_msg cfg w signer m tape) as [w' x] eqn:E. cbn [fst].
    destruct (step_msg_out cfg w signer m tape) as (c & tr & Hx). rewrite E in Hx. cbn in Hx. subst x.
    destruct m as [name|name|name ids|name ids|name|name|mx|om oa nc nr];
      try (destruct c as [|c];
           [|rewrite (step_msg_refused _ _ _ _ _ _ _ _ E) by discriminate; reflexivity]).
    + apply msg_pause_protocol in E as (_ & _ & pid & _ & _ & _ & F). unfold pass_limit. rewrite (fr_limit _ _ _ _ _ _ F eq_refl). reflexivity.
    + apply msg_unpause_protocol in E as (_ & _ & pid & _ & _ & _ & F). unfold pass_limit. rewrite (fr_limit _ _ _ _ _ _ F eq_refl). reflexivity.
    + apply msg_pause_cc in E as (_ & _ & pid & _ & _ & Hm). unfold pass_limit. destruct ids.
      * destruct Hm as (_ & _ & F). rewrite (fr_limit _ _ _ _ _ _ F eq_refl). reflexivity.
      * destruct Hm as (_ & _ & _ & F). rewrite (fr_limit _ _ _ _ _ _ F eq_refl). reflexivity.
    + apply msg_unpause_cc in E as (_ & _ & pid & _ & _ & Hm). unfold pass_limit. destruct ids.
      * destruct Hm as (_ & _ & F). rewrite (fr_limit _ _ _ _ _ _ F eq_refl). reflexivity.
      * destruct Hm as (_ & _ & _ & F). rewrite (fr_limit _ _ _ _ _ _ F eq_refl). reflexivity.
    + apply msg_pause_action in E as (_ & _ & aid & _ & _ & _ & F). unfold pass_limit. rewrite (fr_limit _ _ _ _ _ _ F eq_refl). reflexivity.
    + apply msg_unpause_action in E as (_ & _ & aid & _ & _ & _ & F). unfold pass_limit. rewrite (fr_limit _ _ _ _ _ _ F eq_refl). reflexivity.
    + rewrite msg_update_params in E. destruct (String.eqb signer (cfg_authority cfg)); inversion E; subst; reflexivity.
    + apply step_msg_ok_inv in E as (_ & o' & s & Hb & -> & _). cbn [handle_body] in Hb.
      destruct (negb (existsb _ _)); [discriminate|]. apply mbind_ok in Hb as (u & s1 & _ & H2). inversion H2; subst. reflexivity.
  - destruct (_ || _ || _); reflexivity.
Qed.

(* after any history, the limit in force is the value most recently set by the authority, or the
   initial (genesis) one when the authority never set it *)
Theorem limit_in_force cfg e : forall ops w,
  pass_limit (w_o (final_world cfg e w ops)) = fold_left (limit_after (cfg_authority cfg)) ops (pass_limit (w_o w)).
Proof.
  induction ops as [|o r IH]; intros w; [reflexivity|].
  unfold final_world. rewrite run_ops_cons. cbn [fst fold_left]. rewrite <- (step_limit cfg e w o). apply IH.
Qed.

(* ---------- C18: enforcement before any external call ---------- *)
Theorem oversize_refused cfg e w p tape denom amount sender receiver pl f :
  pk_data p = PIcs denom amount sender receiver (Ok pl) ->
  e_bech32 e receiver = Some (cfg_orbiter cfg) -> p_fwd pl = Some f ->
  pass_limit (w_o w) < slen (f_pass f) ->
  (exists l, rr_out (recv cfg e w p tape) = OAckErr l) /\ rr_trace (recv cfg e w p tape) = [] /\ rr_world (recv cfg e w p tape) = w.
Proof.
  intros Hd Hr Hf Hlen. unfold recv, recv_lie, recv_with, recv_generic.
  destruct (negb (ccid_valid _)); [cbn; eauto|].
  destruct (_ || _); [cbn; eauto|].
  destruct (negb (existsb _ _)); [cbn; eauto|].
  rewrite Hd. unfold is_orbiter_receiver. cbn [v_receiver_by_text repaired]. rewrite Hr, String.eqb_refl. cbn [negb].
  destruct (parse_orbiter_packet repaired e p denom amount (Ok pl)) as [[t pl0]| |] eqn:Hp; [|cbn; eauto|].
  - assert (pl0 = pl).
    { unfold parse_orbiter_packet in Hp. cbn [bind] in Hp. destruct (payload_validate_with _ pl); try discriminate. cbn [bind] in Hp.
      destruct (e_parse_int e amount); [|discriminate]. destruct (recover_native_denom _ _ _); try discriminate. cbn [bind v_newcoin_panics repaired andb] in Hp.
      match type of Hp with context [tattr_validate ?x] => destruct (tattr_validate x) end; try discriminate. cbn [bind] in Hp. inversion Hp; reflexivity. }
    subst pl0. rewrite Hf. apply Z.ltb_lt in Hlen. rewrite Hlen. cbn; eauto.
  - exfalso. pose proof (parse_total e p denom amount (Ok pl) eq_refl) as H. rewrite Hp in H. discriminate.
Qed.
