(* C17: a validated genesis initialises; the export of an invariant state validates and
   re-initialises to exactly that state. *)
From Coq Require Import String Ascii List ZArith NArith Bool Lia Sorted.
From Orbiter Require Import Lib.Str Lib.Res Gen.Constants Model.Ids Model.Env Model.Fee Model.Denom Model.Payload Model.State Model.Pipeline Model.Msgs Model.Genesis
     Proofs.IdsProofs Proofs.SetProofs Proofs.PipelineProofs Proofs.TransferProps Proofs.NoPanic Proofs.MsgProofs Proofs.StatsProofs Proofs.HistoryProofs Proofs.OrderTheory Proofs.PassthroughProofs.
Import ListNotations.
Open Scope string_scope.
Open Scope Z_scope.
Open Scope list_scope.

(* ---------- strings without the terminator ---------- *)
Lemma no_char_app c a b : no_char c (a ++ b) = no_char c a && no_char c b.
Proof. induction a as [|x a IH]; cbn; [reflexivity|]. rewrite IH, andb_assoc. reflexivity. Qed.

Lemma strip_prefix_app pre : forall s r, strip_prefix pre s = Some r -> s = (pre ++ r)%string.
Proof.
  induction pre as [|a pre IH]; intros s r H; cbn in H; [inversion H; reflexivity|].
  destruct s as [|b s]; [discriminate|]. destruct (Ascii.eqb a b) eqn:E; [|discriminate].
  apply Ascii.eqb_eq in E. subst b. cbn. f_equal. apply IH. exact H.
Qed.

Lemma nul_not_digit : is_digit "000"%char = false.
Proof. reflexivity. Qed.

Lemma valid_cp_no_nul s p : valid_counterparty s p = true -> key_str_ok s = true.
Proof.
  unfold valid_counterparty, valid_counterparty_with, key_str_ok. intros H.
  apply andb_true_iff in H as [_ H].
  destruct (p =? protocol_ibc).
  - unfold is_valid_channel_id in H. destruct (strip_prefix "channel-" s) as [r|] eqn:E; [|discriminate].
    apply strip_prefix_app in E. subst s.
    apply andb_true_iff in H as [H _]. apply andb_true_iff in H as [H _]. apply andb_true_iff in H as [H _].
    rewrite no_char_app. rewrite (digits_no_char _ _ nul_not_digit H). reflexivity.
  - destruct (_ || _).
    + unfold is_domain_string in H. destruct (canon_val s) as [n|] eqn:E; [|discriminate].
      apply canon_val_spec in E. subst s. apply (digits_no_char _ _ nul_not_digit). apply n_to_dec_digits.
    + destruct (p =? protocol_internal); [apply andb_true_iff in H as [H _]; exact H|discriminate].
Qed.

Lemma ccid_id_no_nul c : ccid_valid c = true -> key_str_ok (c_cp c) = true /\ key_str_ok (ccid_id c) = true.
Proof.
  unfold ccid_valid, ccid_valid_with. intros H. apply andb_true_iff in H as [_ H].
  pose proof (valid_cp_no_nul _ _ H) as Hc. split; [exact Hc|].
  unfold key_str_ok, ccid_id in *. rewrite !no_char_app, Hc, andb_true_r.
  rewrite (digits_no_char _ _ nul_not_digit (n_to_dec_digits _)). reflexivity.
Qed.

(* a valid denomination (letters, digits and / : . _ -) does not contain the key terminator *)
Lemma all_chars_no_char (f : ascii -> bool) c s : f c = false -> all_chars f s = true -> no_char c s = true.
Proof.
  intros Hc. induction s as [|x r IH]; cbn [all_chars no_char]; [reflexivity|].
  intros H. apply andb_true_iff in H as [Hx Hr]. rewrite (IH Hr), andb_true_r.
  destruct (Ascii.eqb x c) eqn:E; [|reflexivity]. apply Ascii.eqb_eq in E. subst x. congruence.
Qed.
Lemma valid_denom_no_nul d : valid_denom d = true -> key_str_ok d = true.
Proof.
  destruct d as [|c r]; [discriminate|]. cbn [valid_denom]. intros H.
  apply andb_true_iff in H as [H _]. apply andb_true_iff in H as [H _]. apply andb_true_iff in H as [Hc Hr].
  unfold key_str_ok. cbn [no_char].
  rewrite (all_chars_no_char is_denom_char "000"%char r eq_refl Hr), andb_true_r.
  destruct (Ascii.eqb c "000") eqn:E; [|reflexivity]. apply Ascii.eqb_eq in E. subst c. discriminate.
Qed.

(* ---------- the statistics part ---------- *)
Lemma ccid_ok_some c : ccid_ok c = true -> exists x, c = Some x /\ ccid_valid x = true.
Proof. destruct c as [x|]; cbn; [eauto|discriminate]. Qed.

Lemma set_amount_valid o a :
  amount_valid a = true ->
  exists s d, ga_src a = Some s /\ ga_dst a = Some d /\ ccid_valid s = true /\ ccid_valid d = true /\
    set_amount o a = Ok (set_stats o (mset cmp_ak {| ak_sp := c_proto s; ak_sc := c_cp s; ak_dst := ccid_id d; ak_denom := ga_denom a |}
                                            (ga_in a, ga_out a) (amounts o)) (counts o)).
Proof.
  unfold amount_valid. intros H. repeat (apply andb_true_iff in H as [H ?]).
  match goal with Hs : ccid_ok (ga_src a) = true |- _ => destruct (ccid_ok_some _ Hs) as (s & Es & Vs) end.
  match goal with Hd : ccid_ok (ga_dst a) = true |- _ => destruct (ccid_ok_some _ Hd) as (d & Ed & Vd) end.
  exists s, d. repeat split; try assumption.
  unfold set_amount. rewrite Es, Ed. cbn [ccid_or_zero].
  destruct (ccid_id_no_nul _ Vs) as [K1 _]. destruct (ccid_id_no_nul _ Vd) as [_ K2].
  match goal with Hv : valid_denom (ga_denom a) = true |- _ => rewrite K1, K2, (valid_denom_no_nul _ Hv) end. cbn [andb negb].
  unfold parse_ccid. rewrite (ccid_roundtrip_with is_domain_string d Vd). reflexivity.
Qed.

Lemma set_count_valid o c :
  count_valid c = true ->
  exists s d, gc_src c = Some s /\ gc_dst c = Some d /\ ccid_valid s = true /\ ccid_valid d = true /\
    set_count o c = Ok (set_stats o (amounts o) (mset cmp_ck {| ck_sp := c_proto s; ck_sc := c_cp s; ck_dp := c_proto d; ck_dc := c_cp d |}
                                                   (gc_n c) (counts o))).
Proof.
  unfold count_valid. intros H. repeat (apply andb_true_iff in H as [H ?]).
  match goal with Hs : ccid_ok (gc_src c) = true |- _ => destruct (ccid_ok_some _ Hs) as (s & Es & Vs) end.
  match goal with Hd : ccid_ok (gc_dst c) = true |- _ => destruct (ccid_ok_some _ Hd) as (d & Ed & Vd) end.
  exists s, d. repeat split; try assumption.
  unfold set_count. rewrite Es, Ed. cbn [ccid_or_zero]. destruct (ccid_id_no_nul _ Vs) as [K1 _]. rewrite K1. reflexivity.
Qed.

(* the non-statistics part of the state: untouched by the statistics setters *)
Lemma fold_amounts_ok amts : forall o,
  forallb amount_valid amts = true ->
  exists o', fold_res set_amount amts o = Ok o' /\ controls o' = controls o /\ counts o' = counts o.
Proof.
  induction amts as [|a r IH]; intros o H; [exists o; auto|].
  cbn [forallb] in H. apply andb_true_iff in H as [Ha Hr].
  destruct (set_amount_valid o a Ha) as (s & d & _ & _ & _ & _ & E). cbn [fold_res]. rewrite E. cbn [bind].
  match goal with |- context [fold_res set_amount r ?x] => destruct (IH x Hr) as (o' & Ho' & Hc & Hcn) end.
  exists o'. auto.
Qed.
Lemma fold_counts_ok cnts : forall o,
  forallb count_valid cnts = true ->
  exists o', fold_res set_count cnts o = Ok o' /\ controls o' = controls o /\ amounts o' = amounts o.
Proof.
  induction cnts as [|a r IH]; intros o H; [exists o; auto|].
  cbn [forallb] in H. apply andb_true_iff in H as [Ha Hr].
  destruct (set_count_valid o a Ha) as (s & d & _ & _ & _ & _ & E). cbn [fold_res]. rewrite E. cbn [bind].
  match goal with |- context [fold_res set_count r ?x] => destruct (IH x Hr) as (o' & Ho' & Hc & Hcn) end.
  exists o'. auto.
Qed.

(* ---------- the pause sets ---------- *)
Lemma distinct_cons {A} (eqb : A -> A -> bool) x r : distinct eqb (x :: r) = negb (existsb (eqb x) r) && distinct eqb r.
Proof. reflexivity. Qed.

Lemma fold_pause_protocol l : forall o,
  forallb protocol_valid l = true -> distinct Z.eqb l = true ->
  (forall x, In x l -> smem cmp_z x (paused_protos o) = false) ->
  exists o', fold_res pause_protocol l o = Ok o' /\
             paused_cc o' = paused_cc o /\ paused_actions o' = paused_actions o /\ max_pass o' = max_pass o /\
             amounts o' = amounts o /\ counts o' = counts o.
Proof.
  induction l as [|x r IH]; intros o Hv Hd Hn; [exists o; repeat split; reflexivity|].
  cbn [forallb] in Hv. apply andb_true_iff in Hv as [Hx Hv]. rewrite distinct_cons in Hd. apply andb_true_iff in Hd as [Hxr Hd].
  cbn [fold_res]. unfold pause_protocol at 1. rewrite Hx, (Hn x (or_introl eq_refl)). cbn [negb bind].
  destruct (IH (set_paused_protos o (sins cmp_z x (paused_protos o))) Hv Hd) as (o' & Ho' & H1 & H2 & H3 & H4 & H5).
  - intros y Hy. cbn [set_paused_protos paused_protos]. rewrite (smem_sins cmp_z cmp_z_eq). rewrite (Hn y (or_intror Hy)), orb_false_r.
    destruct (keqb cmp_z y x) eqn:E; [|reflexivity]. apply (keqb_eq cmp_z cmp_z_eq) in E. subst y.
    apply negb_true_iff in Hxr. rewrite <- Hxr. symmetry. apply existsb_exists. exists x. split; [exact Hy|apply Z.eqb_refl].
  - exists o'. split; [exact Ho'|]. cbn in *. auto.
Qed.

Lemma fold_pause_action l : forall o,
  forallb action_valid l = true -> distinct Z.eqb l = true ->
  (forall x, In x l -> smem cmp_z x (paused_actions o) = false) ->
  exists o', fold_res pause_action l o = Ok o' /\
             paused_cc o' = paused_cc o /\ paused_protos o' = paused_protos o /\ max_pass o' = max_pass o /\
             amounts o' = amounts o /\ counts o' = counts o.
Proof.
  induction l as [|x r IH]; intros o Hv Hd Hn; [exists o; repeat split; reflexivity|].
  cbn [forallb] in Hv. apply andb_true_iff in Hv as [Hx Hv]. rewrite distinct_cons in Hd. apply andb_true_iff in Hd as [Hxr Hd].
  cbn [fold_res]. unfold pause_action at 1. rewrite Hx, (Hn x (or_introl eq_refl)). cbn [negb bind].
  destruct (IH (set_paused_actions o (sins cmp_z x (paused_actions o))) Hv Hd) as (o' & Ho' & H1 & H2 & H3 & H4 & H5).
  - intros y Hy. cbn [set_paused_actions paused_actions]. rewrite (smem_sins cmp_z cmp_z_eq). rewrite (Hn y (or_intror Hy)), orb_false_r.
    destruct (keqb cmp_z y x) eqn:E; [|reflexivity]. apply (keqb_eq cmp_z cmp_z_eq) in E. subst y.
    apply negb_true_iff in Hxr. rewrite <- Hxr. symmetry. apply existsb_exists. exists x. split; [exact Hy|apply Z.eqb_refl].
  - exists o'. split; [exact Ho'|]. cbn in *. auto.
Qed.

Definition cc_key (c : ccid) : cckey := (c_proto c, c_cp c).

Lemma fold_pause_cc l : forall o,
  forallb ccid_ok l = true -> distinct occid_eqb l = true ->
  (forall c, In (Some c) l -> smem cmp_cc (cc_key c) (paused_cc o) = false) ->
  exists o', fold_res pause_cc_opt l o = Ok o' /\
             paused_protos o' = paused_protos o /\ paused_actions o' = paused_actions o /\ max_pass o' = max_pass o /\
             amounts o' = amounts o /\ counts o' = counts o.
Proof.
  induction l as [|x r IH]; intros o Hv Hd Hn; [exists o; repeat split; reflexivity|].
  cbn [forallb] in Hv. apply andb_true_iff in Hv as [Hx Hv]. rewrite distinct_cons in Hd. apply andb_true_iff in Hd as [Hxr Hd].
  destruct (ccid_ok_some _ Hx) as (c & -> & Vc).
  cbn [fold_res pause_cc_opt]. unfold pause_cc at 1.
  replace {| c_proto := c_proto c; c_cp := c_cp c |} with c by (destruct c; reflexivity).
  rewrite Vc. pose proof (Hn c (or_introl eq_refl)) as Hm. unfold cc_key in Hm. rewrite Hm. cbn [negb bind].
  destruct (IH (set_paused_cc o (sins cmp_cc (c_proto c, c_cp c) (paused_cc o))) Hv Hd) as (o' & Ho' & H1 & H2 & H3 & H4 & H5).
  - intros y Hy. cbn [set_paused_cc paused_cc]. rewrite (smem_sins cmp_cc cmp_cc_eq). rewrite (Hn y (or_intror Hy)), orb_false_r.
    destruct (keqb cmp_cc (cc_key y) (c_proto c, c_cp c)) eqn:E; [|reflexivity]. apply (keqb_eq cmp_cc cmp_cc_eq) in E.
    unfold cc_key in E. inversion E as [[E1 E2]].
    assert (y = c) by (destruct y, c; cbn in *; subst; reflexivity). subst y.
    apply negb_true_iff in Hxr. rewrite <- Hxr. symmetry. apply existsb_exists. exists (Some c). split; [exact Hy|].
    cbn. unfold ccid_eqb. apply String.eqb_refl.
  - exists o'. split; [exact Ho'|]. cbn in *. auto.
Qed.

(* ---------- C17: any genesis accepted by validation can be initialised ---------- *)
Theorem validated_genesis_initialises g :
  validate_genesis g = Ok tt -> exists o, init_genesis g = Ok o.
Proof.
  unfold validate_genesis, init_genesis.
  destruct (g_adapter g) as [m|]; [|discriminate].
  destruct (g_dispatcher g) as [[amts cnts]|]; [|discriminate].
  destruct (forallb amount_valid amts) eqn:Ha; cbn [negb]; [|discriminate].
  destruct (forallb count_valid cnts) eqn:Hc; cbn [negb]; [|discriminate].
  destruct (g_forwarder g) as [[protos ccs]|]; [|discriminate].
  destruct (forallb protocol_valid protos) eqn:Hp; cbn [negb]; [|discriminate].
  destruct (distinct Z.eqb protos) eqn:Hpd; cbn [negb]; [|discriminate].
  destruct (forallb ccid_ok ccs) eqn:Hcc; cbn [negb]; [|discriminate].
  destruct (distinct occid_eqb ccs) eqn:Hcd; cbn [negb]; [|discriminate].
  destruct (g_executor g) as [acts|]; [|discriminate].
  destruct (forallb action_valid acts) eqn:Hac; cbn [negb]; [|discriminate].
  destruct (distinct Z.eqb acts) eqn:Had; cbn [negb]; [|discriminate]. intros _.
  destruct (fold_amounts_ok amts (set_max_pass empty_ostate (Some m)) Ha) as (o1 & E1 & C1 & _). rewrite E1. cbn [bind].
  destruct (fold_counts_ok cnts o1 Hc) as (o2 & E2 & C2 & _). rewrite E2. cbn [bind andb negb].
  assert (Hctl : controls o2 = controls (set_max_pass empty_ostate (Some m))) by congruence.
  unfold controls in Hctl. cbn in Hctl.
  pose proof (f_equal (fun t => fst (fst (fst t))) Hctl) as P2. pose proof (f_equal (fun t => snd (fst (fst t))) Hctl) as CC2.
  pose proof (f_equal (fun t => snd (fst t)) Hctl) as A2. cbn in P2, CC2, A2.
  destruct (fold_pause_protocol protos o2 Hp Hpd) as (o3 & E3 & CC3 & A3 & _).
  { intros x _. rewrite P2. reflexivity. }
  rewrite E3. cbn [bind].
  destruct (fold_pause_cc ccs o3 Hcc Hcd) as (o4 & E4 & _ & A4 & _).
  { intros c _. rewrite CC3, CC2. reflexivity. }
  rewrite E4. cbn [bind].
  destruct (fold_pause_action acts o4 Hac Had) as (o5 & E5 & _).
  { intros x _. rewrite A4, A3, A2. reflexivity. }
  exists o5. exact E5.
Qed.

(* ---------- the invariant of the module state ---------- *)
Definition amt_ok (e : akey * (Z * Z)) : Prop :=
  let k := fst e in
  ccid_valid {| c_proto := ak_sp k; c_cp := ak_sc k |} = true /\
  (exists d, ccid_valid d = true /\ ak_dst k = ccid_id d) /\
  valid_denom (ak_denom k) = true /\ 0 <= fst (snd e) /\ 0 <= snd (snd e) /\ (0 < fst (snd e) \/ 0 < snd (snd e)).
Definition cnt_ok (e : ckey * Z) : Prop :=
  let k := fst e in
  ccid_valid {| c_proto := ck_sp k; c_cp := ck_sc k |} = true /\
  ccid_valid {| c_proto := ck_dp k; c_cp := ck_dc k |} = true /\ 0 < snd e.

Record Inv (o : ostate) : Prop := {
  iv_protos_sorted : ssorted cmp_z (paused_protos o);
  iv_protos_valid : Forall (fun p => protocol_valid p = true) (paused_protos o);
  iv_cc_sorted : ssorted cmp_cc (paused_cc o);
  iv_cc_valid : Forall (fun k => ccid_valid {| c_proto := fst k; c_cp := snd k |} = true) (paused_cc o);
  iv_actions_sorted : ssorted cmp_z (paused_actions o);
  iv_actions_valid : Forall (fun a => action_valid a = true) (paused_actions o);
  iv_limit : exists m, max_pass o = Some m;
  iv_amounts_sorted : msorted cmp_ak (amounts o);
  iv_amounts_ok : Forall amt_ok (amounts o);
  iv_counts_sorted : msorted cmp_ck (counts o);
  iv_counts_ok : Forall cnt_ok (counts o);
}.

(* ---------- export ---------- *)
Definition exp_amount (e : akey * (Z * Z)) (d : ccid) : gen_amount :=
  {| ga_src := Some {| c_proto := ak_sp (fst e); c_cp := ak_sc (fst e) |}; ga_dst := Some d; ga_denom := ak_denom (fst e);
     ga_in := fst (snd e); ga_out := snd (snd e) |}.

Lemma export_amount_ok e : amt_ok e -> exists d, ccid_valid d = true /\ ak_dst (fst e) = ccid_id d /\ export_amount e = Some (exp_amount e d).
Proof.
  intros (Hs & (d & Hd & Hk) & _). exists d. split; [exact Hd|]. split; [exact Hk|].
  unfold export_amount. rewrite Hs, Hk. unfold parse_ccid. rewrite (ccid_roundtrip_with is_domain_string d Hd). reflexivity.
Qed.

Lemma export_amounts_all l : Forall amt_ok l ->
  exists ds, all_some export_amount l = Some (map (fun ed => exp_amount (fst ed) (snd ed)) (combine l ds)) /\ length ds = length l /\
             Forall (fun ed => ccid_valid (snd ed) = true /\ ak_dst (fst (fst ed)) = ccid_id (snd ed)) (combine l ds).
Proof.
  induction 1 as [|e r He _ (ds & Hall & Hlen & Hf)]; [exists []; repeat split; constructor|].
  destruct (export_amount_ok e He) as (d & Hd & Hk & Hx). exists (d :: ds). cbn [all_some combine map length fst snd].
  rewrite Hx, Hall. split; [reflexivity|]. split; [congruence|]. constructor; [cbn; auto|exact Hf].
Qed.

Lemma export_count_ok e : cnt_ok e ->
  export_count e = Some {| gc_src := Some {| c_proto := ck_sp (fst e); c_cp := ck_sc (fst e) |};
                            gc_dst := Some {| c_proto := ck_dp (fst e); c_cp := ck_dc (fst e) |}; gc_n := snd e |}.
Proof. intros (Hs & Hd & _). unfold export_count. rewrite Hs, Hd. reflexivity. Qed.

Definition exp_count (e : ckey * Z) : gen_count :=
  {| gc_src := Some {| c_proto := ck_sp (fst e); c_cp := ck_sc (fst e) |};
     gc_dst := Some {| c_proto := ck_dp (fst e); c_cp := ck_dc (fst e) |}; gc_n := snd e |}.
Lemma export_counts_all l : Forall cnt_ok l -> all_some export_count l = Some (map exp_count l).
Proof.
  induction 1 as [|e r He _ IH]; [reflexivity|]. cbn [all_some map]. rewrite (export_count_ok e He), IH. reflexivity.
Qed.

Lemma sorted_distinct_z l : ssorted cmp_z l -> distinct Z.eqb l = true.
Proof.
  intros H. apply (sorted_nodup cmp_z order_z) in H. induction H as [|x r Hx _ IH]; [reflexivity|].
  rewrite distinct_cons, IH, andb_true_r. apply negb_true_iff. apply not_true_is_false. intros E.
  apply existsb_exists in E as (y & Hy & Exy). apply Z.eqb_eq in Exy. subst y. contradiction.
Qed.

Lemma valid_range c : ccid_valid c = true -> -2147483648 <= c_proto c <= 2147483647.
Proof. unfold ccid_valid, ccid_valid_with. intros H. apply andb_true_iff in H as [H _]. apply protocol_valid_range in H. lia. Qed.

Lemma cc_distinct l :
  NoDup l -> Forall (fun k : cckey => ccid_valid {| c_proto := fst k; c_cp := snd k |} = true) l ->
  distinct occid_eqb (map (fun k : cckey => Some {| c_proto := fst k; c_cp := snd k |}) l) = true.
Proof.
  induction 1 as [|k r Hk _ IH]; intros Hv; [reflexivity|]. inversion Hv as [|? ? Hvk Hvr]; subst.
  cbn [map]. rewrite distinct_cons, (IH Hvr), andb_true_r. apply negb_true_iff. apply not_true_is_false. intros E.
  apply existsb_exists in E as (y & Hy & Exy). apply in_map_iff in Hy as (k2 & <- & Hk2). cbn in Exy. unfold ccid_eqb in Exy.
  apply String.eqb_eq in Exy. rewrite Forall_forall in Hvr.
  apply ccid_id_injective in Exy; [|apply valid_range; exact Hvk|apply valid_range; apply Hvr; exact Hk2].
  inversion Exy as [[E1 E2]]. apply Hk. destruct k, k2; cbn in *; subst; exact Hk2.
Qed.

Lemma valid_denom_nonempty d : valid_denom d = true -> d <> "".
Proof. destruct d; [discriminate|discriminate]. Qed.

(* ---------- C17: the export of an invariant state passes validation ---------- *)
Theorem export_validates o : Inv o -> validate_genesis (export_genesis o) = Ok tt.
Proof.
  intros I. unfold validate_genesis, export_genesis. cbn [g_adapter g_dispatcher g_forwarder g_executor].
  destruct (export_amounts_all _ (iv_amounts_ok _ I)) as (ds & Ea & Hlen & Hds). rewrite Ea, (export_counts_all _ (iv_counts_ok _ I)). cbn [or_empty].
  assert (Ha : forallb amount_valid (map (fun ed => exp_amount (fst ed) (snd ed)) (combine (amounts o) ds)) = true).
  { apply forallb_forall. intros a Hin. apply in_map_iff in Hin as ([e d] & <- & Hin). cbn [fst snd].
    pose proof (iv_amounts_ok _ I) as Hok. rewrite Forall_forall in Hok, Hds.
    specialize (Hds _ Hin). cbn [fst snd] in Hds. destruct Hds as [Hd _].
    apply in_combine_l in Hin. destruct (Hok _ Hin) as (Hs & _ & Hden & Hi & Ho & Hpos).
    unfold amount_valid, exp_amount. cbn [ga_denom ga_src ga_dst ga_in ga_out ccid_ok]. rewrite Hs, Hd.
    pose proof (valid_denom_nonempty _ Hden) as Hne. apply String.eqb_neq in Hne. rewrite Hne, Hden. cbn [negb andb].
    apply Z.leb_le in Hi, Ho. rewrite Hi, Ho. cbn [andb].
    destruct Hpos as [Hp|Hp]; apply Z.ltb_lt in Hp; rewrite Hp; [reflexivity|apply orb_true_r]. }
  rewrite Ha. cbn [negb].
  assert (Hc : forallb count_valid (map exp_count (counts o)) = true).
  { apply forallb_forall. intros c Hin. apply in_map_iff in Hin as (e & <- & Hin).
    pose proof (iv_counts_ok _ I) as Hok. rewrite Forall_forall in Hok. destruct (Hok _ Hin) as (Hs & Hd & Hn).
    unfold count_valid, exp_count. cbn [gc_n gc_src gc_dst ccid_ok]. rewrite Hs, Hd. apply Z.ltb_lt in Hn. rewrite Hn. reflexivity. }
  rewrite Hc. cbn [negb].
  assert (Hp : forallb protocol_valid (paused_protos o) = true).
  { apply forallb_forall. pose proof (iv_protos_valid _ I) as H. rewrite Forall_forall in H. exact H. }
  rewrite Hp, (sorted_distinct_z _ (iv_protos_sorted _ I)). cbn [negb].
  assert (Hcc : forallb ccid_ok (map (fun k => Some {| c_proto := fst k; c_cp := snd k |}) (paused_cc o)) = true).
  { apply forallb_forall. intros c Hin. apply in_map_iff in Hin as (k & <- & Hin). cbn [ccid_ok].
    pose proof (iv_cc_valid _ I) as H. rewrite Forall_forall in H. apply H. exact Hin. }
  rewrite Hcc. cbn [negb].
  assert (Hcd : distinct occid_eqb (map (fun k => Some {| c_proto := fst k; c_cp := snd k |}) (paused_cc o)) = true).
  { apply cc_distinct; [apply (sorted_nodup cmp_cc order_cc); exact (iv_cc_sorted _ I)|exact (iv_cc_valid _ I)]. }
  rewrite Hcd. cbn [negb].
  assert (Hac : forallb action_valid (paused_actions o) = true).
  { apply forallb_forall. pose proof (iv_actions_valid _ I) as H. rewrite Forall_forall in H. exact H. }
  rewrite Hac, (sorted_distinct_z _ (iv_actions_sorted _ I)). reflexivity.
Qed.

(* ---------- re-initialisation rebuilds the sorted lists ---------- *)
Lemma akey_eta k d : ak_dst k = ccid_id d ->
  {| ak_sp := ak_sp k; ak_sc := ak_sc k; ak_dst := ccid_id d; ak_denom := ak_denom k |} = k.
Proof. intros <-. destruct k; reflexivity. Qed.

Lemma prefix_lt {K} (cmp : K -> K -> comparison) (O : order cmp) pre x rest :
  ssorted cmp (pre ++ x :: rest) -> Forall (fun y => lt cmp y x) pre.
Proof.
  intros H. apply (sorted_app_inv cmp) in H as (_ & _ & H). apply Forall_forall. intros y Hy. apply H; [exact Hy|left; reflexivity].
Qed.

Lemma ckey_eta k : {| ck_sp := ck_sp k; ck_sc := ck_sc k; ck_dp := ck_dp k; ck_dc := ck_dc k |} = k.
Proof. destruct k; reflexivity. Qed.

Lemma set_amount_exp o0 e d :
  ccid_valid {| c_proto := ak_sp (fst e); c_cp := ak_sc (fst e) |} = true -> ccid_valid d = true -> ak_dst (fst e) = ccid_id d ->
  valid_denom (ak_denom (fst e)) = true ->
  set_amount o0 (exp_amount e d) = Ok (set_stats o0 (mset cmp_ak (fst e) (snd e) (amounts o0)) (counts o0)).
Proof.
  intros Hsv Hd Hk Hden. unfold set_amount, exp_amount. cbn [ga_src ga_dst ga_denom ga_in ga_out ccid_or_zero c_proto c_cp].
  destruct (ccid_id_no_nul _ Hsv) as [K1 _]. destruct (ccid_id_no_nul _ Hd) as [_ K2]. cbn [c_cp] in K1.
  rewrite K1, K2, (valid_denom_no_nul _ Hden). cbn [andb negb].
  unfold parse_ccid. rewrite (ccid_roundtrip_with is_domain_string d Hd). rewrite (akey_eta _ _ Hk).
  destruct e as [k [i u]]. reflexivity.
Qed.

Lemma set_count_exp o0 e :
  ccid_valid {| c_proto := ck_sp (fst e); c_cp := ck_sc (fst e) |} = true ->
  set_count o0 (exp_count e) = Ok (set_stats o0 (amounts o0) (mset cmp_ck (fst e) (snd e) (counts o0))).
Proof.
  intros Hsv. unfold set_count, exp_count. cbn [gc_src gc_dst gc_n ccid_or_zero c_proto c_cp].
  destruct (ccid_id_no_nul _ Hsv) as [K1 _]. cbn [c_cp] in K1. rewrite K1, ckey_eta. reflexivity.
Qed.

Lemma rebuild_amounts suffix : forall ds pre o0,
  length ds = length suffix ->
  Forall (fun ed => ccid_valid (snd ed) = true /\ ak_dst (fst (fst ed)) = ccid_id (snd ed)) (combine suffix ds) ->
  Forall amt_ok suffix ->
  msorted cmp_ak (pre ++ suffix) -> amounts o0 = pre ->
  fold_res set_amount (map (fun ed => exp_amount (fst ed) (snd ed)) (combine suffix ds)) o0 =
    Ok (set_stats o0 (pre ++ suffix) (counts o0)).
Proof.
  induction suffix as [|e r IH]; intros ds pre o0 Hlen Hds Hok Hs Hpre. subst pre.
  - cbn. rewrite app_nil_r. destruct o0; reflexivity.
  - destruct ds as [|d ds]; [discriminate|]. cbn [combine map fold_res fst snd].
    inversion Hds as [|? ? [Hd Hk] Hds']; subst. inversion Hok as [|? ? He Hok']; subst. cbn [fst snd] in Hd, Hk.
    destruct He as (Hsv & _ & Hden & _).
    rewrite (set_amount_exp o0 e d Hsv Hd Hk Hden). cbn [bind].
    unfold msorted in Hs. rewrite map_app in Hs. cbn [map] in Hs.
    pose proof (prefix_lt cmp_ak order_ak _ _ _ Hs) as Hlt.
    assert (Hm : mset cmp_ak (fst e) (snd e) (amounts o0) = amounts o0 ++ [e]).
    { rewrite (mset_last cmp_ak order_ak).
      - destruct e as [k [i u]]; reflexivity.
      - apply Forall_forall. intros x Hx. rewrite Forall_forall in Hlt. apply Hlt. apply in_map. exact Hx. }
    rewrite Hm.
    rewrite (IH ds (amounts o0 ++ [e]) _ (f_equal pred Hlen) Hds' Hok').
    + cbn [set_stats amounts counts]. rewrite <- app_assoc. reflexivity.
    + unfold msorted. rewrite <- app_assoc, map_app. exact Hs.
    + reflexivity.
Qed.


Lemma rebuild_counts suffix : forall pre o0,
  Forall cnt_ok suffix -> msorted cmp_ck (pre ++ suffix) -> counts o0 = pre ->
  fold_res set_count (map exp_count suffix) o0 = Ok (set_stats o0 (amounts o0) (pre ++ suffix)).
Proof.
  induction suffix as [|e r IH]; intros pre o0 Hok Hs Hpre. subst pre.
  - cbn. rewrite app_nil_r. destruct o0; reflexivity.
  - cbn [map fold_res]. inversion Hok as [|? ? He Hok']; subst. destruct He as (Hsv & _).
    rewrite (set_count_exp o0 e Hsv). cbn [bind].
    unfold msorted in Hs. rewrite map_app in Hs. cbn [map] in Hs.
    pose proof (prefix_lt cmp_ck order_ck _ _ _ Hs) as Hlt.
    assert (Hm : mset cmp_ck (fst e) (snd e) (counts o0) = counts o0 ++ [e]).
    { rewrite (mset_last cmp_ck order_ck).
      - destruct e; reflexivity.
      - apply Forall_forall. intros x Hx. rewrite Forall_forall in Hlt. apply Hlt. apply in_map. exact Hx. }
    rewrite Hm.
    rewrite (IH (counts o0 ++ [e]) _ Hok').
    + cbn [set_stats amounts counts]. rewrite <- app_assoc. reflexivity.
    + unfold msorted. rewrite <- app_assoc, map_app. exact Hs.
    + reflexivity.
Qed.

Lemma lt_not_mem {K} (cmp : K -> K -> comparison) (O : order cmp) x l :
  Forall (fun y => lt cmp y x) l -> smem cmp x l = false.
Proof.
  intros H. apply not_true_is_false. intros E. apply (smem_In cmp (o_eq _ O)) in E.
  rewrite Forall_forall in H. apply (lt_irrefl cmp O x). apply H. exact E.
Qed.

Lemma rebuild_protos suffix : forall pre o0,
  Forall (fun p => protocol_valid p = true) suffix -> ssorted cmp_z (pre ++ suffix) -> paused_protos o0 = pre ->
  fold_res pause_protocol suffix o0 = Ok (set_paused_protos o0 (pre ++ suffix)).
Proof.
  induction suffix as [|x r IH]; intros pre o0 Hv Hs Hpre. subst pre.
  - cbn. rewrite app_nil_r. destruct o0; reflexivity.
  - cbn [fold_res]. inversion Hv as [|? ? Hx Hv']; subst. unfold pause_protocol at 1. rewrite Hx. cbn [negb].
    pose proof (prefix_lt cmp_z order_z _ _ _ Hs) as Hlt.
    rewrite (lt_not_mem cmp_z order_z _ _ Hlt), (sins_last cmp_z order_z _ _ Hlt). cbn [bind].
    rewrite (IH (paused_protos o0 ++ [x]) _ Hv').
    + cbn. rewrite <- app_assoc. reflexivity.
    + rewrite <- app_assoc. exact Hs.
    + reflexivity.
Qed.

Lemma rebuild_actions suffix : forall pre o0,
  Forall (fun p => action_valid p = true) suffix -> ssorted cmp_z (pre ++ suffix) -> paused_actions o0 = pre ->
  fold_res pause_action suffix o0 = Ok (set_paused_actions o0 (pre ++ suffix)).
Proof.
  induction suffix as [|x r IH]; intros pre o0 Hv Hs Hpre. subst pre.
  - cbn. rewrite app_nil_r. destruct o0; reflexivity.
  - cbn [fold_res]. inversion Hv as [|? ? Hx Hv']; subst. unfold pause_action at 1. rewrite Hx. cbn [negb].
    pose proof (prefix_lt cmp_z order_z _ _ _ Hs) as Hlt.
    rewrite (lt_not_mem cmp_z order_z _ _ Hlt), (sins_last cmp_z order_z _ _ Hlt). cbn [bind].
    rewrite (IH (paused_actions o0 ++ [x]) _ Hv').
    + cbn. rewrite <- app_assoc. reflexivity.
    + rewrite <- app_assoc. exact Hs.
    + reflexivity.
Qed.

Lemma rebuild_cc suffix : forall pre o0,
  Forall (fun k : cckey => ccid_valid {| c_proto := fst k; c_cp := snd k |} = true) suffix ->
  ssorted cmp_cc (pre ++ suffix) -> paused_cc o0 = pre ->
  fold_res pause_cc_opt (map (fun k : cckey => Some {| c_proto := fst k; c_cp := snd k |}) suffix) o0 =
    Ok (set_paused_cc o0 (pre ++ suffix)).
Proof.
  induction suffix as [|x r IH]; intros pre o0 Hv Hs Hpre. subst pre.
  - cbn. rewrite app_nil_r. destruct o0; reflexivity.
  - cbn [map fold_res pause_cc_opt c_proto c_cp]. inversion Hv as [|? ? Hx Hv']; subst. unfold pause_cc at 1. rewrite Hx. cbn [negb].
    pose proof (prefix_lt cmp_cc order_cc _ _ _ Hs) as Hlt.
    replace (fst x, snd x) with x by (destruct x; reflexivity).
    rewrite (lt_not_mem cmp_cc order_cc _ _ Hlt), (sins_last cmp_cc order_cc _ _ Hlt). cbn [bind].
    rewrite (IH (paused_cc o0 ++ [x]) _ Hv').
    + cbn. rewrite <- app_assoc. reflexivity.
    + rewrite <- app_assoc. exact Hs.
    + reflexivity.
Qed.

Lemma forall_forallb {A} (f : A -> bool) l : Forall (fun x => f x = true) l -> forallb f l = true.
Proof. intros H. apply forallb_forall. rewrite Forall_forall in H. exact H. Qed.

(* ---------- C17: export -> init gives back exactly the state ---------- *)
Theorem export_init_roundtrip o : Inv o -> init_genesis (export_genesis o) = Ok o.
Proof.
  intros I. destruct (iv_limit _ I) as [m Hm].
  unfold init_genesis, export_genesis. cbn [g_adapter g_dispatcher g_forwarder g_executor]. rewrite Hm.
  destruct (export_amounts_all _ (iv_amounts_ok _ I)) as (ds & Ea & Hlen & Hds). rewrite Ea, (export_counts_all _ (iv_counts_ok _ I)). cbn [or_empty].
  rewrite (rebuild_amounts (amounts o) ds [] (set_max_pass empty_ostate (Some m)) Hlen Hds (iv_amounts_ok _ I) (iv_amounts_sorted _ I) eq_refl).
  cbn [bind app].
  match goal with |- context [fold_res set_count _ ?x] =>
    rewrite (rebuild_counts (counts o) [] x (iv_counts_ok _ I) (iv_counts_sorted _ I) eq_refl) end. cbn [bind app].
  rewrite (forall_forallb _ _ (iv_protos_valid _ I)), (sorted_distinct_z _ (iv_protos_sorted _ I)).
  assert (Hcc : forallb ccid_ok (map (fun k : cckey => Some {| c_proto := fst k; c_cp := snd k |}) (paused_cc o)) = true).
  { apply forallb_forall. intros c Hin. apply in_map_iff in Hin as (k & <- & Hin). cbn [ccid_ok].
    pose proof (iv_cc_valid _ I) as H. rewrite Forall_forall in H. apply H. exact Hin. }
  pose proof (cc_distinct _ (sorted_nodup cmp_cc order_cc _ (iv_cc_sorted _ I)) (iv_cc_valid _ I)) as Hcd.
  unfold cckey in *. rewrite Hcc, Hcd. cbn [andb negb].
  match goal with |- context [fold_res pause_protocol _ ?x] =>
    rewrite (rebuild_protos (paused_protos o) [] x (iv_protos_valid _ I) (iv_protos_sorted _ I) eq_refl) end. cbn [bind app].
  match goal with |- context [fold_res pause_cc_opt _ ?x] =>
    pose proof (rebuild_cc (paused_cc o) [] x (iv_cc_valid _ I) (iv_cc_sorted _ I) eq_refl) as Hrc end.
  unfold cckey in Hrc. rewrite Hrc. cbn [bind app].
  rewrite (forall_forallb _ _ (iv_actions_valid _ I)), (sorted_distinct_z _ (iv_actions_sorted _ I)). cbn [andb negb].
  match goal with |- context [fold_res pause_action _ ?x] =>
    rewrite (rebuild_actions (paused_actions o) [] x (iv_actions_valid _ I) (iv_actions_sorted _ I) eq_refl) end. cbn [app].
  cbn. destruct o. cbn in Hm. subst. reflexivity.
Qed.

Corollary reexport_identical o : Inv o ->
  exists o', init_genesis (export_genesis o) = Ok o' /\ export_genesis o' = export_genesis o /\ o' = o.
Proof. intros I. exists o. split; [apply export_init_roundtrip; exact I|auto]. Qed.

(* ---------- the invariant holds initially and is preserved by every operation ---------- *)
Lemma Forall_sins {K} (cmp : K -> K -> comparison) (O : order cmp) (P : K -> Prop) x l :
  P x -> Forall P l -> Forall P (sins cmp x l).
Proof.
  intros Hx Hl. apply Forall_forall. intros y Hy. apply (In_sins cmp (o_eq _ O)) in Hy as [->|Hy]; [exact Hx|].
  rewrite Forall_forall in Hl. apply Hl. exact Hy.
Qed.
Lemma Forall_srem {K} (cmp : K -> K -> comparison) (P : K -> Prop) x l : Forall P l -> Forall P (srem cmp x l).
Proof.
  intros Hl. apply Forall_forall. intros y Hy. unfold srem in Hy. apply filter_In in Hy as [Hy _].
  rewrite Forall_forall in Hl. apply Hl. exact Hy.
Qed.

Lemma Forall_mset {K V} (cmp : K -> K -> comparison) (O : order cmp) (P : K * V -> Prop) (k : K) (v : V) (m : list (K * V)) :
  P (k, v) -> Forall P m -> Forall P (mset cmp k v m).
Proof.
  intros Hk. induction 1 as [|[k0 v0] t H0 Ht IH]; cbn [mset]; [repeat constructor; exact Hk|].
  destruct (cmp k k0); repeat constructor; auto.
Qed.

Lemma empty_inv m : Inv (set_max_pass empty_ostate (Some m)).
Proof. split; cbn; try constructor; eauto. Qed.

(* setters used by messages and by initialisation *)
Lemma inv_pause_protocol o pid o' : Inv o -> pause_protocol o pid = Ok o' -> Inv o'.
Proof.
  intros I H. apply pause_protocol_ok in H as (Hv & _ & ->). destruct I. split; cbn; try assumption.
  - apply (sins_sorted cmp_z order_z). assumption.
  - apply (Forall_sins cmp_z order_z); assumption.
Qed.
Lemma inv_unpause_protocol o pid o' : Inv o -> unpause_protocol o pid = Ok o' -> Inv o'.
Proof.
  intros I H. apply unpause_protocol_ok in H as (Hv & _ & ->). destruct I. split; cbn; try assumption.
  - apply (srem_sorted cmp_z). assumption.
  - apply Forall_srem. assumption.
Qed.
Lemma inv_pause_action o a o' : Inv o -> pause_action o a = Ok o' -> Inv o'.
Proof.
  intros I H. apply pause_action_ok in H as (Hv & _ & ->). destruct I. split; cbn; try assumption.
  - apply (sins_sorted cmp_z order_z). assumption.
  - apply (Forall_sins cmp_z order_z); assumption.
Qed.
Lemma inv_unpause_action o a o' : Inv o -> unpause_action o a = Ok o' -> Inv o'.
Proof.
  intros I H. apply unpause_action_ok in H as (Hv & _ & ->). destruct I. split; cbn; try assumption.
  - apply (srem_sorted cmp_z). assumption.
  - apply Forall_srem. assumption.
Qed.
Lemma inv_pause_cc o pid cp o' : Inv o -> pause_cc o pid cp = Ok o' -> Inv o'.
Proof.
  intros I H. unfold pause_cc in H. destruct (ccid_valid _) eqn:Hv; [|discriminate]. cbn [negb] in H.
  destruct (smem _ _ _); [discriminate|]. inversion H; subst. destruct I. split; cbn; try assumption.
  - apply (sins_sorted cmp_cc order_cc). assumption.
  - apply (Forall_sins cmp_cc order_cc); [exact Hv|assumption].
Qed.
Lemma inv_unpause_cc o pid cp o' : Inv o -> unpause_cc o pid cp = Ok o' -> Inv o'.
Proof.
  intros I H. unfold unpause_cc in H. destruct (ccid_valid _) eqn:Hv; [|discriminate]. cbn [negb] in H.
  destruct (smem _ _ _); [|discriminate]. inversion H; subst. destruct I. split; cbn; try assumption.
  - apply (srem_sorted cmp_cc). assumption.
  - apply Forall_srem. assumption.
Qed.

Lemma inv_fold {A} (f : ostate -> A -> res ostate) (Hf : forall o a o', Inv o -> f o a = Ok o' -> Inv o') l :
  forall o o', Inv o -> fold_res f l o = Ok o' -> Inv o'.
Proof.
  induction l as [|a r IH]; intros o o' I H; [inversion H; subst; exact I|].
  cbn [fold_res] in H. destruct (f o a) as [o1| |] eqn:E; try discriminate. cbn [bind] in H. eapply IH; [|exact H]. eapply Hf; eauto.
Qed.

Lemma inv_forwarder_pause o pid ids o' : Inv o -> forwarder_pause o pid ids = Ok o' -> Inv o'.
Proof.
  intros I H. unfold forwarder_pause in H. destruct (negb _); [discriminate|]. destruct ids as [|c r].
  - eapply inv_pause_protocol; eauto.
  - destruct (forallb _ _); [|discriminate]. eapply (inv_fold (fun o cp => pause_cc o pid cp)); [|exact I|exact H].
    intros; eapply inv_pause_cc; eauto.
Qed.
Lemma inv_forwarder_unpause o pid ids o' : Inv o -> forwarder_unpause o pid ids = Ok o' -> Inv o'.
Proof.
  intros I H. unfold forwarder_unpause in H. destruct (negb _); [discriminate|]. destruct ids as [|c r].
  - eapply inv_unpause_protocol; eauto.
  - destruct (forallb _ _); [|discriminate]. eapply (inv_fold (fun o cp => unpause_cc o pid cp)); [|exact I|exact H].
    intros; eapply inv_unpause_cc; eauto.
Qed.

Lemma inv_max_pass o m : Inv o -> Inv (set_max_pass o (Some m)).
Proof. intros I. destruct I. split; cbn; try assumption. eauto. Qed.

(* messages *)
Lemma step_msg_inv cfg w signer m tape : Inv (w_o w) -> Inv (w_o (fst (step_msg cfg w signer m tape))).
Proof.
  intros I. destruct (step_msg cfg w signer m tape) as [w' x] eqn:E. cbn [fst].
  destruct (step_msg_out cfg w signer m tape) as (c & tr & Hx). rewrite E in Hx. cbn in Hx. subst x.
  destruct c as [|c]; [|rewrite (step_msg_refused _ _ _ _ _ _ _ _ E) by discriminate; exact I].
  apply step_msg_ok_inv in E as (_ & o' & s & Hb & -> & _). cbn [w_o].
  destruct m as [name|name|name ids|name ids|name|name|mx|om oa nc nr]; cbn [handle_body] in Hb.
  - destruct (protocol_from_string name); [|discriminate]. apply with_event_ok in Hb as [Hr _]. eapply inv_forwarder_pause; eauto.
  - destruct (protocol_from_string name); [|discriminate]. apply with_event_ok in Hb as [Hr _]. eapply inv_forwarder_unpause; eauto.
  - destruct (protocol_from_string name); [|discriminate]. destruct (_ <? _); [discriminate|].
    apply with_event_ok in Hb as [Hr _]. eapply inv_forwarder_pause; eauto.
  - destruct (protocol_from_string name); [|discriminate]. destruct (_ <? _); [discriminate|].
    apply with_event_ok in Hb as [Hr _]. eapply inv_forwarder_unpause; eauto.
  - destruct (action_from_string name); [|discriminate]. apply with_event_ok in Hb as [Hr _]. eapply inv_pause_action; eauto.
  - destruct (action_from_string name); [|discriminate]. apply with_event_ok in Hb as [Hr _]. eapply inv_unpause_action; eauto.
  - inversion Hb; subst. apply inv_max_pass. exact I.
  - destruct (negb _); [discriminate|]. apply PipelineProofs.mbind_ok in Hb as (u & s1 & _ & H2). inversion H2; subst. exact I.
Qed.

(* ---------- statistics updates preserve the invariant ---------- *)
Lemma mget_In {K V} (cmp : K -> K -> comparison) (k : K) (m : list (K * V)) (v : V) :
  mget cmp k m = Some v -> exists k', In (k', v) m /\ keqb cmp k k' = true.
Proof.
  induction m as [|[k0 v0] t IH]; cbn [mget]; [discriminate|].
  destruct (keqb cmp k k0) eqn:E.
  - intros H; inversion H; subst. exists k0. split; [left; reflexivity|exact E].
  - intros H. destruct (IH H) as (k' & Hin & Hk). exists k'. split; [right; exact Hin|exact Hk].
Qed.

Definition key_ok (k : akey) : Prop :=
  ccid_valid {| c_proto := ak_sp k; c_cp := ak_sc k |} = true /\
  (exists d, ccid_valid d = true /\ ak_dst k = ccid_id d) /\ valid_denom (ak_denom k) = true.

Lemma update_amount_inv o k i u o' :
  Inv o -> key_ok k -> 0 <= i -> 0 <= u -> (0 < i \/ 0 < u) ->
  update_amount true o k i u = Ok o' -> Inv o'.
Proof.
  intros I (Ks & Kd & Kn) Hi Hu Hpos. unfold update_amount.
  destruct (match mget cmp_ak k (amounts o) with Some v => v | None => (0, 0) end) as [oi oo] eqn:Eold.
  assert (Hold : 0 <= oi /\ 0 <= oo).
  { destruct (mget cmp_ak k (amounts o)) as [v|] eqn:Em.
    - subst v. apply mget_In in Em as (k' & Hin & _). pose proof (iv_amounts_ok _ I) as Hok. rewrite Forall_forall in Hok.
      destruct (Hok _ Hin) as (_ & _ & _ & H1 & H2 & _). cbn in H1, H2. auto.
    - inversion Eold; subst. lia. }
  unfold add_amount.
  destruct (0 <? i) eqn:Ei; destruct (0 <? u) eqn:Eu;
    repeat match goal with |- context [if int_fits ?x then _ else _] => destruct (int_fits x) end; cbn [bind]; try discriminate;
    intros H; inversion H; subst o'; clear H;
    (destruct I; split; cbn [set_stats paused_protos paused_cc paused_actions max_pass amounts counts]; try assumption;
     [apply (mset_sorted cmp_ak order_ak); assumption
     |apply (Forall_mset cmp_ak order_ak); [|assumption]; unfold amt_ok; cbn [fst snd];
      apply Z.ltb_lt in Ei || apply Z.ltb_ge in Ei; apply Z.ltb_lt in Eu || apply Z.ltb_ge in Eu;
      repeat split; try assumption; try lia]).
Qed.

Lemma update_count_inv o k o' :
  Inv o ->
  ccid_valid {| c_proto := ck_sp k; c_cp := ck_sc k |} = true -> ccid_valid {| c_proto := ck_dp k; c_cp := ck_dc k |} = true ->
  update_count o k = Ok o' -> Inv o'.
Proof.
  intros I Hs Hd. unfold update_count.
  assert (Hc : 0 <= match mget cmp_ck k (counts o) with Some v => v | None => 0 end).
  { destruct (mget cmp_ck k (counts o)) as [v|] eqn:Em; [|lia].
    apply mget_In in Em as (k' & Hin & _). pose proof (iv_counts_ok _ I) as Hok. rewrite Forall_forall in Hok.
    destruct (Hok _ Hin) as (_ & _ & H1). cbn in H1. lia. }
  destruct (_ =? 18446744073709551615); [discriminate|]. intros H; inversion H; subst o'.
  destruct I; split; cbn [set_stats paused_protos paused_cc paused_actions max_pass amounts counts]; try assumption.
  - apply (mset_sorted cmp_ck order_ck). assumption.
  - apply (Forall_mset cmp_ck order_ck); [|assumption]. unfold cnt_ok. cbn [fst snd]. repeat split; try assumption. lia.
Qed.


Lemma update_stats_inv o t f o' cp a :
  Inv o -> f_attrs f = Some a -> counterparty_of a = Some cp ->
  tattr_validate t = Ok tt ->
  update_stats_swallow true o t f = Ok o' -> Inv o'.
Proof.
  intros I Ha Hcp Hv. unfold update_stats_swallow. rewrite Ha, Hcp.
  destruct (negb (ccid_valid {| c_proto := t_sp t; c_cp := t_sc t |}) || negb (ccid_valid {| c_proto := f_pid f; c_cp := cp |})) eqn:Eval.
  { intros H; inversion H; subst; exact I. }
  apply orb_false_iff in Eval as [Es Ed]. apply negb_false_iff in Es, Ed.
  pose proof (tattr_validate_pos _ Hv) as [Hsa Hda].
  assert (Hden : valid_denom (t_sdenom t) = true /\ valid_denom (t_ddenom t) = true).
  { unfold tattr_validate in Hv. rewrite Es in Hv. cbn [negb] in Hv.
    destruct (coin_valid (t_sdenom t) (t_samt t)) eqn:C1; [|discriminate]. cbn [negb] in Hv.
    destruct (0 <? t_samt t); [|discriminate]. cbn [negb] in Hv.
    destruct (coin_valid (t_ddenom t) (t_damt t)) eqn:C2; [|discriminate].
    unfold coin_valid in C1, C2. apply andb_true_iff in C1 as [C1 _]. apply andb_true_iff in C2 as [C2 _].
    split; assumption. }
  destruct Hden as [Hsd Hdd].
  assert (Hkey : forall d, valid_denom d = true -> key_ok {| ak_sp := t_sp t; ak_sc := t_sc t; ak_dst := ccid_id {| c_proto := f_pid f; c_cp := cp |}; ak_denom := d |}).
  { intros d Hd. split; [exact Es|]. split; [eexists; split; [exact Ed|reflexivity]|exact Hd]. }
  assert (Hfin : forall o1 o2, Inv o1 ->
            match update_count o1 {| ck_sp := t_sp t; ck_sc := t_sc t; ck_dp := f_pid f; ck_dc := cp |} with
            | Ok o2 => Ok o2 | Err _ => Ok o1 | Panic x => Panic x end = Ok o2 -> Inv o2).
  { intros o1 o2 I1. destruct (update_count o1 _) eqn:E; intros H; inversion H; subst; [|exact I1].
    eapply update_count_inv; [exact I1| | |exact E]; assumption. }
  destruct (String.eqb (t_sdenom t) (t_ddenom t)).
  - destruct (update_amount true o _ (t_samt t) (t_damt t)) as [o1| |] eqn:E1; try discriminate.
    + intros H. eapply Hfin; [|exact H]. eapply update_amount_inv; [exact I|apply Hkey; exact Hsd| | | |exact E1]; lia.
    + intros H; inversion H; subst; exact I.
  - destruct (update_amount true o _ (t_samt t) 0) as [o1| |] eqn:E1; try discriminate.
    + assert (I1 : Inv o1) by (eapply update_amount_inv; [exact I|apply Hkey; exact Hsd| | | |exact E1]; lia).
      destruct (update_amount true o1 _ 0 (t_damt t)) as [o2| |] eqn:E2; try discriminate.
      * intros H. eapply Hfin; [|exact H]. eapply update_amount_inv; [exact I1|apply Hkey; exact Hdd| | | |exact E2]; lia.
      * intros H; inversion H; subst; exact I1.
    + intros H; inversion H; subst; exact I.
Qed.

(* packets *)
Lemma recv_inv cfg e w p tape lie : Inv (w_o w) -> Inv (w_o (rr_world (recv_lie cfg e w p tape lie))).
Proof.
  intros I. destruct (outcome_eq_ok (rr_out (recv_lie cfg e w p tape lie))) as [E|E].
  - destruct (recv_ok_inv _ _ _ _ _ _ E) as (denom & amount & sender & receiver & pl & f & t & t' & a & cp & acalls & fcalls & ams & mv & o' & T).
    rewrite (tr_world _ _ _ _ _ _ _ _ _ _ _ _ _ _ _ _ _ _ _ _ _ T). cbn [w_o].
    pose proof (tr_checked _ _ _ _ _ _ _ _ _ _ _ _ _ _ _ _ _ _ _ _ _ T) as C.
    eapply update_stats_inv; [exact I|exact (fc_attrs _ _ _ _ _ _ _ _ _ C)|exact (fc_cp _ _ _ _ _ _ _ _ _ C)|exact (fc_tattr _ _ _ _ _ _ _ _ _ C)|].
    exact (tr_stats _ _ _ _ _ _ _ _ _ _ _ _ _ _ _ _ _ _ _ _ _ T).
  - destruct (recv_no_record_lie _ _ _ _ _ _ E) as [Ho _]. rewrite Ho. exact I.
Qed.

(* every operation *)
Theorem step_inv cfg e w o : Inv (w_o w) -> Inv (w_o (fst (step cfg e w o))).
Proof.
  intros I. destruct o as [p tape lie|signer m tape|to d a|sf st sd sa|mv|q| | | |p2 tape2 lie2 k2]; cbn [step fst]; try exact I.
  - apply recv_inv. exact I.
  - apply step_msg_inv. exact I.
  - destruct (_ || _ || _); exact I.
Qed.

Theorem history_inv cfg e : forall ops w, Inv (w_o w) -> Inv (w_o (final_world cfg e w ops)).
Proof.
  induction ops as [|o r IH]; intros w I; [exact I|].
  unfold final_world. rewrite run_ops_cons. cbn [fst]. apply IH. apply step_inv. exact I.
Qed.

(* initialisation from a validated genesis establishes the invariant *)
Lemma inv_set_amount o a o' : Inv o -> amount_valid a = true -> set_amount o a = Ok o' -> Inv o'.
Proof.
  intros I Hv H. destruct (set_amount_valid o a Hv) as (s & d & Es & Ed & Vs & Vd & E). rewrite E in H. inversion H; subst o'.
  unfold amount_valid in Hv. repeat (apply andb_true_iff in Hv as [Hv ?]).
  destruct I; split; cbn [set_stats paused_protos paused_cc paused_actions max_pass amounts counts]; try assumption.
  - apply (mset_sorted cmp_ak order_ak). assumption.
  - apply (Forall_mset cmp_ak order_ak); [|assumption]. unfold amt_ok. cbn [fst snd ak_sp ak_sc ak_dst ak_denom].
    replace {| c_proto := c_proto s; c_cp := c_cp s |} with s by (destruct s; reflexivity).
    split; [exact Vs|]. split; [eexists; split; [exact Vd|reflexivity]|].
    split; [assumption|].
    match goal with H1 : (0 <=? ga_in a) = true, H2 : (0 <=? ga_out a) = true, H3 : _ || _ = true |- _ =>
      apply Z.leb_le in H1, H2; apply orb_true_iff in H3 as [H3|H3]; apply Z.ltb_lt in H3; auto end.
Qed.
Lemma inv_set_count o c o' : Inv o -> count_valid c = true -> set_count o c = Ok o' -> Inv o'.
Proof.
  intros I Hv H. destruct (set_count_valid o c Hv) as (s & d & Es & Ed & Vs & Vd & E). rewrite E in H. inversion H; subst o'.
  unfold count_valid in Hv. repeat (apply andb_true_iff in Hv as [Hv ?]).
  destruct I; split; cbn [set_stats paused_protos paused_cc paused_actions max_pass amounts counts]; try assumption.
  - apply (mset_sorted cmp_ck order_ck). assumption.
  - apply (Forall_mset cmp_ck order_ck); [|assumption]. unfold cnt_ok. cbn [fst snd ck_sp ck_sc ck_dp ck_dc].
    replace {| c_proto := c_proto s; c_cp := c_cp s |} with s by (destruct s; reflexivity).
    replace {| c_proto := c_proto d; c_cp := c_cp d |} with d by (destruct d; reflexivity).
    repeat split; try assumption. apply Z.ltb_lt. assumption.
Qed.

Lemma inv_fold_valid {A} (f : ostate -> A -> res ostate) (ok : A -> bool)
      (Hf : forall o a o', Inv o -> ok a = true -> f o a = Ok o' -> Inv o') l :
  forall o o', Inv o -> forallb ok l = true -> fold_res f l o = Ok o' -> Inv o'.
Proof.
  induction l as [|a r IH]; intros o o' I Hv H; [inversion H; subst; exact I|].
  cbn [forallb] in Hv. apply andb_true_iff in Hv as [Ha Hr].
  cbn [fold_res] in H. destruct (f o a) as [o1| |] eqn:E; try discriminate. cbn [bind] in H. eapply IH; [|exact Hr|exact H]. eapply Hf; eauto.
Qed.

Theorem init_establishes_inv g o : validate_genesis g = Ok tt -> init_genesis g = Ok o -> Inv o.
Proof.
  unfold validate_genesis, init_genesis.
  destruct (g_adapter g) as [m|]; [|discriminate].
  destruct (g_dispatcher g) as [[amts cnts]|]; [|discriminate].
  destruct (forallb amount_valid amts) eqn:Ha; cbn [negb]; [|discriminate].
  destruct (forallb count_valid cnts) eqn:Hc; cbn [negb]; [|discriminate].
  destruct (g_forwarder g) as [[protos ccs]|]; [|discriminate].
  destruct (forallb protocol_valid protos) eqn:Hp; cbn [negb]; [|discriminate].
  destruct (distinct Z.eqb protos) eqn:Hpd; cbn [negb]; [|discriminate].
  destruct (forallb ccid_ok ccs) eqn:Hcc; cbn [negb]; [|discriminate].
  destruct (distinct occid_eqb ccs) eqn:Hcd; cbn [negb]; [|discriminate].
  destruct (g_executor g) as [acts|]; [|discriminate].
  destruct (forallb action_valid acts) eqn:Hac; cbn [negb]; [|discriminate].
  destruct (distinct Z.eqb acts) eqn:Had; cbn [negb]; [|discriminate]. intros _.
  destruct (fold_res set_amount amts _) as [o1| |] eqn:E1; try discriminate. cbn [bind].
  destruct (fold_res set_count cnts o1) as [o2| |] eqn:E2; try discriminate. cbn [bind andb negb].
  destruct (fold_res pause_protocol protos o2) as [o3| |] eqn:E3; try discriminate. cbn [bind].
  destruct (fold_res pause_cc_opt ccs o3) as [o4| |] eqn:E4; try discriminate. cbn [bind]. intros E5.
  assert (I1 : Inv o1) by (eapply (inv_fold_valid set_amount amount_valid inv_set_amount); [apply empty_inv|exact Ha|exact E1]).
  assert (I2 : Inv o2) by (eapply (inv_fold_valid set_count count_valid inv_set_count); [exact I1|exact Hc|exact E2]).
  assert (I3 : Inv o3) by (eapply (inv_fold pause_protocol inv_pause_protocol); [exact I2|exact E3]).
  assert (I4 : Inv o4).
  { eapply (inv_fold pause_cc_opt); [|exact I3|exact E4]. intros oo c oo' Io H. destruct c as [c|]; [|discriminate]. eapply inv_pause_cc; eauto. }
  eapply (inv_fold pause_action inv_pause_action); [exact I4|exact E5].
Qed.
