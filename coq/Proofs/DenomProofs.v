From Coq Require Import String Ascii List ZArith Bool Lia.
From Orbiter Require Import Lib.Str Lib.Res Gen.Constants Model.Ids Model.Denom.
Import ListNotations.
Open Scope string_scope.

Lemma strip_prefix_spec p s r : strip_prefix p s = Some r <-> s = p ++ r.
Proof.
  revert s. induction p as [|a p IH]; intros s; cbn.
  - split; [intros H; inversion H; reflexivity | intros ->; reflexivity].
  - destruct s as [|b s]; [split; discriminate|].
    destruct (Ascii.eqb a b) eqn:E.
    + apply Ascii.eqb_eq in E. subst b. rewrite IH. split; [intros ->; reflexivity | intros H; inversion H; reflexivity].
    + apply Ascii.eqb_neq in E. split; [discriminate | intros H; inversion H; congruence].
Qed.

Lemma strip_prefix_none p s : strip_prefix p s = None <-> forall r, s <> p ++ r.
Proof.
  split.
  - intros H r E. apply strip_prefix_spec in E. congruence.
  - intros H. destruct (strip_prefix p s) as [r|] eqn:E; [|reflexivity].
    apply strip_prefix_spec in E. exfalso. eapply H; eauto.
Qed.

(* accepted <=> one-hop voucher of this very channel whose remainder carries no trace path *)
Theorem recover_native_iff denom port chan d :
  recover_native_denom denom port chan = Ok d <->
  denom = denom_prefix port chan ++ d /\ trace_path d = [].
Proof.
  unfold recover_native_denom, is_native_denom. split.
  - destruct (strip_prefix (denom_prefix port chan) denom) as [rest|] eqn:E; [|discriminate].
    apply strip_prefix_spec in E. destruct (trace_path rest) eqn:Et; [|discriminate].
    intros H. inversion H; subst. auto.
  - intros [-> Ht].
    replace (strip_prefix (denom_prefix port chan) (denom_prefix port chan ++ d)) with (Some d)
      by (symmetry; apply strip_prefix_spec; reflexivity).
    rewrite Ht. reflexivity.
Qed.

(* whenever orbiter accepts, ICS-20 releases exactly that denomination from the escrow *)
Theorem recover_agrees_with_ics20 denom port chan d :
  recover_native_denom denom port chan = Ok d ->
  ics20_credit_denom denom port chan = Unescrow d.
Proof.
  unfold recover_native_denom, ics20_credit_denom.
  destruct (strip_prefix (denom_prefix port chan) denom) as [rest|]; [|discriminate].
  destruct (is_native_denom rest); [|discriminate]. intros H. inversion H. reflexivity.
Qed.

(* and conversely orbiter refuses everything ICS-20 would mint or release under a hashed denom *)
Theorem recover_refuses_foreign denom port chan :
  ics20_credit_denom denom port chan = MintVoucher \/
  ics20_credit_denom denom port chan = UnescrowHashed ->
  is_ok (recover_native_denom denom port chan) = false.
Proof.
  unfold recover_native_denom, ics20_credit_denom.
  destruct (strip_prefix (denom_prefix port chan) denom) as [rest|]; [|reflexivity].
  destruct (is_native_denom rest); [|reflexivity]. intros [H|H]; discriminate.
Qed.

Theorem recover_never_panics denom port chan : is_panic (recover_native_denom denom port chan) = false.
Proof.
  unfold recover_native_denom.
  destruct (strip_prefix _ _); [|reflexivity]. destruct (is_native_denom _); reflexivity.
Qed.

(* a denomination without any slash is native *)
Lemma split_all_aux_noslash cur s :
  no_char slash s = true -> split_all_aux slash cur s = [cur ++ s].
Proof.
  revert cur. induction s as [|c r IH]; intros cur; cbn.
  - intros _.
    assert (E : cur ++ "" = cur) by (induction cur; cbn; congruence). rewrite E. reflexivity.
  - intros H. apply andb_true_iff in H as [Hc Hr]. apply negb_true_iff in Hc. rewrite Hc.
    rewrite IH by exact Hr.
    assert (E : forall a, (a ++ String c "") ++ r = a ++ String c r) by (induction a; cbn; congruence).
    rewrite E. reflexivity.
Qed.

Theorem noslash_is_native s : no_char slash s = true -> trace_path s = [].
Proof.
  intros H. unfold trace_path, split_all. rewrite split_all_aux_noslash by exact H. reflexivity.
Qed.
