(* The exact role of the pause sets, the passthrough limit and the orbiter's prior balance in the
   outcome of a transfer: each enters the success condition in exactly one place. *)
From Coq Require Import String Ascii List ZArith Bool Lia.
From Orbiter Require Import Lib.Str Lib.Res Gen.Constants Model.Ids Model.Env Model.Fee Model.Denom
     Model.Payload Model.State Model.Pipeline Proofs.Ledger Proofs.FeeProofs Proofs.PipelineProofs
     Proofs.TransferProps Proofs.NoPanic Proofs.Complete.
Import ListNotations.
Open Scope string_scope.
Open Scope Z_scope.
Open Scope list_scope.

(* ---------- what success implies about the gates ---------- *)
Theorem success_gates cfg e w p tape :
  rr_out (recv cfg e w p tape) = OAckOk ->
  exists denom amount sender receiver pl f a cp,
    pk_data p = PIcs denom amount sender receiver (Ok pl) /\ p_fwd pl = Some f /\
    f_attrs f = Some a /\ counterparty_of a = Some cp /\
    smem cmp_z (f_pid f) (paused_protos (w_o w)) = false /\
    smem cmp_cc (f_pid f, cp) (paused_cc (w_o w)) = false /\
    (p_pre pl <> [] -> smem cmp_z action_fee (paused_actions (w_o w)) = false) /\
    slen (f_pass f) <= pass_limit (w_o w).
Proof.
  intros H. unfold recv in *.
  destruct (recv_ok_inv _ _ _ _ _ _ H) as (denom & amount & sender & receiver & pl & f & t & t' & a & cp & acalls & fcalls & ams & mv & o' & T).
  pose proof (tr_checked _ _ _ _ _ _ _ _ _ _ _ _ _ _ _ _ _ _ _ _ _ T) as C.
  exists denom, amount, sender, receiver, pl, f, a, cp.
  split; [exact (tr_data _ _ _ _ _ _ _ _ _ _ _ _ _ _ _ _ _ _ _ _ _ T)|].
  split; [exact (tr_fwd _ _ _ _ _ _ _ _ _ _ _ _ _ _ _ _ _ _ _ _ _ T)|].
  split; [exact (fc_attrs _ _ _ _ _ _ _ _ _ C)|]. split; [exact (fc_cp _ _ _ _ _ _ _ _ _ C)|].
  split; [exact (fc_proto _ _ _ _ _ _ _ _ _ C)|]. split; [exact (fc_cc _ _ _ _ _ _ _ _ _ C)|].
  split; [|exact (tr_pass _ _ _ _ _ _ _ _ _ _ _ _ _ _ _ _ _ _ _ _ _ T)].
  intros Hne. apply (tr_actions_on _ _ _ _ _ _ _ _ _ _ _ _ _ _ _ _ _ _ _ _ _ T Hne).
Qed.

(* the three checks in front of everything *)
Lemma success_front cfg e w p tape :
  rr_out (recv cfg e w p tape) = OAckOk ->
  String.eqb (pk_sport p) "" || String.eqb (pk_schan p) "" = false /\
  existsb (Z.eqb protocol_ibc) (cfg_adapter_routes cfg) = true.
Proof.
  unfold recv, recv_lie, recv_with, recv_generic.
  destruct (negb (ccid_valid _)); [discriminate|].
  destruct (_ || _); [discriminate|].
  destruct (existsb _ _); [auto|discriminate].
Qed.

(* a transfer that succeeds in [w] succeeds in every world with the same ledger - whatever its pause
   sets, paused actions, passthrough limit and statistics - provided ITS OWN destination is not paused
   there, ITS OWN action (if it has one) is not paused there and ITS OWN passthrough fits the limit there *)
Theorem gates_only cfg e w w2 p :
  rr_out (recv cfg e w p []) = OAckOk ->
  w_l w2 = w_l w ->
  (forall denom amount sender receiver pl f a cp,
     pk_data p = PIcs denom amount sender receiver (Ok pl) -> p_fwd pl = Some f ->
     f_attrs f = Some a -> counterparty_of a = Some cp ->
     smem cmp_z (f_pid f) (paused_protos (w_o w2)) = false /\
     smem cmp_cc (f_pid f, cp) (paused_cc (w_o w2)) = false /\
     (p_pre pl <> [] -> smem cmp_z action_fee (paused_actions (w_o w2)) = false) /\
     slen (f_pass f) <= pass_limit (w_o w2)) ->
  rr_out (recv cfg e w2 p []) = OAckOk.
Proof.
  intros H S G. destruct (success_front _ _ _ _ _ H) as [Hsp Had]. unfold recv in H.
  destruct (recv_ok_inv _ _ _ _ _ _ H) as (denom & amount & sender & receiver & pl & f & t & t' & a & cp & acalls & fcalls & ams & mv & o' & T).
  pose proof (tr_checked _ _ _ _ _ _ _ _ _ _ _ _ _ _ _ _ _ _ _ _ _ T) as C.
  destruct (G _ _ _ _ _ _ _ _ (tr_data _ _ _ _ _ _ _ _ _ _ _ _ _ _ _ _ _ _ _ _ _ T) (tr_fwd _ _ _ _ _ _ _ _ _ _ _ _ _ _ _ _ _ _ _ _ _ T)
             (fc_attrs _ _ _ _ _ _ _ _ _ C) (fc_cp _ _ _ _ _ _ _ _ _ C)) as (G1 & G2 & G3 & G4).
  eapply (recv_ok_complete cfg e w2 p denom amount sender receiver pl f t t' a cp acalls fcalls ams mv).
  eapply accepts_transport; [eapply transfer_accepts; eauto|exact G4|exact G3|].
  rewrite S. eapply fwd_checked_transport; [exact C|exact G1|exact G2|].
  exact (fc_balance _ _ _ _ _ _ _ _ _ C).
Qed.

(* ---------- the orbiter's prior balance ---------- *)
Lemma mid_balance cfg l p t ams :
  wf_cfg cfg -> 0 <= bal l (cfg_orbiter cfg) (t_ddenom t) ->
  Forall (fee_move_ok cfg (t_ddenom t)) ams ->
  bal (apply_moves l (sweep_moves cfg (t_ddenom t) (bal l (cfg_orbiter cfg) (t_ddenom t) + 0) ++ [credit_move cfg p t] ++ ams))
      (cfg_orbiter cfg) (t_ddenom t) = t_samt t - moves_total ams.
Proof.
  intros Hwf Hnn Hf. rewrite bal_apply_moves, !net_all_app.
  destruct (sweep_moves_net cfg (t_ddenom t) (bal l (cfg_orbiter cfg) (t_ddenom t) + 0) Hwf) as (Hs & _).
  destruct (net_fee_moves_orbiter cfg (t_ddenom t) ams Hwf Hf) as (Ha & _).
  rewrite Hs, Ha. unfold credit_move. cbn [net_all fold_right net].
  rewrite hit_same, (hit_other_acct (cfg_escrow cfg (pk_dport p) (pk_dchan p)) (cfg_orbiter cfg)) by (apply (wf_escrow _ Hwf)).
  destruct (0 <? bal l (cfg_orbiter cfg) (t_ddenom t) + 0) eqn:E; [lia|]. apply Z.ltb_ge in E. lia.
Qed.

(* a transfer that succeeds succeeds on any other ledger too - in particular with an emptied orbiter
   account, or with any other coins lying on it *)
Theorem prior_balance_irrelevant cfg e w l2 p :
  wf_cfg cfg ->
  rr_out (recv cfg e w p []) = OAckOk ->
  (forall d, 0 <= bal (w_l w) (cfg_orbiter cfg) d) -> (forall d, 0 <= bal l2 (cfg_orbiter cfg) d) ->
  rr_out (recv cfg e {| w_o := w_o w; w_l := l2 |} p []) = OAckOk.
Proof.
  intros Hwf H Hnn Hnn2. destruct (success_front _ _ _ _ _ H) as [Hsp Had]. unfold recv in H.
  destruct (recv_ok_inv _ _ _ _ _ _ H) as (denom & amount & sender & receiver & pl & f & t & t' & a & cp & acalls & fcalls & ams & mv & o' & T).
  destruct (T_steps _ _ _ _ _ _ _ _ _ _ _ _ _ _ _ _ _ _ _ _ T) as (Hd & Ha & Hf & _).
  destruct (T_amounts _ _ _ _ _ _ _ _ _ _ _ _ _ _ _ _ _ _ _ _ T) as (Hsum & _ & _).
  pose proof (tr_checked _ _ _ _ _ _ _ _ _ _ _ _ _ _ _ _ _ _ _ _ _ T) as C.
  eapply (recv_ok_complete cfg e _ p denom amount sender receiver pl f t t' a cp acalls fcalls ams mv).
  eapply accepts_transport; [eapply transfer_accepts; eauto| | |]; cbn [w_o w_l].
  - exact (tr_pass _ _ _ _ _ _ _ _ _ _ _ _ _ _ _ _ _ _ _ _ _ T).
  - intros Hne. apply (tr_actions_on _ _ _ _ _ _ _ _ _ _ _ _ _ _ _ _ _ _ _ _ _ T Hne).
  - eapply fwd_checked_transport; [exact C|exact (fc_proto _ _ _ _ _ _ _ _ _ C)|exact (fc_cc _ _ _ _ _ _ _ _ _ C)|].
    rewrite Hd, Z.add_0_r. rewrite (mid_balance cfg l2 p t ams Hwf (Hnn2 _) Hf). lia.
Qed.

(* determinism of the stages: the calls and movements of the actions and of the route are functions
   of the payload and the running coin *)
Lemma fee_steps_det cfg e l : forall t t1 c1 m1 t2 c2 m2,
  fee_steps cfg e l t t1 c1 m1 -> fee_steps cfg e l t t2 c2 m2 -> t1 = t2 /\ c1 = c2 /\ m1 = m2.
Proof.
  induction l as [|a r IH]; intros t t1 c1 m1 t2 c2 m2 H1 H2.
  - inversion H1; inversion H2; subst. auto.
  - inversion H1 as [|i1 cr1 f1 r1 ta tb ca ma P1 V1 S1]; inversion H2 as [|i2 cr2 f2 r2 tc td cb mb P2 V2 S2]; subst.
    match goal with Hx : fee_action i2 = fee_action i1 |- _ => inversion Hx; subst end.
    rewrite P1 in P2. inversion P2; subst.
    destruct (IH _ _ _ _ _ _ _ S1 S2) as (-> & -> & ->). auto.
Qed.

(* two runs of the same packet on the same module state, on ledgers that may differ: if both succeed,
   they make the same calls after the sweep, the same movements after the sweep, and reach the same
   module state (statistics included) *)
Theorem same_outcome cfg e w l2 p tape tape2 :
  rr_out (recv cfg e w p tape) = OAckOk ->
  rr_out (recv cfg e {| w_o := w_o w; w_l := l2 |} p tape2) = OAckOk ->
  exists d rest_calls rest_moves,
    rr_trace (recv cfg e w p tape) =
      map (fun c => (c, true)) (sweep_calls d (bal (w_l w) (cfg_orbiter cfg) d) ++ rest_calls) /\
    rr_trace (recv cfg e {| w_o := w_o w; w_l := l2 |} p tape2) =
      map (fun c => (c, true)) (sweep_calls d (bal l2 (cfg_orbiter cfg) d) ++ rest_calls) /\
    rr_moves (recv cfg e w p tape) = sweep_moves cfg d (bal (w_l w) (cfg_orbiter cfg) d) ++ rest_moves /\
    rr_moves (recv cfg e {| w_o := w_o w; w_l := l2 |} p tape2) = sweep_moves cfg d (bal l2 (cfg_orbiter cfg) d) ++ rest_moves /\
    w_o (rr_world (recv cfg e w p tape)) = w_o (rr_world (recv cfg e {| w_o := w_o w; w_l := l2 |} p tape2)).
Proof.
  intros H1 H2. unfold recv in *.
  destruct (recv_ok_inv _ _ _ _ _ _ H1) as (denom & amount & sender & receiver & pl & f & t & t' & a & cp & acalls & fcalls & ams & mv & o' & T1).
  destruct (recv_ok_inv _ _ _ _ _ _ H2) as (denom2 & amount2 & sender2 & receiver2 & pl2 & f2 & t2 & t2' & a2 & cp2 & acalls2 & fcalls2 & ams2 & mv2 & o2' & T2).
  pose proof (tr_data _ _ _ _ _ _ _ _ _ _ _ _ _ _ _ _ _ _ _ _ _ T1) as D1.
  pose proof (tr_data _ _ _ _ _ _ _ _ _ _ _ _ _ _ _ _ _ _ _ _ _ T2) as D2. rewrite D1 in D2. inversion D2; subst; clear D2.
  pose proof (tr_parse _ _ _ _ _ _ _ _ _ _ _ _ _ _ _ _ _ _ _ _ _ T1) as P1.
  pose proof (tr_parse _ _ _ _ _ _ _ _ _ _ _ _ _ _ _ _ _ _ _ _ _ T2) as P2. rewrite P1 in P2. inversion P2; subst t2; clear P2.
  pose proof (tr_fwd _ _ _ _ _ _ _ _ _ _ _ _ _ _ _ _ _ _ _ _ _ T1) as F1.
  pose proof (tr_fwd _ _ _ _ _ _ _ _ _ _ _ _ _ _ _ _ _ _ _ _ _ T2) as F2. rewrite F1 in F2. inversion F2; subst f2; clear F2.
  destruct (fee_steps_det _ _ _ _ _ _ _ _ _ _ (tr_steps _ _ _ _ _ _ _ _ _ _ _ _ _ _ _ _ _ _ _ _ _ T1) (tr_steps _ _ _ _ _ _ _ _ _ _ _ _ _ _ _ _ _ _ _ _ _ T2))
    as (<- & <- & <-).
  pose proof (fc_attrs _ _ _ _ _ _ _ _ _ (tr_checked _ _ _ _ _ _ _ _ _ _ _ _ _ _ _ _ _ _ _ _ _ T1)) as A1.
  pose proof (fc_attrs _ _ _ _ _ _ _ _ _ (tr_checked _ _ _ _ _ _ _ _ _ _ _ _ _ _ _ _ _ _ _ _ _ T2)) as A2. rewrite A1 in A2. inversion A2; subst a2; clear A2.
  pose proof (tr_plan _ _ _ _ _ _ _ _ _ _ _ _ _ _ _ _ _ _ _ _ _ T1) as R1.
  pose proof (tr_plan _ _ _ _ _ _ _ _ _ _ _ _ _ _ _ _ _ _ _ _ _ T2) as R2. rewrite R1 in R2. inversion R2; subst fcalls2 mv2; clear R2.
  pose proof (tr_stats _ _ _ _ _ _ _ _ _ _ _ _ _ _ _ _ _ _ _ _ _ T1) as S1.
  pose proof (tr_stats _ _ _ _ _ _ _ _ _ _ _ _ _ _ _ _ _ _ _ _ _ T2) as S2. cbn [w_o] in S2. rewrite S1 in S2. inversion S2; subst o2'; clear S2.
  exists (t_ddenom t), ([CWrapped] ++ acalls ++ fcalls ++ [CEmit "EventPayloadProcessed"]), ([credit_move cfg p t] ++ ams ++ [mv]).
  rewrite (tr_trace _ _ _ _ _ _ _ _ _ _ _ _ _ _ _ _ _ _ _ _ _ T1), (tr_trace _ _ _ _ _ _ _ _ _ _ _ _ _ _ _ _ _ _ _ _ _ T2),
    (tr_moves _ _ _ _ _ _ _ _ _ _ _ _ _ _ _ _ _ _ _ _ _ T1), (tr_moves _ _ _ _ _ _ _ _ _ _ _ _ _ _ _ _ _ _ _ _ _ T2),
    (tr_world _ _ _ _ _ _ _ _ _ _ _ _ _ _ _ _ _ _ _ _ _ T1), (tr_world _ _ _ _ _ _ _ _ _ _ _ _ _ _ _ _ _ _ _ _ _ T2).
  cbn [w_o w_l]. rewrite !Z.add_0_r. repeat split; reflexivity.
Qed.
