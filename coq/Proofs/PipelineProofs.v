(* Symbolic execution of the receive pipeline: what a successful run of each stage did to the
   ledger, the list of moves and the trace of external calls. *)
From Coq Require Import String Ascii List ZArith Bool Lia.
From Orbiter Require Import Lib.Str Lib.Res Gen.Constants Model.Ids Model.Env Model.Fee Model.Denom
     Model.Payload Model.State Model.Pipeline Proofs.Ledger Proofs.FeeProofs.
Import ListNotations.
Open Scope string_scope.
Open Scope Z_scope.
Open Scope list_scope.

(* ---------- the relation between the state before and after a successful stage ---------- *)
(* [calls]: the external calls the stage made, oldest first (all succeeded); [ms]: the fund
   movements, oldest first.  The verdicts consumed are exactly one [true] per call. *)
Record ran (s s' : pst) (calls : list call) (ms : list move) : Prop := {
  ran_trace : ps_trace s' = rev (map (fun c => (c, true)) calls) ++ ps_trace s;
  ran_moves : ps_moves s' = rev ms ++ ps_moves s;
  ran_ledger : ps_l s' = apply_moves (ps_l s) ms;
}.

Lemma ran_refl s : ran s s [] [].
Proof. split; reflexivity. Qed.

Lemma ran_trans s1 s2 s3 c1 m1 c2 m2 :
  ran s1 s2 c1 m1 -> ran s2 s3 c2 m2 -> ran s1 s3 (c1 ++ c2) (m1 ++ m2).
Proof.
  intros [T1 M1 L1] [T2 M2 L2]. split.
  - rewrite T2, T1, map_app, rev_app_distr, app_assoc. reflexivity.
  - rewrite M2, M1, rev_app_distr, app_assoc. reflexivity.
  - rewrite L2, L1, apply_moves_app. reflexivity.
Qed.

(* ---------- primitives ---------- *)
Lemma ext_true c s s1 : ext c s = (true, s1) -> ran s s1 [c] [].
Proof.
  unfold ext. destruct (ps_tape s) as [|v r]; intros H; inversion H; subst; split; reflexivity.
Qed.

Lemma mext_ok c msg s u s1 : mext c msg s = POk u s1 -> ran s s1 [c] [].
Proof.
  unfold mext. destruct (ext c s) as [v s'] eqn:E. destruct v; intros H; inversion H; subst.
  eapply ext_true; eauto.
Qed.

Lemma do_moves_ran ms : forall s, ran s (fold_left (fun s m => do_move m s) ms s) [] ms.
Proof.
  induction ms as [|m ms IH]; intros s; [apply ran_refl|].
  cbn [fold_left]. specialize (IH (do_move m s)).
  replace (m :: ms) with ([m] ++ ms) by reflexivity.
  change (@nil call) with (@nil call ++ @nil call).
  eapply ran_trans; [|exact IH]. split; reflexivity.
Qed.

Lemma ext_moving_ok c ms msg s u s1 : ext_moving c ms msg s = POk u s1 -> ran s s1 [c] ms.
Proof.
  unfold ext_moving. destruct (ext c s) as [v s'] eqn:E. destruct v; intros H; inversion H; subst.
  change [c] with ([c] ++ []). change ms with ([] ++ ms).
  eapply ran_trans; [eapply ext_true; eauto | apply do_moves_ran].
Qed.

Lemma lift_ok {A} (r : res A) s a s1 : lift r s = POk a s1 -> r = Ok a /\ s1 = s.
Proof. unfold lift. destruct r; intros H; inversion H; auto. Qed.

Lemma mbind_ok {A B} (m : M A) (f : A -> M B) s b s2 :
  mbind m f s = POk b s2 -> exists a s1, m s = POk a s1 /\ f a s1 = POk b s2.
Proof. unfold mbind. destruct (m s) as [a s1|l s1|x]; intros H; try discriminate. eauto. Qed.

(* no stage that errs or succeeds ever touches a verdict it does not use: errors keep the trace *)

(* ---------- fee action ---------- *)
Definition fee_calls (denom : string) (credits : list (string * Z)) : list call :=
  map (fun c => CFeeSend (fst c) denom (snd c)) credits.
Definition fee_moves (cfg : config) (denom : string) (credits : list (string * Z)) : list move :=
  map (fun c => MSend (cfg_orbiter cfg) (fst c) denom (snd c)) credits.

Lemma fee_sends_ok cfg d credits : forall s u s1,
  fee_sends cfg d credits s = POk u s1 -> ran s s1 (fee_calls d credits) (fee_moves cfg d credits).
Proof.
  induction credits as [|[to amt] r IH]; intros s u s1 H.
  - cbn in H. inversion H; subst. apply ran_refl.
  - cbn [fee_sends] in H. apply mbind_ok in H as (u1 & s' & H1 & H2).
    apply ext_moving_ok in H1. apply IH in H2.
    change (fee_calls d ((to, amt) :: r)) with ([CFeeSend to d amt] ++ fee_calls d r).
    change (fee_moves cfg d ((to, amt) :: r)) with ([MSend (cfg_orbiter cfg) to d amt] ++ fee_moves cfg d r).
    eapply ran_trans; eauto.
Qed.

Lemma fee_ctrl_ok cfg e a t s t' s1 :
  fee_ctrl cfg e a t s = POk t' s1 ->
  exists infos credits fwd,
    a = Some (AFee infos) /\ fee_plan e (t_damt t) infos = Ok (credits, fwd) /\
    t' = set_dest_amt t fwd /\
    ran s s1 (fee_calls (t_ddenom t) credits ++ [CEmit "EventFeeAction"]) (fee_moves cfg (t_ddenom t) credits).
Proof.
  unfold fee_ctrl, fee_ctrl_with. destruct a as [[| | |infos|]|]; try discriminate. intros H.
  apply mbind_ok in H as ([credits fwd] & s' & H1 & H2).
  apply lift_ok in H1 as [Hp ->].
  apply mbind_ok in H2 as (u & s2 & H2 & H3).
  apply mbind_ok in H3 as (u' & s3 & H3 & H4).
  inversion H4; subst. exists infos, credits, fwd.
  split; [reflexivity|]. split; [exact Hp|]. split; [reflexivity|].
  apply fee_sends_ok in H2. apply mext_ok in H3.
  rewrite <- (app_nil_r (fee_moves cfg (t_ddenom t) credits)).
  eapply ran_trans; eauto.
Qed.

(* ---------- executor + dispatcher over the chain's action table ---------- *)
Definition fee_action (infos : list (option fee_info)) : option action :=
  Some {| a_id := action_fee; a_attrs := Some (AFee infos) |}.

Lemma run_action_ok cfg e paused a t s t' s1 :
  run_action (chain_actions cfg e) paused a t s = POk t' s1 ->
  exists infos credits fwd,
    a = fee_action infos /\ paused action_fee = false /\ tattr_validate t = Ok tt /\
    existsb (Z.eqb action_fee) (cfg_action_routes cfg) = true /\
    fee_plan e (t_damt t) infos = Ok (credits, fwd) /\ t' = set_dest_amt t fwd /\
    ran s s1 (fee_calls (t_ddenom t) credits ++ [CEmit "EventFeeAction"]) (fee_moves cfg (t_ddenom t) credits).
Proof.
  unfold run_action. intros H.
  apply mbind_ok in H as (u1 & s' & H1 & H). apply lift_ok in H1 as [Hv ->].
  apply mbind_ok in H as (u2 & s' & H2 & H). apply lift_ok in H2 as [Ht ->]. destruct u2.
  destruct a as [[id attrs]|]; [|discriminate]. cbn [a_id a_attrs] in H.
  destruct (paused id) eqn:Hp; [discriminate|].
  unfold chain_actions in H.
  destruct (existsb (Z.eqb id) (cfg_action_routes cfg) && (id =? action_fee)) eqn:Hr; [|discriminate].
  apply andb_true_iff in Hr as [Hr Hid]. apply Z.eqb_eq in Hid. subst id.
  apply fee_ctrl_ok in H as (infos & credits & fwd & -> & Hplan & -> & Hran).
  exists infos, credits, fwd. repeat (split; [first [reflexivity | assumption]|]). exact Hran.
Qed.

(* a chain of fee actions threading the running amount *)
Inductive fee_steps (cfg : config) (e : env) : list (option action) -> tattr -> tattr -> list call -> list move -> Prop :=
| fs_nil t : fee_steps cfg e [] t t [] []
| fs_cons infos credits fwd rest t t'' calls ms :
    fee_plan e (t_damt t) infos = Ok (credits, fwd) -> tattr_validate t = Ok tt ->
    fee_steps cfg e rest (set_dest_amt t fwd) t'' calls ms ->
    fee_steps cfg e (fee_action infos :: rest) t t''
              ((fee_calls (t_ddenom t) credits ++ [CEmit "EventFeeAction"]) ++ calls)
              (fee_moves cfg (t_ddenom t) credits ++ ms).

Lemma dispatch_actions_ok cfg e paused l : forall t s t' s1,
  dispatch_actions (chain_actions cfg e) paused l t s = POk t' s1 ->
  exists calls ms, fee_steps cfg e l t t' calls ms /\ ran s s1 calls ms /\
                   (l <> [] -> paused action_fee = false /\ existsb (Z.eqb action_fee) (cfg_action_routes cfg) = true).
Proof.
  induction l as [|a r IH]; intros t s t' s1 H.
  - cbn in H. inversion H; subst. exists [], []. split; [constructor|]. split; [apply ran_refl|]. congruence.
  - cbn [dispatch_actions] in H. apply mbind_ok in H as (t1 & s' & H1 & H2).
    apply run_action_ok in H1 as (infos & credits & fwd & -> & Hp & Hv & Hr & Hplan & -> & Hran).
    apply IH in H2 as (calls & ms & Hsteps & Hran2 & _).
    eexists _, _. split; [econstructor; eauto|]. split; [eapply ran_trans; eauto|]. auto.
Qed.

(* ---------- forwarding controllers ---------- *)
(* what the route's controller sends and moves for a given payload: the request carries the
   attributes' own fields, the running coin and the orbiter account (C05) *)
Definition route_plan (cfg : config) (e : env) (pid : Z) (a : attrs) (t : tattr) : option (list call * move) :=
  let orb := cfg_orbiter cfg in
  if pid =? protocol_cctp then
    match a with
    | ACctp domain recipient caller =>
        if is_ok (cctp_validate domain recipient)
        then Some ([CCctp (cfg_orbiter_bech cfg) (t_damt t) domain recipient (t_ddenom t) (opt_str caller)],
                   MBurn orb (t_ddenom t) (t_damt t))
        else None
    | _ => None
    end
  else if pid =? protocol_hyperlane then
    match a with
    | AHyp token domain recipient hook metadata gas fee_denom fee_amt =>
        if is_ok (tattr_validate t) && is_ok (hyp_validate token domain recipient hook metadata)
           && is_ok (hyp_fee_validate fee_denom fee_amt)
           && match cfg_hyp_token cfg token with Some origin => String.eqb origin (t_ddenom t) | None => false end
        then Some ([CHypToken token;
                    CHypTransfer (cfg_orbiter_bech cfg) token domain recipient (t_damt t) (opt_str hook) gas fee_denom fee_amt metadata],
                   MSend orb (cfg_warp cfg) (t_ddenom t) (t_damt t))
        else None
    | _ => None
    end
  else if pid =? protocol_internal then
    match a with
    | AInternal recipient =>
        if is_ok (tattr_validate t) && is_ok (internal_validate false cfg e recipient)
        then Some ([CBankSend (cfg_orbiter_bech cfg) recipient (t_ddenom t) (t_damt t)],
                   MSend orb (acct_of e recipient) (t_ddenom t) (t_damt t))
        else None
    | _ => None
    end
  else None.

Lemma is_ok_true {A} (r : res A) : is_ok r = true <-> exists a, r = Ok a.
Proof. destruct r; cbn; split; intros H; try discriminate; eauto; destruct H; discriminate. Qed.

Lemma forward_ctrl_ok cfg e pid a t s u s1 :
  forward_ctrl cfg e pid a t s = POk u s1 ->
  exists calls mv, route_plan cfg e pid a t = Some (calls, mv) /\ ran s s1 calls [mv].
Proof.
  unfold forward_ctrl, forward_ctrl_with, route_plan.
  destruct (pid =? protocol_cctp).
  { destruct a as [domain rcp caller| | | |]; try discriminate. intros H.
    apply mbind_ok in H as (u1 & s' & H1 & H). apply lift_ok in H1 as [Hv ->]. rewrite Hv. cbn [is_ok].
    eexists _, _. split; [reflexivity|]. eapply ext_moving_ok; eauto. }
  destruct (pid =? protocol_hyperlane).
  { destruct a as [|token domain rcp hook md gas fd fa| | |]; try discriminate. cbn [andb negb]. intros H.
    apply mbind_ok in H as (u1 & s' & H1 & H). apply lift_ok in H1 as [Hv ->].
    apply mbind_ok in H as (u2 & s' & H2 & H). apply lift_ok in H2 as [Hh ->].
    apply mbind_ok in H as (u2' & s' & H2' & H). apply lift_ok in H2' as [Hf ->].
    apply mbind_ok in H as (u3 & s' & H3 & H). apply mext_ok in H3.
    rewrite Hv, Hh, Hf. cbn [is_ok andb].
    destruct (cfg_hyp_token cfg token) as [origin|]; [|discriminate].
    destruct (String.eqb origin (t_ddenom t)); [|discriminate]. cbn [negb] in H.
    cbv beta iota zeta delta [no_gas] in H.
    eexists _, _. split; [reflexivity|].
    change [CHypToken token; CHypTransfer (cfg_orbiter_bech cfg) token domain rcp (t_damt t) (opt_str hook) gas fd fa md]
      with ([CHypToken token] ++ [CHypTransfer (cfg_orbiter_bech cfg) token domain rcp (t_damt t) (opt_str hook) gas fd fa md]).
    change [MSend (cfg_orbiter cfg) (cfg_warp cfg) (t_ddenom t) (t_damt t)]
      with ([] ++ [MSend (cfg_orbiter cfg) (cfg_warp cfg) (t_ddenom t) (t_damt t)]).
    eapply ran_trans; [exact H3|]. eapply ext_moving_ok; eauto. }
  destruct (pid =? protocol_internal).
  { destruct a as [| |rcp| |]; try discriminate. intros H.
    apply mbind_ok in H as (u1 & s' & H1 & H). apply lift_ok in H1 as [Hv ->].
    apply mbind_ok in H as (u2 & s' & H2 & H). apply lift_ok in H2 as [Hh ->].
    rewrite Hv, Hh. cbn [is_ok andb].
    eexists _, _. split; [reflexivity|]. eapply ext_moving_ok; eauto. }
  discriminate.
Qed.

(* ---------- forwarder ---------- *)
Record fwd_checked (cfg : config) (lie : Z) (proto_paused : Z -> bool) (cc_paused : Z -> string -> bool)
       (f : forwarding) (t : tattr) (l : ledger) (a : attrs) (cp : string) : Prop := {
  fc_attrs : f_attrs f = Some a;
  fc_cp : counterparty_of a = Some cp;
  fc_pid : protocol_valid (f_pid f) = true;
  fc_tattr : tattr_validate t = Ok tt;
  fc_proto : proto_paused (f_pid f) = false;
  fc_ccid : ccid_valid {| c_proto := f_pid f; c_cp := cp |} = true;
  fc_cc : cc_paused (f_pid f) cp = false;
  fc_balance : bal l (cfg_orbiter cfg) (t_ddenom t) + lie = t_damt t;
  fc_route : existsb (Z.eqb (f_pid f)) (cfg_fwd_routes cfg) = true;
}.

Lemma run_forwarding_ok cfg e lie pp cp_paused f t s u s1 :
  run_forwarding_with forward_ctrl cfg e lie pp cp_paused (Some f) t s = POk u s1 ->
  exists a cp calls mv,
    fwd_checked cfg lie pp cp_paused f t (ps_l s) a cp /\
    route_plan cfg e (f_pid f) a t = Some (calls, mv) /\ ran s s1 calls [mv].
Proof.
  unfold run_forwarding_with. intros H.
  apply mbind_ok in H as (u1 & s' & H1 & H). apply lift_ok in H1 as [Hv ->].
  apply mbind_ok in H as (u2 & s' & H2 & H). apply lift_ok in H2 as [Ht ->]. destruct u2.
  unfold forwarding_validate in Hv.
  destruct (protocol_valid (f_pid f)) eqn:Hpid; [|discriminate].
  destruct (f_attrs f) as [a|] eqn:Ha; [|discriminate].
  destruct (counterparty_of a) as [cp|] eqn:Hcp; [|discriminate].
  destruct (pp (f_pid f)) eqn:Hpp; [discriminate|].
  destruct (ccid_valid {| c_proto := f_pid f; c_cp := cp |}) eqn:Hcc; [|discriminate]. cbn [negb] in H.
  destruct (cp_paused (f_pid f) cp) eqn:Hcpp; [discriminate|].
  destruct (bal (ps_l s) (cfg_orbiter cfg) (t_ddenom t) + lie =? t_damt t) eqn:Hb; [|discriminate]. cbn [negb] in H.
  destruct (existsb (Z.eqb (f_pid f)) (cfg_fwd_routes cfg)) eqn:Hr; [|discriminate]. cbn [negb] in H.
  apply forward_ctrl_ok in H as (calls & mv & Hplan & Hran).
  exists a, cp, calls, mv. split; [|auto]. apply Z.eqb_eq in Hb. split; auto.
Qed.

(* ---------- the body of the receive path ---------- *)
Definition sweep_calls (d : string) (prior : Z) : list call := if 0 <? prior then [CSweep d prior] else [].
Definition sweep_moves (cfg : config) (d : string) (prior : Z) : list move :=
  if 0 <? prior then [MSend (cfg_orbiter cfg) (cfg_dust cfg) d prior] else [].
Definition credit_move (cfg : config) (p : packet) (t : tattr) : move :=
  MSend (cfg_escrow cfg (pk_dport p) (pk_dchan p)) (cfg_orbiter cfg) (t_ddenom t) (t_samt t).

Definition pp_of (o : ostate) : Z -> bool := fun pid => smem cmp_z pid (paused_protos o).
Definition ccp_of (o : ostate) : Z -> string -> bool := fun pid cp => smem cmp_cc (pid, cp) (paused_cc o).
Definition ap_of (o : ostate) : Z -> bool := fun a => smem cmp_z a (paused_actions o).

Lemma recv_body_ok cfg e lie o p pl f t s t' s1 :
  recv_body repaired cfg (chain_actions cfg e) e lie o p pl f t s = POk t' s1 ->
  let prior := bal (ps_l s) (cfg_orbiter cfg) (t_ddenom t) + lie in
  exists acalls ams a cp fcalls mv,
    fee_steps cfg e (p_pre pl) t t' acalls ams /\
    (p_pre pl <> [] -> ap_of o action_fee = false /\ existsb (Z.eqb action_fee) (cfg_action_routes cfg) = true) /\
    fwd_checked cfg lie (pp_of o) (ccp_of o) f t'
                (apply_moves (ps_l s) (sweep_moves cfg (t_ddenom t) prior ++ [credit_move cfg p t] ++ ams)) a cp /\
    route_plan cfg e (f_pid f) a t' = Some (fcalls, mv) /\
    ran s s1 (sweep_calls (t_ddenom t) prior ++ [CWrapped] ++ acalls ++ fcalls)
             (sweep_moves cfg (t_ddenom t) prior ++ [credit_move cfg p t] ++ ams ++ [mv]).
Proof.
  unfold recv_body. intros H. cbn zeta.
  apply mbind_ok in H as (prior0 & s' & H0 & H). unfold read_balance in H0. inversion H0; subst prior0 s'; clear H0.
  set (prior := bal (ps_l s) (cfg_orbiter cfg) (t_ddenom t) + lie) in *.
  apply mbind_ok in H as (u1 & sa & H1 & H).
  apply mbind_ok in H as (u2 & sb & H2 & H).
  apply mbind_ok in H as (t1 & sc & H3 & H).
  apply mbind_ok in H as (u4 & sd & H4 & H).
  inversion H; subst t1 sd; clear H.
  assert (Hsweep : ran s sa (sweep_calls (t_ddenom t) prior) (sweep_moves cfg (t_ddenom t) prior)).
  { unfold sweep_calls, sweep_moves. destruct (0 <? prior).
    - eapply ext_moving_ok; eauto.
    - inversion H1; subst. apply ran_refl. }
  apply ext_moving_ok in H2.
  apply dispatch_actions_ok in H3 as (acalls & ams & Hsteps & Hran3 & Hne).
  change (v_allow_self repaired) with false in H4. change (v_hyp_log_first repaired) with false in H4.
  apply run_forwarding_ok in H4 as (a & cp & fcalls & mv & Hchk & Hplan & Hran4).
  pose proof (ran_trans _ _ _ _ _ _ _ Hsweep (ran_trans _ _ _ _ _ _ _ H2 Hran3)) as Hmid.
  exists acalls, ams, a, cp, fcalls, mv. unfold credit_move.
  split; [exact Hsteps|]. split; [exact Hne|].
  split; [|split; [exact Hplan|]].
  - rewrite <- (ran_ledger _ _ _ _ Hmid). exact Hchk.
  - pose proof (ran_trans _ _ _ _ _ _ _ Hmid Hran4) as Hall.
    rewrite <- !app_assoc in Hall. exact Hall.
Qed.

(* ---------- the whole receive path: what a success acknowledgement implies ---------- *)
Definition initial_pst (w : world) (tape : list bool) : pst :=
  {| ps_l := w_l w; ps_tape := tape; ps_trace := []; ps_moves := [] |}.

Record transfer (cfg : config) (e : env) (w : world) (p : packet) (lie : Z) (r : recv_result)
       (denom amount sender receiver : string) (pl : payload) (f : forwarding) (t t' : tattr)
       (a : attrs) (cp : string) (acalls fcalls : list call) (ams : list move) (mv : move) (o' : ostate) : Prop := {
  tr_data : pk_data p = PIcs denom amount sender receiver (Ok pl);
  tr_receiver : is_orbiter_receiver repaired cfg e receiver = true;
  tr_source : ccid_valid {| c_proto := protocol_ibc; c_cp := pk_dchan p |} = true;
  tr_parse : parse_orbiter_packet repaired e p denom amount (Ok pl) = Ok (t, pl);
  tr_fwd : p_fwd pl = Some f;
  tr_pass : slen (f_pass f) <= pass_limit (w_o w);
  tr_steps : fee_steps cfg e (p_pre pl) t t' acalls ams;
  tr_actions_on : p_pre pl <> [] ->
                  ap_of (w_o w) action_fee = false /\ existsb (Z.eqb action_fee) (cfg_action_routes cfg) = true;
  tr_checked : fwd_checked cfg lie (pp_of (w_o w)) (ccp_of (w_o w)) f t'
                 (apply_moves (w_l w)
                    (sweep_moves cfg (t_ddenom t) (bal (w_l w) (cfg_orbiter cfg) (t_ddenom t) + lie)
                     ++ [credit_move cfg p t] ++ ams)) a cp;
  tr_plan : route_plan cfg e (f_pid f) a t' = Some (fcalls, mv);
  tr_stats : update_stats_swallow true (w_o w) t' f = Ok o';
  tr_world : rr_world r = {| w_o := o';
                             w_l := apply_moves (w_l w)
                                      (sweep_moves cfg (t_ddenom t) (bal (w_l w) (cfg_orbiter cfg) (t_ddenom t) + lie)
                                       ++ [credit_move cfg p t] ++ ams ++ [mv]) |};
  tr_moves : rr_moves r = sweep_moves cfg (t_ddenom t) (bal (w_l w) (cfg_orbiter cfg) (t_ddenom t) + lie)
                          ++ [credit_move cfg p t] ++ ams ++ [mv];
  tr_ghost : rr_stat r = stat_of t' f;
  tr_trace : rr_trace r = map (fun c => (c, true))
                              (sweep_calls (t_ddenom t) (bal (w_l w) (cfg_orbiter cfg) (t_ddenom t) + lie)
                               ++ [CWrapped] ++ acalls ++ fcalls ++ [CEmit "EventPayloadProcessed"]);
}.

Lemma delegate_not_ok cfg e w p s : rr_out (delegate cfg e w p s) <> OAckOk.
Proof.
  unfold delegate. destruct (ext CWrapped s) as [v s1]. destruct v; cbn; discriminate.
Qed.

Theorem recv_ok_inv cfg e w p tape lie :
  rr_out (recv_lie cfg e w p tape lie) = OAckOk ->
  exists denom amount sender receiver pl f t t' a cp acalls fcalls ams mv o',
    transfer cfg e w p lie (recv_lie cfg e w p tape lie) denom amount sender receiver pl f t t' a cp acalls fcalls ams mv o'.
Proof.
  unfold recv_lie, recv_with, recv_generic. fold (initial_pst w tape).
  destruct (ccid_valid {| c_proto := protocol_ibc; c_cp := pk_dchan p |}) eqn:Hsrc; cbn [negb]; [|discriminate].
  destruct (String.eqb (pk_sport p) "" || String.eqb (pk_schan p) ""); [discriminate|].
  destruct (existsb (Z.eqb protocol_ibc) (cfg_adapter_routes cfg)); cbn [negb]; [|discriminate].
  destruct (pk_data p) as [|denom amount sender receiver memo] eqn:Hdata.
  { intros H. exfalso. eapply delegate_not_ok; eauto. }
  destruct (is_orbiter_receiver repaired cfg e receiver) eqn:Hrecv; cbn [negb].
  2:{ intros H. exfalso. eapply delegate_not_ok; eauto. }
  destruct (parse_orbiter_packet repaired e p denom amount memo) as [[t pl]|l|x] eqn:Hparse; try discriminate.
  assert (Hmemo : memo = Ok pl).
  { unfold parse_orbiter_packet in Hparse. destruct memo as [pl0|l|x]; try discriminate. cbn [bind] in Hparse.
    destruct (payload_validate_with (v_nil_action repaired) pl0); try discriminate. cbn [bind] in Hparse.
    destruct (e_parse_int e amount); [|discriminate].
    destruct (recover_native_denom denom (pk_sport p) (pk_schan p)); try discriminate. cbn [bind] in Hparse.
    cbn [v_newcoin_panics repaired andb] in Hparse.
    match type of Hparse with context [tattr_validate ?x] => destruct (tattr_validate x) end; try discriminate.
    cbn [bind] in Hparse. inversion Hparse; reflexivity. }
  subst memo.
  destruct (p_fwd pl) as [f|] eqn:Hf; [|discriminate].
  destruct (pass_limit (w_o w) <? slen (f_pass f)) eqn:Hpass; [discriminate|].
  destruct (recv_body repaired cfg (chain_actions cfg e) e lie (w_o w) p pl f t (initial_pst w tape)) as [t' s1|l s1|x] eqn:Hbody;
    try discriminate.
  change (v_stats_strict repaired) with true.
  destruct (update_stats_swallow true (w_o w) t' f) as [o'|l|x] eqn:Hstats; try discriminate.
  destruct (ext (CEmit "EventPayloadProcessed") s1) as [v s2] eqn:Hemit. destruct v; [|discriminate].
  intros _.
  apply recv_body_ok in Hbody as (acalls & ams & a & cp & fcalls & mv & Hsteps & Hon & Hchk & Hplan & Hran).
  cbn [initial_pst ps_l] in *.
  apply ext_true in Hemit.
  pose proof (ran_trans _ _ _ _ _ _ _ Hran Hemit) as Hall.
  exists denom, amount, sender, receiver, pl, f, t, t', a, cp, acalls, fcalls, ams, mv, o'.
  split; auto.
  - apply Z.ltb_ge in Hpass. exact Hpass.
  - cbn [with_stat result_of rr_world]. f_equal. rewrite (ran_ledger _ _ _ _ Hall). cbn [initial_pst ps_l].
    rewrite app_nil_r. reflexivity.
  - cbn [with_stat result_of rr_moves]. rewrite (ran_moves _ _ _ _ Hall). cbn [initial_pst ps_moves].
    rewrite !app_nil_r, rev_involutive. reflexivity.
  - cbn [with_stat result_of rr_trace]. rewrite (ran_trace _ _ _ _ Hall). cbn [initial_pst ps_trace].
    rewrite app_nil_r, rev_involutive, <- !app_assoc. reflexivity.
Qed.
