(* C07: for a packet that is not an ICS-20 transfer to the orbiter account the middleware IS the
   wrapped application - whatever that application is. *)
From Coq Require Import String Ascii List ZArith NArith Bool Lia.
From Orbiter Require Import Lib.Str Lib.Res Gen.Constants Model.Ids Model.Env Model.Fee Model.Denom
     Model.Payload Model.State Model.Pipeline Proofs.PipelineProofs Proofs.TransferProps.
Import ListNotations.
Open Scope string_scope.
Open Scope Z_scope.

(* not (ICS-20 data whose receiver decodes to the orbiter account) *)
Definition foreign (cfg : config) (e : env) (p : packet) : bool :=
  match pk_data p with
  | PRaw => true
  | PIcs _ _ _ receiver _ => negb (is_orbiter_receiver repaired cfg e receiver)
  end.

Lemma strip_prefix_len pre : forall s r, strip_prefix pre s = Some r -> slen s = slen pre + slen r.
Proof.
  induction pre as [|a pre IH]; intros s r H; cbn in H.
  - inversion H. unfold slen. cbn. lia.
  - destruct s as [|b s]; [discriminate|]. destruct (Ascii.eqb a b); [|discriminate].
    apply IH in H. unfold slen in *. cbn [String.length]. lia.
Qed.

(* every channel identifier IBC core can deliver on passes the middleware's first check *)
Lemma valid_channel_is_valid_source s :
  is_valid_channel_id s = true -> ccid_valid {| c_proto := protocol_ibc; c_cp := s |} = true.
Proof.
  intros H. unfold ccid_valid, ccid_valid_with, valid_counterparty_with. cbn [c_proto c_cp].
  assert (Hp : protocol_valid protocol_ibc = true) by reflexivity. rewrite Hp. cbn [andb].
  rewrite Z.eqb_refl, H. pose proof H as H0. unfold is_valid_channel_id in H0.
  destruct (strip_prefix "channel-" s) as [r|] eqn:E; [|discriminate].
  apply andb_true_iff in H0 as [H0 _]. apply andb_true_iff in H0 as [H0 Hlen]. apply Z.leb_le in Hlen.
  apply strip_prefix_len in E. change (slen "channel-") with 8 in E.
  assert (Hr : 0 <= slen r) by (unfold slen; lia).
  assert (Hne : String.eqb s "" = false).
  { destruct s; [change (slen "") with 0 in E; lia|reflexivity]. }
  rewrite Hne. cbn [negb andb]. apply andb_true_iff. split; [|reflexivity].
  apply Z.leb_le. unfold max_counterparty_id_length. lia.
Qed.

Section AnyApplication.
  (* the wrapped IBC application: ANY function of the world, the packet and the state of the
     external-call machinery to a result (acknowledgement, new world, trace of calls, movements) *)
  Variable app : world -> packet -> pst -> recv_result.
  Variables (cfg : config) (acts : Z -> option action_ctrl) (e : env).

  Theorem middleware_is_the_application w p tape lie :
    foreign cfg e p = true ->
    is_valid_channel_id (pk_dchan p) = true ->
    pk_sport p <> "" -> pk_schan p <> "" ->
    existsb (Z.eqb protocol_ibc) (cfg_adapter_routes cfg) = true ->
    recv_generic repaired cfg acts app e w p tape lie =
      app w p {| ps_l := w_l w; ps_tape := tape; ps_trace := []; ps_moves := [] |}.
  Proof.
    intros Hf Hc Hp Hs Ha. unfold recv_generic.
    rewrite (valid_channel_is_valid_source _ Hc). cbn [negb].
    apply String.eqb_neq in Hp, Hs. rewrite Hp, Hs, Ha. cbn [orb negb].
    unfold foreign in Hf. destruct (pk_data p) as [|denom amount sender receiver memo]; [reflexivity|].
    rewrite Hf. reflexivity.
  Qed.
End AnyApplication.
