(* The memo codec (C15): what the decoder accepts, unknown fields, the round trip of the encoder. *)
From Coq Require Import String Ascii List ZArith NArith Bool Lia.
From Orbiter Require Import Lib.Str Lib.Res Gen.Constants Model.Ids Model.Env Model.Fee Model.Payload Model.Base64 Model.Json
     Proofs.IdsProofs Proofs.Base64Proofs Proofs.OrderProofs.
Import ListNotations.
Open Scope string_scope.
Open Scope Z_scope.
Open Scope list_scope.

(* ====================================================================== *)
(* scalars                                                                *)
(* ====================================================================== *)
Lemma not_minus n r : n_to_dec n <> String "-" r.
Proof.
  intros H. pose proof (n_to_dec_digits n) as D. rewrite H in D. cbn in D. discriminate.
Qed.

Lemma canon_dec n : canon_val (n_to_dec n) = Some n.
Proof. apply canon_val_spec. reflexivity. Qed.

Lemma u32_rt z : 0 <= z < 4294967296 -> dec_u32 (enc_u32 z) = Ok z.
Proof.
  intros H. unfold dec_u32, enc_u32, u32_of_lit. rewrite canon_dec.
  destruct (N.ltb_spec (Z.to_N z) 4294967296) as [_|Hge]; [|lia]. rewrite Z2N.id by lia. reflexivity.
Qed.

Lemma canon_z_nonminus s : (forall r, s <> String "-" r) ->
  canon_z s = match canon_val s with Some n => Some (Z.of_N n) | None => None end.
Proof.
  intros H. destruct s as [|c r]; [reflexivity|].
  destruct c as [[] [] [] [] [] [] [] []]; try reflexivity. exfalso. eapply H. reflexivity.
Qed.

Lemma canon_z_dec z : canon_z (z_to_dec z) = Some z.
Proof.
  destruct z as [|p|p]; cbn [z_to_dec].
  - reflexivity.
  - rewrite canon_z_nonminus by apply not_minus. rewrite canon_dec. reflexivity.
  - cbn [canon_z]. rewrite canon_dec. reflexivity.
Qed.

Lemma int_rt e z : int_fits z = true -> dec_int e (plain (z_to_dec z)) = Ok z.
Proof. intros H. unfold dec_int, plain, jint. rewrite canon_z_dec, H. reflexivity. Qed.

Definition i32 (z : Z) : Prop := -2147483648 <= z <= 2147483647.

Lemma i32_lit_nonminus s : (forall r, s <> String "-" r) ->
  i32_of_lit s = match canon_val s with
                 | Some n => if (-2147483648 <=? Z.of_N n) && (Z.of_N n <=? 2147483647) then Ok (Z.of_N n) else Err "int32 out of range"
                 | None => Err "not an integer"
                 end.
Proof.
  intros H. destruct s as [|c r]; [reflexivity|].
  destruct c as [[] [] [] [] [] [] [] []]; try reflexivity. exfalso. eapply H. reflexivity.
Qed.

Lemma i32_rt z : i32 z -> i32_of_lit (z_to_dec z) = Ok z.
Proof.
  unfold i32. intros H. destruct z as [|p|p]; cbn [z_to_dec].
  - reflexivity.
  - rewrite i32_lit_nonminus by apply not_minus. rewrite canon_dec.
    destruct (Z.leb_spec (-2147483648) (Z.of_N (N.pos p))); [|lia]. destruct (Z.leb_spec (Z.of_N (N.pos p)) 2147483647); [|lia]. reflexivity.
  - cbn [i32_of_lit]. rewrite canon_dec.
    destruct (Z.leb_spec (-2147483648) (- Z.of_N (N.pos p))); [|lia]. destruct (Z.leb_spec (- Z.of_N (N.pos p)) 2147483647); [|lia]. reflexivity.
Qed.

Lemma enum_name_found tbl : NoDup (map snd tbl) -> forall z name, In (z, name) tbl -> enum_by_name tbl name = Some z.
Proof.
  unfold enum_by_name. induction tbl as [|[z0 n0] t IH]; intros Hnd z name Hin; [destruct Hin|].
  cbn [find snd]. inversion Hnd as [|? ? Hnotin Hnd']; subst. destruct Hin as [E|Hin].
  - inversion E; subst. rewrite String.eqb_refl. reflexivity.
  - destruct (String.eqb_spec n0 name) as [->|_].
    + exfalso. apply Hnotin. apply (in_map snd) in Hin. exact Hin.
    + apply IH; assumption.
Qed.

Lemma enum_rt tbl z : NoDup (map snd tbl) -> i32 z -> dec_enum (enum_by_name tbl) (enc_enum tbl z) = Ok z.
Proof.
  intros Hnd Hz. unfold enc_enum. destruct (find (fun p => fst p =? z) tbl) as [[z' name]|] eqn:E.
  - apply find_some in E as [Hin Hz']. cbn [fst] in Hz'. apply Z.eqb_eq in Hz'. subst z'.
    unfold plain, dec_enum. rewrite (enum_name_found tbl Hnd z name Hin). reflexivity.
  - unfold dec_enum. apply i32_rt. exact Hz.
Qed.

Lemma action_names_nodup : NoDup (map snd action_ids).
Proof. cbn. repeat constructor; cbn; intuition discriminate. Qed.
Lemma protocol_names_nodup : NoDup (map snd protocol_ids).
Proof. cbn. repeat constructor; cbn; intuition discriminate. Qed.

Lemma bytes_rt s : dec_bytes (enc_bytes s) = Ok s.
Proof. destruct s as [|c r]; [reflexivity|]. unfold enc_bytes, plain, dec_bytes. rewrite b64_roundtrip. reflexivity. Qed.

Lemma str_rt s : dec_str (plain s) = Ok s.
Proof. reflexivity. Qed.

(* ====================================================================== *)
(* the round trip                                                         *)
(* ====================================================================== *)
Definition wf_fee (o : option fee_info) : Prop :=
  exists fi, o = Some fi /\
             match fi_type fi with
             | None => True
             | Some (FBps v) => 0 <= v < 4294967296
             | Some (FAmount _) => True
             | Some FBpsNil | Some FAmountNil => False
             end.
Definition wf_fwd_attrs (a : attrs) : Prop :=
  match a with
  | ACctp d _ _ => 0 <= d < 4294967296
  | AHyp _ d _ _ _ g _ fa => 0 <= d < 4294967296 /\ int_fits g = true /\ int_fits fa = true
  | AInternal _ => True
  | _ => False
  end.
Definition wf_act_attrs (a : attrs) : Prop :=
  match a with AFee l => Forall wf_fee l | _ => False end.
Definition wf_action (o : option action) : Prop :=
  exists a, o = Some a /\ i32 (a_id a) /\ match a_attrs a with None => True | Some x => wf_act_attrs x end.
Definition wf_forwarding (o : option forwarding) : Prop :=
  match o with
  | None => True
  | Some f => i32 (f_pid f) /\ match f_attrs f with None => True | Some x => wf_fwd_attrs x end
  end.
Definition wf_payload (p : payload) : Prop := Forall wf_action (p_pre p) /\ wf_forwarding (p_fwd p).

Lemma fee_info_rt o : wf_fee o -> dec_fee_info (enc_fee_info o) = Ok o.
Proof.
  intros (fi & -> & Hwf). destruct fi as [r t]. cbn [fi_type] in Hwf.
  destruct t as [[v| |s|]|]; try contradiction.
  - change (dec_fee_info (enc_fee_info (Some {| fi_recipient := r; fi_type := Some (FBps v) |})))
      with (do t <- (do v' <- dec_u32 (enc_u32 v); Ok (Some (FBps v'))); Ok (Some {| fi_recipient := r; fi_type := t |})).
    rewrite u32_rt by exact Hwf. reflexivity.
  - reflexivity.
  - reflexivity.
Qed.

Lemma fee_infos_rt l : Forall wf_fee l -> mapM dec_fee_info (map enc_fee_info l) = Ok l.
Proof.
  induction 1 as [|o t Ho _ IH]; [reflexivity|]. cbn [map mapM]. rewrite fee_info_rt by exact Ho. cbn [bind]. rewrite IH. reflexivity.
Qed.

Lemma act_attrs_rt e a : wf_act_attrs a -> dec_any e IAction (enc_attrs a) = Ok (Some a).
Proof.
  destruct a as [| | |l|]; try contradiction. intros Hwf. cbn [wf_act_attrs] in Hwf.
  change (dec_any e IAction (enc_attrs (AFee l)))
    with (do a <- (do l' <- mapM dec_fee_info (map enc_fee_info l); do _ <- Ok tt; Ok (AFee l')); Ok (Some a)).
  rewrite fee_infos_rt by exact Hwf. reflexivity.
Qed.

Lemma fwd_attrs_rt e a : wf_fwd_attrs a -> dec_any e IForwarding (enc_attrs a) = Ok (Some a).
Proof.
  destruct a as [d m c|t d r h md g fd fa|r| |]; try contradiction; intros Hwf; cbn [wf_fwd_attrs] in Hwf.
  - change (dec_any e IForwarding (enc_attrs (ACctp d m c)))
      with (do a <- (do d' <- dec_u32 (enc_u32 d); do m' <- dec_bytes (enc_bytes m); do c' <- dec_bytes (enc_bytes c);
                     do _ <- Ok tt; Ok (ACctp d' m' c')); Ok (Some a)).
    rewrite u32_rt by exact Hwf. rewrite !bytes_rt. reflexivity.
  - destruct Hwf as (Hd & Hg & Hfa).
    change (dec_any e IForwarding (enc_attrs (AHyp t d r h md g fd fa)))
      with (do a <- (do t' <- dec_bytes (enc_bytes t); do d' <- dec_u32 (enc_u32 d); do r' <- dec_bytes (enc_bytes r);
                     do h' <- dec_bytes (enc_bytes h); do md' <- dec_str (plain md); do g' <- dec_int e (plain (z_to_dec g));
                     do c <- (do fd' <- dec_str (plain fd); do fa' <- dec_int e (plain (z_to_dec fa)); do _ <- Ok tt; Ok (fd', fa'));
                     do _ <- Ok tt; Ok (AHyp t' d' r' h' md' g' (fst c) (snd c))); Ok (Some a)).
    rewrite u32_rt by exact Hd. rewrite !bytes_rt, !int_rt by assumption. reflexivity.
  - reflexivity.
Qed.

Lemma action_rt e o : wf_action o -> dec_action e (enc_action o) = Ok o.
Proof.
  intros (a & -> & Hid & Hat). destruct a as [id at_]. cbn [a_id a_attrs] in *.
  change (dec_action e (enc_action (Some {| a_id := id; a_attrs := at_ |})))
    with (do id' <- dec_enum (enum_by_name action_ids) (enc_enum action_ids id);
          do a <- dec_any e IAction (enc_opt enc_attrs at_);
          do _ <- Ok tt; Ok (Some {| a_id := id'; a_attrs := a |})).
  rewrite enum_rt by (try exact action_names_nodup; exact Hid). cbn [bind].
  destruct at_ as [x|]; cbn [enc_opt].
  - rewrite act_attrs_rt by exact Hat. reflexivity.
  - reflexivity.
Qed.

Lemma actions_rt e l : Forall wf_action l -> mapM (dec_action e) (map enc_action l) = Ok l.
Proof.
  induction 1 as [|o t Ho _ IH]; [reflexivity|]. cbn [map mapM]. rewrite action_rt by exact Ho. cbn [bind]. rewrite IH. reflexivity.
Qed.

Lemma forwarding_rt e o : wf_forwarding o -> dec_forwarding e (enc_forwarding o) = Ok o.
Proof.
  destruct o as [f|]; [|reflexivity]. intros [Hid Hat]. destruct f as [id at_ pass]. cbn [f_pid f_attrs] in *.
  change (dec_forwarding e (enc_forwarding (Some {| f_pid := id; f_attrs := at_; f_pass := pass |})))
    with (do id' <- dec_enum (enum_by_name protocol_ids) (enc_enum protocol_ids id);
          do a <- dec_any e IForwarding (enc_opt enc_attrs at_);
          do p <- dec_bytes (enc_bytes pass);
          do _ <- Ok tt; Ok (Some {| f_pid := id'; f_attrs := a; f_pass := p |})).
  rewrite enum_rt by (try exact protocol_names_nodup; exact Hid). cbn [bind]. rewrite bytes_rt.
  destruct at_ as [x|]; cbn [enc_opt].
  - rewrite fwd_attrs_rt by exact Hat. reflexivity.
  - reflexivity.
Qed.

Theorem decode_encode e p : wf_payload p -> decode_memo e (encode_memo p) = Ok p.
Proof.
  intros [Hpre Hfwd]. destruct p as [pre fwd]. cbn [p_pre p_fwd] in *.
  change (decode_memo e (encode_memo {| p_pre := pre; p_fwd := fwd |}))
    with (do pre' <- mapM (dec_action e) (map enc_action pre);
          do fw <- dec_forwarding e (enc_forwarding fwd);
          do _ <- Ok tt; Ok {| p_pre := pre'; p_fwd := fw |}).
  rewrite actions_rt by exact Hpre. cbn [bind]. rewrite forwarding_rt by exact Hfwd. reflexivity.
Qed.

Corollary accept_encode e p : wf_payload p -> payload_validate p = Ok tt -> accept_memo e (encode_memo p) = Ok p.
Proof. intros Hwf Hv. unfold accept_memo. rewrite decode_encode by exact Hwf. cbn [bind]. rewrite Hv. reflexivity. Qed.

(* ====================================================================== *)
(* what is accepted                                                       *)
(* ====================================================================== *)
Ltac binv H :=
  repeat match type of H with
         | bind ?E _ = Ok _ =>
             let x := fresh "x" in let Ex := fresh "E" in
             destruct E as [x| |] eqn:Ex; cbn [bind] in H; try discriminate H
         end.

Lemma no_unknown_ok tbl f u : no_unknown tbl f = Ok u -> all_known tbl f = true.
Proof. unfold no_unknown. destruct (all_known tbl f); [reflexivity|discriminate]. Qed.

Definition is_fwd_attrs (a : attrs) : Prop :=
  match a with ACctp _ _ _ | AHyp _ _ _ _ _ _ _ _ | AInternal _ => True | _ => False end.
Definition is_act_attrs (a : attrs) : Prop := match a with AFee _ => True | _ => False end.

(* the field table of the message a type URL names *)
Definition attr_table (url : string) : list (string * string) :=
  if String.eqb url url_cctp then jf_cctp
  else if String.eqb url url_hyp then jf_hyp
  else if String.eqb url url_internal then jf_internal
  else if String.eqb url url_fee then jf_fee_attrs
  else [].

Lemma dec_cctp_shape f a : dec_cctp f = Ok a -> is_fwd_attrs a /\ all_known jf_cctp f = true.
Proof. unfold dec_cctp. intros H. binv H. inversion H; subst. split; [exact I|eapply no_unknown_ok; eauto]. Qed.
Lemma dec_hyp_shape e f a : dec_hyp e f = Ok a -> is_fwd_attrs a /\ all_known jf_hyp f = true.
Proof. unfold dec_hyp. intros H. binv H. inversion H; subst. split; [exact I|eapply no_unknown_ok; eauto]. Qed.
Lemma dec_internal_shape f a : dec_internal f = Ok a -> is_fwd_attrs a /\ all_known jf_internal f = true.
Proof. unfold dec_internal. intros H. binv H. inversion H; subst. split; [exact I|eapply no_unknown_ok; eauto]. Qed.
Lemma dec_fee_attrs_shape f a : dec_fee_attrs f = Ok a -> is_act_attrs a /\ all_known jf_fee_attrs f = true.
Proof. unfold dec_fee_attrs. intros H. binv H. inversion H; subst. split; [exact I|eapply no_unknown_ok; eauto]. Qed.

Lemma dec_any_fwd e j a : dec_any e IForwarding j = Ok (Some a) ->
  is_fwd_attrs a /\
  exists f raw url, j = JObj f /\ obj_get "@type" f = Some (JStr raw url) /\ In url forwarding_attr_urls /\
                    all_known (attr_table url) (without_type f) = true.
Proof.
  unfold dec_any. destruct j as [| | | | |f]; try discriminate.
  destruct (obj_get "@type" f) as [[| | |raw url| |]|] eqn:Et; try discriminate.
  destruct (String.eqb_spec url url_cctp) as [->|N1].
  { intros H. binv H. inversion H; subst. apply dec_cctp_shape in E as [Hs Hk]. split; [exact Hs|].
    exists f, raw, url_cctp. repeat split; [exact Et|cbn; auto|exact Hk]. }
  destruct (String.eqb_spec url url_hyp) as [->|N2].
  { intros H. binv H. inversion H; subst. apply dec_hyp_shape in E as [Hs Hk]. split; [exact Hs|].
    exists f, raw, url_hyp. repeat split; [exact Et|cbn; auto|exact Hk]. }
  destruct (String.eqb_spec url url_internal) as [->|N3]; [|discriminate].
  intros H. binv H. inversion H; subst. apply dec_internal_shape in E as [Hs Hk]. split; [exact Hs|].
  exists f, raw, url_internal. repeat split; [exact Et|cbn; auto|exact Hk].
Qed.

Lemma dec_any_act e j a : dec_any e IAction j = Ok (Some a) ->
  is_act_attrs a /\
  exists f raw url, j = JObj f /\ obj_get "@type" f = Some (JStr raw url) /\ In url action_attr_urls /\
                    all_known (attr_table url) (without_type f) = true.
Proof.
  unfold dec_any. destruct j as [| | | | |f]; try discriminate.
  destruct (obj_get "@type" f) as [[| | |raw url| |]|] eqn:Et; try discriminate.
  destruct (String.eqb_spec url url_fee) as [->|N1]; [|discriminate].
  intros H. binv H. inversion H; subst. apply dec_fee_attrs_shape in E as [Hs Hk]. split; [exact Hs|].
  exists f, raw, url_fee. repeat split; [exact Et|cbn; auto|exact Hk].
Qed.

Lemma opt_field_some {A} (dec : json -> res A) (d : A) o v : opt_field dec d o = Ok v -> (o = None /\ v = d) \/ exists j, o = Some j /\ dec j = Ok v.
Proof. destruct o as [j|]; cbn; intros H; [right; eauto|left; inversion H; auto]. Qed.

Lemma dec_action_shape e j act : dec_action e j = Ok (Some act) ->
  (exists g, j = JObj g /\ all_known jf_action g = true) /\ forall a, a_attrs act = Some a -> is_act_attrs a.
Proof.
  unfold dec_action. destruct j as [| | | | |g]; try discriminate. intros H. binv H. inversion H; subst. cbn [a_attrs].
  split; [exists g; split; [reflexivity|eapply no_unknown_ok; eauto]|].
  intros a ->. apply opt_field_some in E0 as [[_ Hd]|(j & _ & Hd)]; [discriminate|]. apply dec_any_act in Hd as [Hs _]. exact Hs.
Qed.

Lemma dec_forwarding_shape e j fw : dec_forwarding e j = Ok (Some fw) ->
  (exists g, j = JObj g /\ all_known jf_forwarding g = true) /\ forall a, f_attrs fw = Some a -> is_fwd_attrs a.
Proof.
  unfold dec_forwarding. destruct j as [| | | | |g]; try discriminate. intros H. binv H. inversion H; subst. cbn [f_attrs].
  split; [exists g; split; [reflexivity|eapply no_unknown_ok; eauto]|].
  intros a ->. apply opt_field_some in E0 as [[_ Hd]|(j & _ & Hd)]; [discriminate|]. apply dec_any_fwd in Hd as [Hs _]. exact Hs.
Qed.

Lemma mapM_Forall2 {A B} (f : A -> res B) l r : mapM f l = Ok r -> Forall2 (fun a b => f a = Ok b) l r.
Proof.
  revert r. induction l as [|x t IH]; cbn [mapM]; intros r H; [inversion H; constructor|].
  binv H. inversion H; subst. constructor; [exact E|apply IH; reflexivity].
Qed.

Lemma dec_payload_shape e v p : dec_payload e v = Ok p ->
  (exists g, v = JObj g /\ all_known jf_payload g = true) /\
  Forall (fun o => forall act a, o = Some act -> a_attrs act = Some a -> is_act_attrs a) (p_pre p) /\
  (forall fw a, p_fwd p = Some fw -> f_attrs fw = Some a -> is_fwd_attrs a).
Proof.
  unfold dec_payload. destruct v as [| | | | |g]; try discriminate. intros H. binv H. inversion H; subst. cbn [p_pre p_fwd].
  split; [exists g; split; [reflexivity|eapply no_unknown_ok; eauto]|]. split.
  - destruct (jfield (fld jf_payload 0) g) as [[| | | |l|]|]; try discriminate; try (inversion E; constructor).
    apply mapM_Forall2 in E. clear - E. induction E as [|j o l r Hj _ IH]; constructor; [|exact IH].
    intros act a -> Ha. apply dec_action_shape in Hj as [_ Hs]. apply Hs. exact Ha.
  - intros fw a -> Ha. apply opt_field_some in E0 as [[_ Hd]|(j & _ & Hd)]; [discriminate|].
    apply dec_forwarding_shape in Hd as [_ Hs]. apply Hs. exact Ha.
Qed.

(* a single root key *)
Lemma dk_in f k : In k (map fst f) -> In k (distinct_keys f).
Proof.
  induction f as [|[k0 v0] t IH]; cbn [map fst distinct_keys]; [intros []|].
  intros [<-|Hin]; destruct (existsb (String.eqb k0) (distinct_keys t)) eqn:E.
  - apply existsb_exists in E as (x & Hx & Hk). apply String.eqb_eq in Hk. subst x. exact Hx.
  - left. reflexivity.
  - apply IH. exact Hin.
  - right. apply IH. exact Hin.
Qed.
Lemma obj_get_in k f v : obj_get k f = Some v -> In k (map fst f).
Proof.
  revert v. induction f as [|[k0 v0] t IH]; intros v; cbn [obj_get map fst]; [discriminate|].
  destruct (obj_get k t) as [j|]; [intros _; right; apply (IH j eq_refl)|].
  destruct (String.eqb_spec k k0) as [->|_]; [intros _; left; reflexivity|discriminate].
Qed.
Lemma single_key f k v : length (distinct_keys f) = 1%nat -> obj_get k f = Some v -> Forall (fun kv => fst kv = k) f.
Proof.
  intros Hl Hg. destruct (distinct_keys f) as [|k0 [|? ?]] eqn:E; try discriminate.
  assert (Hall : forall x, In x (map fst f) -> x = k0).
  { intros x Hx. apply dk_in in Hx. rewrite E in Hx. destruct Hx as [<-|[]]. reflexivity. }
  assert (k = k0) as -> by (apply Hall; eapply obj_get_in; eauto).
  apply Forall_forall. intros kv Hkv. apply Hall. apply in_map. exact Hkv.
Qed.

Lemma all_actions_valid_inv l : all_actions_valid l = Ok tt ->
  Forall (fun o => exists act a, o = Some act /\ action_valid (a_id act) = true /\ a_attrs act = Some a) l.
Proof.
  induction l as [|o t IH]; cbn [all_actions_valid]; intros H; [constructor|].
  binv H. constructor; [|apply IH; destruct x; exact H].
  unfold action_validate in E. destruct o as [act|]; [|discriminate].
  destruct (action_valid (a_id act)) eqn:Ev; [|discriminate]. destruct (a_attrs act) as [a|] eqn:Ea; [|discriminate]. eauto.
Qed.

Theorem accept_sound e t p : accept_memo e t = Ok p ->
  (* a JSON object whose single root key is the orbiter prefix, holding an object without unknown fields *)
  (exists f g, t = JObj f /\ f <> [] /\ Forall (fun kv => fst kv = orbiter_prefix) f /\
               obj_get orbiter_prefix f = Some (JObj g) /\ all_known jf_payload g = true) /\
  (* exactly one forwarding: supported protocol identifier, attributes of a registered forwarding type *)
  (exists fw a, p_fwd p = Some fw /\ protocol_valid (f_pid fw) = true /\ f_attrs fw = Some a /\ is_fwd_attrs a) /\
  (* the pre-actions: present, supported identifiers, attributes of a registered action type, distinct identifiers *)
  Forall (fun o => exists act a, o = Some act /\ action_valid (a_id act) = true /\ a_attrs act = Some a /\ is_act_attrs a) (p_pre p) /\
  (exists ids, Forall2 (fun o id => exists act, o = Some act /\ a_id act = id) (p_pre p) ids /\ NoDup ids).
Proof.
  unfold accept_memo. intros H. binv H. inversion H; subst x. clear H. rename E into Hdec. rename E0 into Hval.
  destruct x0.
  unfold decode_memo in Hdec. destruct t as [| | | | |f]; try discriminate.
  destruct (Nat.eqb_spec (length (distinct_keys f)) 1) as [Hl|]; [|discriminate]. cbn [negb] in Hdec.
  destruct (obj_get orbiter_prefix f) as [v|] eqn:Hg; [|discriminate].
  assert (Hp : dec_payload e v = Ok p) by (destruct v; try discriminate; exact Hdec).
  destruct (dec_payload_shape _ _ _ Hp) as ((g & -> & Hk) & Hacts & Hfw).
  split.
  { exists f, g. split; [reflexivity|]. split; [intros ->; discriminate|]. split; [eapply single_key; eauto|]. split; [exact Hg|exact Hk]. }
  pose proof Hval as Hv. unfold payload_validate, payload_validate_with in Hv. binv Hv.
  split.
  { unfold forwarding_validate in Hv. destruct (p_fwd p) as [fw|] eqn:Ef; [|discriminate].
    destruct (protocol_valid (f_pid fw)) eqn:Epv; [|discriminate]. destruct (f_attrs fw) as [a|] eqn:Ea; [|discriminate].
    exists fw, a. repeat split; try assumption. eapply Hfw; eauto. }
  split.
  { destruct x0. apply all_actions_valid_inv in E0. rewrite Forall_forall in *. intros o Ho.
    destruct (E0 o Ho) as (act & a & -> & Hav & Ha). exists act, a. repeat split; try assumption. eapply Hacts; eauto. }
  apply OrderProofs.valid_payload_distinct_ids. exact Hval.
Qed.

(* ---------- unknown fields ---------- *)
Lemma all_known_mid tbl f1 k v f2 : all_known tbl (f1 ++ (k, v) :: f2) = true -> In k (names_of tbl).
Proof.
  unfold all_known. rewrite forallb_app. intros H. apply andb_true_iff in H as [_ H]. cbn [forallb fst] in H.
  apply andb_true_iff in H as [H _]. apply existsb_exists in H as (x & Hx & He). apply String.eqb_eq in He. subst x. exact Hx.
Qed.

Lemma dec_fee_info_known j o : dec_fee_info j = Ok o -> exists g, j = JObj g /\ all_known (jf_fee_info ++ jf_fee_info_oneof) g = true.
Proof.
  unfold dec_fee_info. destruct j as [| | | | |g]; try discriminate. intros H. binv H.
  destruct (present alt_bps g && present alt_amount g); [discriminate|]. binv H.
  exists g. split; [reflexivity|eapply no_unknown_ok; eauto].
Qed.
Lemma dec_coin_known e g c : dec_coin e (JObj g) = Ok c -> all_known jf_coin g = true.
Proof. unfold dec_coin. cbn [as_obj bind]. intros H. binv H. eapply no_unknown_ok; eauto. Qed.
Lemma dec_bps_known g t : dec_bps (JObj g) = Ok t -> all_known jf_bps g = true.
Proof. unfold dec_bps. intros H. binv H. eapply no_unknown_ok; eauto. Qed.
Lemma dec_amount_known g t : dec_amount (JObj g) = Ok t -> all_known jf_amount g = true.
Proof. unfold dec_amount. intros H. binv H. eapply no_unknown_ok; eauto. Qed.

(* at every object of a document the decoder reads, a member with a name outside the message's table
   (original and camel names) makes the decoder refuse *)
Theorem unknown_fields_refused :
  (forall e g p, dec_payload e (JObj g) = Ok p -> all_known jf_payload g = true) /\
  (forall e g o, dec_forwarding e (JObj g) = Ok o -> all_known jf_forwarding g = true) /\
  (forall e g o, dec_action e (JObj g) = Ok o -> all_known jf_action g = true) /\
  (forall e g a, dec_any e IForwarding (JObj g) = Ok (Some a) ->
                 exists raw url, obj_get "@type" g = Some (JStr raw url) /\ In url forwarding_attr_urls /\ all_known (attr_table url) (without_type g) = true) /\
  (forall e g a, dec_any e IAction (JObj g) = Ok (Some a) ->
                 exists raw url, obj_get "@type" g = Some (JStr raw url) /\ In url action_attr_urls /\ all_known (attr_table url) (without_type g) = true) /\
  (forall g o, dec_fee_info (JObj g) = Ok o -> all_known (jf_fee_info ++ jf_fee_info_oneof) g = true) /\
  (forall g t, dec_bps (JObj g) = Ok t -> all_known jf_bps g = true) /\
  (forall g t, dec_amount (JObj g) = Ok t -> all_known jf_amount g = true) /\
  (forall e g c, dec_coin e (JObj g) = Ok c -> all_known jf_coin g = true).
Proof.
  repeat split.
  - intros e g p H. apply dec_payload_shape in H as ((g' & E & Hk) & _). inversion E; subst. exact Hk.
  - intros e g o H. unfold dec_forwarding in H. binv H. eapply no_unknown_ok; eauto.
  - intros e g o H. unfold dec_action in H. binv H. eapply no_unknown_ok; eauto.
  - intros e g a H. apply dec_any_fwd in H as (_ & f & raw & url & E & Ht & Hin & Hk). inversion E; subst. eauto.
  - intros e g a H. apply dec_any_act in H as (_ & f & raw & url & E & Ht & Hin & Hk). inversion E; subst. eauto.
  - intros g o H. apply dec_fee_info_known in H as (g' & E & Hk). inversion E; subst. exact Hk.
  - apply dec_bps_known.
  - apply dec_amount_known.
  - apply dec_coin_known.
Qed.

(* ====================================================================== *)
(* parsing depends on the document as a tree of Go maps only              *)
(* ====================================================================== *)
From Coq Require Import Permutation.

(* two documents that denote the same tree of maps: same scalars, lists related element-wise,
   objects with the same visible (last) value under every key - whatever the order of the members and
   whatever shadowed repeats they carry *)
Inductive jeq : json -> json -> Prop :=
| jeq_refl j : jeq j j
| jeq_arr l l' : Forall2 jeq l l' -> jeq (JArr l) (JArr l')
| jeq_obj f f' :
    (forall k a, obj_get k f = Some a -> exists b, obj_get k f' = Some b /\ jeq a b) ->
    (forall k b, obj_get k f' = Some b -> exists a, obj_get k f = Some a /\ jeq a b) ->
    jeq (JObj f) (JObj f').

Definition oeq (f f' : list (string * json)) : Prop :=
  (forall k a, obj_get k f = Some a -> exists b, obj_get k f' = Some b /\ jeq a b) /\
  (forall k b, obj_get k f' = Some b -> exists a, obj_get k f = Some a /\ jeq a b).
Definition orel (o o' : option json) : Prop :=
  match o, o' with Some a, Some b => jeq a b | None, None => True | _, _ => False end.

Lemma oeq_refl f : oeq f f.
Proof. split; intros k a H; exists a; split; [exact H|constructor|exact H|constructor]. Qed.

Lemma jeq_obj_inv f j : jeq (JObj f) j -> exists f', j = JObj f' /\ oeq f f'.
Proof. intros H. inversion H; subst; [exists f; split; [reflexivity|apply oeq_refl]|]. eexists. split; [reflexivity|]. split; assumption. Qed.

Lemma obj_get_rel f f' k : oeq f f' -> orel (obj_get k f) (obj_get k f').
Proof.
  intros [H1 H2]. unfold orel. destruct (obj_get k f) as [a|] eqn:Ea.
  - destruct (H1 k a Ea) as (b & -> & Hab). exact Hab.
  - destruct (obj_get k f') as [b|] eqn:Eb; [|exact I]. destruct (H2 k b Eb) as (a & Ha & _). congruence.
Qed.

Lemma jfield_rel f f' n : oeq f f' -> orel (jfield n f) (jfield n f').
Proof.
  intros H. unfold jfield. destruct n as [o c]. destruct (String.eqb c ""); [apply obj_get_rel; exact H|].
  pose proof (obj_get_rel f f' c H) as Hc. pose proof (obj_get_rel f f' o H) as Ho. unfold orel in *.
  destruct (obj_get c f), (obj_get c f'); try contradiction; assumption.
Qed.

Lemma obj_get_some_in k f : In k (map fst f) -> exists v, obj_get k f = Some v.
Proof.
  induction f as [|[k0 v0] t IH]; cbn [map fst obj_get]; [intros []|]. intros [<-|Hin].
  - destruct (obj_get k0 t); [eauto|]. rewrite String.eqb_refl. eauto.
  - destruct (IH Hin) as (v & ->). eauto.
Qed.

Lemma all_known_spec tbl f : all_known tbl f = true <-> forall k v, obj_get k f = Some v -> In k (names_of tbl).
Proof.
  unfold all_known. rewrite forallb_forall. split.
  - intros H k v Hg. apply obj_get_in in Hg. apply in_map_iff in Hg as ([k' v'] & <- & Hin).
    specialize (H _ Hin). apply existsb_exists in H as (x & Hx & He). apply String.eqb_eq in He. cbn [fst] in *. subst x. exact Hx.
  - intros H [k v] Hin. cbn [fst]. destruct (obj_get_some_in k f) as (v' & Hg); [apply (in_map fst) in Hin; exact Hin|].
    apply existsb_exists. exists k. split; [eapply H; eauto|apply String.eqb_refl].
Qed.

Lemma all_known_rel tbl f f' : oeq f f' -> all_known tbl f = all_known tbl f'.
Proof.
  intros [H1 H2]. destruct (all_known tbl f) eqn:E1, (all_known tbl f') eqn:E2; try reflexivity.
  - rewrite all_known_spec in E1. assert (all_known tbl f' = true) as X; [|congruence].
    apply all_known_spec. intros k b Hb. destruct (H2 k b Hb) as (a & Ha & _). eapply E1; eauto.
  - rewrite all_known_spec in E2. assert (all_known tbl f = true) as X; [|congruence].
    apply all_known_spec. intros k a Ha. destruct (H1 k a Ha) as (b & Hb & _). eapply E2; eauto.
Qed.

Lemma no_unknown_rel tbl f f' : oeq f f' -> no_unknown tbl f = no_unknown tbl f'.
Proof. intros H. unfold no_unknown. rewrite (all_known_rel tbl f f' H). reflexivity. Qed.

Lemma opt_field_rel {A} (dec : json -> res A) d o o' :
  orel o o' -> (forall a b, jeq a b -> dec a = dec b) -> opt_field dec d o = opt_field dec d o'.
Proof. unfold orel. destruct o, o'; try contradiction; cbn; auto. Qed.

Lemma present_rel n f f' : oeq f f' -> present n f = present n f'.
Proof. intros H. unfold present. pose proof (jfield_rel f f' n H) as R. unfold orel in R. destruct (jfield n f), (jfield n f'); try contradiction; reflexivity. Qed.

(* scalars: only identical documents are related *)
Ltac scalar H := inversion H; subst; reflexivity.
Lemma dec_u32_rel a b : jeq a b -> dec_u32 a = dec_u32 b.
Proof. intros H. scalar H. Qed.
Lemma dec_enum_rel n a b : jeq a b -> dec_enum n a = dec_enum n b.
Proof. intros H. scalar H. Qed.
Lemma dec_str_rel a b : jeq a b -> dec_str a = dec_str b.
Proof. intros H. scalar H. Qed.
Lemma dec_int_rel e a b : jeq a b -> dec_int e a = dec_int e b.
Proof. intros H. scalar H. Qed.
Lemma dec_byte_elem_rel a b : jeq a b -> dec_byte_elem a = dec_byte_elem b.
Proof. intros H. scalar H. Qed.

Lemma mapM_rel {A} (f : json -> res A) l l' : (forall a b, jeq a b -> f a = f b) -> Forall2 jeq l l' -> mapM f l = mapM f l'.
Proof. intros Hf. induction 1 as [|a b l l' Hab _ IH]; [reflexivity|]. cbn [mapM]. rewrite (Hf a b Hab), IH. reflexivity. Qed.

Lemma dec_bytes_rel a b : jeq a b -> dec_bytes a = dec_bytes b.
Proof.
  intros H. inversion H; subst; try reflexivity. cbn [dec_bytes]. rewrite (mapM_rel dec_byte_elem l l' dec_byte_elem_rel); [reflexivity|assumption].
Qed.

Ltac obj_case H f' Ho :=
  let E := fresh "E" in
  match type of H with
  | jeq (JObj ?f) ?b => destruct (jeq_obj_inv f b H) as (f' & E & Ho); subst b
  end.

Lemma dec_coin_rel e a b : jeq a b -> dec_coin e a = dec_coin e b.
Proof.
  intros H. destruct a; try (inversion H; subst; reflexivity). obj_case H f' Ho. unfold dec_coin. cbn [as_obj bind].
  rewrite (opt_field_rel dec_str "" _ _ (jfield_rel f f' _ Ho) dec_str_rel).
  rewrite (opt_field_rel (dec_int e) 0 _ _ (jfield_rel f f' _ Ho) (dec_int_rel e)).
  rewrite (no_unknown_rel _ f f' Ho). reflexivity.
Qed.

Lemma dec_cctp_rel f f' : oeq f f' -> dec_cctp f = dec_cctp f'.
Proof.
  intros Ho. unfold dec_cctp.
  rewrite (opt_field_rel dec_u32 0 _ _ (jfield_rel f f' _ Ho) dec_u32_rel).
  rewrite (opt_field_rel dec_bytes "" _ _ (jfield_rel f f' (fld jf_cctp 1) Ho) dec_bytes_rel).
  rewrite (opt_field_rel dec_bytes "" _ _ (jfield_rel f f' (fld jf_cctp 2) Ho) dec_bytes_rel).
  rewrite (no_unknown_rel _ f f' Ho). reflexivity.
Qed.

Lemma dec_hyp_rel e f f' : oeq f f' -> dec_hyp e f = dec_hyp e f'.
Proof.
  intros Ho. unfold dec_hyp.
  rewrite (opt_field_rel dec_bytes "" _ _ (jfield_rel f f' (fld jf_hyp 0) Ho) dec_bytes_rel).
  rewrite (opt_field_rel dec_u32 0 _ _ (jfield_rel f f' _ Ho) dec_u32_rel).
  rewrite (opt_field_rel dec_bytes "" _ _ (jfield_rel f f' (fld jf_hyp 2) Ho) dec_bytes_rel).
  rewrite (opt_field_rel dec_bytes "" _ _ (jfield_rel f f' (fld jf_hyp 3) Ho) dec_bytes_rel).
  rewrite (opt_field_rel dec_str "" _ _ (jfield_rel f f' _ Ho) dec_str_rel).
  rewrite (opt_field_rel (dec_int e) 0 _ _ (jfield_rel f f' _ Ho) (dec_int_rel e)).
  rewrite (opt_field_rel (dec_coin e) ("", 0) _ _ (jfield_rel f f' _ Ho) (dec_coin_rel e)).
  rewrite (no_unknown_rel _ f f' Ho). reflexivity.
Qed.

Lemma dec_internal_rel f f' : oeq f f' -> dec_internal f = dec_internal f'.
Proof.
  intros Ho. unfold dec_internal.
  rewrite (opt_field_rel dec_str "" _ _ (jfield_rel f f' _ Ho) dec_str_rel).
  rewrite (no_unknown_rel _ f f' Ho). reflexivity.
Qed.

Lemma dec_bps_rel a b : jeq a b -> dec_bps a = dec_bps b.
Proof.
  intros H. destruct a; try (inversion H; subst; reflexivity). obj_case H f' Ho. unfold dec_bps.
  rewrite (opt_field_rel dec_u32 0 _ _ (jfield_rel f f' _ Ho) dec_u32_rel).
  rewrite (no_unknown_rel _ f f' Ho). reflexivity.
Qed.
Lemma dec_amount_rel a b : jeq a b -> dec_amount a = dec_amount b.
Proof.
  intros H. destruct a; try (inversion H; subst; reflexivity). obj_case H f' Ho. unfold dec_amount.
  rewrite (opt_field_rel dec_str "" _ _ (jfield_rel f f' _ Ho) dec_str_rel).
  rewrite (no_unknown_rel _ f f' Ho). reflexivity.
Qed.

Lemma jeq_null_l b : jeq JNull b -> b = JNull.
Proof. intros H. inversion H; reflexivity. Qed.
Lemma jeq_sym_null a : jeq a JNull -> a = JNull.
Proof. intros H. inversion H; reflexivity. Qed.

Lemma dec_fee_info_rel a b : jeq a b -> dec_fee_info a = dec_fee_info b.
Proof.
  intros H. destruct a; try (inversion H; subst; reflexivity). obj_case H f' Ho. unfold dec_fee_info.
  rewrite (opt_field_rel dec_str "" _ _ (jfield_rel f f' _ Ho) dec_str_rel).
  assert (Hft : match jfield (fld jf_fee_info 1) f with None | Some JNull => Ok tt | Some _ => Err "fee_type: cannot decode into the interface" end =
                match jfield (fld jf_fee_info 1) f' with None | Some JNull => Ok tt | Some _ => Err "fee_type: cannot decode into the interface" end).
  { pose proof (jfield_rel f f' (fld jf_fee_info 1) Ho) as R. unfold orel in R.
    destruct (jfield (fld jf_fee_info 1) f) as [x|], (jfield (fld jf_fee_info 1) f') as [y|]; try contradiction; [|reflexivity].
    inversion R; subst; reflexivity. }
  rewrite Hft. rewrite (present_rel alt_bps f f' Ho), (present_rel alt_amount f f' Ho).
  assert (Ht : match jfield alt_bps f, jfield alt_amount f with Some j1, _ => dec_bps j1 | None, Some j2 => dec_amount j2 | None, None => Ok None end =
               match jfield alt_bps f', jfield alt_amount f' with Some j1, _ => dec_bps j1 | None, Some j2 => dec_amount j2 | None, None => Ok None end).
  { pose proof (jfield_rel f f' alt_bps Ho) as R1. pose proof (jfield_rel f f' alt_amount Ho) as R2. unfold orel in R1, R2.
    destruct (jfield alt_bps f), (jfield alt_bps f'); try contradiction; [apply dec_bps_rel; exact R1|].
    destruct (jfield alt_amount f), (jfield alt_amount f'); try contradiction; [apply dec_amount_rel; exact R2|reflexivity]. }
  rewrite Ht. rewrite (no_unknown_rel _ f f' Ho). reflexivity.
Qed.

Lemma list_field_rel {A} (dec : json -> res A) (msg : string) o o' :
  orel o o' -> (forall a b, jeq a b -> dec a = dec b) ->
  match o with None | Some JNull => Ok [] | Some (JArr l) => mapM dec l | Some _ => Err msg end =
  match o' with None | Some JNull => Ok [] | Some (JArr l) => mapM dec l | Some _ => Err msg end.
Proof.
  unfold orel. intros R Hd. destruct o as [x|], o' as [y|]; try contradiction; [|reflexivity].
  inversion R; subst; try reflexivity. apply mapM_rel; assumption.
Qed.

Lemma dec_fee_attrs_rel f f' : oeq f f' -> dec_fee_attrs f = dec_fee_attrs f'.
Proof.
  intros Ho. unfold dec_fee_attrs.
  rewrite (list_field_rel dec_fee_info "fees_info: wrong JSON type" _ _ (jfield_rel f f' _ Ho) dec_fee_info_rel).
  rewrite (no_unknown_rel _ f f' Ho). reflexivity.
Qed.

Lemma obj_get_without k f : obj_get k (without_type f) = if String.eqb k "@type" then None else obj_get k f.
Proof.
  unfold without_type. induction f as [|[k0 v0] t IH]; cbn [filter obj_get fst]; [destruct (String.eqb k "@type"); reflexivity|].
  destruct (String.eqb_spec k0 "@type") as [->|Hn]; cbn [negb obj_get].
  - rewrite IH. destruct (String.eqb_spec k "@type") as [->|Hk]; [reflexivity|].
    destruct (obj_get k t); [reflexivity|]. destruct (String.eqb_spec k "@type"); [contradiction|reflexivity].
  - rewrite IH. destruct (String.eqb_spec k "@type") as [->|Hk]; [|reflexivity].
    destruct (String.eqb_spec "@type" k0) as [<-|_]; [contradiction|reflexivity].
Qed.

Lemma oeq_without f f' : oeq f f' -> oeq (without_type f) (without_type f').
Proof.
  intros [H1 H2]. split; intros k x; rewrite !obj_get_without; destruct (String.eqb k "@type"); try discriminate; [apply H1|apply H2].
Qed.

Lemma dec_any_rel e i a b : jeq a b -> dec_any e i a = dec_any e i b.
Proof.
  intros H. destruct a; try (inversion H; subst; reflexivity). obj_case H f' Ho. unfold dec_any.
  pose proof (obj_get_rel f f' "@type" Ho) as R. unfold orel in R.
  destruct (obj_get "@type" f) as [x|], (obj_get "@type" f') as [y|]; try contradiction; [|reflexivity].
  assert (x = y \/ ((forall r d, x <> JStr r d) /\ (forall r d, y <> JStr r d))) as [->|[Nx Ny]].
  { inversion R; subst; [left; reflexivity| |]; right; split; intros; discriminate. }
  - destruct y; try reflexivity. pose proof (oeq_without f f' Ho) as Hw.
    destruct i.
    + rewrite (dec_cctp_rel _ _ Hw), (dec_hyp_rel e _ _ Hw), (dec_internal_rel _ _ Hw). reflexivity.
    + rewrite (dec_fee_attrs_rel _ _ Hw). reflexivity.
  - destruct x; try (exfalso; eapply Nx; reflexivity); destruct y; try (exfalso; eapply Ny; reflexivity); reflexivity.
Qed.

Lemma dec_action_rel e a b : jeq a b -> dec_action e a = dec_action e b.
Proof.
  intros H. destruct a; try (inversion H; subst; reflexivity). obj_case H f' Ho. unfold dec_action.
  rewrite (opt_field_rel (dec_enum (enum_by_name action_ids)) 0 _ _ (jfield_rel f f' _ Ho) (dec_enum_rel _)).
  rewrite (opt_field_rel (dec_any e IAction) None _ _ (jfield_rel f f' _ Ho) (dec_any_rel e IAction)).
  rewrite (no_unknown_rel _ f f' Ho). reflexivity.
Qed.

Lemma dec_forwarding_rel e a b : jeq a b -> dec_forwarding e a = dec_forwarding e b.
Proof.
  intros H. destruct a; try (inversion H; subst; reflexivity). obj_case H f' Ho. unfold dec_forwarding.
  rewrite (opt_field_rel (dec_enum (enum_by_name protocol_ids)) 0 _ _ (jfield_rel f f' _ Ho) (dec_enum_rel _)).
  rewrite (opt_field_rel (dec_any e IForwarding) None _ _ (jfield_rel f f' _ Ho) (dec_any_rel e IForwarding)).
  rewrite (opt_field_rel dec_bytes "" _ _ (jfield_rel f f' _ Ho) dec_bytes_rel).
  rewrite (no_unknown_rel _ f f' Ho). reflexivity.
Qed.

Lemma dec_payload_rel e a b : jeq a b -> dec_payload e a = dec_payload e b.
Proof.
  intros H. destruct a; try (inversion H; subst; reflexivity). obj_case H f' Ho. unfold dec_payload.
  rewrite (list_field_rel (dec_action e) "pre_actions: wrong JSON type" _ _ (jfield_rel f f' _ Ho) (dec_action_rel e)).
  rewrite (opt_field_rel (dec_forwarding e) None _ _ (jfield_rel f f' _ Ho) (dec_forwarding_rel e)).
  rewrite (no_unknown_rel _ f f' Ho). reflexivity.
Qed.

(* the number of distinct keys *)
Lemma dk_nodup f : NoDup (distinct_keys f).
Proof.
  induction f as [|[k v] t IH]; cbn [distinct_keys]; [constructor|].
  destruct (existsb (String.eqb k) (distinct_keys t)) eqn:E; [exact IH|]. constructor; [|exact IH].
  intros Hin. assert (existsb (String.eqb k) (distinct_keys t) = true); [|congruence].
  apply existsb_exists. exists k. split; [exact Hin|apply String.eqb_refl].
Qed.
Lemma dk_in_inv f k : In k (distinct_keys f) -> In k (map fst f).
Proof.
  induction f as [|[k0 v0] t IH]; cbn [distinct_keys map fst]; [intros []|].
  destruct (existsb (String.eqb k0) (distinct_keys t)); [intros H; right; apply IH; exact H|].
  intros [<-|H]; [left; reflexivity|right; apply IH; exact H].
Qed.
Lemma dk_length_rel f f' : oeq f f' -> length (distinct_keys f) = length (distinct_keys f').
Proof.
  intros [H1 H2]. apply Permutation_length. apply NoDup_Permutation; try apply dk_nodup.
  intros k. split; intros Hin; apply dk_in; apply dk_in_inv in Hin; apply obj_get_some_in in Hin as (v & Hv).
  - destruct (H1 k v Hv) as (b & Hb & _). eapply obj_get_in; eauto.
  - destruct (H2 k v Hv) as (a & Ha & _). eapply obj_get_in; eauto.
Qed.

Theorem decode_respects_jeq e t t' : jeq t t' -> decode_memo e t = decode_memo e t'.
Proof.
  intros H. destruct t; try (inversion H; subst; reflexivity). obj_case H f' Ho. unfold decode_memo.
  rewrite (dk_length_rel f f' Ho). destruct (negb (Nat.eqb (length (distinct_keys f')) 1)); [reflexivity|].
  pose proof (obj_get_rel f f' orbiter_prefix Ho) as R. unfold orel in R.
  destruct (obj_get orbiter_prefix f) as [x|], (obj_get orbiter_prefix f') as [y|]; try contradiction; [|reflexivity].
  pose proof (dec_payload_rel e x y R) as Hp.
  destruct x; try (apply jeq_null_l in R; subst y; reflexivity);
    destruct y; try (inversion R; fail); try exact Hp.
Qed.

Corollary accept_respects_jeq e t t' : jeq t t' -> accept_memo e t = accept_memo e t'.
Proof. intros H. unfold accept_memo. rewrite (decode_respects_jeq e t t' H). reflexivity. Qed.

(* members in any order: the same document *)
Lemma obj_get_perm f f' k : Permutation f f' -> NoDup (map fst f) -> obj_get k f = obj_get k f'.
Proof.
  induction 1 as [|[k0 v0] t t' Hp IH|[k1 v1] [k2 v2] t|l1 l2 l3 H12 IH12 H23 IH23]; intros Hnd.
  - reflexivity.
  - cbn [obj_get]. inversion Hnd; subst. rewrite IH by assumption. reflexivity.
  - cbn [obj_get]. destruct (obj_get k t); [reflexivity|]. cbn [map fst] in Hnd. inversion Hnd as [|? ? Hn _]; subst.
    destruct (String.eqb_spec k k2) as [E2|_], (String.eqb_spec k k1) as [E1|_]; try reflexivity.
    exfalso. apply Hn. left. congruence.
  - rewrite IH12 by assumption. apply IH23. eapply Permutation_NoDup; [|exact Hnd]. apply Permutation_map. exact H12.
Qed.

Theorem reorder_members f f' : Permutation f f' -> NoDup (map fst f) -> jeq (JObj f) (JObj f').
Proof.
  intros Hp Hnd. apply jeq_obj; intros k x Hx.
  - exists x. split; [rewrite <- (obj_get_perm f f' k Hp Hnd); exact Hx|constructor].
  - exists x. split; [rewrite (obj_get_perm f f' k Hp Hnd); exact Hx|constructor].
Qed.

(* a repeated key: only the last occurrence counts *)
Theorem shadowed_member f1 k v f2 w f3 : jeq (JObj (f1 ++ (k, v) :: f2 ++ (k, w) :: f3)) (JObj (f1 ++ f2 ++ (k, w) :: f3)).
Proof.
  assert (H : forall k', obj_get k' (f1 ++ (k, v) :: f2 ++ (k, w) :: f3) = obj_get k' (f1 ++ f2 ++ (k, w) :: f3)).
  { intros k'. induction f1 as [|[k0 v0] t IH]; cbn [app obj_get].
    - destruct (obj_get k' (f2 ++ (k, w) :: f3)) eqn:E; [reflexivity|].
      destruct (String.eqb_spec k' k) as [->|_]; [|reflexivity]. exfalso.
      clear - E. induction f2 as [|[k1 v1] t IH]; cbn [app obj_get] in E.
      + destruct (obj_get k f3); [discriminate|]. rewrite String.eqb_refl in E. discriminate.
      + destruct (obj_get k (t ++ (k, w) :: f3)); [discriminate|]. apply IH. reflexivity.
    - rewrite IH. reflexivity. }
  apply jeq_obj; intros k' x Hx; exists x; (split; [|constructor]); [rewrite <- H|rewrite H]; exact Hx.
Qed.

(* ====================================================================== *)
(* the decoder is total: an error, never the model's Panic                *)
(* ====================================================================== *)
Lemma np_bind {A B} (r : res A) (f : A -> res B) :
  is_panic r = false -> (forall a, is_panic (f a) = false) -> is_panic (bind r f) = false.
Proof. destruct r; cbn; auto. Qed.
Lemma np_opt_field {A} (dec : json -> res A) (d : A) o : (forall j, is_panic (dec j) = false) -> is_panic (opt_field dec d o) = false.
Proof. intros H. destruct o; cbn; auto. Qed.
Lemma np_mapM {A B} (f : A -> res B) l : (forall a, is_panic (f a) = false) -> is_panic (mapM f l) = false.
Proof. intros H. induction l as [|x t IH]; cbn [mapM]; [reflexivity|]. apply np_bind; [apply H|]. intros y. apply np_bind; [exact IH|]. reflexivity. Qed.
Lemma np_no_unknown tbl f : is_panic (no_unknown tbl f) = false.
Proof. unfold no_unknown. destruct (all_known tbl f); reflexivity. Qed.

Ltac np :=
  repeat first
    [ reflexivity
    | apply np_no_unknown
    | apply np_bind; [|intros ?]
    | apply np_opt_field; intros ?
    | apply np_mapM; intros ?
    | match goal with
      | |- is_panic (match ?x with _ => _ end) = false => destruct x
      | |- is_panic (if ?b then _ else _) = false => destruct b
      | |- is_panic (let (_, _) := ?x in _) = false => destruct x
      end ].

Lemma np_u32 j : is_panic (dec_u32 j) = false.
Proof. unfold dec_u32, u32_of_lit. np. Qed.
Lemma np_enum n j : is_panic (dec_enum n j) = false.
Proof. unfold dec_enum, i32_of_lit. np. Qed.
Lemma np_str j : is_panic (dec_str j) = false.
Proof. unfold dec_str. np. Qed.
Lemma np_byte_elem j : is_panic (dec_byte_elem j) = false.
Proof. unfold dec_byte_elem. np. Qed.
Lemma np_bytes j : is_panic (dec_bytes j) = false.
Proof. unfold dec_bytes. destruct j; try reflexivity; [destruct (b64_decode dec); reflexivity|]. apply np_bind; [apply np_mapM; apply np_byte_elem|reflexivity]. Qed.
Lemma np_int e j : is_panic (dec_int e j) = false.
Proof. unfold dec_int. np. Qed.
Lemma np_coin e j : is_panic (dec_coin e j) = false.
Proof.
  unfold dec_coin. apply np_bind; [destruct j; reflexivity|]. intros f.
  apply np_bind; [apply np_opt_field; apply np_str|]. intros d. apply np_bind; [apply np_opt_field; apply np_int|]. intros a.
  apply np_bind; [apply np_no_unknown|reflexivity].
Qed.
Lemma np_cctp f : is_panic (dec_cctp f) = false.
Proof.
  unfold dec_cctp. apply np_bind; [apply np_opt_field; apply np_u32|]. intros ?. apply np_bind; [apply np_opt_field; apply np_bytes|]. intros ?.
  apply np_bind; [apply np_opt_field; apply np_bytes|]. intros ?. apply np_bind; [apply np_no_unknown|reflexivity].
Qed.
Lemma np_hyp e f : is_panic (dec_hyp e f) = false.
Proof.
  unfold dec_hyp. apply np_bind; [apply np_opt_field; apply np_bytes|]. intros ?. apply np_bind; [apply np_opt_field; apply np_u32|]. intros ?.
  apply np_bind; [apply np_opt_field; apply np_bytes|]. intros ?. apply np_bind; [apply np_opt_field; apply np_bytes|]. intros ?.
  apply np_bind; [apply np_opt_field; apply np_str|]. intros ?. apply np_bind; [apply np_opt_field; apply np_int|]. intros ?.
  apply np_bind; [apply np_opt_field; apply np_coin|]. intros ?. apply np_bind; [apply np_no_unknown|reflexivity].
Qed.
Lemma np_internal f : is_panic (dec_internal f) = false.
Proof. unfold dec_internal. apply np_bind; [apply np_opt_field; apply np_str|]. intros ?. apply np_bind; [apply np_no_unknown|reflexivity]. Qed.
Lemma np_bps j : is_panic (dec_bps j) = false.
Proof. unfold dec_bps. destruct j; try reflexivity. apply np_bind; [apply np_opt_field; apply np_u32|]. intros ?. apply np_bind; [apply np_no_unknown|reflexivity]. Qed.
Lemma np_amount j : is_panic (dec_amount j) = false.
Proof. unfold dec_amount. destruct j; try reflexivity. apply np_bind; [apply np_opt_field; apply np_str|]. intros ?. apply np_bind; [apply np_no_unknown|reflexivity]. Qed.
Lemma np_fee_info j : is_panic (dec_fee_info j) = false.
Proof.
  unfold dec_fee_info. destruct j; try reflexivity. apply np_bind; [apply np_opt_field; apply np_str|]. intros r.
  apply np_bind; [destruct (jfield (fld jf_fee_info 1) f) as [[]|]; reflexivity|]. intros _.
  destruct (present alt_bps f && present alt_amount f); [reflexivity|].
  apply np_bind; [destruct (jfield alt_bps f); [apply np_bps|destruct (jfield alt_amount f); [apply np_amount|reflexivity]]|]. intros t.
  apply np_bind; [apply np_no_unknown|reflexivity].
Qed.
Lemma np_fee_attrs f : is_panic (dec_fee_attrs f) = false.
Proof.
  unfold dec_fee_attrs. apply np_bind; [|intros ?; apply np_bind; [apply np_no_unknown|reflexivity]].
  destruct (jfield (fld jf_fee_attrs 0) f) as [[]|]; try reflexivity. apply np_mapM. apply np_fee_info.
Qed.
Lemma np_any e i j : is_panic (dec_any e i j) = false.
Proof.
  unfold dec_any. destruct j; try reflexivity. destruct (obj_get "@type" f) as [[]|]; try reflexivity.
  destruct i.
  - destruct (String.eqb dec url_cctp); [apply np_bind; [apply np_cctp|reflexivity]|].
    destruct (String.eqb dec url_hyp); [apply np_bind; [apply np_hyp|reflexivity]|].
    destruct (String.eqb dec url_internal); [apply np_bind; [apply np_internal|reflexivity]|reflexivity].
  - destruct (String.eqb dec url_fee); [apply np_bind; [apply np_fee_attrs|reflexivity]|reflexivity].
Qed.
Lemma np_action e j : is_panic (dec_action e j) = false.
Proof.
  unfold dec_action. destruct j; try reflexivity. apply np_bind; [apply np_opt_field; apply np_enum|]. intros ?.
  apply np_bind; [apply np_opt_field; apply np_any|]. intros ?. apply np_bind; [apply np_no_unknown|reflexivity].
Qed.
Lemma np_forwarding e j : is_panic (dec_forwarding e j) = false.
Proof.
  unfold dec_forwarding. destruct j; try reflexivity. apply np_bind; [apply np_opt_field; apply np_enum|]. intros ?.
  apply np_bind; [apply np_opt_field; apply np_any|]. intros ?. apply np_bind; [apply np_opt_field; apply np_bytes|]. intros ?.
  apply np_bind; [apply np_no_unknown|reflexivity].
Qed.
Lemma np_payload e j : is_panic (dec_payload e j) = false.
Proof.
  unfold dec_payload. destruct j; try reflexivity.
  apply np_bind; [destruct (jfield (fld jf_payload 0) f) as [[]|]; try reflexivity; apply np_mapM; apply np_action|]. intros ?.
  apply np_bind; [apply np_opt_field; apply np_forwarding|]. intros ?. apply np_bind; [apply np_no_unknown|reflexivity].
Qed.

Theorem decode_never_panics e t : is_panic (decode_memo e t) = false.
Proof.
  unfold decode_memo. destruct t; try reflexivity. destruct (negb (Nat.eqb (length (distinct_keys f)) 1)); [reflexivity|].
  destruct (obj_get orbiter_prefix f) as [v|]; [|reflexivity].
  pose proof (np_payload e v) as H. destruct v; try reflexivity; exact H.
Qed.
