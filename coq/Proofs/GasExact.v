(* Open finding 17, exactly: for a packet whose forwarding goes through a charging hook and that succeeds on
   one ledger, the outcome on any other ledger is decided by ONE thing - whether the orbiter account holds the
   hook's quote in the hook's denomination, i.e. coins that have nothing to do with the transfer. *)
From Coq Require Import String List ZArith Bool Lia.
From Orbiter Require Import Lib.Str Lib.Res Gen.Constants Model.Ids Model.Env Model.Fee Model.Denom
     Model.Payload Model.State Model.Pipeline Model.Msgs Proofs.Ledger Proofs.PipelineProofs Proofs.TransferProps
     Proofs.Gates Proofs.GasProofs Proofs.GasCharged.
Import ListNotations.
Open Scope string_scope.
Open Scope Z_scope.
Open Scope list_scope.

Theorem gas_hook_exact g cfg e w l2 p :
  wf_cfg cfg ->
  pkt_gas_free g p = false ->
  rr_out (recv_gas g cfg e w p [] 0) = OAckOk ->
  (forall d, 0 <= bal (w_l w) (cfg_orbiter cfg) d) -> (forall d, 0 <= bal l2 (cfg_orbiter cfg) d) ->
  exists payee gd q,
    In (MSend (cfg_orbiter cfg) payee gd q) (rr_moves (recv_gas g cfg e w p [] 0)) /\ 0 < q /\
    (rr_out (recv_gas g cfg e {| w_o := w_o w; w_l := l2 |} p [] 0) = OAckOk <-> q <= bal l2 (cfg_orbiter cfg) gd).
Proof.
  intros Hwf Hg H Hn1 Hn2.
  destruct (recv_gas_charged g cfg e w p [] 0 H Hg)
    as (a & m & (denom & amount & sender & receiver & pl & f & Hd & Hf & Hfa) & Hch & Hok & _ & Hmv & _ & _ & _ & Hpaid).
  destruct Hch as [(token & domain & rcp & hook & md & gas & fd & fa & payee & gd & q & -> & G & -> & Hgok)].
  cbn [paid_from] in Hpaid. destruct Hpaid as [_ [Hq Hle]].
  pose proof (prior_balance_irrelevant cfg e w l2 p Hwf Hok Hn1 Hn2) as Hok2. unfold recv in Hok2.
  destruct (success_clears cfg e w p [] Hwf Hok) as (dn1 & am1 & sd1 & rc1 & pl1 & dd1 & Hp1 & _ & Hrec1 & Hzz1 & _).
  destruct (success_clears cfg e {| w_o := w_o w; w_l := l2 |} p [] Hwf Hok2) as (dn2 & am2 & sd2 & rc2 & pl2 & dd2 & Hp2 & _ & Hrec2 & _ & Hoo2).
  unfold recv in Hzz1, Hoo2. cbn [w_l] in Hoo2.
  (* the delivered denomination is a function of the packet: the same on both ledgers; the hook's is another *)
  rewrite Hp1 in Hp2. inversion Hp2; subst dn2 am2 sd2 rc2 pl2. rewrite Hrec1 in Hrec2. inversion Hrec2; subst dd2.
  assert (Hgd : gd <> dd1) by (intros ->; rewrite Hzz1 in Hle; lia).
  exists payee, gd, q. split; [rewrite Hmv; apply in_or_app; right; left; reflexivity|]. split; [exact Hq|].
  assert (Hsame : bal (w_l (rr_world (recv_lie cfg e {| w_o := w_o w; w_l := l2 |} p [] 0))) (cfg_orbiter cfg) gd = bal l2 (cfg_orbiter cfg) gd)
    by (apply (Hoo2 _ _ Hgd)).
  split.
  - intros H2.
    assert (Hg2 : pkt_gas_free g p = false) by exact Hg.
    destruct (recv_gas_charged g cfg e {| w_o := w_o w; w_l := l2 |} p [] 0 H2 Hg2)
      as (a' & m' & (dn' & am' & sd' & rc' & pl' & f' & Hd' & Hf' & Hfa') & Hch' & _ & _ & _ & _ & _ & _ & Hpaid').
    rewrite Hd in Hd'. inversion Hd'; subst. rewrite Hf in Hf'. inversion Hf'; subst. rewrite Hfa in Hfa'. inversion Hfa'; subst.
    destruct Hch' as [(token' & domain' & rcp' & hook' & md' & gas' & fd' & fa' & payee' & gd' & q' & E' & G' & -> & _)].
    inversion E'; subst. rewrite G in G'. inversion G'; subst.
    cbn [paid_from] in Hpaid'. destruct Hpaid' as [_ [_ Hle']]. rewrite Hsame in Hle'. exact Hle'.
  - intros Hfunds.
    apply (recv_gas_charge_complete g cfg e {| w_o := w_o w; w_l := l2 |} p [] 0 denom amount sender receiver pl f
             token domain rcp hook md gas fd fa payee gd q Hok2 Hd Hf Hfa G Hgok).
    rewrite Hsame. exact Hfunds.
Qed.
