(* C14 on the pipeline model: no stage of the repaired receive path can return [Panic]. *)
From Coq Require Import String Ascii List ZArith Bool Lia.
From Orbiter Require Import Lib.Str Lib.Res Gen.Constants Model.Ids Model.Env Model.Fee Model.Denom
     Model.Payload Model.State Model.Pipeline Model.Msgs Proofs.FeeProofs Proofs.DenomProofs.
Import ListNotations.
Open Scope string_scope.
Open Scope Z_scope.
Open Scope list_scope.

Definition total {A} (m : M A) : Prop := forall s x, m s <> PPanic x.

Lemma total_ret {A} (a : A) : total (mret a).
Proof. intros s x; discriminate. Qed.
Lemma total_fail {A} msg : total (@mfail A msg).
Proof. intros s x; discriminate. Qed.
Lemma total_bind {A B} (m : M A) (f : A -> M B) : total m -> (forall a, total (f a)) -> total (mbind m f).
Proof.
  intros Hm Hf s x. unfold mbind. destruct (m s) as [a s1|l s1|y] eqn:E; [apply Hf|discriminate|].
  exfalso. eapply Hm; eauto.
Qed.
Lemma total_lift {A} (r : res A) : is_panic r = false -> total (lift r).
Proof. intros H s x. unfold lift. destruct r; try discriminate. Qed.
Lemma total_mext c msg : total (mext c msg).
Proof. intros s x. unfold mext. destruct (ext c s) as [v s1]. destruct v; discriminate. Qed.
Lemma total_ext_moving c ms msg : total (ext_moving c ms msg).
Proof. intros s x. unfold ext_moving. destruct (ext c s) as [v s1]. destruct v; discriminate. Qed.

Lemma check_total {A} (r : res A) : (forall x, r <> Panic x) -> is_panic r = false.
Proof. destruct r; intros H; try reflexivity. exfalso. eapply H; eauto. Qed.

Lemma tattr_validate_total t : is_panic (tattr_validate t) = false.
Proof. unfold tattr_validate. repeat match goal with |- context [if ?b then _ else _] => destruct b end; reflexivity. Qed.
Lemma action_validate_total a : is_panic (action_validate a) = false.
Proof. unfold action_validate. destruct a as [a|]; [|reflexivity]. destruct (action_valid _); [|reflexivity]. destruct (a_attrs a); reflexivity. Qed.
Lemma forwarding_validate_total f : is_panic (forwarding_validate f) = false.
Proof. unfold forwarding_validate. destruct f as [f|]; [|reflexivity]. destruct (protocol_valid _); [|reflexivity]. destruct (f_attrs f); reflexivity. Qed.

Lemma fee_sends_total cfg d credits : total (fee_sends cfg d credits).
Proof.
  induction credits as [|[to x] r IH]; [apply total_ret|]. cbn [fee_sends].
  apply total_bind; [apply total_ext_moving|intros _; exact IH].
Qed.

Lemma fee_ctrl_total cfg e a t : total (fee_ctrl cfg e a t).
Proof.
  unfold fee_ctrl, fee_ctrl_with. destruct a as [[| | |infos|]|]; try apply total_fail.
  apply total_bind; [apply total_lift, fee_plan_never_panics|]. intros [credits fwd].
  apply total_bind; [apply fee_sends_total|]. intros _.
  apply total_bind; [apply total_mext|]. intros _. apply total_ret.
Qed.

Lemma run_action_total cfg e paused a t : total (run_action (chain_actions cfg e) paused a t).
Proof.
  unfold run_action.
  apply total_bind; [apply total_lift, action_validate_total|]. intros _.
  apply total_bind; [apply total_lift, tattr_validate_total|]. intros _.
  destruct a as [a|]; [|apply total_fail]. destruct (paused (a_id a)); [apply total_fail|].
  unfold chain_actions. destruct (_ && _); [apply fee_ctrl_total|apply total_fail].
Qed.

Lemma dispatch_actions_total cfg e paused l : forall t, total (dispatch_actions (chain_actions cfg e) paused l t).
Proof.
  induction l as [|a r IH]; intros t; [apply total_ret|]. cbn [dispatch_actions].
  apply total_bind; [apply run_action_total|]. intros t'. apply IH.
Qed.

Lemma cctp_validate_total d r : is_panic (cctp_validate d r) = false.
Proof. unfold cctp_validate. repeat match goal with |- context [if ?b then _ else _] => destruct b end; reflexivity. Qed.
Lemma hyp_validate_total a b c d0 m : is_panic (hyp_validate a b c d0 m) = false.
Proof.
  unfold hyp_validate. repeat match goal with |- context [if ?b then _ else _] => destruct b end; try reflexivity.
  destruct (strip_prefix _ _); [|reflexivity]. destruct (hex_ok _); reflexivity.
Qed.
Lemma internal_validate_total b cfg e r : is_panic (internal_validate b cfg e r) = false.
Proof.
  unfold internal_validate. destruct (String.eqb r ""); [reflexivity|]. destruct (e_bech32 e r); [|reflexivity].
  destruct (_ && _); reflexivity.
Qed.

Lemma total_charged cfg c d amt payee gd q fd fa : total (hyp_transfer_charged cfg c d amt payee gd q fd fa).
Proof. intros s x. unfold hyp_transfer_charged. destruct (ext c s) as [v s1]. destruct (_ && _ && _); discriminate. Qed.

(* whatever the chain's post-dispatch hooks charge *)
Lemma forward_ctrl_g_total g cfg e pid a t : total (forward_ctrl_with false false g cfg e pid a t).
Proof.
  unfold forward_ctrl_with.
  destruct (pid =? protocol_cctp).
  { destruct a; try apply total_fail. apply total_bind; [apply total_lift, cctp_validate_total|]. intros _. apply total_ext_moving. }
  destruct (pid =? protocol_hyperlane).
  { destruct a; try apply total_fail. cbn [andb].
    apply total_bind; [apply total_lift, tattr_validate_total|]. intros _.
    apply total_bind; [apply total_lift, hyp_validate_total|]. intros _.
    apply total_bind; [apply total_lift; unfold hyp_fee_validate; destruct (fee_coin_bad _ _); reflexivity|]. intros _.
    apply total_bind; [apply total_mext|]. intros _.
    destruct (cfg_hyp_token cfg token); [|apply total_fail].
    destruct (negb _); [apply total_fail|]. cbv zeta.
    destruct (g _ _ _) as [[[payee gd] q]|]; [apply total_charged|apply total_ext_moving]. }
  destruct (pid =? protocol_internal); [|apply total_fail].
  destruct a; try apply total_fail.
  apply total_bind; [apply total_lift, tattr_validate_total|]. intros _.
  apply total_bind; [apply total_lift, internal_validate_total|]. intros _. apply total_ext_moving.
Qed.
Lemma forward_ctrl_total cfg e pid a t : total (forward_ctrl cfg e pid a t).
Proof. apply forward_ctrl_g_total. Qed.

Lemma run_forwarding_g_total g cfg e lie pp ccp f t :
  total (run_forwarding_with (forward_ctrl_with false false g) cfg e lie pp ccp f t).
Proof.
  unfold run_forwarding_with.
  apply total_bind; [apply total_lift, forwarding_validate_total|]. intros _.
  apply total_bind; [apply total_lift, tattr_validate_total|]. intros _.
  destruct f as [f|]; [|apply total_fail].
  destruct (f_attrs f) as [a|]; [|apply total_fail].
  destruct (counterparty_of a) as [cp|]; [|apply total_fail].
  destruct (pp (f_pid f)); [apply total_fail|].
  destruct (negb (ccid_valid _)); [apply total_fail|].
  destruct (ccp (f_pid f) cp); [apply total_fail|].
  intros s x. destruct (negb (_ =? _)); [discriminate|]. destruct (negb (existsb _ _)); [discriminate|].
  apply forward_ctrl_g_total.
Qed.
Lemma run_forwarding_total cfg e lie pp ccp f t : total (run_forwarding_with forward_ctrl cfg e lie pp ccp f t).
Proof. apply run_forwarding_g_total. Qed.

Lemma recv_body_g_total g cfg e lie o p pl f t :
  total (recv_body (with_gas repaired g) cfg (chain_actions cfg e) e lie o p pl f t).
Proof.
  unfold recv_body. cbn [with_gas repaired v_allow_self v_hyp_log_first v_gas]. apply total_bind; [intros s x; discriminate|]. intros prior.
  apply total_bind.
  - destruct (0 <? _); [apply total_ext_moving|apply total_ret].
  - intros _. apply total_bind; [apply total_ext_moving|]. intros _.
    apply total_bind; [apply dispatch_actions_total|]. intros t'.
    apply total_bind; [apply run_forwarding_g_total|]. intros _. apply total_ret.
Qed.
Lemma recv_body_total cfg e lie o p pl f t : total (recv_body repaired cfg (chain_actions cfg e) e lie o p pl f t).
Proof. exact (recv_body_g_total no_gas cfg e lie o p pl f t). Qed.

(* statistics with SafeAdd: errors (swallowed), never a panic *)
Lemma add_amount_strict_total old new : is_panic (add_amount true old new) = false.
Proof. unfold add_amount. destruct (0 <? new); [|reflexivity]. destruct (int_fits _); reflexivity. Qed.
Lemma update_amount_strict_total o k i u : is_panic (update_amount true o k i u) = false.
Proof.
  unfold update_amount. destruct (match mget _ _ _ with Some v => v | None => _ end) as [oi oo].
  pose proof (add_amount_strict_total oi i). destruct (add_amount true oi i); try discriminate; [|reflexivity]. cbn [bind].
  pose proof (add_amount_strict_total oo u). destruct (add_amount true oo u); try discriminate; reflexivity.
Qed.
Lemma update_count_total o k : is_panic (update_count o k) = false.
Proof. unfold update_count. destruct (_ =? _); reflexivity. Qed.

Lemma update_stats_total o t f : is_panic (update_stats_swallow true o t f) = false.
Proof.
  unfold update_stats_swallow. destruct (f_attrs f) as [a|]; [|reflexivity].
  destruct (counterparty_of a) as [cp|]; [|reflexivity].
  destruct (_ || _); [reflexivity|].
  assert (Hfin : forall o1 ck, is_panic (match update_count o1 ck with Ok o2 => Ok o2 | Err _ => Ok o1 | Panic x => Panic x end) = false).
  { intros o1 ck. pose proof (update_count_total o1 ck). destruct (update_count o1 ck); try discriminate; reflexivity. }
  destruct (String.eqb _ _).
  - match goal with |- context [update_amount true ?a ?b ?c ?d] =>
      pose proof (update_amount_strict_total a b c d); destruct (update_amount true a b c d) end; try discriminate; [apply Hfin|reflexivity].
  - match goal with |- context [update_amount true o ?b ?c ?d] =>
      pose proof (update_amount_strict_total o b c d); destruct (update_amount true o b c d) as [o1| |] end; try discriminate; [|reflexivity].
    match goal with |- context [update_amount true o1 ?b ?c ?d] =>
      pose proof (update_amount_strict_total o1 b c d); destruct (update_amount true o1 b c d) end; try discriminate; [apply Hfin|reflexivity].
Qed.

(* parsing: Payload.Validate with the nil guard, the coin validated instead of built with NewCoin *)
Lemma unique_ids_total seen l : is_panic (unique_ids_with (Err "action is not set") seen l) = false.
Proof.
  revert seen. induction l as [|[a|] r IH]; intros seen; cbn; try reflexivity.
  destruct (existsb _ _); [reflexivity|apply IH].
Qed.
Lemma all_actions_valid_total l : is_panic (all_actions_valid l) = false.
Proof.
  induction l as [|a r IH]; [reflexivity|]. cbn [all_actions_valid].
  pose proof (action_validate_total a). destruct (action_validate a); try discriminate; [exact IH|reflexivity].
Qed.
Lemma payload_validate_total pl : is_panic (payload_validate pl) = false.
Proof.
  unfold payload_validate, payload_validate_with.
  pose proof (unique_ids_total [] (p_pre pl)). destruct (unique_ids_with _ _ _); try discriminate; [|reflexivity]. cbn [bind].
  pose proof (all_actions_valid_total (p_pre pl)). destruct (all_actions_valid _); try discriminate; [|reflexivity]. cbn [bind].
  apply forwarding_validate_total.
Qed.

Lemma parse_total e p denom amount memo :
  is_panic memo = false -> is_panic (parse_orbiter_packet repaired e p denom amount memo) = false.
Proof.
  intros Hm. unfold parse_orbiter_packet. destruct memo as [pl| |]; try discriminate; [|reflexivity]. cbn [bind].
  change (payload_validate_with (v_nil_action repaired) pl) with (payload_validate pl).
  pose proof (payload_validate_total pl). destruct (payload_validate pl); try discriminate; [|reflexivity]. cbn [bind].
  destruct (e_parse_int e amount); [|reflexivity].
  pose proof (recover_never_panics denom (pk_sport p) (pk_schan p)).
  destruct (recover_native_denom _ _ _); try discriminate; [|reflexivity]. cbn [bind v_newcoin_panics repaired andb].
  match goal with |- context [tattr_validate ?x] => pose proof (tattr_validate_total x); destruct (tattr_validate x) end;
    try discriminate; reflexivity.
Qed.

Definition memo_of (p : packet) : res payload :=
  match pk_data p with PIcs _ _ _ _ m => m | PRaw => Err "no memo" end.

(* the receive path returns an acknowledgement for every packet, state, tape and environment,
   provided the memo decoder itself returned (a payload or an error) *)
Theorem recv_gas_never_panics g cfg e w p tape lie :
  is_panic (memo_of p) = false ->
  forall x, rr_out (recv_gas g cfg e w p tape lie) <> OPanic x.
Proof.
  intros Hm x. unfold recv_gas, recv_with, recv_generic.
  change (is_orbiter_receiver (with_gas repaired g)) with (is_orbiter_receiver repaired).
  change (parse_orbiter_packet (with_gas repaired g)) with (parse_orbiter_packet repaired).
  change (v_stats_strict (with_gas repaired g)) with (v_stats_strict repaired).
  destruct (negb (ccid_valid _)); [discriminate|].
  destruct (_ || _); [discriminate|].
  destruct (negb (existsb _ _)); [discriminate|].
  assert (Hdel : forall s, rr_out (delegate cfg e w p s) <> OPanic x).
  { intros s. unfold delegate. destruct (ext CWrapped s) as [v s1]. destruct v; discriminate. }
  unfold memo_of in Hm.
  destruct (pk_data p) as [|denom amount sender receiver memo]; [apply Hdel|].
  destruct (negb (is_orbiter_receiver _ _ _ _)); [apply Hdel|].
  pose proof (parse_total e p denom amount memo Hm) as Hp.
  destruct (parse_orbiter_packet repaired e p denom amount memo) as [[t pl]| |]; try discriminate.
  destruct (p_fwd pl) as [f|]; [|discriminate].
  destruct (_ <? _); [discriminate|].
  match goal with |- context [recv_body ?a ?b ?c ?d ?e0 ?f0 ?g0 ?h ?i ?j ?k] =>
    pose proof (recv_body_g_total g b d e0 f0 g0 h i j k) as Hb; destruct (recv_body a b c d e0 f0 g0 h i j k) as [t' s1|l s1|y] eqn:E end.
  - change (v_stats_strict repaired) with true.
    pose proof (update_stats_total (w_o w) t' f) as Hs.
    destruct (update_stats_swallow true (w_o w) t' f); try discriminate.
    destruct (ext _ s1) as [v s2]. destruct v; discriminate.
  - discriminate.
  - exfalso. eapply Hb; eauto.
Qed.
Theorem recv_never_panics cfg e w p tape lie :
  is_panic (memo_of p) = false ->
  forall x, rr_out (recv_lie cfg e w p tape lie) <> OPanic x.
Proof. exact (recv_gas_never_panics no_gas cfg e w p tape lie). Qed.

(* statistics failures are swallowed: the update always returns a state *)
Lemma update_stats_ok o t f : exists o', update_stats_swallow true o t f = Ok o'.
Proof.
  pose proof (update_stats_total o t f) as Hp.
  unfold update_stats_swallow in *. destruct (f_attrs f) as [a|]; [|eauto].
  destruct (counterparty_of a) as [cp|]; [|eauto].
  destruct (_ || _); [eauto|].
  assert (Hfin : forall o1 ck, exists o', match update_count o1 ck with Ok o2 => Ok o2 | Err _ => Ok o1 | Panic x => Panic x end = Ok o').
  { intros o1 ck. pose proof (update_count_total o1 ck). destruct (update_count o1 ck); try discriminate; eauto. }
  destruct (String.eqb _ _).
  - match goal with |- context [update_amount true ?a ?b ?c ?d] =>
      pose proof (update_amount_strict_total a b c d); destruct (update_amount true a b c d) end; try discriminate; [apply Hfin|eauto].
  - match goal with |- context [update_amount true o ?b ?c ?d] =>
      pose proof (update_amount_strict_total o b c d); destruct (update_amount true o b c d) as [o1| |] end; try discriminate; [|eauto].
    match goal with |- context [update_amount true o1 ?b ?c ?d] =>
      pose proof (update_amount_strict_total o1 b c d); destruct (update_amount true o1 b c d) end; try discriminate; [apply Hfin|eauto].
Qed.
