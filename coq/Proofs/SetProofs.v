(* Key sets: membership after insertion / removal, for the two key orders used by the pause sets. *)
From Coq Require Import String Ascii List ZArith NArith Bool Lia.
From Orbiter Require Import Lib.Str Lib.Res Model.State.
Import ListNotations.
Open Scope Z_scope.
Open Scope list_scope.

Lemma cmp_str_eq a : forall b, cmp_str a b = Eq <-> a = b.
Proof.
  induction a as [|x a IH]; intros [|y b]; cbn; split; intros H; try reflexivity; try discriminate.
  - destruct (N.compare (N_of_ascii x) (N_of_ascii y)) eqn:E; try discriminate.
    apply N.compare_eq_iff in E. apply (f_equal ascii_of_N) in E. rewrite !ascii_N_embedding in E. subst y.
    apply IH in H. subst b. reflexivity.
  - inversion H; subst. rewrite N.compare_refl. apply IH. reflexivity.
Qed.

Lemma cmp_z_eq a b : cmp_z a b = Eq <-> a = b.
Proof. unfold cmp_z. apply Z.compare_eq_iff. Qed.

Lemma cmp_cc_eq a b : cmp_cc a b = Eq <-> a = b.
Proof.
  destruct a as [p s], b as [q t]. unfold cmp_cc, lex. cbn [fst snd]. split.
  - destruct (cmp_z p q) eqn:E; try discriminate. intros H. apply cmp_z_eq in E. apply cmp_str_eq in H. subst. reflexivity.
  - intros H. inversion H; subst. replace (cmp_z q q) with Eq by (symmetry; apply cmp_z_eq; reflexivity). apply cmp_str_eq. reflexivity.
Qed.

Section Sets.
  Context {K : Type} (cmp : K -> K -> comparison).
  Hypothesis cmp_eq : forall a b, cmp a b = Eq <-> a = b.

  Lemma keqb_eq a b : keqb cmp a b = true <-> a = b.
  Proof. unfold keqb. rewrite <- cmp_eq. destruct (cmp a b); split; intros H; try reflexivity; discriminate. Qed.
  Lemma keqb_refl a : keqb cmp a a = true.
  Proof. apply keqb_eq. reflexivity. Qed.

  Lemma smem_In x l : smem cmp x l = true <-> In x l.
  Proof.
    unfold smem. rewrite existsb_exists. split.
    - intros (y & Hin & Hy). apply keqb_eq in Hy. subst. exact Hin.
    - intros Hin. exists x. split; [exact Hin|apply keqb_refl].
  Qed.

  Lemma In_sins z x l : In z (sins cmp x l) <-> z = x \/ In z l.
  Proof.
    induction l as [|y t IH]; cbn [sins].
    - cbn. intuition.
    - destruct (cmp x y) eqn:E.
      + apply cmp_eq in E. subst y. cbn. intuition.
      + cbn. intuition.
      + cbn [In]. rewrite IH. intuition.
  Qed.

  Lemma In_srem z x l : In z (srem cmp x l) <-> z <> x /\ In z l.
  Proof.
    unfold srem. rewrite filter_In. split.
    - intros [Hin Hn]. split; [|exact Hin]. intros ->. rewrite keqb_refl in Hn. discriminate.
    - intros [Hne Hin]. split; [exact Hin|]. destruct (keqb cmp x z) eqn:E; [|reflexivity].
      apply keqb_eq in E. congruence.
  Qed.

  Lemma smem_sins z x l : smem cmp z (sins cmp x l) = keqb cmp z x || smem cmp z l.
  Proof.
    apply eq_true_iff_eq. rewrite orb_true_iff, !smem_In, In_sins, keqb_eq. reflexivity.
  Qed.
  Lemma smem_srem z x l : smem cmp z (srem cmp x l) = negb (keqb cmp z x) && smem cmp z l.
  Proof.
    apply eq_true_iff_eq. rewrite andb_true_iff, negb_true_iff, !smem_In, In_srem.
    split; intros [H1 H2]; split; try exact H2.
    - destruct (keqb cmp z x) eqn:E; [apply keqb_eq in E; congruence|reflexivity].
    - intros ->. rewrite keqb_refl in H1. discriminate.
  Qed.
End Sets.
