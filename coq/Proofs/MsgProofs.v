(* The eight messages: who may send them, when they succeed, what exactly they change. *)
From Coq Require Import String Ascii List ZArith Bool Lia.
From Orbiter Require Import Lib.Str Lib.Res Gen.Constants Model.Ids Model.Env Model.Fee Model.Denom
     Model.Payload Model.State Model.Pipeline Model.Msgs Proofs.PipelineProofs Proofs.SetProofs.
Import ListNotations.
Open Scope string_scope.
Open Scope Z_scope.
Open Scope list_scope.

Definition protos_of (w : world) (q : Z) : bool := smem cmp_z q (paused_protos (w_o w)).
Definition cc_of (w : world) (k : cckey) : bool := smem cmp_cc k (paused_cc (w_o w)).
Definition actions_of (w : world) (q : Z) : bool := smem cmp_z q (paused_actions (w_o w)).

(* everything but the named component is unchanged *)
Record frame (w w' : world) (protos cc actions limit : bool) : Prop := {
  fr_ledger : w_l w' = w_l w;
  fr_amounts : amounts (w_o w') = amounts (w_o w);
  fr_counts : counts (w_o w') = counts (w_o w);
  fr_protos : protos = false -> paused_protos (w_o w') = paused_protos (w_o w);
  fr_cc : cc = false -> paused_cc (w_o w') = paused_cc (w_o w);
  fr_actions : actions = false -> paused_actions (w_o w') = paused_actions (w_o w);
  fr_limit : limit = false -> max_pass (w_o w') = max_pass (w_o w);
}.

(* ---------- C10: only the authority ---------- *)
Theorem step_msg_unauthorized cfg w signer m tape :
  signer <> cfg_authority cfg -> step_msg cfg w signer m tape = (w, OutMsg 1 []).
Proof.
  intros H. unfold step_msg, handle_msg. apply String.eqb_neq in H. rewrite H. reflexivity.
Qed.

Theorem step_msg_refused cfg w signer m tape w' c tr :
  step_msg cfg w signer m tape = (w', OutMsg c tr) -> c <> 0%nat -> w' = w.
Proof.
  unfold step_msg. destruct (handle_msg _ _ _ _ _) as [o' s|l s|x]; intros H Hc; inversion H; subst; congruence.
Qed.

Lemma step_msg_out cfg w signer m tape : exists c tr, snd (step_msg cfg w signer m tape) = OutMsg c tr.
Proof. unfold step_msg. destruct (handle_msg _ _ _ _ _); cbn; eauto. Qed.

Lemma step_msg_ok_inv cfg w signer m tape w' tr :
  step_msg cfg w signer m tape = (w', OutMsg 0 tr) ->
  signer = cfg_authority cfg /\
  exists o' s, handle_body cfg (w_o w) m {| ps_l := w_l w; ps_tape := tape; ps_trace := []; ps_moves := [] |} = POk o' s /\
               w' = {| w_o := o'; w_l := w_l w |} /\ tr = rev (ps_trace s).
Proof.
  unfold step_msg, handle_msg. destruct (String.eqb signer (cfg_authority cfg)) eqn:E.
  - apply String.eqb_eq in E. destruct (handle_body _ _ _ _) as [o' s|l s|x] eqn:Hb; intros H; inversion H; subst. split; [reflexivity|]. exists o', s. auto.
  - cbn. intros H; inversion H.
Qed.

Lemma with_event_ok {A} (r : res A) ev s a s1 :
  with_event r ev s = POk a s1 -> r = Ok a /\ ps_trace s1 = (CEmit ev, true) :: ps_trace s.
Proof.
  unfold with_event. intros H. apply mbind_ok in H as (a0 & s' & H1 & H). apply lift_ok in H1 as [-> ->].
  apply mbind_ok in H as (u & s2 & H2 & H3). inversion H3; subst. apply mext_ok in H2. split; [reflexivity|].
  rewrite (ran_trace _ _ _ _ H2). reflexivity.
Qed.

(* ---------- key-set updates ---------- *)
Lemma pause_protocol_ok o pid o' :
  pause_protocol o pid = Ok o' ->
  protocol_valid pid = true /\ smem cmp_z pid (paused_protos o) = false /\
  o' = set_paused_protos o (sins cmp_z pid (paused_protos o)).
Proof.
  unfold pause_protocol. destruct (protocol_valid pid); [|discriminate]. cbn [negb].
  destruct (smem cmp_z pid (paused_protos o)); [discriminate|]. intros H; inversion H. auto.
Qed.
Lemma unpause_protocol_ok o pid o' :
  unpause_protocol o pid = Ok o' ->
  protocol_valid pid = true /\ smem cmp_z pid (paused_protos o) = true /\
  o' = set_paused_protos o (srem cmp_z pid (paused_protos o)).
Proof.
  unfold unpause_protocol. destruct (protocol_valid pid); [|discriminate]. cbn [negb].
  destruct (smem cmp_z pid (paused_protos o)); [|discriminate]. intros H; inversion H. auto.
Qed.
Lemma pause_action_ok o aid o' :
  pause_action o aid = Ok o' ->
  action_valid aid = true /\ smem cmp_z aid (paused_actions o) = false /\
  o' = set_paused_actions o (sins cmp_z aid (paused_actions o)).
Proof.
  unfold pause_action. destruct (action_valid aid); [|discriminate]. cbn [negb].
  destruct (smem cmp_z aid (paused_actions o)); [discriminate|]. intros H; inversion H. auto.
Qed.
Lemma unpause_action_ok o aid o' :
  unpause_action o aid = Ok o' ->
  action_valid aid = true /\ smem cmp_z aid (paused_actions o) = true /\
  o' = set_paused_actions o (srem cmp_z aid (paused_actions o)).
Proof.
  unfold unpause_action. destruct (action_valid aid); [|discriminate]. cbn [negb].
  destruct (smem cmp_z aid (paused_actions o)); [|discriminate]. intros H; inversion H. auto.
Qed.

(* a batch of counterparties: applied in order; succeeds only if every entry is new (resp. present) *)
Lemma pause_cc_batch pid ids : forall o o',
  fold_res (fun o cp => pause_cc o pid cp) ids o = Ok o' ->
  Forall (fun c => ccid_valid {| c_proto := pid; c_cp := c |} = true /\ smem cmp_cc (pid, c) (paused_cc o) = false) ids /\
  NoDup ids /\
  (forall k, smem cmp_cc k (paused_cc o') = existsb (fun c => keqb cmp_cc k (pid, c)) ids || smem cmp_cc k (paused_cc o)) /\
  paused_protos o' = paused_protos o /\ paused_actions o' = paused_actions o /\ max_pass o' = max_pass o /\
  amounts o' = amounts o /\ counts o' = counts o.
Proof.
  induction ids as [|c r IH]; intros o o' H.
  - cbn in H. inversion H; subst. repeat split; try constructor.
  - cbn [fold_res bind] in H. destruct (pause_cc o pid c) as [o1| |] eqn:E; try discriminate.
    unfold pause_cc in E. destruct (ccid_valid _) eqn:Hv; [|discriminate]. cbn [negb] in E.
    destruct (smem cmp_cc (pid, c) (paused_cc o)) eqn:Hm; [discriminate|]. inversion E; subst o1; clear E.
    destruct (IH _ _ H) as (Hall & Hnd & Hmem & Hp & Ha & Hl & Ham & Hc). cbn [set_paused_cc paused_cc paused_protos paused_actions max_pass amounts counts] in *.
    split; [|split; [|split]].
    + constructor; [auto|]. eapply Forall_impl; [|exact Hall]. cbn. intros c' [H1 H2]. split; [exact H1|].
      rewrite (smem_sins cmp_cc cmp_cc_eq) in H2. apply orb_false_iff in H2 as [_ H2]. exact H2.
    + constructor; [|exact Hnd]. intros Hin. rewrite Forall_forall in Hall. destruct (Hall _ Hin) as [_ H2].
      rewrite (smem_sins cmp_cc cmp_cc_eq), (keqb_refl cmp_cc cmp_cc_eq) in H2. discriminate.
    + intros k. rewrite Hmem, (smem_sins cmp_cc cmp_cc_eq). cbn [existsb].
      destruct (keqb cmp_cc k (pid, c)); destruct (existsb _ r); reflexivity.
    + auto.
Qed.

Lemma unpause_cc_batch pid ids : forall o o',
  fold_res (fun o cp => unpause_cc o pid cp) ids o = Ok o' ->
  Forall (fun c => ccid_valid {| c_proto := pid; c_cp := c |} = true /\ smem cmp_cc (pid, c) (paused_cc o) = true) ids /\
  NoDup ids /\
  (forall k, smem cmp_cc k (paused_cc o') = negb (existsb (fun c => keqb cmp_cc k (pid, c)) ids) && smem cmp_cc k (paused_cc o)) /\
  paused_protos o' = paused_protos o /\ paused_actions o' = paused_actions o /\ max_pass o' = max_pass o /\
  amounts o' = amounts o /\ counts o' = counts o.
Proof.
  induction ids as [|c r IH]; intros o o' H.
  - cbn in H. inversion H; subst. repeat split; try constructor.
  - cbn [fold_res bind] in H. destruct (unpause_cc o pid c) as [o1| |] eqn:E; try discriminate.
    unfold unpause_cc in E. destruct (ccid_valid _) eqn:Hv; [|discriminate]. cbn [negb] in E.
    destruct (smem cmp_cc (pid, c) (paused_cc o)) eqn:Hm; [|discriminate]. inversion E; subst o1; clear E.
    destruct (IH _ _ H) as (Hall & Hnd & Hmem & Hp & Ha & Hl & Ham & Hc). cbn [set_paused_cc paused_cc paused_protos paused_actions max_pass amounts counts] in *.
    split; [|split; [|split]].
    + constructor; [auto|]. eapply Forall_impl; [|exact Hall]. cbn. intros c' [H1 H2]. split; [exact H1|].
      rewrite (smem_srem cmp_cc cmp_cc_eq) in H2. apply andb_true_iff in H2 as [_ H2]. exact H2.
    + constructor; [|exact Hnd]. intros Hin. rewrite Forall_forall in Hall. destruct (Hall _ Hin) as [_ H2].
      rewrite (smem_srem cmp_cc cmp_cc_eq), (keqb_refl cmp_cc cmp_cc_eq) in H2. discriminate.
    + intros k. rewrite Hmem, (smem_srem cmp_cc cmp_cc_eq). cbn [existsb].
      destruct (keqb cmp_cc k (pid, c)); destruct (existsb _ r); destruct (smem cmp_cc k (paused_cc o)); reflexivity.
    + auto.
Qed.

(* ---------- the effect of each successful message ---------- *)
Definition mk_frame (w : world) (o' : ostate) := {| w_o := o'; w_l := w_l w |}.

Theorem msg_pause_protocol cfg w signer name tape w' tr :
  step_msg cfg w signer (MPauseProtocol name) tape = (w', OutMsg 0 tr) ->
  signer = cfg_authority cfg /\ tr = [(CEmit "EventProtocolPaused", true)] /\
  exists pid, protocol_from_string name = Some pid /\ protos_of w pid = false /\
    (forall q, protos_of w' q = keqb cmp_z q pid || protos_of w q) /\ frame w w' true false false false.
Proof.
  intros H. apply step_msg_ok_inv in H as (Hs & o' & s & Hb & -> & ->). split; [exact Hs|].
  cbn [handle_body] in Hb. destruct (protocol_from_string name) as [pid|]; [|discriminate].
  apply with_event_ok in Hb as [Hr Ht]. rewrite Ht. split; [reflexivity|]. exists pid. split; [reflexivity|].
  unfold forwarder_pause in Hr. destruct (negb (protocol_valid pid)); [discriminate|].
  apply pause_protocol_ok in Hr as (_ & Hm & ->). split; [exact Hm|]. split.
  - intros q. unfold protos_of. cbn. apply (smem_sins cmp_z cmp_z_eq).
  - split; cbn; auto; intros; discriminate.
Qed.

Theorem msg_unpause_protocol cfg w signer name tape w' tr :
  step_msg cfg w signer (MUnpauseProtocol name) tape = (w', OutMsg 0 tr) ->
  signer = cfg_authority cfg /\ tr = [(CEmit "EventProtocolUnpaused", true)] /\
  exists pid, protocol_from_string name = Some pid /\ protos_of w pid = true /\
    (forall q, protos_of w' q = negb (keqb cmp_z q pid) && protos_of w q) /\ frame w w' true false false false.
Proof.
  intros H. apply step_msg_ok_inv in H as (Hs & o' & s & Hb & -> & ->). split; [exact Hs|].
  cbn [handle_body] in Hb. destruct (protocol_from_string name) as [pid|]; [|discriminate].
  apply with_event_ok in Hb as [Hr Ht]. rewrite Ht. split; [reflexivity|]. exists pid. split; [reflexivity|].
  unfold forwarder_unpause in Hr. destruct (negb (protocol_valid pid)); [discriminate|].
  apply unpause_protocol_ok in Hr as (_ & Hm & ->). split; [exact Hm|]. split.
  - intros q. unfold protos_of. cbn. apply (smem_srem cmp_z cmp_z_eq).
  - split; cbn; auto; intros; discriminate.
Qed.

(* a batch is applied entirely (or, by [step_msg_refused], not at all): on success every identifier
   was valid, new and distinct from the others, at most 100 of them, and the new set is the old one
   plus exactly the batch; an empty batch addresses the protocol itself *)
Theorem msg_pause_cc cfg w signer name ids tape w' tr :
  step_msg cfg w signer (MPauseCC name ids) tape = (w', OutMsg 0 tr) ->
  signer = cfg_authority cfg /\ tr = [(CEmit "EventCrossChainsPaused", true)] /\
  exists pid, protocol_from_string name = Some pid /\ Z.of_nat (length ids) <= max_target_counterparties /\
    match ids with
    | [] => protos_of w pid = false /\ (forall q, protos_of w' q = keqb cmp_z q pid || protos_of w q) /\
            frame w w' true false false false
    | _ => Forall (fun c => valid_counterparty c pid = true /\ cc_of w (pid, c) = false) ids /\ NoDup ids /\
           (forall k, cc_of w' k = existsb (fun c => keqb cmp_cc k (pid, c)) ids || cc_of w k) /\
           frame w w' false true false false
    end.
Proof.
  intros H. apply step_msg_ok_inv in H as (Hs & o' & s & Hb & -> & ->). split; [exact Hs|].
  cbn [handle_body] in Hb. destruct (protocol_from_string name) as [pid|]; [|discriminate].
  destruct (max_target_counterparties <? Z.of_nat (length ids)) eqn:Hn; [discriminate|]. apply Z.ltb_ge in Hn.
  apply with_event_ok in Hb as [Hr Ht]. rewrite Ht. split; [reflexivity|]. exists pid. split; [reflexivity|]. split; [exact Hn|].
  unfold forwarder_pause in Hr. destruct (negb (protocol_valid pid)); [discriminate|].
  destruct ids as [|c r].
  - apply pause_protocol_ok in Hr as (_ & Hm & ->). split; [exact Hm|]. split.
    + intros q. unfold protos_of. cbn. apply (smem_sins cmp_z cmp_z_eq).
    + split; cbn; auto; intros; discriminate.
  - destruct (forallb (fun s0 => valid_counterparty s0 pid) (c :: r)) eqn:Hv; [|discriminate].
    apply pause_cc_batch in Hr as (Hall & Hnd & Hmem & Hp & Ha & Hl & Ham & Hc).
    split; [|split; [exact Hnd|split; [exact Hmem|]]].
    + rewrite forallb_forall in Hv. rewrite Forall_forall in *. intros x Hin. split; [apply Hv; exact Hin|apply Hall; exact Hin].
    + split; cbn; auto; intros; discriminate.
Qed.

Theorem msg_unpause_cc cfg w signer name ids tape w' tr :
  step_msg cfg w signer (MUnpauseCC name ids) tape = (w', OutMsg 0 tr) ->
  signer = cfg_authority cfg /\ tr = [(CEmit "EventCrossChainsUnpaused", true)] /\
  exists pid, protocol_from_string name = Some pid /\ Z.of_nat (length ids) <= max_target_counterparties /\
    match ids with
    | [] => protos_of w pid = true /\ (forall q, protos_of w' q = negb (keqb cmp_z q pid) && protos_of w q) /\
            frame w w' true false false false
    | _ => Forall (fun c => valid_counterparty c pid = true /\ cc_of w (pid, c) = true) ids /\ NoDup ids /\
           (forall k, cc_of w' k = negb (existsb (fun c => keqb cmp_cc k (pid, c)) ids) && cc_of w k) /\
           frame w w' false true false false
    end.
Proof.
  intros H. apply step_msg_ok_inv in H as (Hs & o' & s & Hb & -> & ->). split; [exact Hs|].
  cbn [handle_body] in Hb. destruct (protocol_from_string name) as [pid|]; [|discriminate].
  destruct (max_target_counterparties <? Z.of_nat (length ids)) eqn:Hn; [discriminate|]. apply Z.ltb_ge in Hn.
  apply with_event_ok in Hb as [Hr Ht]. rewrite Ht. split; [reflexivity|]. exists pid. split; [reflexivity|]. split; [exact Hn|].
  unfold forwarder_unpause in Hr. destruct (negb (protocol_valid pid)); [discriminate|].
  destruct ids as [|c r].
  - apply unpause_protocol_ok in Hr as (_ & Hm & ->). split; [exact Hm|]. split.
    + intros q. unfold protos_of. cbn. apply (smem_srem cmp_z cmp_z_eq).
    + split; cbn; auto; intros; discriminate.
  - destruct (forallb (fun s0 => valid_counterparty s0 pid) (c :: r)) eqn:Hv; [|discriminate].
    apply unpause_cc_batch in Hr as (Hall & Hnd & Hmem & Hp & Ha & Hl & Ham & Hc).
    split; [|split; [exact Hnd|split; [exact Hmem|]]].
    + rewrite forallb_forall in Hv. rewrite Forall_forall in *. intros x Hin. split; [apply Hv; exact Hin|apply Hall; exact Hin].
    + split; cbn; auto; intros; discriminate.
Qed.

Theorem msg_pause_action cfg w signer name tape w' tr :
  step_msg cfg w signer (MPauseAction name) tape = (w', OutMsg 0 tr) ->
  signer = cfg_authority cfg /\ tr = [(CEmit "EventPaused", true)] /\
  exists aid, action_from_string name = Some aid /\ actions_of w aid = false /\
    (forall q, actions_of w' q = keqb cmp_z q aid || actions_of w q) /\ frame w w' false false true false.
Proof.
  intros H. apply step_msg_ok_inv in H as (Hs & o' & s & Hb & -> & ->). split; [exact Hs|].
  cbn [handle_body] in Hb. destruct (action_from_string name) as [aid|]; [|discriminate].
  apply with_event_ok in Hb as [Hr Ht]. rewrite Ht. split; [reflexivity|]. exists aid. split; [reflexivity|].
  apply pause_action_ok in Hr as (_ & Hm & ->). split; [exact Hm|]. split.
  - intros q. unfold actions_of. cbn. apply (smem_sins cmp_z cmp_z_eq).
  - split; cbn; auto; intros; discriminate.
Qed.

Theorem msg_unpause_action cfg w signer name tape w' tr :
  step_msg cfg w signer (MUnpauseAction name) tape = (w', OutMsg 0 tr) ->
  signer = cfg_authority cfg /\ tr = [(CEmit "EventUnpaused", true)] /\
  exists aid, action_from_string name = Some aid /\ actions_of w aid = true /\
    (forall q, actions_of w' q = negb (keqb cmp_z q aid) && actions_of w q) /\ frame w w' false false true false.
Proof.
  intros H. apply step_msg_ok_inv in H as (Hs & o' & s & Hb & -> & ->). split; [exact Hs|].
  cbn [handle_body] in Hb. destruct (action_from_string name) as [aid|]; [|discriminate].
  apply with_event_ok in Hb as [Hr Ht]. rewrite Ht. split; [reflexivity|]. exists aid. split; [reflexivity|].
  apply unpause_action_ok in Hr as (_ & Hm & ->). split; [exact Hm|]. split.
  - intros q. unfold actions_of. cbn. apply (smem_srem cmp_z cmp_z_eq).
  - split; cbn; auto; intros; discriminate.
Qed.

Theorem msg_update_params cfg w signer max tape :
  step_msg cfg w signer (MUpdateParams max) tape =
    if String.eqb signer (cfg_authority cfg)
    then ({| w_o := set_max_pass (w_o w) (Some max); w_l := w_l w |}, OutMsg 0 [])
    else (w, OutMsg 1 []).
Proof. unfold step_msg, handle_msg. destruct (String.eqb signer (cfg_authority cfg)); reflexivity. Qed.

(* C05: the deposit replacement reaches CCTP with exactly the message's fields and the orbiter as owner *)
Theorem msg_replace cfg w signer om oa nc nr tape :
  signer = cfg_authority cfg -> existsb (Z.eqb protocol_cctp) (cfg_fwd_routes cfg) = true ->
  exists v : bool, snd (step_msg cfg w signer (MReplaceDFB om oa nc nr) tape) =
              OutMsg (if v then 0%nat else 1%nat) [(CCctpReplace (cfg_orbiter_bech cfg) om oa nc nr, v)] /\
            fst (step_msg cfg w signer (MReplaceDFB om oa nc nr) tape) = w.
Proof.
  intros -> Hr. unfold step_msg, handle_msg. rewrite String.eqb_refl. cbn [handle_body]. rewrite Hr. cbn [negb].
  unfold mbind, mext, ext. cbn [ps_tape]. destruct tape as [|v r]; [exists true|exists v; destruct v]; cbn; destruct w; auto.
Qed.

(* ---------- C08 / C09 / C18: the queries report exactly the sets ---------- *)
Theorem query_answers o :
  (forall name pid, protocol_from_string name = Some pid ->
     run_query o (QIsProtocolPaused name) = Ok (ABool (smem cmp_z pid (paused_protos o)))) /\
  run_query o QPausedProtocols = Ok (AIds (paused_protos o)) /\
  (forall name pid cp, protocol_from_string name = Some pid -> ccid_valid {| c_proto := pid; c_cp := cp |} = true ->
     run_query o (QIsCCPaused name cp) = Ok (ABool (smem cmp_cc (pid, cp) (paused_cc o)))) /\
  (forall name pid, protocol_from_string name = Some pid ->
     exists l, run_query o (QPausedCC name) = Ok (AStrs l) /\ forall cp, In cp l <-> In (pid, cp) (paused_cc o)) /\
  (forall name aid, action_from_string name = Some aid ->
     run_query o (QIsActionPaused name) = Ok (ABool (smem cmp_z aid (paused_actions o)))) /\
  run_query o QPausedActions = Ok (AIds (paused_actions o)) /\
  run_query o QParams = Ok (ANum (pass_limit o)).
Proof.
  repeat split.
  - intros name pid H. cbn. rewrite H. reflexivity.
  - intros name pid cp H Hv. cbn. rewrite H, Hv. reflexivity.
  - intros name pid H. cbn. rewrite H. eexists. split; [reflexivity|]. intros cp. rewrite in_map_iff. split.
    + intros ([q c] & Hc & Hin). cbn in Hc. subst c. apply filter_In in Hin as [Hin Hq]. cbn in Hq. apply Z.eqb_eq in Hq. subst q. exact Hin.
    + intros Hin. exists (pid, cp). split; [reflexivity|]. apply filter_In. split; [exact Hin|]. cbn. apply Z.eqb_refl.
  - intros name aid H. cbn. rewrite H. reflexivity.
Qed.
