(* C19: what the model can carry about determinism - ordered stores are canonical (their content does
   not remember the order of the writes), so equal contents export identically. *)
From Coq Require Import String Ascii List ZArith Bool Lia Sorted.
From Orbiter Require Import Lib.Str Lib.Res Gen.Constants Model.Ids Model.State Model.Genesis
     Proofs.SetProofs Proofs.StatsProofs Proofs.OrderTheory Proofs.GenesisProofs Proofs.PageProofs.
Import ListNotations.
Open Scope Z_scope.
Open Scope list_scope.

Section Canonical.
  Context {K V : Type} (cmp : K -> K -> comparison).
  Hypothesis O : order cmp.

  Lemma mget_below k (m : list (K * V)) : Forall (fun e => lt cmp k (fst e)) m -> mget cmp k m = None.
  Proof.
    induction 1 as [|[k0 v0] t Hk _ IH]; [reflexivity|]. cbn [mget fst] in *. unfold keqb. unfold lt in Hk. rewrite Hk. exact IH.
  Qed.

  Lemma sorted_heads k v (t : list (K * V)) : msorted cmp ((k, v) :: t) -> Forall (fun e => lt cmp k (fst e)) t /\ msorted cmp t.
  Proof.
    unfold msorted. cbn [map fst]. intros H. inversion H as [|? ? Ht Hall]; subst. split; [|exact Ht].
    apply Forall_forall. intros e He. rewrite Forall_forall in Hall. apply Hall. apply in_map. exact He.
  Qed.

  Lemma mget_head k v (t : list (K * V)) : mget cmp k ((k, v) :: t) = Some v.
  Proof. cbn [mget]. unfold keqb. rewrite (proj2 (o_eq _ O k k) eq_refl). reflexivity. Qed.

  (* two sorted maps with the same lookups are the same list *)
  Theorem msorted_ext (m1 m2 : list (K * V)) :
    msorted cmp m1 -> msorted cmp m2 -> (forall k, mget cmp k m1 = mget cmp k m2) -> m1 = m2.
  Proof.
    revert m2. induction m1 as [|[k1 v1] t1 IH]; intros m2 H1 H2 Hext.
    - destruct m2 as [|[k2 v2] t2]; [reflexivity|]. specialize (Hext k2). rewrite mget_head in Hext. discriminate.
    - destruct m2 as [|[k2 v2] t2]; [specialize (Hext k1); rewrite mget_head in Hext; discriminate|].
      destruct (sorted_heads _ _ _ H1) as [Hb1 Hs1]. destruct (sorted_heads _ _ _ H2) as [Hb2 Hs2].
      destruct (cmp k1 k2) eqn:E.
      + apply (o_eq _ O) in E. subst k2.
        pose proof (Hext k1) as Hv. rewrite !mget_head in Hv. inversion Hv; subst v2. f_equal.
        apply IH; [exact Hs1|exact Hs2|]. intros k. specialize (Hext k). cbn [mget] in Hext.
        destruct (keqb cmp k k1) eqn:Ek; [|exact Hext].
        apply (keqb_eq cmp O) in Ek. subst k. rewrite (mget_below k1 t1 Hb1), (mget_below k1 t2 Hb2). reflexivity.
      + exfalso. specialize (Hext k1). rewrite mget_head in Hext.
        assert (Hn : mget cmp k1 ((k2, v2) :: t2) = None).
        { apply mget_below. constructor; [exact E|]. eapply Forall_impl; [|exact Hb2]. intros e He. eapply (o_trans _ O); eauto. }
        congruence.
      + exfalso. specialize (Hext k2). rewrite mget_head in Hext.
        assert (E' : cmp k2 k1 = Lt) by (rewrite (o_anti _ O k1 k2), E; reflexivity).
        assert (Hn : mget cmp k2 ((k1, v1) :: t1) = None).
        { apply mget_below. constructor; [exact E'|]. eapply Forall_impl; [|exact Hb1]. intros e He. eapply (o_trans _ O); eauto. }
        congruence.
  Qed.

  (* writes under different keys commute: the store does not remember their order *)
  Theorem mset_comm (k1 k2 : K) (v1 v2 : V) (m : list (K * V)) :
    msorted cmp m -> k1 <> k2 -> mset cmp k1 v1 (mset cmp k2 v2 m) = mset cmp k2 v2 (mset cmp k1 v1 m).
  Proof.
    intros Hs Hne. apply msorted_ext; try (repeat apply (mset_sorted cmp O); exact Hs).
    intros k. rewrite !(mget_mset cmp (o_eq _ O)).
    destruct (keqb cmp k k1) eqn:E1, (keqb cmp k k2) eqn:E2; try reflexivity.
    apply (keqb_eq cmp O) in E1, E2. congruence.
  Qed.
  (* a later write under the same key wins, whatever was there *)
  Theorem mset_overwrite (k : K) (v1 v2 : V) (m : list (K * V)) :
    msorted cmp m -> mset cmp k v2 (mset cmp k v1 m) = mset cmp k v2 m.
  Proof.
    intros Hs. apply msorted_ext; try (repeat apply (mset_sorted cmp O); exact Hs).
    intros k'. rewrite !(mget_mset cmp (o_eq _ O)). destruct (keqb cmp k' k); reflexivity.
  Qed.
End Canonical.

(* two module states with the same recorded totals, counts, paused sets and limit export the same genesis *)
Theorem same_content_same_export o1 o2 :
  Inv o1 -> Inv o2 ->
  (forall k, mget cmp_ak k (amounts o1) = mget cmp_ak k (amounts o2)) ->
  (forall k, mget cmp_ck k (counts o1) = mget cmp_ck k (counts o2)) ->
  paused_protos o1 = paused_protos o2 -> paused_cc o1 = paused_cc o2 -> paused_actions o1 = paused_actions o2 ->
  max_pass o1 = max_pass o2 ->
  export_genesis o1 = export_genesis o2.
Proof.
  intros I1 I2 Ha Hc Hp Hcc Hac Hm.
  assert (Ea : amounts o1 = amounts o2) by (apply (msorted_ext cmp_ak order_ak); [apply I1|apply I2|exact Ha]).
  assert (Ec : counts o1 = counts o2) by (apply (msorted_ext cmp_ck order_ck); [apply I1|apply I2|exact Hc]).
  unfold export_genesis. rewrite Ea, Ec, Hp, Hcc, Hac, Hm. reflexivity.
Qed.
