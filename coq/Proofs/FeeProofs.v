From Coq Require Import String List ZArith Bool Lia.
From Orbiter Require Import Lib.Str Lib.Res Gen.Constants Model.Env Model.Fee.
Import ListNotations.
Open Scope string_scope.
Open Scope list_scope.
Open Scope Z_scope.

Lemma bps_normalizer_pos : 0 < bps_normalizer.
Proof. reflexivity. Qed.

(* ---------- declarative specification ---------- *)

(* the amount entry [f] asks for when applied to [A]: floor(A*bps/N), or the stated amount *)
Definition spec_fee (e : env) (A : Z) (f : fee_info) : Z :=
  match fi_type f with
  | Some (FBps v) => if 0 <? A * v then A * v / bps_normalizer else 0
  | Some (FAmount s) => match e_parse_int e s with Some v => v | None => 0 end
  | _ => 0
  end.

Definition spec_fee_o e A (o : option fee_info) : Z :=
  match o with Some f => spec_fee e A f | None => 0 end.

Definition spec_total e A (infos : list (option fee_info)) : Z :=
  fold_right (fun o acc => spec_fee_o e A o + acc) 0 infos.

(* the credited list: entries with a positive fee, in payload order *)
Fixpoint spec_credits e A (infos : list (option fee_info)) : list (string * Z) :=
  match infos with
  | [] => []
  | Some f :: r =>
      if 0 <? spec_fee e A f then (acct_of e (fi_recipient f), spec_fee e A f) :: spec_credits e A r
      else spec_credits e A r
  | None :: r => spec_credits e A r
  end.

(* no basis-point product leaves the 256-bit range *)
Definition products_fit (A : Z) (infos : list (option fee_info)) : Prop :=
  forall f v, In (Some f) infos -> fi_type f = Some (FBps v) -> int_fits (A * v) = true.

Lemma spec_fee_nonneg e A f : fee_info_valid e (Some f) = true -> 0 <= spec_fee e A f.
Proof.
  unfold fee_info_valid, spec_fee. destruct (fi_type f) as [[v| |s|]|]; cbn; try discriminate.
  - intros _. destruct (0 <? A * v) eqn:E; [|lia].
    apply Z.ltb_lt in E. apply Z.div_pos; [lia | apply bps_normalizer_pos].
  - destruct (e_parse_int e s) as [v|]; [|discriminate].
    intros H. apply andb_true_iff in H as [H _]. apply Z.ltb_lt in H. lia.
Qed.

Lemma spec_total_cons e A o r :
  spec_total e A (o :: r) = spec_fee_o e A o + spec_total e A r.
Proof. reflexivity. Qed.

Lemma spec_total_nonneg e A infos :
  forallb (fee_info_valid e) infos = true -> 0 <= spec_total e A infos.
Proof.
  induction infos as [|o r IH]; intros H.
  - cbv. discriminate.
  - cbn [forallb] in H. apply andb_true_iff in H as [Ho Hr].
    specialize (IH Hr). destruct o as [f|]; [|discriminate Ho].
    pose proof (spec_fee_nonneg e A f Ho) as Hf.
    rewrite spec_total_cons. cbn [spec_fee_o]. lia.
Qed.

Lemma fee_of_spec e A f :
  fee_info_valid e (Some f) = true ->
  fee_of e A f = match fi_type f with
                 | Some (FBps v) => if int_fits (A * v) then Ok (spec_fee e A f) else Err "fee: multiplication overflow"
                 | _ => Ok (spec_fee e A f)
                 end.
Proof.
  unfold fee_info_valid, fee_of, spec_fee, compute_fee_amount.
  destruct (fi_type f) as [[v| |s|]|]; cbn; try discriminate; intros H.
  - destruct (int_fits (A * v)); [|reflexivity]. destruct (0 <? A * v); reflexivity.
  - destruct (e_parse_int e s); [reflexivity|discriminate].
Qed.

(* ---------- the fold computes the specification ---------- *)

Lemma compute_fees_ok_inv ovf e A infos acc total credits t :
  forallb (fee_info_valid e) infos = true ->
  (forall x, ovf <> Ok x) ->
  compute_fees_with ovf e A infos acc total = Ok (credits, t) ->
  credits = rev acc ++ spec_credits e A infos /\
  t = total + spec_total e A infos /\
  products_fit A infos /\
  (0 <= total -> int_fits total = true -> int_fits t = true).
Proof.
  intros Hv Hovf. revert acc total Hv.
  induction infos as [|o r IH]; intros acc total Hv H.
  - cbn in H. inversion H; subst. cbn. rewrite app_nil_r.
    repeat split; try lia; try (intros f v []); auto.
  - cbn in Hv. apply andb_true_iff in Hv as [Ho Hr].
    destruct o as [f|]; [|discriminate].
    cbn [compute_fees_with] in H. rewrite (fee_of_spec e A f Ho) in H.
    pose proof (spec_fee_nonneg e A f Ho) as Hnn.
    assert (Hstep : forall fee, fee = spec_fee e A f ->
      (if 0 <? fee
       then if int_fits (total + fee)
            then compute_fees_with ovf e A r ((acct_of e (fi_recipient f), fee) :: acc) (total + fee)
            else ovf
       else compute_fees_with ovf e A r acc total) = Ok (credits, t) ->
      credits = rev acc ++ spec_credits e A (Some f :: r) /\
      t = total + spec_total e A (Some f :: r) /\
      (0 <= total -> int_fits total = true -> int_fits t = true) /\ products_fit A r).
    { intros fee -> H'. rewrite spec_total_cons. cbn [spec_credits spec_fee_o].
      destruct (0 <? spec_fee e A f) eqn:Epos.
      - destruct (int_fits (total + spec_fee e A f)) eqn:Efit; [|exfalso; eapply Hovf; exact H'].
        destruct (IH _ _ Hr H') as (Hc & Ht & Hp & Hf).
        cbn [rev] in Hc. rewrite <- app_assoc in Hc. cbn in Hc.
        split; [exact Hc|]. split; [lia|]. split; [|exact Hp].
        intros H0 _. apply Hf; [lia | exact Efit].
      - destruct (IH _ _ Hr H') as (Hc & Ht & Hp & Hf).
        apply Z.ltb_ge in Epos. split; [exact Hc|]. split; [lia|]. split; [exact Hf|exact Hp]. }
    assert (Hfin : forall (P : Prop), 
      (credits = rev acc ++ spec_credits e A (Some f :: r) /\
       t = total + spec_total e A (Some f :: r) /\
       (0 <= total -> int_fits total = true -> int_fits t = true) /\ products_fit A r) ->
      (forall v, fi_type f = Some (FBps v) -> int_fits (A * v) = true) ->
      credits = rev acc ++ spec_credits e A (Some f :: r) /\
      t = total + spec_total e A (Some f :: r) /\
      products_fit A (Some f :: r) /\
      (0 <= total -> int_fits total = true -> int_fits t = true)).
    { intros _ (Hc & Ht & Hf & Hp) Hv1. repeat split; try assumption.
      intros f' v' [Hin|Hin] Hty; [inversion Hin; subst f'; eauto | eapply Hp; eauto]. }
    destruct (fi_type f) as [[v| |s|]|] eqn:Ety.
    + destruct (int_fits (A * v)) eqn:Efit; [|discriminate H].
      cbn [bind] in H. apply (Hfin True); [apply (Hstep _ eq_refl H)|].
      intros v' E. inversion E; subst; exact Efit.
    + cbn [bind] in H. apply (Hfin True); [apply (Hstep _ eq_refl H)| intros v' E; discriminate E].
    + cbn [bind] in H. apply (Hfin True); [apply (Hstep _ eq_refl H)| intros v' E; discriminate E].
    + cbn [bind] in H. apply (Hfin True); [apply (Hstep _ eq_refl H)| intros v' E; discriminate E].
    + cbn [bind] in H. apply (Hfin True); [apply (Hstep _ eq_refl H)| intros v' E; discriminate E].
Qed.

Lemma int_fits_mono a b : 0 <= a <= b -> int_fits b = true -> int_fits a = true.
Proof. unfold int_fits. intros H Hb. apply Z.ltb_lt in Hb. apply Z.ltb_lt. lia. Qed.

Lemma compute_fees_complete ovf e A infos acc total :
  forallb (fee_info_valid e) infos = true ->
  products_fit A infos ->
  0 <= total ->
  int_fits (total + spec_total e A infos) = true ->
  compute_fees_with ovf e A infos acc total =
  Ok (rev acc ++ spec_credits e A infos, total + spec_total e A infos).
Proof.
  revert acc total. induction infos as [|o r IH]; intros acc total Hv Hp H0 Hfit.
  - cbn. rewrite app_nil_r, Z.add_0_r. reflexivity.
  - cbn in Hv. apply andb_true_iff in Hv as [Ho Hr].
    destruct o as [f|]; [|discriminate].
    pose proof (spec_fee_nonneg e A f Ho) as Hnn.
    pose proof (spec_total_nonneg e A r Hr) as Hrn.
    assert (Hpr : products_fit A r) by (intros f' v' Hin; apply Hp; right; exact Hin).
    cbn [compute_fees_with]. rewrite (fee_of_spec e A f Ho).
    assert (Hfee : (match fi_type f with
                    | Some (FBps v) => if int_fits (A * v) then Ok (spec_fee e A f) else Err "fee: multiplication overflow"
                    | _ => Ok (spec_fee e A f) end) = Ok (spec_fee e A f)).
    { destruct (fi_type f) as [[v| |s|]|] eqn:Ety; try reflexivity.
      rewrite (Hp f v (or_introl eq_refl) Ety). reflexivity. }
    rewrite Hfee. rewrite spec_total_cons in *. cbn [bind spec_credits spec_fee_o] in *.
    destruct (0 <? spec_fee e A f) eqn:Epos.
    + assert (Hfit1 : int_fits (total + spec_fee e A f) = true).
      { eapply int_fits_mono; [|exact Hfit]. lia. }
      rewrite Hfit1. rewrite IH; try assumption; try lia.
      * cbn [rev]. rewrite <- app_assoc. cbn [app]. f_equal. f_equal. lia.
      * rewrite <- Z.add_assoc. exact Hfit.
    + apply Z.ltb_ge in Epos. assert (spec_fee e A f = 0) by lia.
      rewrite IH; try assumption.
      * f_equal. f_equal. lia.
      * replace (total + spec_total e A r) with (total + (spec_fee e A f + spec_total e A r)) by lia. exact Hfit.
Qed.

(* ---------- the plan ---------- *)

Theorem fee_plan_exact e A infos credits fwd :
  fee_plan e A infos = Ok (credits, fwd) ->
  fee_attrs_valid e infos = true /\
  credits = spec_credits e A infos /\
  fwd = A - spec_total e A infos /\
  0 < fwd /\
  products_fit A infos.
Proof.
  unfold fee_plan, fee_plan_with. destruct (fee_attrs_valid e infos) eqn:Hv; [|discriminate].
  pose proof Hv as Hv'. unfold fee_attrs_valid in Hv'. apply andb_true_iff in Hv' as [_ Hall].
  destruct (compute_fees_with _ e A infos [] 0) as [[cr t]| |] eqn:Hc; cbn [bind]; try discriminate.
  destruct (A <=? t) eqn:Ele; [discriminate|]. intros H. inversion H; subst credits fwd. clear H.
  apply compute_fees_ok_inv in Hc; [|exact Hall|discriminate].
  destruct Hc as (Hcr & Ht & Hp & _). cbn in Hcr, Ht. apply Z.leb_gt in Ele.
  repeat split; try assumption; lia.
Qed.

Theorem fee_plan_accept_iff e A infos :
  0 < A -> int_fits A = true ->
  (is_ok (fee_plan e A infos) = true <->
   fee_attrs_valid e infos = true /\ products_fit A infos /\ spec_total e A infos < A).
Proof.
  intros HA HAfit. split.
  - destruct (fee_plan e A infos) as [[cr fwd]| |] eqn:H; try discriminate. intros _.
    apply fee_plan_exact in H as (Hv & _ & Hf & Hpos & Hp). repeat split; try assumption. lia.
  - intros (Hv & Hp & Hlt). unfold fee_plan, fee_plan_with. rewrite Hv.
    pose proof Hv as Hv'. unfold fee_attrs_valid in Hv'. apply andb_true_iff in Hv' as [_ Hall].
    pose proof (spec_total_nonneg e A infos Hall) as Hnn.
    rewrite compute_fees_complete; try assumption; try lia.
    + cbn [bind]. replace (A <=? 0 + spec_total e A infos) with false; [reflexivity|].
      symmetry. apply Z.leb_gt. lia.
    + eapply int_fits_mono; [|exact HAfit]. lia.
Qed.

(* refusals are errors, never panics, and never an acceptance *)
Theorem fee_plan_never_panics e A infos : is_panic (fee_plan e A infos) = false.
Proof.
  unfold fee_plan, fee_plan_with. destruct (fee_attrs_valid e infos) eqn:Hv; [|reflexivity].
  unfold fee_attrs_valid in Hv. apply andb_true_iff in Hv as [_ Hall].
  assert (G : forall acc total, is_panic (compute_fees_with (Err "fee: total overflow") e A infos acc total) = false).
  { induction infos as [|o r IH]; intros acc total; [reflexivity|].
    cbn in Hall. apply andb_true_iff in Hall as [Ho Hr]. destruct o as [f|]; [|discriminate].
    cbn [compute_fees_with]. rewrite (fee_of_spec e A f Ho).
    destruct (fi_type f) as [[v| |s|]|]; try destruct (int_fits (A * v)); cbn [bind]; try reflexivity;
      destruct (0 <? spec_fee e A f); try destruct (int_fits (total + spec_fee e A f)); try reflexivity; apply IH; exact Hr. }
  specialize (G [] 0). destruct (compute_fees_with _ e A infos [] 0) as [[cr t]| |]; cbn [bind]; try reflexivity; try discriminate.
  destruct (A <=? t); reflexivity.
Qed.

Theorem spec_fee_bounds e A f :
  0 < A -> fee_info_valid e (Some f) = true ->
  match fi_type f with
  | Some (FBps v) => 0 <= spec_fee e A f <= A /\ spec_fee e A f = A * v / bps_normalizer
  | Some (FAmount s) => exists n, e_parse_int e s = Some n /\ 0 < n /\ spec_fee e A f = n
  | _ => False
  end.
Proof.
  intros HA. unfold fee_info_valid, spec_fee.
  destruct (fi_type f) as [[v| |s|]|]; cbn; try discriminate.
  - intros H. apply andb_true_iff in H as [H _]. apply andb_true_iff in H as [H0 H1].
    apply Z.ltb_lt in H0. apply Z.leb_le in H1.
    pose proof bps_normalizer_pos as Hn.
    assert (E : (0 <? A * v) = true) by (apply Z.ltb_lt; nia).
    rewrite E. split; [|reflexivity]. split; [apply Z.div_pos; nia|].
    apply Z.div_le_upper_bound; [lia|]. nia.
  - destruct (e_parse_int e s) as [n|]; [|discriminate]. intros H. apply andb_true_iff in H as [H _].
    apply Z.ltb_lt in H. eauto.
Qed.

Theorem fee_attrs_valid_iff e infos :
  fee_attrs_valid e infos = true <->
  Z.of_nat (length infos) <= max_fee_recipients /\
  forall o, In o infos ->
    exists f, o = Some f /\
      (exists a, e_bech32 e (fi_recipient f) = Some a /\ module_owned a = false) /\
      ((exists v, fi_type f = Some (FBps v) /\ 0 < v <= bps_normalizer) \/
       (exists s n, fi_type f = Some (FAmount s) /\ e_parse_int e s = Some n /\ 0 < n)).
Proof.
  unfold fee_attrs_valid. rewrite andb_true_iff, Z.leb_le, forallb_forall.
  split; intros [Hl H]; split; try exact Hl; intros o Hin; specialize (H o Hin).
  - destruct o as [f|]; [|discriminate]. exists f. split; [reflexivity|].
    unfold fee_info_valid in H. apply andb_true_iff in H as [Ht Hr].
    split.
    + destruct (e_bech32 e (fi_recipient f)) as [a|]; [|discriminate].
      exists a. split; [reflexivity|]. destruct (module_owned a); [discriminate|reflexivity].
    + destruct (fi_type f) as [[v| |s|]|]; try discriminate.
      * left. exists v. apply andb_true_iff in Ht as [H0 H1].
        apply Z.ltb_lt in H0. apply Z.leb_le in H1. auto.
      * right. destruct (e_parse_int e s) as [n|] eqn:Ep; [|discriminate].
        apply Z.ltb_lt in Ht. exists s, n. auto.
  - destruct H as (f & -> & (a & Ha & Hm) & Hty). unfold fee_info_valid. rewrite Ha, Hm. cbn [negb].
    destruct Hty as [(v & -> & Hv) | (s & n & -> & -> & Hn)].
    + replace (0 <? v) with true by (symmetry; apply Z.ltb_lt; lia).
      replace (v <=? bps_normalizer) with true by (symmetry; apply Z.leb_le; lia). reflexivity.
    + replace (0 <? n) with true by (symmetry; apply Z.ltb_lt; lia). reflexivity.
Qed.
