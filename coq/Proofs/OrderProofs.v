(* C06: the dispatcher threads the running coin through the actions in payload order, for ANY table
   of action controllers, and hands the last coin to the forwarder. *)
From Coq Require Import String Ascii List ZArith Bool Lia.
From Orbiter Require Import Lib.Str Lib.Res Gen.Constants Model.Ids Model.Env Model.Fee Model.Denom
     Model.Payload Model.State Model.Pipeline Proofs.PipelineProofs.
Import ListNotations.
Open Scope string_scope.
Open Scope Z_scope.
Open Scope list_scope.

Section AnyControllers.
  (* an arbitrary table: a controller is any function from the action's attributes, the running coin
     and the state (ledger, tape, trace) to a new coin and state, or an error *)
  Variable acts : Z -> option action_ctrl.
  Variable paused : Z -> bool.

  (* one action: validated, not paused, routed by its identifier, run on the coin it is given *)
  Lemma run_action_inv a t s t1 s1 :
    run_action acts paused a t s = POk t1 s1 ->
    exists act ctrl,
      a = Some act /\ action_valid (a_id act) = true /\ a_attrs act <> None /\ tattr_validate t = Ok tt /\
      paused (a_id act) = false /\ acts (a_id act) = Some ctrl /\ ctrl (a_attrs act) t s = POk t1 s1.
  Proof.
    unfold run_action. intros H.
    apply mbind_ok in H as (u1 & s' & H1 & H). apply lift_ok in H1 as [Hv ->].
    apply mbind_ok in H as (u2 & s' & H2 & H). apply lift_ok in H2 as [Ht ->]. destruct u2.
    destruct a as [act|]; [|discriminate]. exists act.
    unfold action_validate in Hv. destruct (action_valid (a_id act)) eqn:Hav; [|discriminate].
    destruct (a_attrs act) as [at0|] eqn:Hat; [|discriminate].
    destruct (paused (a_id act)) eqn:Hp; [discriminate|].
    destruct (acts (a_id act)) as [ctrl|] eqn:Hc; [|discriminate].
    exists ctrl. repeat split; auto. congruence.
  Qed.

  (* the sequence: each action sees the coin and state its predecessor left *)
  Inductive steps : list (option action) -> tattr -> pst -> tattr -> pst -> Prop :=
  | st_nil t s : steps [] t s t s
  | st_cons a r t s t1 s1 t' s' :
      run_action acts paused a t s = POk t1 s1 -> steps r t1 s1 t' s' -> steps (a :: r) t s t' s'.

  Theorem dispatch_is_steps l : forall t s t' s',
    dispatch_actions acts paused l t s = POk t' s' <-> steps l t s t' s'.
  Proof.
    induction l as [|a r IH]; intros t s t' s'; split; intros H.
    - cbn in H. inversion H; subst. constructor.
    - inversion H; subst. reflexivity.
    - cbn [dispatch_actions] in H. apply mbind_ok in H as (t1 & s1 & H1 & H2). econstructor; [exact H1|]. apply IH. exact H2.
    - inversion H; subst. cbn [dispatch_actions]. unfold mbind.
      match goal with Hx : run_action _ _ _ _ _ = POk _ _ |- _ => rewrite Hx end. apply IH. assumption.
  Qed.

  (* order matters and is the list's: appending runs the second list on what the first one left *)
  Theorem dispatch_app l1 l2 t s t' s' :
    dispatch_actions acts paused (l1 ++ l2) t s = POk t' s' <->
    exists tm sm, dispatch_actions acts paused l1 t s = POk tm sm /\ dispatch_actions acts paused l2 tm sm = POk t' s'.
  Proof.
    revert t s. induction l1 as [|a r IH]; intros t s; cbn [app].
    - split; [intros H; exists t, s; split; [reflexivity|exact H]|intros (tm & sm & H1 & H2); inversion H1; subst; exact H2].
    - cbn [dispatch_actions]. unfold mbind. destruct (run_action acts paused a t s) as [t1 s1|l s1|x].
      + apply IH.
      + split; [discriminate|intros (tm & sm & H1 & _); discriminate].
      + split; [discriminate|intros (tm & sm & H1 & _); discriminate].
  Qed.

  (* the body of the receive path, for any table: the forwarder is given exactly the coin the last
     action left, in the state the last action left *)
  Theorem body_forwards_last_coin cfg e lie o p pl f t s t' s1 :
    (forall id, paused id = smem cmp_z id (paused_actions o)) ->
    recv_body repaired cfg acts e lie o p pl f t s = POk t' s1 ->
    exists sa sb,
      ran s sa (sweep_calls (t_ddenom t) (bal (ps_l s) (cfg_orbiter cfg) (t_ddenom t) + lie) ++ [CWrapped])
               (sweep_moves cfg (t_ddenom t) (bal (ps_l s) (cfg_orbiter cfg) (t_ddenom t) + lie) ++ [credit_move cfg p t]) /\
      steps (p_pre pl) t sa t' sb /\
      run_forwarding_with forward_ctrl cfg e lie (pp_of o) (ccp_of o) (Some f) t' sb = POk tt s1.
  Proof.
    intros Hp. unfold recv_body. intros H.
    apply mbind_ok in H as (prior0 & s' & H0 & H). unfold read_balance in H0. inversion H0; subst prior0 s'; clear H0.
    apply mbind_ok in H as (u1 & sa0 & H1 & H).
    apply mbind_ok in H as (u2 & sa & H2 & H).
    apply mbind_ok in H as (t1 & sb & H3 & H).
    apply mbind_ok in H as (u4 & sd & H4 & H). inversion H; subst t1 sd; clear H. destruct u4.
    exists sa, sb. split; [|split].
    - assert (Hsweep : ran s sa0 (sweep_calls (t_ddenom t) (bal (ps_l s) (cfg_orbiter cfg) (t_ddenom t) + lie))
                                 (sweep_moves cfg (t_ddenom t) (bal (ps_l s) (cfg_orbiter cfg) (t_ddenom t) + lie))).
      { unfold sweep_calls, sweep_moves. destruct (0 <? _); [eapply ext_moving_ok; eauto|inversion H1; subst; apply ran_refl]. }
      apply ext_moving_ok in H2. eapply ran_trans; eauto.
    - apply dispatch_is_steps.
      replace (dispatch_actions acts paused (p_pre pl) t sa) with
              (dispatch_actions acts (fun a => smem cmp_z a (paused_actions o)) (p_pre pl) t sa); [exact H3|].
      clear - Hp. revert t sa. induction (p_pre pl) as [|a r IH]; intros t sa; [reflexivity|].
      cbn [dispatch_actions]. unfold mbind.
      assert (E : run_action acts (fun a0 => smem cmp_z a0 (paused_actions o)) a t sa = run_action acts paused a t sa).
      { unfold run_action, mbind. destruct (lift (action_validate a) sa); try reflexivity.
        destruct (lift (tattr_validate t) s); try reflexivity. destruct a as [act|]; [|reflexivity]. rewrite Hp. reflexivity. }
      rewrite E. destruct (run_action acts paused a t sa); try reflexivity. apply IH.
    - exact H4.
  Qed.
End AnyControllers.

(* a payload repeating an action identifier does not validate (so it is refused before any call) *)
Lemma unique_ids_nodup seen l :
  unique_ids_with (Err "action is not set") seen l = Ok tt ->
  exists ids, Forall2 (fun a id => exists act, a = Some act /\ a_id act = id) l ids /\ NoDup ids /\
              forall id, In id ids -> existsb (Z.eqb id) seen = false.
Proof.
  revert seen. induction l as [|a r IH]; intros seen H.
  - exists []. split; [constructor|]. split; [constructor|]. intros id [].
  - destruct a as [act|]; [|discriminate]. cbn [unique_ids_with] in H.
    destruct (existsb (Z.eqb (a_id act)) seen) eqn:E; [discriminate|].
    destruct (IH _ H) as (ids & Hf & Hnd & Hseen). exists (a_id act :: ids). split; [|split].
    + constructor; [eauto|exact Hf].
    + constructor; [|exact Hnd]. intros Hin. specialize (Hseen _ Hin). cbn in Hseen. rewrite Z.eqb_refl in Hseen. discriminate.
    + intros id [<-|Hin]; [exact E|]. specialize (Hseen _ Hin). cbn in Hseen. apply orb_false_iff in Hseen as [_ Hs]. exact Hs.
Qed.

Theorem valid_payload_distinct_ids pl :
  payload_validate pl = Ok tt ->
  exists ids, Forall2 (fun a id => exists act, a = Some act /\ a_id act = id) (p_pre pl) ids /\ NoDup ids.
Proof.
  unfold payload_validate, payload_validate_with.
  destruct (unique_ids_with (Err "action is not set") [] (p_pre pl)) as [[]| |] eqn:H; try discriminate. intros _.
  destruct (unique_ids_nodup _ _ H) as (ids & Hf & Hnd & _). eauto.
Qed.
