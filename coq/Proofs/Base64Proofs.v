(* base64: decoding what the encoder wrote gives the bytes back. *)
From Coq Require Import String Ascii List NArith ZArith Bool Lia.
From Coq Require Import ZifyN ZifyBool.
From Orbiter Require Import Model.Base64.
Import ListNotations.
Open Scope N_scope.
Ltac Zify.zify_post_hook ::= Z.div_mod_to_equations.

Lemma N_of_ascii_lt c : N_of_ascii c < 256.
Proof. apply N_ascii_bounded. Qed.

Lemma of_to n : n < 256 -> N_of_ascii (ascii_of_N n) = n.
Proof. apply N_ascii_embedding. Qed.

Lemma dec_enc_char n : n < 64 -> dec_char (enc_char n) = Some n.
Proof.
  intros Hn. unfold enc_char.
  destruct (N.ltb_spec n 26) as [H1|H1].
  { unfold dec_char. rewrite of_to by lia.
    destruct (N.leb_spec 65 (65 + n)); [|lia]. destruct (N.leb_spec (65 + n) 90); [|lia]. cbn [andb]. f_equal. lia. }
  destruct (N.ltb_spec n 52) as [H2|H2].
  { unfold dec_char. rewrite of_to by lia.
    destruct (N.leb_spec 65 (97 + (n - 26))); [|lia]. destruct (N.leb_spec (97 + (n - 26)) 90); [lia|]. cbn [andb].
    destruct (N.leb_spec 97 (97 + (n - 26))); [|lia]. destruct (N.leb_spec (97 + (n - 26)) 122); [|lia]. cbn [andb]. f_equal. lia. }
  destruct (N.ltb_spec n 62) as [H3|H3].
  { unfold dec_char. rewrite of_to by lia.
    destruct (N.leb_spec 65 (48 + (n - 52))); [lia|]. cbn [andb].
    destruct (N.leb_spec 97 (48 + (n - 52))); [lia|]. cbn [andb].
    destruct (N.leb_spec 48 (48 + (n - 52))); [|lia]. destruct (N.leb_spec (48 + (n - 52)) 57); [|lia]. cbn [andb]. f_equal. lia. }
  destruct (N.eqb_spec n 62) as [->|H4]; [reflexivity|].
  assert (n = 63) as -> by lia. reflexivity.
Qed.

Lemma enc_char_plain n : is_newline (enc_char n) = false.
Proof.
  unfold enc_char, is_newline.
  destruct (N.ltb_spec n 26); [rewrite of_to by lia; lia|].
  destruct (N.ltb_spec n 52); [rewrite of_to by lia; lia|].
  destruct (N.ltb_spec n 62); [rewrite of_to by lia; lia|].
  destruct (N.eqb_spec n 62); reflexivity.
Qed.

Lemma byte_of c : byte (N_of_ascii c) = c.
Proof. unfold byte. rewrite N.mod_small by apply N_of_ascii_lt. apply ascii_N_embedding. Qed.

Lemma encode_plain l : filter (fun c => negb (is_newline c)) (b64_encode_l l) = b64_encode_l l.
Proof.
  assert (H : forall n, (length l <= n)%nat -> filter (fun c => negb (is_newline c)) (b64_encode_l l) = b64_encode_l l).
  { intros n. revert l. induction n as [|n IH]; intros l Hl.
    - destruct l; [reflexivity|cbn [length] in Hl; lia].
    - destruct l as [|x [|y [|z r]]]; [reflexivity| | |].
      + cbn [b64_encode_l filter]. rewrite !enc_char_plain. reflexivity.
      + cbn [b64_encode_l filter]. rewrite !enc_char_plain. reflexivity.
      + cbn [b64_encode_l filter]. rewrite !enc_char_plain. cbn [negb]. rewrite IH; [reflexivity|]. cbn [length] in Hl. lia. }
  apply (H (length l)). lia.
Qed.

Ltac byte_goal := match goal with |- byte _ = ?c => transitivity (byte (N_of_ascii c)); [f_equal; lia | apply byte_of] end.

Lemma decode_encode_l l : b64_decode_l (b64_encode_l l) = Some l.
Proof.
  assert (H : forall n, (length l <= n)%nat -> b64_decode_l (b64_encode_l l) = Some l).
  { intros n. revert l. induction n as [|n IH]; intros l Hl.
    - destruct l; [reflexivity|cbn [length] in Hl; lia].
    - destruct l as [|x [|y [|z r]]]; [reflexivity| | |].
      + pose proof (N_of_ascii_lt x) as Hx. cbn [b64_encode_l b64_decode_l].
        rewrite !dec_enc_char by lia. change (dec_char "=") with (@None N). cbn [is_pad]. change (is_pad "=") with true. cbn [andb].
        f_equal. repeat (apply f_equal2 || f_equal); try byte_goal; try reflexivity.
      + pose proof (N_of_ascii_lt x) as Hx. pose proof (N_of_ascii_lt y) as Hy. cbn [b64_encode_l b64_decode_l].
        rewrite !dec_enc_char by lia. change (dec_char "=") with (@None N). change (is_pad "=") with true. cbv iota.
        f_equal. repeat (apply f_equal2 || f_equal); try byte_goal; try reflexivity.
      + pose proof (N_of_ascii_lt x) as Hx. pose proof (N_of_ascii_lt y) as Hy. pose proof (N_of_ascii_lt z) as Hz.
        cbn [b64_encode_l b64_decode_l]. rewrite !dec_enc_char by lia. rewrite IH by (cbn [length] in Hl; lia).
        f_equal. repeat (apply f_equal2 || f_equal); try byte_goal; try reflexivity. }
  apply (H (length l)). lia.
Qed.

Theorem b64_roundtrip s : b64_decode (b64_encode s) = Some s.
Proof.
  unfold b64_decode, b64_encode. rewrite list_ascii_of_string_of_list_ascii, encode_plain, decode_encode_l.
  rewrite string_of_list_ascii_of_string. reflexivity.
Qed.
