(* Ledgers and fund movements: the balance of an account after a list of moves is its balance
   before plus the net effect of the moves on it. *)
From Coq Require Import String List ZArith Bool Lia.
From Orbiter Require Import Lib.Str Lib.Res Model.State.
Import ListNotations.
Open Scope string_scope.
Open Scope Z_scope.

Definition hit (a d a' d' : string) : bool := String.eqb a' a && String.eqb d' d.

(* net effect of one move on (account a, denom d) *)
Definition net (m : move) (a d : string) : Z :=
  match m with
  | MSend f t d' x => (if hit t d' a d then x else 0) - (if hit f d' a d then x else 0)
  | MBurn f d' x => - (if hit f d' a d then x else 0)
  | MMint t d' x => if hit t d' a d then x else 0
  end.
Definition net_all (ms : list move) (a d : string) : Z := fold_right (fun m acc => net m a d + acc) 0 ms.

(* net effect on the supply of denom d *)
Definition snet (m : move) (d : string) : Z :=
  match m with
  | MSend _ _ _ _ => 0
  | MBurn _ d' x => if String.eqb d d' then - x else 0
  | MMint _ d' x => if String.eqb d d' then x else 0
  end.
Definition snet_all (ms : list move) (d : string) : Z := fold_right (fun m acc => snet m d + acc) 0 ms.

Lemma bal_upd l a d x a' d' :
  bal (upd_bal l a d x) a' d' = bal l a' d' + (if hit a d a' d' then x else 0).
Proof. unfold upd_bal, hit; cbn. destruct (String.eqb a' a && String.eqb d' d); lia. Qed.
Lemma bal_upd_supply l d x a' d' : bal (upd_supply l d x) a' d' = bal l a' d'.
Proof. reflexivity. Qed.
Lemma supply_upd_bal l a d x d' : supply (upd_bal l a d x) d' = supply l d'.
Proof. reflexivity. Qed.
Lemma supply_upd l d x d' : supply (upd_supply l d x) d' = supply l d' + (if String.eqb d' d then x else 0).
Proof. unfold upd_supply; cbn. destruct (String.eqb d' d); lia. Qed.

Lemma bal_apply_move l m a d : bal (apply_move l m) a d = bal l a d + net m a d.
Proof.
  destruct m as [f t d' x | f d' x | t d' x]; cbn [apply_move net];
    rewrite ?bal_upd_supply, ?bal_upd; unfold hit;
    repeat match goal with |- context [if ?b then _ else _] => destruct b end; lia.
Qed.
Lemma supply_apply_move l m d : supply (apply_move l m) d = supply l d + snet m d.
Proof.
  destruct m as [f t d' x | f d' x | t d' x]; cbn [apply_move snet];
    rewrite ?supply_upd, ?supply_upd_bal; try lia;
    repeat match goal with |- context [if ?b then _ else _] => destruct b end; lia.
Qed.

Lemma net_all_cons m ms a d : net_all (m :: ms) a d = net m a d + net_all ms a d.
Proof. reflexivity. Qed.
Lemma snet_all_cons m ms d : snet_all (m :: ms) d = snet m d + snet_all ms d.
Proof. reflexivity. Qed.
Lemma apply_moves_cons l m ms : apply_moves l (m :: ms) = apply_moves (apply_move l m) ms.
Proof. reflexivity. Qed.

Lemma bal_apply_moves ms : forall l a d, bal (apply_moves l ms) a d = bal l a d + net_all ms a d.
Proof.
  induction ms as [|m ms IH]; intros l a d; [cbn; lia|].
  rewrite apply_moves_cons, net_all_cons, IH, bal_apply_move. lia.
Qed.
Lemma supply_apply_moves ms : forall l d, supply (apply_moves l ms) d = supply l d + snet_all ms d.
Proof.
  induction ms as [|m ms IH]; intros l d; [cbn; lia|].
  rewrite apply_moves_cons, snet_all_cons, IH, supply_apply_move. lia.
Qed.

Lemma apply_moves_app l a b : apply_moves l (a ++ b) = apply_moves (apply_moves l a) b.
Proof. unfold apply_moves. apply fold_left_app. Qed.
Lemma net_all_app a b x d : net_all (a ++ b) x d = net_all a x d + net_all b x d.
Proof. induction a as [|m a IH]; [reflexivity|]. rewrite <- app_comm_cons, !net_all_cons, IH. lia. Qed.
Lemma snet_all_app a b d : snet_all (a ++ b) d = snet_all a d + snet_all b d.
Proof. induction a as [|m a IH]; [reflexivity|]. rewrite <- app_comm_cons, !snet_all_cons, IH. lia. Qed.

(* the denomination a move is in *)
Definition move_denom (m : move) : string :=
  match m with MSend _ _ d _ => d | MBurn _ d _ => d | MMint _ d _ => d end.

Lemma net_other_denom m a d : move_denom m <> d -> net m a d = 0.
Proof.
  intros H. destruct m as [f t d' x | f d' x | t d' x]; cbn in *; unfold hit;
    assert (E : String.eqb d d' = false) by (apply String.eqb_neq; congruence);
    rewrite E, ?andb_false_r; lia.
Qed.
Lemma net_all_other_denom ms a d : Forall (fun m => move_denom m = d) ms -> forall d', d' <> d -> net_all ms a d' = 0.
Proof.
  induction 1 as [|m ms Hm _ IH]; intros d' Hd; [reflexivity|].
  rewrite net_all_cons, IH by exact Hd. rewrite net_other_denom; [lia|congruence].
Qed.
Lemma snet_other_denom m d : move_denom m <> d -> snet m d = 0.
Proof.
  intros H. destruct m as [f t d' x | f d' x | t d' x]; cbn in *; try reflexivity;
    assert (E : String.eqb d d' = false) by (apply String.eqb_neq; congruence); rewrite E; reflexivity.
Qed.

(* sends only: supply unchanged *)
Definition is_send (m : move) : bool := match m with MSend _ _ _ _ => true | _ => false end.
Lemma snet_all_sends ms d : forallb is_send ms = true -> snet_all ms d = 0.
Proof.
  induction ms as [|m ms IH]; [reflexivity|]. cbn [forallb]. intros H. apply andb_true_iff in H as [Hm H].
  rewrite snet_all_cons, IH by exact H. destruct m; try discriminate. reflexivity.
Qed.
