(* Consequences of [recv_ok_inv] for the ledger: what a successful orbiter transfer did to the
   orbiter account, to every other account and to the supply. *)
From Coq Require Import String Ascii List ZArith Bool Lia.
From Orbiter Require Import Lib.Str Lib.Res Gen.Constants Model.Ids Model.Env Model.Fee Model.Denom
     Model.Payload Model.State Model.Pipeline Proofs.Ledger Proofs.FeeProofs Proofs.PipelineProofs.
Import ListNotations.
Open Scope string_scope.
Open Scope Z_scope.
Open Scope list_scope.

(* the chain's configuration: the orbiter's two accounts are the generated ones; escrows, the warp
   module account and the dust collector are other accounts than the orbiter's *)
Record wf_cfg (cfg : config) : Prop := {
  wf_orbiter : cfg_orbiter cfg = orbiter_address_hex;
  wf_dust : cfg_dust cfg = dust_collector_address_hex;
  wf_warp : cfg_warp cfg <> cfg_orbiter cfg;
  wf_escrow : forall p c, cfg_escrow cfg p c <> cfg_orbiter cfg;
}.

Lemma dust_not_orbiter : dust_collector_address_hex <> orbiter_address_hex.
Proof. intros H. apply String.eqb_eq in H. vm_compute in H. discriminate. Qed.

Definition sum_credits (credits : list (string * Z)) : Z := fold_right (fun c acc => snd c + acc) 0 credits.

Lemma sum_spec_credits e A infos :
  forallb (fee_info_valid e) infos = true ->
  sum_credits (spec_credits e A infos) = spec_total e A infos /\
  Forall (fun c => 0 < snd c /\ module_owned (fst c) = false) (spec_credits e A infos).
Proof.
  induction infos as [|o r IH]; intros Hv; [split; [reflexivity|constructor]|].
  cbn [forallb] in Hv. apply andb_true_iff in Hv as [Ho Hr]. destruct (IH Hr) as [IHs IHf].
  rewrite spec_total_cons. destruct o as [f|]; [|discriminate]. cbn [spec_credits spec_fee_o].
  pose proof (spec_fee_nonneg e A f Ho) as Hnn.
  destruct (0 <? spec_fee e A f) eqn:Hpos.
  - apply Z.ltb_lt in Hpos. split.
    + unfold sum_credits in *. cbn [fold_right snd]. lia.
    + constructor; [|exact IHf]. cbn [fst snd]. split; [exact Hpos|].
      unfold fee_info_valid in Ho. apply andb_true_iff in Ho as [_ Ho]. unfold acct_of.
      destruct (e_bech32 e (fi_recipient f)) as [a|]; [|discriminate].
      destruct (module_owned a); [discriminate|reflexivity].
  - apply Z.ltb_ge in Hpos. split; [lia|exact IHf].
Qed.

Lemma fee_plan_credits e A infos credits fwd :
  fee_plan e A infos = Ok (credits, fwd) ->
  fwd = A - sum_credits credits /\ 0 < fwd /\
  Forall (fun c => 0 < snd c /\ module_owned (fst c) = false) credits.
Proof.
  intros H. apply fee_plan_exact in H as (Hv & -> & -> & Hpos & _).
  unfold fee_attrs_valid in Hv. apply andb_true_iff in Hv as [_ Hv].
  destruct (sum_spec_credits e A infos Hv) as [Hs Hf]. rewrite Hs. auto.
Qed.

(* ---------- fee steps ---------- *)
Definition fee_move_ok (cfg : config) (d : string) (m : move) : Prop :=
  exists to x, m = MSend (cfg_orbiter cfg) to d x /\ 0 < x /\ module_owned to = false.

Definition moves_total (ms : list move) : Z :=
  fold_right (fun m acc => match m with MSend _ _ _ x => x | MBurn _ _ x => x | MMint _ _ x => x end + acc) 0 ms.

Lemma fee_moves_facts cfg d credits :
  Forall (fun c => 0 < snd c /\ module_owned (fst c) = false) credits ->
  Forall (fee_move_ok cfg d) (fee_moves cfg d credits) /\ moves_total (fee_moves cfg d credits) = sum_credits credits.
Proof.
  induction 1 as [|[to x] r [Hx Hm] _ [IHf IHt]]; [split; [constructor|reflexivity]|].
  cbn [fee_moves map fst snd] in *. split.
  - constructor; [|exact IHf]. exists to, x. auto.
  - unfold moves_total, sum_credits in *. cbn [fold_right snd]. fold (fee_moves cfg d r). lia.
Qed.

Lemma moves_total_app a b : moves_total (a ++ b) = moves_total a + moves_total b.
Proof. induction a as [|m a IH]; [reflexivity|]. unfold moves_total in *. cbn [app fold_right]. lia. Qed.

Lemma set_dest_amt_pos t x : 0 < x -> t_damt (set_dest_amt t x) = x.
Proof. intros H. unfold set_dest_amt; cbn. destruct (x <? 0) eqn:E; [apply Z.ltb_lt in E; lia|reflexivity]. Qed.

Lemma fee_steps_facts cfg e l t t' acalls ams :
  fee_steps cfg e l t t' acalls ams ->
  t_ddenom t' = t_ddenom t /\ t_sdenom t' = t_sdenom t /\ t_samt t' = t_samt t /\ t_sp t' = t_sp t /\ t_sc t' = t_sc t /\
  t_damt t' = t_damt t - moves_total ams /\
  Forall (fee_move_ok cfg (t_ddenom t)) ams.
Proof.
  induction 1 as [t|infos credits fwd rest t t'' calls ms Hplan Hv _ IH].
  - repeat split; try reflexivity; [cbn; lia|constructor].
  - destruct IH as (Hd & Hsd & Hsa & Hsp & Hsc & Ha & Hf).
    apply fee_plan_credits in Hplan as (Hfwd & Hpos & Hcr).
    destruct (fee_moves_facts cfg (t_ddenom t) credits Hcr) as [Hmf Hmt].
    rewrite set_dest_amt_pos in Ha by exact Hpos. cbn [set_dest_amt t_ddenom t_sdenom t_samt t_sp t_sc] in *.
    repeat split; try assumption.
    + rewrite moves_total_app. lia.
    + apply Forall_app. split; [exact Hmf|exact Hf].
Qed.

(* ---------- net effects ---------- *)
Lemma hit_same a d : hit a d a d = true.
Proof. unfold hit. rewrite !String.eqb_refl. reflexivity. Qed.
Lemma hit_other_acct a b d d' : a <> b -> hit a d b d' = false.
Proof. intros H. unfold hit. replace (String.eqb b a) with false; [reflexivity|]. symmetry. apply String.eqb_neq. congruence. Qed.

Lemma module_owned_orbiter : module_owned orbiter_address_hex = true.
Proof. unfold module_owned. rewrite String.eqb_refl. reflexivity. Qed.

Lemma net_fee_moves_orbiter cfg d ams :
  wf_cfg cfg -> Forall (fee_move_ok cfg d) ams ->
  net_all ams (cfg_orbiter cfg) d = - moves_total ams /\ Forall (fun m => move_denom m = d) ams /\ forallb is_send ams = true.
Proof.
  intros Hwf. induction 1 as [|m r (to & x & -> & Hx & Hm) _ (IHn & IHd & IHs)]; [repeat split; constructor|].
  rewrite net_all_cons. unfold moves_total in *. cbn [fold_right net forallb is_send andb].
  assert (to <> cfg_orbiter cfg).
  { intros ->. rewrite (wf_orbiter _ Hwf), module_owned_orbiter in Hm. discriminate. }
  rewrite hit_same, (hit_other_acct to (cfg_orbiter cfg)) by exact H.
  repeat split; [lia | constructor; [reflexivity|exact IHd] | exact IHs].
Qed.

Lemma sweep_moves_net cfg d prior :
  wf_cfg cfg ->
  net_all (sweep_moves cfg d prior) (cfg_orbiter cfg) d = - (if 0 <? prior then prior else 0) /\
  Forall (fun m => move_denom m = d) (sweep_moves cfg d prior) /\ forallb is_send (sweep_moves cfg d prior) = true.
Proof.
  intros Hwf. unfold sweep_moves. destruct (0 <? prior); [|repeat split; constructor].
  rewrite net_all_cons. cbn [net net_all fold_right forallb is_send andb].
  assert (cfg_dust cfg <> cfg_orbiter cfg).
  { rewrite (wf_dust _ Hwf), (wf_orbiter _ Hwf). exact dust_not_orbiter. }
  rewrite hit_same, (hit_other_acct (cfg_dust cfg) (cfg_orbiter cfg)) by exact H.
  repeat split; [lia|repeat constructor].
Qed.

(* ---------- the route's own movement ---------- *)
(* the sink of a route: burned, locked on the warp account, or credited to the internal recipient *)
Inductive route_sink (cfg : config) (e : env) (d : string) (out : Z) : move -> Prop :=
| rs_burn : route_sink cfg e d out (MBurn (cfg_orbiter cfg) d out)
| rs_warp : route_sink cfg e d out (MSend (cfg_orbiter cfg) (cfg_warp cfg) d out)
| rs_internal r : acct_of e r <> cfg_orbiter cfg -> route_sink cfg e d out (MSend (cfg_orbiter cfg) (acct_of e r) d out).

Lemma route_plan_sink cfg e pid a t calls mv :
  route_plan cfg e pid a t = Some (calls, mv) -> route_sink cfg e (t_ddenom t) (t_damt t) mv.
Proof.
  unfold route_plan.
  destruct (pid =? protocol_cctp).
  { destruct a; try discriminate. destruct (is_ok _); [|discriminate]. intros H; inversion H. constructor. }
  destruct (pid =? protocol_hyperlane).
  { destruct a; try discriminate. destruct (_ && _); [|discriminate]. intros H; inversion H. constructor. }
  destruct (pid =? protocol_internal); [|discriminate].
  destruct a as [| |r| |]; try discriminate.
  destruct (is_ok (tattr_validate t)); [|discriminate]. cbn [andb].
  destruct (is_ok (internal_validate false cfg e r)) eqn:Hv; [|discriminate].
  intros H; inversion H. constructor.
  apply is_ok_true in Hv as [u Hv]. unfold internal_validate in Hv. unfold acct_of.
  destruct (String.eqb r ""); [discriminate|].
  destruct (e_bech32 e r) as [x|]; [|discriminate]. cbn [negb andb] in Hv.
  destruct (String.eqb x (cfg_orbiter cfg)) eqn:E; [discriminate|]. apply String.eqb_neq in E. exact E.
Qed.

Lemma route_sink_net cfg e d out mv :
  wf_cfg cfg -> route_sink cfg e d out mv ->
  net mv (cfg_orbiter cfg) d = - out /\ move_denom mv = d.
Proof.
  intros Hwf [| |r Hr]; cbn [net move_denom]; rewrite ?hit_same.
  - split; [lia|reflexivity].
  - rewrite (hit_other_acct (cfg_warp cfg) (cfg_orbiter cfg)) by (apply (wf_warp _ Hwf)). split; [lia|reflexivity].
  - rewrite (hit_other_acct (acct_of e r) (cfg_orbiter cfg)) by exact Hr. split; [lia|reflexivity].
Qed.

(* ---------- what parsing established ---------- *)
Lemma parse_facts e p denom amount pl t :
  parse_orbiter_packet repaired e p denom amount (Ok pl) = Ok (t, pl) ->
  exists amt d,
    e_parse_int e amount = Some amt /\ recover_native_denom denom (pk_sport p) (pk_schan p) = Ok d /\
    payload_validate pl = Ok tt /\ tattr_validate t = Ok tt /\
    t = {| t_sp := protocol_ibc; t_sc := pk_dchan p; t_sdenom := d; t_samt := amt; t_ddenom := d; t_damt := amt |}.
Proof.
  unfold parse_orbiter_packet. cbn [bind v_nil_action repaired v_newcoin_panics andb].
  fold payload_validate.
  destruct (payload_validate pl) as [[]| |] eqn:Hpv; try discriminate. cbn [bind].
  destruct (e_parse_int e amount) as [amt|]; [|discriminate].
  destruct (recover_native_denom denom (pk_sport p) (pk_schan p)) as [d| |]; try discriminate. cbn [bind].
  match goal with |- context [tattr_validate ?x] => destruct (tattr_validate x) as [[]| |] eqn:Hv end; try discriminate.
  cbn [bind]. intros H. inversion H. subst. exists amt, d. repeat split; auto.
Qed.

Lemma tattr_validate_pos t : tattr_validate t = Ok tt -> 0 < t_samt t /\ 0 < t_damt t.
Proof.
  unfold tattr_validate.
  destruct (negb (ccid_valid _)); [discriminate|].
  destruct (negb (coin_valid (t_sdenom t) (t_samt t))); [discriminate|].
  destruct (0 <? t_samt t) eqn:H1; [|discriminate]. cbn [negb].
  destruct (negb (coin_valid (t_ddenom t) (t_damt t))); [discriminate|].
  destruct (0 <? t_damt t) eqn:H2; [|discriminate]. intros _.
  apply Z.ltb_lt in H1, H2. auto.
Qed.

(* ---------- the ledger after a successful transfer ---------- *)
Section Transfer.
  Variables (cfg : config) (e : env) (w : world) (p : packet) (r : recv_result).
  Variables (denom amount sender receiver : string) (pl : payload) (f : forwarding) (t t' : tattr)
            (a : attrs) (cp : string) (acalls fcalls : list call) (ams : list move) (mv : move) (o' : ostate).
  Hypothesis Hwf : wf_cfg cfg.
  Hypothesis T : transfer cfg e w p 0 r denom amount sender receiver pl f t t' a cp acalls fcalls ams mv o'.

  Let orb := cfg_orbiter cfg.
  Let d := t_ddenom t.
  Let prior := bal (w_l w) orb d + 0.
  Let esc := cfg_escrow cfg (pk_dport p) (pk_dchan p).

  Lemma T_steps :
    t_ddenom t' = d /\ t_damt t' = t_damt t - moves_total ams /\ Forall (fee_move_ok cfg d) ams /\
    t_sdenom t' = t_sdenom t /\ t_samt t' = t_samt t /\ t_sp t' = t_sp t /\ t_sc t' = t_sc t.
  Proof.
    destruct (fee_steps_facts _ _ _ _ _ _ _ (tr_steps _ _ _ _ _ _ _ _ _ _ _ _ _ _ _ _ _ _ _ _ _ T))
      as (H1 & H2 & H3 & H4 & H5 & H6 & H7). repeat split; assumption.
  Qed.

  Lemma T_sink : route_sink cfg e d (t_damt t') mv.
  Proof.
    pose proof (route_plan_sink _ _ _ _ _ _ _ (tr_plan _ _ _ _ _ _ _ _ _ _ _ _ _ _ _ _ _ _ _ _ _ T)) as H.
    destruct T_steps as (Hd & _). rewrite Hd in H. exact H.
  Qed.

  Lemma T_all_denom :
    Forall (fun m => move_denom m = d) (sweep_moves cfg d prior ++ [credit_move cfg p t] ++ ams ++ [mv]).
  Proof.
    destruct T_steps as (Hd & _ & Hf & _).
    destruct (sweep_moves_net cfg d prior Hwf) as (_ & Hs & _).
    destruct (net_fee_moves_orbiter cfg d ams Hwf Hf) as (_ & Ha & _).
    destruct (route_sink_net _ _ _ _ _ Hwf T_sink) as [_ Hm].
    apply Forall_app; split; [exact Hs|]. constructor; [reflexivity|].
    apply Forall_app; split; [exact Ha|]. constructor; [exact Hm|constructor].
  Qed.

  (* C01: nothing of the transferred denomination is left on the orbiter account ... *)
  Lemma T_orbiter_cleared : bal (w_l (rr_world r)) orb d = 0.
  Proof.
    rewrite (tr_world _ _ _ _ _ _ _ _ _ _ _ _ _ _ _ _ _ _ _ _ _ T). cbn [w_l].
    fold orb d prior.
    pose proof (fc_balance _ _ _ _ _ _ _ _ _ (tr_checked _ _ _ _ _ _ _ _ _ _ _ _ _ _ _ _ _ _ _ _ _ T)) as Hb.
    fold orb d prior in Hb. destruct T_steps as (Hd & _). rewrite Hd in Hb.
    rewrite bal_apply_moves in Hb |- *.
    rewrite !app_assoc. rewrite net_all_app. rewrite <- !app_assoc.
    destruct (route_sink_net _ _ _ _ _ Hwf T_sink) as [Hn _]. fold orb in Hn.
    rewrite net_all_cons, Hn. cbn [net_all fold_right]. lia.
  Qed.

  (* ... and every balance in every other denomination, of every account, is untouched *)
  Lemma T_other_denoms x d' : d' <> d -> bal (w_l (rr_world r)) x d' = bal (w_l w) x d'.
  Proof.
    intros Hne. rewrite (tr_world _ _ _ _ _ _ _ _ _ _ _ _ _ _ _ _ _ _ _ _ _ T). cbn [w_l]. fold orb d prior.
    rewrite bal_apply_moves, (net_all_other_denom _ x d T_all_denom d' Hne). lia.
  Qed.

  (* C02: the amounts: the released coin = fees + forwarded amount, forwarded amount positive *)
  Lemma T_amounts : t_samt t = moves_total ams + t_damt t' /\ 0 < t_damt t' /\ t_damt t = t_samt t.
  Proof.
    destruct (parse_facts _ _ _ _ _ _ (tr_parse _ _ _ _ _ _ _ _ _ _ _ _ _ _ _ _ _ _ _ _ _ T)) as (amt & d0 & _ & _ & _ & _ & Ht).
    destruct T_steps as (_ & Ha & _).
    pose proof (tattr_validate_pos _ (fc_tattr _ _ _ _ _ _ _ _ _ (tr_checked _ _ _ _ _ _ _ _ _ _ _ _ _ _ _ _ _ _ _ _ _ T))) as [_ Hp].
    rewrite Ht in *. cbn [t_samt t_damt] in *. repeat split; lia.
  Qed.
End Transfer.

(* ================= statements used by Props/C01.v, C02.v, C03.v, C05.v ================= *)

Lemma recv_err_unchanged cfg e w p tape lie l :
  rr_out (recv_lie cfg e w p tape lie) = OAckErr l ->
  rr_world (recv_lie cfg e w p tape lie) = w /\ rr_moves (recv_lie cfg e w p tape lie) = [].
Proof.
  unfold recv_lie, recv_with, recv_generic.
  repeat match goal with
  | |- context [if ?b then _ else _] => destruct b; cbn [result_of rr_out rr_world rr_moves]; try (intros; split; reflexivity); try discriminate
  end.
  assert (Hdel : forall s, rr_out (delegate cfg e w p s) = OAckErr l -> rr_world (delegate cfg e w p s) = w /\ rr_moves (delegate cfg e w p s) = []).
  { intros s. unfold delegate. destruct (ext CWrapped s) as [v s1]. destruct v; cbn; discriminate. }
  destruct (pk_data p) as [|denom amount sender receiver memo]; [apply Hdel|].
  destruct (negb (is_orbiter_receiver _ _ _ _)); [apply Hdel|].
  destruct (parse_orbiter_packet _ _ _ _ _ _) as [[t pl]| |]; cbn; try (intros; split; reflexivity); try discriminate.
  destruct (p_fwd pl) as [f|]; cbn; try (intros; split; reflexivity).
  destruct (_ <? _); cbn; try (intros; split; reflexivity).
  destruct (recv_body _ _ _ _ _ _ _ _ _ _ _) as [t' s1|l1 s1|y]; cbn; try (intros; split; reflexivity); try discriminate.
  destruct (update_stats_swallow _ _ _ _); cbn; try (intros; split; reflexivity); try discriminate.
  destruct (ext _ s1) as [v s2]. destruct v; cbn; try (intros; split; reflexivity); discriminate.
Qed.

Lemma recv_delegated_false_unchanged cfg e w p tape lie :
  rr_out (recv_lie cfg e w p tape lie) = ODelegated false ->
  rr_world (recv_lie cfg e w p tape lie) = w.
Proof.
  unfold recv_lie, recv_with, recv_generic.
  repeat match goal with
  | |- context [if ?b then _ else _] => destruct b; cbn [result_of rr_out rr_world]; try discriminate
  end.
  assert (Hdel : forall s, rr_out (delegate cfg e w p s) = ODelegated false -> rr_world (delegate cfg e w p s) = w).
  { intros s. unfold delegate. destruct (ext CWrapped s) as [v s1]. destruct v; cbn; [discriminate|reflexivity]. }
  destruct (pk_data p) as [|denom amount sender receiver memo]; [apply Hdel|].
  destruct (negb (is_orbiter_receiver _ _ _ _)); [apply Hdel|].
  destruct (parse_orbiter_packet _ _ _ _ _ _) as [[t pl]| |]; cbn; try discriminate.
  destruct (p_fwd pl) as [f|]; cbn; try discriminate.
  destruct (_ <? _); cbn; try discriminate.
  destruct (recv_body _ _ _ _ _ _ _ _ _ _ _) as [t' s1|l1 s1|y]; cbn; try discriminate.
  destruct (update_stats_swallow _ _ _ _); cbn; try discriminate.
  destruct (ext _ s1) as [v s2]. destruct v; cbn; discriminate.
Qed.

(* a packet whose receiver decodes to the orbiter account is never handed to the wrapped application *)
Lemma orbiter_packet_not_delegated cfg e w p tape lie denom amount sender receiver memo b :
  pk_data p = PIcs denom amount sender receiver memo ->
  e_bech32 e receiver = Some (cfg_orbiter cfg) ->
  rr_out (recv_lie cfg e w p tape lie) <> ODelegated b.
Proof.
  intros Hd Hr. unfold recv_lie, recv_with, recv_generic.
  repeat match goal with
  | |- context [if ?c then _ else _] => destruct c; cbn [result_of rr_out]; try discriminate
  end.
  rewrite Hd. unfold is_orbiter_receiver. cbn [v_receiver_by_text repaired]. rewrite Hr, String.eqb_refl. cbn [negb].
  destruct (parse_orbiter_packet _ _ _ _ _ _) as [[t pl]| |]; cbn; try discriminate.
  destruct (p_fwd pl) as [f|]; cbn; try discriminate.
  destruct (_ <? _); cbn; try discriminate.
  destruct (recv_body _ _ _ _ _ _ _ _ _ _ _) as [t' s1|l1 s1|y]; cbn; try discriminate.
  destruct (update_stats_swallow _ _ _ _); cbn; try discriminate.
  destruct (ext _ s1) as [v s2]. destruct v; cbn; discriminate.
Qed.

(* C01 / C16: success => the credited denomination is the recovered native one, nothing of it stays on the
   orbiter account, and no balance in any other denomination moved *)
Theorem success_clears cfg e w p tape :
  wf_cfg cfg ->
  rr_out (recv cfg e w p tape) = OAckOk ->
  exists denom amount sender receiver pl d,
    pk_data p = PIcs denom amount sender receiver (Ok pl) /\
    e_bech32 e receiver = Some (cfg_orbiter cfg) /\
    recover_native_denom denom (pk_sport p) (pk_schan p) = Ok d /\
    bal (w_l (rr_world (recv cfg e w p tape))) (cfg_orbiter cfg) d = 0 /\
    forall x d', d' <> d -> bal (w_l (rr_world (recv cfg e w p tape))) x d' = bal (w_l w) x d'.
Proof.
  intros Hwf H. unfold recv in *.
  destruct (recv_ok_inv _ _ _ _ _ _ H) as (denom & amount & sender & receiver & pl & f & t & t' & a & cp & acalls & fcalls & ams & mv & o' & T).
  destruct (parse_facts _ _ _ _ _ _ (tr_parse _ _ _ _ _ _ _ _ _ _ _ _ _ _ _ _ _ _ _ _ _ T)) as (amt & d & _ & Hd & _ & _ & Ht).
  exists denom, amount, sender, receiver, pl, d.
  split; [exact (tr_data _ _ _ _ _ _ _ _ _ _ _ _ _ _ _ _ _ _ _ _ _ T)|].
  split.
  { pose proof (tr_receiver _ _ _ _ _ _ _ _ _ _ _ _ _ _ _ _ _ _ _ _ _ T) as Hr. unfold is_orbiter_receiver in Hr.
    cbn [v_receiver_by_text repaired] in Hr. destruct (e_bech32 e receiver) as [x|]; [|discriminate].
    apply String.eqb_eq in Hr. subst x. reflexivity. }
  split; [exact Hd|].
  assert (Hdd : t_ddenom t = d) by (rewrite Ht; reflexivity).
  split.
  - rewrite <- Hdd. eapply T_orbiter_cleared; eauto.
  - intros x d' Hne. rewrite <- Hdd in Hne. eapply T_other_denoms; eauto.
Qed.

(* ---------- delegated packets: the ICS-20 model never credits the orbiter account ---------- *)
Lemma delegated_orbiter_unchanged cfg e w p tape lie d :
  wf_cfg cfg ->
  rr_out (recv_lie cfg e w p tape lie) = ODelegated true ->
  bal (w_l (rr_world (recv_lie cfg e w p tape lie))) (cfg_orbiter cfg) d = bal (w_l w) (cfg_orbiter cfg) d /\
  w_o (rr_world (recv_lie cfg e w p tape lie)) = w_o w.
Proof.
  intros Hwf. unfold recv_lie, recv_with, recv_generic.
  repeat match goal with
  | |- context [if ?c then _ else _] => destruct c; cbn [result_of rr_out]; try discriminate
  end.
  set (s0 := {| ps_l := w_l w; ps_tape := tape; ps_trace := []; ps_moves := [] |}).
  assert (Hdel : (forall denom amount sender receiver memo, pk_data p = PIcs denom amount sender receiver memo ->
                    is_orbiter_receiver repaired cfg e receiver = false) ->
                 rr_out (delegate cfg e w p s0) = ODelegated true ->
                 bal (w_l (rr_world (delegate cfg e w p s0))) (cfg_orbiter cfg) d = bal (w_l w) (cfg_orbiter cfg) d /\
                 w_o (rr_world (delegate cfg e w p s0)) = w_o w).
  { intros Hnot. unfold delegate. destruct (ext CWrapped s0) as [v s1] eqn:E. destruct v; [|cbn; discriminate]. intros _.
    cbn [result_of rr_world w_l w_o]. split; [|reflexivity].
    apply ext_true in E. pose proof (ran_ledger _ _ _ _ E) as HL. cbn in HL.
    destruct (ics20_moves cfg e p) as [ms|] eqn:Hm; [|rewrite HL; reflexivity].
    pose proof (do_moves_ran ms s1) as R. rewrite (ran_ledger _ _ _ _ R), HL, bal_apply_moves.
    enough (net_all ms (cfg_orbiter cfg) d = 0) by lia.
    unfold ics20_moves in Hm. destruct (pk_data p) as [|denom amount sender receiver memo] eqn:Hd; [discriminate|].
    specialize (Hnot _ _ _ _ _ eq_refl). unfold is_orbiter_receiver in Hnot. cbn [v_receiver_by_text repaired] in Hnot.
    destruct (e_parse_int e amount) as [amt|]; [|discriminate].
    destruct (e_bech32 e receiver) as [r|]; [|discriminate].
    apply String.eqb_neq in Hnot.
    pose proof (wf_escrow _ Hwf (pk_dport p) (pk_dchan p)) as Hesc.
    inversion Hm; subst ms; clear Hm.
    destruct (ics20_credit_denom _ _ _); cbn [net_all fold_right net];
      rewrite ?(hit_other_acct r (cfg_orbiter cfg)), ?(hit_other_acct (cfg_escrow cfg (pk_dport p) (pk_dchan p)) (cfg_orbiter cfg)) by assumption; lia. }
  destruct (pk_data p) as [|denom amount sender receiver memo] eqn:Hd.
  { apply Hdel. intros; discriminate. }
  destruct (is_orbiter_receiver repaired cfg e receiver) eqn:Hr; cbn [negb].
  2:{ apply Hdel. intros ? ? ? ? ? H. inversion H; subst. exact Hr. }
  destruct (parse_orbiter_packet _ _ _ _ _ _) as [[t pl]| |]; cbn; try discriminate.
  destruct (p_fwd pl) as [f|]; cbn; try discriminate.
  destruct (_ <? _); cbn; try discriminate.
  destruct (recv_body _ _ _ _ _ _ _ _ _ _ _) as [t' s1|l1 s1|y]; cbn; try discriminate.
  destruct (update_stats_swallow _ _ _ _); cbn; try discriminate.
  destruct (ext _ s1) as [v s2]. destruct v; cbn; discriminate.
Qed.

(* C01, second sentence: no packet of any kind ends with a success acknowledgement and a larger
   orbiter balance (the wrapped application being ICS-20, as modelled) *)
Theorem no_growth cfg e w p tape :
  wf_cfg cfg -> (forall d, 0 <= bal (w_l w) (cfg_orbiter cfg) d) ->
  rr_out (recv cfg e w p tape) = OAckOk \/ rr_out (recv cfg e w p tape) = ODelegated true ->
  forall d, bal (w_l (rr_world (recv cfg e w p tape))) (cfg_orbiter cfg) d <= bal (w_l w) (cfg_orbiter cfg) d.
Proof.
  intros Hwf Hnn [H|H] d.
  - destruct (success_clears _ _ _ _ _ Hwf H) as (denom & amount & sender & receiver & pl & d0 & _ & _ & _ & Hz & Ho).
    destruct (string_dec d d0) as [->|Hne]; [rewrite Hz; apply Hnn|]. rewrite (Ho _ _ Hne). lia.
  - unfold recv in *. destruct (delegated_orbiter_unchanged _ _ _ _ _ _ d Hwf H) as [Hb _]. lia.
Qed.

(* ---------- C02: the complete list of movements of a successful transfer ---------- *)
Theorem success_moves cfg e w p tape :
  wf_cfg cfg ->
  rr_out (recv cfg e w p tape) = OAckOk ->
  exists d A fees sink,
    let orb := cfg_orbiter cfg in
    let prior := bal (w_l w) orb d in
    let out := A - moves_total fees in
    rr_moves (recv cfg e w p tape) =
      sweep_moves cfg d prior ++ [MSend (cfg_escrow cfg (pk_dport p) (pk_dchan p)) orb d A] ++ fees ++ [sink] /\
    w_l (rr_world (recv cfg e w p tape)) = apply_moves (w_l w) (rr_moves (recv cfg e w p tape)) /\
    Forall (fee_move_ok cfg d) fees /\
    route_sink cfg e d out sink /\
    0 < out /\ 0 < A.
Proof.
  intros Hwf H. unfold recv in *.
  destruct (recv_ok_inv _ _ _ _ _ _ H) as (denom & amount & sender & receiver & pl & f & t & t' & a & cp & acalls & fcalls & ams & mv & o' & T).
  destruct (T_steps _ _ _ _ _ _ _ _ _ _ _ _ _ _ _ _ _ _ _ _ T) as (Hd & Ha & Hf & _).
  destruct (T_amounts _ _ _ _ _ _ _ _ _ _ _ _ _ _ _ _ _ _ _ _ T) as (Hsum & Hpos & Heq).
  pose proof (T_sink _ _ _ _ _ _ _ _ _ _ _ _ _ _ _ _ _ _ _ _ T) as Hsink.
  exists (t_ddenom t), (t_samt t), ams, mv. cbn zeta.
  rewrite (tr_moves _ _ _ _ _ _ _ _ _ _ _ _ _ _ _ _ _ _ _ _ _ T), (tr_world _ _ _ _ _ _ _ _ _ _ _ _ _ _ _ _ _ _ _ _ _ T).
  rewrite Z.add_0_r. unfold credit_move. cbn [w_l].
  replace (t_samt t - moves_total ams) with (t_damt t') by lia.
  destruct (parse_facts _ _ _ _ _ _ (tr_parse _ _ _ _ _ _ _ _ _ _ _ _ _ _ _ _ _ _ _ _ _ T)) as (amt & d0 & _ & _ & _ & Hv & _).
  apply tattr_validate_pos in Hv as [Hsp _].
  repeat split; try assumption; try reflexivity.
Qed.

(* C02: every account other than the orbiter, the dust collector, the escrow, the fee recipients
   and the route's sink keeps its balance; supply changes only by the burn *)
Definition move_touches (m : move) (x : string) : bool :=
  match m with
  | MSend f t _ _ => String.eqb x f || String.eqb x t
  | MBurn f _ _ => String.eqb x f
  | MMint t _ _ => String.eqb x t
  end.

Lemma net_untouched m x d : move_touches m x = false -> net m x d = 0.
Proof.
  destruct m as [f t d' v|f d' v|t d' v]; cbn [move_touches net]; unfold hit; intros H.
  - apply orb_false_iff in H as [H1 H2]. rewrite H1, H2. cbn. lia.
  - rewrite H. cbn. lia.
  - rewrite H. reflexivity.
Qed.
Lemma net_all_untouched ms x d : forallb (fun m => negb (move_touches m x)) ms = true -> net_all ms x d = 0.
Proof.
  induction ms as [|m r IH]; [reflexivity|]. cbn [forallb]. intros H. apply andb_true_iff in H as [Hm Hr].
  rewrite net_all_cons, IH by exact Hr. rewrite net_untouched; [lia|]. destruct (move_touches m x); [discriminate|reflexivity].
Qed.

Theorem untouched_accounts cfg e w p tape x d :
  rr_out (recv cfg e w p tape) = OAckOk ->
  forallb (fun m => negb (move_touches m x)) (rr_moves (recv cfg e w p tape)) = true ->
  bal (w_l (rr_world (recv cfg e w p tape))) x d = bal (w_l w) x d.
Proof.
  intros H Hu. unfold recv in *.
  destruct (recv_ok_inv _ _ _ _ _ _ H) as (denom & amount & sender & receiver & pl & f & t & t' & a & cp & acalls & fcalls & ams & mv & o' & T).
  rewrite (tr_world _ _ _ _ _ _ _ _ _ _ _ _ _ _ _ _ _ _ _ _ _ T). cbn [w_l].
  rewrite (tr_moves _ _ _ _ _ _ _ _ _ _ _ _ _ _ _ _ _ _ _ _ _ T) in Hu.
  rewrite bal_apply_moves, net_all_untouched by exact Hu. lia.
Qed.

Theorem supply_change cfg e w p tape d' :
  wf_cfg cfg ->
  rr_out (recv cfg e w p tape) = OAckOk ->
  exists sink, In sink (rr_moves (recv cfg e w p tape)) /\
    supply (w_l (rr_world (recv cfg e w p tape))) d' = supply (w_l w) d' + snet sink d' /\
    (is_send sink = true -> supply (w_l (rr_world (recv cfg e w p tape))) d' = supply (w_l w) d').
Proof.
  intros Hwf H. unfold recv in *.
  destruct (recv_ok_inv _ _ _ _ _ _ H) as (denom & amount & sender & receiver & pl & f & t & t' & a & cp & acalls & fcalls & ams & mv & o' & T).
  destruct (T_steps _ _ _ _ _ _ _ _ _ _ _ _ _ _ _ _ _ _ _ _ T) as (Hd & Ha & Hf & _).
  exists mv. rewrite (tr_moves _ _ _ _ _ _ _ _ _ _ _ _ _ _ _ _ _ _ _ _ _ T), (tr_world _ _ _ _ _ _ _ _ _ _ _ _ _ _ _ _ _ _ _ _ _ T). cbn [w_l].
  split; [rewrite !in_app_iff; right; right; right; left; reflexivity|].
  rewrite supply_apply_moves, !snet_all_app.
  destruct (sweep_moves_net cfg (t_ddenom t) (bal (w_l w) (cfg_orbiter cfg) (t_ddenom t) + 0) Hwf) as (_ & _ & Hs).
  destruct (net_fee_moves_orbiter cfg (t_ddenom t) ams Hwf Hf) as (_ & _ & Hsa).
  rewrite (snet_all_sends _ _ Hs), (snet_all_sends _ _ Hsa). cbn [snet_all fold_right credit_move snet].
  split; [lia|]. intros Hsend. destruct mv; try discriminate. cbn [snet]. lia.
Qed.

(* ---------- C03 / C05: the trace of a successful transfer ---------- *)
Definition is_bridge_call (c : call) : bool :=
  match c with
  | CCctp _ _ _ _ _ _ | CHypTransfer _ _ _ _ _ _ _ _ _ _ | CBankSend _ _ _ _ => true
  | _ => false
  end.

Lemma fee_steps_calls cfg e l t t' acalls ams :
  fee_steps cfg e l t t' acalls ams -> forallb (fun c => negb (is_bridge_call c)) acalls = true.
Proof.
  induction 1 as [|infos credits fwd rest t t'' calls ms _ _ _ IH]; [reflexivity|].
  rewrite !forallb_app, IH, andb_true_r. cbn [forallb is_bridge_call negb andb]. rewrite andb_true_r.
  unfold fee_calls. rewrite forallb_forall. intros c Hin. apply in_map_iff in Hin as (x & <- & _). reflexivity.
Qed.

Theorem success_trace cfg e w p tape :
  rr_out (recv cfg e w p tape) = OAckOk ->
  exists denom amount sender receiver pl f a d A t' pre fcalls fees sink,
    pk_data p = PIcs denom amount sender receiver (Ok pl) /\
    p_fwd pl = Some f /\ f_attrs f = Some a /\
    recover_native_denom denom (pk_sport p) (pk_schan p) = Ok d /\ e_parse_int e amount = Some A /\
    (* the coin left by the actions: the credited denomination, the amount minus the fees paid *)
    rr_moves (recv cfg e w p tape) =
      sweep_moves cfg d (bal (w_l w) (cfg_orbiter cfg) d) ++
      [MSend (cfg_escrow cfg (pk_dport p) (pk_dchan p)) (cfg_orbiter cfg) d A] ++ fees ++ [sink] /\
    t_ddenom t' = d /\ t_damt t' = A - moves_total fees /\
    (* the route is the one the payload names, and it is wired *)
    existsb (Z.eqb (f_pid f)) (cfg_fwd_routes cfg) = true /\
    route_plan cfg e (f_pid f) a t' = Some (fcalls, sink) /\
    (* every call succeeded; the bridge calls are exactly the route's, last before the final event *)
    rr_trace (recv cfg e w p tape) = map (fun c => (c, true)) (pre ++ fcalls ++ [CEmit "EventPayloadProcessed"]) /\
    forallb (fun c => negb (is_bridge_call c)) pre = true.
Proof.
  intros H. unfold recv in *.
  destruct (recv_ok_inv _ _ _ _ _ _ H) as (denom & amount & sender & receiver & pl & f & t & t' & a & cp & acalls & fcalls & ams & mv & o' & T).
  destruct (parse_facts _ _ _ _ _ _ (tr_parse _ _ _ _ _ _ _ _ _ _ _ _ _ _ _ _ _ _ _ _ _ T)) as (amt & d & Hamt & Hd & _ & _ & Ht).
  destruct (fee_steps_facts _ _ _ _ _ _ _ (tr_steps _ _ _ _ _ _ _ _ _ _ _ _ _ _ _ _ _ _ _ _ _ T)) as (Hdd & _ & _ & _ & _ & Hda & _).
  pose proof (tr_checked _ _ _ _ _ _ _ _ _ _ _ _ _ _ _ _ _ _ _ _ _ T) as C.
  exists denom, amount, sender, receiver, pl, f, a, d, amt, t',
    (sweep_calls (t_ddenom t) (bal (w_l w) (cfg_orbiter cfg) (t_ddenom t) + 0) ++ [CWrapped] ++ acalls), fcalls, ams, mv.
  split; [exact (tr_data _ _ _ _ _ _ _ _ _ _ _ _ _ _ _ _ _ _ _ _ _ T)|].
  split; [exact (tr_fwd _ _ _ _ _ _ _ _ _ _ _ _ _ _ _ _ _ _ _ _ _ T)|].
  split; [exact (fc_attrs _ _ _ _ _ _ _ _ _ C)|].
  split; [exact Hd|]. split; [exact Hamt|].
  split.
  { rewrite (tr_moves _ _ _ _ _ _ _ _ _ _ _ _ _ _ _ _ _ _ _ _ _ T). unfold credit_move. rewrite Ht. cbn [t_ddenom t_samt].
    rewrite Z.add_0_r. reflexivity. }
  split; [rewrite Hdd, Ht; reflexivity|].
  split; [rewrite Hda, Ht; reflexivity|].
  split; [exact (fc_route _ _ _ _ _ _ _ _ _ C)|].
  split; [exact (tr_plan _ _ _ _ _ _ _ _ _ _ _ _ _ _ _ _ _ _ _ _ _ T)|].
  split.
  { rewrite (tr_trace _ _ _ _ _ _ _ _ _ _ _ _ _ _ _ _ _ _ _ _ _ T), <- !app_assoc. reflexivity. }
  rewrite !forallb_app. rewrite (fee_steps_calls _ _ _ _ _ _ _ (tr_steps _ _ _ _ _ _ _ _ _ _ _ _ _ _ _ _ _ _ _ _ _ T)).
  unfold sweep_calls. destruct (0 <? _); reflexivity.
Qed.

(* the request each route sends: the attributes' own fields, the running coin, the orbiter account *)
Lemma route_plan_cctp cfg e pid t domain rcp caller calls mv :
  route_plan cfg e pid (ACctp domain rcp caller) t = Some (calls, mv) ->
  pid = protocol_cctp /\
  calls = [CCctp (cfg_orbiter_bech cfg) (t_damt t) domain rcp (t_ddenom t) (opt_str caller)] /\
  mv = MBurn (cfg_orbiter cfg) (t_ddenom t) (t_damt t) /\ domain <> cctp_noble_domain /\ rcp <> "".
Proof.
  unfold route_plan. destruct (pid =? protocol_cctp) eqn:E.
  - apply Z.eqb_eq in E. destruct (is_ok (cctp_validate domain rcp)) eqn:Hv; [|discriminate]. intros H; inversion H.
    unfold cctp_validate in Hv. destruct (domain =? cctp_noble_domain) eqn:E1; [discriminate|].
    destruct (String.eqb rcp "") eqn:E2; [discriminate|]. apply Z.eqb_neq in E1. apply String.eqb_neq in E2. auto.
  - destruct (pid =? protocol_hyperlane); [discriminate|]. destruct (pid =? protocol_internal); discriminate.
Qed.

Lemma route_plan_hyp cfg e pid t token domain rcp hook md gas fd fa calls mv :
  route_plan cfg e pid (AHyp token domain rcp hook md gas fd fa) t = Some (calls, mv) ->
  pid = protocol_hyperlane /\
  calls = [CHypToken token;
           CHypTransfer (cfg_orbiter_bech cfg) token domain rcp (t_damt t) (opt_str hook) gas fd fa md] /\
  mv = MSend (cfg_orbiter cfg) (cfg_warp cfg) (t_ddenom t) (t_damt t) /\
  cfg_hyp_token cfg token = Some (t_ddenom t).
Proof.
  unfold route_plan. destruct (pid =? protocol_cctp) eqn:E0; [discriminate|].
  destruct (pid =? protocol_hyperlane) eqn:E.
  - apply Z.eqb_eq in E. destruct (is_ok (tattr_validate t)); [|discriminate].
    destruct (is_ok (hyp_validate token domain rcp hook md)); [|discriminate]. cbn [andb].
    destruct (is_ok (hyp_fee_validate fd fa)); [|discriminate]. cbn [andb].
    destruct (cfg_hyp_token cfg token) as [o|]; [|discriminate].
    destruct (String.eqb o (t_ddenom t)) eqn:E2; [|discriminate]. apply String.eqb_eq in E2. subst o.
    intros H; inversion H. auto.
  - destruct (pid =? protocol_internal); discriminate.
Qed.

Lemma route_plan_internal cfg e pid t rcp calls mv :
  route_plan cfg e pid (AInternal rcp) t = Some (calls, mv) ->
  pid = protocol_internal /\
  calls = [CBankSend (cfg_orbiter_bech cfg) rcp (t_ddenom t) (t_damt t)] /\
  mv = MSend (cfg_orbiter cfg) (acct_of e rcp) (t_ddenom t) (t_damt t).
Proof.
  unfold route_plan. destruct (pid =? protocol_cctp) eqn:E0; [discriminate|].
  destruct (pid =? protocol_hyperlane) eqn:E1; [discriminate|].
  destruct (pid =? protocol_internal) eqn:E; [|discriminate]. apply Z.eqb_eq in E.
  destruct (is_ok (tattr_validate t) && is_ok (internal_validate false cfg e rcp)); [|discriminate].
  intros H; inversion H. auto.
Qed.

Lemma route_plan_other cfg e pid t a calls mv :
  route_plan cfg e pid a t = Some (calls, mv) ->
  match a with ACctp _ _ _ | AHyp _ _ _ _ _ _ _ _ | AInternal _ => True | _ => False end.
Proof.
  unfold route_plan. destruct (pid =? protocol_cctp); [destruct a; try discriminate; auto|].
  destruct (pid =? protocol_hyperlane); [destruct a; try discriminate; auto|].
  destruct (pid =? protocol_internal); [destruct a; try discriminate; auto|discriminate].
Qed.

