(* Further consequences of the inversion of a successful receive. *)
From Coq Require Import String Ascii List ZArith Bool Lia.
From Orbiter Require Import Lib.Str Lib.Res Gen.Constants Model.Ids Model.Env Model.Fee Model.Denom
     Model.Payload Model.State Model.Pipeline Proofs.Ledger Proofs.FeeProofs Proofs.PipelineProofs
     Proofs.TransferProps Proofs.NoPanic.
Import ListNotations.
Open Scope string_scope.
Open Scope Z_scope.
Open Scope list_scope.

(* ---------- further corollaries ---------- *)
Lemma success_all_ok cfg e w p tape :
  rr_out (recv cfg e w p tape) = OAckOk -> Forall (fun cv => snd cv = true) (rr_trace (recv cfg e w p tape)).
Proof.
  intros H. destruct (success_trace _ _ _ _ _ H) as (? & ? & ? & ? & ? & ? & ? & ? & ? & ? & pre & fcalls & ? & ? & _ & _ & _ & _ & _ & _ & _ & _ & _ & _ & Ht & _).
  rewrite Ht. apply Forall_forall. intros cv Hin. apply in_map_iff in Hin as (c & <- & _). reflexivity.
Qed.

Lemma delegated_trace cfg e w p tape b :
  rr_out (recv cfg e w p tape) = ODelegated b -> rr_trace (recv cfg e w p tape) = [(CWrapped, b)].
Proof.
  unfold recv, recv_lie, recv_with, recv_generic.
  repeat match goal with
  | |- context [if ?c then _ else _] => destruct c; cbn [result_of rr_out]; try discriminate
  end.
  set (s0 := {| ps_l := w_l w; ps_tape := tape; ps_trace := []; ps_moves := [] |}).
  assert (Hdel : rr_out (delegate cfg e w p s0) = ODelegated b -> rr_trace (delegate cfg e w p s0) = [(CWrapped, b)]).
  { unfold delegate. destruct (ext CWrapped s0) as [v s1] eqn:E.
    assert (Ht : ps_trace s1 = [(CWrapped, v)]).
    { unfold ext in E. cbn in E. destruct tape as [|v0 r]; inversion E; subst; reflexivity. }
    destruct v; cbn [result_of rr_out rr_trace]; intros H; inversion H; subst b.
    - destruct (ics20_moves cfg e p) as [ms|]; [|rewrite Ht; reflexivity].
      pose proof (do_moves_ran ms s1) as R. rewrite (ran_trace _ _ _ _ R), Ht. reflexivity.
    - rewrite Ht. reflexivity. }
  destruct (pk_data p) as [|denom amount sender receiver memo]; [exact Hdel|].
  destruct (negb (is_orbiter_receiver _ _ _ _)); [exact Hdel|].
  destruct (parse_orbiter_packet _ _ _ _ _ _) as [[t pl]| |]; cbn; try discriminate.
  destruct (p_fwd pl) as [f|]; cbn; try discriminate.
  destruct (_ <? _); cbn; try discriminate.
  destruct (recv_body _ _ _ _ _ _ _ _ _ _ _) as [t' s1|l1 s1|y]; cbn; try discriminate.
  destruct (update_stats_swallow _ _ _ _); cbn; try discriminate.
  destruct (ext _ s1) as [v s2]. destruct v; cbn; discriminate.
Qed.

(* the payloads the chain executes: every pre-action is a fee action (the only wired controller),
   so - identifiers being distinct - there is at most one *)
Lemma fee_steps_all_fee cfg e l t t' acalls ams :
  fee_steps cfg e l t t' acalls ams -> Forall (fun a => exists infos, a = fee_action infos) l.
Proof. induction 1; constructor; eauto. Qed.

Lemma unique_ids_fee seen l :
  unique_ids_with (Err "action is not set") seen l = Ok tt ->
  Forall (fun a => exists infos, a = fee_action infos) l ->
  (length l <= 1)%nat /\ (l <> [] -> existsb (Z.eqb action_fee) seen = false).
Proof.
  revert seen. induction l as [|a r IH]; intros seen Hu Hf; [split; [auto|congruence]|].
  inversion Hf as [|? ? (infos & ->) Hr]; subst. cbn [unique_ids_with fee_action a_id] in Hu.
  destruct (existsb (Z.eqb action_fee) seen) eqn:Hs; [discriminate|].
  destruct (IH _ Hu Hr) as [Hlen Hne]. split; [|auto].
  destruct r as [|b r']; [cbn; auto|]. exfalso.
  assert (H : existsb (Z.eqb action_fee) (action_fee :: seen) = false) by (apply Hne; discriminate).
  cbn [existsb] in H. rewrite Z.eqb_refl in H. discriminate.
Qed.

Theorem success_actions cfg e w p tape :
  rr_out (recv cfg e w p tape) = OAckOk ->
  exists denom amount sender receiver pl,
    pk_data p = PIcs denom amount sender receiver (Ok pl) /\
    (p_pre pl = [] \/ exists infos, p_pre pl = [fee_action infos] /\
                                    smem cmp_z action_fee (paused_actions (w_o w)) = false /\
                                    existsb (Z.eqb action_fee) (cfg_action_routes cfg) = true).
Proof.
  intros H. unfold recv in *.
  destruct (recv_ok_inv _ _ _ _ _ _ H) as (denom & amount & sender & receiver & pl & f & t & t' & a & cp & acalls & fcalls & ams & mv & o' & T).
  exists denom, amount, sender, receiver, pl. split; [exact (tr_data _ _ _ _ _ _ _ _ _ _ _ _ _ _ _ _ _ _ _ _ _ T)|].
  destruct (parse_facts _ _ _ _ _ _ (tr_parse _ _ _ _ _ _ _ _ _ _ _ _ _ _ _ _ _ _ _ _ _ T)) as (amt & d & _ & _ & Hpv & _ & _).
  pose proof (fee_steps_all_fee _ _ _ _ _ _ _ (tr_steps _ _ _ _ _ _ _ _ _ _ _ _ _ _ _ _ _ _ _ _ _ T)) as Hall.
  unfold payload_validate, payload_validate_with in Hpv.
  destruct (unique_ids_with (Err "action is not set") [] (p_pre pl)) as [[]| |] eqn:Hu; try discriminate.
  destruct (unique_ids_fee _ _ Hu Hall) as [Hlen _].
  pose proof (tr_actions_on _ _ _ _ _ _ _ _ _ _ _ _ _ _ _ _ _ _ _ _ _ T) as Hon.
  destruct (p_pre pl) as [|a0 [|b r]]; [left; reflexivity| |cbn in Hlen; lia].
  right. inversion Hall as [|? ? (infos & ->) _]; subst. exists infos. split; [reflexivity|].
  apply Hon. discriminate.
Qed.

(* malformed payloads addressed to the orbiter are refused *)
Theorem malformed_refused cfg e w p tape denom amount sender receiver memo :
  pk_data p = PIcs denom amount sender receiver memo ->
  e_bech32 e receiver = Some (cfg_orbiter cfg) ->
  (exists l, memo = Err l) \/ (exists pl, memo = Ok pl /\ payload_validate pl <> Ok tt) ->
  exists l, rr_out (recv cfg e w p tape) = OAckErr l.
Proof.
  intros Hd Hr Hm.
  assert (Hpanic : is_panic memo = false) by (destruct Hm as [[l ->]|(pl & -> & _)]; reflexivity).
  destruct (rr_out (recv cfg e w p tape)) as [|l|b|x] eqn:E; [|eauto| |].
  - exfalso. unfold recv in E.
    destruct (recv_ok_inv _ _ _ _ _ _ E) as (denom' & amount' & sender' & receiver' & pl & f & t & t' & a & cp & acalls & fcalls & ams & mv & o' & T).
    pose proof (tr_data _ _ _ _ _ _ _ _ _ _ _ _ _ _ _ _ _ _ _ _ _ T) as Hd'. rewrite Hd in Hd'. inversion Hd'; subst.
    destruct Hm as [[l Hl]|(pl0 & Hpl & Hnv)]; [discriminate|]. inversion Hpl; subst pl0.
    destruct (parse_facts _ _ _ _ _ _ (tr_parse _ _ _ _ _ _ _ _ _ _ _ _ _ _ _ _ _ _ _ _ _ T)) as (? & ? & _ & _ & Hpv & _). congruence.
  - exfalso. unfold recv in E. eapply orbiter_packet_not_delegated; eauto.
  - exfalso. unfold recv in E. eapply recv_never_panics; [|exact E]. unfold memo_of. rewrite Hd. exact Hpanic.
Qed.
