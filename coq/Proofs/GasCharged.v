(* Through a hook that charges for gas: a successful transfer is the same transfer on a chain without the
   hook, plus ONE more movement - the gas payment, out of the orbiter account, in the hook's denomination.
   This is all that open finding 17 changes (DESIGN 8). *)
From Coq Require Import String List ZArith Bool Lia.
From Orbiter Require Import Lib.Str Lib.Res Gen.Constants Model.Ids Model.Env Model.Fee Model.Denom
     Model.Payload Model.State Model.Pipeline Model.Msgs Proofs.Ledger Proofs.PipelineProofs Proofs.TransferProps Proofs.GasProofs.
Import ListNotations.
Open Scope string_scope.
Open Scope Z_scope.
Open Scope list_scope.

(* what the hook took *)
Record charge (cfg : config) (g : gas_fn) (a : attrs) (m : move) : Prop := {
  ch_hyp : exists token domain rcp hook md gas fd fa payee gd q,
      a = AHyp token domain rcp hook md gas fd fa /\
      g (opt_str hook) domain gas = Some (payee, gd, q) /\
      m = MSend (cfg_orbiter cfg) payee gd q /\
      gas_ok fd fa gd q = true;
}.

(* ... and it was there to be taken: the payment is positive and within what the orbiter account held in that
   denomination once the collateral had left *)
Definition paid_from (cfg : config) (m : move) (l : ledger) : Prop :=
  match m with MSend f _ gd q => f = cfg_orbiter cfg /\ 0 < q <= bal l f gd | _ => False end.

Lemma ext_do_move c m s : ext c (do_move m s) = (fst (ext c s), do_move m (snd (ext c s))).
Proof. unfold ext, do_move. cbn [ps_tape ps_l ps_trace ps_moves]. destruct (ps_tape s); reflexivity. Qed.

Lemma forward_ctrl_charged x g cfg e pid a t s u s1 :
  forward_ctrl_with x false g cfg e pid a t s = POk u s1 ->
  attrs_gas_free g a = false ->
  exists m s1', forward_ctrl_with x false no_gas cfg e pid a t s = POk u s1' /\ s1 = do_move m s1' /\ charge cfg g a m /\
                paid_from cfg m (ps_l s1').
Proof.
  unfold forward_ctrl_with, attrs_gas_free. intros H Hg.
  destruct a as [|token domain rcp hook md gas fd fa| | |]; try discriminate.
  destruct (g (opt_str hook) domain gas) as [[[payee gd] q]|] eqn:G; [|discriminate]. clear Hg.
  destruct (pid =? protocol_cctp); [discriminate|].
  destruct (pid =? protocol_hyperlane); [|destruct (pid =? protocol_internal); discriminate].
  cbn [andb] in *.
  apply mbind_ok in H as (u1 & s' & H1 & H). apply lift_ok in H1 as [Hv ->].
  apply mbind_ok in H as (u2 & s' & H2 & H). apply lift_ok in H2 as [Hh ->].
  apply mbind_ok in H as (u2' & s' & H2' & H). apply lift_ok in H2' as [Hf ->].
  apply mbind_ok in H as (u3 & s' & H3 & H).
  destruct (cfg_hyp_token cfg token) as [origin|]; [|discriminate].
  destruct (negb (String.eqb origin (t_ddenom t))); [discriminate|].
  cbv zeta in H.
  unfold hyp_transfer_charged in H.
  destruct (ext (CHypTransfer (cfg_orbiter_bech cfg) token domain rcp (t_damt t) (opt_str hook) gas fd fa md) s') as [v sx] eqn:E.
  destruct (v && gas_ok fd fa gd q && _) eqn:C; [|discriminate].
  apply andb_true_iff in C as [C Hb]. apply andb_true_iff in C as [-> Hok].
  inversion H; subst u s1. clear H.
  eexists _, _. split; [|split; [reflexivity|split]].
  - unfold mbind, lift. rewrite Hv, Hh, Hf, H3. cbv beta iota zeta delta [no_gas].
    unfold ext_moving. rewrite E. cbn [fold_left]. destruct u3. reflexivity.
  - split. exists token, domain, rcp, hook, md, gas, fd, fa, payee, gd, q. auto.
  - cbn [paid_from]. split; [reflexivity|]. unfold gas_ok in Hok. apply andb_true_iff in Hok as [_ Hq].
    apply Z.ltb_lt in Hq. apply Z.leb_le in Hb. lia.
Qed.

Lemma run_forwarding_charged x g cfg e lie pp ccp f t s u s1 :
  run_forwarding_with (forward_ctrl_with x false g) cfg e lie pp ccp (Some f) t s = POk u s1 ->
  match f_attrs f with Some a => attrs_gas_free g a | None => true end = false ->
  exists a m s1', f_attrs f = Some a /\
    run_forwarding_with (forward_ctrl_with x false no_gas) cfg e lie pp ccp (Some f) t s = POk u s1' /\
    s1 = do_move m s1' /\ charge cfg g a m /\ paid_from cfg m (ps_l s1').
Proof.
  unfold run_forwarding_with. intros H Hg.
  apply mbind_ok in H as (u1 & s' & H1 & H). apply lift_ok in H1 as [Hv ->].
  apply mbind_ok in H as (u2 & s' & H2 & H). apply lift_ok in H2 as [Ht ->].
  destruct (f_attrs f) as [a|] eqn:Ha; [|discriminate].
  destruct (counterparty_of a) as [cp|] eqn:Hcp; [|discriminate].
  destruct (pp (f_pid f)) eqn:Hpp; [discriminate|].
  destruct (negb (ccid_valid {| c_proto := f_pid f; c_cp := cp |})) eqn:Hcc; [discriminate|].
  destruct (ccp (f_pid f) cp) eqn:Hcpp; [discriminate|].
  destruct (negb (bal (ps_l s) (cfg_orbiter cfg) (t_ddenom t) + lie =? t_damt t)) eqn:Hb; [discriminate|].
  destruct (negb (existsb (Z.eqb (f_pid f)) (cfg_fwd_routes cfg))) eqn:Hr; [discriminate|].
  apply forward_ctrl_charged in H as (m & s1' & Hp & -> & Hc & Hpaid); [|exact Hg].
  exists a, m, s1'. split; [reflexivity|]. split; [|split; [reflexivity|split; [exact Hc|exact Hpaid]]].
  unfold mbind, lift. rewrite Hv, Ht. cbv beta iota. rewrite Hb. exact Hp.
Qed.

Lemma recv_body_charged g cfg acts e lie o p pl f t s t' s1 :
  recv_body (with_gas repaired g) cfg acts e lie o p pl f t s = POk t' s1 ->
  match f_attrs f with Some a => attrs_gas_free g a | None => true end = false ->
  exists a m s1', f_attrs f = Some a /\
    recv_body repaired cfg acts e lie o p pl f t s = POk t' s1' /\ s1 = do_move m s1' /\ charge cfg g a m /\
    paid_from cfg m (ps_l s1').
Proof.
  unfold recv_body. cbn [with_gas repaired v_allow_self v_hyp_log_first v_gas]. intros H Hg.
  apply mbind_ok in H as (prior & sa & Ha & H).
  apply mbind_ok in H as (ub & sb & Hb & H).
  apply mbind_ok in H as (uc & sc & Hc & H).
  apply mbind_ok in H as (t1 & sd & Hd & H).
  apply mbind_ok in H as (ue & se & He & H).
  inversion H; subst t1 se. clear H.
  apply run_forwarding_charged in He as (a & m & s1' & Hfa & Hp & -> & Hch & Hpaid); [|exact Hg].
  exists a, m, s1'. split; [exact Hfa|]. split; [|split; [reflexivity|split; [exact Hch|exact Hpaid]]].
  unfold mbind. rewrite Ha, Hb, Hc, Hd, Hp. reflexivity.
Qed.

Lemma delegate_not_ok cfg e w p s : rr_out (delegate cfg e w p s) <> OAckOk.
Proof. unfold delegate. destruct (ext CWrapped s) as [v s1]. destruct v; discriminate. Qed.

Theorem recv_gas_charged g cfg e w p tape lie :
  rr_out (recv_gas g cfg e w p tape lie) = OAckOk ->
  pkt_gas_free g p = false ->
  exists a m,
    (exists denom amount sender receiver pl f,
        pk_data p = PIcs denom amount sender receiver (Ok pl) /\ p_fwd pl = Some f /\ f_attrs f = Some a) /\
    charge cfg g a m /\
    rr_out (recv_lie cfg e w p tape lie) = OAckOk /\
    rr_trace (recv_gas g cfg e w p tape lie) = rr_trace (recv_lie cfg e w p tape lie) /\
    rr_moves (recv_gas g cfg e w p tape lie) = rr_moves (recv_lie cfg e w p tape lie) ++ [m] /\
    w_o (rr_world (recv_gas g cfg e w p tape lie)) = w_o (rr_world (recv_lie cfg e w p tape lie)) /\
    w_l (rr_world (recv_gas g cfg e w p tape lie)) = apply_move (w_l (rr_world (recv_lie cfg e w p tape lie))) m /\
    rr_stat (recv_gas g cfg e w p tape lie) = rr_stat (recv_lie cfg e w p tape lie) /\
    paid_from cfg m (w_l (rr_world (recv_lie cfg e w p tape lie))).
Proof.
  unfold recv_gas, recv_lie, recv_with, recv_generic.
  change (is_orbiter_receiver (with_gas repaired g)) with (is_orbiter_receiver repaired).
  change (parse_orbiter_packet (with_gas repaired g)) with (parse_orbiter_packet repaired).
  change (v_stats_strict (with_gas repaired g)) with (v_stats_strict repaired).
  intros H Hg.
  destruct (negb (ccid_valid _)); [discriminate|].
  destruct (_ || _); [discriminate|].
  destruct (negb (existsb _ _)); [discriminate|].
  unfold pkt_gas_free in Hg.
  destruct (pk_data p) as [|denom amount sender receiver memo] eqn:Hdata; [discriminate|].
  destruct (negb (is_orbiter_receiver repaired cfg e receiver)); [exfalso; eapply delegate_not_ok; eauto|].
  destruct (parse_orbiter_packet repaired e p denom amount memo) as [[t pl']| |] eqn:Hp; [|discriminate|discriminate].
  destruct memo as [pl| |]; try discriminate.
  apply parse_ok_payload in Hp as ->.
  destruct (p_fwd pl) as [f|] eqn:Hfwd; [|discriminate].
  destruct (pass_limit (w_o w) <? slen (f_pass f)); [discriminate|].
  match type of H with context [recv_body ?vr ?c ?ac ?en ?li ?o ?pk ?pl0 ?f0 ?t0 ?s0] =>
    destruct (recv_body vr c ac en li o pk pl0 f0 t0 s0) as [t' s1|l s1|y] eqn:Hb end; [|discriminate|discriminate].
  apply recv_body_charged in Hb as (a & m & s1' & Hfa & Hplain & -> & Hch & Hpaid); [|exact Hg].
  rewrite Hplain. exists a, m. split; [exists denom, amount, sender, receiver, pl, f; auto|]. split; [exact Hch|].
  destruct (update_stats_swallow (v_stats_strict repaired) (w_o w) t' f) as [o'| |]; [|discriminate|discriminate].
  rewrite ext_do_move in H |- *.
  assert (Hl : ps_l (snd (ext (CEmit "EventPayloadProcessed") s1')) = ps_l s1')
    by (unfold ext; destruct (ps_tape s1'); reflexivity).
  destruct (ext (CEmit "EventPayloadProcessed") s1') as [v s2]. cbn [fst snd] in *.
  destruct v; [|discriminate].
  cbn [with_stat result_of rr_out rr_trace rr_moves rr_world rr_stat w_o w_l do_move ps_l ps_trace ps_moves rev].
  rewrite Hl. repeat split; try reflexivity; exact Hpaid.
Qed.


(* ---------- conservation on ANY chain: the movements of a successful transfer are those of C02, followed by
   at most one more - the gas payment of a charging hook ---------- *)
Definition gas_payment (cfg : config) (g : gas_fn) (m : move) : Prop :=
  exists hook domain gas fd fa payee gd q,
    g hook domain gas = Some (payee, gd, q) /\ m = MSend (cfg_orbiter cfg) payee gd q /\ gas_ok fd fa gd q = true.

Theorem success_moves_hooks g cfg e w p tape :
  wf_cfg cfg ->
  rr_out (recv_gas g cfg e w p tape 0) = OAckOk ->
  exists d A fees sink extra,
    let orb := cfg_orbiter cfg in
    let prior := bal (w_l w) orb d in
    let out := A - moves_total fees in
    rr_moves (recv_gas g cfg e w p tape 0) =
      (sweep_moves cfg d prior ++ [MSend (cfg_escrow cfg (pk_dport p) (pk_dchan p)) orb d A] ++ fees ++ [sink]) ++ extra /\
    w_l (rr_world (recv_gas g cfg e w p tape 0)) = apply_moves (w_l w) (rr_moves (recv_gas g cfg e w p tape 0)) /\
    Forall (fee_move_ok cfg d) fees /\
    route_sink cfg e d out sink /\
    0 < out /\ 0 < A /\
    (extra = [] \/ exists m, extra = [m] /\ gas_payment cfg g m).
Proof.
  intros Hwf H. destruct (pkt_gas_free g p) eqn:Hg.
  - rewrite (recv_gas_same g cfg e w p tape 0 Hg) in *.
    destruct (success_moves cfg e w p tape Hwf H) as (d & A & fees & sink & Hm & Hl & Hf & Hs & Ho & HA).
    exists d, A, fees, sink, []. cbv zeta. rewrite app_nil_r. repeat split; auto.
  - destruct (recv_gas_charged g cfg e w p tape 0 H Hg) as (a & m & _ & Hch & Hok & _ & Hmv & _ & Hl & _ & _).
    destruct (success_moves cfg e w p tape Hwf Hok) as (d & A & fees & sink & Hm & Hl0 & Hf & Hs & Ho & HA).
    exists d, A, fees, sink, [m]. cbv zeta. cbv zeta in Hm.
    split; [rewrite Hmv; unfold recv; rewrite <- Hm; reflexivity|].
    split; [rewrite Hl, Hmv, apply_moves_app; unfold recv in Hl0; rewrite Hl0; reflexivity|].
    repeat split; auto. right. exists m. split; [reflexivity|].
    destruct Hch as [(token & domain & rcp & hook & md & gas & fd & fa & payee & gd & q & _ & G & -> & Hok')].
    exists (opt_str hook), domain, gas, fd, fa, payee, gd, q. auto.
Qed.

(* ---------- C01 on ANY chain: a successful transfer leaves nothing of the delivered denomination on the
   orbiter account; its other balances do not grow, and the only way one shrinks is a gas payment that was
   there to be taken (never below zero) ---------- *)
Theorem success_clears_hooks g cfg e w p tape :
  wf_cfg cfg ->
  rr_out (recv_gas g cfg e w p tape 0) = OAckOk ->
  exists d,
    bal (w_l (rr_world (recv_gas g cfg e w p tape 0))) (cfg_orbiter cfg) d = 0 /\
    forall d', d' <> d -> 0 <= bal (w_l w) (cfg_orbiter cfg) d' ->
      0 <= bal (w_l (rr_world (recv_gas g cfg e w p tape 0))) (cfg_orbiter cfg) d' <= bal (w_l w) (cfg_orbiter cfg) d'.
Proof.
  intros Hwf H. destruct (pkt_gas_free g p) eqn:Hg.
  - rewrite (recv_gas_same g cfg e w p tape 0 Hg) in *.
    destruct (success_clears cfg e w p tape Hwf H) as (_ & _ & _ & _ & _ & d & _ & _ & _ & Hz & Ho).
    exists d. split; [exact Hz|]. intros d' Hne Hnn. unfold recv in Ho. rewrite (Ho _ _ Hne). lia.
  - destruct (recv_gas_charged g cfg e w p tape 0 H Hg) as (a & m & _ & _ & Hok & _ & _ & _ & Hl & _ & Hpaid).
    destruct (success_clears cfg e w p tape Hwf Hok) as (_ & _ & _ & _ & _ & d & _ & _ & _ & Hz & Ho).
    unfold recv in Hz, Ho. exists d. rewrite Hl.
    destruct m as [f payee gd q| |]; cbn [paid_from] in Hpaid; try contradiction. destruct Hpaid as [-> [Hq Hle]].
    assert (Hgd : gd <> d) by (intros ->; rewrite Hz in Hle; lia).
    split.
    + rewrite bal_apply_move, Hz, net_other_denom by (cbn; exact Hgd). reflexivity.
    + intros d' Hne Hnn. rewrite bal_apply_move, (Ho _ _ Hne).
      destruct (string_dec d' gd) as [->|Hne2].
      * rewrite (Ho _ _ Hgd) in Hle. unfold net, hit. rewrite !String.eqb_refl, ?andb_true_r. cbn [andb].
        destruct (String.eqb (cfg_orbiter cfg) payee); lia.
      * rewrite net_other_denom by (cbn; congruence). lia.
Qed.

(* ---------- the converse: a transfer that succeeds without the hook succeeds through it exactly when the
   max fee admits the quote and the orbiter account holds the quote once the collateral has left ---------- *)
Lemma forward_ctrl_charge_complete x g cfg e pid t s u s1' token domain rcp hook md gas fd fa payee gd q :
  forward_ctrl_with x false no_gas cfg e pid (AHyp token domain rcp hook md gas fd fa) t s = POk u s1' ->
  g (opt_str hook) domain gas = Some (payee, gd, q) ->
  gas_ok fd fa gd q = true ->
  q <= bal (ps_l s1') (cfg_orbiter cfg) gd ->
  forward_ctrl_with x false g cfg e pid (AHyp token domain rcp hook md gas fd fa) t s =
    POk u (do_move (MSend (cfg_orbiter cfg) payee gd q) s1').
Proof.
  unfold forward_ctrl_with. intros H G Hok Hq.
  destruct (pid =? protocol_cctp); [discriminate|].
  destruct (pid =? protocol_hyperlane); [|destruct (pid =? protocol_internal); discriminate].
  cbn [andb] in *.
  apply mbind_ok in H as (u1 & s' & H1 & H). apply lift_ok in H1 as [Hv ->].
  apply mbind_ok in H as (u2 & s' & H2 & H). apply lift_ok in H2 as [Hh ->].
  apply mbind_ok in H as (u2' & s' & H2' & H). apply lift_ok in H2' as [Hf ->].
  apply mbind_ok in H as (u3 & s' & H3 & H).
  unfold mbind, lift. rewrite Hv, Hh, Hf, H3.
  destruct (cfg_hyp_token cfg token) as [origin|]; [|discriminate].
  destruct (negb (String.eqb origin (t_ddenom t))); [discriminate|].
  cbv beta iota zeta delta [no_gas] in H. cbv zeta. rewrite G.
  unfold ext_moving in H. unfold hyp_transfer_charged.
  destruct (ext (CHypTransfer (cfg_orbiter_bech cfg) token domain rcp (t_damt t) (opt_str hook) gas fd fa md) s') as [v sx].
  destruct v; [|discriminate]. cbn [fold_left] in H. inversion H; subst u s1'. clear H.
  rewrite Hok. cbn [andb]. apply Z.leb_le in Hq. rewrite Hq. destruct u3. reflexivity.
Qed.

Lemma run_forwarding_charge_complete x g cfg e lie pp ccp f t s u s1' token domain rcp hook md gas fd fa payee gd q :
  run_forwarding_with (forward_ctrl_with x false no_gas) cfg e lie pp ccp (Some f) t s = POk u s1' ->
  f_attrs f = Some (AHyp token domain rcp hook md gas fd fa) ->
  g (opt_str hook) domain gas = Some (payee, gd, q) ->
  gas_ok fd fa gd q = true ->
  q <= bal (ps_l s1') (cfg_orbiter cfg) gd ->
  run_forwarding_with (forward_ctrl_with x false g) cfg e lie pp ccp (Some f) t s =
    POk u (do_move (MSend (cfg_orbiter cfg) payee gd q) s1').
Proof.
  unfold run_forwarding_with. intros H Ha G Hok Hq.
  apply mbind_ok in H as (u1 & s' & H1 & H). apply lift_ok in H1 as [Hv ->].
  apply mbind_ok in H as (u2 & s' & H2 & H). apply lift_ok in H2 as [Ht ->].
  unfold mbind, lift. rewrite Hv, Ht. rewrite Ha in *.
  destruct (counterparty_of _) as [cp|]; [|discriminate].
  destruct (pp (f_pid f)); [discriminate|].
  destruct (negb (ccid_valid _)); [discriminate|].
  destruct (ccp (f_pid f) cp); [discriminate|].
  destruct (negb (bal (ps_l s) (cfg_orbiter cfg) (t_ddenom t) + lie =? t_damt t)); [discriminate|].
  destruct (negb (existsb _ _)); [discriminate|].
  eapply forward_ctrl_charge_complete; eauto.
Qed.

Lemma recv_body_charge_complete g cfg acts e lie o p pl f t s t' s1' token domain rcp hook md gas fd fa payee gd q :
  recv_body repaired cfg acts e lie o p pl f t s = POk t' s1' ->
  f_attrs f = Some (AHyp token domain rcp hook md gas fd fa) ->
  g (opt_str hook) domain gas = Some (payee, gd, q) ->
  gas_ok fd fa gd q = true ->
  q <= bal (ps_l s1') (cfg_orbiter cfg) gd ->
  recv_body (with_gas repaired g) cfg acts e lie o p pl f t s =
    POk t' (do_move (MSend (cfg_orbiter cfg) payee gd q) s1').
Proof.
  unfold recv_body. cbn [with_gas repaired v_allow_self v_hyp_log_first v_gas]. intros H Hfa G Hok Hq.
  apply mbind_ok in H as (prior & sa & Ha & H).
  apply mbind_ok in H as (ub & sb & Hb & H).
  apply mbind_ok in H as (uc & sc & Hc & H).
  apply mbind_ok in H as (t1 & sd & Hd & H).
  apply mbind_ok in H as (ue & se & He & H).
  inversion H; subst t1 se. clear H.
  unfold mbind. rewrite Ha, Hb, Hc, Hd.
  erewrite run_forwarding_charge_complete; eauto.
Qed.

(* the world after the packet, on the chain without the hook *)
Theorem recv_gas_charge_complete g cfg e w p tape lie denom amount sender receiver pl f
        token domain rcp hook md gas fd fa payee gd q :
  rr_out (recv_lie cfg e w p tape lie) = OAckOk ->
  pk_data p = PIcs denom amount sender receiver (Ok pl) -> p_fwd pl = Some f ->
  f_attrs f = Some (AHyp token domain rcp hook md gas fd fa) ->
  g (opt_str hook) domain gas = Some (payee, gd, q) ->
  gas_ok fd fa gd q = true ->
  q <= bal (w_l (rr_world (recv_lie cfg e w p tape lie))) (cfg_orbiter cfg) gd ->
  rr_out (recv_gas g cfg e w p tape lie) = OAckOk.
Proof.
  unfold recv_gas, recv_lie, recv_with, recv_generic.
  change (is_orbiter_receiver (with_gas repaired g)) with (is_orbiter_receiver repaired).
  change (parse_orbiter_packet (with_gas repaired g)) with (parse_orbiter_packet repaired).
  change (v_stats_strict (with_gas repaired g)) with (v_stats_strict repaired).
  intros H Hd Hf Hfa G Hok Hq.
  destruct (negb (ccid_valid _)); [discriminate|].
  destruct (_ || _); [discriminate|].
  destruct (negb (existsb _ _)); [discriminate|].
  rewrite Hd in *.
  destruct (negb (is_orbiter_receiver repaired cfg e receiver)); [exfalso; eapply delegate_not_ok; eauto|].
  destruct (parse_orbiter_packet repaired e p denom amount (Ok pl)) as [[t pl']| |] eqn:Hp; [|discriminate|discriminate].
  apply parse_ok_payload in Hp as ->. rewrite Hf in *.
  destruct (pass_limit (w_o w) <? slen (f_pass f)); [discriminate|].
  match type of H with context [recv_body ?vr ?c ?ac ?en ?li ?o ?pk ?pl0 ?f0 ?t0 ?s0] =>
    destruct (recv_body vr c ac en li o pk pl0 f0 t0 s0) as [t' s1'|l s1'|y] eqn:Hb end; [|discriminate|discriminate].
  destruct (update_stats_swallow (v_stats_strict repaired) (w_o w) t' f) as [o'| |] eqn:Hu; [|discriminate|discriminate].
  assert (Hl : ps_l (snd (ext (CEmit "EventPayloadProcessed") s1')) = ps_l s1')
    by (unfold ext; destruct (ps_tape s1'); reflexivity).
  destruct (ext (CEmit "EventPayloadProcessed") s1') as [v s2] eqn:E. destruct v; [|discriminate].
  cbn [with_stat result_of rr_world w_l snd] in Hq, Hl. rewrite Hl in Hq.
  erewrite recv_body_charge_complete; eauto.
  rewrite ext_do_move, E. cbn [fst snd]. rewrite Hu. reflexivity.
Qed.
