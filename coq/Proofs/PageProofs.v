(* Statistics queries and pagination (C13): lookups, listings and walks are faithful views of the ledger. *)
From Coq Require Import String Ascii List ZArith Bool Lia Sorted Arith.
From Orbiter Require Import Lib.Str Lib.Res Gen.Constants Model.Ids Model.State Model.Page
     Proofs.IdsProofs Proofs.SetProofs Proofs.OrderTheory Proofs.GenesisProofs.
Import ListNotations.
Open Scope Z_scope.
Open Scope list_scope.

(* ---------- generic pagination theory ---------- *)
Section PageTheory.
  Context {K A : Type} (cmp : K -> K -> comparison) (keyof : A -> K).
  Hypothesis O : order cmp.

  Definition flip_cmp (a b : K) : comparison := cmp b a.
  Lemma order_flip : order flip_cmp.
  Proof.
    unfold flip_cmp. split.
    - intros a b. rewrite (o_eq _ O). split; intros ->; reflexivity.
    - intros a b. apply (o_anti _ O).
    - intros a b c H1 H2. eapply (o_trans _ O); eauto.
  Qed.

  Definition asorted (l : list A) : Prop := ssorted cmp (map keyof l).
  Definition dir_of (rv : bool) (l : list A) : list A := if rv then rev l else l.
  Definition eff (limit : nat) : nat := if Nat.eqb limit 0 then default_limit else limit.
  Definition next_of (l : list A) : option K := match l with x :: _ => Some (keyof x) | [] => None end.

  Lemma eff_pos n : (1 <= eff n)%nat.
  Proof. unfold eff, default_limit. destruct (Nat.eqb_spec n 0); lia. Qed.

  Lemma rev_sorted_keys (l : list K) : ssorted cmp l -> ssorted flip_cmp (rev l).
  Proof.
    induction 1 as [|y t Ht IH Hall]; cbn [rev]; [constructor|].
    apply (sorted_app_last flip_cmp); [exact IH|].
    apply Forall_rev. eapply Forall_impl; [|exact Hall]. intros z Hz. exact Hz.
  Qed.
  Lemma rev_sorted l : asorted l -> ssorted flip_cmp (map keyof (rev l)).
  Proof. unfold asorted. rewrite map_rev. apply rev_sorted_keys. Qed.

  Lemma drop_ext (f g : A -> bool) l : (forall a, f a = g a) -> drop_while f l = drop_while g l.
  Proof. intros E. induction l as [|x r IH]; cbn [drop_while]; [reflexivity|]. rewrite E, IH. reflexivity. Qed.

  (* seeking to the key of an element of a sorted run lands on that element *)
  Lemma drop_to (c : K -> K -> comparison) (Oc : order c) x b : forall pre,
    ssorted c (map keyof (pre ++ x :: b)) ->
    drop_while (fun a => match c (keyof a) (keyof x) with Lt => true | _ => false end) (pre ++ x :: b) = x :: b.
  Proof.
    induction pre as [|a pre IH]; cbn [app map drop_while]; intros H.
    - rewrite (proj2 (o_eq _ Oc (keyof x) (keyof x)) eq_refl). reflexivity.
    - inversion H as [|? ? Ht Hall]; subst. rewrite Forall_forall in Hall.
      assert (Hax : c (keyof a) (keyof x) = Lt).
      { apply Hall. apply in_map. apply in_or_app. right. left. reflexivity. }
      rewrite Hax. apply IH. exact Ht.
  Qed.

  Definition key_req (k : K) (n : nat) (ct rv : bool) : page_req K :=
    {| pr_key := Some k; pr_offset := 0; pr_limit := n; pr_count_total := ct; pr_reverse := rv |}.
  Definition off_req (off n : nat) (ct rv : bool) : page_req K :=
    {| pr_key := None; pr_offset := off; pr_limit := n; pr_count_total := ct; pr_reverse := rv |}.

  (* a page addressed by the key of an element: the run that starts at that element *)
  Lemma page_key l n ct rv pre x b :
    asorted l -> dir_of rv l = pre ++ x :: b ->
    paginate cmp keyof l (key_req (keyof x) n ct rv) =
      Ok {| pg_items := firstn (eff n) (x :: b); pg_next := next_of (skipn (eff n) (x :: b)); pg_total := 0 |}.
  Proof.
    intros Hs Hd. unfold paginate, key_req. cbn [pr_key pr_offset pr_limit pr_count_total pr_reverse].
    change (Nat.ltb 0 0) with false. cbv iota. fold (eff n). unfold dir_of in Hd.
    destruct rv.
    - rewrite (drop_ext _ (fun a => match flip_cmp (keyof a) (keyof x) with Lt => true | _ => false end)).
      2:{ intros a. unfold flip_cmp. rewrite (o_anti _ O (keyof a) (keyof x)). destruct (cmp (keyof a) (keyof x)); reflexivity. }
      rewrite Hd. rewrite (drop_to flip_cmp order_flip).
      + reflexivity.
      + rewrite <- Hd. apply rev_sorted. exact Hs.
    - rewrite Hd. rewrite (drop_to cmp O).
      + reflexivity.
      + rewrite <- Hd. exact Hs.
  Qed.

  (* a page addressed by an offset: that chunk of the listing, and the total when asked for *)
  Lemma page_offset l off n ct rv :
    (off <= length l)%nat ->
    paginate cmp keyof l (off_req off n ct rv) =
      Ok {| pg_items := firstn (eff n) (skipn off (dir_of rv l));
            pg_next := next_of (skipn (eff n) (skipn off (dir_of rv l)));
            pg_total := if (if Nat.eqb n 0 then true else ct) then length l else 0%nat |}.
  Proof.
    intros Hoff. unfold paginate, off_req. cbn [pr_key pr_offset pr_limit pr_count_total pr_reverse].
    fold (eff n). fold (dir_of rv l).
    assert (Hlen : length (dir_of rv l) = length l) by (unfold dir_of; destruct rv; [apply rev_length|reflexivity]).
    rewrite Hlen. destruct (Nat.ltb_spec (length l) off) as [Hlt|_]; [lia|]. reflexivity.
  Qed.

  Lemma page_beyond l off n ct rv :
    (length l < off)%nat ->
    paginate cmp keyof l (off_req off n ct rv) = Ok {| pg_items := []; pg_next := None; pg_total := 0 |}.
  Proof.
    intros Hoff. unfold paginate, off_req. cbn [pr_key pr_offset pr_limit pr_count_total pr_reverse].
    fold (dir_of rv l).
    assert (Hlen : length (dir_of rv l) = length l) by (unfold dir_of; destruct rv; [apply rev_length|reflexivity]).
    rewrite Hlen. destruct (Nat.ltb_spec (length l) off) as [_|Hge]; [reflexivity|lia].
  Qed.

  Lemma page_both l k off n ct rv : (0 < off)%nat ->
    exists m, paginate cmp keyof l {| pr_key := Some k; pr_offset := off; pr_limit := n; pr_count_total := ct; pr_reverse := rv |} = Err m.
  Proof.
    intros H. unfold paginate. cbn [pr_key pr_offset]. destruct (Nat.ltb_spec 0 off) as [_|Hle]; [|lia]. eexists. reflexivity.
  Qed.

  Lemma walk_none fuel l n rv : walk cmp keyof fuel l n rv None false = [].
  Proof. destruct fuel; reflexivity. Qed.

  Definition pages_ok (n : nat) (W : list (list A)) (run : list A) : Prop :=
    concat W = run /\ Forall (fun p => (length p <= eff n)%nat) W.

  Lemma walk_key l n rv : asorted l -> forall fuel pre x b,
    dir_of rv l = pre ++ x :: b -> (length (x :: b) <= fuel)%nat ->
    pages_ok n (walk cmp keyof fuel l n rv (Some (keyof x)) false) (x :: b).
  Proof.
    intros Hs. induction fuel as [|fuel IH]; intros pre x b Hd Hlen; [cbn [length] in Hlen; lia|].
    cbn [walk]. fold (key_req (keyof x) n false rv). rewrite (page_key l n false rv pre x b Hs Hd).
    cbn [pg_items pg_next]. pose proof (firstn_skipn (eff n) (x :: b)) as Hfs.
    pose proof (eff_pos n) as Hpos.
    destruct (skipn (eff n) (x :: b)) as [|y c] eqn:Es; cbn [next_of].
    - rewrite walk_none. rewrite app_nil_r in Hfs. split.
      + cbn [concat]. rewrite app_nil_r. exact Hfs.
      + constructor; [apply firstn_le_length|constructor].
    - assert (Hd' : dir_of rv l = (pre ++ firstn (eff n) (x :: b)) ++ y :: c).
      { rewrite <- app_assoc, Hfs. exact Hd. }
      assert (Hl : (length (y :: c) <= fuel)%nat).
      { pose proof (f_equal (@length A) Es) as HL. rewrite skipn_length in HL. cbn [length] in *. lia. }
      destruct (IH _ _ _ Hd' Hl) as [Hc Hf]. split.
      + cbn [concat]. rewrite Hc. exact Hfs.
      + constructor; [apply firstn_le_length|exact Hf].
  Qed.

  (* following next-keys from the start visits the listing (or its reverse) exactly, in pages of at most the limit *)
  Theorem walk_all l n rv fuel :
    asorted l -> (length l <= fuel)%nat ->
    pages_ok n (walk cmp keyof (S fuel) l n rv None true) (dir_of rv l).
  Proof.
    intros Hs Hlen. cbn [walk]. fold (off_req 0 n false rv). rewrite page_offset by lia.
    cbn [pg_items pg_next skipn]. pose proof (firstn_skipn (eff n) (dir_of rv l)) as Hfs.
    pose proof (eff_pos n) as Hpos.
    assert (HL0 : length (dir_of rv l) = length l) by (unfold dir_of; destruct rv; [apply rev_length|reflexivity]).
    destruct (skipn (eff n) (dir_of rv l)) as [|y c] eqn:Es; cbn [next_of].
    - rewrite walk_none. rewrite app_nil_r in Hfs. split.
      + cbn [concat]. rewrite app_nil_r. exact Hfs.
      + constructor; [apply firstn_le_length|constructor].
    - assert (Hl : (length (y :: c) <= fuel)%nat).
      { pose proof (f_equal (@length A) Es) as HL. rewrite skipn_length in HL. cbn [length] in *. lia. }
      destruct (walk_key l n rv Hs fuel (firstn (eff n) (dir_of rv l)) y c (eq_sym Hfs) Hl) as [Hc Hf]. split.
      + cbn [concat]. rewrite Hc. exact Hfs.
      + constructor; [apply firstn_le_length|exact Hf].
  Qed.

  (* each entry of the listing is visited exactly once *)
  Corollary walk_once l n rv fuel :
    asorted l -> (length l <= fuel)%nat ->
    let visited := concat (walk cmp keyof (S fuel) l n rv None true) in
    NoDup (map keyof visited) /\ (forall a, In a visited <-> In a l) /\ length visited = length l.
  Proof.
    intros Hs Hlen visited. destruct (walk_all l n rv fuel Hs Hlen) as [Hc _]. subst visited. rewrite Hc.
    unfold dir_of. destruct rv.
    - split; [|split].
      + rewrite map_rev. apply NoDup_rev. apply (sorted_nodup cmp O). exact Hs.
      + intros a. rewrite <- in_rev. reflexivity.
      + apply rev_length.
    - split; [|split]; [apply (sorted_nodup cmp O); exact Hs|reflexivity|reflexivity].
  Qed.
End PageTheory.

(* ---------- filtered listings stay sorted ---------- *)
Lemma filter_msorted {K V} (cmp : K -> K -> comparison) (f : K * V -> bool) (m : list (K * V)) :
  msorted cmp m -> msorted cmp (filter f m).
Proof.
  unfold msorted. induction m as [|e t IH]; cbn [filter map]; intros H; [constructor|].
  inversion H as [|? ? Ht Hall]; subst. destruct (f e); [|apply IH; exact Ht].
  cbn [map]. constructor; [apply IH; exact Ht|].
  apply Forall_forall. intros z Hz. rewrite Forall_forall in Hall. apply Hall.
  apply in_map_iff in Hz as (x & <- & Hx). apply filter_In in Hx as [Hx _]. apply in_map. exact Hx.
Qed.

Lemma nodup_of_keys {K V} (m : list (K * V)) : NoDup (map fst m) -> NoDup m.
Proof. apply NoDup_map_inv. Qed.

Lemma In_mget {K V} (cmp : K -> K -> comparison) (O : order cmp) (k : K) (v : V) (m : list (K * V)) :
  msorted cmp m -> In (k, v) m -> mget cmp k m = Some v.
Proof.
  unfold msorted. induction m as [|[k0 v0] t IH]; cbn [map fst mget]; intros Hs Hin; [destruct Hin|].
  inversion Hs as [|? ? Ht Hall]; subst. destruct Hin as [E|Hin].
  - inversion E; subst. unfold keqb. rewrite (proj2 (o_eq _ O k k) eq_refl). reflexivity.
  - assert (Hlt : cmp k0 k = Lt).
    { rewrite Forall_forall in Hall. apply Hall. apply (in_map fst) in Hin. exact Hin. }
    unfold keqb. rewrite (o_anti _ O k0 k), Hlt. cbn. apply IH; assumption.
Qed.

Lemma keqb_eq {K} (cmp : K -> K -> comparison) (O : order cmp) a b : keqb cmp a b = true -> a = b.
Proof. unfold keqb. destruct (cmp a b) eqn:E; try discriminate. intros _. apply (o_eq _ O). exact E. Qed.

(* ---------- the listings of the dispatcher ---------- *)
Section Listings.
  Variable o : ostate.
  Hypothesis I : Inv o.

  Lemma dst_of_ok e : In e (amounts o) -> exists d, ccid_valid d = true /\ ak_dst (fst e) = ccid_id d /\ dst_of (fst e) = Some d.
  Proof.
    intros Hin. pose proof (iv_amounts_ok o I) as Hall. rewrite Forall_forall in Hall.
    destruct (Hall e Hin) as (_ & (d & Hv & Hd) & _). exists d. split; [exact Hv|]. split; [exact Hd|].
    unfold dst_of. rewrite Hd. apply ccid_roundtrip_with. exact Hv.
  Qed.

  Theorem by_source_exact pid e : In e (amounts_by_source o pid) <-> In e (amounts o) /\ ak_sp (fst e) = pid.
  Proof. unfold amounts_by_source. rewrite filter_In, Z.eqb_eq. reflexivity. Qed.

  Theorem by_dest_exact pid e :
    In e (amounts_by_dest o pid) <->
    In e (amounts o) /\ exists d, ccid_valid d = true /\ ak_dst (fst e) = ccid_id d /\ c_proto d = pid.
  Proof.
    unfold amounts_by_dest. rewrite filter_In. split.
    - intros [Hin Hf]. split; [exact Hin|]. destruct (dst_of_ok e Hin) as (d & Hv & Hd & Hp). rewrite Hp in Hf.
      exists d. apply Z.eqb_eq in Hf. auto.
    - intros [Hin (d & Hv & Hd & Hp)]. split; [exact Hin|]. unfold dst_of. rewrite Hd.
      unfold parse_ccid. rewrite (ccid_roundtrip_with _ d Hv). apply Z.eqb_eq. exact Hp.
  Qed.

  Theorem counts_by_source_exact pid e : In e (counts_by_source o pid) <-> In e (counts o) /\ ck_sp (fst e) = pid.
  Proof. unfold counts_by_source. rewrite filter_In, Z.eqb_eq. reflexivity. Qed.
  Theorem counts_by_dest_exact pid e : In e (counts_by_dest o pid) <-> In e (counts o) /\ ck_dp (fst e) = pid.
  Proof. unfold counts_by_dest. rewrite filter_In, Z.eqb_eq. reflexivity. Qed.

  Lemma amounts_sorted_src pid : asorted cmp_ak fst (amounts_by_source o pid).
  Proof. apply filter_msorted. apply (iv_amounts_sorted o I). Qed.
  Lemma amounts_sorted_dst pid : asorted cmp_ak fst (amounts_by_dest o pid).
  Proof. apply filter_msorted. apply (iv_amounts_sorted o I). Qed.
  Lemma counts_sorted_src pid : asorted cmp_ck fst (counts_by_source o pid).
  Proof. apply filter_msorted. apply (iv_counts_sorted o I). Qed.
  Lemma counts_sorted_dst pid : asorted cmp_ck fst (counts_by_dest o pid).
  Proof. apply filter_msorted. apply (iv_counts_sorted o I). Qed.

  Theorem listings_nodup pid :
    NoDup (amounts_by_source o pid) /\ NoDup (amounts_by_dest o pid) /\ NoDup (counts_by_source o pid) /\ NoDup (counts_by_dest o pid).
  Proof.
    repeat split; apply nodup_of_keys.
    - apply (sorted_nodup cmp_ak order_ak), amounts_sorted_src.
    - apply (sorted_nodup cmp_ak order_ak), amounts_sorted_dst.
    - apply (sorted_nodup cmp_ck order_ck), counts_sorted_src.
    - apply (sorted_nodup cmp_ck order_ck), counts_sorted_dst.
  Qed.

  (* ---------- direct lookups ---------- *)
  Theorem lookup_amount_exact sn sc dn dc den k v :
    lookup_amount o sn sc dn dc den = Ok (k, v) <->
    exists sp dp, protocol_from_string sn = Some sp /\ protocol_from_string dn = Some dp /\
                  ccid_valid {| c_proto := sp; c_cp := sc |} = true /\ ccid_valid {| c_proto := dp; c_cp := dc |} = true /\ den <> ""%string /\
                  k = {| ak_sp := sp; ak_sc := sc; ak_dst := ccid_id {| c_proto := dp; c_cp := dc |}; ak_denom := den |} /\
                  In (k, v) (amounts o).
  Proof.
    unfold lookup_amount. split.
    - destruct (String.eqb_spec den "") as [|Hden]; [discriminate|].
      destruct (protocol_from_string sn) as [sp|]; [|discriminate].
      destruct (ccid_valid {| c_proto := sp; c_cp := sc |}) eqn:Hs; [|discriminate]. cbn [negb].
      destruct (protocol_from_string dn) as [dp|]; [|discriminate].
      destruct (ccid_valid {| c_proto := dp; c_cp := dc |}) eqn:Hd; [|discriminate]. cbn [negb].
      destruct (mget cmp_ak _ (amounts o)) as [[i u]|] eqn:Hg; [|discriminate].
      destruct ((0 <? i) || (0 <? u)); [|discriminate]. intros H. inversion H; subst.
      exists sp, dp. repeat (split; [solve [reflexivity|assumption]|]).
      apply mget_In in Hg as (k' & Hin & Hk). apply (keqb_eq cmp_ak order_ak) in Hk. subst k'. exact Hin.
    - intros (sp & dp & -> & -> & Hs & Hd & Hden & -> & Hin).
      destruct (String.eqb_spec den "") as [|_]; [contradiction|]. rewrite Hs, Hd. cbn [negb].
      rewrite (In_mget cmp_ak order_ak _ _ _ (iv_amounts_sorted o I) Hin). destruct v as [i u].
      pose proof (iv_amounts_ok o I) as Hall. rewrite Forall_forall in Hall.
      destruct (Hall _ Hin) as (_ & _ & _ & _ & _ & Hpos). cbn [fst snd] in Hpos.
      assert (E : (0 <? i) || (0 <? u) = true).
      { apply orb_true_iff. destruct Hpos as [H|H]; [left|right]; apply Z.ltb_lt; exact H. }
      rewrite E. reflexivity.
  Qed.

  Theorem lookup_count_exact sn sc dn dc k v :
    lookup_count o sn sc dn dc = Ok (k, v) <->
    exists sp dp, protocol_from_string sn = Some sp /\ protocol_from_string dn = Some dp /\
                  ccid_valid {| c_proto := sp; c_cp := sc |} = true /\ ccid_valid {| c_proto := dp; c_cp := dc |} = true /\
                  k = {| ck_sp := sp; ck_sc := sc; ck_dp := dp; ck_dc := dc |} /\ In (k, v) (counts o).
  Proof.
    unfold lookup_count. split.
    - destruct (protocol_from_string sn) as [sp|]; [|discriminate].
      destruct (ccid_valid {| c_proto := sp; c_cp := sc |}) eqn:Hs; [|discriminate]. cbn [negb].
      destruct (protocol_from_string dn) as [dp|]; [|discriminate].
      destruct (ccid_valid {| c_proto := dp; c_cp := dc |}) eqn:Hd; [|discriminate]. cbn [negb].
      destruct (mget cmp_ck _ (counts o)) as [n|] eqn:Hg; [|discriminate].
      destruct (0 <? n); [|discriminate]. intros H. inversion H; subst.
      exists sp, dp. repeat (split; [solve [reflexivity|assumption]|]).
      apply mget_In in Hg as (k' & Hin & Hk). apply (keqb_eq cmp_ck order_ck) in Hk. subst k'. exact Hin.
    - intros (sp & dp & -> & -> & Hs & Hd & -> & Hin). rewrite Hs, Hd. cbn [negb].
      rewrite (In_mget cmp_ck order_ck _ _ _ (iv_counts_sorted o I) Hin).
      pose proof (iv_counts_ok o I) as Hall. rewrite Forall_forall in Hall.
      destruct (Hall _ Hin) as (_ & _ & Hpos). cbn [snd] in Hpos. apply Z.ltb_lt in Hpos. rewrite Hpos. reflexivity.
  Qed.
End Listings.

(* without the invariant: the lookup answers exactly when the stored entry is non-zero *)
Theorem lookup_amount_nonzero o sp sc dp dc den sn dn :
  protocol_from_string sn = Some sp -> protocol_from_string dn = Some dp ->
  ccid_valid {| c_proto := sp; c_cp := sc |} = true -> ccid_valid {| c_proto := dp; c_cp := dc |} = true -> den <> ""%string ->
  let k := {| ak_sp := sp; ak_sc := sc; ak_dst := ccid_id {| c_proto := dp; c_cp := dc |}; ak_denom := den |} in
  forall i u, lookup_amount o sn sc dn dc den = Ok (k, (i, u)) <-> mget cmp_ak k (amounts o) = Some (i, u) /\ (0 < i \/ 0 < u).
Proof.
  intros Hsn Hdn Hs Hd Hden k i u. unfold lookup_amount. rewrite Hsn, Hdn, Hs, Hd. cbn [negb].
  destruct (String.eqb_spec den "") as [|_]; [contradiction|]. fold k.
  destruct (mget cmp_ak k (amounts o)) as [[i' u']|].
  - destruct ((0 <? i') || (0 <? u')) eqn:E.
    + apply orb_true_iff in E. rewrite !Z.ltb_lt in E. split.
      * intros H. inversion H; subst. auto.
      * intros [H _]. inversion H; subst. reflexivity.
    + apply orb_false_iff in E as [E1 E2]. apply Z.ltb_ge in E1, E2. split; [discriminate|].
      intros [H Hp]. inversion H; subst. lia.
  - split; [discriminate|]. intros [H _]. discriminate.
Qed.

(* ---------- all four listings, all reachable ledgers ---------- *)
Definition amount_listing (o : ostate) (l : list (akey * (Z * Z))) : Prop :=
  exists pid, l = amounts_by_source o pid \/ l = amounts_by_dest o pid.
Definition count_listing (o : ostate) (l : list (ckey * Z)) : Prop :=
  exists pid, l = counts_by_source o pid \/ l = counts_by_dest o pid.

Lemma amount_listing_sorted o l : Inv o -> amount_listing o l -> asorted cmp_ak fst l.
Proof. intros I (pid & [->| ->]); [apply amounts_sorted_src|apply amounts_sorted_dst]; exact I. Qed.
Lemma count_listing_sorted o l : Inv o -> count_listing o l -> asorted cmp_ck fst l.
Proof. intros I (pid & [->| ->]); [apply counts_sorted_src|apply counts_sorted_dst]; exact I. Qed.

Definition limit_of (n : nat) : nat := if Nat.eqb n 0 then 100%nat else n.

Theorem walk_amounts o l n rv : Inv o -> amount_listing o l ->
  let W := walk cmp_ak fst (S (length l)) l n rv None true in
  concat W = (if rv then rev l else l) /\ Forall (fun p => (length p <= limit_of n)%nat) W.
Proof. intros I H. apply (walk_all cmp_ak fst order_ak l n rv (length l)); [eapply amount_listing_sorted; eauto|lia]. Qed.
Theorem walk_counts o l n rv : Inv o -> count_listing o l ->
  let W := walk cmp_ck fst (S (length l)) l n rv None true in
  concat W = (if rv then rev l else l) /\ Forall (fun p => (length p <= limit_of n)%nat) W.
Proof. intros I H. apply (walk_all cmp_ck fst order_ck l n rv (length l)); [eapply count_listing_sorted; eauto|lia]. Qed.

Theorem page_amounts o l off n ct rv : Inv o -> amount_listing o l -> (off <= length l)%nat ->
  paginate cmp_ak fst l {| pr_key := None; pr_offset := off; pr_limit := n; pr_count_total := ct; pr_reverse := rv |} =
    Ok {| pg_items := firstn (limit_of n) (skipn off (if rv then rev l else l));
          pg_next := match skipn (limit_of n) (skipn off (if rv then rev l else l)) with x :: _ => Some (fst x) | [] => None end;
          pg_total := if (if Nat.eqb n 0 then true else ct) then length l else 0%nat |}.
Proof. intros _ _ H. apply (page_offset cmp_ak fst l off n ct rv H). Qed.
Theorem page_counts o l off n ct rv : Inv o -> count_listing o l -> (off <= length l)%nat ->
  paginate cmp_ck fst l {| pr_key := None; pr_offset := off; pr_limit := n; pr_count_total := ct; pr_reverse := rv |} =
    Ok {| pg_items := firstn (limit_of n) (skipn off (if rv then rev l else l));
          pg_next := match skipn (limit_of n) (skipn off (if rv then rev l else l)) with x :: _ => Some (fst x) | [] => None end;
          pg_total := if (if Nat.eqb n 0 then true else ct) then length l else 0%nat |}.
Proof. intros _ _ H. apply (page_offset cmp_ck fst l off n ct rv H). Qed.

(* resuming from the key of any entry of the listing *)
Theorem resume_amounts o (l : list (akey * (Z * Z))) n ct (rv : bool) pre x b : Inv o -> amount_listing o l -> (if rv then rev l else l) = pre ++ x :: b ->
  paginate cmp_ak fst l {| pr_key := Some (fst x); pr_offset := 0; pr_limit := n; pr_count_total := ct; pr_reverse := rv |} =
    Ok {| pg_items := firstn (limit_of n) (x :: b);
          pg_next := match skipn (limit_of n) (x :: b) with y :: _ => Some (fst y) | [] => None end; pg_total := 0 |}.
Proof. intros I H Hd. apply (page_key cmp_ak fst order_ak l n ct rv pre x b); [eapply amount_listing_sorted; eauto|exact Hd]. Qed.
Theorem resume_counts o (l : list (ckey * Z)) n ct (rv : bool) pre x b : Inv o -> count_listing o l -> (if rv then rev l else l) = pre ++ x :: b ->
  paginate cmp_ck fst l {| pr_key := Some (fst x); pr_offset := 0; pr_limit := n; pr_count_total := ct; pr_reverse := rv |} =
    Ok {| pg_items := firstn (limit_of n) (x :: b);
          pg_next := match skipn (limit_of n) (x :: b) with y :: _ => Some (fst y) | [] => None end; pg_total := 0 |}.
Proof. intros I H Hd. apply (page_key cmp_ck fst order_ck l n ct rv pre x b); [eapply count_listing_sorted; eauto|exact Hd]. Qed.

(* the listings are exactly the matching entries, once each *)
Theorem listings_exact o : Inv o -> forall pid,
  (forall e, In e (amounts_by_source o pid) <-> In e (amounts o) /\ ak_sp (fst e) = pid) /\
  (forall e, In e (amounts_by_dest o pid) <->
             In e (amounts o) /\ exists d, ccid_valid d = true /\ ak_dst (fst e) = ccid_id d /\ c_proto d = pid) /\
  (forall e, In e (counts_by_source o pid) <-> In e (counts o) /\ ck_sp (fst e) = pid) /\
  (forall e, In e (counts_by_dest o pid) <-> In e (counts o) /\ ck_dp (fst e) = pid) /\
  NoDup (amounts_by_source o pid) /\ NoDup (amounts_by_dest o pid) /\ NoDup (counts_by_source o pid) /\ NoDup (counts_by_dest o pid).
Proof.
  intros I pid. split; [intros e; apply by_source_exact|]. split; [intros e; apply by_dest_exact; exact I|].
  split; [intros e; apply counts_by_source_exact|]. split; [intros e; apply counts_by_dest_exact|].
  apply listings_nodup. exact I.
Qed.

(* ---------- page sizes beyond the number of entries ----------
   The model's page size is a [nat]; a request's is a 64-bit number.  Every page size that is not below the
   number of entries of the listing gives the same page (everything that is left, no next key), so the
   correspondence harness hands the model length+1 for a request with an enormous limit (2^63, 2^64-1). *)
Section Beyond.
  Context {K A : Type} (cmp : K -> K -> comparison) (keyof : A -> K).

  Lemma drop_while_length (f : A -> bool) (l : list A) : (length (drop_while f l) <= length l)%nat.
  Proof. induction l as [|x r IH]; cbn [drop_while length]; [lia|]. destruct (f x); cbn [length]; lia. Qed.

  Lemma skipn_length_le (n : nat) (l : list A) : (length (skipn n l) <= length l)%nat.
  Proof. rewrite skipn_length. lia. Qed.

  Lemma cut_beyond (from : list A) (n m : nat) : (length from <= n)%nat -> (length from <= m)%nat ->
    firstn n from = firstn m from /\ skipn n from = skipn m from.
  Proof. intros Hn Hm. rewrite !firstn_all2, !skipn_all2 by assumption. auto. Qed.

  Theorem paginate_limit_beyond (l : list A) key off ct rv (n m : nat) :
    (length l < n)%nat -> (length l < m)%nat ->
    paginate cmp keyof l {| pr_key := key; pr_offset := off; pr_limit := n; pr_count_total := ct; pr_reverse := rv |} =
    paginate cmp keyof l {| pr_key := key; pr_offset := off; pr_limit := m; pr_count_total := ct; pr_reverse := rv |}.
  Proof.
    intros Hn Hm. unfold paginate. cbn [pr_key pr_offset pr_limit pr_count_total pr_reverse].
    destruct (Nat.eqb_spec n 0) as [->|_]; [lia|]. destruct (Nat.eqb_spec m 0) as [->|_]; [lia|].
    assert (Hd : length (if rv then rev l else l) = length l) by (destruct rv; [apply rev_length|reflexivity]).
    destruct key as [k|].
    - destruct (Nat.ltb 0 off); [reflexivity|].
      match goal with |- context [firstn n ?from] =>
        assert (Hf : (length from <= length l)%nat) by (destruct rv; (etransitivity; [apply drop_while_length|rewrite ?rev_length; lia]));
        destruct (cut_beyond from n m) as [-> ->]; try lia end.
      reflexivity.
    - destruct (Nat.ltb _ off); [reflexivity|].
      match goal with |- context [firstn n ?from] =>
        assert (Hf : (length from <= length l)%nat) by (etransitivity; [apply skipn_length_le|lia]);
        destruct (cut_beyond from n m) as [-> ->]; try lia end.
      reflexivity.
  Qed.

  Theorem walk_limit_beyond (l : list A) rv (n m : nat) : (length l < n)%nat -> (length l < m)%nat ->
    forall fuel key first, walk cmp keyof fuel l n rv key first = walk cmp keyof fuel l m rv key first.
  Proof.
    intros Hn Hm. induction fuel as [|fuel IH]; intros key first; [reflexivity|]. cbn [walk].
    rewrite (paginate_limit_beyond l key 0 false rv n m Hn Hm).
    destruct key as [k|]; [|destruct first; [|reflexivity]];
      (destruct (paginate cmp keyof l _) as [pg| |]; [|reflexivity|reflexivity]; rewrite IH; reflexivity).
  Qed.
End Beyond.
