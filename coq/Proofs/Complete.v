(* The converse of the inversion: when every check of the receive path passes and no external call
   fails (the empty tape: every verdict defaults to success), the transfer succeeds.  Together with
   [recv_ok_inv] this gives the exact success condition of the model. *)
From Coq Require Import String Ascii List ZArith Bool Lia.
From Orbiter Require Import Lib.Str Lib.Res Gen.Constants Model.Ids Model.Env Model.Fee Model.Denom
     Model.Payload Model.State Model.Pipeline Proofs.Ledger Proofs.FeeProofs Proofs.PipelineProofs Proofs.TransferProps Proofs.NoPanic.
Import ListNotations.
Open Scope string_scope.
Open Scope Z_scope.
Open Scope list_scope.

(* a state whose tape is empty: every call succeeds and leaves the tape empty *)
Definition quiet (s : pst) : Prop := ps_tape s = [].

Record runs {A} (m : M A) (s : pst) (a : A) (calls : list call) (ms : list move) : Prop := {
  rn_ex : exists s1, m s = POk a s1 /\ ran s s1 calls ms /\ quiet s1;
}.

Lemma runs_eq {A} (m m' : M A) s a calls ms : m s = m' s -> runs m' s a calls ms -> runs m s a calls ms.
Proof. intros E [(s1 & H & R & Q)]. split. exists s1. rewrite E. auto. Qed.

Lemma ext_quiet c s : quiet s -> exists s1, ext c s = (true, s1) /\ quiet s1.
Proof. unfold quiet, ext. intros ->. eexists. split; reflexivity. Qed.

Lemma runs_ret {A} (a : A) s : quiet s -> runs (mret a) s a [] [].
Proof. intros Q. split. exists s. split; [reflexivity|]. split; [apply ran_refl|exact Q]. Qed.

Lemma runs_bind {A B} (m : M A) (f : A -> M B) s a b c1 m1 c2 m2 :
  runs m s a c1 m1 -> (forall s1, quiet s1 -> ran s s1 c1 m1 -> runs (f a) s1 b c2 m2) ->
  runs (mbind m f) s b (c1 ++ c2) (m1 ++ m2).
Proof.
  intros [(s1 & H1 & R1 & Q1)] Hf. destruct (Hf s1 Q1 R1) as [(s2 & H2 & R2 & Q2)].
  split. exists s2. unfold mbind. rewrite H1. split; [exact H2|]. split; [eapply ran_trans; eauto|exact Q2].
Qed.

Lemma runs_lift {A} (r : res A) a s : r = Ok a -> quiet s -> runs (lift r) s a [] [].
Proof. intros -> Q. apply runs_ret. exact Q. Qed.

Lemma runs_mext c msg s : quiet s -> runs (mext c msg) s tt [c] [].
Proof.
  intros Q. destruct (ext_quiet c s Q) as (s1 & E & Q1). split. exists s1. unfold mext. rewrite E.
  split; [reflexivity|]. split; [eapply ext_true; eauto|exact Q1].
Qed.

Lemma do_moves_quiet ms : forall s, quiet s -> quiet (fold_left (fun s m => do_move m s) ms s).
Proof. induction ms as [|m r IH]; intros s Q; [exact Q|]. cbn [fold_left]. apply IH. exact Q. Qed.

Lemma runs_ext_moving c ms msg s : quiet s -> runs (ext_moving c ms msg) s tt [c] ms.
Proof.
  intros Q. destruct (ext_quiet c s Q) as (s1 & E & Q1). split. eexists. unfold ext_moving. rewrite E.
  split; [reflexivity|]. split; [|apply do_moves_quiet; exact Q1].
  change [c] with ([c] ++ []). change ms with ([] ++ ms).
  eapply ran_trans; [eapply ext_true; eauto|apply do_moves_ran].
Qed.

(* ---------- fee action ---------- *)
Lemma runs_fee_sends cfg d credits : forall s, quiet s ->
  runs (fee_sends cfg d credits) s tt (fee_calls d credits) (fee_moves cfg d credits).
Proof.
  induction credits as [|[to x] r IH]; intros s Q; [apply runs_ret; exact Q|].
  cbn [fee_sends].
  change (fee_calls d ((to, x) :: r)) with ([CFeeSend to d x] ++ fee_calls d r).
  change (fee_moves cfg d ((to, x) :: r)) with ([MSend (cfg_orbiter cfg) to d x] ++ fee_moves cfg d r).
  eapply runs_bind; [apply runs_ext_moving; exact Q|]. intros s1 Q1 _. apply IH. exact Q1.
Qed.

Lemma runs_run_action cfg e paused infos credits fwd t s :
  quiet s -> paused action_fee = false -> tattr_validate t = Ok tt ->
  existsb (Z.eqb action_fee) (cfg_action_routes cfg) = true ->
  fee_plan e (t_damt t) infos = Ok (credits, fwd) ->
  runs (run_action (chain_actions cfg e) paused (fee_action infos) t) s (set_dest_amt t fwd)
       (fee_calls (t_ddenom t) credits ++ [CEmit "EventFeeAction"]) (fee_moves cfg (t_ddenom t) credits).
Proof.
  intros Q Hp Hv Hr Hplan. unfold run_action, fee_action.
  assert (Hav : action_validate (Some {| a_id := action_fee; a_attrs := Some (AFee infos) |}) = Ok tt) by reflexivity.
  rewrite <- (app_nil_l (fee_calls _ _ ++ _)), <- (app_nil_l (fee_moves _ _ _)).
  eapply runs_bind; [apply runs_lift; [exact Hav|exact Q]|]. intros s1 Q1 _.
  rewrite <- (app_nil_l (fee_calls _ _ ++ _)), <- (app_nil_l (fee_moves _ _ _)).
  eapply runs_bind; [apply runs_lift; [exact Hv|exact Q1]|]. intros s2 Q2 _.
  cbn [a_id a_attrs]. rewrite Hp. unfold chain_actions. rewrite Hr, Z.eqb_refl. cbn [andb].
  unfold fee_ctrl, fee_ctrl_with.
  rewrite <- (app_nil_l (fee_calls _ _ ++ _)), <- (app_nil_l (fee_moves _ _ _)).
  eapply runs_bind; [apply runs_lift; [exact Hplan|exact Q2]|]. intros s3 Q3 _.
  rewrite <- (app_nil_r (fee_moves _ _ _)).
  eapply runs_bind; [apply runs_fee_sends; exact Q3|]. intros s4 Q4 _.
  rewrite <- (app_nil_r [CEmit _]), <- (app_nil_r (@nil move)) at 1.
  eapply runs_bind; [apply runs_mext; exact Q4|]. intros s5 Q5 _. apply runs_ret. exact Q5.
Qed.

Lemma runs_dispatch cfg e paused l : forall t t' acalls ams s,
  fee_steps cfg e l t t' acalls ams -> quiet s ->
  (l <> [] -> paused action_fee = false /\ existsb (Z.eqb action_fee) (cfg_action_routes cfg) = true) ->
  runs (dispatch_actions (chain_actions cfg e) paused l t) s t' acalls ams.
Proof.
  induction l as [|a r IH]; intros t t' acalls ams s Hs Q Hon.
  - inversion Hs; subst. apply runs_ret. exact Q.
  - inversion Hs as [|infos credits fwd rest t0 t'' calls ms Hplan Hv Hrest]; subst.
    destruct Hon as [Hp Hr]; [discriminate|].
    cbn [dispatch_actions]. eapply runs_bind; [eapply runs_run_action; eauto|].
    intros s1 Q1 _. eapply IH; eauto.
Qed.

(* ---------- forwarding ---------- *)
Lemma runs_forward_ctrl cfg e pid a t calls mv s :
  quiet s -> route_plan cfg e pid a t = Some (calls, mv) ->
  runs (forward_ctrl cfg e pid a t) s tt calls [mv].
Proof.
  intros Q. unfold route_plan, forward_ctrl, forward_ctrl_with.
  destruct (pid =? protocol_cctp).
  { destruct a as [domain rcp caller| | | |]; try discriminate.
    destruct (is_ok (cctp_validate domain rcp)) eqn:Hv; [|discriminate]. intros H; inversion H; subst.
    apply is_ok_true in Hv as [[] Hv].
    rewrite <- (app_nil_l [CCctp _ _ _ _ _ _]), <- (app_nil_l [MBurn _ _ _]).
    eapply runs_bind; [apply runs_lift; [exact Hv|exact Q]|]. intros s1 Q1 _. cbn [app]. apply runs_ext_moving. exact Q1. }
  destruct (pid =? protocol_hyperlane).
  { destruct a as [|token domain rcp hook md gas fd fa| | |]; try discriminate.
    destruct (is_ok (tattr_validate t)) eqn:Hv; [|discriminate].
    destruct (is_ok (hyp_validate token domain rcp hook md)) eqn:Hh; [|discriminate]. cbn [andb].
    destruct (is_ok (hyp_fee_validate fd fa)) eqn:Hfee; [|discriminate]. cbn [andb].
    destruct (cfg_hyp_token cfg token) as [origin|] eqn:Htok; [|discriminate].
    destruct (String.eqb origin (t_ddenom t)) eqn:Ho; [|discriminate]. intros H; inversion H; subst.
    apply is_ok_true in Hv as [[] Hv]. apply is_ok_true in Hh as [[] Hh]. apply is_ok_true in Hfee as [[] Hfee]. cbn [negb andb].
    match goal with |- runs _ _ _ ?c ?m => rewrite <- (app_nil_l c), <- (app_nil_l m) end.
    eapply runs_bind; [apply runs_lift; [exact Hv|exact Q]|]. intros s1 Q1 _.
    match goal with |- runs _ _ _ ?c ?m => rewrite <- (app_nil_l c), <- (app_nil_l m) end.
    eapply runs_bind; [apply runs_lift; [exact Hh|exact Q1]|]. intros s2' Q2' _.
    match goal with |- runs _ _ _ ?c ?m => rewrite <- (app_nil_l c), <- (app_nil_l m) end.
    eapply runs_bind; [apply runs_lift; [exact Hfee|exact Q2']|]. intros s2 Q2 _.
    change [CHypToken token; CHypTransfer (cfg_orbiter_bech cfg) token domain rcp (t_damt t) (opt_str hook) gas fd fa md]
      with ([CHypToken token] ++ [CHypTransfer (cfg_orbiter_bech cfg) token domain rcp (t_damt t) (opt_str hook) gas fd fa md]).
    match goal with |- runs _ _ _ _ ?m => rewrite <- (app_nil_l m) end.
    eapply runs_bind; [apply runs_mext; exact Q2|]. intros s3 Q3 _.
    cbn [app negb]. apply runs_ext_moving. exact Q3. }
  destruct (pid =? protocol_internal); [|discriminate].
  destruct a as [| |rcp| |]; try discriminate.
  destruct (is_ok (tattr_validate t)) eqn:Hv; [|discriminate].
  destruct (is_ok (internal_validate false cfg e rcp)) eqn:Hi; [|discriminate]. cbn [andb]. intros H; inversion H; subst.
  apply is_ok_true in Hv as [[] Hv]. apply is_ok_true in Hi as [[] Hi].
  match goal with |- runs _ _ _ ?c ?m => rewrite <- (app_nil_l c), <- (app_nil_l m) end.
  eapply runs_bind; [apply runs_lift; [exact Hv|exact Q]|]. intros s1 Q1 _.
  match goal with |- runs _ _ _ ?c ?m => rewrite <- (app_nil_l c), <- (app_nil_l m) end.
  eapply runs_bind; [apply runs_lift; [exact Hi|exact Q1]|]. intros s2 Q2 _. cbn [app]. apply runs_ext_moving. exact Q2.
Qed.

Lemma runs_forwarding cfg e lie pp ccp f t a cp calls mv s :
  quiet s -> fwd_checked cfg lie pp ccp f t (ps_l s) a cp ->
  route_plan cfg e (f_pid f) a t = Some (calls, mv) ->
  runs (run_forwarding_with forward_ctrl cfg e lie pp ccp (Some f) t) s tt calls [mv].
Proof.
  intros Q C Hplan. unfold run_forwarding_with.
  assert (Hfv : forwarding_validate (Some f) = Ok tt).
  { unfold forwarding_validate. rewrite (fc_pid _ _ _ _ _ _ _ _ _ C), (fc_attrs _ _ _ _ _ _ _ _ _ C). reflexivity. }
  match goal with |- runs _ _ _ ?c ?m => rewrite <- (app_nil_l c), <- (app_nil_l m) end.
  eapply runs_bind; [apply runs_lift; [exact Hfv|exact Q]|]. intros s1 Q1 R1.
  match goal with |- runs _ _ _ ?c ?m => rewrite <- (app_nil_l c), <- (app_nil_l m) end.
  eapply runs_bind; [apply runs_lift; [exact (fc_tattr _ _ _ _ _ _ _ _ _ C)|exact Q1]|]. intros s2 Q2 R2.
  rewrite (fc_attrs _ _ _ _ _ _ _ _ _ C), (fc_cp _ _ _ _ _ _ _ _ _ C), (fc_proto _ _ _ _ _ _ _ _ _ C),
    (fc_ccid _ _ _ _ _ _ _ _ _ C), (fc_cc _ _ _ _ _ _ _ _ _ C). cbn [negb].
  assert (HL : ps_l s2 = ps_l s).
  { rewrite (ran_ledger _ _ _ _ R2), (ran_ledger _ _ _ _ R1). reflexivity. }
  destruct (runs_forward_ctrl cfg e (f_pid f) a t calls mv s2 Q2 Hplan) as [(s3 & H3 & R3 & Q3)].
  split. exists s3. rewrite HL, (fc_balance _ _ _ _ _ _ _ _ _ C), Z.eqb_refl, (fc_route _ _ _ _ _ _ _ _ _ C). cbn [negb].
  auto.
Qed.

(* ---------- the body and the whole receive path ---------- *)
Lemma runs_recv_body cfg e o p pl f t t' a cp acalls ams fcalls mv s :
  quiet s ->
  let prior := bal (ps_l s) (cfg_orbiter cfg) (t_ddenom t) + 0 in
  fee_steps cfg e (p_pre pl) t t' acalls ams ->
  (p_pre pl <> [] -> ap_of o action_fee = false /\ existsb (Z.eqb action_fee) (cfg_action_routes cfg) = true) ->
  fwd_checked cfg 0 (pp_of o) (ccp_of o) f t'
              (apply_moves (ps_l s) (sweep_moves cfg (t_ddenom t) prior ++ [credit_move cfg p t] ++ ams)) a cp ->
  route_plan cfg e (f_pid f) a t' = Some (fcalls, mv) ->
  runs (recv_body repaired cfg (chain_actions cfg e) e 0 o p pl f t) s t'
       (sweep_calls (t_ddenom t) prior ++ [CWrapped] ++ acalls ++ fcalls)
       (sweep_moves cfg (t_ddenom t) prior ++ [credit_move cfg p t] ++ ams ++ [mv]).
Proof.
  intros Q prior Hsteps Hon Hchk Hplan. unfold recv_body.
  match goal with |- runs _ _ _ ?c ?m => rewrite <- (app_nil_l c), <- (app_nil_l m) end.
  eapply (runs_bind _ _ s prior).
  { split. exists s. split; [reflexivity|]. split; [apply ran_refl|exact Q]. }
  intros s0 Q0 R0. assert (HL0 : ps_l s0 = ps_l s) by (rewrite (ran_ledger _ _ _ _ R0); reflexivity).
  eapply runs_bind.
  { unfold sweep_calls, sweep_moves. destruct (0 <? prior); [apply runs_ext_moving; exact Q0|apply runs_ret; exact Q0]. }
  intros s1 Q1 R1. eapply runs_bind; [apply runs_ext_moving; exact Q1|]. intros s2 Q2 R2.
  eapply runs_bind; [eapply runs_dispatch; eauto|]. intros s3 Q3 R3.
  rewrite <- (app_nil_r fcalls), <- (app_nil_r [mv]).
  eapply runs_bind; [|intros s4 Q4 _; apply runs_ret; exact Q4].
  change (v_allow_self repaired) with false. change (v_hyp_log_first repaired) with false.
  eapply runs_forwarding; eauto.
  rewrite (ran_ledger _ _ _ _ R3), (ran_ledger _ _ _ _ R2), (ran_ledger _ _ _ _ R1), HL0, <- !apply_moves_app.
  exact Hchk.
Qed.

(* the success condition: everything [recv_ok_inv] returns, minus the results *)
Record accepts (cfg : config) (e : env) (w : world) (p : packet)
       (denom amount sender receiver : string) (pl : payload) (f : forwarding) (t t' : tattr)
       (a : attrs) (cp : string) (acalls fcalls : list call) (ams : list move) (mv : move) : Prop := {
  ac_data : pk_data p = PIcs denom amount sender receiver (Ok pl);
  ac_receiver : is_orbiter_receiver repaired cfg e receiver = true;
  ac_source : ccid_valid {| c_proto := protocol_ibc; c_cp := pk_dchan p |} = true;
  ac_src_port : String.eqb (pk_sport p) "" || String.eqb (pk_schan p) "" = false;
  ac_adapter : existsb (Z.eqb protocol_ibc) (cfg_adapter_routes cfg) = true;
  ac_parse : parse_orbiter_packet repaired e p denom amount (Ok pl) = Ok (t, pl);
  ac_fwd : p_fwd pl = Some f;
  ac_pass : slen (f_pass f) <= pass_limit (w_o w);
  ac_steps : fee_steps cfg e (p_pre pl) t t' acalls ams;
  ac_actions_on : p_pre pl <> [] ->
                  ap_of (w_o w) action_fee = false /\ existsb (Z.eqb action_fee) (cfg_action_routes cfg) = true;
  ac_checked : fwd_checked cfg 0 (pp_of (w_o w)) (ccp_of (w_o w)) f t'
                 (apply_moves (w_l w)
                    (sweep_moves cfg (t_ddenom t) (bal (w_l w) (cfg_orbiter cfg) (t_ddenom t) + 0)
                     ++ [credit_move cfg p t] ++ ams)) a cp;
  ac_plan : route_plan cfg e (f_pid f) a t' = Some (fcalls, mv);
}.

Lemma transfer_accepts cfg e w p r denom amount sender receiver pl f t t' a cp acalls fcalls ams mv o' :
  transfer cfg e w p 0 r denom amount sender receiver pl f t t' a cp acalls fcalls ams mv o' ->
  String.eqb (pk_sport p) "" || String.eqb (pk_schan p) "" = false ->
  existsb (Z.eqb protocol_ibc) (cfg_adapter_routes cfg) = true ->
  accepts cfg e w p denom amount sender receiver pl f t t' a cp acalls fcalls ams mv.
Proof. intros T H1 H2. destruct T. split; assumption. Qed.

(* the success condition mentions the world in three places only *)
Lemma accepts_transport cfg e w w2 p denom amount sender receiver pl f t t' a cp acalls fcalls ams mv :
  accepts cfg e w p denom amount sender receiver pl f t t' a cp acalls fcalls ams mv ->
  slen (f_pass f) <= pass_limit (w_o w2) ->
  (p_pre pl <> [] -> ap_of (w_o w2) action_fee = false) ->
  fwd_checked cfg 0 (pp_of (w_o w2)) (ccp_of (w_o w2)) f t'
     (apply_moves (w_l w2)
        (sweep_moves cfg (t_ddenom t) (bal (w_l w2) (cfg_orbiter cfg) (t_ddenom t) + 0) ++ [credit_move cfg p t] ++ ams)) a cp ->
  accepts cfg e w2 p denom amount sender receiver pl f t t' a cp acalls fcalls ams mv.
Proof.
  intros A H1 H2 H3. split; try exact H1; try exact H3.
  - exact (ac_data _ _ _ _ _ _ _ _ _ _ _ _ _ _ _ _ _ _ A).
  - exact (ac_receiver _ _ _ _ _ _ _ _ _ _ _ _ _ _ _ _ _ _ A).
  - exact (ac_source _ _ _ _ _ _ _ _ _ _ _ _ _ _ _ _ _ _ A).
  - exact (ac_src_port _ _ _ _ _ _ _ _ _ _ _ _ _ _ _ _ _ _ A).
  - exact (ac_adapter _ _ _ _ _ _ _ _ _ _ _ _ _ _ _ _ _ _ A).
  - exact (ac_parse _ _ _ _ _ _ _ _ _ _ _ _ _ _ _ _ _ _ A).
  - exact (ac_fwd _ _ _ _ _ _ _ _ _ _ _ _ _ _ _ _ _ _ A).
  - exact (ac_steps _ _ _ _ _ _ _ _ _ _ _ _ _ _ _ _ _ _ A).
  - intros Hne. split; [apply H2; exact Hne|]. apply (ac_actions_on _ _ _ _ _ _ _ _ _ _ _ _ _ _ _ _ _ _ A Hne).
  - exact (ac_plan _ _ _ _ _ _ _ _ _ _ _ _ _ _ _ _ _ _ A).
Qed.

Lemma fwd_checked_transport cfg pp ccp pp2 ccp2 f t l l2 a cp :
  fwd_checked cfg 0 pp ccp f t l a cp ->
  pp2 (f_pid f) = false -> ccp2 (f_pid f) cp = false ->
  bal l2 (cfg_orbiter cfg) (t_ddenom t) + 0 = t_damt t ->
  fwd_checked cfg 0 pp2 ccp2 f t l2 a cp.
Proof.
  intros C H1 H2 H3. split; try assumption.
  - exact (fc_attrs _ _ _ _ _ _ _ _ _ C).
  - exact (fc_cp _ _ _ _ _ _ _ _ _ C).
  - exact (fc_pid _ _ _ _ _ _ _ _ _ C).
  - exact (fc_tattr _ _ _ _ _ _ _ _ _ C).
  - exact (fc_ccid _ _ _ _ _ _ _ _ _ C).
  - exact (fc_route _ _ _ _ _ _ _ _ _ C).
Qed.

Theorem recv_ok_complete cfg e w p denom amount sender receiver pl f t t' a cp acalls fcalls ams mv :
  accepts cfg e w p denom amount sender receiver pl f t t' a cp acalls fcalls ams mv ->
  rr_out (recv cfg e w p []) = OAckOk.
Proof.
  intros A. unfold recv, recv_lie, recv_with, recv_generic.
  rewrite (ac_source _ _ _ _ _ _ _ _ _ _ _ _ _ _ _ _ _ _ A), (ac_src_port _ _ _ _ _ _ _ _ _ _ _ _ _ _ _ _ _ _ A),
    (ac_adapter _ _ _ _ _ _ _ _ _ _ _ _ _ _ _ _ _ _ A), (ac_data _ _ _ _ _ _ _ _ _ _ _ _ _ _ _ _ _ _ A),
    (ac_receiver _ _ _ _ _ _ _ _ _ _ _ _ _ _ _ _ _ _ A), (ac_parse _ _ _ _ _ _ _ _ _ _ _ _ _ _ _ _ _ _ A),
    (ac_fwd _ _ _ _ _ _ _ _ _ _ _ _ _ _ _ _ _ _ A). cbn [negb].
  pose proof (ac_pass _ _ _ _ _ _ _ _ _ _ _ _ _ _ _ _ _ _ A) as Hpass. apply Z.ltb_ge in Hpass. rewrite Hpass.
  set (s0 := {| ps_l := w_l w; ps_tape := []; ps_trace := []; ps_moves := [] |}).
  assert (Q0 : quiet s0) by reflexivity.
  destruct (runs_recv_body cfg e (w_o w) p pl f t t' a cp acalls ams fcalls mv s0 Q0
              (ac_steps _ _ _ _ _ _ _ _ _ _ _ _ _ _ _ _ _ _ A) (ac_actions_on _ _ _ _ _ _ _ _ _ _ _ _ _ _ _ _ _ _ A)
              (ac_checked _ _ _ _ _ _ _ _ _ _ _ _ _ _ _ _ _ _ A) (ac_plan _ _ _ _ _ _ _ _ _ _ _ _ _ _ _ _ _ _ A)) as [(s1 & H1 & R1 & Q1)].
  rewrite H1. change (v_stats_strict repaired) with true.
  destruct (update_stats_ok (w_o w) t' f) as [o' Hs]. rewrite Hs.
  destruct (ext_quiet (CEmit "EventPayloadProcessed") s1 Q1) as (s2 & E & _). rewrite E. reflexivity.
Qed.
