(* Histories on ANY chain: whatever the chain's Hyperlane hooks charge for gas, the world a history reaches is
   a world that a history on the chain WITHOUT such hooks reaches, with the gas payments made explicit as plain
   ledger movements ([OMove]).  So every theorem about all reachable worlds holds on every chain. *)
From Coq Require Import String List ZArith Bool Lia.
From Orbiter Require Import Lib.Str Lib.Res Gen.Constants Model.Ids Model.Env Model.Fee Model.Denom
     Model.Payload Model.State Model.Pipeline Model.Msgs Proofs.Ledger Proofs.PipelineProofs Proofs.TransferProps
     Proofs.GasProofs Proofs.GasCharged Proofs.StatsProofs Proofs.GenesisProofs.
Import ListNotations.
Open Scope string_scope.
Open Scope Z_scope.
Open Scope list_scope.

Fixpoint run_ops_gas (g : gas_fn) (cfg : config) (e : env) (w : world) (ops : list op) : world * list out :=
  match ops with
  | [] => (w, [])
  | o :: r => let '(w1, x) := step_gas g cfg e w o in
              let '(w2, xs) := run_ops_gas g cfg e w1 r in (w2, x :: xs)
  end.
Definition final_world_gas g cfg e w ops := fst (run_ops_gas g cfg e w ops).

(* one packet: the world it leaves is the world the hook-free chain leaves, or that world after one more
   movement (the gas payment), or the world it found *)
Lemma recv_gas_world g cfg e w p tape lie :
  rr_world (recv_gas g cfg e w p tape lie) = rr_world (recv_lie cfg e w p tape lie) \/
  (exists m, rr_world (recv_gas g cfg e w p tape lie) =
             {| w_o := w_o (rr_world (recv_lie cfg e w p tape lie));
                w_l := apply_move (w_l (rr_world (recv_lie cfg e w p tape lie))) m |}) \/
  rr_world (recv_gas g cfg e w p tape lie) = w.
Proof.
  unfold recv_gas, recv_lie, recv_with, recv_generic.
  change (is_orbiter_receiver (with_gas repaired g)) with (is_orbiter_receiver repaired).
  change (parse_orbiter_packet (with_gas repaired g)) with (parse_orbiter_packet repaired).
  change (v_stats_strict (with_gas repaired g)) with (v_stats_strict repaired).
  destruct (negb (ccid_valid _)); [left; reflexivity|].
  destruct (_ || _); [left; reflexivity|].
  destruct (negb (existsb _ _)); [left; reflexivity|].
  destruct (pk_data p) as [|denom amount sender receiver memo]; [left; reflexivity|].
  destruct (negb (is_orbiter_receiver repaired cfg e receiver)); [left; reflexivity|].
  destruct (parse_orbiter_packet repaired e p denom amount memo) as [[t pl]| |]; [|left; reflexivity|left; reflexivity].
  destruct (p_fwd pl) as [f|]; [|left; reflexivity].
  destruct (pass_limit (w_o w) <? slen (f_pass f)); [left; reflexivity|].
  destruct (match f_attrs f with Some a => attrs_gas_free g a | None => true end) eqn:Hg.
  { left. rewrite recv_body_gas_free by (reflexivity || exact Hg). reflexivity. }
  match goal with |- context [recv_body (with_gas repaired g) ?c ?ac ?en ?li ?o ?pk ?pl0 ?f0 ?t0 ?s0] =>
    destruct (recv_body (with_gas repaired g) c ac en li o pk pl0 f0 t0 s0) as [t' s1|l s1|y] eqn:Hb end;
    [|right; right; reflexivity|right; right; reflexivity].
  apply recv_body_charged in Hb as (a & m & s1' & Hfa & Hplain & -> & _ & _); [|exact Hg].
  rewrite Hplain.
  destruct (update_stats_swallow (v_stats_strict repaired) (w_o w) t' f) as [o'| |]; [|left; reflexivity|left; reflexivity].
  rewrite ext_do_move.
  destruct (ext (CEmit "EventPayloadProcessed") s1') as [v s2]. cbn [fst snd].
  destruct v; [|left; reflexivity].
  right. left. exists m. reflexivity.
Qed.

Lemma run_ops_gas_cons g cfg e w o r :
  final_world_gas g cfg e w (o :: r) = final_world_gas g cfg e (fst (step_gas g cfg e w o)) r.
Proof.
  unfold final_world_gas. cbn [run_ops_gas]. destruct (step_gas g cfg e w o) as [w1 x]. cbn [fst].
  destruct (run_ops_gas g cfg e w1 r) as [w2 xs]. reflexivity.
Qed.
Lemma final_world_cons cfg e w o r : final_world cfg e w (o :: r) = final_world cfg e (fst (step cfg e w o)) r.
Proof. unfold final_world. rewrite run_ops_cons. reflexivity. Qed.
Lemma final_world_app cfg e : forall a w b, final_world cfg e w (a ++ b) = final_world cfg e (final_world cfg e w a) b.
Proof.
  induction a as [|o a IH]; intros w b; [reflexivity|].
  rewrite <- app_comm_cons, !final_world_cons. apply IH.
Qed.

(* one step on a chain with hooks = at most two steps on the chain without (the packet, then the gas payment as
   a plain movement), or none *)
Lemma step_gas_simulated g cfg e w o :
  exists os, fst (step_gas g cfg e w o) = final_world cfg e w os.
Proof.
  assert (Hsame : forall o', step_gas g cfg e w o' = step cfg e w o' ->
                             exists os, fst (step_gas g cfg e w o') = final_world cfg e w os).
  { intros o' E. exists [o']. rewrite final_world_cons, E. reflexivity. }
  destruct o as [p tape lie|signer m tape|to d a|sf st sd sa|mv|q| | | |p tape lie k].
  - cbn [step_gas fst].
    destruct (recv_gas_world g cfg e w p tape lie) as [H|[[m H]|H]].
    + exists [ORecv p tape lie]. rewrite final_world_cons. cbn [step fst]. exact H.
    + exists [ORecv p tape lie; OMove m]. rewrite !final_world_cons. cbn [step fst]. exact H.
    + exists []. exact H.
  - apply Hsame. reflexivity.
  - apply Hsame. reflexivity.
  - apply Hsame. reflexivity.
  - apply Hsame. reflexivity.
  - apply Hsame. reflexivity.
  - apply Hsame. reflexivity.
  - apply Hsame. reflexivity.
  - apply Hsame. reflexivity.
  - exists []. reflexivity.
Qed.

Theorem gas_history_simulated g cfg e : forall ops w,
  exists ops', final_world_gas g cfg e w ops = final_world cfg e w ops'.
Proof.
  induction ops as [|o r IH]; intros w; [exists []; reflexivity|].
  rewrite run_ops_gas_cons.
  destruct (step_gas_simulated g cfg e w o) as [os Hs]. rewrite Hs.
  destruct (IH (final_world cfg e w os)) as [r' Hr]. exists (os ++ r'). rewrite final_world_app. exact Hr.
Qed.


(* so the invariant of the module state (sorted, duplicate-free, valid, positive entries: what the queries and
   the genesis round trip rely on) holds after every history on every chain *)
Theorem history_inv_gas g cfg e ops w : Inv (w_o w) -> Inv (w_o (final_world_gas g cfg e w ops)).
Proof.
  intros I. destruct (gas_history_simulated g cfg e ops w) as [ops' ->]. apply history_inv. exact I.
Qed.

(* ---------- C03 on any chain ---------- *)
From Orbiter Require Import Proofs.Corollaries.

(* success only when every external call succeeded *)
Theorem success_all_ok_hooks g cfg e w p tape :
  rr_out (recv_gas g cfg e w p tape 0) = OAckOk ->
  Forall (fun cv => snd cv = true) (rr_trace (recv_gas g cfg e w p tape 0)).
Proof.
  intros H. destruct (pkt_gas_free g p) eqn:Hg.
  - rewrite (recv_gas_same g cfg e w p tape 0 Hg) in *. exact (success_all_ok cfg e w p tape H).
  - destruct (recv_gas_charged g cfg e w p tape 0 H Hg) as (_ & _ & _ & _ & Hok & Htr & _).
    rewrite Htr. exact (success_all_ok cfg e w p tape Hok).
Qed.

(* an error acknowledgement leaves the world as it was, and no movement is kept *)
Theorem recv_gas_err_unchanged g cfg e w p tape lie l :
  rr_out (recv_gas g cfg e w p tape lie) = OAckErr l ->
  rr_world (recv_gas g cfg e w p tape lie) = w /\ rr_moves (recv_gas g cfg e w p tape lie) = [].
Proof.
  unfold recv_gas, recv_with, recv_generic.
  repeat match goal with
  | |- context [if ?b then _ else _] => destruct b; cbn [result_of rr_out rr_world rr_moves]; try (intros; split; reflexivity); try discriminate
  end.
  assert (Hdel : forall s, rr_out (delegate cfg e w p s) = OAckErr l -> rr_world (delegate cfg e w p s) = w /\ rr_moves (delegate cfg e w p s) = []).
  { intros s. unfold delegate. destruct (ext CWrapped s) as [v s1]. destruct v; cbn; discriminate. }
  destruct (pk_data p) as [|denom amount sender receiver memo]; [apply Hdel|].
  destruct (negb (is_orbiter_receiver _ _ _ _)); [apply Hdel|].
  destruct (parse_orbiter_packet _ _ _ _ _ _) as [[t pl]| |]; cbn; try (intros; split; reflexivity); try discriminate.
  destruct (p_fwd pl) as [f|]; cbn; try (intros; split; reflexivity).
  destruct (_ <? _); cbn; try (intros; split; reflexivity).
  destruct (recv_body _ _ _ _ _ _ _ _ _ _ _) as [t' s1|l1 s1|y]; cbn; try (intros; split; reflexivity); try discriminate.
  destruct (update_stats_swallow _ _ _ _); cbn; try (intros; split; reflexivity); try discriminate.
  destruct (ext _ s1) as [v s2]. destruct v; cbn; try (intros; split; reflexivity); discriminate.
Qed.

(* ---------- C05 on any chain: a successful transfer makes exactly the external calls, with exactly the
   requests, that it makes on the chain without charging hooks ---------- *)
Theorem success_trace_hooks g cfg e w p tape :
  rr_out (recv_gas g cfg e w p tape 0) = OAckOk ->
  rr_out (recv cfg e w p tape) = OAckOk /\ rr_trace (recv_gas g cfg e w p tape 0) = rr_trace (recv cfg e w p tape).
Proof.
  intros H. destruct (pkt_gas_free g p) eqn:Hg.
  - rewrite (recv_gas_same g cfg e w p tape 0 Hg) in *. split; [exact H|reflexivity].
  - destruct (recv_gas_charged g cfg e w p tape 0 H Hg) as (_ & _ & _ & _ & Hok & Htr & _). split; [exact Hok|exact Htr].
Qed.

(* ... and records exactly the same statistics and leaves exactly the same module state *)
Theorem success_state_hooks g cfg e w p tape :
  rr_out (recv_gas g cfg e w p tape 0) = OAckOk ->
  rr_stat (recv_gas g cfg e w p tape 0) = rr_stat (recv cfg e w p tape) /\
  w_o (rr_world (recv_gas g cfg e w p tape 0)) = w_o (rr_world (recv cfg e w p tape)).
Proof.
  intros H. destruct (pkt_gas_free g p) eqn:Hg.
  - rewrite (recv_gas_same g cfg e w p tape 0 Hg) in *. split; reflexivity.
  - destruct (recv_gas_charged g cfg e w p tape 0 H Hg) as (_ & _ & _ & _ & _ & _ & _ & Ho & _ & Hst & _). split; [exact Hst|exact Ho].
Qed.

(* ---------- C12 on any chain: the statistics are the fold of the successful transfers ---------- *)
Lemma recv_gas_no_record g cfg e w p tape lie :
  rr_out (recv_gas g cfg e w p tape lie) <> OAckOk ->
  w_o (rr_world (recv_gas g cfg e w p tape lie)) = w_o w /\ rr_stat (recv_gas g cfg e w p tape lie) = None.
Proof.
  unfold recv_gas, recv_with, recv_generic.
  repeat match goal with
  | |- context [if ?c then _ else _] => destruct c; cbn [result_of rr_out rr_world rr_stat w_o]; try (intros; split; reflexivity)
  end.
  assert (Hdel : forall s, w_o (rr_world (delegate cfg e w p s)) = w_o w /\ rr_stat (delegate cfg e w p s) = None).
  { intros s. unfold delegate. destruct (ext CWrapped s) as [v s1]. destruct v; cbn; split; reflexivity. }
  destruct (pk_data p) as [|denom amount sender receiver memo]; [intros _; apply Hdel|].
  destruct (negb (is_orbiter_receiver _ _ _ _)); [intros _; apply Hdel|].
  destruct (parse_orbiter_packet _ _ _ _ _ _) as [[t pl]| |]; cbn; try (intros; split; reflexivity).
  destruct (p_fwd pl) as [f|]; cbn; try (intros; split; reflexivity).
  destruct (_ <? _); cbn; try (intros; split; reflexivity).
  destruct (recv_body _ _ _ _ _ _ _ _ _ _ _) as [t' s1|l1 s1|y]; cbn; try (intros; split; reflexivity).
  destruct (update_stats_swallow _ _ _ _); cbn; try (intros; split; reflexivity).
  destruct (ext _ s1) as [v s2]. destruct v; cbn; try (intros; split; reflexivity). intros H. congruence.
Qed.

Fixpoint fits_along_gas (g : gas_fn) (cfg : config) (e : env) (w : world) (ops : list op) : Prop :=
  match ops with
  | [] => True
  | o :: r => (match out_stat (snd (step_gas g cfg e w o)) with Some st => fits_stat (w_o w) st | None => True end) /\
              fits_along_gas g cfg e (fst (step_gas g cfg e w o)) r
  end.

Lemma step_gas_stats g cfg e w o :
  match out_stat (snd (step_gas g cfg e w o)) with
  | Some st => fits_stat (w_o w) st -> recorded (w_o w) (w_o (fst (step_gas g cfg e w o))) st
  | None => amounts (w_o (fst (step_gas g cfg e w o))) = amounts (w_o w) /\ counts (w_o (fst (step_gas g cfg e w o))) = counts (w_o w)
  end.
Proof.
  destruct o as [p tape lie|signer m tape|to d a|sf st sd sa|mv|q| | | |p2 tape2 lie2 k2];
    [|exact (step_stats cfg e w (OMsg signer m tape))|exact (step_stats cfg e w (ODeposit to d a))
     |exact (step_stats cfg e w (OSend sf st sd sa))|exact (step_stats cfg e w (OMove mv))|exact (step_stats cfg e w (OQuery q))
     |exact (step_stats cfg e w OBlockedOutside)|exact (step_stats cfg e w OCallback)|exact (step_stats cfg e w OAppPanics)|].
  - cbn [step_gas fst snd out_stat].
    destruct (outcome_eq_ok (rr_out (recv_gas g cfg e w p tape lie))) as [E|E].
    + destruct (pkt_gas_free g p) eqn:Hg.
      * rewrite (recv_gas_same g cfg e w p tape lie Hg) in *.
        destruct (recv_records_lie _ _ _ _ _ _ E) as (r & Hr & _ & _ & _ & _ & _ & _ & Hrec). rewrite Hr. exact Hrec.
      * destruct (recv_gas_charged g cfg e w p tape lie E Hg) as (_ & _ & _ & _ & Hok & _ & _ & Ho & _ & Hst & _).
        destruct (recv_records_lie _ _ _ _ _ _ Hok) as (r & Hr & _ & _ & _ & _ & _ & _ & Hrec).
        rewrite Hst, Hr, Ho. exact Hrec.
    + destruct (recv_gas_no_record _ _ _ _ _ _ _ E) as [Ho Hs]. rewrite Hs, Ho. split; reflexivity.
  - cbn [step_gas fst snd out_stat]. split; reflexivity.
Qed.

Lemma run_ops_gas_cons_full g cfg e w o r :
  run_ops_gas g cfg e w (o :: r) =
    (fst (run_ops_gas g cfg e (fst (step_gas g cfg e w o)) r), snd (step_gas g cfg e w o) :: snd (run_ops_gas g cfg e (fst (step_gas g cfg e w o)) r)).
Proof. cbn [run_ops_gas]. destruct (step_gas g cfg e w o) as [w1 x]. cbn [fst snd]. destruct (run_ops_gas g cfg e w1 r) as [w2 xs]. reflexivity. Qed.

Theorem stats_fold_gas g cfg e : forall ops w,
  fits_along_gas g cfg e w ops ->
  (forall k, stat_get (w_o (fst (run_ops_gas g cfg e w ops))) k =
             (fst (stat_get (w_o w) k) + sum_in (snd (run_ops_gas g cfg e w ops)) k,
              snd (stat_get (w_o w) k) + sum_out (snd (run_ops_gas g cfg e w ops)) k)) /\
  (forall k, count_get (w_o (fst (run_ops_gas g cfg e w ops))) k = count_get (w_o w) k + sum_count (snd (run_ops_gas g cfg e w ops)) k).
Proof.
  induction ops as [|o r IH]; intros w Hfit.
  - cbn. split; intros k; [destruct (stat_get (w_o w) k); cbn; f_equal; lia|lia].
  - destruct Hfit as [Hf1 Hf2]. rewrite run_ops_gas_cons_full. cbn [fst snd sum_in sum_out sum_count].
    destruct (IH _ Hf2) as [IHa IHc]. pose proof (step_gas_stats g cfg e w o) as Hs.
    destruct (out_stat (snd (step_gas g cfg e w o))) as [st|].
    + destruct (Hs Hf1) as (Ha & Hc & _). split; intros k.
      * rewrite IHa, Ha. unfold rec_amount. destruct (keqb cmp_ak k (akey_of st (sr_sdenom st))); cbn [fst snd]; f_equal; lia.
      * rewrite IHc, Hc. unfold rec_count. destruct (keqb cmp_ck k (ckey_of st)); lia.
    + destruct Hs as [Ha Hc]. split; intros k.
      * rewrite IHa. unfold stat_get. rewrite Ha. f_equal; lia.
      * rewrite IHc. unfold count_get. rewrite Hc. lia.
Qed.

(* ---------- C08 / C09 on any chain: packets never change the pause state or the limit ---------- *)
From Orbiter Require Import Proofs.HistoryProofs.
Theorem recv_gas_controls g cfg e w p tape lie :
  controls (w_o (rr_world (recv_gas g cfg e w p tape lie))) = controls (w_o w).
Proof.
  destruct (recv_gas_world g cfg e w p tape lie) as [H|[[m H]|H]]; rewrite H; cbn [w_o];
    [apply recv_controls|apply recv_controls|reflexivity].
Qed.

(* ---------- C18 on any chain: the limit in force is the value most recently set by the authority ---------- *)
Lemma step_gas_limit g cfg e w o :
  pass_limit (w_o (fst (step_gas g cfg e w o))) = limit_after (cfg_authority cfg) (pass_limit (w_o w)) o.
Proof.
  destruct o as [p tape lie|signer m tape|to d a|sf st sd sa|mv|q| | | |p2 tape2 lie2 k2];
    [|exact (step_limit cfg e w (OMsg signer m tape))|exact (step_limit cfg e w (ODeposit to d a))
     |exact (step_limit cfg e w (OSend sf st sd sa))|exact (step_limit cfg e w (OMove mv))|exact (step_limit cfg e w (OQuery q))
     |exact (step_limit cfg e w OBlockedOutside)|exact (step_limit cfg e w OCallback)|exact (step_limit cfg e w OAppPanics)|].
  - cbn [step_gas fst limit_after]. pose proof (recv_gas_controls g cfg e w p tape lie) as H. unfold controls in H.
    inversion H as [[H1 H2 H3 Hm]]. unfold pass_limit. rewrite Hm. reflexivity.
  - reflexivity.
Qed.
Theorem limit_in_force_gas g cfg e : forall ops w,
  pass_limit (w_o (final_world_gas g cfg e w ops)) = fold_left (limit_after (cfg_authority cfg)) ops (pass_limit (w_o w)).
Proof.
  induction ops as [|o r IH]; intros w; [reflexivity|].
  rewrite run_ops_gas_cons. cbn [fold_left]. rewrite <- (step_gas_limit g cfg e w o). apply IH.
Qed.
