(* Histories on ANY chain: whatever the chain's Hyperlane hooks charge for gas, the world a history reaches is
   a world that a history on the chain WITHOUT such hooks reaches, with the gas payments made explicit as plain
   ledger movements ([OMove]).  So every theorem about all reachable worlds holds on every chain. *)
From Coq Require Import String List ZArith Bool Lia.
From Orbiter Require Import Lib.Str Lib.Res Gen.Constants Model.Ids Model.Env Model.Fee Model.Denom
     Model.Payload Model.State Model.Pipeline Model.Msgs Proofs.Ledger Proofs.PipelineProofs Proofs.TransferProps
     Proofs.GasProofs Proofs.GasCharged Proofs.StatsProofs Proofs.GenesisProofs.
Import ListNotations.
Open Scope string_scope.
Open Scope Z_scope.
Open Scope list_scope.

Fixpoint run_ops_gas (g : gas_fn) (cfg : config) (e : env) (w : world) (ops : list op) : world * list out :=
  match ops with
  | [] => (w, [])
  | o :: r => let '(w1, x) := step_gas g cfg e w o in
              let '(w2, xs) := run_ops_gas g cfg e w1 r in (w2, x :: xs)
  end.
Definition final_world_gas g cfg e w ops := fst (run_ops_gas g cfg e w ops).

(* one packet: the world it leaves is the world the hook-free chain leaves, or that world after one more
   movement (the gas payment), or the world it found *)
Lemma recv_gas_world g cfg e w p tape lie :
  rr_world (recv_gas g cfg e w p tape lie) = rr_world (recv_lie cfg e w p tape lie) \/
  (exists m, rr_world (recv_gas g cfg e w p tape lie) =
             {| w_o := w_o (rr_world (recv_lie cfg e w p tape lie));
                w_l := apply_move (w_l (rr_world (recv_lie cfg e w p tape lie))) m |}) \/
  rr_world (recv_gas g cfg e w p tape lie) = w.
Proof.
  unfold recv_gas, recv_lie, recv_with, recv_generic.
  change (is_orbiter_receiver (with_gas repaired g)) with (is_orbiter_receiver repaired).
  change (parse_orbiter_packet (with_gas repaired g)) with (parse_orbiter_packet repaired).
  change (v_stats_strict (with_gas repaired g)) with (v_stats_strict repaired).
  destruct (negb (ccid_valid _)); [left; reflexivity|].
  destruct (_ || _); [left; reflexivity|].
  destruct (negb (existsb _ _)); [left; reflexivity|].
  destruct (pk_data p) as [|denom amount sender receiver memo]; [left; reflexivity|].
  destruct (negb (is_orbiter_receiver repaired cfg e receiver)); [left; reflexivity|].
  destruct (parse_orbiter_packet repaired e p denom amount memo) as [[t pl]| |]; [|left; reflexivity|left; reflexivity].
  destruct (p_fwd pl) as [f|]; [|left; reflexivity].
  destruct (pass_limit (w_o w) <? slen (f_pass f)); [left; reflexivity|].
  destruct (match f_attrs f with Some a => attrs_gas_free g a | None => true end) eqn:Hg.
  { left. rewrite recv_body_gas_free by (reflexivity || exact Hg). reflexivity. }
  match goal with |- context [recv_body (with_gas repaired g) ?c ?ac ?en ?li ?o ?pk ?pl0 ?f0 ?t0 ?s0] =>
    destruct (recv_body (with_gas repaired g) c ac en li o pk pl0 f0 t0 s0) as [t' s1|l s1|y] eqn:Hb end;
    [|right; right; reflexivity|right; right; reflexivity].
  apply recv_body_charged in Hb as (a & m & s1' & Hfa & Hplain & -> & _ & _); [|exact Hg].
  rewrite Hplain.
  destruct (update_stats_swallow (v_stats_strict repaired) (w_o w) t' f) as [o'| |]; [|left; reflexivity|left; reflexivity].
  rewrite ext_do_move.
  destruct (ext (CEmit "EventPayloadProcessed") s1') as [v s2]. cbn [fst snd].
  destruct v; [|left; reflexivity].
  right. left. exists m. reflexivity.
Qed.

Lemma run_ops_gas_cons g cfg e w o r :
  final_world_gas g cfg e w (o :: r) = final_world_gas g cfg e (fst (step_gas g cfg e w o)) r.
Proof.
  unfold final_world_gas. cbn [run_ops_gas]. destruct (step_gas g cfg e w o) as [w1 x]. cbn [fst].
  destruct (run_ops_gas g cfg e w1 r) as [w2 xs]. reflexivity.
Qed.
Lemma final_world_cons cfg e w o r : final_world cfg e w (o :: r) = final_world cfg e (fst (step cfg e w o)) r.
Proof. unfold final_world. rewrite run_ops_cons. reflexivity. Qed.
Lemma final_world_app cfg e : forall a w b, final_world cfg e w (a ++ b) = final_world cfg e (final_world cfg e w a) b.
Proof.
  induction a as [|o a IH]; intros w b; [reflexivity|].
  rewrite <- app_comm_cons, !final_world_cons. apply IH.
Qed.

(* one step on a chain with hooks = at most two steps on the chain without (the packet, then the gas payment as
   a plain movement), or none *)
Lemma step_gas_simulated g cfg e w o :
  exists os, fst (step_gas g cfg e w o) = final_world cfg e w os.
Proof.
  assert (Hsame : forall o', step_gas g cfg e w o' = step cfg e w o' ->
                             exists os, fst (step_gas g cfg e w o') = final_world cfg e w os).
  { intros o' E. exists [o']. rewrite final_world_cons, E. reflexivity. }
  destruct o as [p tape lie|signer m tape|to d a|sf st sd sa|mv|q| | | |p tape lie k].
  - cbn [step_gas fst].
    destruct (recv_gas_world g cfg e w p tape lie) as [H|[[m H]|H]].
    + exists [ORecv p tape lie]. rewrite final_world_cons. cbn [step fst]. exact H.
    + exists [ORecv p tape lie; OMove m]. rewrite !final_world_cons. cbn [step fst]. exact H.
    + exists []. exact H.
  - apply Hsame. reflexivity.
  - apply Hsame. reflexivity.
  - apply Hsame. reflexivity.
  - apply Hsame. reflexivity.
  - apply Hsame. reflexivity.
  - apply Hsame. reflexivity.
  - apply Hsame. reflexivity.
  - apply Hsame. reflexivity.
  - exists []. reflexivity.
Qed.

Theorem gas_history_simulated g cfg e : forall ops w,
  exists ops', final_world_gas g cfg e w ops = final_world cfg e w ops'.
Proof.
  induction ops as [|o r IH]; intros w; [exists []; reflexivity|].
  rewrite run_ops_gas_cons.
  destruct (step_gas_simulated g cfg e w o) as [os Hs]. rewrite Hs.
  destruct (IH (final_world cfg e w os)) as [r' Hr]. exists (os ++ r'). rewrite final_world_app. exact Hr.
Qed.


(* so the invariant of the module state (sorted, duplicate-free, valid, positive entries: what the queries and
   the genesis round trip rely on) holds after every history on every chain *)
Theorem history_inv_gas g cfg e ops w : Inv (w_o w) -> Inv (w_o (final_world_gas g cfg e w ops)).
Proof.
  intros I. destruct (gas_history_simulated g cfg e ops w) as [ops' ->]. apply history_inv. exact I.
Qed.
