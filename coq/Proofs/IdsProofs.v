From Coq Require Import String Ascii List ZArith NArith Bool Lia.
From Coq Require Import Decimal DecimalString DecimalN DecimalFacts.
From Orbiter Require Import Lib.Str Lib.Res Gen.Constants Model.Ids.
Import ListNotations.
Open Scope string_scope.

(* ---------- decimal strings ---------- *)

Lemma uint_beq_eq d d' : uint_beq d d' = true <-> d = d'.
Proof.
  split; [apply internal_uint_dec_bl | apply internal_uint_dec_lb].
Qed.

Lemma canon_val_spec s n : canon_val s = Some n <-> s = n_to_dec n.
Proof.
  unfold canon_val, n_to_dec. split.
  - destruct (NilEmpty.uint_of_string s) as [d|] eqn:Hs; [|discriminate].
    destruct (uint_beq (unorm d) d) eqn:Hb; [|discriminate].
    intros H; inversion H; subst n; clear H.
    apply uint_beq_eq in Hb. apply NilEmpty.sus in Hs. subst s.
    rewrite DecimalN.Unsigned.to_of, Hb. reflexivity.
  - intros ->. rewrite NilEmpty.usu.
    assert (Hn : unorm (N.to_uint n) = N.to_uint n).
    { rewrite <- DecimalN.Unsigned.to_of, DecimalN.Unsigned.of_to. reflexivity. }
    rewrite Hn. replace (uint_beq (N.to_uint n) (N.to_uint n)) with true
      by (symmetry; apply uint_beq_eq; reflexivity).
    rewrite DecimalN.Unsigned.of_to. reflexivity.
Qed.

Lemma n_to_dec_inj n m : n_to_dec n = n_to_dec m -> n = m.
Proof.
  intros H. assert (canon_val (n_to_dec n) = Some m) by (apply canon_val_spec; exact H).
  assert (canon_val (n_to_dec n) = Some n) by (apply canon_val_spec; reflexivity).
  congruence.
Qed.

Lemma string_of_uint_digits d : all_digits (NilEmpty.string_of_uint d) = true.
Proof. induction d; cbn; try rewrite IHd; reflexivity. Qed.

Lemma n_to_dec_digits n : all_digits (n_to_dec n) = true.
Proof. apply string_of_uint_digits. Qed.

Lemma to_uint_nonnil n : N.to_uint n <> Nil.
Proof.
  intros H. pose proof (DecimalN.Unsigned.to_of (N.to_uint n)) as E.
  rewrite DecimalN.Unsigned.of_to in E. rewrite H in E. cbn in E. discriminate.
Qed.

Lemma n_to_dec_nonempty n : n_to_dec n <> "".
Proof.
  unfold n_to_dec. pose proof (to_uint_nonnil n) as H.
  destruct (N.to_uint n); cbn; try discriminate. congruence.
Qed.

Lemma digits_val_dec n : digits_val (n_to_dec n) = Some n.
Proof.
  unfold digits_val. pose proof (n_to_dec_nonempty n) as Hne.
  destruct (n_to_dec n) eqn:E; [congruence|]. rewrite <- E.
  unfold n_to_dec. rewrite NilEmpty.usu, DecimalN.Unsigned.of_to. reflexivity.
Qed.

Lemma digits_no_char c s : is_digit c = false -> all_digits s = true -> no_char c s = true.
Proof.
  intros Hc. induction s as [|x r IH]; cbn; [reflexivity|].
  intros H. apply andb_true_iff in H as [Hx Hr]. rewrite (IH Hr), andb_true_r.
  destruct (Ascii.eqb x c) eqn:E; [|reflexivity].
  apply Ascii.eqb_eq in E. subst x. congruence.
Qed.

Lemma split_first_app c a b :
  no_char c a = true -> split_first c (a ++ String c b) = Some (a, b).
Proof.
  induction a as [|x r IH]; cbn.
  - intros _. rewrite Ascii.eqb_refl. reflexivity.
  - intros H. apply andb_true_iff in H as [Hx Hr].
    destruct (Ascii.eqb x c); [discriminate|]. rewrite (IH Hr). reflexivity.
Qed.

Lemma first_char_digit s : all_digits s = true -> s <> "" ->
  exists c r, s = String c r /\ is_digit c = true.
Proof.
  destruct s as [|c r]; [congruence|]. cbn. intros H _.
  apply andb_true_iff in H as [Hc _]. eauto.
Qed.

Lemma parse_signed_dec lo hi n :
  (lo <= Z.of_N n <= hi)%Z -> parse_signed lo hi (n_to_dec n) = Some (Z.of_N n).
Proof.
  intros Hr. destruct (first_char_digit (n_to_dec n) (n_to_dec_digits n) (n_to_dec_nonempty n))
    as (c & r & E & Hc).
  pose proof (digits_val_dec n) as Hv. unfold parse_signed. rewrite E in *.
  assert (Hb : (lo <=? Z.of_N n)%Z && (Z.of_N n <=? hi)%Z = true).
  { apply andb_true_iff; split; apply Z.leb_le; lia. }
  destruct c as [b0 b1 b2 b3 b4 b5 b6 b7].
  destruct b0, b1, b2, b3, b4, b5, b6, b7; try (cbv in Hc; discriminate Hc);
    rewrite Hv, Hb; reflexivity.
Qed.

(* ---------- identifiers ---------- *)

Lemma enum_known_in table id :
  enum_known table id = true -> exists name, In (id, name) table.
Proof.
  unfold enum_known. intros H. apply existsb_exists in H as ([k name] & Hin & Hk).
  cbn in Hk. apply Z.eqb_eq in Hk. subst k. eauto.
Qed.

(* every protocol number of the (generated) enum table is a non-negative int32 *)
Lemma protocol_table_range :
  forallb (fun kv => (0 <=? fst kv)%Z && (fst kv <=? 2147483647)%Z) protocol_ids = true.
Proof. vm_compute. reflexivity. Qed.

Lemma protocol_valid_range p : protocol_valid p = true -> (0 <= p <= 2147483647)%Z.
Proof.
  unfold protocol_valid. intros H. apply andb_true_iff in H as [_ H].
  apply enum_known_in in H as (name & Hin).
  pose proof protocol_table_range as Ht. rewrite forallb_forall in Ht.
  specialize (Ht _ Hin). cbn in Ht. apply andb_true_iff in Ht as [H1 H2].
  apply Z.leb_le in H1, H2. lia.
Qed.

Lemma sep_is_colon : ccid_separator = String sep_char "".
Proof. reflexivity. Qed.

Lemma sep_not_digit : is_digit sep_char = false.
Proof. reflexivity. Qed.

Lemma u32_small p : (0 <= p < 4294967296)%Z -> u32 p = Z.to_N p.
Proof. intros H. unfold u32. rewrite Z.mod_small by lia. reflexivity. Qed.

Theorem ccid_roundtrip_with intcheck c :
  ccid_valid_with intcheck c = true -> parse_ccid_with intcheck (ccid_id c) = Some c.
Proof.
  intros Hv. pose proof Hv as Hv'. unfold ccid_valid_with in Hv'.
  apply andb_true_iff in Hv' as [Hp _]. apply protocol_valid_range in Hp.
  unfold parse_ccid_with, ccid_id. rewrite sep_is_colon.
  change (String sep_char "" ++ c_cp c) with (String sep_char (c_cp c)).
  rewrite split_first_app
    by (apply digits_no_char; [apply sep_not_digit | apply n_to_dec_digits]).
  rewrite u32_small by lia.
  rewrite parse_signed_dec by (rewrite Z2N.id by lia; lia).
  rewrite Z2N.id by lia. destruct c as [p cp]; cbn [c_proto c_cp] in *.
  rewrite Hv. reflexivity.
Qed.

Lemma split_first_inj c a b a' b' :
  no_char c a = true -> no_char c a' = true ->
  a ++ String c b = a' ++ String c b' -> a = a' /\ b = b'.
Proof.
  intros Ha Ha' E.
  pose proof (split_first_app c a b Ha) as H1. pose proof (split_first_app c a' b' Ha') as H2.
  rewrite E in H1. rewrite H1 in H2. inversion H2. auto.
Qed.

Lemma u32_inj p q :
  (-2147483648 <= p <= 2147483647)%Z -> (-2147483648 <= q <= 2147483647)%Z ->
  u32 p = u32 q -> p = q.
Proof.
  unfold u32. intros Hp Hq H.
  apply (f_equal Z.of_N) in H.
  rewrite !Z2N.id in H by (apply Z.mod_pos_bound; lia).
  assert (Hd : ((p - q) mod 4294967296 = 0)%Z).
  { rewrite Zminus_mod, H, Z.sub_diag. reflexivity. }
  apply Z.mod_divide in Hd; [|lia]. destruct Hd as [k Hk]. lia.
Qed.

Theorem ccid_id_injective c1 c2 :
  (-2147483648 <= c_proto c1 <= 2147483647)%Z -> (-2147483648 <= c_proto c2 <= 2147483647)%Z ->
  ccid_id c1 = ccid_id c2 -> c1 = c2.
Proof.
  intros H1 H2 E. unfold ccid_id in E. rewrite sep_is_colon in E.
  change (String sep_char "" ++ c_cp c1) with (String sep_char (c_cp c1)) in E.
  change (String sep_char "" ++ c_cp c2) with (String sep_char (c_cp c2)) in E.
  apply split_first_inj in E;
    try (apply digits_no_char; [apply sep_not_digit | apply n_to_dec_digits]).
  destruct E as [Ep Ec]. apply n_to_dec_inj in Ep. apply u32_inj in Ep; try assumption.
  destruct c1, c2; cbn in *; congruence.
Qed.

(* the accepted CCTP / Hyperlane counterparties are exactly the decimal forms of the uint32 domains *)
Theorem is_domain_string_spec s :
  is_domain_string s = true <-> exists n, (n < 4294967296)%N /\ s = n_to_dec n.
Proof.
  unfold is_domain_string. split.
  - destruct (canon_val s) as [n|] eqn:E; [|discriminate].
    intros H. exists n. split; [apply N.ltb_lt; exact H | apply canon_val_spec; exact E].
  - intros (n & Hn & ->).
    replace (canon_val (n_to_dec n)) with (Some n) by (symmetry; apply canon_val_spec; reflexivity).
    apply N.ltb_lt; exact Hn.
Qed.

Lemma nb_digits_double d :
  (nb_digits (Little.double d) <= S (nb_digits d) /\
   nb_digits (Little.succ_double d) <= S (nb_digits d))%nat.
Proof. induction d as [|d [IH1 IH2]|d [IH1 IH2]|d [IH1 IH2]|d [IH1 IH2]|d [IH1 IH2]|d [IH1 IH2]|d [IH1 IH2]|d [IH1 IH2]|d [IH1 IH2]|d [IH1 IH2]];
  cbn; split; lia. Qed.

Lemma nb_digits_little p : (nb_digits (Pos.to_little_uint p) <= Pos.size_nat p)%nat.
Proof.
  induction p as [p IH|p IH|]; cbn.
  - pose proof (proj2 (nb_digits_double (Pos.to_little_uint p))). lia.
  - pose proof (proj1 (nb_digits_double (Pos.to_little_uint p))). lia.
  - lia.
Qed.

Lemma size_nat_bound k p : (Zpos p < 2 ^ Z.of_nat k)%Z -> (Pos.size_nat p <= k)%nat.
Proof.
  revert p. induction k as [|k IH]; intros p H.
  - cbn in H. lia.
  - rewrite Nat2Z.inj_succ, Z.pow_succ_r in H by lia.
    destruct p as [p|p|]; cbn; try lia; apply le_n_S, IH; lia.
Qed.

Lemma string_of_uint_length d : String.length (NilEmpty.string_of_uint d) = nb_digits d.
Proof. induction d; cbn; congruence. Qed.

(* the decimal form of a uint32 never exceeds the 32-character limit (a coarse bound suffices) *)
Lemma domain_string_len n : (n < 4294967296)%N -> (slen (n_to_dec n) <= 32)%Z.
Proof.
  intros H. unfold slen, n_to_dec. rewrite string_of_uint_length.
  destruct n as [|p]; [cbn; lia|].
  cbn [N.to_uint]. unfold Pos.to_uint. rewrite nb_digits_rev.
  pose proof (nb_digits_little p) as H1.
  assert (H2 : (Pos.size_nat p <= 32)%nat) by (apply size_nat_bound; cbn; lia).
  lia.
Qed.

Lemma valid_counterparty_domain_proto s p :
  p = protocol_cctp \/ p = protocol_hyperlane ->
  valid_counterparty s p =
  negb (String.eqb s "") && (slen s <=? max_counterparty_id_length)%Z && is_domain_string s.
Proof.
  intros [-> | ->]; unfold valid_counterparty, valid_counterparty_with; reflexivity.
Qed.

Theorem valid_counterparty_canonical s p :
  p = protocol_cctp \/ p = protocol_hyperlane ->
  (valid_counterparty s p = true <-> exists n, (n < 4294967296)%N /\ s = n_to_dec n).
Proof.
  intros Hp. rewrite (valid_counterparty_domain_proto s p Hp). split.
  - intros H. apply andb_true_iff in H as [_ H]. apply is_domain_string_spec; exact H.
  - intros (n & Hn & ->). apply andb_true_iff; split; [apply andb_true_iff; split|].
    + apply negb_true_iff, String.eqb_neq, n_to_dec_nonempty.
    + apply Z.leb_le. pose proof (domain_string_len n Hn) as Hl.
      unfold max_counterparty_id_length. lia.
    + apply is_domain_string_spec. eauto.
Qed.

Theorem domain_counterparty_matches s p domain :
  p = protocol_cctp \/ p = protocol_hyperlane ->
  valid_counterparty s p = true -> (0 <= domain < 4294967296)%Z ->
  (domain_counterparty domain = s <-> canon_val s = Some (Z.to_N domain)).
Proof.
  intros Hp Hv Hd. unfold domain_counterparty. rewrite canon_val_spec. split; congruence.
Qed.

Theorem accepted_no_aliases s1 s2 p :
  p = protocol_cctp \/ p = protocol_hyperlane ->
  valid_counterparty s1 p = true -> valid_counterparty s2 p = true ->
  canon_val s1 = canon_val s2 -> s1 = s2.
Proof.
  intros Hp H1 H2 E.
  apply (valid_counterparty_canonical s1 p Hp) in H1 as (n1 & _ & ->).
  apply (valid_counterparty_canonical s2 p Hp) in H2 as (n2 & _ & ->).
  replace (canon_val (n_to_dec n1)) with (Some n1) in E by (symmetry; apply canon_val_spec; reflexivity).
  replace (canon_val (n_to_dec n2)) with (Some n2) in E by (symmetry; apply canon_val_spec; reflexivity).
  congruence.
Qed.
