(* C12: the dispatch statistics are the accumulation of the successful transfers. *)
From Coq Require Import String Ascii List ZArith Bool Lia.
From Orbiter Require Import Lib.Str Lib.Res Gen.Constants Model.Ids Model.Env Model.Fee Model.Denom
     Model.Payload Model.State Model.Pipeline Model.Msgs Proofs.PipelineProofs Proofs.SetProofs Proofs.TransferProps
     Proofs.NoPanic Proofs.MsgProofs.
Import ListNotations.
Open Scope string_scope.
Open Scope Z_scope.
Open Scope list_scope.

(* ---------- keys ---------- *)
Lemma lex_eq c1 c2 : lex c1 c2 = Eq <-> c1 = Eq /\ c2 = Eq.
Proof. unfold lex. destruct c1; split; intros H; try discriminate; try (destruct H; discriminate); auto. destruct H; auto. Qed.

Lemma cmp_ak_eq a b : cmp_ak a b = Eq <-> a = b.
Proof.
  destruct a as [p1 c1 d1 n1], b as [p2 c2 d2 n2]. unfold cmp_ak. cbn [ak_sp ak_sc ak_dst ak_denom].
  rewrite !lex_eq, cmp_z_eq, !cmp_str_eq. split; [intros (-> & -> & -> & ->); reflexivity|intros H; inversion H; auto].
Qed.
Lemma cmp_ck_eq a b : cmp_ck a b = Eq <-> a = b.
Proof.
  destruct a as [p1 c1 q1 d1], b as [p2 c2 q2 d2]. unfold cmp_ck. cbn [ck_sp ck_sc ck_dp ck_dc].
  rewrite !lex_eq, !cmp_z_eq, !cmp_str_eq. split; [intros (-> & -> & -> & ->); reflexivity|intros H; inversion H; auto].
Qed.

(* ---------- sorted association maps: lookup after update ---------- *)
Section Maps.
  Context {K V : Type} (cmp : K -> K -> comparison).
  Hypothesis cmp_eq : forall a b, cmp a b = Eq <-> a = b.

  Lemma mget_mset (k : K) (v : V) (m : list (K * V)) (k' : K) :
    mget cmp k' (mset cmp k v m) = if keqb cmp k' k then Some v else mget cmp k' m.
  Proof.
    induction m as [|[k0 v0] t IH]; cbn [mset mget].
    - reflexivity.
    - destruct (cmp k k0) eqn:E; cbn [mget].
      + apply cmp_eq in E. subst k0. destruct (keqb cmp k' k); reflexivity.
      + reflexivity.
      + rewrite IH. destruct (keqb cmp k' k0) eqn:E0; [|reflexivity].
        destruct (keqb cmp k' k) eqn:E1; [|reflexivity].
        apply (keqb_eq cmp cmp_eq) in E0, E1. rewrite <- E0, E1 in E.
        rewrite (proj2 (cmp_eq k k) eq_refl) in E. discriminate.
  Qed.
End Maps.

Lemma outcome_eq_ok (x : outcome) : x = OAckOk \/ x <> OAckOk.
Proof. destruct x; [left; reflexivity|right; discriminate|right; discriminate|right; discriminate]. Qed.

Definition stat_get (o : ostate) (k : akey) : Z * Z :=
  match mget cmp_ak k (amounts o) with Some v => v | None => (0, 0) end.
Definition count_get (o : ostate) (k : ckey) : Z :=
  match mget cmp_ck k (counts o) with Some v => v | None => 0 end.

Definition akey_of (r : stat_rec) (denom : string) : akey :=
  {| ak_sp := sr_sp r; ak_sc := sr_sc r; ak_dst := ccid_id {| c_proto := sr_dp r; c_cp := sr_dc r |}; ak_denom := denom |}.
Definition ckey_of (r : stat_rec) : ckey :=
  {| ck_sp := sr_sp r; ck_sc := sr_sc r; ck_dp := sr_dp r; ck_dc := sr_dc r |}.

(* the totals stay inside the 256-bit / 64-bit ranges: the named hypothesis [no_stats_overflow] *)
Definition fits_stat (o : ostate) (r : stat_rec) : Prop :=
  int_fits (fst (stat_get o (akey_of r (sr_sdenom r))) + sr_in r) = true /\
  int_fits (snd (stat_get o (akey_of r (sr_ddenom r))) + sr_out r) = true /\
  count_get o (ckey_of r) <> 18446744073709551615.

(* what recording [r] means (same-denomination transfers, the only ones the wired actions produce) *)
Definition recorded (o o' : ostate) (r : stat_rec) : Prop :=
  (forall k, stat_get o' k = if keqb cmp_ak k (akey_of r (sr_sdenom r))
                             then (fst (stat_get o k) + sr_in r, snd (stat_get o k) + sr_out r) else stat_get o k) /\
  (forall k, count_get o' k = if keqb cmp_ck k (ckey_of r) then count_get o k + 1 else count_get o k) /\
  paused_protos o' = paused_protos o /\ paused_cc o' = paused_cc o /\ paused_actions o' = paused_actions o /\
  max_pass o' = max_pass o.

Lemma update_stats_records o t f r o' :
  stat_of t f = Some r -> sr_sdenom r = sr_ddenom r -> 0 < sr_in r -> 0 < sr_out r ->
  ccid_valid {| c_proto := sr_sp r; c_cp := sr_sc r |} = true ->
  ccid_valid {| c_proto := sr_dp r; c_cp := sr_dc r |} = true ->
  fits_stat o r ->
  update_stats_swallow true o t f = Ok o' -> recorded o o' r.
Proof.
  unfold recorded, stat_of, update_stats_swallow. destruct (f_attrs f) as [a|]; [|discriminate].
  destruct (counterparty_of a) as [cp|]; [|discriminate]. intros H; inversion H; subst r; clear H.
  cbn [sr_sp sr_sc sr_dp sr_dc sr_sdenom sr_ddenom sr_in sr_out]. intros Hden Hin Hout Hsrc Hdst (F1 & F2 & F3).
  rewrite Hsrc, Hdst. cbn [negb orb]. rewrite Hden, String.eqb_refl.
  unfold akey_of, ckey_of in *. cbn [sr_sp sr_sc sr_dp sr_dc sr_sdenom sr_ddenom sr_in sr_out] in *. rewrite Hden in *.
  set (k := {| ak_sp := t_sp t; ak_sc := t_sc t; ak_dst := ccid_id {| c_proto := f_pid f; c_cp := cp |}; ak_denom := t_ddenom t |}) in *.
  set (ck := {| ck_sp := t_sp t; ck_sc := t_sc t; ck_dp := f_pid f; ck_dc := cp |}) in *.
  unfold update_amount, stat_get in *.
  destruct (match mget cmp_ak k (amounts o) with Some v => v | None => (0, 0) end) as [oi oo] eqn:Eold.
  cbn [fst snd] in F1, F2. unfold add_amount.
  apply Z.ltb_lt in Hin, Hout. rewrite Hin, Hout, F1, F2. cbn [bind].
  unfold update_count, count_get in *. cbn [set_stats counts amounts].
  destruct (match mget cmp_ck ck (counts o) with Some v => v | None => 0 end =? 18446744073709551615) eqn:Ec.
  { apply Z.eqb_eq in Ec. contradiction. }
  intros H; inversion H; subst o'; clear H. cbn [set_stats amounts counts paused_protos paused_cc paused_actions max_pass].
  split; [|split; [|auto]].
  - intros k'. rewrite (mget_mset cmp_ak cmp_ak_eq). destruct (keqb cmp_ak k' k) eqn:E; [|reflexivity].
    apply (keqb_eq cmp_ak cmp_ak_eq) in E. subst k'. rewrite Eold. reflexivity.
  - intros k'. rewrite (mget_mset cmp_ck cmp_ck_eq). destruct (keqb cmp_ck k' ck) eqn:E; [|reflexivity].
    apply (keqb_eq cmp_ck cmp_ck_eq) in E. subst k'. reflexivity.
Qed.

(* ---------- one packet ---------- *)
(* a successful transfer records exactly: incoming = the amount received, outgoing = the amount
   forwarded, under (source = (IBC, destination channel of the packet), destination = the payload's,
   denomination = the credited one), and one more dispatch for (source, destination) *)
Lemma recv_records_lie cfg e w p tape lie :
  rr_out (recv_lie cfg e w p tape lie) = OAckOk ->
  exists r,
    rr_stat (recv_lie cfg e w p tape lie) = Some r /\
    sr_sp r = protocol_ibc /\ sr_sc r = pk_dchan p /\ sr_sdenom r = sr_ddenom r /\ 0 < sr_out r /\ sr_out r <= sr_in r /\
    (exists fees sink rest, rr_moves (recv_lie cfg e w p tape lie) = rest ++ fees ++ [sink] /\
                            sr_in r = moves_total fees + sr_out r /\ Forall (fee_move_ok cfg (sr_ddenom r)) fees) /\
    (fits_stat (w_o w) r -> recorded (w_o w) (w_o (rr_world (recv_lie cfg e w p tape lie))) r).
Proof.
  intros H.
  destruct (recv_ok_inv _ _ _ _ _ _ H) as (denom & amount & sender & receiver & pl & f & t & t' & a & cp & acalls & fcalls & ams & mv & o' & T).
  pose proof (tr_checked _ _ _ _ _ _ _ _ _ _ _ _ _ _ _ _ _ _ _ _ _ T) as C.
  destruct (parse_facts _ _ _ _ _ _ (tr_parse _ _ _ _ _ _ _ _ _ _ _ _ _ _ _ _ _ _ _ _ _ T)) as (amt & d & _ & _ & _ & Hv & Ht).
  destruct (fee_steps_facts _ _ _ _ _ _ _ (tr_steps _ _ _ _ _ _ _ _ _ _ _ _ _ _ _ _ _ _ _ _ _ T)) as (Hdd & Hsd & Hsa & Hsp & Hsc & Hda & Hfm).
  destruct (tattr_validate_pos _ (fc_tattr _ _ _ _ _ _ _ _ _ C)) as [Hin Hout].
  assert (Hst : stat_of t' f = Some {| sr_sp := t_sp t'; sr_sc := t_sc t'; sr_dp := f_pid f; sr_dc := cp;
                  sr_sdenom := t_sdenom t'; sr_in := t_samt t'; sr_ddenom := t_ddenom t'; sr_out := t_damt t' |}).
  { unfold stat_of. rewrite (fc_attrs _ _ _ _ _ _ _ _ _ C), (fc_cp _ _ _ _ _ _ _ _ _ C). reflexivity. }
  eexists. split; [rewrite (tr_ghost _ _ _ _ _ _ _ _ _ _ _ _ _ _ _ _ _ _ _ _ _ T); exact Hst|].
  cbn [sr_sp sr_sc sr_sdenom sr_ddenom sr_in sr_out].
  assert (Hfeesnn : 0 <= moves_total ams).
  { clear - Hfm. induction Hfm as [|m r (to & x & -> & Hx & _) _ IH]; [cbn; lia|]. unfold moves_total in *. cbn [fold_right]. lia. }
  split; [rewrite Hsp, Ht; reflexivity|]. split; [rewrite Hsc, Ht; reflexivity|].
  split; [rewrite Hsd, Hdd, Ht; reflexivity|]. split; [exact Hout|].
  split; [rewrite Hsa, Hda, Ht; cbn [t_samt t_damt]; lia|].
  split.
  { exists ams, mv, (sweep_moves cfg (t_ddenom t) (bal (w_l w) (cfg_orbiter cfg) (t_ddenom t) + lie) ++ [credit_move cfg p t]).
    rewrite (tr_moves _ _ _ _ _ _ _ _ _ _ _ _ _ _ _ _ _ _ _ _ _ T), <- !app_assoc. split; [reflexivity|].
    split; [rewrite Hsa, Hda, Ht; cbn [t_samt t_damt]; lia|]. rewrite Hdd. exact Hfm. }
  intros Hfit. rewrite (tr_world _ _ _ _ _ _ _ _ _ _ _ _ _ _ _ _ _ _ _ _ _ T). cbn [w_o].
  eapply update_stats_records; [exact Hst| | | | | |exact Hfit|exact (tr_stats _ _ _ _ _ _ _ _ _ _ _ _ _ _ _ _ _ _ _ _ _ T)];
    cbn [sr_sp sr_sc sr_dp sr_dc sr_sdenom sr_ddenom sr_in sr_out].
  - rewrite Hsd, Hdd, Ht. reflexivity.
  - exact Hin.
  - exact Hout.
  - rewrite Hsp, Hsc, Ht. exact (tr_source _ _ _ _ _ _ _ _ _ _ _ _ _ _ _ _ _ _ _ _ _ T).
  - exact (fc_ccid _ _ _ _ _ _ _ _ _ C).
Qed.

Theorem recv_records cfg e w p tape :
  rr_out (recv cfg e w p tape) = OAckOk ->
  exists r,
    rr_stat (recv cfg e w p tape) = Some r /\
    sr_sp r = protocol_ibc /\ sr_sc r = pk_dchan p /\ sr_sdenom r = sr_ddenom r /\ 0 < sr_out r /\ sr_out r <= sr_in r /\
    (exists fees sink rest, rr_moves (recv cfg e w p tape) = rest ++ fees ++ [sink] /\
                            sr_in r = moves_total fees + sr_out r /\ Forall (fee_move_ok cfg (sr_ddenom r)) fees) /\
    (fits_stat (w_o w) r -> recorded (w_o w) (w_o (rr_world (recv cfg e w p tape))) r).
Proof. exact (recv_records_lie cfg e w p tape 0). Qed.

(* anything else - a refused packet, a delegated packet - leaves the module state alone *)
Lemma recv_no_record_lie cfg e w p tape lie :
  rr_out (recv_lie cfg e w p tape lie) <> OAckOk ->
  w_o (rr_world (recv_lie cfg e w p tape lie)) = w_o w /\ rr_stat (recv_lie cfg e w p tape lie) = None.
Proof.
  unfold recv_lie, recv_with, recv_generic.
  repeat match goal with
  | |- context [if ?c then _ else _] => destruct c; cbn [result_of rr_out rr_world rr_stat w_o]; try (intros; split; reflexivity)
  end.
  assert (Hdel : forall s, w_o (rr_world (delegate cfg e w p s)) = w_o w /\ rr_stat (delegate cfg e w p s) = None).
  { intros s. unfold delegate. destruct (ext CWrapped s) as [v s1]. destruct v; cbn; split; reflexivity. }
  destruct (pk_data p) as [|denom amount sender receiver memo]; [intros _; apply Hdel|].
  destruct (negb (is_orbiter_receiver _ _ _ _)); [intros _; apply Hdel|].
  destruct (parse_orbiter_packet _ _ _ _ _ _) as [[t pl]| |]; cbn; try (intros; split; reflexivity).
  destruct (p_fwd pl) as [f|]; cbn; try (intros; split; reflexivity).
  destruct (_ <? _); cbn; try (intros; split; reflexivity).
  destruct (recv_body _ _ _ _ _ _ _ _ _ _ _) as [t' s1|l1 s1|y]; cbn; try (intros; split; reflexivity).
  destruct (update_stats_swallow _ _ _ _); cbn; try (intros; split; reflexivity).
  destruct (ext _ s1) as [v s2]. destruct v; cbn; try (intros; split; reflexivity). intros H. congruence.
Qed.

Theorem recv_no_record cfg e w p tape :
  rr_out (recv cfg e w p tape) <> OAckOk ->
  w_o (rr_world (recv cfg e w p tape)) = w_o w /\ rr_stat (recv cfg e w p tape) = None.
Proof. exact (recv_no_record_lie cfg e w p tape 0). Qed.

(* messages never touch the statistics *)
Lemma step_msg_stats cfg w signer m tape :
  amounts (w_o (fst (step_msg cfg w signer m tape))) = amounts (w_o w) /\
  counts (w_o (fst (step_msg cfg w signer m tape))) = counts (w_o w).
Proof.
  destruct (step_msg cfg w signer m tape) as [w' x] eqn:E. cbn [fst].
  destruct (step_msg_out cfg w signer m tape) as (c & tr & Hx). rewrite E in Hx. cbn in Hx. subst x.
  destruct c as [|c].
  2:{ rewrite (step_msg_refused _ _ _ _ _ _ _ _ E) by discriminate. split; reflexivity. }
  destruct m as [name|name|name ids|name ids|name|name|mx|om oa nc nr].
  - apply msg_pause_protocol in E as (_ & _ & pid & _ & _ & _ & F). split; [apply (fr_amounts _ _ _ _ _ _ F)|apply (fr_counts _ _ _ _ _ _ F)].
  - apply msg_unpause_protocol in E as (_ & _ & pid & _ & _ & _ & F). split; [apply (fr_amounts _ _ _ _ _ _ F)|apply (fr_counts _ _ _ _ _ _ F)].
  - apply msg_pause_cc in E as (_ & _ & pid & _ & _ & Hm). destruct ids.
    + destruct Hm as (_ & _ & F). split; [apply (fr_amounts _ _ _ _ _ _ F)|apply (fr_counts _ _ _ _ _ _ F)].
    + destruct Hm as (_ & _ & _ & F). split; [apply (fr_amounts _ _ _ _ _ _ F)|apply (fr_counts _ _ _ _ _ _ F)].
  - apply msg_unpause_cc in E as (_ & _ & pid & _ & _ & Hm). destruct ids.
    + destruct Hm as (_ & _ & F). split; [apply (fr_amounts _ _ _ _ _ _ F)|apply (fr_counts _ _ _ _ _ _ F)].
    + destruct Hm as (_ & _ & _ & F). split; [apply (fr_amounts _ _ _ _ _ _ F)|apply (fr_counts _ _ _ _ _ _ F)].
  - apply msg_pause_action in E as (_ & _ & aid & _ & _ & _ & F). split; [apply (fr_amounts _ _ _ _ _ _ F)|apply (fr_counts _ _ _ _ _ _ F)].
  - apply msg_unpause_action in E as (_ & _ & aid & _ & _ & _ & F). split; [apply (fr_amounts _ _ _ _ _ _ F)|apply (fr_counts _ _ _ _ _ _ F)].
  - rewrite msg_update_params in E. destruct (String.eqb signer (cfg_authority cfg)); inversion E; subst; split; reflexivity.
  - apply step_msg_ok_inv in E as (_ & o' & s & Hb & -> & _). cbn [handle_body] in Hb.
    destruct (negb (existsb _ _)); [discriminate|]. apply mbind_ok in Hb as (u & s1 & _ & H2). inversion H2; subst. split; reflexivity.
Qed.

(* ---------- histories ---------- *)
(* the abstract ledger of statistics: what the successful transfers of a history add up to *)
Definition rec_amount (r : stat_rec) (k : akey) : Z * Z :=
  if keqb cmp_ak k (akey_of r (sr_sdenom r)) then (sr_in r, sr_out r) else (0, 0).
Definition rec_count (r : stat_rec) (k : ckey) : Z := if keqb cmp_ck k (ckey_of r) then 1 else 0.

Definition out_stat (x : out) : option stat_rec := match x with OutRecv r => rr_stat r | _ => None end.

Fixpoint sum_in (outs : list out) (k : akey) : Z :=
  match outs with
  | [] => 0
  | x :: r => match out_stat x with Some st => fst (rec_amount st k) | None => 0 end + sum_in r k
  end.
Fixpoint sum_out (outs : list out) (k : akey) : Z :=
  match outs with
  | [] => 0
  | x :: r => match out_stat x with Some st => snd (rec_amount st k) | None => 0 end + sum_out r k
  end.
Fixpoint sum_count (outs : list out) (k : ckey) : Z :=
  match outs with
  | [] => 0
  | x :: r => match out_stat x with Some st => rec_count st k | None => 0 end + sum_count r k
  end.

(* the hypothesis [no_stats_overflow], along a history: whenever a transfer is recorded, the totals fit *)
Fixpoint fits_along (cfg : config) (e : env) (w : world) (ops : list op) : Prop :=
  match ops with
  | [] => True
  | o :: r => (match out_stat (snd (step cfg e w o)) with Some st => fits_stat (w_o w) st | None => True end) /\
              fits_along cfg e (fst (step cfg e w o)) r
  end.

Lemma step_stats cfg e w o :
  match out_stat (snd (step cfg e w o)) with
  | Some st => fits_stat (w_o w) st -> recorded (w_o w) (w_o (fst (step cfg e w o))) st
  | None => amounts (w_o (fst (step cfg e w o))) = amounts (w_o w) /\ counts (w_o (fst (step cfg e w o))) = counts (w_o w)
  end.
Proof.
  destruct o as [p tape lie|signer m tape|to d a|sf st sd sa|mv|q| | | |p2 tape2 lie2 k2]; cbn [step fst snd].
  - cbn [out_stat]. destruct (outcome_eq_ok (rr_out (recv_lie cfg e w p tape lie))) as [E|E].
    + destruct (recv_records_lie _ _ _ _ _ _ E) as (r & Hr & _ & _ & _ & _ & _ & _ & Hrec). rewrite Hr. exact Hrec.
    + destruct (recv_no_record_lie _ _ _ _ _ _ E) as [Ho Hs]. rewrite Hs, Ho. split; reflexivity.
  - destruct (step_msg_out cfg w signer m tape) as (c & tr & Hx). rewrite Hx. cbn [out_stat]. apply step_msg_stats.
  - cbn [out_stat]. split; reflexivity.
  - destruct (_ || _ || _); cbn [out_stat fst snd w_o]; split; reflexivity.
  - cbn [out_stat]. split; reflexivity.
  - cbn [out_stat]. split; reflexivity.
  - cbn [out_stat]. split; reflexivity.
  - cbn [out_stat]. split; reflexivity.
  - cbn [out_stat]. split; reflexivity.
  - cbn [out_stat]. split; reflexivity.
Qed.

Lemma run_ops_cons cfg e w o r :
  run_ops cfg e w (o :: r) =
    (fst (run_ops cfg e (fst (step cfg e w o)) r), snd (step cfg e w o) :: snd (run_ops cfg e (fst (step cfg e w o)) r)).
Proof. cbn [run_ops]. destruct (step cfg e w o) as [w1 x]. cbn [fst snd]. destruct (run_ops cfg e w1 r) as [w2 xs]. reflexivity. Qed.

(* C12: after any history the totals are the initial ones plus the sums over the successful transfers,
   per (source, destination, denomination), and the counts their number per (source, destination) *)
Theorem stats_fold cfg e : forall ops w,
  fits_along cfg e w ops ->
  (forall k, stat_get (w_o (fst (run_ops cfg e w ops))) k =
             (fst (stat_get (w_o w) k) + sum_in (snd (run_ops cfg e w ops)) k,
              snd (stat_get (w_o w) k) + sum_out (snd (run_ops cfg e w ops)) k)) /\
  (forall k, count_get (w_o (fst (run_ops cfg e w ops))) k = count_get (w_o w) k + sum_count (snd (run_ops cfg e w ops)) k).
Proof.
  induction ops as [|o r IH]; intros w Hfit.
  - cbn. split; intros k; [destruct (stat_get (w_o w) k); cbn; f_equal; lia|lia].
  - destruct Hfit as [Hf1 Hf2]. rewrite run_ops_cons. cbn [fst snd sum_in sum_out sum_count].
    destruct (IH _ Hf2) as [IHa IHc]. pose proof (step_stats cfg e w o) as Hs.
    destruct (out_stat (snd (step cfg e w o))) as [st|].
    + destruct (Hs Hf1) as (Ha & Hc & _). split; intros k.
      * rewrite IHa, Ha. unfold rec_amount. destruct (keqb cmp_ak k (akey_of st (sr_sdenom st))); cbn [fst snd]; f_equal; lia.
      * rewrite IHc, Hc. unfold rec_count. destruct (keqb cmp_ck k (ckey_of st)); lia.
    + destruct Hs as [Ha Hc]. split; intros k.
      * rewrite IHa. unfold stat_get. rewrite Ha. f_equal; lia.
      * rewrite IHc. unfold count_get. rewrite Hc. lia.
Qed.
