(* Evaluators of the statistics-query family (C13). *)
From Coq Require Import String Ascii List ZArith NArith Bool.
From Orbiter Require Export Lib.Str Lib.Res Lib.Val Gen.Constants Model.Ids Model.State Model.Page Corr.RunWorld.
Import ListNotations.
Open Scope string_scope.
Open Scope Z_scope.

Definition v_amount (e : akey * (Z * Z)) : val :=
  let k := fst e in
  match dst_of k with
  | Some d => VL [VZ (ak_sp k); VS (ak_sc k); VZ (c_proto d); VS (c_cp d); VS (ak_denom k); VZ (fst (snd e)); VZ (snd (snd e))]
  | None => VS "unparsable destination"
  end.
Definition v_count (e : ckey * Z) : val :=
  let k := fst e in VL [VZ (ck_sp k); VS (ck_sc k); VZ (ck_dp k); VS (ck_dc k); VZ (snd e)].

Inductive listing := LAmtSrc | LAmtDst | LCntSrc | LCntDst.

Inductive page_case :=
| PLookupAmount (o : ostate) (sname scp dname dcp denom : string)
| PLookupCount (o : ostate) (sname scp dname dcp : string)
(* one page without key: offset, limit, count-total, reverse; result: items, whether a next key exists, total *)
| PPage (o : ostate) (l : listing) (pname : string) (offset limit : nat) (count_total reverse : bool)
(* a whole walk following next keys *)
| PWalk (o : ostate) (l : listing) (pname : string) (limit : nat) (reverse : bool)
(* one page of [limit1] from the start, then one page of [limit2] from its next key *)
| PResume (o : ostate) (l : listing) (pname : string) (limit1 limit2 : nat) (reverse : bool)
(* key and offset together *)
| PBoth (o : ostate) (l : listing) (pname : string).

Definition v_page {K A} (f : A -> val) (r : res (page_res K A)) : val :=
  match r with
  | Ok pg => VL [VZ 0; VLs f (pg_items pg); VB (match pg_next pg with Some _ => true | None => false end); VN (pg_total pg)]
  | _ => VL [VZ 1]
  end.

Definition with_listing {R} (o : ostate) (l : listing) (pname : string)
           (ka : list (akey * (Z * Z)) -> R) (kc : list (ckey * Z) -> R) (bad : R) : R :=
  match protocol_from_string pname with
  | None => bad
  | Some pid =>
      match l with
      | LAmtSrc => ka (amounts_by_source o pid)
      | LAmtDst => ka (amounts_by_dest o pid)
      | LCntSrc => kc (counts_by_source o pid)
      | LCntDst => kc (counts_by_dest o pid)
      end
  end.

Definition run_page (c : page_case) : val :=
  match c with
  | PLookupAmount o a b c0 d e => match lookup_amount o a b c0 d e with Ok x => VL [VZ 0; v_amount x] | _ => VL [VZ 1] end
  | PLookupCount o a b c0 d => match lookup_count o a b c0 d with Ok x => VL [VZ 0; v_count x] | _ => VL [VZ 1] end
  | PPage o l pname off lim ct rv =>
      with_listing o l pname
        (fun lst => v_page v_amount (paginate cmp_ak fst lst {| pr_key := None; pr_offset := off; pr_limit := lim; pr_count_total := ct; pr_reverse := rv |}))
        (fun lst => v_page v_count (paginate cmp_ck fst lst {| pr_key := None; pr_offset := off; pr_limit := lim; pr_count_total := ct; pr_reverse := rv |}))
        (VL [VZ 1])
  | PWalk o l pname lim rv =>
      with_listing o l pname
        (fun lst => VL [VZ 0; VLs (VLs v_amount) (walk cmp_ak fst (S (length lst)) lst lim rv None true)])
        (fun lst => VL [VZ 0; VLs (VLs v_count) (walk cmp_ck fst (S (length lst)) lst lim rv None true)])
        (VL [VZ 1])
  | PResume o l pname lim1 lim2 rv =>
      let go {K A} (cmp : K -> K -> comparison) (keyof : A -> K) (f : A -> val) (lst : list A) : val :=
        match paginate cmp keyof lst {| pr_key := None; pr_offset := 0; pr_limit := lim1; pr_count_total := false; pr_reverse := rv |} with
        | Ok pg =>
            VL [VZ 0; VLs f (pg_items pg);
                match pg_next pg with
                | Some k => v_page f (paginate cmp keyof lst {| pr_key := Some k; pr_offset := 0; pr_limit := lim2; pr_count_total := false; pr_reverse := rv |})
                | None => VL [VZ 2]
                end]
        | _ => VL [VZ 1]
        end in
      with_listing o l pname (go cmp_ak fst v_amount) (go cmp_ck fst v_count) (VL [VZ 1])
  | PBoth o l pname =>
      with_listing o l pname
        (fun lst => match lst with
                    | x :: _ => v_page v_amount (paginate cmp_ak fst lst {| pr_key := Some (fst x); pr_offset := 1; pr_limit := 1; pr_count_total := false; pr_reverse := false |})
                    | [] => VL [VZ 2] end)
        (fun lst => match lst with
                    | x :: _ => v_page v_count (paginate cmp_ck fst lst {| pr_key := Some (fst x); pr_offset := 1; pr_limit := 1; pr_count_total := false; pr_reverse := false |})
                    | [] => VL [VZ 2] end)
        (VL [VZ 1])
  end.
