(* Evaluators of the genesis family (C17). *)
From Coq Require Import String Ascii List ZArith NArith Bool.
From Orbiter Require Export Lib.Str Lib.Res Lib.Val Gen.Constants Model.Ids Model.State Model.Msgs Model.Genesis Corr.RunWorld.
Import ListNotations.
Open Scope string_scope.
Open Scope Z_scope.

Definition v_occid (c : option ccid) : val := VO (fun c => VL [VZ (c_proto c); VS (c_cp c)]) c.
Definition v_genesis (g : genesis) : val :=
  VL [ VO VZ (g_adapter g);
       VO (fun d => VL [VLs (fun a => VL [v_occid (ga_src a); v_occid (ga_dst a); VS (ga_denom a); VZ (ga_in a); VZ (ga_out a)]) (fst d);
                        VLs (fun c => VL [v_occid (gc_src c); v_occid (gc_dst c); VZ (gc_n c)]) (snd d)]) (g_dispatcher g);
       VO (fun f => VL [VLs VZ (fst f); VLs v_occid (snd f)]) (g_forwarder g);
       VO (VLs VZ) (g_executor g) ].

Inductive gen_case :=
| GDoc (g : genesis)          (* a genesis document: validate it, initialise it, export the result *)
| GState (o : ostate).        (* a reached module state: export it, validate the export, initialise it, export again *)

Definition v_init (r : res ostate) : val :=
  match r with
  | Ok o => VL [VZ 0; v_genesis (export_genesis o)]
  | Err _ => VL [VZ 1]
  | Panic _ => VL [VZ 2]
  end.

Definition run_genesis (c : gen_case) : val :=
  match c with
  | GDoc g => VL [VZ (Z.of_nat (class (validate_genesis g))); v_init (init_genesis g)]
  | GState o =>
      let g := export_genesis o in
      VL [v_genesis g; VZ (Z.of_nat (class (validate_genesis g))); v_init (init_genesis g)]
  end.
