(* Evaluators of the memo codec family (C15). *)
From Coq Require Import String Ascii List ZArith NArith Bool.
From Orbiter Require Export Lib.Str Lib.Res Lib.Val Gen.Constants Model.Ids Model.Env Model.Fee Model.Payload Model.Base64 Model.Json.
Import ListNotations.
Open Scope string_scope.
Open Scope Z_scope.

Definition v_fee_type (t : option fee_type) : val :=
  match t with
  | None => VL []
  | Some (FBps v) => VL [VZ 0; VZ v]
  | Some FBpsNil => VL [VZ 1]
  | Some (FAmount s) => VL [VZ 2; VS s]
  | Some FAmountNil => VL [VZ 3]
  end.
Definition v_fee_info (o : option fee_info) : val :=
  match o with
  | None => VL []
  | Some f => VL [VS (fi_recipient f); v_fee_type (fi_type f)]
  end.
Definition v_attrs (a : attrs) : val :=
  match a with
  | ACctp d m c => VL [VS "cctp"; VZ d; VS m; VS c]
  | AHyp t d r h md g fd fa => VL [VS "hyp"; VS t; VZ d; VS r; VS h; VS md; VZ g; VS fd; VZ fa]
  | AInternal r => VL [VS "internal"; VS r]
  | AFee l => VL [VS "fee"; VL (map v_fee_info l)]
  | AOther u => VL [VS "other"; VS u]
  end.
Definition v_opt {A} (f : A -> val) (o : option A) : val := match o with Some x => VL [f x] | None => VL [] end.
Definition v_payload (p : payload) : val :=
  VL [VL (map (fun o => match o with None => VL [] | Some a => VL [VZ (a_id a); v_opt v_attrs (a_attrs a)] end) (p_pre p));
      match p_fwd p with None => VL [] | Some f => VL [VZ (f_pid f); v_opt v_attrs (f_attrs f); VS (f_pass f)] end].

(* the projection of documents compared for encoder cases: null and "" coincide *)
Fixpoint v_json (j : json) : val :=
  match j with
  | JNull => VS ""
  | JBool b => VB b
  | JNum lit => VL [VS "#"; VS lit]
  | JStr _ d => VS d
  | JArr l => VL (VS "[" :: map v_json l)
  | JObj f => VL (VS "{" :: map (fun kv => VL [VS (fst kv); v_json (snd kv)]) f)
  end.

Inductive json_case :=
| JDecode (ints : list (string * option Z)) (t : json)
| JEncode (p : payload).

Definition run_json (c : json_case) : val :=
  match c with
  | JDecode ints t =>
      let e := env_of [] ints in
      match decode_memo e t with
      | Ok p => VL [VZ 0; v_payload p; VB (match payload_validate p with Ok _ => true | _ => false end)]
      | _ => VL [VZ 1]
      end
  | JEncode p => v_json (encode_memo p)
  end.
