(* Evaluators used by the generated cases files: each maps a case input to the projection [val]
   that the harness computed from the implementation's behaviour. *)
From Coq Require Import String List ZArith NArith Bool.
From Orbiter Require Export Lib.Str Lib.Res Lib.Val Gen.Constants Model.Ids.
Import ListNotations.
Open Scope string_scope.
Open Scope Z_scope.

(* ---------- identifiers (C20) ---------- *)
Inductive id_case :=
| IValidate (s : string) (p : Z)
| IRoundtrip (p : Z) (cp : string)
| IParse (s : string)
| ICounterparty (domain : Z)
| IEnums (name : string) (number : Z).

Definition v_ccid_opt (o : option ccid) : val :=
  VO (fun c => VL [VZ (c_proto c); VS (c_cp c)]) o.

Definition run_id (c : id_case) : val :=
  match c with
  | IValidate s p => VB (valid_counterparty s p)
  | IRoundtrip p cp =>
      let c := {| c_proto := p; c_cp := cp |} in
      VL [VB (ccid_valid c); VS (ccid_id c); v_ccid_opt (parse_ccid (ccid_id c))]
  | IParse s => v_ccid_opt (parse_ccid s)
  | ICounterparty d => VL [VS (domain_counterparty d); VS (domain_counterparty d); VS internal_counterparty_id]
  | IEnums name number =>
      VL [VO VZ (protocol_from_string name); VO VZ (action_from_string name);
          VB (protocol_valid number); VB (action_valid number)]
  end.

(* ---------- fees (C04) ---------- *)
From Orbiter Require Export Model.Env Model.Fee Model.Denom.

Record fee_case := {
  fc_bech32 : list (string * option string);
  fc_ints : list (string * option Z);
  fc_amount : Z;
  fc_infos : list (option fee_info);
}.

Definition v_credits (l : list (string * Z)) : val := VLs (fun p => VL [VS (fst p); VZ (snd p)]) l.

(* projection: class (0 ok / 1 error / 2 panic), ordered credits, forwarded amount *)
Definition run_fee (c : fee_case) : val :=
  let e := env_of (fc_bech32 c) (fc_ints c) in
  match fee_plan e (fc_amount c) (fc_infos c) with
  | Ok (credits, fwd) => VL [VZ 0; v_credits credits; VZ fwd]
  | Err _ => VL [VZ 1]
  | Panic _ => VL [VZ 2]
  end.

(* ---------- denominations (C16) ---------- *)
Inductive denom_case :=
| DRecover (denom port chan : string)
| DValid (denom : string)
| DTrace (denom : string).

Definition v_res_string (r : res string) : val :=
  match r with Ok s => VL [VZ 0; VS s] | Err _ => VL [VZ 1] | Panic _ => VL [VZ 2] end.

Definition run_denom (c : denom_case) : val :=
  match c with
  | DRecover d p ch =>
      VL [v_res_string (recover_native_denom d p ch);
          match ics20_credit_denom d p ch with
          | Unescrow x => VL [VZ 0; VS x] | UnescrowHashed => VL [VZ 1] | MintVoucher => VL [VZ 2] end]
  | DValid d => VB (valid_denom d)
  | DTrace d => VLs VS (trace_path d)
  end.
