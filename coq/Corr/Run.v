(* Evaluators used by the generated cases files: each maps a case input to the projection [val]
   that the harness computed from the implementation's behaviour. *)
From Coq Require Import String List ZArith NArith Bool.
From Orbiter Require Import Lib.Str Lib.Res Lib.Val Gen.Constants Model.Ids.
Import ListNotations.
Open Scope string_scope.
Open Scope Z_scope.

(* ---------- identifiers (C20) ---------- *)
Inductive id_case :=
| IValidate (s : string) (p : Z)
| IRoundtrip (p : Z) (cp : string)
| IParse (s : string)
| ICounterparty (domain : Z)
| IEnums (name : string) (number : Z).

Definition v_ccid_opt (o : option ccid) : val :=
  VO (fun c => VL [VZ (c_proto c); VS (c_cp c)]) o.

Definition run_id (c : id_case) : val :=
  match c with
  | IValidate s p => VB (valid_counterparty s p)
  | IRoundtrip p cp =>
      let c := {| c_proto := p; c_cp := cp |} in
      VL [VB (ccid_valid c); VS (ccid_id c); v_ccid_opt (parse_ccid (ccid_id c))]
  | IParse s => v_ccid_opt (parse_ccid s)
  | ICounterparty d => VL [VS (domain_counterparty d); VS (domain_counterparty d); VS internal_counterparty_id]
  | IEnums name number =>
      VL [VO VZ (protocol_from_string name); VO VZ (action_from_string name);
          VB (protocol_valid number); VB (action_valid number)]
  end.
