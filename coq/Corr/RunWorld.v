(* Evaluator of the history families: runs the model on an operation list and renders, per
   operation, the projection the harness computed from the real application
   (harness/internal/world: OpObs.V). *)
From Coq Require Import String Ascii List ZArith NArith Bool.
From Orbiter Require Export Model.Json Lib.Str Lib.Res Lib.Val Gen.Constants Model.Ids Model.Env Model.Fee Model.Denom
     Model.Payload Model.State Model.Pipeline Model.Msgs.
Import ListNotations.
Open Scope string_scope.
Open Scope Z_scope.

(* the memo of a packet: the document as written, decoded by the model's own decoder (Model/Json.v);
   [ints]: the real integer parser on the document's non-canonical strings *)
Definition jmemo (ints : list (string * option Z)) (t : json) : res payload := decode_memo (env_of [] ints) t.

Record world_case := {
  wc_orbiter : string;                              (* account bytes, hex *)
  wc_orbiter_bech : string;
  wc_dust : string;
  wc_warp : string;
  wc_authority : string;
  wc_escrows : list ((string * string) * string);   (* (port, channel) -> escrow account *)
  wc_hyp_tokens : list (string * string);           (* raw token id -> origin denom *)
  wc_ibc_denoms : list (string * string);           (* full trace path -> ibc/HASH *)
  wc_bech32 : list (string * option string);
  wc_ints : list (string * option Z);
  wc_accts : list string;
  wc_denoms : list string;
  wc_bals : list ((string * string) * Z);
  wc_supply : list (string * Z);
  wc_state : ostate;
  wc_ops : list op;
  (* the interchain gas paymasters of the chain: (hook id, (account credited, denomination)) and, per
     (hook id, destination domain), (gas overhead, gas price, token exchange rate); the gas the enrolled
     routers use when the transfer names no gas limit *)
  wc_igps : list (string * (string * string));
  wc_igp_gas : list ((string * Z) * (Z * (Z * Z)));
  wc_router_gas : Z;
}.

(* hyperlane-cosmos x/core/02_post_dispatch QuoteGasPayment (transcribed; validated by the correspondence) *)
Definition gas_of (c : world_case) : gas_fn := fun hook domain gas =>
  match hook with
  | None => None                                  (* the mailbox's default hook: a no-op hook on this chain *)
  | Some h =>
      match lookup (wc_igps c) h with
      | None => None
      | Some (payee, gd) =>
          match find (fun e => String.eqb (fst (fst e)) h && (snd (fst e) =? domain)) (wc_igp_gas c) with
          | None => Some (payee, gd, 0)           (* remote domain not supported: refused, like a zero quote *)
          | Some (_, (overhead, (price, rate))) =>
              let g := if gas =? 0 then wc_router_gas c else gas in
              Some (payee, gd, ((g + overhead) * price * rate) / 10000000000)
          end
      end
  end.

Definition cfg_of (c : world_case) : config :=
  {| cfg_orbiter := wc_orbiter c; cfg_orbiter_bech := wc_orbiter_bech c; cfg_dust := wc_dust c; cfg_warp := wc_warp c;
     cfg_authority := wc_authority c;
     cfg_fwd_routes := wired_forwarding_routes; cfg_action_routes := wired_action_routes;
     cfg_adapter_routes := wired_adapter_routes;
     cfg_hyp_token := fun t => lookup (wc_hyp_tokens c) t;
     cfg_escrow := fun p ch =>
       match find (fun e => String.eqb (fst (fst e)) p && String.eqb (snd (fst e)) ch) (wc_escrows c) with
       | Some e => snd e | None => "?escrow" end;
     cfg_ibc_denom := fun path => match lookup (wc_ibc_denoms c) path with Some d => d | None => "?ibc" end |}.

(* lower-case hex of a byte string, with the 0x prefix: hyperlane util.HexAddress.String() *)
Definition hex_digit (n : N) : ascii :=
  ascii_of_N (if (n <? 10)%N then 48 + n else 87 + n)%N.
Fixpoint hex_of (s : string) : string :=
  match s with
  | "" => ""
  | String c r => let n := N_of_ascii c in String (hex_digit (n / 16)%N) (String (hex_digit (n mod 16)%N) (hex_of r))
  end.

Definition v_coins (denom : string) (amt : Z) : val := VL [VL [VS denom; VZ amt]].

Definition v_call (cfg : config) (cv : call * bool) : val :=
  let '(c, ok) := cv in
  let body :=
    match c with
    | CSweep d a => [VS "sweep"; VS module_name; VS dust_collector_name; v_coins d a]
    | CWrapped => [VS "wrapped"]
    | CFeeSend to d a => [VS "feesend"; VS (cfg_orbiter cfg); VS to; v_coins d a]
    | CEmit n => [VS "emit"; VS n]
    | CCctp from a dom rcp burn caller => [VS "cctp"; VS from; VZ a; VZ dom; VS rcp; VS burn; VO VS caller]
    | CHypToken id => [VS "hyptoken"; VS ("0x" ++ hex_of id)]
    | CHypTransfer sender tok dom rcp a hook gas fd fa md =>
        [VS "hyptransfer"; VS sender; VS tok; VZ dom; VS rcp; VZ a; VO VS hook; VZ gas; VS fd; VZ fa; VS md]
    | CBankSend from to d a => [VS "banksend"; VS from; VS to; v_coins d a]
    | CCctpReplace from om oa nc nr => [VS "cctpreplace"; VS from; VS om; VS oa; VS nc; VS nr]
    | CSend from to d a => [VS "feesend"; VS from; VS to; v_coins d a]
    end in
  VL (body ++ [VB ok]).

Definition v_state (o : ostate) : val :=
  VL [ VLs VZ (paused_protos o);
       VLs (fun k => VL [VZ (fst k); VS (snd k)]) (paused_cc o);
       VLs VZ (paused_actions o);
       VZ (match max_pass o with Some v => v | None => 0 end);
       VLs (fun e => let k := fst e in
                     VL [VZ (ak_sp k); VS (ak_sc k); VS (ak_dst k); VS (ak_denom k); VZ (fst (snd e)); VZ (snd (snd e))])
           (amounts o);
       VLs (fun e => let k := fst e in VL [VZ (ck_sp k); VS (ck_sc k); VZ (ck_dp k); VS (ck_dc k); VZ (snd e)])
           (counts o) ].

Definition v_bals (c : world_case) (l : ledger) : val :=
  VL (flat_map (fun a => map (fun d => VZ (bal l a d)) (wc_denoms c)) (wc_accts c)).
Definition v_supply (c : world_case) (l : ledger) : val := VLs (fun d => VZ (supply l d)) (wc_denoms c).

Definition outcome_class (o : outcome) : Z :=
  match o with
  | OAckOk => 0 | OAckErr _ => 1 | OPanic _ => 2
  | ODelegated true => 3 | ODelegated false => 4
  end.

Definition v_answer (a : res answer) : val :=
  match a with
  | Ok (ABool b) => VL [VZ 0; VB b]
  | Ok (AIds l) => VL [VZ 0; VLs VZ l]
  | Ok (AStrs l) => VL [VZ 0; VLs VS l]
  | Ok (ANum z) => VL [VZ 0; VZ z]
  | _ => VL [VZ 1]
  end.

Definition v_out (c : world_case) (cfg : config) (w : world) (x : out) : val :=
  match x with
  | OutRecv r =>
      VL [VZ (outcome_class (rr_out r)); VLs (v_call cfg) (rr_trace r); v_bals c (w_l w); v_supply c (w_l w); v_state (w_o w)]
  | OutMsg cls tr =>
      VL [VZ (Z.of_nat cls); VLs (v_call cfg) tr; v_bals c (w_l w); v_supply c (w_l w); v_state (w_o w)]
  | OutDeposit => VL [v_bals c (w_l w); v_supply c (w_l w)]
  | OutSend ok => VL [VB ok; v_bals c (w_l w); v_supply c (w_l w)]
  | OutQuery a => v_answer a
  | OutBlocked => VL [VZ 1; VL []; v_bals c (w_l w); v_supply c (w_l w); v_state (w_o w)]
  | OutAppPanic => VL [VZ 2; VL [VL [VS "wrapped"; VB true]]; v_bals c (w_l w); v_supply c (w_l w); v_state (w_o w)]
  | OutExtPanic tr =>
      (* the call that panicked is recorded as refused *)
      let tr' := match rev tr with (c0, _) :: r => rev ((c0, false) :: r) | [] => [] end in
      VL [VZ 2; VLs (v_call cfg) tr'; v_bals c (w_l w); v_supply c (w_l w); v_state (w_o w)]
  end.

Fixpoint run_world_ops (c : world_case) (cfg : config) (e : env) (w : world) (ops : list op) : list val :=
  match ops with
  | [] => []
  | o :: r => let '(w1, x) := step_gas (gas_of c) cfg e w o in v_out c cfg w1 x :: run_world_ops c cfg e w1 r
  end.

Definition world0 (c : world_case) : world :=
  {| w_o := wc_state c; w_l := ledger_of (wc_bals c) (wc_supply c) |}.

Definition run_world (c : world_case) : val :=
  VL (run_world_ops c (cfg_of c) (env_of (wc_bech32 c) (wc_ints c)) (world0 c) (wc_ops c)).

(* ---------- per-property projections (DESIGN 5.3): keep only the listed components of every
   operation's output; [mask] = positions kept ---------- *)
Definition keep (mask : list nat) (v : val) : val :=
  match v with
  | VL l => VL (map (fun i => nth i l (VL [])) (filter (fun i => Nat.ltb i (length l)) mask))
  | x => x
  end.
Definition project (mask : list nat) (v : val) : val :=
  match v with VL l => VL (map (keep mask) l) | x => x end.
Definition run_world_masked (mc : list nat * world_case) : val := project (fst mc) (run_world (snd mc)).

(* ---------- C06: the same histories on the instance that also has the swap controller ---------- *)
From Orbiter Require Import Model.Swap.
Definition step_swap (g : gas_fn) (cfg : config) (e : env) (pool : string) (w : world) (o : op) : world * out :=
  match o with
  | ORecv p tape lie => let r := recv_with (with_gas repaired g) cfg (swap_actions cfg e pool) e w p tape lie in (rr_world r, OutRecv r)
  | OExtPanics p tape lie k =>
      (w, OutExtPanic (firstn k (rr_trace (recv_with (with_gas repaired g) cfg (swap_actions cfg e pool) e w p tape lie))))
  | _ => step_gas g cfg e w o
  end.
Fixpoint run_swap_ops (c : world_case) (cfg : config) (e : env) (pool : string) (w : world) (ops : list op) : list val :=
  match ops with
  | [] => []
  | o :: r => let '(w1, x) := step_swap (gas_of c) cfg e pool w o in v_out c cfg w1 x :: run_swap_ops c cfg e pool w1 r
  end.
Definition run_world_swap (mc : (list nat * string) * world_case) : val :=
  let '((mask, pool), c) := mc in
  project mask (VL (run_swap_ops c (cfg_of c) (env_of (wc_bech32 c) (wc_ints c)) pool (world0 c) (wc_ops c))).
