(* The module's eight Msg RPCs (keeper/component/{forwarder,executor,adapter}/msg_server.go), the pause /
   parameter queries, and the step function of the whole module over operations. *)
From Coq Require Import String Ascii List ZArith Bool.
From Orbiter Require Import Lib.Str Lib.Res Gen.Constants Model.Ids Model.Env Model.Fee Model.Denom
     Model.Payload Model.State Model.Pipeline.
Import ListNotations.
Open Scope string_scope.
Open Scope Z_scope.

Inductive msg :=
| MPauseProtocol (pid : string)
| MUnpauseProtocol (pid : string)
| MPauseCC (pid : string) (ids : list string)
| MUnpauseCC (pid : string) (ids : list string)
| MPauseAction (aid : string)
| MUnpauseAction (aid : string)
| MUpdateParams (max : Z)
| MReplaceDFB (orig_msg orig_att new_caller new_recipient : string).

(* the RPC each constructor models (checked against the generated list of registered RPCs, C10) *)
Definition msg_rpc (m : msg) : string :=
  match m with
  | MPauseProtocol _ => "noble.orbiter.component.forwarder.v1.Msg/PauseProtocol"
  | MUnpauseProtocol _ => "noble.orbiter.component.forwarder.v1.Msg/UnpauseProtocol"
  | MPauseCC _ _ => "noble.orbiter.component.forwarder.v1.Msg/PauseCrossChains"
  | MUnpauseCC _ _ => "noble.orbiter.component.forwarder.v1.Msg/UnpauseCrossChains"
  | MPauseAction _ => "noble.orbiter.component.executor.v1.Msg/PauseAction"
  | MUnpauseAction _ => "noble.orbiter.component.executor.v1.Msg/UnpauseAction"
  | MUpdateParams _ => "noble.orbiter.component.adapter.v1.Msg/UpdateParams"
  | MReplaceDFB _ _ _ _ => "noble.orbiter.component.forwarder.v1.Msg/ReplaceDepositForBurn"
  end.
Definition modelled_rpcs : list string :=
  [ "noble.orbiter.component.adapter.v1.Msg/UpdateParams";
    "noble.orbiter.component.executor.v1.Msg/PauseAction";
    "noble.orbiter.component.executor.v1.Msg/UnpauseAction";
    "noble.orbiter.component.forwarder.v1.Msg/PauseCrossChains";
    "noble.orbiter.component.forwarder.v1.Msg/PauseProtocol";
    "noble.orbiter.component.forwarder.v1.Msg/ReplaceDepositForBurn";
    "noble.orbiter.component.forwarder.v1.Msg/UnpauseCrossChains";
    "noble.orbiter.component.forwarder.v1.Msg/UnpauseProtocol" ].

(* ---------- key-set updates with the already-set / not-set refusals ---------- *)
Definition pause_protocol (o : ostate) (pid : Z) : res ostate :=
  if negb (protocol_valid pid) then Err "invalid protocol id"
  else if smem cmp_z pid (paused_protos o) then Err "protocol already paused"
  else Ok (set_paused_protos o (sins cmp_z pid (paused_protos o))).
Definition unpause_protocol (o : ostate) (pid : Z) : res ostate :=
  if negb (protocol_valid pid) then Err "invalid protocol id"
  else if negb (smem cmp_z pid (paused_protos o)) then Err "protocol not paused"
  else Ok (set_paused_protos o (srem cmp_z pid (paused_protos o))).

Definition pause_cc (o : ostate) (pid : Z) (cp : string) : res ostate :=
  if negb (ccid_valid {| c_proto := pid; c_cp := cp |}) then Err "invalid cross-chain id"
  else if smem cmp_cc (pid, cp) (paused_cc o) then Err "cross-chain already paused"
  else Ok (set_paused_cc o (sins cmp_cc (pid, cp) (paused_cc o))).
Definition unpause_cc (o : ostate) (pid : Z) (cp : string) : res ostate :=
  if negb (ccid_valid {| c_proto := pid; c_cp := cp |}) then Err "invalid cross-chain id"
  else if negb (smem cmp_cc (pid, cp) (paused_cc o)) then Err "cross-chain not paused"
  else Ok (set_paused_cc o (srem cmp_cc (pid, cp) (paused_cc o))).

Fixpoint fold_res {A S} (f : S -> A -> res S) (l : list A) (s : S) : res S :=
  match l with
  | [] => Ok s
  | a :: r => do s' <- f s a; fold_res f r s'
  end.

(* Forwarder.Pause / Unpause: an empty batch addresses the whole protocol; otherwise every id is
   validated before the first write, then applied in order (a failure relies on the message rollback) *)
Definition forwarder_pause (o : ostate) (pid : Z) (ids : list string) : res ostate :=
  if negb (protocol_valid pid) then Err "invalid protocol id"
  else match ids with
       | [] => pause_protocol o pid
       | _ => if forallb (fun s => valid_counterparty s pid) ids
              then fold_res (fun o cp => pause_cc o pid cp) ids o
              else Err "invalid counterparty id"
       end.
Definition forwarder_unpause (o : ostate) (pid : Z) (ids : list string) : res ostate :=
  if negb (protocol_valid pid) then Err "invalid protocol id"
  else match ids with
       | [] => unpause_protocol o pid
       | _ => if forallb (fun s => valid_counterparty s pid) ids
              then fold_res (fun o cp => unpause_cc o pid cp) ids o
              else Err "invalid counterparty id"
       end.

Definition pause_action (o : ostate) (aid : Z) : res ostate :=
  if negb (action_valid aid) then Err "invalid action id"
  else if smem cmp_z aid (paused_actions o) then Err "action already paused"
  else Ok (set_paused_actions o (sins cmp_z aid (paused_actions o))).
Definition unpause_action (o : ostate) (aid : Z) : res ostate :=
  if negb (action_valid aid) then Err "invalid action id"
  else if negb (smem cmp_z aid (paused_actions o)) then Err "action not paused"
  else Ok (set_paused_actions o (srem cmp_z aid (paused_actions o))).

(* ---------- the handlers: RequireAuthority first, then the body, then the event ---------- *)
Definition with_event {A} (r : res A) (ev : string) : M A :=
  a <- lift r ;; _ <- mext (CEmit ev) "failed to emit event" ;; mret a.

Definition handle_body (cfg : config) (o : ostate) (m : msg) : M ostate :=
  match m with
  | MPauseProtocol name =>
      match protocol_from_string name with
      | None => mfail "invalid protocol id"
      | Some pid => with_event (forwarder_pause o pid []) "EventProtocolPaused"
      end
  | MUnpauseProtocol name =>
      match protocol_from_string name with
      | None => mfail "invalid protocol id"
      | Some pid => with_event (forwarder_unpause o pid []) "EventProtocolUnpaused"
      end
  | MPauseCC name ids =>
      match protocol_from_string name with
      | None => mfail "invalid protocol id"
      | Some pid =>
          if max_target_counterparties <? Z.of_nat (length ids) then mfail "too many counterparties"
          else with_event (forwarder_pause o pid ids) "EventCrossChainsPaused"
      end
  | MUnpauseCC name ids =>
      match protocol_from_string name with
      | None => mfail "invalid protocol id"
      | Some pid =>
          if max_target_counterparties <? Z.of_nat (length ids) then mfail "too many counterparties"
          else with_event (forwarder_unpause o pid ids) "EventCrossChainsUnpaused"
      end
  | MPauseAction name =>
      match action_from_string name with
      | None => mfail "invalid action id"
      | Some aid => with_event (pause_action o aid) "EventPaused"
      end
  | MUnpauseAction name =>
      match action_from_string name with
      | None => mfail "invalid action id"
      | Some aid => with_event (unpause_action o aid) "EventUnpaused"
      end
  | MUpdateParams max => mret (set_max_pass o (Some max))
  | MReplaceDFB om oa nc nr =>
      if negb (existsb (Z.eqb protocol_cctp) (cfg_fwd_routes cfg)) then mfail "CCTP controller not found"
      else _ <- mext (CCctpReplace (cfg_orbiter_bech cfg) om oa nc nr) "cctp: replace deposit for burn failed" ;; mret o
  end.

Definition handle_msg (cfg : config) (o : ostate) (signer : string) (m : msg) : M ostate :=
  if String.eqb signer (cfg_authority cfg) then handle_body cfg o m
  else mfail "unauthorized".

(* ---------- queries ---------- *)
Inductive query :=
| QIsProtocolPaused (name : string)
| QPausedProtocols
| QIsCCPaused (name cp : string)
| QPausedCC (name : string)
| QIsActionPaused (name : string)
| QPausedActions
| QParams.

Inductive answer :=
| ABool (b : bool)
| AIds (l : list Z)
| AStrs (l : list string)
| ANum (z : Z).

Definition run_query (o : ostate) (q : query) : res answer :=
  match q with
  | QIsProtocolPaused name =>
      match protocol_from_string name with
      | Some pid => Ok (ABool (smem cmp_z pid (paused_protos o)))
      | None => Err "invalid protocol id"
      end
  | QPausedProtocols => Ok (AIds (paused_protos o))
  | QIsCCPaused name cp =>
      match protocol_from_string name with
      | Some pid =>
          if ccid_valid {| c_proto := pid; c_cp := cp |} then Ok (ABool (smem cmp_cc (pid, cp) (paused_cc o)))
          else Err "invalid cross-chain id"
      | None => Err "invalid protocol id"
      end
  | QPausedCC name =>
      match protocol_from_string name with
      | Some pid => Ok (AStrs (map snd (filter (fun k => Z.eqb (fst k) pid) (paused_cc o))))
      | None => Err "invalid protocol id"
      end
  | QIsActionPaused name =>
      match action_from_string name with
      | Some aid => Ok (ABool (smem cmp_z aid (paused_actions o)))
      | None => Err "invalid action id"
      end
  | QPausedActions => Ok (AIds (paused_actions o))
  | QParams => Ok (ANum (match max_pass o with Some v => v | None => 0 end))
  end.

(* ---------- operations and the step function ---------- *)
Inductive op :=
| ORecv (p : packet) (tape : list bool) (lie : Z)
| OMsg (signer : string) (m : msg) (tape : list bool)
| ODeposit (to denom : string) (amt : Z)
| OSend (from to denom : string) (amt : Z)     (* a user's bank MsgSend *)
| OMove (m : move)                              (* a movement of funds by another module (never the orbiter's own doing) *)
| OQuery (q : query)
| OBlockedOutside       (* a packet the middleware in front of the orbiter (blockibc) refused itself *)
| OCallback             (* another IBC callback (acknowledgement, timeout): the embedded module's, differential only *)
| OAppPanics            (* the wrapped ICS-20 application itself panicked on a packet that is not the orbiter's *)
(* an external module (bank, CCTP, Warp) panicked during the [k]-th external call of this packet: the
   transaction is aborted (baseapp recovers and discards the message's cache): no acknowledgement, no change *)
| OExtPanics (p : packet) (tape : list bool) (lie : Z) (k : nat).

Inductive out :=
| OutRecv (r : recv_result)
| OutMsg (class : nat) (trace : list (call * bool))      (* 0 ok, 1 refused, 2 panic *)
| OutDeposit
| OutSend (ok : bool)
| OutQuery (a : res answer)
| OutBlocked
| OutAppPanic
| OutExtPanic (trace : list (call * bool)).   (* the external calls made up to the one that panicked *)

Definition step_msg (cfg : config) (w : world) (signer : string) (m : msg) (tape : list bool) : world * out :=
  let s0 := {| ps_l := w_l w; ps_tape := tape; ps_trace := []; ps_moves := [] |} in
  match handle_msg cfg (w_o w) signer m s0 with
  | POk o' s => ({| w_o := o'; w_l := w_l w |}, OutMsg 0 (rev (ps_trace s)))
  | PErr _ s => (w, OutMsg 1 (rev (ps_trace s)))            (* baseapp discards the message's cache *)
  | PPanic _ => (w, OutMsg 2 [])
  end.

Definition step (cfg : config) (e : env) (w : world) (o : op) : world * out :=
  match o with
  | ORecv p tape lie => let r := recv_lie cfg e w p tape lie in (rr_world r, OutRecv r)
  | OMsg signer m tape => step_msg cfg w signer m tape
  | ODeposit to d a => ({| w_o := w_o w; w_l := apply_move (w_l w) (MMint to d a) |}, OutDeposit)
  | OSend from to d a =>
      (* x/bank MsgSend: refused towards an account the chain blocks (simapp/app.yaml
         blocked_module_accounts_override, Gen/Constants.v) and beyond the sender's balance *)
      if existsb (String.eqb to) blocked_addresses || negb (0 <? a) || (bal (w_l w) from d <? a)
      then (w, OutSend false)
      else ({| w_o := w_o w; w_l := apply_move (w_l w) (MSend from to d a) |}, OutSend true)
  | OMove m => ({| w_o := w_o w; w_l := apply_move (w_l w) m |}, OutDeposit)
  | OQuery q => (w, OutQuery (run_query (w_o w) q))
  | OBlockedOutside => (w, OutBlocked)
  | OAppPanics => (w, OutAppPanic)
  | OExtPanics p tape lie k => (w, OutExtPanic (firstn k (rr_trace (recv_lie cfg e w p tape lie))))
  | OCallback => (w, OutDeposit)
  end.

(* the same on a chain some of whose post-dispatch hooks charge for gas ([step] is [step_gas no_gas]) *)
Definition step_gas (g : gas_fn) (cfg : config) (e : env) (w : world) (o : op) : world * out :=
  match o with
  | ORecv p tape lie => let r := recv_gas g cfg e w p tape lie in (rr_world r, OutRecv r)
  | OExtPanics p tape lie k => (w, OutExtPanic (firstn k (rr_trace (recv_gas g cfg e w p tape lie))))
  | _ => step cfg e w o
  end.

Fixpoint run_ops (cfg : config) (e : env) (w : world) (ops : list op) : world * list out :=
  match ops with
  | [] => (w, [])
  | o :: r => let '(w1, x) := step cfg e w o in
              let '(w2, xs) := run_ops cfg e w1 r in (w2, x :: xs)
  end.
Definition final_world cfg e w ops := fst (run_ops cfg e w ops).
