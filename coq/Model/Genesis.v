(* Genesis: validation (types/genesis.go, types/component/*/genesis.go), initialisation and export
   (keeper/genesis.go, keeper/component/*/genesis.go).  Absent (nil) Go pointers are [None]. *)
From Coq Require Import String Ascii List ZArith Bool.
From Orbiter Require Import Lib.Str Lib.Res Gen.Constants Model.Ids Model.Denom Model.State Model.Msgs.
Import ListNotations.
Open Scope string_scope.
Open Scope Z_scope.

Record gen_amount := { ga_src : option ccid; ga_dst : option ccid; ga_denom : string; ga_in : Z; ga_out : Z }.
Record gen_count := { gc_src : option ccid; gc_dst : option ccid; gc_n : Z }.
Record genesis := {
  g_adapter : option Z;                                          (* params.max_passthrough_payload_size *)
  g_dispatcher : option (list gen_amount * list gen_count);
  g_forwarder : option (list Z * list (option ccid));
  g_executor : option (list Z);
}.

Definition ccid_ok (c : option ccid) : bool := match c with Some c => ccid_valid c | None => false end.

(* DispatchedAmountEntry.Validate / DispatchCountEntry.Validate *)
Definition amount_valid (a : gen_amount) : bool :=
  negb (String.eqb (ga_denom a) "") && valid_denom (ga_denom a) && ccid_ok (ga_src a) && ccid_ok (ga_dst a) &&
  (0 <=? ga_in a) && (0 <=? ga_out a) && ((0 <? ga_in a) || (0 <? ga_out a)).
(* the count is a uint64: "not zero" is "positive" *)
Definition count_valid (c : gen_count) : bool :=
  (0 <? gc_n c) && ccid_ok (gc_src c) && ccid_ok (gc_dst c).

Fixpoint distinct {A} (eqb : A -> A -> bool) (l : list A) : bool :=
  match l with
  | [] => true
  | x :: r => negb (existsb (eqb x) r) && distinct eqb r
  end.

Definition ccid_eqb (a b : ccid) : bool := String.eqb (ccid_id a) (ccid_id b).
Definition occid_eqb (a b : option ccid) : bool :=
  match a, b with Some a, Some b => ccid_eqb a b | None, None => true | _, _ => false end.

(* GenesisState.Validate: adapter, dispatcher, forwarder, executor, in this order *)
Definition validate_genesis (g : genesis) : res unit :=
  match g_adapter g with
  | None => Err "nil adapter genesis"
  | Some _ =>
      match g_dispatcher g with
      | None => Err "nil dispatcher genesis"
      | Some (amts, cnts) =>
          if negb (forallb amount_valid amts) then Err "invalid dispatched amount"
          else if negb (forallb count_valid cnts) then Err "invalid dispatched count"
          else match g_forwarder g with
               | None => Err "nil forwarder genesis"
               | Some (protos, ccs) =>
                   if negb (forallb protocol_valid protos) then Err "invalid paused protocol id"
                   else if negb (distinct Z.eqb protos) then Err "repeated paused protocol id"
                   else if negb (forallb ccid_ok ccs) then Err "invalid paused cross-chain id"
                   else if negb (distinct occid_eqb ccs) then Err "repeated paused cross-chain id"
                   else match g_executor g with
                        | None => Err "nil executor genesis"
                        | Some acts =>
                            if negb (forallb action_valid acts) then Err "invalid paused action id"
                            else if negb (distinct Z.eqb acts) then Err "repeated paused action id"
                            else Ok tt
                        end
               end
      end
  end.

(* a non-terminal string key cannot contain the terminator *)
Definition key_str_ok (s : string) : bool := no_char "000"%char s.

(* Dispatcher.SetDispatchedAmount / SetDispatchedCounts.  The getters used on the source id are
   nil-safe (an absent id reads as protocol 0, empty counterparty); [ID()] on an absent destination id
   dereferences nil.  Writing an amount also maintains the by-destination indexes, which re-parse the
   textual destination id: an id that does not parse makes the write fail. *)
Definition ccid_or_zero (c : option ccid) : ccid := match c with Some c => c | None => {| c_proto := 0; c_cp := "" |} end.
Definition set_amount (o : ostate) (a : gen_amount) : res ostate :=
  let s := ccid_or_zero (ga_src a) in
  match ga_dst a with
  | Some d =>
      let k := {| ak_sp := c_proto s; ak_sc := c_cp s; ak_dst := ccid_id d; ak_denom := ga_denom a |} in
      (* in the by-destination index the denomination is a non-terminal string too *)
      if negb (key_str_ok (c_cp s) && key_str_ok (ccid_id d) && key_str_ok (ga_denom a)) then Err "key encoding: string contains the terminator"
      else match parse_ccid (ccid_id d) with
           | None => Err "index: error parsing destination cross-chain id"
           | Some _ => Ok (set_stats o (mset cmp_ak k (ga_in a, ga_out a) (amounts o)) (counts o))
           end
  | None => Panic "nil cross-chain id dereferenced"
  end.
Definition set_count (o : ostate) (c : gen_count) : res ostate :=
  let s := ccid_or_zero (gc_src c) in
  let d := ccid_or_zero (gc_dst c) in
  let k := {| ck_sp := c_proto s; ck_sc := c_cp s; ck_dp := c_proto d; ck_dc := c_cp d |} in
  if key_str_ok (c_cp s)
  then Ok (set_stats o (amounts o) (mset cmp_ck k (gc_n c) (counts o)))
  else Err "key encoding: string contains the terminator".

Definition pause_cc_opt (o : ostate) (c : option ccid) : res ostate :=
  match c with Some c => pause_cc o (c_proto c) (c_cp c) | None => Panic "nil cross-chain id dereferenced" end.

(* Keeper.InitGenesis: adapter, dispatcher, forwarder, executor; an error makes InitChain panic *)
Definition init_genesis (g : genesis) : res ostate :=
  match g_adapter g with
  | None => Err "nil adapter genesis"
  | Some m =>
      let o := set_max_pass empty_ostate (Some m) in
      match g_dispatcher g with
      | None => Err "nil dispatcher genesis"
      | Some (amts, cnts) =>
          do o <- fold_res set_amount amts o;
          do o <- fold_res set_count cnts o;
          match g_forwarder g with
          | None => Err "nil forwarder genesis"
          | Some (protos, ccs) =>
              (* Forwarder.InitGenesis validates its part first *)
              if negb (forallb protocol_valid protos && distinct Z.eqb protos && forallb ccid_ok ccs && distinct occid_eqb ccs)
              then Err "invalid forwarder genesis"
              else
                do o <- fold_res pause_protocol protos o;
                do o <- fold_res pause_cc_opt ccs o;
                match g_executor g with
                | None => Err "nil executor genesis"
                | Some acts =>
                    if negb (forallb action_valid acts && distinct Z.eqb acts) then Err "invalid executor genesis"
                    else fold_res pause_action acts o
                end
          end
      end
  end.

(* ExportGenesis: walks each collection in key order; the statistics entries are rebuilt from their keys
   (the destination id is parsed back from its text); one unparsable key empties the whole list *)
Definition export_amount (e : akey * (Z * Z)) : option gen_amount :=
  let k := fst e in
  let s := {| c_proto := ak_sp k; c_cp := ak_sc k |} in
  if ccid_valid s then
    match parse_ccid (ak_dst k) with
    | Some d => Some {| ga_src := Some s; ga_dst := Some d; ga_denom := ak_denom k; ga_in := fst (snd e); ga_out := snd (snd e) |}
    | None => None
    end
  else None.
Definition export_count (e : ckey * Z) : option gen_count :=
  let k := fst e in
  let s := {| c_proto := ck_sp k; c_cp := ck_sc k |} in
  let d := {| c_proto := ck_dp k; c_cp := ck_dc k |} in
  if ccid_valid s && ccid_valid d then Some {| gc_src := Some s; gc_dst := Some d; gc_n := snd e |} else None.

Fixpoint all_some {A B} (f : A -> option B) (l : list A) : option (list B) :=
  match l with
  | [] => Some []
  | x :: r => match f x, all_some f r with Some y, Some ys => Some (y :: ys) | _, _ => None end
  end.
Definition or_empty {A} (o : option (list A)) : list A := match o with Some l => l | None => [] end.

Definition export_genesis (o : ostate) : genesis :=
  {| g_adapter := Some (match max_pass o with Some v => v | None => 0 end);
     g_dispatcher := Some (or_empty (all_some export_amount (amounts o)), or_empty (all_some export_count (counts o)));
     g_forwarder := Some (paused_protos o, map (fun k => Some {| c_proto := fst k; c_cp := snd k |}) (paused_cc o));
     g_executor := Some (paused_actions o) |}.
