(* The receive path: entrypoint/ibc_middleware.go OnRecvPacket, controller/adapter/ibc.go ParsePacket,
   keeper/component/{adapter,dispatcher,executor,forwarder}, controller/{action,forwarding}.
   Order of checks as in DESIGN Appendix A.  External calls (bank, wrapped ICS-20 app, CCTP / warp /
   bank message servers, event service) consume one verdict each from a tape (default: success) and
   are recorded, with their full request, in a trace. *)
From Coq Require Import String Ascii List ZArith Bool.
From Orbiter Require Import Lib.Str Lib.Res Gen.Constants Model.Ids Model.Env Model.Fee Model.Denom
     Model.Payload Model.State.
Import ListNotations.
Open Scope string_scope.
Open Scope Z_scope.

(* ---------- external calls ---------- *)
Inductive call :=
| CSweep (denom : string) (amt : Z)                   (* SendCoinsFromModuleToModule orbiter -> dust collector *)
| CWrapped                                            (* wrapped IBC application's OnRecvPacket *)
| CFeeSend (to denom : string) (amt : Z)              (* bank SendCoins orbiter -> fee recipient *)
| CEmit (name : string)                               (* event service *)
| CCctp (from : string) (amt domain : Z) (recipient burn_token : string) (caller : option string)
| CHypToken (id : string)
| CHypTransfer (sender token : string) (domain : Z) (recipient : string) (amt : Z) (hook : option string)
               (gas : Z) (fee_denom : string) (fee_amt : Z) (metadata : string)
| CBankSend (from to denom : string) (amt : Z)        (* bank MsgServer.Send *)
| CCctpReplace (from orig_msg orig_att new_caller new_recipient : string)
| CSend (from to denom : string) (amt : Z).          (* bank SendCoins between arbitrary accounts (test controllers) *)

Record pst := {
  ps_l : ledger;
  ps_tape : list bool;
  ps_trace : list (call * bool);     (* most recent first *)
  ps_moves : list move;              (* most recent first *)
}.

Inductive pres (A : Type) :=
| POk (a : A) (s : pst)
| PErr (label : string) (s : pst)    (* the state is kept for its trace only: the caller rolls back *)
| PPanic (site : string).
Arguments POk {A} a s.
Arguments PErr {A} label s.
Arguments PPanic {A} site.

(* state-and-error monad over [pst] *)
Definition M (A : Type) := pst -> pres A.
Definition mret {A} (a : A) : M A := fun s => POk a s.
Definition mbind {A B} (m : M A) (f : A -> M B) : M B := fun s =>
  match m s with
  | POk a s' => f a s'
  | PErr e s' => PErr e s'
  | PPanic x => PPanic x
  end.
Notation "x <- m ;; k" := (mbind m (fun x => k)) (at level 61, m at next level, right associativity).
Notation "' pat <- m ;; k" := (mbind m (fun x => match x with pat => k end))
  (at level 61, pat pattern, m at next level, right associativity).
Definition mfail {A} (e : string) : M A := fun s => PErr e s.
Definition mpanic {A} (x : string) : M A := fun _ => PPanic x.

Definition lift {A} (r : res A) : M A := fun s =>
  match r with Ok a => POk a s | Err e => PErr e s | Panic x => PPanic x end.

(* one fallible external call: pops its verdict, records the request *)
Definition ext (c : call) (s : pst) : bool * pst :=
  let '(v, rest) := match ps_tape s with [] => (true, []) | v :: r => (v, r) end in
  (v, {| ps_l := ps_l s; ps_tape := rest; ps_trace := (c, v) :: ps_trace s; ps_moves := ps_moves s |}).

Definition do_move (m : move) (s : pst) : pst :=
  {| ps_l := apply_move (ps_l s) m; ps_tape := ps_tape s; ps_trace := ps_trace s; ps_moves := m :: ps_moves s |}.

(* call; on refusal fail with [fail] *)
Definition mext (c : call) (fail : string) : M unit := fun s =>
  let '(v, s1) := ext c s in if v then POk tt s1 else PErr fail s1.

(* call, and on success apply the fund movements it stands for *)
Definition ext_moving (c : call) (ms : list move) (fail : string) : M unit := fun s =>
  let '(v, s1) := ext c s in
  if v then POk tt (fold_left (fun s m => do_move m s) ms s1) else PErr fail s1.

(* ---------- chain configuration ---------- *)
Record config := {
  cfg_orbiter : string;                      (* orbiter module account (raw bytes, hex) *)
  cfg_orbiter_bech : string;                 (* its canonical bech32 text, the From/Sender of bridge requests *)
  cfg_dust : string;                         (* dust collector module account *)
  cfg_warp : string;                         (* warp module account (collateral is locked there) *)
  cfg_authority : string;
  cfg_fwd_routes : list Z;                   (* protocol ids with a forwarding controller *)
  cfg_action_routes : list Z;
  cfg_adapter_routes : list Z;
  cfg_hyp_token : string -> option string;   (* warp Token query: token id -> origin denom *)
  cfg_escrow : string -> string -> string;   (* ICS-20 escrow account of (port, channel) *)
  cfg_ibc_denom : string -> string;          (* ibc/HASH of a full trace path *)
}.

(* ---------- transfer attributes ---------- *)
Record tattr := { t_sp : Z; t_sc : string; t_sdenom : string; t_samt : Z; t_ddenom : string; t_damt : Z }.
Definition set_dest_amt (t : tattr) (a : Z) : tattr :=
  {| t_sp := t_sp t; t_sc := t_sc t; t_sdenom := t_sdenom t; t_samt := t_samt t; t_ddenom := t_ddenom t;
     t_damt := if a <? 0 then 0 else a |}.
Definition set_dest_denom (t : tattr) (d : string) : tattr :=
  {| t_sp := t_sp t; t_sc := t_sc t; t_sdenom := t_sdenom t; t_samt := t_samt t; t_ddenom := d; t_damt := t_damt t |}.

(* sdk.Coin.Validate *)
Definition coin_valid (denom : string) (amt : Z) : bool := valid_denom denom && (0 <=? amt).

(* TransferAttributes.Validate *)
Definition tattr_validate (t : tattr) : res unit :=
  if negb (ccid_valid {| c_proto := t_sp t; c_cp := t_sc t |}) then Err "transfer attributes: invalid source id"
  else if negb (coin_valid (t_sdenom t) (t_samt t)) then Err "transfer attributes: source coin"
  else if negb (0 <? t_samt t) then Err "transfer attributes: source amount must be positive"
  else if negb (coin_valid (t_ddenom t) (t_damt t)) then Err "transfer attributes: destination coin"
  else if negb (0 <? t_damt t) then Err "transfer attributes: destination amount must be positive"
  else Ok tt.

(* ---------- action controllers ---------- *)
(* a controller sees the attributes and the running coin, may call out, and returns the new coin *)
Definition action_ctrl := option attrs -> tattr -> M tattr.

Fixpoint fee_sends (cfg : config) (denom : string) (credits : list (string * Z)) : M unit :=
  match credits with
  | [] => mret tt
  | (to, amt) :: r =>
      _ <- ext_moving (CFeeSend to denom amt) [MSend (cfg_orbiter cfg) to denom amt] "fee: bank send failed" ;;
      fee_sends cfg denom r
  end.

(* controller/action/fee.go HandlePacket *)
Definition fee_ctrl_with ovf (cfg : config) (e : env) : action_ctrl := fun a t =>
  match a with
  | Some (AFee infos) =>
      '(credits, fwd) <- lift (fee_plan_with ovf e (t_damt t) infos) ;;
      _ <- fee_sends cfg (t_ddenom t) credits ;;
      _ <- mext (CEmit "EventFeeAction") "fee: failed to emit event" ;;
      mret (set_dest_amt t fwd)
  | _ => mfail "fee: attributes are not fee attributes"
  end.
Definition fee_ctrl := fee_ctrl_with (Err "fee: total overflow").

(* the chain's action table: the fee controller under ACTION_FEE, if wired *)
Definition chain_actions (cfg : config) (e : env) : Z -> option action_ctrl := fun id =>
  if existsb (Z.eqb id) (cfg_action_routes cfg) && (id =? action_fee) then Some (fee_ctrl cfg e) else None.

(* keeper/component/executor HandlePacket + dispatcher.dispatchActions, for ANY controller table *)
Definition run_action (acts : Z -> option action_ctrl) (paused : Z -> bool)
           (a : option action) (t : tattr) : M tattr :=
  _ <- lift (action_validate a) ;;                       (* NewActionPacket: Action.Validate ... *)
  _ <- lift (tattr_validate t) ;;                        (* ... and TransferAttributes.Validate *)
  match a with
  | None => mfail "action is not set"
  | Some a =>
      if paused (a_id a) then mfail "action is paused"
      else match acts (a_id a) with
           | None => mfail "controller for action not found"
           | Some ctrl => ctrl (a_attrs a) t
           end
  end.

Fixpoint dispatch_actions acts paused (l : list (option action)) (t : tattr) : M tattr :=
  match l with
  | [] => mret t
  | a :: r => t' <- run_action acts paused a t ;; dispatch_actions acts paused r t'
  end.

(* ---------- forwarding controllers ---------- *)
Definition hex_ok (s : string) : bool :=       (* encoding/hex.DecodeString succeeds *)
  Z.even (slen s) &&
  all_chars (fun c => is_digit c || let n := N_of_ascii c in
                      ((65 <=? n) && (n <=? 70) || (97 <=? n) && (n <=? 102))%N) s.

Definition cctp_validate (domain : Z) (recipient : string) : res unit :=
  if domain =? cctp_noble_domain then Err "cctp: destination domain cannot be Noble"
  else if String.eqb recipient "" then Err "cctp: mint recipient cannot be empty"
  else Ok tt.

Definition hyp_validate (token : string) (domain : Z) (recipient hook metadata : string) : res unit :=
  if negb (slen token =? hyp_token_id_len) then Err "hyperlane: token id length"
  else if negb (slen recipient =? hyp_recipient_len) then Err "hyperlane: recipient length"
  else if negb ((slen hook =? 0) || (slen hook =? hyp_custom_hook_len)) then Err "hyperlane: custom hook length"
  else if (domain =? hyp_noble_mainnet_domain) || (domain =? hyp_noble_testnet_domain) then Err "hyperlane: Noble domain"
  else if String.eqb metadata "" then Ok tt
  else match strip_prefix hyp_hook_metadata_prefix metadata with
       | None => Err "hyperlane: hook metadata prefix"
       | Some h => if hex_ok h then Ok tt else Err "hyperlane: hook metadata not hex"
       end.

(* the max fee of a Hyperlane transfer: the Warp module builds an sdk.Coins out of it, which panics on a
   non-zero coin with an invalid denom or a negative amount; the repaired HypAttributes.Validate refuses it *)
Definition fee_coin_bad (fee_denom : string) (fee_amt : Z) : bool :=
  negb (fee_amt =? 0) && negb (valid_denom fee_denom && (0 <? fee_amt)).
Definition hyp_fee_validate (fee_denom : string) (fee_amt : Z) : res unit :=
  if fee_coin_bad fee_denom fee_amt then Err "hyperlane: invalid max fee" else Ok tt.

(* [allow_self]: whether the internal route accepts the orbiter account itself as recipient
   (true at the pinned commit, false in the repaired code) *)
Definition internal_validate (allow_self : bool) (cfg : config) (e : env) (recipient : string) : res unit :=
  if String.eqb recipient "" then Err "internal: empty recipient"
  else match e_bech32 e recipient with
       | None => Err "internal: invalid recipient address"
       | Some a => if negb allow_self && String.eqb a (cfg_orbiter cfg)
                   then Err "internal: recipient cannot be the orbiter module account" else Ok tt
       end.

Definition opt_str (s : string) : option string := if String.eqb s "" then None else Some s.

(* ---------- post-dispatch hooks that charge for gas ----------
   A Hyperlane post-dispatch hook may charge the SENDER of the remote transfer - an interchain gas
   paymaster (x/core/02_post_dispatch: PayForGas) takes its quote, in the paymaster's own denomination,
   from the sender's account.  The sender is the orbiter module account.  Which hooks exist and what they
   quote is chain state outside the orbiter module (anybody may create a paymaster and name it as the
   custom hook of a forwarding): [gas_fn] maps (custom hook, destination domain, gas limit) to the account
   credited, the denomination and the amount quoted; [None]: the hook charges nothing. *)
Definition gas_fn := option string -> Z -> Z -> option (string * string * Z).
Definition no_gas : gas_fn := fun _ _ _ => None.

(* PayForGas / DispatchMessage on the max fee: one is required; a quote above it is refused - but sdk.Coins
   compares within one denomination only, so a max fee in another denomination bounds nothing; a zero or
   negative quote is refused *)
Definition gas_ok (fee_denom : string) (fee_amt : Z) (gd : string) (q : Z) : bool :=
  negb (fee_amt =? 0) && negb (String.eqb gd fee_denom && (fee_amt <? q)) && (0 <? q).

(* the remote transfer through a charging hook: the Warp module locks the collateral, then the hook takes
   its quote from what the orbiter account holds in the paymaster's denomination - whatever its origin *)
Definition hyp_transfer_charged (cfg : config) (c : call) (d : string) (amt : Z)
           (payee gd : string) (q : Z) (fee_denom : string) (fee_amt : Z) : M unit := fun s =>
  let '(v, s1) := ext c s in
  let s2 := do_move (MSend (cfg_orbiter cfg) (cfg_warp cfg) d amt) s1 in
  if v && gas_ok fee_denom fee_amt gd q && (q <=? bal (ps_l s2) (cfg_orbiter cfg) gd)
  then POk tt (do_move (MSend (cfg_orbiter cfg) payee gd q) s2)
  else PErr "hyperlane: remote transfer failed" s1.

(* controller/forwarding/{cctp,hyperlane,internal}.go HandlePacket.
   [hyp_log_first]: the pinned commit converted the recipient to a 32-byte array for a debug log
   BEFORE validating its length (panic when shorter). *)
Definition forward_ctrl_with (allow_self hyp_log_first : bool) (g : gas_fn) (cfg : config) (e : env)
           (pid : Z) (a : attrs) (t : tattr) : M unit :=
  let orb := cfg_orbiter cfg in
  if pid =? protocol_cctp then
    match a with
    | ACctp domain recipient caller =>
        _ <- lift (cctp_validate domain recipient) ;;
        ext_moving (CCctp (cfg_orbiter_bech cfg) (t_damt t) domain recipient (t_ddenom t) (opt_str caller))
                   [MBurn orb (t_ddenom t) (t_damt t)] "cctp: deposit for burn failed"
    | _ => mfail "cctp: attributes are not CCTP attributes"
    end
  else if pid =? protocol_hyperlane then
    match a with
    | AHyp token domain recipient hook metadata gas fee_denom fee_amt =>
        if hyp_log_first && negb (slen recipient =? 32)
        then mpanic "hyperlane: HexAddress(recipient) of a short slice in debug log"
        else
          _ <- lift (tattr_validate t) ;;
          _ <- lift (hyp_validate token domain recipient hook metadata) ;;
          _ <- lift (if hyp_log_first then Ok tt else hyp_fee_validate fee_denom fee_amt) ;;
          _ <- mext (CHypToken token) "hyperlane: token query failed" ;;
          match cfg_hyp_token cfg token with
          | None => mfail "hyperlane: token not found"
          | Some origin =>
              if negb (String.eqb origin (t_ddenom t)) then mfail "hyperlane: invalid forwarding token"
              else if hyp_log_first && fee_coin_bad fee_denom fee_amt
              then mpanic "warp: sdk.NewCoins on an invalid max fee"
              else
                let c := CHypTransfer (cfg_orbiter_bech cfg) token domain recipient (t_damt t) (opt_str hook)
                                      gas fee_denom fee_amt metadata in
                match g (opt_str hook) domain gas with
                | None => ext_moving c [MSend orb (cfg_warp cfg) (t_ddenom t) (t_damt t)]
                                     "hyperlane: remote transfer failed"
                | Some (payee, gd, q) =>
                    hyp_transfer_charged cfg c (t_ddenom t) (t_damt t) payee gd q fee_denom fee_amt
                end
          end
    | _ => mfail "hyperlane: attributes are not Hyperlane attributes"
    end
  else if pid =? protocol_internal then
    match a with
    | AInternal recipient =>
        _ <- lift (tattr_validate t) ;;
        _ <- lift (internal_validate allow_self cfg e recipient) ;;
        ext_moving (CBankSend (cfg_orbiter_bech cfg) recipient (t_ddenom t) (t_damt t))
                   [MSend orb (acct_of e recipient) (t_ddenom t) (t_damt t)] "internal: bank send failed"
    | _ => mfail "internal: attributes are not internal attributes"
    end
  else mfail "no forwarding controller implementation".
Definition forward_ctrl := forward_ctrl_with false false no_gas.

(* keeper/component/forwarder HandlePacket *)
Definition run_forwarding_with (fctrl : config -> env -> Z -> attrs -> tattr -> M unit) (cfg : config) (e : env) (lie : Z)
           (proto_paused : Z -> bool) (cc_paused : Z -> string -> bool)
           (f : option forwarding) (t : tattr) : M unit :=
  _ <- lift (forwarding_validate f) ;;
  _ <- lift (tattr_validate t) ;;
  match f with
  | None => mfail "forwarding is not set"
  | Some f =>
      match f_attrs f with
      | None => mfail "forwarding attributes are not set"
      | Some a =>
          match counterparty_of a with
          | None => mfail "cached value is not a forwarding attribute"
          | Some cp =>
              if proto_paused (f_pid f) then mfail "protocol is paused"
              else if negb (ccid_valid {| c_proto := f_pid f; c_cp := cp |}) then mfail "invalid destination cross-chain id"
              else if cc_paused (f_pid f) cp then mfail "cross-chain is paused"
              else fun s =>
                if negb (bal (ps_l s) (cfg_orbiter cfg) (t_ddenom t) + lie =? t_damt t) then PErr "amount mismatch" s
                else if negb (existsb (Z.eqb (f_pid f)) (cfg_fwd_routes cfg)) then PErr "forwarding controller not found" s
                else fctrl cfg e (f_pid f) a t s
          end
      end
  end.
Definition run_forwarding cfg e := run_forwarding_with forward_ctrl cfg e 0.

(* ---------- statistics: keeper/component/dispatcher/stats.go ---------- *)
(* [strict]: the repaired code adds with SafeAdd (an error, swallowed: statistics not updated);
   the pinned commit used Add, which panics at 2^256. *)
Definition add_amount (strict : bool) (old new : Z) : res Z :=
  if 0 <? new then
    if int_fits (old + new) then Ok (old + new)
    else if strict then Err "stats: overflow" else Panic "stats: Incoming.Add integer overflow"
  else Ok old.

Definition update_amount strict (o : ostate) (k : akey) (inc out : Z) : res ostate :=
  let '(oi, oo) := match mget cmp_ak k (amounts o) with Some v => v | None => (0, 0) end in
  do ni <- add_amount strict oi inc;
  do no <- add_amount strict oo out;
  Ok (set_stats o (mset cmp_ak k (ni, no) (amounts o)) (counts o)).

Definition update_count (o : ostate) (k : ckey) : res ostate :=
  let c := match mget cmp_ck k (counts o) with Some v => v | None => 0 end in
  if c =? 18446744073709551615 then Err "stats: dispatch count overflow"
  else Ok (set_stats o (amounts o) (mset cmp_ck k (c + 1) (counts o))).

(* statistics failures are swallowed: the state is left as the failing update left it.  In the Go
   code each map write is committed separately, so an error after the first of two amount entries
   leaves that entry updated; the model returns the last successfully written state. *)
Definition update_stats_swallow strict (o : ostate) (t : tattr) (f : forwarding) : res ostate :=
  match f_attrs f with
  | Some a =>
      match counterparty_of a with
      | Some cp =>
          let src := {| c_proto := t_sp t; c_cp := t_sc t |} in
          let dst := {| c_proto := f_pid f; c_cp := cp |} in
          if negb (ccid_valid src) || negb (ccid_valid dst) then Ok o
          else
            let k d := {| ak_sp := t_sp t; ak_sc := t_sc t; ak_dst := ccid_id dst; ak_denom := d |} in
            let ck := {| ck_sp := t_sp t; ck_sc := t_sc t; ck_dp := f_pid f; ck_dc := cp |} in
            let finish o1 := match update_count o1 ck with Ok o2 => Ok o2 | Err _ => Ok o1 | Panic x => Panic x end in
            if String.eqb (t_sdenom t) (t_ddenom t) then
              match update_amount strict o (k (t_sdenom t)) (t_samt t) (t_damt t) with
              | Ok o1 => finish o1 | Err _ => Ok o | Panic x => Panic x end
            else
              match update_amount strict o (k (t_sdenom t)) (t_samt t) 0 with
              | Ok o' => match update_amount strict o' (k (t_ddenom t)) 0 (t_damt t) with
                         | Ok o1 => finish o1 | Err _ => Ok o' | Panic x => Panic x end
              | Err _ => Ok o | Panic x => Panic x end
      | None => Ok o
      end
  | None => Ok o
  end.

(* ---------- packets ---------- *)
Inductive pdata :=
| PRaw                                        (* data that is not ICS-20 JSON *)
| PIcs (denom amount sender receiver : string) (memo : res payload).
       (* memo: what JSONParser.Parse returns for the memo text (before Payload.Validate) *)
Record packet := { pk_sport : string; pk_schan : string; pk_dport : string; pk_dchan : string; pk_data : pdata }.

Inductive outcome :=
| OAckOk
| OAckErr (label : string)
| ODelegated (ok : bool)      (* not an orbiter packet: the wrapped application's own acknowledgement *)
| OPanic (site : string).

(* what a successful transfer asks the statistics to record: (source protocol, source counterparty,
   destination protocol, destination counterparty, source denom, incoming, destination denom, outgoing) *)
Record stat_rec := { sr_sp : Z; sr_sc : string; sr_dp : Z; sr_dc : string; sr_sdenom : string; sr_in : Z;
                     sr_ddenom : string; sr_out : Z }.
Definition stat_of (t : tattr) (f : forwarding) : option stat_rec :=
  match f_attrs f with
  | Some a => match counterparty_of a with
              | Some cp => Some {| sr_sp := t_sp t; sr_sc := t_sc t; sr_dp := f_pid f; sr_dc := cp;
                                   sr_sdenom := t_sdenom t; sr_in := t_samt t; sr_ddenom := t_ddenom t; sr_out := t_damt t |}
              | None => None end
  | None => None
  end.

Record recv_result := { rr_out : outcome; rr_world : world; rr_trace : list (call * bool); rr_moves : list move;
                        rr_stat : option stat_rec (* ghost: the successful transfer as the statistics see it *) }.

(* switches distinguishing the repaired code from the pinned commit (Props/Findings.v) *)
Record variant := {
  v_receiver_by_text : bool;      (* classify by comparing the receiver TEXT with the canonical address *)
  v_newcoin_panics : bool;        (* sdk.NewCoin on an invalid denom / negative amount *)
  v_nil_action : res unit;
  v_fee_overflow : res (list (string * Z) * Z);
  v_allow_self : bool;
  v_hyp_log_first : bool;
  v_stats_strict : bool;
  v_gas : gas_fn;                 (* not a switch of the code: the gas-charging hooks of the chain (no_gas: none) *)
}.
Definition repaired : variant :=
  {| v_receiver_by_text := false; v_newcoin_panics := false; v_nil_action := Err "action is not set";
     v_fee_overflow := Err "fee: total overflow"; v_allow_self := false; v_hyp_log_first := false; v_stats_strict := true; v_gas := no_gas |}.
Definition pinned : variant :=
  {| v_receiver_by_text := true; v_newcoin_panics := true; v_nil_action := Panic "Payload.Validate: nil action dereferenced";
     v_fee_overflow := Panic "fee: Total.Add integer overflow"; v_allow_self := true; v_hyp_log_first := true; v_stats_strict := false; v_gas := no_gas |}.
Definition with_gas (vr : variant) (g : gas_fn) : variant :=
  {| v_receiver_by_text := v_receiver_by_text vr; v_newcoin_panics := v_newcoin_panics vr; v_nil_action := v_nil_action vr;
     v_fee_overflow := v_fee_overflow vr; v_allow_self := v_allow_self vr; v_hyp_log_first := v_hyp_log_first vr;
     v_stats_strict := v_stats_strict vr; v_gas := g |}.

(* is the packet addressed to the orbiter? (controller/adapter/ibc.go ParsePacket) *)
Definition is_orbiter_receiver (vr : variant) (cfg : config) (e : env) (receiver : string) : bool :=
  if v_receiver_by_text vr then String.eqb receiver (cfg_orbiter_bech cfg)
  else match e_bech32 e receiver with Some a => String.eqb a (cfg_orbiter cfg) | None => false end.

(* ParsePacket after classification + AdaptPacket: the initial transfer attributes and the payload *)
Definition parse_orbiter_packet (vr : variant) (e : env) (p : packet) (denom amount : string) (memo : res payload)
  : res (tattr * payload) :=
  do pl <- memo;
  do _ <- payload_validate_with (v_nil_action vr) pl;
  match e_parse_int e amount with
  | None => Err "invalid amount"
  | Some amt =>
      do d <- recover_native_denom denom (pk_sport p) (pk_schan p);
      if v_newcoin_panics vr && negb (coin_valid d amt) then Panic "sdk.NewCoin: invalid denom or negative amount"
      else
        let t := {| t_sp := protocol_ibc; t_sc := pk_dchan p; t_sdenom := d; t_samt := amt; t_ddenom := d; t_damt := amt |} in
        do _ <- tattr_validate t;
        Ok (t, pl)
  end.

(* the ICS-20 application's receive on a packet the orbiter does not handle (relay.go, transcribed) *)
Definition ics20_moves (cfg : config) (e : env) (p : packet) : option (list move) :=
  match pk_data p with
  | PRaw => None
  | PIcs denom amount _ receiver _ =>
      match e_parse_int e amount, e_bech32 e receiver with
      | Some amt, Some r =>
          Some (match ics20_credit_denom denom (pk_sport p) (pk_schan p) with
                | Unescrow d => [MSend (cfg_escrow cfg (pk_dport p) (pk_dchan p)) r d amt]
                | UnescrowHashed =>
                    let rest := match strip_prefix (denom_prefix (pk_sport p) (pk_schan p)) denom with Some x => x | None => denom end in
                    [MSend (cfg_escrow cfg (pk_dport p) (pk_dchan p)) r (cfg_ibc_denom cfg rest) amt]
                | MintVoucher =>
                    [MMint r (cfg_ibc_denom cfg (denom_prefix (pk_dport p) (pk_dchan p) ++ denom)) amt]
                end)
      | _, _ => None
      end
  end.

Definition result_of (w : world) (o : ostate) (ok : bool) (out : outcome) (s : pst) : recv_result :=
  (* IBC core commits the cached context only when the acknowledgement is a success *)
  {| rr_out := out;
     rr_world := if ok then {| w_o := o; w_l := ps_l s |} else w;
     rr_trace := rev (ps_trace s);
     rr_moves := if ok then rev (ps_moves s) else [];
     rr_stat := None |}.
Definition with_stat (r : recv_result) (st : option stat_rec) : recv_result :=
  {| rr_out := rr_out r; rr_world := rr_world r; rr_trace := rr_trace r; rr_moves := rr_moves r; rr_stat := st |}.

(* steps 4 (sweep), 5 (ICS-20 credit) and 7 (dispatch) of OnRecvPacket for a parsed orbiter packet *)
(* bank GetBalance of the orbiter account (cannot fail) *)
Definition read_balance (cfg : config) (lie : Z) (denom : string) : M Z :=
  fun s => POk (bal (ps_l s) (cfg_orbiter cfg) denom + lie) s.

Definition recv_body (vr : variant) (cfg : config) (acts : Z -> option action_ctrl) (e : env) (lie : Z)
           (o : ostate) (p : packet) (pl : payload) (f : forwarding) (t : tattr) : M tattr :=
   prior <- read_balance cfg lie (t_ddenom t) ;;
   _ <- (if 0 <? prior
         then ext_moving (CSweep (t_ddenom t) prior)
                         [MSend (cfg_orbiter cfg) (cfg_dust cfg) (t_ddenom t) prior] "sweep failed"
         else mret tt) ;;
   (* 5. the wrapped ICS-20 application releases the coin to the receiver *)
   _ <- ext_moving CWrapped
          [MSend (cfg_escrow cfg (pk_dport p) (pk_dchan p)) (cfg_orbiter cfg) (t_ddenom t) (t_samt t)]
          "ics20" ;;
   (* 7. dispatch *)
   t' <- dispatch_actions acts (fun a => smem cmp_z a (paused_actions o)) (p_pre pl) t ;;
   _ <- run_forwarding_with (forward_ctrl_with (v_allow_self vr) (v_hyp_log_first vr) (v_gas vr)) cfg e lie
          (fun pid => smem cmp_z pid (paused_protos o))
          (fun pid cp => smem cmp_cc (pid, cp) (paused_cc o)) (Some f) t' ;;
   mret t'.

Arguments recv_body : simpl never.

Definition pass_limit (o : ostate) : Z := match max_pass o with Some v => v | None => 0 end.

(* the packet is delegated to the wrapped application *)
Definition delegate (cfg : config) (e : env) (w : world) (p : packet) (s0 : pst) : recv_result :=
  let '(v, s1) := ext CWrapped s0 in
  if v then
    let s2 := match ics20_moves cfg e p with
              | Some ms => fold_left (fun s m => do_move m s) ms s1
              | None => s1 end in
    result_of w (w_o w) true (ODelegated true) s2
  else result_of w (w_o w) false (ODelegated false) s1.

(* [dlg]: the wrapped IBC application, as a function of the world, the packet and the state of the
   external-call machinery; the chain instance is [delegate cfg e] (ICS-20), C07 is proved for any *)
Definition recv_generic (vr : variant) (cfg : config) (acts : Z -> option action_ctrl)
           (dlg : world -> packet -> pst -> recv_result) (e : env)
           (w : world) (p : packet) (tape : list bool) (lie : Z) : recv_result :=
  let s0 := {| ps_l := w_l w; ps_tape := tape; ps_trace := []; ps_moves := [] |} in
  let o := w_o w in
  let err l s := result_of w o false (OAckErr l) s in
  (* 0. source id = (IBC, destination channel) *)
  if negb (ccid_valid {| c_proto := protocol_ibc; c_cp := pk_dchan p |}) then err "invalid source cross-chain id" s0
  (* 1. NewIBCCrossChainPacket *)
  else if String.eqb (pk_sport p) "" || String.eqb (pk_schan p) "" then err "empty source port or channel" s0
  (* 2. adapter route, classification *)
  else if negb (existsb (Z.eqb protocol_ibc) (cfg_adapter_routes cfg)) then err "adapter not found" s0
  else
    match pk_data p with
    | PRaw => dlg w p s0
    | PIcs denom amount sender receiver memo =>
        if negb (is_orbiter_receiver vr cfg e receiver) then dlg w p s0
        else
          (* 3. parse *)
          match parse_orbiter_packet vr e p denom amount memo with
          | Panic x => result_of w o false (OPanic x) s0
          | Err l => err l s0
          | Ok (t, pl) =>
              match p_fwd pl with
              | None => err "forwarding is not set" s0
              | Some f =>
                  (* 4. before-transfer hook: passthrough size *)
                  if pass_limit o <? slen (f_pass f) then err "passthrough payload too large" s0
                  else
                    match recv_body vr cfg acts e lie o p pl f t s0 with
                    | PPanic x => result_of w o false (OPanic x) s0
                    | PErr l s => err l s
                    | POk t' s =>
                        match update_stats_swallow (v_stats_strict vr) o t' f with
                        | Panic x => result_of w o false (OPanic x) s
                        | Err l => err l s
                        | Ok o' =>
                            let '(v, s') := ext (CEmit "EventPayloadProcessed") s in
                            if v then with_stat (result_of w o' true OAckOk s') (stat_of t' f)
                            else err "failed to emit payload processed event" s'
                        end
                    end
              end
          end
    end.

Definition recv_with (vr : variant) (cfg : config) (acts : Z -> option action_ctrl) (e : env) :=
  recv_generic vr cfg acts (delegate cfg e) e.

(* [lie]: a fault-injection knob of the correspondence harness — every GetBalance answer about the
   orbiter account is off by [lie]; 0 in every theorem about the real chain. *)
Definition recv_lie cfg e := recv_with repaired cfg (chain_actions cfg e) e.
Definition recv cfg e w p tape := recv_lie cfg e w p tape 0.
(* the same on a chain some of whose post-dispatch hooks charge for gas *)
Definition attrs_gas_free (g : gas_fn) (a : attrs) : bool :=
  match a with
  | AHyp _ domain _ hook _ gas _ _ => match g (opt_str hook) domain gas with None => true | Some _ => false end
  | _ => true
  end.
(* the packet's forwarding does not go through a hook that charges *)
Definition pkt_gas_free (g : gas_fn) (p : packet) : bool :=
  match pk_data p with
  | PIcs _ _ _ _ (Ok pl) =>
      match p_fwd pl with
      | Some f => match f_attrs f with Some a => attrs_gas_free g a | None => true end
      | None => true
      end
  | _ => true
  end.
Definition recv_gas (g : gas_fn) cfg e := recv_with (with_gas repaired g) cfg (chain_actions cfg e) e.
Definition recv_pinned cfg e w p tape :=
  recv_with pinned cfg (fun id => if existsb (Z.eqb id) (cfg_action_routes cfg) && (id =? action_fee)
                                  then Some (fee_ctrl_with (v_fee_overflow pinned) cfg e) else None) e w p tape 0.
