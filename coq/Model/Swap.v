(* A denomination-changing action controller, registered under ACTION_SWAP by the C06 correspondence
   harness (harness/internal/fam/swap.go is its Go twin): it sends the whole running coin to a pool
   account, receives as many coins of the other denomination when the amount is a multiple of three and
   half as many (rounded up) otherwise, and replaces the
   running coin.  It exists to exercise the dispatcher with a controller that changes the
   denomination; the chain itself wires only the fee controller. *)
From Coq Require Import String Ascii List ZArith Bool.
From Orbiter Require Import Lib.Str Lib.Res Gen.Constants Model.Ids Model.Env Model.Fee Model.Denom
     Model.Payload Model.State Model.Pipeline.
Import ListNotations.
Open Scope string_scope.
Open Scope Z_scope.

Definition other_denom (d : string) : option string :=
  if String.eqb d "uusdc" then Some "ufoo" else if String.eqb d "ufoo" then Some "uusdc" else None.

Definition swap_ctrl (cfg : config) (pool : string) : action_ctrl := fun a t =>
  match a with
  | None => mfail "swap: attributes are not set"
  | Some _ =>
      match other_denom (t_ddenom t) with
      | None => mfail "swap: unsupported denomination"
      | Some d2 =>
          let out := if (t_damt t) mod 3 =? 0 then t_damt t else (t_damt t + 1) / 2 in
          _ <- ext_moving (CSend (cfg_orbiter cfg) pool (t_ddenom t) (t_damt t))
                          [MSend (cfg_orbiter cfg) pool (t_ddenom t) (t_damt t)] "swap: send failed" ;;
          _ <- ext_moving (CSend pool (cfg_orbiter cfg) d2 out)
                          [MSend pool (cfg_orbiter cfg) d2 out] "swap: pool send failed" ;;
          mret (set_dest_amt (set_dest_denom t d2) out)
      end
  end.

(* the action table of the instrumented instance of the C06 harness: fee + swap *)
Definition swap_actions (cfg : config) (e : env) (pool : string) : Z -> option action_ctrl := fun id =>
  if id =? action_fee then Some (fee_ctrl cfg e)
  else if id =? action_swap then Some (swap_ctrl cfg pool)
  else None.

Definition recv_swap cfg e pool w p tape := recv_with repaired cfg (swap_actions cfg e pool) e w p tape 0.
