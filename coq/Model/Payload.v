(* types/core/orbiter.go: the payload as the proto-JSON decoder can deliver it (absent Go pointers
   are [None]) and its validation. *)
From Coq Require Import String List ZArith Bool.
From Orbiter Require Import Lib.Str Lib.Res Gen.Constants Model.Ids Model.Env Model.Fee.
Import ListNotations.
Open Scope string_scope.
Open Scope Z_scope.

(* cached value of an Any *)
Inductive attrs :=
| ACctp (domain : Z) (mint_recipient caller : string)
| AHyp (token : string) (domain : Z) (recipient hook : string) (metadata : string)
       (gas_limit : Z) (max_fee_denom : string) (max_fee_amt : Z)
| AInternal (recipient : string)
| AFee (infos : list (option fee_info))
| AOther (type_url : string).      (* any other message type *)

Record action := { a_id : Z; a_attrs : option attrs }.
Record forwarding := { f_pid : Z; f_attrs : option attrs; f_pass : string }.
Record payload := { p_pre : list (option action); p_fwd : option forwarding }.

(* Action.Validate / Forwarding.Validate *)
Definition action_validate (a : option action) : res unit :=
  match a with
  | None => Err "action is not set"
  | Some a =>
      if action_valid (a_id a) then
        match a_attrs a with Some _ => Ok tt | None => Err "action attributes are not set" end
      else Err "action id not supported"
  end.
Definition forwarding_validate (f : option forwarding) : res unit :=
  match f with
  | None => Err "forwarding is not set"
  | Some f =>
      if protocol_valid (f_pid f) then
        match f_attrs f with Some _ => Ok tt | None => Err "forwarding attributes are not set" end
      else Err "protocol id not supported"
  end.

(* first loop of Payload.Validate: repeated identifiers.  [on_nil]: what a nil entry does —
   an error in the repaired code, a nil dereference (panic) at the pinned commit. *)
Fixpoint unique_ids_with (on_nil : res unit) (seen : list Z) (l : list (option action)) : res unit :=
  match l with
  | [] => Ok tt
  | None :: _ => on_nil
  | Some a :: r =>
      if existsb (Z.eqb (a_id a)) seen then Err "received repeated action ID"
      else unique_ids_with on_nil (a_id a :: seen) r
  end.

Fixpoint all_actions_valid (l : list (option action)) : res unit :=
  match l with
  | [] => Ok tt
  | a :: r => do _ <- action_validate a; all_actions_valid r
  end.

Definition payload_validate_with on_nil (p : payload) : res unit :=
  do _ <- unique_ids_with on_nil [] (p_pre p);
  do _ <- all_actions_valid (p_pre p);
  forwarding_validate (p_fwd p).
Definition payload_validate := payload_validate_with (Err "action is not set").
Definition payload_validate_legacy := payload_validate_with (Panic "Payload.Validate: nil action dereferenced").

(* ForwardingAttributes.CounterpartyID(); None: the cached value is not a forwarding attribute *)
Definition counterparty_of (a : attrs) : option string :=
  match a with
  | ACctp d _ _ => Some (domain_counterparty d)
  | AHyp _ d _ _ _ _ _ _ => Some (domain_counterparty d)
  | AInternal _ => Some internal_counterparty_id
  | _ => None
  end.
