(* encoding/base64 StdEncoding as encoding/json uses it for []byte fields: padded, '\r' and '\n'
   ignored on decoding, trailing bits not checked (non-strict). *)
From Coq Require Import String Ascii List NArith Bool.
Import ListNotations.
Open Scope N_scope.

Definition b64_alphabet : string := "ABCDEFGHIJKLMNOPQRSTUVWXYZabcdefghijklmnopqrstuvwxyz0123456789+/".

Definition enc_char (n : N) : ascii :=
  if n <? 26 then ascii_of_N (65 + n)
  else if n <? 52 then ascii_of_N (97 + (n - 26))
  else if n <? 62 then ascii_of_N (48 + (n - 52))
  else if n =? 62 then "+"%char else "/"%char.

Definition dec_char (c : ascii) : option N :=
  let n := N_of_ascii c in
  if (65 <=? n) && (n <=? 90) then Some (n - 65)
  else if (97 <=? n) && (n <=? 122) then Some (n - 97 + 26)
  else if (48 <=? n) && (n <=? 57) then Some (n - 48 + 52)
  else if n =? 43 then Some 62
  else if n =? 47 then Some 63
  else None.

Definition byte (n : N) : ascii := ascii_of_N (n mod 256).

(* ---------- encoding ---------- *)
Fixpoint b64_encode_l (l : list ascii) : list ascii :=
  match l with
  | [] => []
  | [x] => let a := N_of_ascii x in
           [enc_char (a / 4); enc_char ((a mod 4) * 16); "="%char; "="%char]
  | [x; y] => let a := N_of_ascii x in let b := N_of_ascii y in
              [enc_char (a / 4); enc_char ((a mod 4) * 16 + b / 16); enc_char ((b mod 16) * 4); "="%char]
  | x :: y :: z :: r =>
      let a := N_of_ascii x in let b := N_of_ascii y in let c := N_of_ascii z in
      enc_char (a / 4) :: enc_char ((a mod 4) * 16 + b / 16) :: enc_char ((b mod 16) * 4 + c / 64) :: enc_char (c mod 64)
               :: b64_encode_l r
  end.

Definition b64_encode (s : string) : string := string_of_list_ascii (b64_encode_l (list_ascii_of_string s)).

(* ---------- decoding ---------- *)
Definition is_newline (c : ascii) : bool := let n := N_of_ascii c in (n =? 10) || (n =? 13).
Definition is_pad (c : ascii) : bool := N_of_ascii c =? 61.

Fixpoint b64_decode_l (l : list ascii) : option (list ascii) :=
  match l with
  | [] => Some []
  | a :: b :: c :: d :: r =>
      match dec_char a, dec_char b with
      | Some x, Some y =>
          match dec_char c, dec_char d with
          | Some z, Some w =>
              match b64_decode_l r with
              | Some t => Some (byte (x * 4 + y / 16) :: byte ((y mod 16) * 16 + z / 4) :: byte ((z mod 4) * 64 + w) :: t)
              | None => None
              end
          | Some z, None =>
              if is_pad d then match r with [] => Some [byte (x * 4 + y / 16); byte ((y mod 16) * 16 + z / 4)] | _ => None end else None
          | None, _ =>
              if is_pad c && is_pad d then match r with [] => Some [byte (x * 4 + y / 16)] | _ => None end else None
          end
      | _, _ => None
      end
  | _ => None
  end.

Definition b64_decode (s : string) : option string :=
  match b64_decode_l (filter (fun c => negb (is_newline c)) (list_ascii_of_string s)) with
  | Some l => Some (string_of_list_ascii l)
  | None => None
  end.
