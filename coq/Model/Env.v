(* External functions the orbiter code calls and the model does not define: they are fields of an
   environment the theorems quantify over.  The correspondence run instantiates them with the graph
   of the real function on the strings of each case (tables printed by the harness). *)
From Coq Require Import String List ZArith Bool.
Import ListNotations.
Open Scope string_scope.

Record env := {
  (* sdk.AccAddressFromBech32: Some raw-address-bytes | None *)
  e_bech32 : string -> option string;
  (* math.NewIntFromString (big.Int.SetString base 0 + the 256-bit limit) *)
  e_parse_int : string -> option Z;
}.

Fixpoint lookup {A} (tbl : list (string * A)) (k : string) : option A :=
  match tbl with
  | [] => None
  | (k', v) :: r => if String.eqb k k' then Some v else lookup r k
  end.

Definition env_of (b : list (string * option string)) (p : list (string * option Z)) : env :=
  {| e_bech32 := fun s => match lookup b s with Some v => v | None => None end;
     e_parse_int := fun s => match lookup p s with Some v => v | None => None end |}.

(* math.Int holds |x| < 2^256: Safe* operations fail, the others panic, beyond it *)
Definition int_limit : Z := 2 ^ 256.
Definition int_fits (z : Z) : bool := (Z.abs z <? int_limit)%Z.
