(* controller/adapter/utils.go RecoverNativeDenom, with ibc-go's ParseDenomTrace /
   ReceiverChainIsSource and sdk.ValidateDenom transcribed (modelled, DESIGN §9). *)
From Coq Require Import String Ascii List ZArith Bool.
From Orbiter Require Import Lib.Str Lib.Res Gen.Constants Model.Ids.
Import ListNotations.
Open Scope string_scope.
Open Scope Z_scope.

Definition slash : ascii := "/"%char.

(* transfertypes.GetDenomPrefix *)
Definition denom_prefix (port chan : string) : string := port ++ "/" ++ chan ++ "/".

(* extractPathAndBaseFromFullDenom: leading (port, channel-N) pairs form the path while the denom
   has more than two segments; returns (path segments, base segments) *)
Fixpoint extract_path (len_gt2 : bool) (fuel : nat) (items : list string) : list string * list string :=
  match fuel with
  | O => ([], items)
  | S fuel' =>
      match items with
      | a :: b :: rest =>
          if len_gt2 && is_valid_channel_id b then
            let '(p, base) := extract_path len_gt2 fuel' rest in (a :: b :: p, base)
          else ([], items)
      | _ => ([], items)
      end
  end.

(* ParseDenomTrace(raw).Path as a list of segments; IsNativeDenom = the path is empty *)
Definition trace_path (raw : string) : list string :=
  let items := split_all slash raw in
  match items with
  | [_] => []
  | _ => fst (extract_path (2 <? Z.of_nat (length items)) (length items) items)
  end.
Definition is_native_denom (raw : string) : bool :=
  match trace_path raw with [] => true | _ => false end.

(* RecoverNativeDenom *)
Definition recover_native_denom (denom port chan : string) : res string :=
  match strip_prefix (denom_prefix port chan) denom with
  | None => Err "denom: coin is native of source chain"
  | Some rest =>
      if is_native_denom rest then Ok rest else Err "denom: orbiter supports only native coins"
  end.

(* What ICS-20's OnRecvPacket does with the same packet denom (relay.go): *)
Inductive ics20_credit :=
| Unescrow (denom : string)        (* returning token: released from the channel escrow under this denom *)
| UnescrowHashed                   (* returning multi-hop voucher: released as ibc/HASH *)
| MintVoucher.                     (* token of the sending chain: an ibc/HASH voucher is minted *)
Definition ics20_credit_denom (denom port chan : string) : ics20_credit :=
  match strip_prefix (denom_prefix port chan) denom with
  | Some rest => if is_native_denom rest then Unescrow rest else UnescrowHashed
  | None => MintVoucher
  end.

(* sdk.ValidateDenom: [a-zA-Z][a-zA-Z0-9/:._-]{2,127} *)
Definition is_alpha (c : ascii) : bool :=
  let n := N_of_ascii c in ((65 <=? n) && (n <=? 90) || (97 <=? n) && (n <=? 122))%N.
Definition is_denom_char (c : ascii) : bool :=
  is_alpha c || is_digit c ||
  existsb (Ascii.eqb c) ["/"%char; ":"%char; "."%char; "_"%char; "-"%char].
Fixpoint all_chars (f : ascii -> bool) (s : string) : bool :=
  match s with "" => true | String c r => f c && all_chars f r end.
Definition valid_denom (s : string) : bool :=
  match s with
  | "" => false
  | String c r => is_alpha c && all_chars is_denom_char r && (2 <=? slen r) && (slen r <=? 127)
  end.
