(* types/core/id.go: protocol / action identifiers, counterparty validation, the textual
   cross-chain id and its parser.  External: ibc-go IsValidChannelID, strconv (see DESIGN §9). *)
From Coq Require Import String Ascii List ZArith NArith Bool.
From Orbiter Require Import Lib.Str Lib.Res Gen.Constants.
Import ListNotations.
Open Scope string_scope.
Open Scope Z_scope.

Record ccid := { c_proto : Z; c_cp : string }.

Definition enum_known (table : list (Z * string)) (id : Z) : bool :=
  existsb (fun kv => Z.eqb (fst kv) id) table.

(* ProtocolID.Validate / ActionID.Validate: not the zero value, and a member of the enum table *)
Definition protocol_valid (id : Z) : bool :=
  negb (Z.eqb id protocol_unsupported) && enum_known protocol_ids id.
Definition action_valid (id : Z) : bool :=
  negb (Z.eqb id action_unsupported) && enum_known action_ids id.

(* NewProtocolIDFromString / NewActionIDFromString: lookup by NAME, then Validate *)
Definition enum_by_name (table : list (Z * string)) (name : string) : option Z :=
  match find (fun kv => String.eqb (snd kv) name) table with
  | Some kv => Some (fst kv)
  | None => None
  end.
Definition protocol_from_string (name : string) : option Z :=
  match enum_by_name protocol_ids name with
  | Some id => if protocol_valid id then Some id else None
  | None => None
  end.
Definition action_from_string (name : string) : option Z :=
  match enum_by_name action_ids name with
  | Some id => if action_valid id then Some id else None
  | None => None
  end.

(* ibc-go channeltypes.IsValidChannelID: ^channel-[0-9]{1,20}$ and the number fits uint64 *)
Definition is_valid_channel_id (s : string) : bool :=
  match strip_prefix "channel-" s with
  | Some r =>
      all_digits r && (1 <=? slen r) && (slen r <=? 20) &&
      match digits_val r with
      | Some n => (n <? 18446744073709551616)%N
      | None => false
      end
  | None => false
  end.

(* a CCTP / Hyperlane counterparty must be the canonical decimal form of a uint32 domain *)
Definition is_domain_string (s : string) : bool :=
  match canon_val s with
  | Some n => (n <? 4294967296)%N
  | None => false
  end.

(* the check the pinned commit used (strconv.Atoi succeeds): kept for Props/Findings.v *)
Definition is_integer_legacy (s : string) : bool :=
  match parse_signed (-9223372036854775808) 9223372036854775807 s with
  | Some _ => true
  | None => false
  end.

(* unicode/utf8.ValidString on the bytes of the string: shortest forms only, no surrogates, at most U+10FFFF
   (a string that is not valid UTF-8 does not survive the JSON of an exported genesis) *)
Definition cont (c : ascii) : bool := let n := N_of_ascii c in ((128 <=? n) && (n <=? 191))%N.
Fixpoint utf8_valid (s : string) : bool :=
  match s with
  | "" => true
  | String c r =>
      let n := N_of_ascii c in
      if (n <? 128)%N then utf8_valid r
      else if ((194 <=? n) && (n <=? 223))%N then
        match r with String c1 r1 => cont c1 && utf8_valid r1 | _ => false end
      else if ((224 <=? n) && (n <=? 239))%N then
        match r with
        | String c1 (String c2 r2) =>
            let n1 := N_of_ascii c1 in
            cont c1 && cont c2 &&
            (if (n =? 224)%N then (160 <=? n1)%N else if (n =? 237)%N then (n1 <=? 159)%N else true) && utf8_valid r2
        | _ => false
        end
      else if ((240 <=? n) && (n <=? 244))%N then
        match r with
        | String c1 (String c2 (String c3 r3)) =>
            let n1 := N_of_ascii c1 in
            cont c1 && cont c2 && cont c3 &&
            (if (n =? 240)%N then (144 <=? n1)%N else if (n =? 244)%N then (n1 <=? 143)%N else true) && utf8_valid r3
        | _ => false
        end
      else false
  end.

Definition valid_counterparty_with (intcheck : string -> bool) (s : string) (proto : Z) : bool :=
  negb (String.eqb s "") &&
  (slen s <=? max_counterparty_id_length) &&
  (if Z.eqb proto protocol_ibc then is_valid_channel_id s
   else if Z.eqb proto protocol_cctp || Z.eqb proto protocol_hyperlane then intcheck s
   else if Z.eqb proto protocol_internal then no_char "000"%char s && utf8_valid s
   else false).
Definition valid_counterparty := valid_counterparty_with is_domain_string.

Definition ccid_valid_with intcheck (c : ccid) : bool :=
  protocol_valid (c_proto c) && valid_counterparty_with intcheck (c_cp c) (c_proto c).
Definition ccid_valid := ccid_valid_with is_domain_string.

(* ProtocolID.Uint32() *)
Definition u32 (z : Z) : N := Z.to_N (z mod 4294967296).

(* CrossChainID.ID(): "%d%s%s" of the uint32 protocol id, the separator, the counterparty *)
Definition ccid_id (c : ccid) : string := n_to_dec (u32 (c_proto c)) ++ ccid_separator ++ c_cp c.

Definition sep_char : ascii :=
  match ccid_separator with String c "" => c | _ => ":"%char end.

(* ParseCrossChainID: split on the FIRST separator; ParseInt(_, 10, 32); NewCrossChainID *)
Definition parse_ccid_with intcheck (s : string) : option ccid :=
  match split_first sep_char s with
  | Some (ps, cp) =>
      match parse_signed (-2147483648) 2147483647 ps with
      | Some p => let c := {| c_proto := p; c_cp := cp |} in
                  if ccid_valid_with intcheck c then Some c else None
      | None => None
      end
  | None => None
  end.
Definition parse_ccid := parse_ccid_with is_domain_string.

(* CounterpartyID() of the CCTP and Hyperlane attributes: the decimal form of the uint32 domain *)
Definition domain_counterparty (domain : Z) : string := n_to_dec (Z.to_N domain).
