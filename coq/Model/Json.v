(* The memo decoder: controller/adapter/generic_parsers.go (Parse) over gogoproto's jsonpb
   Unmarshaler with the SDK's interface registry, for the message types of the payload
   (transcribed from jsonpb.go unmarshalValue: modelled, not verified), at the level of JSON TREES;
   and the encoder (jsonpb Marshaler with OrigName + EmitDefaults, as codec.ProtoMarshalJSON sets it).
   Text <-> tree is encoding/json's business and enters through the harness' scanner.
   Field names and type URLs are the generated tables of Gen/Constants.v. *)
From Coq Require Import String Ascii List ZArith NArith Bool.
From Orbiter Require Import Lib.Str Lib.Res Gen.Constants Model.Ids Model.Env Model.Fee Model.Payload Model.Base64.
Import ListNotations.
Open Scope string_scope.
Open Scope Z_scope.

Inductive json :=
| JNull
| JBool (b : bool)
| JNum (lit : string)                 (* the literal as written *)
| JStr (raw dec : string)             (* between the quotes as written / unescaped *)
| JArr (l : list json)
| JObj (f : list (string * json)).    (* keys unescaped, in document order, repeats kept *)

(* ---------- objects as Go maps: the last occurrence of a key wins ---------- *)
Fixpoint obj_get (k : string) (f : list (string * json)) : option json :=
  match f with
  | [] => None
  | (k', v) :: r =>
      match obj_get k r with
      | Some x => Some x
      | None => if String.eqb k k' then Some v else None
      end
  end.

Fixpoint distinct_keys (f : list (string * json)) : list string :=
  match f with
  | [] => []
  | (k, _) :: r => let d := distinct_keys r in if existsb (String.eqb k) d then d else k :: d
  end.

(* consumeField: both the original and the camel name are accepted, the camel one is favoured *)
Definition jfield (names : string * string) (f : list (string * json)) : option json :=
  let (o, c) := names in
  if String.eqb c "" then obj_get o f
  else match obj_get c f with Some v => Some v | None => obj_get o f end.
Definition fld (tbl : list (string * string)) (i : nat) : string * string := nth i tbl ("", "").

Definition names_of (tbl : list (string * string)) : list string :=
  flat_map (fun oc => if String.eqb (snd oc) "" then [fst oc] else [fst oc; snd oc]) tbl.
(* "unknown field" *)
Definition all_known (tbl : list (string * string)) (f : list (string * json)) : bool :=
  forallb (fun kv => existsb (String.eqb (fst kv)) (names_of tbl)) f.

Definition no_unknown (tbl : list (string * string)) (f : list (string * json)) : res unit :=
  if all_known tbl f then Ok tt else Err "unknown field".

(* ---------- scalars ---------- *)
Definition is_ws (c : ascii) : bool :=
  let n := N_of_ascii c in (n =? 32)%N || (n =? 9)%N || (n =? 10)%N || (n =? 13)%N.
Fixpoint trim_left (s : string) : string :=
  match s with String c r => if is_ws c then trim_left r else s | "" => "" end.
Definition srev (s : string) : string := string_of_list_ascii (rev (list_ascii_of_string s)).
Definition trim_ws (s : string) : string := srev (trim_left (srev (trim_left s))).

Definition u32_of_lit (lit : string) : res Z :=
  match canon_val lit with
  | Some n => if (n <? 4294967296)%N then Ok (Z.of_N n) else Err "uint32 out of range"
  | None => Err "not an unsigned integer"
  end.
(* uint32 fields: numbers, or strings (the quotes are dropped and the rest is parsed as JSON) *)
Definition dec_u32 (j : json) : res Z :=
  match j with
  | JNull => Ok 0
  | JNum lit => u32_of_lit lit
  | JStr raw _ => let t := trim_ws raw in if String.eqb t "null" then Ok 0 else u32_of_lit t
  | _ => Err "uint32: wrong JSON type"
  end.

Definition i32_of_lit (lit : string) : res Z :=
  let chk (neg : bool) (r : string) : res Z :=
    match canon_val r with
    | Some n => let v := if neg then - Z.of_N n else Z.of_N n in
                if (-2147483648 <=? v) && (v <=? 2147483647) then Ok v else Err "int32 out of range"
    | None => Err "not an integer"
    end in
  match lit with
  | String "-" r => chk true r
  | _ => chk false lit
  end.
(* enums: a name (not unescaped) or a number *)
Definition dec_enum (from_name : string -> option Z) (j : json) : res Z :=
  match j with
  | JNull => Ok 0
  | JStr raw _ => match from_name raw with Some v => Ok v | None => Err "unknown enum value" end
  | JNum lit => i32_of_lit lit
  | _ => Err "enum: wrong JSON type"
  end.

Definition dec_str (j : json) : res string :=
  match j with
  | JNull => Ok ""
  | JStr _ d => Ok d
  | _ => Err "string: wrong JSON type"
  end.

Definition dec_byte_elem (j : json) : res ascii :=
  match j with
  | JNull => Ok (ascii_of_N 0)
  | JNum lit => match canon_val lit with
                | Some n => if (n <? 256)%N then Ok (ascii_of_N n) else Err "uint8 out of range"
                | None => Err "not an unsigned integer"
                end
  | _ => Err "uint8: wrong JSON type"
  end.
Fixpoint mapM {A B} (f : A -> res B) (l : list A) : res (list B) :=
  match l with
  | [] => Ok []
  | x :: r => do y <- f x; do t <- mapM f r; Ok (y :: t)
  end.
(* bytes: base64 text (or, as encoding/json has it, an array of small numbers) *)
Definition dec_bytes (j : json) : res string :=
  match j with
  | JNull => Ok ""
  | JStr _ d => match b64_decode d with Some s => Ok s | None => Err "illegal base64 data" end
  | JArr l => do cs <- mapM dec_byte_elem l; Ok (string_of_list_ascii cs)
  | _ => Err "bytes: wrong JSON type"
  end.

(* math.Int: a string holding what big.Int.UnmarshalText accepts, within 256 bits.  Canonical decimal
   text is evaluated by the model; anything else (prefixes, underscores, signs) is the oracle's. *)
Definition canon_z (s : string) : option Z :=
  match s with
  | String "-" r => match canon_val r with Some (Npos p) => Some (Zneg p) | _ => None end
  | _ => match canon_val s with Some n => Some (Z.of_N n) | None => None end
  end.
Definition jint (e : env) (s : string) : option Z :=
  match canon_z s with
  | Some z => if int_fits z then Some z else None
  | None => e_parse_int e s
  end.
Definition dec_int (e : env) (j : json) : res Z :=
  match j with
  | JStr _ d => match jint e d with Some z => Ok z | None => Err "math.Int: bad text" end
  | _ => Err "math.Int: wrong JSON type"
  end.

Definition opt_field {A} (dec : json -> res A) (dflt : A) (o : option json) : res A :=
  match o with Some j => dec j | None => Ok dflt end.

(* a message held by value (or the body of an Any): null leaves it empty *)
Definition as_obj (j : json) : res (list (string * json)) :=
  match j with
  | JObj f => Ok f
  | JNull => Ok []
  | _ => Err "message: wrong JSON type"
  end.

(* ---------- the attribute messages ---------- *)
Definition dec_coin (e : env) (j : json) : res (string * Z) :=
  do f <- as_obj j;
  do d <- opt_field dec_str "" (jfield (fld jf_coin 0) f);
  do a <- opt_field (dec_int e) 0 (jfield (fld jf_coin 1) f);
  do _ <- no_unknown jf_coin f;
  Ok (d, a).

Definition dec_cctp (f : list (string * json)) : res attrs :=
  do d <- opt_field dec_u32 0 (jfield (fld jf_cctp 0) f);
  do m <- opt_field dec_bytes "" (jfield (fld jf_cctp 1) f);
  do c <- opt_field dec_bytes "" (jfield (fld jf_cctp 2) f);
  do _ <- no_unknown jf_cctp f;
  Ok (ACctp d m c).

Definition dec_hyp (e : env) (f : list (string * json)) : res attrs :=
  do t <- opt_field dec_bytes "" (jfield (fld jf_hyp 0) f);
  do d <- opt_field dec_u32 0 (jfield (fld jf_hyp 1) f);
  do r <- opt_field dec_bytes "" (jfield (fld jf_hyp 2) f);
  do h <- opt_field dec_bytes "" (jfield (fld jf_hyp 3) f);
  do md <- opt_field dec_str "" (jfield (fld jf_hyp 4) f);
  do g <- opt_field (dec_int e) 0 (jfield (fld jf_hyp 5) f);
  do c <- opt_field (dec_coin e) ("", 0) (jfield (fld jf_hyp 6) f);
  do _ <- no_unknown jf_hyp f;
  Ok (AHyp t d r h md g (fst c) (snd c)).

Definition dec_internal (f : list (string * json)) : res attrs :=
  do r <- opt_field dec_str "" (jfield (fld jf_internal 0) f);
  do _ <- no_unknown jf_internal f;
  Ok (AInternal r).

(* the alternatives of the fee type (messages held by pointer: null leaves the alternative empty,
   which does not survive the binary form the Any is kept in) *)
Definition dec_bps (j : json) : res (option fee_type) :=
  match j with
  | JNull => Ok None
  | JObj f =>
      do v <- opt_field dec_u32 0 (jfield (fld jf_bps 0) f);
      do _ <- no_unknown jf_bps f;
      Ok (Some (FBps v))
  | _ => Err "basis points: wrong JSON type"
  end.
Definition dec_amount (j : json) : res (option fee_type) :=
  match j with
  | JNull => Ok None
  | JObj f =>
      do v <- opt_field dec_str "" (jfield (fld jf_amount 0) f);
      do _ <- no_unknown jf_amount f;
      Ok (Some (FAmount v))
  | _ => Err "amount: wrong JSON type"
  end.

Definition present (names : string * string) (f : list (string * json)) : bool :=
  match jfield names f with Some _ => true | None => false end.

Definition alt_amount : string * string := fld jf_fee_info_oneof 0.
Definition alt_bps : string * string := fld jf_fee_info_oneof 1.

(* one fee entry.  A null entry cannot be put into the Any's binary form: refused.
   Both alternatives present: refused (generic_parsers.go; the generic decoder would keep whichever
   its map iteration visits last). *)
Definition dec_fee_info (j : json) : res (option fee_info) :=
  match j with
  | JObj f =>
      do r <- opt_field dec_str "" (jfield (fld jf_fee_info 0) f);
      (* the Go field holding the oneof has a name of its own: only null fits it *)
      do _ <- match jfield (fld jf_fee_info 1) f with
              | None | Some JNull => Ok tt
              | Some _ => Err "fee_type: cannot decode into the interface"
              end;
      if present alt_bps f && present alt_amount f then Err "more than one fee type"
      else
        do t <- match jfield alt_bps f, jfield alt_amount f with
                | Some j1, _ => dec_bps j1
                | None, Some j2 => dec_amount j2
                | None, None => Ok None
                end;
        do _ <- no_unknown (jf_fee_info ++ jf_fee_info_oneof) f;
        Ok (Some {| fi_recipient := r; fi_type := t |})
  | _ => Err "fee info: null or wrong JSON type"
  end.

Definition dec_fee_attrs (f : list (string * json)) : res attrs :=
  do l <- match jfield (fld jf_fee_attrs 0) f with
          | None | Some JNull => Ok []
          | Some (JArr l) => mapM dec_fee_info l
          | Some _ => Err "fees_info: wrong JSON type"
          end;
  do _ <- no_unknown jf_fee_attrs f;
  Ok (AFee l).

(* ---------- Any, resolved through the interface registry ---------- *)
Inductive iface := IForwarding | IAction.
Definition without_type (f : list (string * json)) : list (string * json) :=
  filter (fun kv => negb (String.eqb (fst kv) "@type")) f.

Definition dec_any (e : env) (i : iface) (j : json) : res (option attrs) :=
  match j with
  | JNull => Ok None
  | JObj f =>
      match obj_get "@type" f with
      | Some (JStr _ url) =>
          let body := without_type f in
          match i with
          | IForwarding =>
              if String.eqb url url_cctp then do a <- dec_cctp body; Ok (Some a)
              else if String.eqb url url_hyp then do a <- dec_hyp e body; Ok (Some a)
              else if String.eqb url url_internal then do a <- dec_internal body; Ok (Some a)
              else Err "type URL not registered against ForwardingAttributes"
          | IAction =>
              if String.eqb url url_fee then do a <- dec_fee_attrs body; Ok (Some a)
              else Err "type URL not registered against ActionAttributes"
          end
      | _ => Err "Any JSON doesn't have '@type'"
      end
  | _ => Err "Any: wrong JSON type"
  end.

(* ---------- the payload ---------- *)
Definition dec_action (e : env) (j : json) : res (option action) :=
  match j with
  | JNull => Ok None
  | JObj f =>
      do id <- opt_field (dec_enum (enum_by_name action_ids)) 0 (jfield (fld jf_action 0) f);
      do a <- opt_field (dec_any e IAction) None (jfield (fld jf_action 1) f);
      do _ <- no_unknown jf_action f;
      Ok (Some {| a_id := id; a_attrs := a |})
  | _ => Err "action: wrong JSON type"
  end.

Definition dec_forwarding (e : env) (j : json) : res (option forwarding) :=
  match j with
  | JNull => Ok None
  | JObj f =>
      do id <- opt_field (dec_enum (enum_by_name protocol_ids)) 0 (jfield (fld jf_forwarding 0) f);
      do a <- opt_field (dec_any e IForwarding) None (jfield (fld jf_forwarding 1) f);
      do p <- opt_field dec_bytes "" (jfield (fld jf_forwarding 2) f);
      do _ <- no_unknown jf_forwarding f;
      Ok (Some {| f_pid := id; f_attrs := a; f_pass := p |})
  | _ => Err "forwarding: wrong JSON type"
  end.

Definition dec_payload (e : env) (j : json) : res payload :=
  match j with
  | JObj f =>
      do pre <- match jfield (fld jf_payload 0) f with
                | None | Some JNull => Ok []
                | Some (JArr l) => mapM (dec_action e) l
                | Some _ => Err "pre_actions: wrong JSON type"
                end;
      do fw <- opt_field (dec_forwarding e) None (jfield (fld jf_payload 1) f);
      do _ <- no_unknown jf_payload f;
      Ok {| p_pre := pre; p_fwd := fw |}
  | _ => Err "payload: wrong JSON type"
  end.

(* JSONParser.Parse *)
Definition decode_memo (e : env) (root : json) : res payload :=
  match root with
  | JObj f =>
      if negb (Nat.eqb (length (distinct_keys f)) 1) then Err "json data contains multiple root level keys"
      else match obj_get orbiter_prefix f with
           | None | Some JNull => Err "json does not contain orbiter prefix"
           | Some v => dec_payload e v
           end
  | _ => Err "not a JSON object"
  end.

(* IBCParser.ParsePayload: parse, then Payload.Validate *)
Definition accept_memo (e : env) (root : json) : res payload :=
  do p <- decode_memo e root;
  do _ <- payload_validate p;
  Ok p.

(* ---------- the encoder (types.MarshalJSON of the wrapper) ---------- *)
Definition plain (s : string) : json := JStr s s.
Definition enc_bytes (s : string) : json := match s with "" => JNull | _ => plain (b64_encode s) end.
Definition enc_u32 (z : Z) : json := JNum (n_to_dec (Z.to_N z)).
Definition enc_enum (tbl : list (Z * string)) (z : Z) : json :=
  match find (fun p => Z.eqb (fst p) z) tbl with
  | Some (_, name) => plain name
  | None => JNum (z_to_dec z)
  end.
Definition oname (tbl : list (string * string)) (i : nat) : string := fst (fld tbl i).

Definition enc_fee_info (o : option fee_info) : json :=
  match o with
  | None => JNull
  | Some fi =>
      JObj ((oname jf_fee_info 0, plain (fi_recipient fi)) ::
            match fi_type fi with
            | Some (FBps v) => [(fst alt_bps, JObj [(oname jf_bps 0, enc_u32 v)])]
            | Some FBpsNil => [(fst alt_bps, JNull)]
            | Some (FAmount s) => [(fst alt_amount, JObj [(oname jf_amount 0, plain s)])]
            | Some FAmountNil => [(fst alt_amount, JNull)]
            | None => []
            end)
  end.

Definition enc_attrs (a : attrs) : json :=
  match a with
  | ACctp d m c => JObj [("@type", plain url_cctp); (oname jf_cctp 0, enc_u32 d); (oname jf_cctp 1, enc_bytes m); (oname jf_cctp 2, enc_bytes c)]
  | AHyp t d r h md g fd fa =>
      JObj [("@type", plain url_hyp); (oname jf_hyp 0, enc_bytes t); (oname jf_hyp 1, enc_u32 d); (oname jf_hyp 2, enc_bytes r);
            (oname jf_hyp 3, enc_bytes h); (oname jf_hyp 4, plain md); (oname jf_hyp 5, plain (z_to_dec g));
            (oname jf_hyp 6, JObj [(oname jf_coin 0, plain fd); (oname jf_coin 1, plain (z_to_dec fa))])]
  | AInternal r => JObj [("@type", plain url_internal); (oname jf_internal 0, plain r)]
  | AFee l => JObj [("@type", plain url_fee); (oname jf_fee_attrs 0, JArr (map enc_fee_info l))]
  | AOther url => JObj [("@type", plain url)]
  end.
Definition enc_opt {A} (f : A -> json) (o : option A) : json := match o with Some x => f x | None => JNull end.

Definition enc_action (o : option action) : json :=
  enc_opt (fun a => JObj [(oname jf_action 0, enc_enum action_ids (a_id a)); (oname jf_action 1, enc_opt enc_attrs (a_attrs a))]) o.
Definition enc_forwarding (o : option forwarding) : json :=
  enc_opt (fun f => JObj [(oname jf_forwarding 0, enc_enum protocol_ids (f_pid f)); (oname jf_forwarding 1, enc_opt enc_attrs (f_attrs f));
                          (oname jf_forwarding 2, enc_bytes (f_pass f))]) o.
Definition enc_payload (p : payload) : json :=
  JObj [(oname jf_payload 0, JArr (map enc_action (p_pre p))); (oname jf_payload 1, enc_forwarding (p_fwd p))].
Definition encode_memo (p : payload) : json := JObj [(oname jf_wrapper 0, enc_payload p)].
