(* The module's own state (collections prefixes 10, 11, 20, 30-34, 40) and a bank ledger.
   Key sets and maps are association lists kept in the store's key order; the secondary indexes of
   the statistics maps are modelled as views (filters) of the primary maps (DESIGN §4.2, §9). *)
From Coq Require Import String Ascii List ZArith Bool.
From Orbiter Require Import Lib.Str Lib.Res Gen.Constants Model.Ids.
Import ListNotations.
Open Scope string_scope.
Open Scope Z_scope.

(* ---------- orders: the byte order of the collections key encoding ---------- *)
Definition cmp_z (a b : Z) : comparison := Z.compare a b.     (* int32: sign-flipped big endian *)
Fixpoint cmp_str (a b : string) : comparison :=               (* bytes, NUL-terminated or terminal *)
  match a, b with
  | "", "" => Eq
  | "", _ => Lt
  | _, "" => Gt
  | String x a', String y b' =>
      match N.compare (N_of_ascii x) (N_of_ascii y) with
      | Eq => cmp_str a' b'
      | c => c
      end
  end.
Definition lex (c1 c2 : comparison) : comparison := match c1 with Eq => c2 | c => c end.

(* ---------- sorted key sets ---------- *)
Section SSet.
  Context {K : Type} (cmp : K -> K -> comparison).
  Definition keqb (a b : K) : bool := match cmp a b with Eq => true | _ => false end.
  Definition smem (x : K) (l : list K) : bool := existsb (keqb x) l.
  Fixpoint sins (x : K) (l : list K) : list K :=
    match l with
    | [] => [x]
    | y :: t => match cmp x y with
                | Lt => x :: l
                | Eq => l
                | Gt => y :: sins x t
                end
    end.
  Definition srem (x : K) (l : list K) : list K := filter (fun y => negb (keqb x y)) l.
End SSet.

(* ---------- sorted maps ---------- *)
Section SMap.
  Context {K V : Type} (cmp : K -> K -> comparison).
  Fixpoint mget (k : K) (m : list (K * V)) : option V :=
    match m with
    | [] => None
    | (k', v) :: t => if keqb cmp k k' then Some v else mget k t
    end.
  Fixpoint mset (k : K) (v : V) (m : list (K * V)) : list (K * V) :=
    match m with
    | [] => [(k, v)]
    | (k', v') :: t => match cmp k k' with
                       | Lt => (k, v) :: m
                       | Eq => (k, v) :: t
                       | Gt => (k', v') :: mset k v t
                       end
    end.
End SMap.

(* ---------- keys ---------- *)
Definition cckey := (Z * string)%type.                                   (* paused cross-chain *)
Definition cmp_cc (a b : cckey) := lex (cmp_z (fst a) (fst b)) (cmp_str (snd a) (snd b)).

(* dispatched amounts: (source protocol, source counterparty, destination id TEXT, denom) *)
Record akey := { ak_sp : Z; ak_sc : string; ak_dst : string; ak_denom : string }.
Definition cmp_ak (a b : akey) :=
  lex (cmp_z (ak_sp a) (ak_sp b)) (lex (cmp_str (ak_sc a) (ak_sc b))
      (lex (cmp_str (ak_dst a) (ak_dst b)) (cmp_str (ak_denom a) (ak_denom b)))).
(* dispatched counts: (source protocol, source counterparty, destination protocol, destination counterparty) *)
Record ckey := { ck_sp : Z; ck_sc : string; ck_dp : Z; ck_dc : string }.
Definition cmp_ck (a b : ckey) :=
  lex (cmp_z (ck_sp a) (ck_sp b)) (lex (cmp_str (ck_sc a) (ck_sc b))
      (lex (cmp_z (ck_dp a) (ck_dp b)) (cmp_str (ck_dc a) (ck_dc b)))).

Record ostate := {
  paused_protos : list Z;
  paused_cc : list cckey;
  paused_actions : list Z;
  max_pass : option Z;                      (* adapter params; None: never set *)
  amounts : list (akey * (Z * Z));          (* incoming, outgoing *)
  counts : list (ckey * Z);
}.

Definition empty_ostate : ostate :=
  {| paused_protos := []; paused_cc := []; paused_actions := []; max_pass := None; amounts := []; counts := [] |}.

Definition set_paused_protos o v := {| paused_protos := v; paused_cc := paused_cc o; paused_actions := paused_actions o;
  max_pass := max_pass o; amounts := amounts o; counts := counts o |}.
Definition set_paused_cc o v := {| paused_protos := paused_protos o; paused_cc := v; paused_actions := paused_actions o;
  max_pass := max_pass o; amounts := amounts o; counts := counts o |}.
Definition set_paused_actions o v := {| paused_protos := paused_protos o; paused_cc := paused_cc o; paused_actions := v;
  max_pass := max_pass o; amounts := amounts o; counts := counts o |}.
Definition set_max_pass o v := {| paused_protos := paused_protos o; paused_cc := paused_cc o; paused_actions := paused_actions o;
  max_pass := v; amounts := amounts o; counts := counts o |}.
Definition set_stats o a c := {| paused_protos := paused_protos o; paused_cc := paused_cc o; paused_actions := paused_actions o;
  max_pass := max_pass o; amounts := a; counts := c |}.

(* ---------- bank ledger ---------- *)
Record ledger := { bal : string -> string -> Z; supply : string -> Z }.

Definition upd_bal (l : ledger) (a d : string) (delta : Z) : ledger :=
  {| bal := fun a' d' => if String.eqb a' a && String.eqb d' d then bal l a' d' + delta else bal l a' d';
     supply := supply l |}.
Definition upd_supply (l : ledger) (d : string) (delta : Z) : ledger :=
  {| bal := bal l; supply := fun d' => if String.eqb d' d then supply l d' + delta else supply l d' |}.

(* a fund movement *)
Inductive move :=
| MSend (from to denom : string) (amt : Z)
| MBurn (from denom : string) (amt : Z)
| MMint (to denom : string) (amt : Z).
Definition apply_move (l : ledger) (m : move) : ledger :=
  match m with
  | MSend f t d a => upd_bal (upd_bal l f d (- a)) t d a
  | MBurn f d a => upd_supply (upd_bal l f d (- a)) d (- a)
  | MMint t d a => upd_supply (upd_bal l t d a) d a
  end.
Definition apply_moves (l : ledger) (ms : list move) : ledger := fold_left apply_move ms l.

Definition ledger_of (bals : list ((string * string) * Z)) (sup : list (string * Z)) : ledger :=
  {| bal := fun a d => match find (fun e => String.eqb (fst (fst e)) a && String.eqb (snd (fst e)) d) bals with
                       | Some e => snd e | None => 0 end;
     supply := fun d => match find (fun e => String.eqb (fst e) d) sup with Some e => snd e | None => 0 end |}.

Record world := { w_o : ostate; w_l : ledger }.
