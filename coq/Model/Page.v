(* Statistics queries (keeper/component/dispatcher/query_server.go, state.go) and the SDK's
   query.CollectionPaginate (types/query/collections_pagination.go, transcribed: modelled, not verified). *)
From Coq Require Import String Ascii List ZArith Bool.
From Orbiter Require Import Lib.Str Lib.Res Gen.Constants Model.Ids Model.State.
Import ListNotations.
Open Scope string_scope.
Open Scope Z_scope.

Section Paginate.
  Context {K A : Type} (cmp : K -> K -> comparison) (keyof : A -> K).

  Record page_req := { pr_key : option K; pr_offset : nat; pr_limit : nat; pr_count_total : bool; pr_reverse : bool }.
  Record page_res := { pg_items : list A; pg_next : option K; pg_total : nat }.

  Fixpoint drop_while (f : A -> bool) (l : list A) : list A :=
    match l with
    | [] => []
    | x :: r => if f x then drop_while f r else l
    end.

  Definition default_limit : nat := 100.

  (* [l] is the collection restricted to the prefix, in key order *)
  Definition paginate (l : list A) (r : page_req) : res page_res :=
    (* initPageRequestDefaults: limit 0 means the default limit AND count-total *)
    let limit := if Nat.eqb (pr_limit r) 0 then default_limit else pr_limit r in
    let count_total := if Nat.eqb (pr_limit r) 0 then true else pr_count_total r in
    let dir := if pr_reverse r then rev l else l in
    match pr_key r with
    | Some k =>
        if Nat.ltb 0 (pr_offset r) then Err "invalid request, either offset or key is expected, got both"
        else
          (* iterate from the key, inclusive, in the direction of the walk *)
          let from := if pr_reverse r then drop_while (fun a => match cmp (keyof a) k with Gt => true | _ => false end) dir
                      else drop_while (fun a => match cmp (keyof a) k with Lt => true | _ => false end) dir in
          Ok {| pg_items := firstn limit from;
                pg_next := match skipn limit from with x :: _ => Some (keyof x) | [] => None end;
                pg_total := 0 |}
    | None =>
        if Nat.ltb (length dir) (pr_offset r) then Ok {| pg_items := []; pg_next := None; pg_total := 0 |}   (* invalid iterator: empty response *)
        else
          let from := skipn (pr_offset r) dir in
          Ok {| pg_items := firstn limit from;
                pg_next := match skipn limit from with x :: _ => Some (keyof x) | [] => None end;
                pg_total := if count_total then
                              (* the count stops with the page when nothing follows it *)
                              length dir
                            else 0 |}
    end.

  (* following next-keys from the start, with a page size *)
  Fixpoint walk (fuel : nat) (l : list A) (limit : nat) (reverse : bool) (key : option K) (first : bool) : list (list A) :=
    match fuel with
    | O => []
    | S fuel' =>
        match key, first with
        | None, false => []
        | _, _ =>
            match paginate l {| pr_key := key; pr_offset := 0; pr_limit := limit; pr_count_total := false; pr_reverse := reverse |} with
            | Ok pg => pg_items pg :: walk fuel' l limit reverse (pg_next pg) false
            | _ => []
            end
        end
    end.
End Paginate.
Arguments page_req : clear implicits.
Arguments page_res : clear implicits.

(* ---------- the listings ---------- *)
Definition dst_of (k : akey) : option ccid := parse_ccid (ak_dst k).
Definition amounts_by_source (o : ostate) (pid : Z) : list (akey * (Z * Z)) :=
  filter (fun e => ak_sp (fst e) =? pid) (amounts o).
Definition amounts_by_dest (o : ostate) (pid : Z) : list (akey * (Z * Z)) :=
  filter (fun e => match dst_of (fst e) with Some d => c_proto d =? pid | None => false end) (amounts o).
Definition counts_by_source (o : ostate) (pid : Z) : list (ckey * Z) := filter (fun e => ck_sp (fst e) =? pid) (counts o).
Definition counts_by_dest (o : ostate) (pid : Z) : list (ckey * Z) := filter (fun e => ck_dp (fst e) =? pid) (counts o).

(* direct lookups: identifiers are validated first; the entry is returned exactly when it is positive *)
Definition lookup_amount (o : ostate) (sname scp dname dcp denom : string) : res (akey * (Z * Z)) :=
  if String.eqb denom "" then Err "empty denom"
  else match protocol_from_string sname with
       | None => Err "source protocol id"
       | Some sp =>
           if negb (ccid_valid {| c_proto := sp; c_cp := scp |}) then Err "source cross-chain id"
           else match protocol_from_string dname with
                | None => Err "destination protocol id"
                | Some dp =>
                    if negb (ccid_valid {| c_proto := dp; c_cp := dcp |}) then Err "destination cross-chain id"
                    else
                      let k := {| ak_sp := sp; ak_sc := scp; ak_dst := ccid_id {| c_proto := dp; c_cp := dcp |}; ak_denom := denom |} in
                      match mget cmp_ak k (amounts o) with
                      | Some (i, u) => if (0 <? i) || (0 <? u) then Ok (k, (i, u)) else Err "not found"
                      | None => Err "not found"
                      end
                end
       end.
Definition lookup_count (o : ostate) (sname scp dname dcp : string) : res (ckey * Z) :=
  match protocol_from_string sname with
  | None => Err "source protocol id"
  | Some sp =>
      if negb (ccid_valid {| c_proto := sp; c_cp := scp |}) then Err "source cross-chain id"
      else match protocol_from_string dname with
           | None => Err "destination protocol id"
           | Some dp =>
               if negb (ccid_valid {| c_proto := dp; c_cp := dcp |}) then Err "destination cross-chain id"
               else
                 let k := {| ck_sp := sp; ck_sc := scp; ck_dp := dp; ck_dc := dcp |} in
                 match mget cmp_ck k (counts o) with
                 | Some n => if 0 <? n then Ok (k, n) else Err "not found"
                 | None => Err "not found"
                 end
           end
  end.
