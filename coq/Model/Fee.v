(* controller/action/fee.go and types/controller/action/fee.go: fee attribute validation and the
   fee computation.  Absent (nil) Go values are [option]s. *)
From Coq Require Import String List ZArith Bool.
From Orbiter Require Import Lib.Str Lib.Res Gen.Constants Model.Env.
Import ListNotations.
Open Scope string_scope.
Open Scope Z_scope.

Inductive fee_type :=
| FBps (value : Z)            (* uint32 *)
| FBpsNil                     (* wrapper present, body nil *)
| FAmount (value : string)    (* decimal text, parsed with math.NewIntFromString *)
| FAmountNil.

Record fee_info := { fi_recipient : string; fi_type : option fee_type }.

(* the orbiter's own accounts may not be paid fees: a fee to the module account would stay there, one
   to the dust collector could create a base account at that address (DESIGN 8, item 14) *)
Definition module_owned (a : string) : bool :=
  String.eqb a orbiter_address_hex || String.eqb a dust_collector_address_hex.

(* FeeInfo.Validate *)
Definition fee_info_valid (e : env) (fi : option fee_info) : bool :=
  match fi with
  | None => false
  | Some f =>
      match fi_type f with
      | None => false
      | Some (FAmount s) =>
          match e_parse_int e s with
          | Some v => 0 <? v
          | None => false
          end
      | Some (FBps v) => (0 <? v) && (v <=? bps_normalizer)     (* v is a uint32: v <> 0 *)
      | Some FBpsNil | Some FAmountNil => false
      end
      && match e_bech32 e (fi_recipient f) with Some a => negb (module_owned a) | None => false end
  end.

(* FeeAttributes.Validate (attrs = None: nil pointer) *)
Definition fee_attrs_valid (e : env) (infos : list (option fee_info)) : bool :=
  (Z.of_nat (length infos) <=? max_fee_recipients) && forallb (fee_info_valid e) infos.

(* ComputeFeeAmount: SafeMul, non-positive product -> 0, else integer division *)
Definition compute_fee_amount (amount bps : Z) : res Z :=
  let prod := amount * bps in
  if int_fits prod then
    if 0 <? prod then Ok (prod / bps_normalizer) else Ok 0
  else Err "fee: multiplication overflow".

(* the amount one entry asks for, given the amount entering the action *)
Definition fee_of (e : env) (amount : Z) (f : fee_info) : res Z :=
  match fi_type f with
  | Some (FBps v) => compute_fee_amount amount v
  | Some (FAmount s) => match e_parse_int e s with Some v => Ok v | None => Ok 0 end
  | _ => Ok 0
  end.

Definition acct_of (e : env) (s : string) : string :=
  match e_bech32 e s with Some a => a | None => "" end.

(* ComputeFeesToDistribute: in list order, positive fees are appended and summed.
   [total_overflow]: what happens when the running total leaves the 256-bit range —
   an error in the repaired code (SafeAdd), a panic at the pinned commit (Add). *)
Fixpoint compute_fees_with (total_overflow : res (list (string * Z) * Z))
         (e : env) (amount : Z) (infos : list (option fee_info))
         (acc : list (string * Z)) (total : Z) : res (list (string * Z) * Z) :=
  match infos with
  | [] => Ok (rev acc, total)
  | None :: _ => Panic "fee: nil fee info dereferenced"
  | Some f :: rest =>
      do fee <- fee_of e amount f;
      if 0 <? fee then
        if int_fits (total + fee)
        then compute_fees_with total_overflow e amount rest ((acct_of e (fi_recipient f), fee) :: acc) (total + fee)
        else total_overflow
      else compute_fees_with total_overflow e amount rest acc total
  end.

Definition compute_fees := compute_fees_with (Err "fee: total overflow").
Definition compute_fees_legacy := compute_fees_with (Panic "fee: Total.Add integer overflow").

(* The pure plan of the fee action applied to [amount]: who is credited what, in order, and what
   is left to forward.  (The sends themselves are in Model/Pipeline.v.) *)
Definition fee_plan_with ovf (e : env) (amount : Z) (infos : list (option fee_info))
  : res (list (string * Z) * Z) :=
  if fee_attrs_valid e infos then
    do (credits, total) <- compute_fees_with ovf e amount infos [] 0;
    if amount <=? total then Err "fee: total fees equal or exceed transfer amount"
    else Ok (credits, amount - total)
  else Err "fee: invalid attributes".
Definition fee_plan := fee_plan_with (Err "fee: total overflow").
Definition fee_plan_legacy := fee_plan_with (Panic "fee: Total.Add integer overflow").
