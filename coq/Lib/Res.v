(* Outcome of a modelled Go function: a value, a returned error, or a panic. *)
From Coq Require Import String.
Inductive res (A : Type) : Type :=
| Ok (a : A)
| Err (label : string)
| Panic (site : string).
Arguments Ok {A} a.
Arguments Err {A} label.
Arguments Panic {A} site.

Definition bind {A B} (r : res A) (f : A -> res B) : res B :=
  match r with
  | Ok a => f a
  | Err e => Err e
  | Panic s => Panic s
  end.
Notation "'do' x <- r ; k" := (bind r (fun x => k)) (at level 200, x pattern, r at level 100, k at level 200).
Notation "'check' b 'else' e ; k" := (if b then k else Err e) (at level 200, b at level 100, k at level 200).

Definition is_ok {A} (r : res A) : bool := match r with Ok _ => true | _ => false end.
Definition is_panic {A} (r : res A) : bool := match r with Panic _ => true | _ => false end.
(* 0 ok, 1 error, 2 panic: the class compared with the implementation *)
Definition class {A} (r : res A) : nat := match r with Ok _ => 0 | Err _ => 1 | Panic _ => 2 end.
