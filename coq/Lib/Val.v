(* A small universal value type: every projection compared with the implementation is a [val],
   so one decidable equality serves every correspondence. *)
From Coq Require Import String List ZArith Bool.
Import ListNotations.
Inductive val : Type :=
| VZ (z : Z)
| VS (s : string)
| VB (b : bool)
| VL (l : list val).

Fixpoint val_eqb (a b : val) {struct a} : bool :=
  match a, b with
  | VZ x, VZ y => Z.eqb x y
  | VS x, VS y => String.eqb x y
  | VB x, VB y => Bool.eqb x y
  | VL x, VL y =>
      (fix go (x y : list val) {struct x} : bool :=
         match x, y with
         | [], [] => true
         | a :: x', b :: y' => val_eqb a b && go x' y'
         | _, _ => false
         end) x y
  | _, _ => false
  end.

Definition VN (n : nat) : val := VZ (Z.of_nat n).
Definition VO {A} (f : A -> val) (o : option A) : val :=
  match o with Some a => VL [f a] | None => VL [] end.
Definition VLs {A} (f : A -> val) (l : list A) : val := VL (map f l).

(* first point where two values differ: the path to it, then what the model has and what the
   implementation showed there (for lists of different length: the two lengths) *)
Fixpoint vdiff (a b : val) {struct a} : option val :=
  match a, b with
  | VL x, VL y =>
      if Nat.eqb (length x) (length y) then
        (fix go (n : Z) (x y : list val) {struct x} : option val :=
           match x, y with
           | a :: x', b :: y' =>
               match vdiff a b with
               | Some (VL (VL p :: r)) => Some (VL (VL (VZ n :: p) :: r))
               | Some d => Some d
               | None => go (n + 1)%Z x' y'
               end
           | _, _ => None
           end) 0%Z x y
      else Some (VL [VL []; VS "length"; VN (length x); VN (length y)])
  | _, _ => if val_eqb a b then None else Some (VL [VL []; a; b])
  end.

(* indices of the cases where model and implementation differ, each with the first difference:
   [path; model; implementation] *)
Fixpoint mismatches_from {I} (run : I -> val) (n : nat) (cases : list (I * val)) : list (nat * val) :=
  match cases with
  | [] => []
  | (i, expected) :: r =>
      let got := run i in
      if val_eqb got expected then mismatches_from run (S n) r
      else (n, match vdiff got expected with Some d => d | None => VS "?" end) :: mismatches_from run (S n) r
  end.
Definition mismatches {I} (run : I -> val) (cases : list (I * val)) := mismatches_from run 0 cases.
