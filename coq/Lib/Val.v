(* A small universal value type: every projection compared with the implementation is a [val],
   so one decidable equality serves every correspondence. *)
From Coq Require Import String List ZArith Bool.
Import ListNotations.
Inductive val : Type :=
| VZ (z : Z)
| VS (s : string)
| VB (b : bool)
| VL (l : list val).

Fixpoint val_eqb (a b : val) {struct a} : bool :=
  match a, b with
  | VZ x, VZ y => Z.eqb x y
  | VS x, VS y => String.eqb x y
  | VB x, VB y => Bool.eqb x y
  | VL x, VL y =>
      (fix go (x y : list val) {struct x} : bool :=
         match x, y with
         | [], [] => true
         | a :: x', b :: y' => val_eqb a b && go x' y'
         | _, _ => false
         end) x y
  | _, _ => false
  end.

Definition VN (n : nat) : val := VZ (Z.of_nat n).
Definition VO {A} (f : A -> val) (o : option A) : val :=
  match o with Some a => VL [f a] | None => VL [] end.
Definition VLs {A} (f : A -> val) (l : list A) : val := VL (map f l).

(* indices (and the model's answer) of the cases where model and implementation differ *)
Fixpoint mismatches_from {I} (run : I -> val) (n : nat) (cases : list (I * val)) : list (nat * val) :=
  match cases with
  | [] => []
  | (i, expected) :: r =>
      let got := run i in
      if val_eqb got expected then mismatches_from run (S n) r
      else (n, got) :: mismatches_from run (S n) r
  end.
Definition mismatches {I} (run : I -> val) (cases : list (I * val)) := mismatches_from run 0 cases.
