(* Strings as Go sees them: sequences of bytes.  Decimal printing / parsing is delegated to the
   standard library (DecimalString, DecimalN) so that the round-trip lemmas come from there. *)
From Coq Require Import String Ascii List ZArith NArith Bool Lia.
From Coq Require Import Decimal DecimalString DecimalN DecimalFacts.
Import ListNotations.
Open Scope string_scope.

Definition ascii_eqb := Ascii.eqb.

Fixpoint no_char (c : ascii) (s : string) : bool :=
  match s with
  | "" => true
  | String x r => negb (Ascii.eqb x c) && no_char c r
  end.

(* strings.Index + slicing at the first occurrence of [sep]: (before, after) *)
Fixpoint split_first (sep : ascii) (s : string) : option (string * string) :=
  match s with
  | "" => None
  | String c r =>
      if Ascii.eqb c sep then Some ("", r)
      else match split_first sep r with
           | Some (a, b) => Some (String c a, b)
           | None => None
           end
  end.

(* strings.Split on a single byte *)
Fixpoint split_all_aux (sep : ascii) (cur : string) (s : string) : list string :=
  match s with
  | "" => [cur]
  | String c r =>
      if Ascii.eqb c sep then cur :: split_all_aux sep "" r
      else split_all_aux sep (cur ++ String c "") r
  end.
Definition split_all (sep : ascii) (s : string) : list string := split_all_aux sep "" s.

Fixpoint join (sep : string) (l : list string) : string :=
  match l with
  | [] => ""
  | [x] => x
  | x :: r => x ++ sep ++ join sep r
  end.

Definition is_digit (c : ascii) : bool :=
  let n := N_of_ascii c in (48 <=? n)%N && (n <=? 57)%N.

Fixpoint all_digits (s : string) : bool :=
  match s with
  | "" => true
  | String c r => is_digit c && all_digits r
  end.

(* strip a literal prefix: strings.HasPrefix + TrimPrefix *)
Fixpoint strip_prefix (p s : string) : option string :=
  match p with
  | "" => Some s
  | String a p' =>
      match s with
      | "" => None
      | String b s' => if Ascii.eqb a b then strip_prefix p' s' else None
      end
  end.

Definition slen (s : string) : Z := Z.of_nat (String.length s).

(* canonical decimal of a natural number: strconv.FormatUint(n, 10), fmt "%d" *)
Definition n_to_dec (n : N) : string := NilEmpty.string_of_uint (N.to_uint n).
Definition z_to_dec (z : Z) : string :=
  match z with
  | Z0 => "0"
  | Zpos p => n_to_dec (Npos p)
  | Zneg p => String "-" (n_to_dec (Npos p))
  end.

(* a run of decimal digits (leading zeros allowed, not empty) -> its value *)
Definition digits_val (s : string) : option N :=
  match s with
  | "" => None
  | _ => match NilEmpty.uint_of_string s with
         | Some d => Some (N.of_uint d)
         | None => None
         end
  end.

(* the canonical decimal strings: the image of n_to_dec *)
Definition canon_val (s : string) : option N :=
  match NilEmpty.uint_of_string s with
  | Some d => if uint_beq (unorm d) d then Some (N.of_uint d) else None
  | None => None
  end.

(* strconv.ParseInt(s, 10, bits) / strconv.Atoi: optional sign, digits, range *)
Definition parse_signed (lo hi : Z) (s : string) : option Z :=
  let body (neg : bool) (r : string) : option Z :=
    match digits_val r with
    | Some n => let v := if neg then (- Z.of_N n)%Z else Z.of_N n in
                if (lo <=? v)%Z && (v <=? hi)%Z then Some v else None
    | None => None
    end in
  match s with
  | String "+" r => body false r
  | String "-" r => body true r
  | _ => body false s
  end.

(* byte list -> string, for the non-printable strings of generated cases *)
Definition bs (l : list Z) : string :=
  fold_right (fun n s => String (ascii_of_N (Z.to_N n)) s) "" l.
