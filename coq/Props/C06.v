(* C06 - Actions run in payload order on the running amount; the final coin is forwarded.
   The theorems are for an ARBITRARY table of action controllers [acts] (a controller is any function
   from attributes, running coin and state to a new coin and state or an error), so they cover the
   fee controller, a denomination-changing one, and any controller added later. *)
From Coq Require Import String List ZArith Bool.
From Orbiter Require Import Lib.Str Lib.Res Gen.Constants Model.Ids Model.Env Model.Fee Model.Payload Model.State Model.Pipeline Model.Swap
     Proofs.PipelineProofs Proofs.OrderProofs Proofs.Corollaries Props.Examples.
Import ListNotations.
Open Scope string_scope.
Open Scope Z_scope.
Open Scope list_scope.

(* the dispatcher is exactly the sequence: each action is routed by its identifier and run on the
   coin and state left by its predecessor, in list order *)
Theorem C06_sequence : forall acts paused l t s t' s',
  dispatch_actions acts paused l t s = POk t' s' <-> steps acts paused l t s t' s'.
Proof. exact dispatch_is_steps. Qed.
Print Assumptions C06_sequence.

Theorem C06_each_action : forall acts paused a t s t1 s1,
  run_action acts paused a t s = POk t1 s1 ->
  exists act ctrl,
    a = Some act /\ action_valid (a_id act) = true /\ a_attrs act <> None /\ tattr_validate t = Ok tt /\
    paused (a_id act) = false /\ acts (a_id act) = Some ctrl /\ ctrl (a_attrs act) t s = POk t1 s1.
Proof. exact run_action_inv. Qed.
Print Assumptions C06_each_action.

Theorem C06_order : forall acts paused l1 l2 t s t' s',
  dispatch_actions acts paused (l1 ++ l2) t s = POk t' s' <->
  exists tm sm, dispatch_actions acts paused l1 t s = POk tm sm /\ dispatch_actions acts paused l2 tm sm = POk t' s'.
Proof. exact dispatch_app. Qed.
Print Assumptions C06_order.

(* the forwarding step is given exactly the coin (amount AND denomination) the last action left *)
Theorem C06_final_coin_forwarded : forall acts paused cfg e lie o p pl f t s t' s1,
  (forall id, paused id = smem cmp_z id (paused_actions o)) ->
  recv_body repaired cfg acts e lie o p pl f t s = POk t' s1 ->
  exists sa sb,
    ran s sa (sweep_calls (t_ddenom t) (bal (ps_l s) (cfg_orbiter cfg) (t_ddenom t) + lie) ++ [CWrapped])
             (sweep_moves cfg (t_ddenom t) (bal (ps_l s) (cfg_orbiter cfg) (t_ddenom t) + lie) ++ [credit_move cfg p t]) /\
    steps acts paused (p_pre pl) t sa t' sb /\
    run_forwarding_with forward_ctrl cfg e lie (pp_of o) (ccp_of o) (Some f) t' sb = POk tt s1.
Proof. exact body_forwards_last_coin. Qed.
Print Assumptions C06_final_coin_forwarded.

(* a payload repeating an action identifier does not validate, hence (C14_refused) is refused *)
Theorem C06_distinct_ids : forall pl,
  payload_validate pl = Ok tt ->
  exists ids, Forall2 (fun a id => exists act, a = Some act /\ a_id act = id) (p_pre pl) ids /\ NoDup ids.
Proof. exact valid_payload_distinct_ids. Qed.
Print Assumptions C06_distinct_ids.

(* non-vacuity with a denomination-changing controller (Model/Swap.v, the Go twin runs in the harness):
   fee-then-swap and swap-then-fee differ exactly as payload order says *)
Definition ex_swap : option action := Some {| a_id := action_swap; a_attrs := Some (AFee []) |}.
Definition ex_ledger2 : ledger :=
  ledger_of [(("e5c0channel-0", "uusdc"), 5000); (("p001", "ufoo"), 100000); (("p001", "uusdc"), 100000)] [("uusdc", 105000); ("ufoo", 100000)].
Definition ex_run2 (pre : list (option action)) : recv_result :=
  recv_swap ex_cfg ex_env "p001" {| w_o := w_o ex_world; w_l := ex_ledger2 |}
    {| pk_sport := "transfer"; pk_schan := "channel-7"; pk_dport := "transfer"; pk_dchan := "channel-0";
       pk_data := PIcs "transfer/channel-7/uusdc" "1000" "noble1sender" orbiter_address
                       (Ok {| p_pre := pre; p_fwd := Some ex_internal |}) |} [].
Example C06_ex :
  (* fee (1% + 7 = 17 uusdc) then swap: 983 uusdc -> 492 ufoo forwarded *)
  rr_moves (ex_run2 [ex_fee; ex_swap]) =
    [MSend "e5c0channel-0" orbiter_address_hex "uusdc" 1000;
     MSend orbiter_address_hex "fee1" "uusdc" 10; MSend orbiter_address_hex "fee1" "uusdc" 7;
     MSend orbiter_address_hex "p001" "uusdc" 983; MSend "p001" orbiter_address_hex "ufoo" 492;
     MSend orbiter_address_hex "user1" "ufoo" 492] /\
  (* swap then fee: 1000 uusdc -> 500 ufoo, fee 5 + 7 = 12 ufoo, 488 ufoo forwarded *)
  rr_moves (ex_run2 [ex_swap; ex_fee]) =
    [MSend "e5c0channel-0" orbiter_address_hex "uusdc" 1000;
     MSend orbiter_address_hex "p001" "uusdc" 1000; MSend "p001" orbiter_address_hex "ufoo" 500;
     MSend orbiter_address_hex "fee1" "ufoo" 5; MSend orbiter_address_hex "fee1" "ufoo" 7;
     MSend orbiter_address_hex "user1" "ufoo" 488] /\
  rr_out (ex_run2 [ex_swap; ex_swap]) = OAckErr "received repeated action ID" /\
  (* two statistics entries when the denomination changed *)
  amounts (w_o (rr_world (ex_run2 [ex_swap; ex_fee]))) =
    [({| ak_sp := protocol_ibc; ak_sc := "channel-0"; ak_dst := "4:noble"; ak_denom := "ufoo" |}, (0, 488));
     ({| ak_sp := protocol_ibc; ak_sc := "channel-0"; ak_dst := "4:noble"; ak_denom := "uusdc" |}, (1000, 0))].
Proof. vm_compute. repeat split; reflexivity. Qed.

(* ---------- on ANY chain, whatever its Hyperlane hooks charge for gas: a payload that is executed runs the same
   external calls in the same order as on the chain without charging hooks, where the theorems above order them ---------- *)
From Orbiter Require Import Proofs.GasHistories.
Theorem C06_any_hooks : forall g cfg e w p tape,
  rr_out (recv_gas g cfg e w p tape 0) = OAckOk ->
  rr_out (recv cfg e w p tape) = OAckOk /\ rr_trace (recv_gas g cfg e w p tape 0) = rr_trace (recv cfg e w p tape).
Proof. exact success_trace_hooks. Qed.
Print Assumptions C06_any_hooks.
