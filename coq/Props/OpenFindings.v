(* Open findings: statements that are FALSE of the current code, each with its witness (DESIGN 9,
   known_findings.json "open").  The model is the faithful one, not the intended one.

   Finding 17 - a Hyperlane post-dispatch hook that charges for gas (an interchain gas paymaster) is
   paid by the SENDER of the remote transfer, the orbiter module account, out of whatever that account
   holds in the paymaster's denomination: coins of other origin (C11, C02). *)
From Coq Require Import String Ascii List ZArith Bool.
From Orbiter Require Import Lib.Str Lib.Res Gen.Constants Model.Ids Model.Env Model.Fee Model.Denom
     Model.Payload Model.State Model.Pipeline Model.Msgs Proofs.TransferProps Props.Examples.
Import ListNotations.
Open Scope string_scope.
Open Scope Z_scope.

(* a paymaster "hook..." quoting (gas + 7) * 3 * 0.25 ufoo for domain 1, credited to account 19b0 *)
Definition ex_hook := "hookhookhookhookhookhookhookhook".
Definition ex_gas : gas_fn := fun hook domain gas =>
  match hook with
  | Some h => if String.eqb h ex_hook && (domain =? 1)
              then Some ("19b0", "ufoo", ((gas + 7) * 3 * 2500000000) / 10000000000) else None
  | None => None
  end.
(* a forwarding through it: gas limit 5 (quote 9 ufoo), max fee 9 ufoo *)
Definition ex_hyp_igp : forwarding :=
  {| f_pid := protocol_hyperlane;
     f_attrs := Some (AHyp "tokentokentokentokentokentokento" 1 "recipientrecipientrecipientrecip" ex_hook "" 5 "ufoo" 9);
     f_pass := "" |}.
(* the example world (3 uusdc and 9 ufoo lie on the orbiter account) and the same with that account emptied *)
Definition ex_world_emptied : world :=
  {| w_o := w_o ex_world; w_l := ledger_of [(("e5c0channel-0", "uusdc"), 5000)] [("uusdc", 5000)] |}.

(* C11 is false with such a hook: the same packet on the same state succeeds when 9 ufoo happen to lie on
   the orbiter account and is refused when the account is empty; and the 9 ufoo - not the transferred
   denomination - are spent *)
Theorem open_C11_gas_hook :
  exists g cfg e w l2 p,
    wf_cfg cfg /\
    (forall d, 0 <= bal (w_l w) (cfg_orbiter cfg) d) /\ (forall d, 0 <= bal l2 (cfg_orbiter cfg) d) /\
    rr_out (recv_gas g cfg e w p [] 0) = OAckOk /\
    rr_out (recv_gas g cfg e {| w_o := w_o w; w_l := l2 |} p [] 0) <> OAckOk /\
    bal (w_l (rr_world (recv_gas g cfg e w p [] 0))) (cfg_orbiter cfg) "ufoo" <> bal (w_l w) (cfg_orbiter cfg) "ufoo".
Proof.
  exists ex_gas, ex_cfg, ex_env, ex_world, (w_l ex_world_emptied), (ex_packet ex_hyp_igp).
  split; [exact ex_cfg_wf|].
  split; [intros d; unfold ex_world, ex_ledger, ledger_of; cbn [w_l bal];
          match goal with |- context [find ?f ?l] => destruct (find f l) as [[k v]|] eqn:E end; [|apply Z.le_refl];
          cbn [find] in E; repeat match type of E with (if ?b then _ else _) = _ => destruct b end;
          try discriminate; injection E as _ <-; discriminate|].
  split; [intros d; unfold ex_world_emptied, ledger_of; cbn [w_l bal];
          match goal with |- context [find ?f ?l] => destruct (find f l) as [[k v]|] eqn:E end; [|apply Z.le_refl];
          cbn [find] in E; repeat match type of E with (if ?b then _ else _) = _ => destruct b end;
          try discriminate; injection E as _ <-; discriminate|].
  vm_compute. repeat split; discriminate.
Qed.

(* C02 is false with such a hook: a successful transfer in which an account that is neither the escrow, a
   fee recipient nor the route's sink changes - the paymaster's account is credited, in a denomination
   that is not the transferred one, out of the orbiter account *)
Theorem open_C02_gas_hook :
  exists g cfg e w p,
    wf_cfg cfg /\ rr_out (recv_gas g cfg e w p [] 0) = OAckOk /\
    In (MSend (cfg_orbiter cfg) "19b0" "ufoo" 9) (rr_moves (recv_gas g cfg e w p [] 0)) /\
    bal (w_l (rr_world (recv_gas g cfg e w p [] 0))) "19b0" "ufoo" = bal (w_l w) "19b0" "ufoo" + 9 /\
    bal (w_l (rr_world (recv_gas g cfg e w p [] 0))) (cfg_orbiter cfg) "ufoo" = bal (w_l w) (cfg_orbiter cfg) "ufoo" - 9.
Proof.
  exists ex_gas, ex_cfg, ex_env, ex_world, (ex_packet ex_hyp_igp).
  split; [exact ex_cfg_wf|]. vm_compute. repeat split; try reflexivity. do 5 right. left. reflexivity.
Qed.
