(* C20 - Cross-chain identifiers are canonical and mean what transfers record.
   Property theorems only; every proof is a reference to a lemma of Proofs/IdsProofs.v. *)
From Coq Require Import String List ZArith NArith Bool.
From Orbiter Require Import Lib.Str Lib.Res Gen.Constants Model.Ids Model.Genesis Proofs.IdsProofs.
Import ListNotations.
Open Scope string_scope.

(* the textual form parses back to the same pair *)
Theorem C20_roundtrip : forall c, ccid_valid c = true -> parse_ccid (ccid_id c) = Some c.
Proof. exact (ccid_roundtrip_with is_domain_string). Qed.
Print Assumptions C20_roundtrip.

(* distinct pairs have distinct forms (protocol numbers are int32, as in the Go type) *)
Theorem C20_injective : forall c1 c2,
  (-2147483648 <= c_proto c1 <= 2147483647)%Z -> (-2147483648 <= c_proto c2 <= 2147483647)%Z ->
  ccid_id c1 = ccid_id c2 -> c1 = c2.
Proof. exact ccid_id_injective. Qed.
Print Assumptions C20_injective.

(* accepted CCTP / Hyperlane counterparties = decimal forms of 32-bit domains, no more, no fewer *)
Theorem C20_canonical : forall s p,
  p = protocol_cctp \/ p = protocol_hyperlane ->
  (valid_counterparty s p = true <-> exists n, (n < 4294967296)%N /\ s = n_to_dec n).
Proof. exact valid_counterparty_canonical. Qed.
Print Assumptions C20_canonical.

(* an accepted identifier is the string under which transfers to exactly that domain are matched *)
Theorem C20_matches_transfers : forall s p domain,
  p = protocol_cctp \/ p = protocol_hyperlane ->
  valid_counterparty s p = true -> (0 <= domain < 4294967296)%Z ->
  (domain_counterparty domain = s <-> canon_val s = Some (Z.to_N domain)).
Proof. exact domain_counterparty_matches. Qed.
Print Assumptions C20_matches_transfers.

(* no two accepted identifiers denote the same destination *)
Theorem C20_no_aliases : forall s1 s2 p,
  p = protocol_cctp \/ p = protocol_hyperlane ->
  valid_counterparty s1 p = true -> valid_counterparty s2 p = true ->
  canon_val s1 = canon_val s2 -> s1 = s2.
Proof. exact accepted_no_aliases. Qed.
Print Assumptions C20_no_aliases.

(* every place a genesis document carries an identifier - the two ends of each statistics entry, each
   paused destination - holds a valid one whenever the document validates; with C20_canonical: no
   non-canonical spelling of a CCTP / Hyperlane domain enters the chain through genesis *)
Definition genesis_ids (g : genesis) : list (option ccid) :=
  match g_dispatcher g with
  | Some (amts, cnts) => flat_map (fun a => [ga_src a; ga_dst a]) amts ++ flat_map (fun c => [gc_src c; gc_dst c]) cnts
  | None => []
  end ++ match g_forwarder g with Some (_, ccs) => ccs | None => [] end.
Theorem C20_genesis_ids : forall g, validate_genesis g = Ok tt ->
  forall o, In o (genesis_ids g) -> exists c, o = Some c /\ ccid_valid c = true.
Proof.
  intros g H o Hin. unfold validate_genesis in H.
  destruct (g_adapter g); [|discriminate]. unfold genesis_ids in Hin.
  destruct (g_dispatcher g) as [[amts cnts]|]; [|discriminate].
  destruct (forallb amount_valid amts) eqn:Ea; [|discriminate]. destruct (forallb count_valid cnts) eqn:Ec; [|discriminate]. cbn [negb] in H.
  destruct (g_forwarder g) as [[protos ccs]|]; [|discriminate].
  destruct (forallb protocol_valid protos); [|discriminate]. destruct (distinct Z.eqb protos); [|discriminate]. cbn [negb] in H.
  destruct (forallb ccid_ok ccs) eqn:Ef; [|discriminate].
  assert (Hok : ccid_ok o = true).
  { rewrite forallb_forall in Ea, Ec, Ef. apply in_app_or in Hin as [Hin|Hin]; [apply in_app_or in Hin as [Hin|Hin]|].
    - apply in_flat_map in Hin as (a & Ha & Ho). specialize (Ea a Ha). unfold amount_valid in Ea.
      repeat (apply andb_true_iff in Ea as [Ea ?]). destruct Ho as [<-|[<-|[]]]; assumption.
    - apply in_flat_map in Hin as (c & Hc & Ho). specialize (Ec c Hc). unfold count_valid in Ec.
      repeat (apply andb_true_iff in Ec as [Ec ?]). destruct Ho as [<-|[<-|[]]]; assumption.
    - apply Ef. exact Hin. }
  destruct o as [c|]; [exists c; split; [reflexivity|exact Hok]|discriminate].
Qed.
Print Assumptions C20_genesis_ids.

(* non-vacuity: concrete identifiers satisfy the hypotheses *)
Example C20_ex_valid :
  ccid_valid {| c_proto := 2; c_cp := "4294967295" |} = true /\
  ccid_valid {| c_proto := 1; c_cp := "channel-18446744073709551615" |} = true /\
  ccid_valid {| c_proto := 4; c_cp := "any:thing" |} = true /\
  parse_ccid "4:any:thing" = Some {| c_proto := 4; c_cp := "any:thing" |} /\
  valid_counterparty "01" 2 = false /\ valid_counterparty "+1" 3 = false /\
  valid_counterparty "4294967296" 2 = false /\ valid_counterparty "-1" 2 = false.
Proof. vm_compute. repeat split; reflexivity. Qed.
