(* C04 - Fees are exact, computed on the incoming amount, and bounded.
   Property theorems only (proofs: Proofs/FeeProofs.v).  [fee_plan e A infos] is the model of the
   fee action applied to the amount A entering it: FeeAttributes.Validate, ComputeFeesToDistribute,
   the total >= amount refusal; it returns the ordered credit list and the amount left to forward.
   [e] is any environment (bech32 decoder, math.NewIntFromString). *)
From Coq Require Import String List ZArith Bool.
From Orbiter Require Import Lib.Res Gen.Constants Model.Env Model.Fee Proofs.FeeProofs.
Import ListNotations.
Open Scope Z_scope.

(* which attribute lists pass validation *)
Theorem C04_valid_iff : forall e infos,
  fee_attrs_valid e infos = true <->
  Z.of_nat (length infos) <= max_fee_recipients /\
  forall o, In o infos ->
    exists f, o = Some f /\
      (exists a, e_bech32 e (fi_recipient f) = Some a /\ module_owned a = false) /\
      ((exists v, fi_type f = Some (FBps v) /\ 0 < v <= bps_normalizer) \/
       (exists s n, fi_type f = Some (FAmount s) /\ e_parse_int e s = Some n /\ 0 < n)).
Proof. exact fee_attrs_valid_iff. Qed.
Print Assumptions C04_valid_iff.

(* accepted => the credited list is exactly the positive entries of the specification, in payload
   order, every entry computed on A itself (spec_fee never sees a running amount), and the amount
   forwarded is A minus their sum, strictly positive *)
Theorem C04_exact : forall e A infos credits fwd,
  fee_plan e A infos = Ok (credits, fwd) ->
  fee_attrs_valid e infos = true /\
  credits = spec_credits e A infos /\
  fwd = A - spec_total e A infos /\
  0 < fwd /\
  products_fit A infos.
Proof. exact fee_plan_exact. Qed.
Print Assumptions C04_exact.

(* each entry: floor(A*bps/N) within [0, A], or the stated positive amount *)
Theorem C04_entry_amounts : forall e A f,
  0 < A -> fee_info_valid e (Some f) = true ->
  match fi_type f with
  | Some (FBps v) => 0 <= spec_fee e A f <= A /\ spec_fee e A f = A * v / bps_normalizer
  | Some (FAmount s) => exists n, e_parse_int e s = Some n /\ 0 < n /\ spec_fee e A f = n
  | _ => False
  end.
Proof. exact spec_fee_bounds. Qed.
Print Assumptions C04_entry_amounts.

(* accepted exactly when the list is valid, no product overflows and the sum is strictly below A;
   in every other case the action is refused (an error) ... *)
Theorem C04_accept_iff : forall e A infos,
  0 < A -> int_fits A = true ->
  (is_ok (fee_plan e A infos) = true <->
   fee_attrs_valid e infos = true /\ products_fit A infos /\ spec_total e A infos < A).
Proof. exact fee_plan_accept_iff. Qed.
Print Assumptions C04_accept_iff.

(* ... and a refusal is an error value, never a panic (arithmetic overflow included) *)
Theorem C04_never_panics : forall e A infos, is_panic (fee_plan e A infos) = false.
Proof. exact fee_plan_never_panics. Qed.
Print Assumptions C04_never_panics.

(* non-vacuity and the rounding examples of the property text *)
Definition ex_env : env := env_of [("r1"%string, Some "a1"%string); ("r2"%string, Some "a2"%string)]
                                  [("7"%string, Some 7); ("0"%string, Some 0)].
Example C04_ex_accept :
  fee_plan ex_env 9999 [Some {| fi_recipient := "r1"; fi_type := Some (FBps 1) |};
                        Some {| fi_recipient := "r2"; fi_type := Some (FBps 10000) |}]
    = Err "fee: total fees equal or exceed transfer amount" /\
  fee_plan ex_env 19999 [Some {| fi_recipient := "r1"; fi_type := Some (FBps 1) |};
                         Some {| fi_recipient := "r2"; fi_type := Some (FAmount "7") |};
                         Some {| fi_recipient := "r1"; fi_type := Some (FBps 5000) |}]
    = Ok ([("a1"%string, 1); ("a2"%string, 7); ("a1"%string, 9999)], 9992) /\
  fee_plan ex_env 9999 [Some {| fi_recipient := "r1"; fi_type := Some (FBps 1) |}] = Ok ([], 9999) /\
  is_ok (fee_plan ex_env 100 [Some {| fi_recipient := "r1"; fi_type := Some (FAmount "0") |}]) = false /\
  is_ok (fee_plan ex_env 100 [Some {| fi_recipient := "zz"; fi_type := Some (FBps 1) |}]) = false /\
  is_ok (fee_plan ex_env 100 [None]) = false.
Proof. vm_compute. repeat split; reflexivity. Qed.
