(* C08 - A paused protocol or destination is never forwarded to; others are unaffected.
   Every statement holds for an arbitrary world [w], hence in every state reachable by any history. *)
From Coq Require Import String List ZArith Bool.
From Orbiter Require Import Lib.Str Lib.Res Gen.Constants Model.Ids Model.Env Model.Payload Model.State Model.Pipeline Model.Msgs
     Proofs.SetProofs Proofs.Gates Proofs.MsgProofs Proofs.HistoryProofs Proofs.Corollaries Props.Examples.
Import ListNotations.
Open Scope string_scope.
Open Scope Z_scope.

(* a transfer is executed only if neither its protocol nor its (protocol, counterparty) pair is paused,
   the counterparty being the one derived from the payload's own attributes *)
Theorem C08_gate : forall cfg e w p tape,
  rr_out (recv cfg e w p tape) = OAckOk ->
  exists denom amount sender receiver pl f a cp,
    pk_data p = PIcs denom amount sender receiver (Ok pl) /\ p_fwd pl = Some f /\
    f_attrs f = Some a /\ counterparty_of a = Some cp /\
    smem cmp_z (f_pid f) (paused_protos (w_o w)) = false /\
    smem cmp_cc (f_pid f, cp) (paused_cc (w_o w)) = false /\
    (p_pre pl <> [] -> smem cmp_z action_fee (paused_actions (w_o w)) = false) /\
    slen (f_pass f) <= pass_limit (w_o w).
Proof. exact success_gates. Qed.
Print Assumptions C08_gate.

(* ... and if: a transfer that is executed in some world is executed in every world with the same
   ledger in which ITS OWN destination (and action, and passthrough size) passes - whatever else is
   paused there.  Pausing other destinations never affects it. *)
Theorem C08_others_unaffected : forall cfg e w w2 p,
  rr_out (recv cfg e w p []) = OAckOk ->
  w_l w2 = w_l w ->
  (forall denom amount sender receiver pl f a cp,
     pk_data p = PIcs denom amount sender receiver (Ok pl) -> p_fwd pl = Some f ->
     f_attrs f = Some a -> counterparty_of a = Some cp ->
     smem cmp_z (f_pid f) (paused_protos (w_o w2)) = false /\
     smem cmp_cc (f_pid f, cp) (paused_cc (w_o w2)) = false /\
     (p_pre pl <> [] -> smem cmp_z action_fee (paused_actions (w_o w2)) = false) /\
     slen (f_pass f) <= pass_limit (w_o w2)) ->
  rr_out (recv cfg e w2 p []) = OAckOk.
Proof. exact gates_only. Qed.
Print Assumptions C08_others_unaffected.

(* the pause state changes only through successful messages of the authority *)
Theorem C08_only_messages : forall cfg e w p tape lie,
  controls (w_o (rr_world (recv_lie cfg e w p tape lie))) = controls (w_o w).
Proof. exact recv_controls. Qed.
Print Assumptions C08_only_messages.

Theorem C08_refused_message_changes_nothing : forall cfg w signer m tape w' c tr,
  step_msg cfg w signer m tape = (w', OutMsg c tr) -> c <> 0%nat -> w' = w.
Proof. exact step_msg_refused. Qed.
Print Assumptions C08_refused_message_changes_nothing.

(* what each successful message does: exactly one insertion / removal; a redundant pause or unpause
   cannot succeed (the entry must be absent, resp. present) *)
Theorem C08_pause_protocol : forall cfg w signer name tape w' tr,
  step_msg cfg w signer (MPauseProtocol name) tape = (w', OutMsg 0 tr) ->
  signer = cfg_authority cfg /\ tr = [(CEmit "EventProtocolPaused", true)] /\
  exists pid, protocol_from_string name = Some pid /\ protos_of w pid = false /\
    (forall q, protos_of w' q = keqb cmp_z q pid || protos_of w q) /\ frame w w' true false false false.
Proof. exact msg_pause_protocol. Qed.
Print Assumptions C08_pause_protocol.

Theorem C08_unpause_protocol : forall cfg w signer name tape w' tr,
  step_msg cfg w signer (MUnpauseProtocol name) tape = (w', OutMsg 0 tr) ->
  signer = cfg_authority cfg /\ tr = [(CEmit "EventProtocolUnpaused", true)] /\
  exists pid, protocol_from_string name = Some pid /\ protos_of w pid = true /\
    (forall q, protos_of w' q = negb (keqb cmp_z q pid) && protos_of w q) /\ frame w w' true false false false.
Proof. exact msg_unpause_protocol. Qed.
Print Assumptions C08_unpause_protocol.

(* a batch of counterparties is applied entirely or (by C08_refused_message_changes_nothing) not at
   all: success means every identifier valid, new, distinct from the others, at most 100 of them *)
Theorem C08_pause_batch : forall cfg w signer name ids tape w' tr,
  step_msg cfg w signer (MPauseCC name ids) tape = (w', OutMsg 0 tr) ->
  signer = cfg_authority cfg /\ tr = [(CEmit "EventCrossChainsPaused", true)] /\
  exists pid, protocol_from_string name = Some pid /\ Z.of_nat (length ids) <= max_target_counterparties /\
    match ids with
    | [] => protos_of w pid = false /\ (forall q, protos_of w' q = keqb cmp_z q pid || protos_of w q) /\
            frame w w' true false false false
    | _ => Forall (fun c => valid_counterparty c pid = true /\ cc_of w (pid, c) = false) ids /\ NoDup ids /\
           (forall k, cc_of w' k = existsb (fun c => keqb cmp_cc k (pid, c)) ids || cc_of w k) /\
           frame w w' false true false false
    end.
Proof. exact msg_pause_cc. Qed.
Print Assumptions C08_pause_batch.

Theorem C08_unpause_batch : forall cfg w signer name ids tape w' tr,
  step_msg cfg w signer (MUnpauseCC name ids) tape = (w', OutMsg 0 tr) ->
  signer = cfg_authority cfg /\ tr = [(CEmit "EventCrossChainsUnpaused", true)] /\
  exists pid, protocol_from_string name = Some pid /\ Z.of_nat (length ids) <= max_target_counterparties /\
    match ids with
    | [] => protos_of w pid = true /\ (forall q, protos_of w' q = negb (keqb cmp_z q pid) && protos_of w q) /\
            frame w w' true false false false
    | _ => Forall (fun c => valid_counterparty c pid = true /\ cc_of w (pid, c) = true) ids /\ NoDup ids /\
           (forall k, cc_of w' k = negb (existsb (fun c => keqb cmp_cc k (pid, c)) ids) && cc_of w k) /\
           frame w w' false true false false
    end.
Proof. exact msg_unpause_cc. Qed.
Print Assumptions C08_unpause_batch.

(* the queries report exactly the current sets *)
Theorem C08_queries : forall o,
  (forall name pid, protocol_from_string name = Some pid ->
     run_query o (QIsProtocolPaused name) = Ok (ABool (smem cmp_z pid (paused_protos o)))) /\
  run_query o QPausedProtocols = Ok (AIds (paused_protos o)) /\
  (forall name pid cp, protocol_from_string name = Some pid -> ccid_valid {| c_proto := pid; c_cp := cp |} = true ->
     run_query o (QIsCCPaused name cp) = Ok (ABool (smem cmp_cc (pid, cp) (paused_cc o)))) /\
  (forall name pid, protocol_from_string name = Some pid ->
     exists l, run_query o (QPausedCC name) = Ok (AStrs l) /\ forall cp, In cp l <-> In (pid, cp) (paused_cc o)) /\
  (forall name aid, action_from_string name = Some aid ->
     run_query o (QIsActionPaused name) = Ok (ABool (smem cmp_z aid (paused_actions o)))) /\
  run_query o QPausedActions = Ok (AIds (paused_actions o)) /\
  run_query o QParams = Ok (ANum (pass_limit o)).
Proof. exact query_answers. Qed.
Print Assumptions C08_queries.

(* non-vacuity: pause CCTP domain 0, the CCTP transfer to domain 0 is refused, the Hyperlane one still runs *)
Definition ex_paused : world :=
  fst (step_msg ex_cfg ex_world authority_address (MPauseCC "PROTOCOL_CCTP" ["0"; "5"]) []).
Example C08_ex :
  paused_cc (w_o ex_paused) = [(protocol_cctp, "0"); (protocol_cctp, "5")] /\
  rr_out (recv ex_cfg ex_env ex_paused (ex_packet ex_cctp) []) = OAckErr "cross-chain is paused" /\
  rr_out (recv ex_cfg ex_env ex_paused (ex_packet ex_hyp) []) = OAckOk /\
  snd (step_msg ex_cfg ex_paused authority_address (MPauseCC "PROTOCOL_CCTP" ["1"; "0"]) []) = OutMsg 1 [] /\
  snd (step_msg ex_cfg ex_paused "noble1user" (MUnpauseCC "PROTOCOL_CCTP" ["0"]) []) = OutMsg 1 [].
Proof. vm_compute. repeat split; reflexivity. Qed.

(* ---------- on ANY chain, whatever its Hyperlane hooks charge for gas: a transfer that is executed there is
   executed on the chain without charging hooks too (C05_requests_any_hooks), so the gate holds as it stands ---------- *)
From Orbiter Require Import Proofs.GasHistories.
Theorem C08_gate_any_hooks : forall g cfg e w p tape,
  rr_out (recv_gas g cfg e w p tape 0) = OAckOk ->
  exists denom amount sender receiver pl f a cp,
    pk_data p = PIcs denom amount sender receiver (Ok pl) /\ p_fwd pl = Some f /\
    f_attrs f = Some a /\ counterparty_of a = Some cp /\
    smem cmp_z (f_pid f) (paused_protos (w_o w)) = false /\
    smem cmp_cc (f_pid f, cp) (paused_cc (w_o w)) = false /\
    (p_pre pl <> [] -> smem cmp_z action_fee (paused_actions (w_o w)) = false) /\
    slen (f_pass f) <= pass_limit (w_o w).
Proof. intros g cfg e w p tape H. apply (success_gates cfg e w p tape). exact (proj1 (success_trace_hooks g cfg e w p tape H)). Qed.
Print Assumptions C08_gate_any_hooks.
Theorem C08_only_messages_any_hooks : forall g cfg e w p tape lie,
  controls (w_o (rr_world (recv_gas g cfg e w p tape lie))) = controls (w_o w).
Proof. exact recv_gas_controls. Qed.
Print Assumptions C08_only_messages_any_hooks.
