(* C10 - Only the authority can change module state through messages. *)
From Coq Require Import String List ZArith Bool.
From Orbiter Require Import Lib.Str Lib.Res Gen.Constants Model.Ids Model.Env Model.Payload Model.State Model.Pipeline Model.Msgs
     Proofs.MsgProofs Props.Examples.
Import ListNotations.
Open Scope string_scope.
Open Scope Z_scope.

(* every message of the module, whatever its body: a signer other than the configured authority is
   refused before anything else is looked at - no external call, no state change *)
Theorem C10_unauthorized : forall cfg w signer m tape,
  signer <> cfg_authority cfg -> step_msg cfg w signer m tape = (w, OutMsg 1 []).
Proof. exact step_msg_unauthorized. Qed.
Print Assumptions C10_unauthorized.

(* the messages of the model are exactly the Msg RPCs the module registers (read from the service
   descriptors of the compiled module by the translator): a newly added RPC breaks this obligation *)
Theorem C10_rpc_coverage :
  msg_rpcs = modelled_rpcs /\ forall m, In (msg_rpc m) msg_rpcs.
Proof.
  split; [reflexivity|]. intros m. destruct m; cbn; tauto.
Qed.
Print Assumptions C10_rpc_coverage.

(* signed by the authority with valid content they succeed: the parameter update always, ... *)
Theorem C10_update_params : forall cfg w signer max tape,
  step_msg cfg w signer (MUpdateParams max) tape =
    if String.eqb signer (cfg_authority cfg)
    then ({| w_o := set_max_pass (w_o w) (Some max); w_l := w_l w |}, OutMsg 0 [])
    else (w, OutMsg 1 []).
Proof. exact msg_update_params. Qed.
Print Assumptions C10_update_params.

(* ... the deposit replacement whenever CCTP accepts it (and it reaches CCTP with exactly its fields, C05) *)
Theorem C10_replace : forall cfg w signer om oa nc nr tape,
  signer = cfg_authority cfg -> existsb (Z.eqb protocol_cctp) (cfg_fwd_routes cfg) = true ->
  exists v : bool, snd (step_msg cfg w signer (MReplaceDFB om oa nc nr) tape) =
              OutMsg (if v then 0%nat else 1%nat) [(CCctpReplace (cfg_orbiter_bech cfg) om oa nc nr, v)] /\
            fst (step_msg cfg w signer (MReplaceDFB om oa nc nr) tape) = w.
Proof. exact msg_replace. Qed.
Print Assumptions C10_replace.

(* ... and the pause messages exactly when the entry is absent (present for unpause): Props/C08, C09 *)
Example C10_ex :
  snd (step_msg ex_cfg ex_world authority_address (MPauseProtocol "PROTOCOL_CCTP") []) = OutMsg 0 [(CEmit "EventProtocolPaused", true)] /\
  snd (step_msg ex_cfg ex_world orbiter_address (MPauseProtocol "PROTOCOL_CCTP") []) = OutMsg 1 [] /\
  snd (step_msg ex_cfg ex_world "" (MUpdateParams 5) []) = OutMsg 1 [] /\
  snd (step_msg ex_cfg ex_world authority_address (MReplaceDFB "m" "a" "c" "r") []) =
    OutMsg 0 [(CCctpReplace orbiter_address "m" "a" "c" "r", true)].
Proof. vm_compute. repeat split; reflexivity. Qed.
