(* C05 - The outgoing bridge request carries exactly the user's route and parameters. *)
From Coq Require Import String List ZArith Bool.
From Orbiter Require Import Lib.Res Gen.Constants Model.Ids Model.Env Model.Fee Model.Denom Model.Payload Model.State Model.Pipeline
     Proofs.PipelineProofs Proofs.TransferProps Proofs.Corollaries Props.Examples.
Import ListNotations.
Open Scope string_scope.
Open Scope Z_scope.
Open Scope list_scope.

(* a successful transfer: the route is the one the payload's protocol identifier names and it has a
   controller on the chain; the bridge calls in the trace are exactly [route_plan] of the payload's
   own attributes and of the coin left by the actions (credited denomination, amount minus the fees
   that were paid); no other bridge call is made *)
Theorem C05_request : forall cfg e w p tape,
  rr_out (recv cfg e w p tape) = OAckOk ->
  exists denom amount sender receiver pl f a d A t' pre fcalls fees sink,
    pk_data p = PIcs denom amount sender receiver (Ok pl) /\
    p_fwd pl = Some f /\ f_attrs f = Some a /\
    recover_native_denom denom (pk_sport p) (pk_schan p) = Ok d /\ e_parse_int e amount = Some A /\
    rr_moves (recv cfg e w p tape) =
      sweep_moves cfg d (bal (w_l w) (cfg_orbiter cfg) d) ++
      [MSend (cfg_escrow cfg (pk_dport p) (pk_dchan p)) (cfg_orbiter cfg) d A] ++ fees ++ [sink] /\
    t_ddenom t' = d /\ t_damt t' = A - moves_total fees /\
    existsb (Z.eqb (f_pid f)) (cfg_fwd_routes cfg) = true /\
    route_plan cfg e (f_pid f) a t' = Some (fcalls, sink) /\
    rr_trace (recv cfg e w p tape) = map (fun c => (c, true)) (pre ++ fcalls ++ [CEmit "EventPayloadProcessed"]) /\
    forallb (fun c => negb (is_bridge_call c)) pre = true.
Proof. exact success_trace. Qed.
Print Assumptions C05_request.

(* what [route_plan] is, route by route: the request's fields are the attributes' fields, the coin is
   the running coin, the sender is the orbiter account; and the attributes must be of the protocol's
   own type - a mismatched pair has no plan, so by C05_request it is never executed *)
Theorem C05_cctp : forall cfg e pid t domain rcp caller calls mv,
  route_plan cfg e pid (ACctp domain rcp caller) t = Some (calls, mv) ->
  pid = protocol_cctp /\
  calls = [CCctp (cfg_orbiter_bech cfg) (t_damt t) domain rcp (t_ddenom t) (opt_str caller)] /\
  mv = MBurn (cfg_orbiter cfg) (t_ddenom t) (t_damt t) /\ domain <> cctp_noble_domain /\ rcp <> "".
Proof. exact route_plan_cctp. Qed.
Print Assumptions C05_cctp.

Theorem C05_hyperlane : forall cfg e pid t token domain rcp hook md gas fd fa calls mv,
  route_plan cfg e pid (AHyp token domain rcp hook md gas fd fa) t = Some (calls, mv) ->
  pid = protocol_hyperlane /\
  calls = [CHypToken token;
           CHypTransfer (cfg_orbiter_bech cfg) token domain rcp (t_damt t) (opt_str hook) gas fd fa md] /\
  mv = MSend (cfg_orbiter cfg) (cfg_warp cfg) (t_ddenom t) (t_damt t) /\
  cfg_hyp_token cfg token = Some (t_ddenom t).
Proof. exact route_plan_hyp. Qed.
Print Assumptions C05_hyperlane.

Theorem C05_internal : forall cfg e pid t rcp calls mv,
  route_plan cfg e pid (AInternal rcp) t = Some (calls, mv) ->
  pid = protocol_internal /\
  calls = [CBankSend (cfg_orbiter_bech cfg) rcp (t_ddenom t) (t_damt t)] /\
  mv = MSend (cfg_orbiter cfg) (acct_of e rcp) (t_ddenom t) (t_damt t).
Proof. exact route_plan_internal. Qed.
Print Assumptions C05_internal.

Theorem C05_foreign_attributes_refused : forall cfg e pid t a calls mv,
  route_plan cfg e pid a t = Some (calls, mv) ->
  match a with ACctp _ _ _ | AHyp _ _ _ _ _ _ _ _ | AInternal _ => True | _ => False end.
Proof. exact route_plan_other. Qed.
Print Assumptions C05_foreign_attributes_refused.

(* actions: a payload is executed only if every pre-action is a fee action (the one wired controller);
   swap, IBC-as-route, unknown numbers are refused *)
Theorem C05_actions : forall cfg e w p tape,
  rr_out (recv cfg e w p tape) = OAckOk ->
  exists denom amount sender receiver pl,
    pk_data p = PIcs denom amount sender receiver (Ok pl) /\
    (p_pre pl = [] \/ exists infos, p_pre pl = [fee_action infos] /\
                                    smem cmp_z action_fee (paused_actions (w_o w)) = false /\
                                    existsb (Z.eqb action_fee) (cfg_action_routes cfg) = true).
Proof. exact success_actions. Qed.
Print Assumptions C05_actions.

(* the chain wires exactly CCTP, Hyperlane and the internal route; IBC is not an outgoing route *)
Theorem C05_wired_routes :
  wired_forwarding_routes = [protocol_cctp; protocol_hyperlane; protocol_internal] /\
  wired_action_routes = [action_fee] /\ wired_adapter_routes = [protocol_ibc].
Proof. repeat split; reflexivity. Qed.

Example C05_ex :
  rr_trace (ex_run ex_hyp []) =
    map (fun c => (c, true))
      [CSweep "uusdc" 3; CWrapped; CFeeSend "fee1" "uusdc" 10; CFeeSend "fee1" "uusdc" 7; CEmit "EventFeeAction";
       CHypToken "tokentokentokentokentokentokento";
       CHypTransfer orbiter_address "tokentokentokentokentokentokento" 1 "recipientrecipientrecipientrecip" 983 None 0 "" 0 "";
       CEmit "EventPayloadProcessed"] /\
  (* attributes of another protocol than the identifier: refused *)
  rr_out (ex_run {| f_pid := protocol_hyperlane; f_attrs := Some (ACctp 0 "mintrecipient" ""); f_pass := "" |} []) =
    OAckErr "hyperlane: attributes are not Hyperlane attributes" /\
  (* IBC as outgoing route: refused *)
  rr_out (ex_run {| f_pid := protocol_ibc; f_attrs := Some (AInternal "noble1user"); f_pass := "" |} []) =
    OAckErr "invalid destination cross-chain id".
Proof. vm_compute. repeat split; reflexivity. Qed.

(* ---------- on ANY chain, whatever its Hyperlane hooks charge for gas: a successful transfer succeeds on the
   chain without charging hooks too and makes exactly the same external calls with exactly the same requests,
   so the theorems above describe the request that reaches the bridge there as well ---------- *)
From Orbiter Require Import Proofs.GasHistories.
Theorem C05_requests_any_hooks : forall g cfg e w p tape,
  rr_out (recv_gas g cfg e w p tape 0) = OAckOk ->
  rr_out (recv cfg e w p tape) = OAckOk /\ rr_trace (recv_gas g cfg e w p tape 0) = rr_trace (recv cfg e w p tape).
Proof. exact success_trace_hooks. Qed.
Print Assumptions C05_requests_any_hooks.
