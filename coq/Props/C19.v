(* C19 - Processing is deterministic, including committed error text.   (PARTIAL: see the note below.)

   What a theorem can carry here.  In Gallina every function is deterministic, so "the same history gives
   the same result" is not a statement about the model but about the CORRESPONDENCE: the implementation's
   acknowledgement class, ordered external calls and events, balances and module state are the model's
   [run_ops] of (configuration, oracle tables, prior state, operations) and of nothing else - no clock,
   no address, no iteration order - on every replay the harness runs (three fresh instances in-process and
   a second OS process per history, byte-compared acknowledgements, events with attributes in order,
   exported genesis, digest of every store).  The Go runtime's sources of variation (map iteration order,
   pointer values, time) cannot be exhibited by an executable Gallina model; where they could enter, the
   model carries the corresponding order-freeness as theorems:
     - the decoder reads the memo through Go maps: its result is invariant under member order and shadowed
       repeats (C19_decoder_order_free), and the one place where it was not is refuted for the pinned code
       (Findings.C15_legacy_refuted: both fee alternatives);
     - everything a successful transfer does, in order - sweep, wrapped application, the fee sends in the
       order of the fee list, bridge calls, the event - is fixed by payload and state (C19_effects_in_order);
     - the stores are canonical: writes under different keys commute, equal contents export identically
       (C19_store_canonical, C19_same_content_same_export). *)
From Coq Require Import String List ZArith Bool Permutation.
From Orbiter Require Import Lib.Str Lib.Res Gen.Constants Model.Ids Model.Env Model.Fee Model.Payload Model.State Model.Pipeline Model.Msgs
     Model.Genesis Model.Json Proofs.PipelineProofs Proofs.OrderTheory Proofs.GenesisProofs Proofs.JsonProofs Proofs.DeterminismProofs Props.Examples.
Import ListNotations.
Open Scope string_scope.
Open Scope Z_scope.
Open Scope list_scope.

Theorem C19_decoder_order_free :
  (forall e t t', jeq t t' -> decode_memo e t = decode_memo e t' /\ accept_memo e t = accept_memo e t') /\
  (forall f f', Permutation f f' -> NoDup (map fst f) -> jeq (JObj f) (JObj f')) /\
  (forall f1 k v f2 w f3, jeq (JObj (f1 ++ (k, v) :: f2 ++ (k, w) :: f3)) (JObj (f1 ++ f2 ++ (k, w) :: f3))).
Proof.
  split; [|split].
  - intros e t t' H. split; [apply decode_respects_jeq|apply accept_respects_jeq]; exact H.
  - exact reorder_members.
  - exact shadowed_member.
Qed.
Print Assumptions C19_decoder_order_free.

(* a successful transfer: the full ordered list of external calls and events, the ordered ledger
   movements and the resulting state are the ones the [transfer] record spells out from the payload
   and the prior state (fee steps in the order of the fee list) - for every tape of external verdicts *)
Theorem C19_effects_in_order : forall cfg e w p tape lie,
  rr_out (recv_lie cfg e w p tape lie) = OAckOk ->
  exists denom amount sender receiver pl f t t' a cp acalls fcalls ams mv o',
    transfer cfg e w p lie (recv_lie cfg e w p tape lie) denom amount sender receiver pl f t t' a cp acalls fcalls ams mv o'.
Proof. exact recv_ok_inv. Qed.
Print Assumptions C19_effects_in_order.

Theorem C19_store_canonical :
  (forall (k1 k2 : akey) (v1 v2 : Z * Z) m, msorted cmp_ak m -> k1 <> k2 -> mset cmp_ak k1 v1 (mset cmp_ak k2 v2 m) = mset cmp_ak k2 v2 (mset cmp_ak k1 v1 m)) /\
  (forall (k1 k2 : ckey) (v1 v2 : Z) m, msorted cmp_ck m -> k1 <> k2 -> mset cmp_ck k1 v1 (mset cmp_ck k2 v2 m) = mset cmp_ck k2 v2 (mset cmp_ck k1 v1 m)) /\
  (forall (m1 m2 : list (akey * (Z * Z))), msorted cmp_ak m1 -> msorted cmp_ak m2 -> (forall k, mget cmp_ak k m1 = mget cmp_ak k m2) -> m1 = m2).
Proof.
  split; [|split].
  - intros. apply (mset_comm cmp_ak order_ak); assumption.
  - intros. apply (mset_comm cmp_ck order_ck); assumption.
  - apply (msorted_ext cmp_ak order_ak).
Qed.
Print Assumptions C19_store_canonical.

Theorem C19_same_content_same_export : forall o1 o2,
  Inv o1 -> Inv o2 ->
  (forall k, mget cmp_ak k (amounts o1) = mget cmp_ak k (amounts o2)) ->
  (forall k, mget cmp_ck k (counts o1) = mget cmp_ck k (counts o2)) ->
  paused_protos o1 = paused_protos o2 -> paused_cc o1 = paused_cc o2 -> paused_actions o1 = paused_actions o2 ->
  max_pass o1 = max_pass o2 ->
  export_genesis o1 = export_genesis o2.
Proof. exact same_content_same_export. Qed.
Print Assumptions C19_same_content_same_export.

(* non-vacuity: two transfers to different destinations recorded in either order leave the same ledger *)
Example C19_ex :
  amounts (w_o (final_world ex_cfg ex_env ex_world [ORecv (ex_packet ex_cctp) [] 0; ORecv (ex_packet ex_hyp) [] 0])) =
  amounts (w_o (final_world ex_cfg ex_env ex_world [ORecv (ex_packet ex_hyp) [] 0; ORecv (ex_packet ex_cctp) [] 0])) /\
  length (amounts (w_o (final_world ex_cfg ex_env ex_world [ORecv (ex_packet ex_cctp) [] 0; ORecv (ex_packet ex_hyp) [] 0]))) = 2%nat.
Proof. vm_compute. split; reflexivity. Qed.
