(* C15 - Only well-formed payloads are accepted, and encoding round-trips. *)
From Coq Require Import String List ZArith Bool Permutation.
From Orbiter Require Import Lib.Str Lib.Res Gen.Constants Model.Ids Model.Env Model.Fee Model.Payload Model.Base64 Model.Json
     Proofs.Base64Proofs Proofs.JsonProofs Corr.RunJson Props.Examples.
Import ListNotations.
Open Scope string_scope.
Open Scope Z_scope.
Open Scope list_scope.

(* what IBCParser.ParsePayload (parse, then validate) accepts - for EVERY document and every oracle for
   non-canonical integer texts: a JSON object all of whose root members are 'orbiter' (one key), holding an
   object without unknown fields; exactly one forwarding with a supported protocol identifier and
   attributes of a registered forwarding type; pre-actions that are present, carry supported, pairwise
   distinct identifiers and attributes of a registered action type *)
Theorem C15_accept_sound : forall e t p, accept_memo e t = Ok p ->
  (exists f g, t = JObj f /\ f <> [] /\ Forall (fun kv => fst kv = orbiter_prefix) f /\
               obj_get orbiter_prefix f = Some (JObj g) /\ all_known jf_payload g = true) /\
  (exists fw a, p_fwd p = Some fw /\ protocol_valid (f_pid fw) = true /\ f_attrs fw = Some a /\ is_fwd_attrs a) /\
  Forall (fun o => exists act a, o = Some act /\ action_valid (a_id act) = true /\ a_attrs act = Some a /\ is_act_attrs a) (p_pre p) /\
  (exists ids, Forall2 (fun o id => exists act, o = Some act /\ a_id act = id) (p_pre p) ids /\ NoDup ids).
Proof. exact accept_sound. Qed.
Print Assumptions C15_accept_sound.

(* unknown fields are rejected at every object the decoder reads: payload, forwarding, action, the
   attributes (the table of the message the type URL names, which must be registered against the
   interface of that position), fee entries, their alternatives, the coin *)
Theorem C15_unknown_fields :
  (forall e g p, dec_payload e (JObj g) = Ok p -> all_known jf_payload g = true) /\
  (forall e g o, dec_forwarding e (JObj g) = Ok o -> all_known jf_forwarding g = true) /\
  (forall e g o, dec_action e (JObj g) = Ok o -> all_known jf_action g = true) /\
  (forall e g a, dec_any e IForwarding (JObj g) = Ok (Some a) ->
                 exists raw url, obj_get "@type" g = Some (JStr raw url) /\ In url forwarding_attr_urls /\ all_known (attr_table url) (without_type g) = true) /\
  (forall e g a, dec_any e IAction (JObj g) = Ok (Some a) ->
                 exists raw url, obj_get "@type" g = Some (JStr raw url) /\ In url action_attr_urls /\ all_known (attr_table url) (without_type g) = true) /\
  (forall g o, dec_fee_info (JObj g) = Ok o -> all_known (jf_fee_info ++ jf_fee_info_oneof) g = true) /\
  (forall g t, dec_bps (JObj g) = Ok t -> all_known jf_bps g = true) /\
  (forall g t, dec_amount (JObj g) = Ok t -> all_known jf_amount g = true) /\
  (forall e g c, dec_coin e (JObj g) = Ok c -> all_known jf_coin g = true).
Proof. exact unknown_fields_refused. Qed.
Print Assumptions C15_unknown_fields.
(* ... and [all_known] means what it says: a member anywhere in the object whose name is outside the table refutes it *)
Theorem C15_unknown_member : forall tbl f1 k v f2, all_known tbl (f1 ++ (k, v) :: f2) = true -> In k (names_of tbl).
Proof. exact all_known_mid. Qed.
Print Assumptions C15_unknown_member.

(* the round trip: every payload the Go types can hold with present fee entries (any forwarding type,
   any fee list, any passthrough bytes, known or unknown enum numbers, integers within 256 bits)
   serialises to a document that parses back to the SAME payload, under any oracle *)
Theorem C15_roundtrip : forall e p, wf_payload p -> decode_memo e (encode_memo p) = Ok p.
Proof. exact decode_encode. Qed.
Print Assumptions C15_roundtrip.
Theorem C15_roundtrip_accept : forall e p, wf_payload p -> payload_validate p = Ok tt -> accept_memo e (encode_memo p) = Ok p.
Proof. exact accept_encode. Qed.
Print Assumptions C15_roundtrip_accept.
Theorem C15_base64 : forall s, b64_decode (b64_encode s) = Some s.
Proof. exact b64_roundtrip. Qed.
Print Assumptions C15_base64.

(* parsing is a function of the document as a tree of maps: documents with the same visible value under
   every key of every object - whatever the order of members, whatever shadowed repeats - decode alike
   (the decoder reads Go maps: nothing may depend on their iteration order) *)
Theorem C15_pure : forall e t t', jeq t t' -> decode_memo e t = decode_memo e t' /\ accept_memo e t = accept_memo e t'.
Proof. intros e t t' H. split; [apply decode_respects_jeq|apply accept_respects_jeq]; exact H. Qed.
Print Assumptions C15_pure.
Theorem C15_reorder : forall f f', Permutation f f' -> NoDup (map fst f) -> jeq (JObj f) (JObj f').
Proof. exact reorder_members. Qed.
Print Assumptions C15_reorder.
Theorem C15_shadowed : forall f1 k v f2 w f3, jeq (JObj (f1 ++ (k, v) :: f2 ++ (k, w) :: f3)) (JObj (f1 ++ f2 ++ (k, w) :: f3)).
Proof. exact shadowed_member. Qed.
Print Assumptions C15_shadowed.

(* ---------- non-vacuity ---------- *)
Definition c15_fee : option fee_info := Some {| fi_recipient := "noble1zw7vatnx0vla7gzxucgypz0kfr6965akpvzw69"; fi_type := Some (FBps 100) |}.
Definition c15_payload : payload :=
  {| p_pre := [Some {| a_id := action_fee; a_attrs := Some (AFee [c15_fee; Some {| fi_recipient := "x"; fi_type := Some (FAmount "5") |}]) |}];
     p_fwd := Some {| f_pid := protocol_cctp; f_attrs := Some (ACctp 0 "0123456789abcdef0123456789abcdef" ""); f_pass := "hello" |} |}.
Example C15_ex_wf : wf_payload c15_payload /\ payload_validate c15_payload = Ok tt.
Proof.
  split; [|reflexivity]. split.
  - repeat constructor. eexists. split; [reflexivity|]. split; [unfold i32; cbn; split; discriminate|]. cbn.
    repeat constructor; eexists; (split; [reflexivity|]); cbn; [split; [discriminate|reflexivity]|exact I].
  - cbn. split; [unfold i32; cbn; split; discriminate|]. split; [discriminate|reflexivity].
Qed.
Example C15_ex_roundtrip : accept_memo (env_of [] []) (encode_memo c15_payload) = Ok c15_payload.
Proof. vm_compute. reflexivity. Qed.
(* an extra root key, an unknown field, attributes of an action type on the forwarding, both fee alternatives *)
Example C15_ex_refused :
  let e := env_of [] [] in
  let orb := enc_payload c15_payload in
  is_ok (accept_memo e (JObj [("orbiter", orb); ("x", JNull)])) = false /\
  is_ok (accept_memo e (JObj [("orbiter", JObj [("forwarding", JNull); ("memo", JNull)])])) = false /\
  is_ok (accept_memo e (JObj [("orbiter", JObj [("forwarding", JObj [("protocol_id", plain "PROTOCOL_CCTP");
                                ("attributes", JObj [("@type", plain url_fee)])])])])) = false /\
  is_ok (dec_fee_info (JObj [("recipient", plain "x"); ("basis_points", JObj [("value", JNum "1")]); ("amount", JObj [("value", plain "5")])])) = false /\
  (* repeated root key: the last one counts *)
  accept_memo e (JObj [("orbiter", JNull); ("orbiter", orb)]) = Ok c15_payload.
Proof. vm_compute. repeat split; reflexivity. Qed.
