(* C09 - A paused action is never executed; payloads without it are unaffected. *)
From Coq Require Import String List ZArith Bool.
From Orbiter Require Import Lib.Str Lib.Res Gen.Constants Model.Ids Model.Env Model.Payload Model.State Model.Pipeline Model.Msgs
     Proofs.PipelineProofs Proofs.SetProofs Proofs.Gates Proofs.MsgProofs Proofs.Corollaries Props.Examples.
Import ListNotations.
Open Scope string_scope.
Open Scope Z_scope.

(* a payload that is executed contains only the fee action (or none), and then that action is not
   paused; so a payload containing a paused action is refused - with the world unchanged (C03), in
   particular no fee is paid *)
Theorem C09_gate : forall cfg e w p tape,
  rr_out (recv cfg e w p tape) = OAckOk ->
  exists denom amount sender receiver pl,
    pk_data p = PIcs denom amount sender receiver (Ok pl) /\
    (p_pre pl = [] \/ exists infos, p_pre pl = [fee_action infos] /\
                                    smem cmp_z action_fee (paused_actions (w_o w)) = false /\
                                    existsb (Z.eqb action_fee) (cfg_action_routes cfg) = true).
Proof. exact success_actions. Qed.
Print Assumptions C09_gate.

(* payloads without the action do not depend on whether it is paused: success carries over to any
   world with the same ledger whose other gates pass, whatever its set of paused actions *)
Theorem C09_others_unaffected : forall cfg e w w2 p denom amount sender receiver pl,
  rr_out (recv cfg e w p []) = OAckOk ->
  pk_data p = PIcs denom amount sender receiver (Ok pl) -> p_pre pl = [] ->
  w_l w2 = w_l w -> paused_protos (w_o w2) = paused_protos (w_o w) -> paused_cc (w_o w2) = paused_cc (w_o w) ->
  max_pass (w_o w2) = max_pass (w_o w) ->
  rr_out (recv cfg e w2 p []) = OAckOk.
Proof.
  intros cfg e w w2 p denom amount sender receiver pl H Hd Hpre Hl Hp Hc Hm.
  eapply gates_only; [exact H|exact Hl|].
  intros denom' amount' sender' receiver' pl' f a cp Hd' Hf Ha Hcp.
  rewrite Hd in Hd'. inversion Hd'; subst.
  destruct (success_gates _ _ _ _ _ H) as (d2 & a2 & s2 & r2 & pl2 & f2 & at2 & cp2 & Hd2 & Hf2 & Ha2 & Hcp2 & G1 & G2 & _ & G4).
  rewrite Hd in Hd2. inversion Hd2; subst. rewrite Hf in Hf2. inversion Hf2; subst.
  rewrite Ha in Ha2. inversion Ha2; subst. rewrite Hcp in Hcp2. inversion Hcp2; subst.
  rewrite Hp, Hc. unfold pass_limit. rewrite Hm. repeat split; auto. intros Hne. congruence.
Qed.
Print Assumptions C09_others_unaffected.

Theorem C09_pause_action : forall cfg w signer name tape w' tr,
  step_msg cfg w signer (MPauseAction name) tape = (w', OutMsg 0 tr) ->
  signer = cfg_authority cfg /\ tr = [(CEmit "EventPaused", true)] /\
  exists aid, action_from_string name = Some aid /\ actions_of w aid = false /\
    (forall q, actions_of w' q = keqb cmp_z q aid || actions_of w q) /\ frame w w' false false true false.
Proof. exact msg_pause_action. Qed.
Print Assumptions C09_pause_action.

Theorem C09_unpause_action : forall cfg w signer name tape w' tr,
  step_msg cfg w signer (MUnpauseAction name) tape = (w', OutMsg 0 tr) ->
  signer = cfg_authority cfg /\ tr = [(CEmit "EventUnpaused", true)] /\
  exists aid, action_from_string name = Some aid /\ actions_of w aid = true /\
    (forall q, actions_of w' q = negb (keqb cmp_z q aid) && actions_of w q) /\ frame w w' false false true false.
Proof. exact msg_unpause_action. Qed.
Print Assumptions C09_unpause_action.

Theorem C09_queries : forall o name aid, action_from_string name = Some aid ->
  run_query o (QIsActionPaused name) = Ok (ABool (smem cmp_z aid (paused_actions o))) /\
  run_query o QPausedActions = Ok (AIds (paused_actions o)).
Proof. intros o name aid H. destruct (query_answers o) as (_ & _ & _ & _ & H5 & H6 & _). split; [apply H5; exact H|exact H6]. Qed.
Print Assumptions C09_queries.

Definition ex_fee_paused : world := fst (step_msg ex_cfg ex_world authority_address (MPauseAction "ACTION_FEE") []).
Example C09_ex :
  paused_actions (w_o ex_fee_paused) = [action_fee] /\
  rr_out (recv ex_cfg ex_env ex_fee_paused (ex_packet ex_internal) []) = OAckErr "action is paused" /\
  bal (w_l (rr_world (recv ex_cfg ex_env ex_fee_paused (ex_packet ex_internal) []))) "fee1" "uusdc" = 0 /\
  (* the same transfer without the fee action goes through *)
  rr_out (recv ex_cfg ex_env ex_fee_paused
            {| pk_sport := "transfer"; pk_schan := "channel-7"; pk_dport := "transfer"; pk_dchan := "channel-0";
               pk_data := PIcs "transfer/channel-7/uusdc" "1000" "noble1sender" orbiter_address
                               (Ok {| p_pre := []; p_fwd := Some ex_internal |}) |} []) = OAckOk /\
  snd (step_msg ex_cfg ex_fee_paused authority_address (MPauseAction "ACTION_FEE") []) = OutMsg 1 [].
Proof. vm_compute. repeat split; reflexivity. Qed.

(* ---------- on ANY chain, whatever its Hyperlane hooks charge for gas: a transfer that is executed there is
   executed on the chain without charging hooks too (C05_requests_any_hooks), so the gate holds as it stands ---------- *)
From Orbiter Require Import Proofs.GasHistories.
Theorem C09_gate_any_hooks : forall g cfg e w p tape,
  rr_out (recv_gas g cfg e w p tape 0) = OAckOk ->
  exists denom amount sender receiver pl,
    pk_data p = PIcs denom amount sender receiver (Ok pl) /\
    (p_pre pl = [] \/ exists infos, p_pre pl = [fee_action infos] /\
                                    smem cmp_z action_fee (paused_actions (w_o w)) = false /\
                                    existsb (Z.eqb action_fee) (cfg_action_routes cfg) = true).
Proof. intros g cfg e w p tape H. apply (success_actions cfg e w p tape). exact (proj1 (success_trace_hooks g cfg e w p tape H)). Qed.
Print Assumptions C09_gate_any_hooks.
