(* A concrete chain, used by the non-vacuity examples of the property files: the hypotheses of the
   theorems are satisfied by it, and the model runs on it inside Coq. *)
From Coq Require Import String Ascii List ZArith Bool.
From Orbiter Require Import Lib.Str Lib.Res Gen.Constants Model.Ids Model.Env Model.Fee Model.Denom
     Model.Payload Model.State Model.Pipeline Model.Msgs Proofs.TransferProps.
Import ListNotations.
Open Scope string_scope.
Open Scope Z_scope.

Definition ex_cfg : config :=
  {| cfg_orbiter := orbiter_address_hex; cfg_orbiter_bech := orbiter_address; cfg_dust := dust_collector_address_hex;
     cfg_warp := "aa77"; cfg_authority := authority_address;
     cfg_fwd_routes := wired_forwarding_routes; cfg_action_routes := wired_action_routes;
     cfg_adapter_routes := wired_adapter_routes;
     cfg_hyp_token := fun t => if String.eqb t "tokentokentokentokentokentokento" then Some "uusdc" else None;
     cfg_escrow := fun p c => "e5c0" ++ c;
     cfg_ibc_denom := fun path => "ibc/" ++ path |}.

Lemma ex_cfg_wf : wf_cfg ex_cfg.
Proof.
  split; try reflexivity.
  - intros H. apply String.eqb_eq in H. vm_compute in H. discriminate.
  - intros p c H. cbn in H. unfold orbiter_address_hex in H. inversion H.
Qed.

Definition ex_env : env :=
  env_of [(orbiter_address, Some orbiter_address_hex); ("noble1fee", Some "fee1"); ("noble1user", Some "user1");
          ("noble1sender", Some "sender1")]
         [("1000", Some 1000); ("7", Some 7)].

Definition ex_ledger : ledger :=
  ledger_of [(("e5c0channel-0", "uusdc"), 5000); ((orbiter_address_hex, "uusdc"), 3); ((orbiter_address_hex, "ufoo"), 9)]
            [("uusdc", 5003); ("ufoo", 9)].
Definition ex_world : world :=
  {| w_o := set_max_pass empty_ostate (Some 16); w_l := ex_ledger |}.

Definition ex_fee : option action :=
  Some {| a_id := action_fee;
          a_attrs := Some (AFee [Some {| fi_recipient := "noble1fee"; fi_type := Some (FBps 100) |};
                                 Some {| fi_recipient := "noble1fee"; fi_type := Some (FAmount "7") |}]) |}.
Definition ex_payload (f : forwarding) : payload := {| p_pre := [ex_fee]; p_fwd := Some f |}.
Definition ex_cctp : forwarding :=
  {| f_pid := protocol_cctp; f_attrs := Some (ACctp 0 "mintrecipient" "caller"); f_pass := "hello" |}.
Definition ex_hyp : forwarding :=
  {| f_pid := protocol_hyperlane;
     f_attrs := Some (AHyp "tokentokentokentokentokentokento" 1 "recipientrecipientrecipientrecip" "" "" 0 "" 0); f_pass := "" |}.
Definition ex_internal : forwarding :=
  {| f_pid := protocol_internal; f_attrs := Some (AInternal "noble1user"); f_pass := "" |}.

Definition ex_packet (f : forwarding) : packet :=
  {| pk_sport := "transfer"; pk_schan := "channel-7"; pk_dport := "transfer"; pk_dchan := "channel-0";
     pk_data := PIcs "transfer/channel-7/uusdc" "1000" "noble1sender" orbiter_address (Ok (ex_payload f)) |}.

Definition ex_run (f : forwarding) (tape : list bool) : recv_result := recv ex_cfg ex_env ex_world (ex_packet f) tape.

(* the three routes succeed; 1% of 1000 and 7 go to the fee recipient, 983 are forwarded, the 3 uusdc
   that were lying on the orbiter account end on the dust collector, the 9 ufoo stay *)
Example ex_success :
  rr_out (ex_run ex_cctp []) = OAckOk /\ rr_out (ex_run ex_hyp []) = OAckOk /\ rr_out (ex_run ex_internal []) = OAckOk /\
  rr_moves (ex_run ex_cctp []) =
    [MSend orbiter_address_hex dust_collector_address_hex "uusdc" 3;
     MSend "e5c0channel-0" orbiter_address_hex "uusdc" 1000;
     MSend orbiter_address_hex "fee1" "uusdc" 10; MSend orbiter_address_hex "fee1" "uusdc" 7;
     MBurn orbiter_address_hex "uusdc" 983] /\
  bal (w_l (rr_world (ex_run ex_internal []))) "user1" "uusdc" = 983 /\
  bal (w_l (rr_world (ex_run ex_internal []))) orbiter_address_hex "uusdc" = 0 /\
  bal (w_l (rr_world (ex_run ex_internal []))) orbiter_address_hex "ufoo" = 9.
Proof. vm_compute. repeat split; reflexivity. Qed.

(* a failing bridge call (6th external call) gives an error acknowledgement and the old world *)
Example ex_fault :
  rr_out (ex_run ex_cctp [true; true; true; true; true; false]) = OAckErr "cctp: deposit for burn failed" /\
  bal (w_l (rr_world (ex_run ex_cctp [true; true; true; true; true; false]))) "fee1" "uusdc" = 0.
Proof. vm_compute. split; reflexivity. Qed.
