(* C13 - Statistics queries and pagination are faithful views of the ledger. *)
From Coq Require Import String List ZArith Bool.
From Orbiter Require Import Lib.Str Lib.Res Gen.Constants Model.Ids Model.Env Model.Payload Model.State Model.Pipeline Model.Msgs Model.Genesis Model.Page
     Proofs.OrderTheory Proofs.GenesisProofs Proofs.GasHistories Proofs.PageProofs Corr.RunPage Props.Examples.
Import ListNotations.
Open Scope string_scope.
Open Scope Z_scope.
Open Scope list_scope.

(* The ledgers quantified over: every module state reached from a state satisfying the invariant [Inv]
   (sorted, duplicate-free maps of well-formed, positive entries - what a validated genesis establishes,
   C17_init_establishes) by ANY history of packets, messages, deposits and queries. *)
Theorem C13_reachable : forall cfg e ops w, Inv (w_o w) -> Inv (w_o (final_world cfg e w ops)).
Proof. exact (fun cfg e ops w => history_inv cfg e ops w). Qed.
Print Assumptions C13_reachable.

(* ... on ANY chain: whatever its Hyperlane hooks charge for gas, a history reaches a world that a history on the
   chain without such hooks reaches too (the gas payments made explicit as plain movements), so the invariant holds *)
Theorem C13_reachable_any_hooks : forall g cfg e ops w, Inv (w_o w) -> Inv (w_o (final_world_gas g cfg e w ops)).
Proof. exact history_inv_gas. Qed.
Print Assumptions C13_reachable_any_hooks.
Theorem C13_reachable_simulated : forall g cfg e ops w, exists ops', final_world_gas g cfg e w ops = final_world cfg e w ops'.
Proof. exact gas_history_simulated. Qed.
Print Assumptions C13_reachable_simulated.

(* direct lookups: the entry is returned exactly when the ledger holds it - and every entry the ledger
   holds is non-zero; identifiers are validated first *)
Theorem C13_lookup_amount : forall o, Inv o -> forall sn sc dn dc den k v,
  lookup_amount o sn sc dn dc den = Ok (k, v) <->
  exists sp dp, protocol_from_string sn = Some sp /\ protocol_from_string dn = Some dp /\
                ccid_valid {| c_proto := sp; c_cp := sc |} = true /\ ccid_valid {| c_proto := dp; c_cp := dc |} = true /\ den <> "" /\
                k = {| ak_sp := sp; ak_sc := sc; ak_dst := ccid_id {| c_proto := dp; c_cp := dc |}; ak_denom := den |} /\
                In (k, v) (amounts o).
Proof. exact lookup_amount_exact. Qed.
Print Assumptions C13_lookup_amount.

Theorem C13_lookup_count : forall o, Inv o -> forall sn sc dn dc k v,
  lookup_count o sn sc dn dc = Ok (k, v) <->
  exists sp dp, protocol_from_string sn = Some sp /\ protocol_from_string dn = Some dp /\
                ccid_valid {| c_proto := sp; c_cp := sc |} = true /\ ccid_valid {| c_proto := dp; c_cp := dc |} = true /\
                k = {| ck_sp := sp; ck_sc := sc; ck_dp := dp; ck_dc := dc |} /\ In (k, v) (counts o).
Proof. exact lookup_count_exact. Qed.
Print Assumptions C13_lookup_count.

(* on ANY state, invariant or not: a stored zero entry is not reported, a non-zero one is *)
Theorem C13_lookup_nonzero : forall o sp sc dp dc den sn dn,
  protocol_from_string sn = Some sp -> protocol_from_string dn = Some dp ->
  ccid_valid {| c_proto := sp; c_cp := sc |} = true -> ccid_valid {| c_proto := dp; c_cp := dc |} = true -> den <> "" ->
  let k := {| ak_sp := sp; ak_sc := sc; ak_dst := ccid_id {| c_proto := dp; c_cp := dc |}; ak_denom := den |} in
  forall i u, lookup_amount o sn sc dn dc den = Ok (k, (i, u)) <-> mget cmp_ak k (amounts o) = Some (i, u) /\ (0 < i \/ 0 < u).
Proof. exact lookup_amount_nonzero. Qed.
Print Assumptions C13_lookup_nonzero.

(* the four listings: exactly the matching entries of the primary maps - no omission, no foreign entry,
   no duplicate; the destination protocol is read off the textual destination identifier *)
Theorem C13_listings : forall o, Inv o -> forall pid,
  (forall e, In e (amounts_by_source o pid) <-> In e (amounts o) /\ ak_sp (fst e) = pid) /\
  (forall e, In e (amounts_by_dest o pid) <->
             In e (amounts o) /\ exists d, ccid_valid d = true /\ ak_dst (fst e) = ccid_id d /\ c_proto d = pid) /\
  (forall e, In e (counts_by_source o pid) <-> In e (counts o) /\ ck_sp (fst e) = pid) /\
  (forall e, In e (counts_by_dest o pid) <-> In e (counts o) /\ ck_dp (fst e) = pid) /\
  NoDup (amounts_by_source o pid) /\ NoDup (amounts_by_dest o pid) /\ NoDup (counts_by_source o pid) /\ NoDup (counts_by_dest o pid).
Proof. exact listings_exact. Qed.
Print Assumptions C13_listings.

(* for ANY page size (0 = the default of 100), following next-keys forwards or in reverse from the
   start returns pages whose concatenation is the listing (or its reverse) - every matching entry
   exactly once, none else - in pages of at most the limit *)
Theorem C13_walk_amounts : forall o l n rv, Inv o -> amount_listing o l ->
  let W := walk cmp_ak fst (S (length l)) l n rv None true in
  concat W = (if rv then rev l else l) /\ Forall (fun p => (length p <= limit_of n)%nat) W.
Proof. exact walk_amounts. Qed.
Print Assumptions C13_walk_amounts.
Theorem C13_walk_counts : forall o l n rv, Inv o -> count_listing o l ->
  let W := walk cmp_ck fst (S (length l)) l n rv None true in
  concat W = (if rv then rev l else l) /\ Forall (fun p => (length p <= limit_of n)%nat) W.
Proof. exact walk_counts. Qed.
Print Assumptions C13_walk_counts.

(* any offset / limit / count-total / reverse combination: that chunk, the next key exactly when
   something follows, the total = the number of matching entries whenever it is requested
   (count-total or limit 0) *)
Theorem C13_page_amounts : forall o l off n ct rv, Inv o -> amount_listing o l -> (off <= length l)%nat ->
  paginate cmp_ak fst l {| pr_key := None; pr_offset := off; pr_limit := n; pr_count_total := ct; pr_reverse := rv |} =
    Ok {| pg_items := firstn (limit_of n) (skipn off (if rv then rev l else l));
          pg_next := match skipn (limit_of n) (skipn off (if rv then rev l else l)) with x :: _ => Some (fst x) | [] => None end;
          pg_total := if (if Nat.eqb n 0 then true else ct) then length l else 0%nat |}.
Proof. exact page_amounts. Qed.
Print Assumptions C13_page_amounts.
Theorem C13_page_counts : forall o l off n ct rv, Inv o -> count_listing o l -> (off <= length l)%nat ->
  paginate cmp_ck fst l {| pr_key := None; pr_offset := off; pr_limit := n; pr_count_total := ct; pr_reverse := rv |} =
    Ok {| pg_items := firstn (limit_of n) (skipn off (if rv then rev l else l));
          pg_next := match skipn (limit_of n) (skipn off (if rv then rev l else l)) with x :: _ => Some (fst x) | [] => None end;
          pg_total := if (if Nat.eqb n 0 then true else ct) then length l else 0%nat |}.
Proof. exact page_counts. Qed.
Print Assumptions C13_page_counts.

(* any key of the listing: the run starting at that entry, in the direction asked *)
Theorem C13_resume_amounts : forall o (l : list (akey * (Z * Z))) n ct (rv : bool) pre x b, Inv o -> amount_listing o l -> (if rv then rev l else l) = pre ++ x :: b ->
  paginate cmp_ak fst l {| pr_key := Some (fst x); pr_offset := 0; pr_limit := n; pr_count_total := ct; pr_reverse := rv |} =
    Ok {| pg_items := firstn (limit_of n) (x :: b);
          pg_next := match skipn (limit_of n) (x :: b) with y :: _ => Some (fst y) | [] => None end; pg_total := 0 |}.
Proof. exact resume_amounts. Qed.
Print Assumptions C13_resume_amounts.
Theorem C13_resume_counts : forall o (l : list (ckey * Z)) n ct (rv : bool) pre x b, Inv o -> count_listing o l -> (if rv then rev l else l) = pre ++ x :: b ->
  paginate cmp_ck fst l {| pr_key := Some (fst x); pr_offset := 0; pr_limit := n; pr_count_total := ct; pr_reverse := rv |} =
    Ok {| pg_items := firstn (limit_of n) (x :: b);
          pg_next := match skipn (limit_of n) (x :: b) with y :: _ => Some (fst y) | [] => None end; pg_total := 0 |}.
Proof. exact resume_counts. Qed.
Print Assumptions C13_resume_counts.

(* page sizes are 64-bit numbers in a request and [nat]s here: every page size above the number of entries of the
   listing gives the same page and the same walk (all that is left, no next key) - what the harness hands the model
   for a request with limit 2^63 or 2^64-1 *)
Theorem C13_huge_limits : forall {K A} (cmp : K -> K -> comparison) (keyof : A -> K) (l : list A) key off ct rv (n m : nat),
  (length l < n)%nat -> (length l < m)%nat ->
  paginate cmp keyof l {| pr_key := key; pr_offset := off; pr_limit := n; pr_count_total := ct; pr_reverse := rv |} =
  paginate cmp keyof l {| pr_key := key; pr_offset := off; pr_limit := m; pr_count_total := ct; pr_reverse := rv |}.
Proof. intros K A. exact (@paginate_limit_beyond K A). Qed.
Print Assumptions C13_huge_limits.
Theorem C13_huge_limits_walk : forall {K A} (cmp : K -> K -> comparison) (keyof : A -> K) (l : list A) rv (n m : nat),
  (length l < n)%nat -> (length l < m)%nat ->
  forall fuel key first, walk cmp keyof fuel l n rv key first = walk cmp keyof fuel l m rv key first.
Proof. intros K A. exact (@walk_limit_beyond K A). Qed.
Print Assumptions C13_huge_limits_walk.

(* non-vacuity: a ledger reached by transfers, its listings and a walk in pages of one *)
Definition c13_ops : list op :=
  [ORecv (ex_packet ex_cctp) [] 0; ORecv (ex_packet ex_hyp) [] 0; ORecv (ex_packet ex_internal) [] 0; ORecv (ex_packet ex_cctp) [] 0].
Example C13_ex :
  let o := w_o (final_world ex_cfg ex_env ex_world c13_ops) in
  length (amounts o) = 3%nat /\
  map (fun e => ak_dst (fst e)) (amounts_by_source o protocol_ibc) = ["2:0"; "3:1"; "4:noble"] /\
  map (fun e => ak_dst (fst e)) (amounts_by_dest o protocol_hyperlane) = ["3:1"] /\
  map (map (fun e => ak_dst (fst e))) (walk cmp_ak fst 4 (amounts_by_source o protocol_ibc) 1 true None true) = [["4:noble"]; ["3:1"]; ["2:0"]] /\
  map (map (fun e => ak_dst (fst e))) (walk cmp_ak fst 4 (amounts_by_source o protocol_ibc) 2 false None true) = [["2:0"; "3:1"]; ["4:noble"]].
Proof. vm_compute. repeat split; reflexivity. Qed.
Example C13_ex_inv : Inv (w_o ex_world).
Proof. apply empty_inv. Qed.
