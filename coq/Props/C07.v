(* C07 - Traffic not addressed to the orbiter is handled as if the middleware were absent. *)
From Coq Require Import String List ZArith Bool.
From Orbiter Require Import Lib.Str Lib.Res Gen.Constants Model.Ids Model.Env Model.Payload Model.State Model.Pipeline
     Proofs.TransferProps Proofs.PassthroughProofs Props.Examples.
Import ListNotations.
Open Scope string_scope.
Open Scope Z_scope.

(* for an ARBITRARY wrapped application [app], any action table, any world, any fault tape: a packet
   that is not (ICS-20 data whose receiver decodes to the orbiter account), arriving on a valid
   channel identifier with non-empty source port and channel, is handled by [app] alone - the
   middleware's result IS the application's result (acknowledgement, state, events/calls), computed
   from the same initial state; nothing of the orbiter's own logic runs *)
Theorem C07_passthrough : forall (app : world -> packet -> pst -> recv_result) cfg acts e w p tape lie,
  foreign cfg e p = true ->
  is_valid_channel_id (pk_dchan p) = true ->
  pk_sport p <> "" -> pk_schan p <> "" ->
  existsb (Z.eqb protocol_ibc) (cfg_adapter_routes cfg) = true ->
  recv_generic repaired cfg acts app e w p tape lie =
    app w p {| ps_l := w_l w; ps_tape := tape; ps_trace := []; ps_moves := [] |}.
Proof. exact middleware_is_the_application. Qed.
Print Assumptions C07_passthrough.

(* every channel identifier IBC core can deliver on (channel-N, N < 2^64) passes the middleware's first check *)
Theorem C07_all_channels : forall s,
  is_valid_channel_id s = true -> ccid_valid {| c_proto := protocol_ibc; c_cp := s |} = true.
Proof. exact valid_channel_is_valid_source. Qed.
Print Assumptions C07_all_channels.

(* with the ICS-20 application as modelled: the orbiter's module state and its account are untouched *)
Theorem C07_orbiter_untouched : forall cfg e w p tape d,
  wf_cfg cfg ->
  rr_out (recv cfg e w p tape) = ODelegated true ->
  bal (w_l (rr_world (recv cfg e w p tape))) (cfg_orbiter cfg) d = bal (w_l w) (cfg_orbiter cfg) d /\
  w_o (rr_world (recv cfg e w p tape)) = w_o w.
Proof. intros cfg e w p tape d Hwf H. exact (delegated_orbiter_unchanged cfg e w p tape 0 d Hwf H). Qed.
Print Assumptions C07_orbiter_untouched.

Example C07_ex :
  (* a memo containing a valid orbiter payload, receiver another account, on channel-18446744073709551615 *)
  let p := {| pk_sport := "transfer"; pk_schan := "channel-7"; pk_dport := "transfer"; pk_dchan := "channel-18446744073709551615";
              pk_data := PIcs "uatom" "1000" "noble1sender" "noble1user" (Ok (ex_payload ex_internal)) |} in
  foreign ex_cfg ex_env p = true /\ is_valid_channel_id (pk_dchan p) = true /\
  rr_out (recv ex_cfg ex_env ex_world p []) = ODelegated true /\
  rr_moves (recv ex_cfg ex_env ex_world p []) = [MMint "user1" "ibc/transfer/channel-18446744073709551615/uatom" 1000] /\
  w_o (rr_world (recv ex_cfg ex_env ex_world p [])) = w_o ex_world.
Proof. vm_compute. repeat split; reflexivity. Qed.
