(* C12 - Dispatch statistics equal the fold of the successful transfers. *)
From Coq Require Import String List ZArith Bool.
From Orbiter Require Import Lib.Str Lib.Res Gen.Constants Model.Ids Model.Env Model.Payload Model.State Model.Pipeline Model.Msgs
     Proofs.PipelineProofs Proofs.TransferProps Proofs.StatsProofs Props.Examples.
Import ListNotations.
Open Scope string_scope.
Open Scope Z_scope.
Open Scope list_scope.

(* after ANY history of packets (successful, refused, delegated, faulty), admin messages, deposits and
   queries, the totals are the initial ones plus the sums over the successful transfers - per
   (source, destination, denomination) - and the counts their number per (source, destination).
   Hypothesis [fits_along]: whenever a transfer is recorded the running totals stay below 2^256 and
   the count below 2^64-1 (otherwise the update is refused and - deliberately - swallowed). *)
Theorem C12_fold : forall cfg e ops w,
  fits_along cfg e w ops ->
  (forall k, stat_get (w_o (fst (run_ops cfg e w ops))) k =
             (fst (stat_get (w_o w) k) + sum_in (snd (run_ops cfg e w ops)) k,
              snd (stat_get (w_o w) k) + sum_out (snd (run_ops cfg e w ops)) k)) /\
  (forall k, count_get (w_o (fst (run_ops cfg e w ops))) k = count_get (w_o w) k + sum_count (snd (run_ops cfg e w ops)) k).
Proof. exact stats_fold. Qed.
Print Assumptions C12_fold.

(* what one successful transfer contributes: incoming = the amount the packet delivered, outgoing =
   the amount forwarded, incoming - outgoing = the fees paid (the fee movements of C02), under
   source = (IBC, the packet's destination channel) and the credited denomination *)
Theorem C12_contribution : forall cfg e w p tape,
  rr_out (recv cfg e w p tape) = OAckOk ->
  exists r,
    rr_stat (recv cfg e w p tape) = Some r /\
    sr_sp r = protocol_ibc /\ sr_sc r = pk_dchan p /\ sr_sdenom r = sr_ddenom r /\ 0 < sr_out r /\ sr_out r <= sr_in r /\
    (exists fees sink rest, rr_moves (recv cfg e w p tape) = rest ++ fees ++ [sink] /\
                            sr_in r = moves_total fees + sr_out r /\ Forall (fee_move_ok cfg (sr_ddenom r)) fees) /\
    (fits_stat (w_o w) r -> recorded (w_o w) (w_o (rr_world (recv cfg e w p tape))) r).
Proof. exact recv_records. Qed.
Print Assumptions C12_contribution.

(* refused transfers, non-orbiter traffic: no trace *)
Theorem C12_nothing_else : forall cfg e w p tape,
  rr_out (recv cfg e w p tape) <> OAckOk ->
  w_o (rr_world (recv cfg e w p tape)) = w_o w /\ rr_stat (recv cfg e w p tape) = None.
Proof. exact recv_no_record. Qed.
Print Assumptions C12_nothing_else.

(* admin messages: no trace *)
Theorem C12_messages : forall cfg w signer m tape,
  amounts (w_o (fst (step_msg cfg w signer m tape))) = amounts (w_o w) /\
  counts (w_o (fst (step_msg cfg w signer m tape))) = counts (w_o w).
Proof. exact step_msg_stats. Qed.
Print Assumptions C12_messages.

Example C12_ex :
  let ops := [ORecv (ex_packet ex_cctp) [] 0; ORecv (ex_packet ex_cctp) [true; false] 0;
              OMsg authority_address (MPauseProtocol "PROTOCOL_HYPERLANE") []; ORecv (ex_packet ex_hyp) [] 0;
              ORecv (ex_packet ex_cctp) [] 0] in
  amounts (w_o (final_world ex_cfg ex_env ex_world ops)) =
    [({| ak_sp := protocol_ibc; ak_sc := "channel-0"; ak_dst := "2:0"; ak_denom := "uusdc" |}, (2000, 1966))] /\
  counts (w_o (final_world ex_cfg ex_env ex_world ops)) =
    [({| ck_sp := protocol_ibc; ck_sc := "channel-0"; ck_dp := protocol_cctp; ck_dc := "0" |}, 2)].
Proof. vm_compute. split; reflexivity. Qed.

(* ---------- on ANY chain, whatever its Hyperlane hooks charge for gas: the statistics after a history are the
   fold of its successful transfers (a transfer that a charging hook makes fail is not one; one that it lets
   through is recorded exactly as on the chain without the hook) ---------- *)
From Orbiter Require Import Proofs.GasHistories.
Theorem C12_fold_any_hooks : forall g cfg e ops w,
  fits_along_gas g cfg e w ops ->
  (forall k, stat_get (w_o (fst (run_ops_gas g cfg e w ops))) k =
             (fst (stat_get (w_o w) k) + sum_in (snd (run_ops_gas g cfg e w ops)) k,
              snd (stat_get (w_o w) k) + sum_out (snd (run_ops_gas g cfg e w ops)) k)) /\
  (forall k, count_get (w_o (fst (run_ops_gas g cfg e w ops))) k = count_get (w_o w) k + sum_count (snd (run_ops_gas g cfg e w ops)) k).
Proof. exact stats_fold_gas. Qed.
Print Assumptions C12_fold_any_hooks.
