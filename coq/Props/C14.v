(* C14 - No input makes the receive path panic; malformed payloads are refused.
   In the model a Go panic is the distinguished outcome [Panic] / [OPanic], produced only by the
   partial primitives (nil dereference, Int overflow in a non-Safe operation, sdk.NewCoin on an
   invalid coin, slice-to-array conversion of a short slice).  The theorem says no guard is missing. *)
From Coq Require Import String List ZArith Bool.
From Orbiter Require Import Lib.Res Gen.Constants Model.Ids Model.Env Model.Fee Model.Denom Model.Payload Model.State Model.Pipeline
     Model.Json Proofs.FeeProofs Proofs.NoPanic Proofs.Corollaries Proofs.JsonProofs Props.Examples.
Import ListNotations.
Open Scope string_scope.
Open Scope Z_scope.

(* for every configuration, environment, world, packet (any data: [PRaw] is arbitrary bytes; any
   payload object graph with absent forwarding, absent entries, absent attributes, nil integers, empty
   coins, short byte strings, 2^256-sized numbers), every fault plan: an acknowledgement, never a panic
   - provided the memo decoder itself returned (its totality is C15's concern) *)
Theorem C14_total : forall cfg e w p tape,
  is_panic (memo_of p) = false ->
  forall x, rr_out (recv cfg e w p tape) <> OPanic x.
Proof. intros cfg e w p tape H x. exact (recv_never_panics cfg e w p tape 0 H x). Qed.
Print Assumptions C14_total.

(* whatever the chain's Hyperlane post-dispatch hooks charge for gas *)
Theorem C14_total_hooks : forall g cfg e w p tape,
  is_panic (memo_of p) = false ->
  forall x, rr_out (recv_gas g cfg e w p tape 0) <> OPanic x.
Proof. intros g cfg e w p tape H x. exact (recv_gas_never_panics g cfg e w p tape 0 H x). Qed.
Print Assumptions C14_total_hooks.

(* ... and the decoder does return, for EVERY JSON document (null / absent / wrongly typed members at every
   position, null list entries, repeated keys, extreme numbers): an error, never a panic - so whatever
   document the memo holds, the receive path answers with an acknowledgement *)
Theorem C14_decoder_total : forall e t, is_panic (decode_memo e t) = false.
Proof. exact decode_never_panics. Qed.
Print Assumptions C14_decoder_total.
Theorem C14_total_json : forall cfg e w p tape t,
  memo_of p = decode_memo e t ->
  forall x, rr_out (recv cfg e w p tape) <> OPanic x.
Proof. intros cfg e w p tape t H. apply C14_total. rewrite H. apply decode_never_panics. Qed.
Print Assumptions C14_total_json.

(* a memo the decoder rejects, or a payload the validator rejects, addressed to the orbiter account:
   error acknowledgement *)
Theorem C14_refused : forall cfg e w p tape denom amount sender receiver memo,
  pk_data p = PIcs denom amount sender receiver memo ->
  e_bech32 e receiver = Some (cfg_orbiter cfg) ->
  (exists l, memo = Err l) \/ (exists pl, memo = Ok pl /\ payload_validate pl <> Ok tt) ->
  exists l, rr_out (recv cfg e w p tape) = OAckErr l.
Proof. exact malformed_refused. Qed.
Print Assumptions C14_refused.

(* the pure stages on their own *)
Theorem C14_fee_total : forall e A infos, is_panic (fee_plan e A infos) = false.
Proof. exact fee_plan_never_panics. Qed.
Theorem C14_validate_total : forall pl, is_panic (payload_validate pl) = false.
Proof. exact payload_validate_total. Qed.
Theorem C14_stats_total : forall o t f, is_panic (update_stats_swallow true o t f) = false.
Proof. exact update_stats_total. Qed.

Example C14_ex :
  (* a nil pre-action, a nil fee entry, a short Hyperlane recipient: errors, not panics *)
  rr_out (recv ex_cfg ex_env ex_world
            {| pk_sport := "transfer"; pk_schan := "channel-7"; pk_dport := "transfer"; pk_dchan := "channel-0";
               pk_data := PIcs "transfer/channel-7/uusdc" "1000" "noble1sender" orbiter_address
                               (Ok {| p_pre := [None]; p_fwd := Some ex_internal |}) |} []) = OAckErr "action is not set" /\
  rr_out (recv ex_cfg ex_env ex_world
            {| pk_sport := "transfer"; pk_schan := "channel-7"; pk_dport := "transfer"; pk_dchan := "channel-0";
               pk_data := PIcs "transfer/channel-7/uusdc" "1000" "noble1sender" orbiter_address
                               (Ok {| p_pre := [Some {| a_id := action_fee; a_attrs := Some (AFee [None]) |}];
                                      p_fwd := Some ex_internal |}) |} []) = OAckErr "fee: invalid attributes" /\
  rr_out (ex_run {| f_pid := protocol_hyperlane;
                    f_attrs := Some (AHyp "tokentokentokentokentokentokento" 1 "short" "" "" 0 "" 0); f_pass := "" |} [])
    = OAckErr "hyperlane: recipient length" /\
  (* the pinned commit panicked on each of them (Model/Pipeline.v [pinned]) *)
  rr_out (recv_pinned ex_cfg ex_env ex_world
            {| pk_sport := "transfer"; pk_schan := "channel-7"; pk_dport := "transfer"; pk_dchan := "channel-0";
               pk_data := PIcs "transfer/channel-7/uusdc" "1000" "noble1sender" orbiter_address
                               (Ok {| p_pre := [None]; p_fwd := Some ex_internal |}) |} [])
    = OPanic "Payload.Validate: nil action dereferenced".
Proof. vm_compute. repeat split; reflexivity. Qed.
