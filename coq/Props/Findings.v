(* Machine-checked refutations for the code as it was at the pinned commit (DESIGN §8): each
   statement exhibits a witness, evaluated by vm_compute, on which the pre-repair definition
   (kept in the model as *_legacy) violates the property. *)
From Coq Require Import String List ZArith NArith Bool.
From Orbiter Require Import Lib.Str Gen.Constants Model.Ids.
Open Scope string_scope.

(* finding 12 (C20): strconv.Atoi accepted non-canonical spellings, so two accepted identifiers
   denoted the same domain and a pause of "01" did not cover transfers recorded under "1". *)
Theorem C20_legacy_refuted :
  exists s1 s2, s1 <> s2 /\
    valid_counterparty_with is_integer_legacy s1 protocol_cctp = true /\
    valid_counterparty_with is_integer_legacy s2 protocol_cctp = true /\
    parse_signed (-9223372036854775808) 9223372036854775807 s1 =
    parse_signed (-9223372036854775808) 9223372036854775807 s2 /\
    domain_counterparty 1 = s1 /\ domain_counterparty 1 <> s2.
Proof.
  exists "1", "01". vm_compute. repeat split; try reflexivity; discriminate.
Qed.
Theorem C20_legacy_out_of_range :
  valid_counterparty_with is_integer_legacy "4294967296" protocol_hyperlane = true /\
  valid_counterparty_with is_integer_legacy "-1" protocol_cctp = true /\
  valid_counterparty_with is_integer_legacy "+7" protocol_cctp = true.
Proof. vm_compute. repeat split; reflexivity. Qed.

(* finding 5 (C04, C14): two fixed fees whose sum reaches 2^256 made Total.Add panic at the pinned
   commit; the repaired code (SafeAdd) refuses with an error. *)
From Orbiter Require Import Lib.Res Model.Env Model.Fee.
Import ListNotations.
Open Scope Z_scope.
Definition big_env : env :=
  env_of [("r"%string, Some "a"%string)] [("2^255"%string, Some (2 ^ 255))].
Definition two_big_fees : list (option fee_info) :=
  [Some {| fi_recipient := "r"; fi_type := Some (FAmount "2^255") |};
   Some {| fi_recipient := "r"; fi_type := Some (FAmount "2^255") |}].
Theorem C04_legacy_refuted :
  is_panic (fee_plan_legacy big_env (2 ^ 256 - 1) two_big_fees) = true /\
  is_panic (fee_plan big_env (2 ^ 256 - 1) two_big_fees) = false.
Proof. vm_compute. split; reflexivity. Qed.

(* finding 15 (C15, C19): a fee entry carrying BOTH alternatives of the fee type.  The generic proto-JSON
   decoder visits the alternatives by iterating over a Go map and keeps the last one visited: which
   one is a coin toss per run ([first_bps]).  With the decoder as it was, parsing is not a function of
   the memo; the repaired parser refuses such documents (Model/Json.v dec_fee_info). *)
From Orbiter Require Import Model.Json.
Definition dec_fee_type_legacy (first_bps : bool) (f : list (string * json)) : res (option fee_type) :=
  match jfield alt_bps f, jfield alt_amount f with
  | Some j1, Some j2 => if first_bps then dec_amount j2 else dec_bps j1     (* the last visited wins *)
  | Some j1, None => dec_bps j1
  | None, Some j2 => dec_amount j2
  | None, None => Ok None
  end.
Definition both_alternatives : list (string * json) :=
  [("recipient", plain "noble1zw7vatnx0vla7gzxucgypz0kfr6965akpvzw69"); ("basis_points", JObj [("value", JNum "100")]); ("amount", JObj [("value", plain "5")])].
Theorem C15_legacy_refuted : dec_fee_type_legacy true both_alternatives <> dec_fee_type_legacy false both_alternatives.
Proof. vm_compute. discriminate. Qed.
Theorem C15_repaired_refuses : is_ok (dec_fee_info (JObj both_alternatives)) = false.
Proof. reflexivity. Qed.


(* finding 15 (C13, C08): walking a listing in REVERSE by following next keys.  The SDK starts a reverse
   page at the end of the range of keys that have the requested key as a byte prefix
   (PrefixEndBytes(prefix ++ key)); the last string of a store key is written without a terminator, so
   with counterparties "1" and "10" the page requested from key "1" starts at "10" again: the walk serves
   "10" for ever and never reaches "1".  The repaired listing helper starts exactly at the requested key,
   which is what Model/Page.v [paginate] does. *)
From Coq Require Import Ascii NArith.
From Orbiter Require Import Model.State Model.Page.
Fixpoint prefix_end (s : string) : string :=          (* PrefixEndBytes on a non-empty key not ending in 0xFF *)
  match s with
  | "" => ""
  | String c "" => String (ascii_of_N (N_of_ascii c + 1)) ""
  | String c r => String c (prefix_end r)
  end.
(* one reverse page of size 1 from a key, as the pinned code served it: (item, next key) *)
Definition legacy_reverse_page (sorted : list string) (key : string) : option string * option string :=
  let from := drop_while (fun a => match cmp_str a (prefix_end key) with Lt => false | _ => true end) (rev sorted) in
  (hd_error from, hd_error (tl from)).
Theorem C13_legacy_refuted :
  (* the listing is "1", "10", "2" in key order; the walk is at key "1" *)
  legacy_reverse_page ["1"; "10"; "2"] "1" = (Some "10", Some "1") /\
  (* the repaired page from the same key: the entry itself, and nothing after it *)
  paginate cmp_str (fun s : string => s) ["1"; "10"; "2"]
    {| pr_key := Some "1"; pr_offset := 0; pr_limit := 1; pr_count_total := false; pr_reverse := true |}
  = Ok {| pg_items := ["1"]; pg_next := None; pg_total := 0 |}.
Proof. vm_compute. split; reflexivity. Qed.

(* finding 16 (C14): a Hyperlane forwarding whose max fee is a non-zero coin the SDK refuses to build (an
   invalid denomination, a negative amount).  The attributes did not validate it and the Warp module's
   sdk.NewCoins panicked inside the receive path; the repaired HypAttributes.Validate refuses it. *)
From Orbiter Require Import Model.Payload Model.Pipeline Props.Examples.
Definition hyp_bad_fee (denom : string) (amt : Z) : forwarding :=
  {| f_pid := protocol_hyperlane;
     f_attrs := Some (AHyp "tokentokentokentokentokentokento" 1 "recipientrecipientrecipientrecip" "" "" 0 denom amt); f_pass := "" |}.
Theorem C14_legacy_max_fee_refuted :
  rr_out (recv_pinned ex_cfg ex_env ex_world (ex_packet (hyp_bad_fee "1bad" 1)) []) = OPanic "warp: sdk.NewCoins on an invalid max fee" /\
  rr_out (recv_pinned ex_cfg ex_env ex_world (ex_packet (hyp_bad_fee "uusdc" (-1))) []) = OPanic "warp: sdk.NewCoins on an invalid max fee" /\
  rr_out (recv ex_cfg ex_env ex_world (ex_packet (hyp_bad_fee "1bad" 1)) []) = OAckErr "hyperlane: invalid max fee" /\
  rr_out (recv ex_cfg ex_env ex_world (ex_packet (hyp_bad_fee "uusdc" (-1))) []) = OAckErr "hyperlane: invalid max fee" /\
  (* a zero max fee, whatever its denomination, and a valid one are forwarded *)
  rr_out (recv ex_cfg ex_env ex_world (ex_packet (hyp_bad_fee "x" 0)) []) = OAckOk /\
  rr_out (recv ex_cfg ex_env ex_world (ex_packet (hyp_bad_fee "uusdc" 5)) []) = OAckOk.
Proof. vm_compute. repeat split; reflexivity. Qed.

(* finding 18 (C17): a genesis whose dispatched-amount entry carries a denomination that is not a valid one -
   here one containing the key terminator.  The pinned DispatchedAmountEntry.Validate only required a non-empty
   denomination, so validation accepted what InitGenesis cannot store (the denomination is a non-terminal
   string of the by-destination index key); the repaired validation refuses it. *)
From Orbiter Require Import Model.Genesis.
Definition amount_valid_legacy (a : gen_amount) : bool :=
  negb (String.eqb (ga_denom a) "") && ccid_ok (ga_src a) && ccid_ok (ga_dst a) &&
  (0 <=? ga_in a) && (0 <=? ga_out a) && ((0 <? ga_in a) || (0 <? ga_out a)).
Definition nul_denom_entry : gen_amount :=
  {| ga_src := Some {| c_proto := protocol_ibc; c_cp := "channel-0" |}; ga_dst := Some {| c_proto := protocol_cctp; c_cp := "0" |};
     ga_denom := String "a" (String "000" "b"); ga_in := 1; ga_out := 1 |}.
Theorem C17_legacy_denom_refuted :
  amount_valid_legacy nul_denom_entry = true /\
  set_amount empty_ostate nul_denom_entry = Err "key encoding: string contains the terminator" /\
  amount_valid nul_denom_entry = false.
Proof. vm_compute. repeat split; reflexivity. Qed.

(* finding 20 (C17): a counterparty identifier of the free-form protocol that is not valid UTF-8.  The pinned
   validation accepted any string without a NUL byte; the exported JSON genesis cannot carry such bytes, so the
   state did not survive an export / import.  The repaired validation requires valid UTF-8 (unicode/utf8.ValidString,
   transcribed as [utf8_valid]). *)
Theorem C17_legacy_utf8_refuted :
  let bad := String "a" (String (ascii_of_N 255) "b") in
  no_char "000"%char bad = true /\ valid_counterparty bad protocol_internal = false /\
  utf8_valid (String (ascii_of_N 195) (String (ascii_of_N 169) "")) = true /\     (* U+00E9 *)
  utf8_valid (String (ascii_of_N 237) (String (ascii_of_N 160) (String (ascii_of_N 128) ""))) = false /\   (* a surrogate *)
  utf8_valid (String (ascii_of_N 192) (String (ascii_of_N 175) "")) = false.      (* an overlong form *)
Proof. vm_compute. repeat split; reflexivity. Qed.
